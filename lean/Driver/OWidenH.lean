import Driver.Common
import CrabModel.Dom.OctWiden

/-!
  Handler for component `ow` (property C05, harness `h_owiden.cpp`): the EXACT tie of the split
  octagon widening model (`CrabModel/Dom/OctWiden.lean`, theorems `CrabProofs/Props/C05Oct.lean`)
  to `split_oct_domain`.

  A line gives a start value `x0` and further values `y_i` by in-language constraints and, per step
  of the real chain `x_{i+1} = x_i || y_i`, what the code said and HOLDS: the private representation
  (`m_vert_map`, `m_unstable`, every edge of `m_graph`) of `x0`, of every `y_i` and of every
  `x_{i+1}` as stored, the flags `y_i.is_bottom()`, `y_i <= x_i`, `x_{i+1} <= x_i`, and
  `x_{i+1}.is_bottom()` with the constraint system of a (normalised) copy of `x_{i+1}`.  The handler

  * ties the operands to the request: the tight closure (`Octagon.close`, proved sound and
    complete over the integers) of the stored graph of `x0` / `y_i` must equal the tight closure of
    the request's constraints ENTRYWISE (so the graphs the model starts from mean what the request
    says; `split_oct_domain::operator+=` itself is not re-modelled), and checks the representation
    invariants the model relies on (no self loops, edges only between variables with a vertex,
    `neg = pos + 1`, nothing unstable after `+=`);
  * replays the chain with `OctW.widenV` from the stored `x0` and the stored `y_i` and compares with
    the stored `x_{i+1}`: bottom-ness, the vertex map, the unstable set and the graph ENTRYWISE
    (stronger than a comparison of closures); the flag `y_i <= x_i` with `OctW.leqV`;
  * the flag `x_{i+1} <= x_i` normalises a copy of `x_{i+1}`, whose `m_unstable` is not empty; the
    code's `normalize()` is not a closure (see the model file), so the flag is compared through a
    sandwich: `leqV` with NO normalisation ⇒ code ⇒ `leqV` with the tight closure (measured on
    3000 generated chains: the two ends always coincide, so the flag is in fact compared exactly);
  * compares the tight closure of the model result with the tight closure of the parsed constraint
    dump ENTRYWISE (the normalisation of the copy may only add implied constraints); when the stored
    result has a unary bound of odd weight (left there by an in-place `normalize()`, which does not
    tighten) `to_linear_constraint_system` prints `w / 2` truncated toward zero, one weaker than
    stored for negative `w`, and the dump is only required to be implied by the result;
  * independently of the model evaluates the property's own predicate on the dump: integer
    witnesses of `x_i` (from the code's own previous dump) and of `y_i` (from the request) must
    satisfy every dumped constraint of `x_{i+1}`, else `.unsound` with the witness.

  Modes `index` / `indexj`: the non-const `operator[]` normalises the STORED `x_i` in place before
  each widening; the harness prints the stored left operand after that (`xl`).  The handler checks
  that it means the same as before (equal tight closures) and continues from it, exactly as the
  code does, so the widening itself is still compared entrywise.
-/
namespace Driver
namespace OW
open Crab Crab.Dbm Crab.Octagon Crab.OctW

variable {n : Nat}

def mkFin (k : Nat) : Option (Fin n) := if h : k < n then some ⟨k, h⟩ else none

def two (f : Fin n → Fin n → Int → Octagon.Cst n) (v u k : Sexp) : Option (Octagon.Cst n) := do
  let v ← v.nat?; let v ← mkFin v; let u ← u.nat?; let u ← mkFin u; let k ← k.int?
  pure (f v u k)

/-- request constraint -/
def parseReqCst : Sexp → Option (Octagon.Cst n)
  | .list [.atom "b", v, k] => do
    let v ← v.nat?; let v ← mkFin v; let k ← k.int?
    pure (.ub v k)
  | .list [.atom "l", v, k] => do
    let v ← v.nat?; let v ← mkFin v; let k ← k.int?
    pure (.lb v (-k))
  | .list [.atom "d", v, u, k] => two .diff v u k
  | .list [.atom "s", v, u, k] => two .sum v u k
  | .list [.atom "n", v, u, k] => two .nsum v u k
  | _ => none

def parseTerm : Sexp → Option (Int × Nat)
  | .list [a, v] => do
    let a ← a.int?; let v ← v.nat?
    pure (a, v)
  | _ => none

/-- `sum a*v + c ≤ 0` with unit coefficients as octagon constraints -/
def leToCsts (c : Int) (ts : List (Int × Nat)) : Option (List (Octagon.Cst n)) :=
  match ts with
  | [(1, v)] => do let v ← mkFin v; pure [.ub v (-c)]
  | [(-1, v)] => do let v ← mkFin v; pure [.lb v (-c)]
  | [(1, v), (-1, u)] => do let v ← mkFin v; let u ← mkFin u; pure [.diff v u (-c)]
  | [(-1, v), (1, u)] => do let v ← mkFin v; let u ← mkFin u; pure [.diff u v (-c)]
  | [(1, v), (1, u)] => do let v ← mkFin v; let u ← mkFin u; pure [.sum v u (-c)]
  | [(-1, v), (-1, u)] => do let v ← mkFin v; let u ← mkFin u; pure [.nsum v u (-c)]
  | _ => none

/-- dumped constraint; `none` = not in the language; `some none` = contradiction -/
def parseDumpCst : Sexp → Option (Option (List (Octagon.Cst n)))
  | .list [.atom "false"] => some none
  | .list [.atom "true"] => some (some [])
  | .list (.atom k :: c :: ts) => do
    let c ← c.int?
    let ts ← ts.mapM parseTerm
    match k with
    | "le" => (leToCsts c ts).map some
    | "eq" => do
      let a ← leToCsts c ts
      let b ← leToCsts (-c) (ts.map fun (q, v) => (-q, v))
      pure (some (a ++ b))
    | _ => none
  | _ => none

/-- the whole dumped system: `none` = unparsable, `some none` = contains a contradiction -/
def parseDump : List Sexp → Option (Option (List (Octagon.Cst n)))
  | [] => some (some [])
  | c :: cs => do
    let c : Option (List (Octagon.Cst n)) ← parseDumpCst c
    let cs : Option (List (Octagon.Cst n)) ← parseDump cs
    match c, cs with
    | some a, some b => pure (some (a ++ b))
    | _, _ => pure none

/-! ### the private representation -/

def parseVm : List Sexp → Option (List (Nat × Nat × Nat))
  | [] => some []
  | .list [v, p, q] :: r => do
    let v ← v.nat?; let p ← p.nat?; let q ← q.nat?; let r ← parseVm r
    pure ((v, p, q) :: r)
  | _ => none

def parseEs : List Sexp → Option (List (Nat × Nat × Int))
  | [] => some []
  | .list [s, d, w] :: r => do
    let s ← s.nat?; let d ← d.nat?; let w ← w.int?; let r ← parseEs r
    pure ((s, d, w) :: r)
  | _ => none

/-- literal of a raw vertex number -/
def litOf (vm : List (Nat × Nat × Nat)) (id : Nat) : Option (Fin (2 * n)) :=
  vm.findSome? fun (v, p, q) =>
    if id = p then mkFin (2 * v) else if id = q then mkFin (2 * v + 1) else none

/-- stored value, or the invariant it violates.  `none` = bottom -/
def parseRaw : Sexp → Except String (Val n)
  | .atom "bot" => .ok none
  | .list [.atom "g", .list (.atom "vm" :: vm), .list (.atom "un" :: un), .list (.atom "es" :: es)] =>
    match parseVm vm, un.mapM Sexp.nat?, parseEs es with
    | some vm, some un, some es =>
      if vm.any (fun (v, p, q) => q != p + 1 || decide (n ≤ v)) then .error "vertex map: neg != pos + 1 or unknown variable" else
      let bad := es.any fun (s, d, _) => s == d || (litOf (n := n) vm s).isNone || (litOf (n := n) vm d).isNone
      if bad then .error "edge set: self loop or edge at a vertex of no variable" else
      let g : Oct n := es.foldl (fun (m : Oct n) (s, d, w) =>
        match litOf vm s, litOf vm d with
        | some j, some i => Mat.ofFn fun a b => if a = i ∧ b = j then some w else m.get a b
        | _, _ => m) Mat.top
      .ok (some { vid := fun v => (vm.find? fun (u, _, _) => u == v.val).map fun (_, p, _) => p, g := g, un := un })
    | _, _, _ => .error "unparsable"
  | _ => .error "unparsable"

/-! ### comparison -/

def showW : W → String
  | none => "+oo"
  | some k => toString k

def litName (i : Fin (2 * n)) : String := (if i.val % 2 = 0 then "+v" else "-v") ++ toString (i.val / 2)

/-- first entry where two matrices differ (`diag` = also look at the diagonal) -/
def firstDiff (diag : Bool) (a b : Oct n) : Option String :=
  (List.finRange (2 * n)).findSome? fun i => (List.finRange (2 * n)).findSome? fun j =>
    if !diag && i = j then none
    else if a.get i j == b.get i j then none
    else some s!"({litName i})-({litName j})<= model {showW (a.get i j)} code {showW (b.get i j)}"

/-- first entry of `b` that `a` does not imply -/
def firstWeaker (a b : Oct n) : Option String :=
  (List.finRange (2 * n)).findSome? fun i => (List.finRange (2 * n)).findSome? fun j =>
    if W.le (a.get i j) (b.get i j) then none
    else some s!"({litName i})-({litName j})<= model {showW (a.get i j)} code {showW (b.get i j)}"

/-- some unary bound has an odd weight -/
def oddBound (m : Oct n) : Bool :=
  (List.finRange (2 * n)).any fun i => match m.get i (bar i) with | some w => w % 2 != 0 | none => false

def offDiag (m : Oct n) : Oct n := Mat.ofFn fun i j => if i = j then none else m.get i j

def sortedSet (l : List Nat) : List Nat := (l.toArray.qsort (· < ·)).toList.eraseDups

def stateArr (σ : Octagon.State n) : List Int := (List.finRange n).map σ

def cstHolds (c : Octagon.Cst n) (σ : Octagon.State n) : Bool :=
  match c with
  | .ub x k => decide (σ x ≤ k)
  | .lb x k => decide (-σ x ≤ k)
  | .diff x y k => decide (σ x - σ y ≤ k)
  | .sum x y k => decide (σ x + σ y ≤ k)
  | .nsum x y k => decide (-σ x - σ y ≤ k)

def showCst (c : Octagon.Cst n) : String :=
  match c with
  | .ub x k => s!"v{x.val}<={k}"
  | .lb x k => s!"-v{x.val}<={k}"
  | .diff x y k => s!"v{x.val}-v{y.val}<={k}"
  | .sum x y k => s!"v{x.val}+v{y.val}<={k}"
  | .nsum x y k => s!"-v{x.val}-v{y.val}<={k}"

/-- labelling search for an integer point (one tight closure per variable): fix the variables one
    after the other at a bound of the tight closure; the caller re-checks the point -/
def findPtAux (o : Oct n) : List (Fin n) → List (Fin n × Int) → Option (List (Fin n × Int))
  | [], acc => some acc
  | x :: xs, acc =>
    let c := Octagon.close o
    if isBottomC c then none else
    let b := boundsC c x
    let t : Int := match b.lb, b.ub with
      | .fin l, _ => l
      | _, .fin u => u
      | _, _ => 0
    findPtAux (addEdge2 (addEdge2 o (pos x) (neg x) (2 * t)) (neg x) (pos x) (-(2 * t))) xs ((x, t) :: acc)

def findPt (o : Oct n) : Option (Octagon.State n) :=
  (findPtAux o (List.finRange n) []).map fun l x =>
    match l.find? (fun p => p.1 == x) with
    | some p => p.2
    | none => 0

/-- integer points of a constraint set: one by labelling, and for every variable one at its upper
    and one at its lower bound (when finite); every point is re-checked against the constraints -/
def witnesses (cs : List (Octagon.Cst n)) : List (Octagon.State n) :=
  let o := assumeAll Octagon.top cs
  let c := Octagon.close o
  if isBottomC c then [] else
  let pin (x : Fin n) (t : Int) : Oct n := addEdge2 (addEdge2 o (pos x) (neg x) (2 * t)) (neg x) (pos x) (-(2 * t))
  let cands : List (Oct n) := o :: (List.finRange n).flatMap fun x =>
    let b := boundsC c x
    (match b.ub with | .fin u => [pin x u] | _ => []) ++ (match b.lb with | .fin l => [pin x l] | _ => [])
  (cands.filterMap findPt).filter fun σ => cs.all fun k => cstHolds k σ

/-- a witness violating the dumped system (`none` dump = bottom: every witness is lost) -/
def lostWitness (ws : List (Octagon.State n)) (dump : Option (List (Octagon.Cst n))) : Option String :=
  match dump with
  | none => ws.head?.map fun σ => s!"state {stateArr σ} lost: result is bottom"
  | some cs =>
    ws.findSome? fun σ => cs.findSome? fun c =>
      if cstHolds c σ then none else some s!"state {stateArr σ} violates {showCst c}"

def bitsOf (s : String) : Option (List Bool) :=
  if s == "-" then some [] else
  s.toList.mapM fun c => if c == '1' then some true else if c == '0' then some false else none

/-- the stored graph means what the constraints say: equal tight closures -/
def sameMeaning (what : String) (v : Val n) (cs : List (Octagon.Cst n)) : Option String :=
  let cc := Octagon.close (assumeAll Octagon.top cs)
  match v with
  | none => if isBottomC cc then none else some s!"{what} is stored as bottom but its constraints are satisfiable"
  | some a =>
    let cm := closeC a.g
    if isBottomC cc then
      (if isBottomC cm then none else some s!"{what}: constraints unsatisfiable over the integers, stored graph is not")
    else if isBottomC cm then some s!"{what}: stored graph unsatisfiable, constraints are not"
    else (firstDiff true cm cc).map fun m => s!"{what}: stored graph and constraints differ after tight closure: {m}"

/-- the normalisation-free reading (lower end of the sandwich) -/
def nfId (a : OVal n) : Oct n := a.g

def showVal : Val n → String
  | none => "bot"
  | some a =>
    let es := (List.finRange (2 * n)).flatMap fun i => (List.finRange (2 * n)).filterMap fun j =>
      (a.g.get i j).map fun k => s!"({litName i})-({litName j})<={k}"
    s!"un={a.un} " ++ " ".intercalate es

/-- model value against stored value: vertex map, unstable set, graph entrywise -/
def sameVal (m c : Val n) : Option String :=
  match m, c with
  | none, none => none
  | none, some _ => some "model result is bottom, code is not"
  | some _, none => some "code result is bottom, model is not"
  | some a, some b =>
    if (List.finRange n).any (fun v => a.vid v != b.vid v) then
      some s!"vertex maps differ: model {(List.finRange n).map a.vid} code {(List.finRange n).map b.vid}"
    else match firstDiff true a.g b.g with
      | some d => some ("stored graphs differ: " ++ d)
      | none =>
        if sortedSet a.un != sortedSet b.un then
          some s!"unstable sets differ: model {sortedSet a.un} code {sortedSet b.un}"
        else none

structure Step (n : Nat) where
  ycs : List (Octagon.Cst n)
  yraw : Val n
  /-- `y_i = a || b`: constraints and stored values of `a`, `b`, stored normalised copy of `y_i` -/
  yw : Option (List (Octagon.Cst n) × List (Octagon.Cst n) × Val n × Val n × Val n)
  xl : Option (Val n)                        -- modes `index`: the stored left operand after `operator[]`
  rraw : Val n
  yb : Bool
  cov : Bool
  st : Bool
  dbot : Bool
  dump : Option (List (Octagon.Cst n))     -- `none` = the system contains `false`

/-- one step; `x` = the stored `x_i` (model = code, checked), `prev` = constraints describing the
    code's own `x_i` (request for `i = 0`, previous dump afterwards; `none` = bottom) -/
def checkStep (i : Nat) (x : Val n) (prev : Option (List (Octagon.Cst n))) (s : Step n) :
    Except Verdict (Val n) := do
  let tag := s!"[C05][ow] step {i}: "
  -- the property's own predicate on the implementation's answer
  let wx : List (Octagon.State n) := match prev with | none => [] | some cs => witnesses cs
  let wy : List (Octagon.State n) := match s.yw with
    | none => witnesses s.ycs
    | some (acs, bcs, _, _, _) => witnesses acs ++ witnesses bcs
  match lostWitness wx s.dump with
  | some m => throw (.unsound (tag ++ "x_i || y_i does not contain x_i: " ++ m))
  | none => pure ()
  match lostWitness wy s.dump with
  | some m => throw (.unsound (tag ++ "x_i || y_i does not contain y_i: " ++ m))
  | none => pure ()
  if s.dbot != s.dump.isNone then
    throw (.drift (tag ++ s!"is_bottom() = {s.dbot} but the constraint system says {s.dump.isNone}"))
  -- the further value: stored representation against the request
  let y := s.yraw
  if s.yb != y.isNone then
    throw (.drift (tag ++ s!"y_i.is_bottom() = {s.yb}, stored flag {y.isNone}"))
  -- the normal form the code computes for `y_i` when it needs one (only for `y_i = a || b`)
  let nf : OVal n → Oct n ← match s.yw with
    | none =>
      match sameMeaning "y_i" y s.ycs with
      | some m => throw (.drift (tag ++ m))
      | none => pure ()
      match y with
      | some b => if !b.un.isEmpty then throw (.drift (tag ++ "y_i built by += has a non-empty m_unstable"))
      | none => pure ()
      pure nfTight
    | some (acs, bcs, a, b, yn) =>
      match sameMeaning "a" a acs, sameMeaning "b" b bcs with
      | some m, _ => throw (.drift (tag ++ m))
      | _, some m => throw (.drift (tag ++ m))
      | none, none => pure ()
      -- `y_i = a || b` is one more widening to compare entrywise
      match sameVal (widenV nfTight a b) y with
      | some m => throw (.drift (tag ++ "y_i = a || b: " ++ m))
      | none => pure ()
      match y, yn with
      | none, none => pure nfTight
      | some yv, some ynv =>
        -- normalize() may only add implied constraints
        match firstDiff true (closeC yv.g) (closeC ynv.g) with
        | some m => throw (.drift (tag ++ "normalize() changed the meaning of y_i: " ++ m))
        | none => pure (fun _ => ynv.g)
      | _, _ => throw (.drift (tag ++ "normalize() changed the bottom flag of y_i"))
  -- the left operand (normalised in place by the caller in the `index` modes)
  let x ← match s.xl with
    | none => pure x
    | some xl =>
      match x, xl with
      | none, none => pure xl
      | some a, some b =>
        match firstDiff true (closeC a.g) (closeC b.g) with
        | some m => throw (.drift (tag ++ "in-place normalize() changed the meaning of x_i: " ++ m))
        | none => pure xl
      | _, _ => throw (.drift (tag ++ "in-place normalize() changed the bottom flag of x_i"))
  let cov := leqV nf y x
  if cov != s.cov then
    throw (.drift (tag ++ s!"y_i <= x_i: code {s.cov}, model {cov}"))
  let x' := widenV nf x y
  match sameVal x' s.rraw with
  | some m => throw (.drift (tag ++ m ++ s!" || x_i: {showVal x} || y_i: {showVal y}"))
  | none => pure ()
  let stLo := leqV nfId x' x
  let stHi := leqV nfTight x' x
  if stLo && !s.st then
    throw (.drift (tag ++ s!"x_(i+1) <= x_i: code false, but every edge of x_i is covered without normalisation"))
  if s.st && !stHi then
    throw (.drift (tag ++ s!"x_(i+1) <= x_i: code true, but the tight closure of x_(i+1) does not cover x_i"))
  match x', s.dump with
  | none, none => pure ()
  | none, some _ => throw (.drift (tag ++ "model result is bottom, dump is not"))
  | some _, none => throw (.drift (tag ++ "dump is bottom, model is not"))
  | some g, some cs =>
    let cm := closeC g.g
    let cc := Octagon.close (assumeAll Octagon.top cs)
    if isBottomC cm != isBottomC cc then
      throw (.drift (tag ++ s!"feasibility: model {!isBottomC cm}, dump {!isBottomC cc}"))
    if !isBottomC cm then
      -- `to_linear_constraint_system` prints a unary bound of weight `w` as `w / 2` with C++ division:
      -- for an odd negative `w` (only produced by normalize() in place, which does not tighten) the
      -- printed bound is one weaker than the stored one; then the dump need only be implied
      if oddBound g.g then
        match firstWeaker cm cc with
        | some m => throw (.drift (tag ++ "the dump is not implied by the result (odd unary weight stored): " ++ m))
        | none => pure ()
      else
      match firstDiff true cm cc with
      | some m => throw (.drift (tag ++ "tight closures of the result and of its dump differ: " ++ m))
      | none => pure ()
  return x'

def runChain (x0cs : List (Octagon.Cst n)) (x0 : Val n) (steps : List (Step n)) : Verdict :=
  match sameMeaning "x0" x0 x0cs with
  | some m => .drift ("[C05][ow] " ++ m)
  | none =>
  if (match x0 with | some a => !a.un.isEmpty | none => false) then
    .drift "[C05][ow] x0 built by += has a non-empty m_unstable" else
  let rec go (i : Nat) (x : Val n) (prev : Option (List (Octagon.Cst n))) : List (Step n) → Verdict
    | [] => .ok
    | s :: rest =>
      match checkStep i x prev s with
      | .error v => v
      | .ok x' => go (i + 1) x' s.dump rest
  go 0 x0 (if x0.isNone then none else some x0cs) steps

def parseStep (y : Sexp) (yb cov st : Bool) (d : Sexp) : Except String (Step n) :=
  let yparts : Option (List Sexp × Option (List Sexp × List Sexp)) := match y with
    | .list (.atom "y" :: ycs) => some (ycs, none)
    | .list [.atom "yw", .list (.atom "a" :: acs), .list (.atom "b" :: bcs)] => some ([], some (acs, bcs))
    | _ => none
  match yparts, d with
  | some (ycs, ywcs), .list (.atom "step" :: .list [.atom "y", yraw] :: rest) =>
    let (ywraw, rest) : Option (Sexp × Sexp × Sexp) × List Sexp := match rest with
      | .list [.atom "ya", a] :: .list [.atom "yb", b] :: .list [.atom "yn", c] :: r => (some (a, b, c), r)
      | r => (none, r)
    let (xl, rest) : Option Sexp × List Sexp := match rest with
      | .list [.atom "xl", xl] :: r => (some xl, r)
      | r => (none, r)
    match rest with
    | [.list [.atom "r", rraw], .list [.atom "d", dbot, .list (.atom "cs" :: dcs)]] =>
      match ycs.mapM (parseReqCst (n := n)), parseBool dbot, (parseDump dcs : Option (Option (List (Octagon.Cst n)))) with
      | some ycs, some dbot, some dump => do
        let yraw ← parseRaw yraw
        let rraw ← parseRaw rraw
        let xl ← match xl with
          | none => pure none
          | some s => (parseRaw s).map some
        let yw ← match ywcs, ywraw with
          | none, none => pure none
          | some (acs, bcs), some (a, b, c) =>
            match acs.mapM (parseReqCst (n := n)), bcs.mapM (parseReqCst (n := n)) with
            | some acs, some bcs => do
              let a ← parseRaw a; let b ← parseRaw b; let c ← parseRaw c
              pure (some (acs, bcs, a, b, c))
            | _, _ => .error "step: yw constraints"
          | _, _ => .error "step: yw shape"
        pure { ycs := ycs, yraw := yraw, yw := yw, xl := xl, rraw := rraw, yb := yb, cov := cov, st := st, dbot := dbot, dump := dump }
      | _, _, _ => .error "step: constraints"
    | _ => .error "step: shape"
  | _, _ => .error "step: shape"

def parseSteps : List Sexp → List Bool → List Bool → List Bool → List Sexp → Except String (List (Step n))
  | [], [], [], [], [] => .ok []
  | y :: ys, b :: yb, c :: cov, s :: st, d :: ds => do
    let a ← parseStep y b c s d
    let r ← parseSteps ys yb cov st ds
    pure (a :: r)
  | _, _, _, _, _ => .error "steps: lengths"

def run (n : Nat) (x0 ys res : List Sexp) : Verdict :=
  match res with
  | .list [.atom "x0", x0raw] :: .list [.atom "yb", .atom yb] :: .list [.atom "cov", .atom cov] ::
      .list [.atom "st", .atom st] :: ds =>
    match x0.mapM (parseReqCst (n := n)), bitsOf yb, bitsOf cov, bitsOf st with
    | some x0cs, some yb, some cov, some st =>
      match (parseRaw x0raw : Except String (Val n)), (parseSteps ys yb cov st ds : Except String (List (Step n))) with
      | .ok x0v, .ok steps => runChain x0cs x0v steps
      | .error m, _ => .drift s!"[C05][ow] stored x0: {m}"
      | _, .error m => .drift s!"[C05][ow] {m}"
    | _, _, _, _ => .bad "ow.chain: header"
  | _ => .bad "ow.chain: result shape"

end OW

def handleOw (op : String) (args res : List Sexp) : Verdict :=
  match op, args with
  | "chain", [.atom dom, _mode, nv, .list (.atom "x0" :: x0), .list (.atom "ys" :: ys)] =>
    match res with
    | [.atom "otherdom"] => .skip "ow.chain: line of another domain"
    | [.atom "err"] => .drift s!"[C05][ow] ow.chain {dom}: CRAB_ERROR raised during the chain"
    | _ =>
      match nv.nat? with
      | some n => if dom.startsWith "split-oct" then OW.run n x0 ys res else .bad s!"ow.chain: domain {dom}"
      | none => .bad "ow.chain: nvars"
  | _, _ => .bad s!"ow.{op}"

end Driver
