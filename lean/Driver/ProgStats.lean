import Driver.ProgH
/-!
  Non-triviality report of the program-level harness (not a check): reads `prog.*` lines on stdin
  and prints the totals of the executions the handler performs for them.
      lake env lean --run Driver/ProgStats.lean < lines
-/
open Driver

partial def statsLoop (h : IO.FS.Stream) (acc : Prog.Stats) (n : Nat) : IO (Prog.Stats × Nat) := do
  let line ← h.getLine
  if line.isEmpty then return (acc, n)
  match Sexp.parseLine line.trimAscii.toString with
  | some xs =>
    match Sexp.splitArrow xs with
    | some ([Sexp.list (Sexp.atom _ :: args)], res) =>
      match progStats args res with
      | some st =>
        statsLoop h { execs := acc.execs + st.execs, ge3 := acc.ge3 + st.ge3, back := acc.back + st.back,
                      undef := acc.undef + st.undef, checksOk := acc.checksOk + st.checksOk,
                      visited := acc.visited + st.visited } (n + 1)
      | none => statsLoop h acc n
    | _ => statsLoop h acc n
  | none => statsLoop h acc n

def main : IO UInt32 := do
  let stdin ← IO.getStdin
  let (st, n) ← statsLoop stdin {} 0
  IO.println s!"PROGSTATS programs={n} {Prog.statsLine st}"
  return 0
