/-
  S-expression reader used by the line protocol (harness -> driver).
  One case per line:   (tag op arg ...) => result
  Atoms are maximal runs of characters other than whitespace and parentheses.
-/
namespace Driver

inductive Sexp where
  | atom : String → Sexp
  | list : List Sexp → Sexp
  deriving Repr, BEq, Inhabited

namespace Sexp

partial def toStr : Sexp → String
  | atom s => s
  | list xs => "(" ++ " ".intercalate (xs.map toStr) ++ ")"

instance : ToString Sexp := ⟨toStr⟩

/-- tokens: "(" ")" or atom -/
def tokenize (s : String) : Array String := Id.run do
  let mut out : Array String := #[]
  let mut cur : String := ""
  for c in s.toList do
    if c == '(' || c == ')' then
      if cur != "" then out := out.push cur; cur := ""
      out := out.push (String.singleton c)
    else if c == ' ' || c == '\t' || c == '\n' || c == '\r' then
      if cur != "" then out := out.push cur; cur := ""
    else
      cur := cur.push c
  if cur != "" then out := out.push cur
  return out

/-- parse a sequence of s-expressions from tokens (iterative, explicit stack) -/
def parseAll (toks : Array String) : Option (List Sexp) := Id.run do
  -- stack of partially built lists (reversed)
  let mut stack : List (List Sexp) := []
  let mut cur : List Sexp := []
  for t in toks do
    if t == "(" then
      stack := cur :: stack
      cur := []
    else if t == ")" then
      match stack with
      | [] => return none
      | p :: rest =>
        cur := (Sexp.list cur.reverse) :: p
        stack := rest
    else
      cur := (Sexp.atom t) :: cur
  if stack.isEmpty then return some cur.reverse else return none

def parseLine (s : String) : Option (List Sexp) := parseAll (tokenize s)

/-- split a parsed line at the atom `=>` -/
def splitArrow (xs : List Sexp) : Option (List Sexp × List Sexp) :=
  let rec go (acc : List Sexp) : List Sexp → Option (List Sexp × List Sexp)
    | [] => none
    | (atom "=>") :: rest => some (acc.reverse, rest)
    | x :: rest => go (x :: acc) rest
  go [] xs

def int? : Sexp → Option Int
  | atom s => s.toInt?
  | _ => none

def nat? : Sexp → Option Nat
  | atom s => s.toNat?
  | _ => none

def atom? : Sexp → Option String
  | atom s => some s
  | _ => none

end Sexp
end Driver
