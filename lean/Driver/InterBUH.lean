import Driver.InterH
import CrabModel.Inter.BottomUp

/-!
  Second oracle for the `inter.run bu` lines (property C10): the executable model of
  `bottom_up_inter_analyzer::run` (`CrabModel/Inter/BottomUp.lean`, the object of the theorems in
  `CrabProofs/Props/C10BottomUp.lean`) is run on the program of the request with the one-point
  abstract domain.  With that domain the model computes exactly the *structure* of the analysis —
  which functions receive a summary (`summary_table`), which functions are analysed by the
  top-down phase (`m_inv_map`) — and this is compared with what the real analyzer reported:

    * `get_summary(f)` is non-empty  iff  the model stored a summary for `f`
      (every function but `main`, recursive ones included; none when the call graph has no edge);
    * the precondition of every reported summary is `top` (context-insensitive summaries), and the
      summary of a function without outputs is `top`;
    * a function the model does not analyse (call graph without edges: everything but `main`)
      reports `top` at every block.

  A difference is a `.drift` (the model no longer transcribes the code).  `handleInter2` is the
  dispatch entry: the checks of `handleInter` first, then this oracle.
-/
namespace Driver
open Crab Crab.Inter

namespace InterBU

/-- the one-point domain: every value describes every state -/
def unitDom : IDom where
  A := Unit
  γ := fun _ _ => True
  leq := fun _ _ => true
  join := fun _ _ => ()
  leq_sound := fun _ _ => trivial
  join_left := fun _ => trivial
  join_right := fun _ => trivial
  top := ()
  isBot := fun _ => false
  meet := fun _ _ => ()
  assignVar := fun _ _ _ => ()
  forget := fun _ _ => ()
  project := fun _ _ => ()
  rename := fun _ _ _ => ()
  top_sound := fun _ => trivial
  isBot_sound := fun h => by cases h
  meet_sound := fun _ _ => trivial
  assign_sound := fun _ _ _ => trivial
  forget_sound := fun _ _ _ => trivial
  project_sound := fun _ _ _ => trivial
  bot := ()
  widen := fun _ _ => ()
  narrow := fun _ _ => ()
  stmt := fun _ _ => ()
  widen_left := fun _ => trivial
  widen_right := fun _ => trivial
  narrow_sound := fun _ _ => trivial
  stmt_sound := fun _ _ _ => trivial

/-- a dumped value is top: not bottom, every interval top, and every exported constraint is a
    tautology without variables (product domains export `0 = 0` for top) -/
def isTopFacts (f : InterDrv.Facts) : Bool :=
  !f.bot && f.ivs.all (fun i => i == Itv.top) &&
    f.csts.all (fun c => c.e.ts.all (fun kv => kv.1 == 0) && c.sat #[])

/-- one component per function, callees-first order is irrelevant for the structure -/
def someOrder (p : IProg) : List (List Nat) := (List.range p.funs.size).reverse.map (fun g => [g])

def check (p : IProg) (frs : Array InterDrv.FunRes) : Option String :=
  let fuel := 64 + 8 * (p.funs.foldl (fun a f => a + f.blocks.size) 0)
  match analyze unitDom unitDom (Conv.same unitDom) p (crabWto p fuel 1 1) (someOrder p) () (fun _ => []) with
  | none => some "model of bottom_up_inter_analyzer ran out of fuel"
  | some r =>
    (List.range p.funs.size).findSome? (fun g =>
      let f := p.fn g
      let fr := frs.getD g default
      let implHas := !fr.sums.isEmpty
      let modelHas := (r.sums g).isSome
      if implHas != modelHas then
        some s!"summary table: function {f.name}: get_summary non-empty = {implHas}, model stores a summary = {modelHas}"
      else if fr.sums.any (fun pp => !isTopFacts pp.1) then
        some s!"summary of {f.name}: the precondition is not top"
      else if f.outs.isEmpty && fr.sums.any (fun pp => !isTopFacts pp.2) then
        some s!"summary of {f.name} (no outputs): not top"
      else if (r.td.invs g).isNone && fr.blocks.any (fun b => !isTopFacts b.1 || !isTopFacts b.2) then
        some s!"function {f.name} is not analysed by the model of the top-down phase but reports an invariant that is not top"
      else none)

end InterBU

open InterDrv in
def handleInterBU (op : String) (args res : List Sexp) : Verdict :=
  match op, args with
  | "run", [.atom "bu", .atom dom, par, prog] =>
    match res with
    | [.atom "err"] => .ok
    | _ =>
    match parseProg prog with
    | none => .bad "inter.run: program"
    | some (p, labels) =>
    if !p.wf then .ok else
    match parseResult p labels res with
    | none => .bad "inter.run: result"
    | some (frs, _) =>
      match InterBU.check p frs with
      | some m => .drift s!"[C10][model] inter.run bu {dom} {par}: {m}"
      | none => .ok
  | _, _ => .ok

/-- dispatch entry for the component `inter`: the execution-based checks, then the model oracle -/
def handleInter2 (op : String) (args res : List Sexp) : Verdict :=
  match handleInter op args res with
  | .ok => handleInterBU op args res
  | v => v

end Driver
