import Driver.Common
import CrabModel.Num.ZNumExtra
import CrabModel.Num.QNum
import CrabModel.Num.SafeInt

/-!
  Handlers for components `num` (`ikos::z_number`, `ikos::q_number`) and `safe`
  (`crab::safe_i64`).  Lines:
      (num.<op> z ...)          => decimal | 0/1 | err
      (num.q_<op> (q n d) ...)  => (q n d) | decimal | lt/eq/gt | err   operands through q_number(n, d)
      (safe.<op> a b)           => decimal | 0/1 | err
  Every line is recomputed with the model (`CrabModel/Num/*`), and — independently of the model —
  the property C20 itself is evaluated on the implementation's answer (mathematical meaning of
  the operation written with other primitives: multiplication identities for division, single
  bits for the bitwise operations, cross products for the rationals, range tests for the
  checked operations).
-/
namespace Driver
namespace NumDrv
open Crab

/-- an implementation answer: a number or `err` -/
def parseIntOrErr : Sexp → Option (Option Int)
  | .atom "err" => some none
  | s => s.int?.map some

def showOptInt : Option Int → String
  | none => "err"
  | some k => toString k

def parseQ : Sexp → Option QNum
  | .list [.atom "q", n, d] => do
      let n ← n.int?; let d ← d.int?; pure ⟨n, d⟩
  | _ => none

def showQ (q : QNum) : String := s!"(q {q.num} {q.den})"

def showOutQ : Outcome QNum → String
  | .ok q => showQ q
  | .err => "err"
  | .trap => "trap"

/-- compare a model answer with an implementation answer; `prop` is the verdict of the
    property's own predicate on the implementation's answer (`none` = holds) -/
def settle (ctx : String) (agree : Bool) (prop : Option String) (modelTxt implTxt : String) : Verdict :=
  match prop with
  | some w =>
    .unsound (ctx ++ s!" impl={implTxt} model={modelTxt}" ++ (if agree then " (model agrees) " else " ") ++ w)
  | none => if agree then .ok else .drift (ctx ++ s!" model={modelTxt} impl={implTxt}")

/-! ### z_number -/

/-- truncating quotient, specified without division: `q` is the quotient of `a` by `b ≠ 0`
    iff the remainder `a - b*q` is smaller than `b` in magnitude and has the sign of `a` -/
def isTruncQuot (a b q : Int) : Bool :=
  let r := a - b * q
  decide (r.natAbs < b.natAbs) && (r == 0 || (decide (r < 0) == decide (a < 0)))

def isTruncRem (a b r : Int) : Bool :=
  decide (r.natAbs < b.natAbs) && (r == 0 || (decide (r < 0) == decide (a < 0))) &&
    decide ((a - r) % b = 0)

/-- bit-by-bit check of a bitwise result against single bits of the operands
    (two's complement, sign included) -/
def bitwiseHolds (g : Bool → Bool → Bool) (a b r : Int) : Bool :=
  let w := (Nat.max a.natAbs (Nat.max b.natAbs r.natAbs)).log2 + 3
  (List.range w).all (fun i => ZNum.X.bit r i == g (ZNum.X.bit a i) (ZNum.X.bit b i))

/-- bit length bound: `|a| < 2 ^ bitLen a` -/
def bitLen (a : Int) : Nat := a.natAbs.log2 + 1

/-- mathematical right shift (floor) for any non-negative amount, without building huge powers -/
def mathShr (a k : Int) : Int :=
  if k.toNat > bitLen a then (if a < 0 then -1 else 0) else a / 2 ^ k.toNat

def isPow2 (n : Nat) : Bool := n != 0 && 2 ^ n.log2 == n

/-- `fill_ones` specification on an answer `r` for `x ≥ 0`: the least `2^j - 1 ≥ x` -/
def fillOnesHolds (x r : Int) : Bool :=
  if x = 0 then r == 0
  else decide (r ≥ x) && decide (r ≥ 1) && isPow2 (r + 1).toNat &&
       (r == 1 || decide ((r - 1) / 2 < x))

def boolTxt (b : Bool) : String := if b then "1" else "0"

def handleZCmp (op : String) (a b : Int) (r : Sexp) : Verdict :=
  let m : Option Bool := match op with
    | "lt" => some (ZNum.X.lt a b) | "le" => some (ZNum.X.le a b)
    | "gt" => some (ZNum.X.gt a b) | "ge" => some (ZNum.X.ge a b)
    | "eq" => some (ZNum.X.eq a b) | "ne" => some (ZNum.X.ne a b)
    | _ => none
  match m, parseBool r with
  | some m, some rb =>
    let math : Bool := match op with
      | "lt" => decide (a < b) | "le" => decide (a ≤ b) | "gt" => decide (b < a)
      | "ge" => decide (b ≤ a) | "eq" => decide (a = b) | _ => decide (a ≠ b)
    settle s!"num.{op} {a} {b}" (m == rb)
      (if math == rb then none else some "comparison differs from the order of the integers")
      (boolTxt m) (boolTxt rb)
  | _, _ => .bad s!"num.{op}"

/-- binary z_number operations returning a number or `err` -/
def handleZBin (op : String) (a b : Int) (r : Option Int) : Verdict :=
  let ctx := s!"num.{op} {a} {b}"
  let base := match op with
    | "adda" => "add" | "suba" => "sub" | "mula" => "mul" | "diva" => "div" | "rema" => "rem"
    | o => o
  let model : Option (Option Int) := match base with
    | "add" => some (some (a + b))
    | "sub" => some (some (a - b))
    | "mul" => some (some (a * b))
    | "div" => some (ZNum.div? a b)
    | "rem" => some (ZNum.rem? a b)
    | "and" => some (some (ZNum.land a b))
    | "or" => some (some (ZNum.lor a b))
    | "xor" => some (some (ZNum.lxor a b))
    | "shl" => some (some (ZNum.shl a b))
    | "shr" => some (some (ZNum.shr a b))
    | _ => none
  match model with
  | none => .bad s!"num.{op}: unknown op"
  | some m =>
    let prop : Option String :=
      match base, r with
      | "add", some v => if v - a == b then none else some "sum"
      | "sub", some v => if v + b == a then none else some "difference"
      | "mul", some v =>
        -- product checked through the distributive law on a split of `b`
        let b1 := b / 2; let b2 := b - b1
        if v == a * b1 + a * b2 then none else some "product"
      | "div", some v =>
        if b == 0 then some "division by zero must raise CRAB_ERROR"
        else if isTruncQuot a b v then none else some "not the truncating quotient"
      | "div", none => if b == 0 then none else some "CRAB_ERROR on a non-zero divisor"
      | "rem", some v =>
        if b == 0 then some "remainder by zero must raise CRAB_ERROR"
        else if isTruncRem a b v then none else some "not the remainder of truncating division"
      | "rem", none => if b == 0 then none else some "CRAB_ERROR on a non-zero divisor"
      | "and", some v => if bitwiseHolds (· && ·) a b v then none else some "bit mismatch"
      | "or", some v => if bitwiseHolds (· || ·) a b v then none else some "bit mismatch"
      | "xor", some v => if bitwiseHolds (fun x y => x != y) a b v then none else some "bit mismatch"
      | "shl", some v =>
        if b < 0 then none     -- no mathematical meaning: model agreement only
        else if b ≥ 2 ^ 64 then
          (if a == 0 then (if v == 0 then none else some "0 << k")
           else some "shift-amount >= 2^64 is reduced modulo 2^64 (result cannot be a * 2^k)")
        else if b > 100000 then none
        else if v == a * 2 ^ b.toNat then none else some "not a * 2^k"
      | "shr", some v =>
        if b < 0 then none
        else if v == mathShr a b then none
        else if b ≥ 2 ^ 64 then some "shift-amount >= 2^64 is reduced modulo 2^64 (not floor(a / 2^k))"
        else some "not floor(a / 2^k)"
      | _, none => some "unexpected CRAB_ERROR"
      | _, _ => none
    settle ctx (m == r) prop (showOptInt m) (showOptInt r)

/-- `q_number` lines.  Every operand `(q n d)` is built by the harness with
    `q_number(z_number n, z_number d)`: CRAB_ERROR on `d = 0`, canonical form otherwise
    (`QNum.mk?`); the property predicates are evaluated on the operands *as written* (any sign of
    the denominator, common factors) through cross products. -/
def handleNumQ (op : String) (args res : List Sexp) : Verdict :=
  let canonical (q : QNum) : Bool := decide (0 < q.den) && Nat.gcd q.num.natAbs q.den.natAbs == 1
  /- `q` denotes `n' / d'` (`d' ≠ 0`, any sign) -/
  let denotes (q : QNum) (n' d' : Int) : Bool := q.num * d' == n' * q.den
  let showImplQ (ri : Option QNum) : String := match ri with | some q => showQ q | none => "err"
  let outQ (ctx : String) (m : Outcome QNum) (r : Sexp) (prop : Option QNum → Option String) : Verdict :=
    let impl : Option (Option QNum) := match r with
      | .atom "err" => some none
      | s => (parseQ s).map some
    match impl with
    | none => .bad s!"num.{op} result"
    | some ri =>
      match m with
      | .trap =>
        -- outside what GMP accepts: cannot happen on values built by the constructors
        .drift (ctx ++ s!" model=trap impl={showImplQ ri}")
      | _ =>
        let agree := m.toOption == ri && (m == .err) == ri.isNone
        settle ctx agree (prop ri) (showOutQ m) (showImplQ ri)
  if op == "q_ofz" then
    match args, res with
    | [z], [r] =>
      match z.int? with
      | some z => outQ s!"num.q_ofz {z}" (.ok (QNum.ofZ z)) r
          (fun ri => match ri with
            | some q => if q.num == z && q.den == 1 then none else some "not z/1"
            | none => some "unexpected CRAB_ERROR")
      | none => .bad "num.q_ofz"
    | _, _ => .bad "num.q_ofz arity"
  else
  match args.mapM parseQ, res with
  | none, _ => .bad s!"num.{op} operands"
  | some raws, [r] =>
    let ctx := s!"num.{op}" ++ String.join (raws.map (fun q => " " ++ showQ q))
    if raws.any (fun q => q.den == 0) then
      -- the constructor must refuse the operand
      match r with
      | .atom "err" => .ok
      | _ => .unsound (ctx ++ s!" impl={r} zero denominator in q_number(num, den) must raise CRAB_ERROR")
    else
    match raws.mapM (fun q => QNum.mk? q.num q.den) with
    | none => .bad s!"num.{op}: constructor model"
    | some stored =>
    match op, raws, stored with
    | "q_mk", [a], [sa] =>
      outQ ctx (.ok sa) r (fun ri => match ri with
        | none => some "unexpected CRAB_ERROR"
        | some q => if canonical q && denotes q a.num a.den then none
                    else some "constructor: wrong value or not canonical")
    | "q_str", [_], [sa] =>
      match r.atom? with
      | some s => if QNum.toStr sa == s then .ok else .drift (ctx ++ s!" model={QNum.toStr sa} impl={s}")
      | none => .bad "num.q_str result"
    | "q_rlo", [a], [sa] =>
      match parseIntOrErr r with
      | some ri =>
        let m := QNum.roundToLower sa
        let prop : Option String := match ri with
          | none => some "unexpected CRAB_ERROR"
          | some v =>
            -- floor: v <= num/den < v+1, written with the sign of the denominator
            let ok := if a.den > 0 then decide (v * a.den ≤ a.num ∧ a.num < (v + 1) * a.den)
                      else decide (v * a.den ≥ a.num ∧ a.num > (v + 1) * a.den)
            if ok then none
            else if a.den < 0 then some "negative-denominator: not the floor of num/den"
            else some "not the floor of num/den"
        settle ctx (m == ri) prop (showOptInt m) (showOptInt ri)
      | none => .bad "num.q_rlo result"
    | "q_rup", [a], [sa] =>
      match parseIntOrErr r with
      | some ri =>
        let m := QNum.roundToUpper sa
        let prop : Option String := match ri with
          | none => some "unexpected CRAB_ERROR"
          | some v =>
            let ok := if a.den > 0 then decide ((v - 1) * a.den < a.num ∧ a.num ≤ v * a.den)
                      else decide ((v - 1) * a.den > a.num ∧ a.num ≥ v * a.den)
            if ok then none
            else if a.den < 0 then some "negative-denominator: not the ceiling of num/den"
            else some "not the ceiling of num/den"
        settle ctx (m == ri) prop (showOptInt m) (showOptInt ri)
      | none => .bad "num.q_rup result"
    | "q_cmp", [a, b], [sa, sb] =>
      match r.atom? with
      | some s =>
        let m := match QNum.cmp sa sb with | .lt => "lt" | .eq => "eq" | .gt => "gt"
        -- the order of the rationals: sign of the difference of cross products, corrected by the
        -- signs of the denominators as written
        let d := (a.num * b.den - b.num * a.den) * a.den.sign * b.den.sign
        let math := if d < 0 then "lt" else if d == 0 then "eq" else "gt"
        settle ctx (m == s)
          (if math == s then none else some "comparison differs from the order of the rationals") m s
      | none => .bad "num.q_cmp result"
    | "q_shl", [a, k], [sa, sk] =>
      outQ ctx (QNum.shl sa sk) r
        (fun ri =>
          if k.num % k.den != 0 then (if ri.isNone then none else some "non-integral amount must raise CRAB_ERROR")
          else match ri with
            | none => some "unexpected CRAB_ERROR"
            | some q =>
              let s := k.num / k.den
              if s < 0 || s > 100000 then none
              else if canonical q && denotes q (a.num * 2 ^ s.toNat) a.den then none
              else some "not a * 2^k or not canonical")
    | _, [a], [sa] =>
      let m : Option (Outcome QNum) := match op with
        | "q_neg" => some (QNum.neg sa) | "q_incr" => some (QNum.incr sa) | "q_decr" => some (QNum.decr sa)
        | _ => none
      match m with
      | none => .bad s!"num.{op}"
      | some m =>
        outQ ctx m r (fun ri => match ri with
          | none => some "unexpected CRAB_ERROR"
          | some q =>
            let n' : Int := match op with
              | "q_neg" => -a.num | "q_incr" => a.num + a.den | _ => a.num - a.den
            if canonical q && denotes q n' a.den then none else some "wrong value or not canonical")
    | _, [a, b], [sa, sb] =>
      let base := match op with
        | "q_adda" => "q_add" | "q_suba" => "q_sub" | "q_mula" => "q_mul" | "q_diva" => "q_div" | o => o
      let m : Option (Outcome QNum) := match op with
        | "q_add" => some (QNum.add sa sb) | "q_sub" => some (QNum.sub sa sb)
        | "q_mul" => some (QNum.mul sa sb) | "q_div" => some (QNum.div sa sb)
        | "q_adda" => some (QNum.addAssign sa sb) | "q_suba" => some (QNum.subAssign sa sb)
        | "q_mula" => some (QNum.mulAssign sa sb) | "q_diva" => some (QNum.divAssign sa sb)
        | _ => none
      match m with
      | none => .bad s!"num.{op}"
      | some m =>
        outQ ctx m r (fun ri =>
          -- expected value N / D by the school formulas on the operands as written
          let (n', d') : Int × Int := match base with
            | "q_add" => (a.num * b.den + b.num * a.den, a.den * b.den)
            | "q_sub" => (a.num * b.den - b.num * a.den, a.den * b.den)
            | "q_mul" => (a.num * b.num, a.den * b.den)
            | _ => (a.num * b.den, a.den * b.num)
          match ri with
          | none => if base == "q_div" && b.num == 0 then none else some "unexpected CRAB_ERROR"
          | some q =>
            if base == "q_div" && b.num == 0 then some "division by zero must raise CRAB_ERROR"
            else if canonical q && denotes q n' d' then none
            else some "wrong value or not canonical")
    | _, _, _ => .bad s!"num.{op}: arity"
  | some _, _ => .bad s!"num.{op}: result arity"

def handleZ (op : String) (args res : List Sexp) : Verdict :=
  if op.startsWith "q_" then handleNumQ op args res else
  match op, args, res with
  | "of_i64", [x], [r] =>
    match x.int?, r.int? with
    | some x, some r =>
      settle s!"num.of_i64 {x}" (ZNum.X.ofInt64' x == r)
        (if r == x then none else some "value changed by the construction from int64_t")
        (toString (ZNum.X.ofInt64' x)) (toString r)
    | _, _ => .bad "num.of_i64"
  | "of_u64", [x], [r] =>
    match x.nat?, r.int? with
    | some x, some r =>
      settle s!"num.of_u64 {x}" (ZNum.X.ofUInt64 x == r)
        (if r == (x : Int) then none else some "value changed by from_uint64")
        (toString (ZNum.X.ofUInt64 x)) (toString r)
    | _, _ => .bad "num.of_u64"
  | "to_i64", [z], [r] =>
    match z.int?, parseIntOrErr r with
    | some z, some ri =>
      let inR := decide (-(2 ^ 63) ≤ z ∧ z ≤ 2 ^ 63 - 1)
      let prop : Option String := match ri with
        | some v => if !inR then some "out of range must raise CRAB_ERROR"
                    else if v == z then none else some "int64 export changed the value"
        | none => if inR then some "CRAB_ERROR on a value that fits int64_t" else none
      settle s!"num.to_i64 {z}" (ZNum.toInt64? z == ri) prop (showOptInt (ZNum.toInt64? z)) (showOptInt ri)
    | _, _ => .bad "num.to_i64"
  | "fits_i64", [z], [r] =>
    match z.int?, parseBool r with
    | some z, some rb =>
      settle s!"num.fits_i64 {z}" (ZNum.fitsInt64 z == rb)
        (if decide (-(2 ^ 63) ≤ z ∧ z < 2 ^ 63) == rb then none else some "range test")
        (boolTxt (ZNum.fitsInt64 z)) (boolTxt rb)
    | _, _ => .bad "num.fits_i64"
  | "str", [z, b], [s, back] =>
    match z.int?, b.nat?, s.atom?, back.int? with
    | some z, some b, some s, some back =>
      let m := ZNum.X.toStr b z
      let prop : Option String :=
        if back != z then some "string round trip changed the value"
        else if b == 10 && s != toString z then some "decimal text"
        else none
      settle s!"num.str {z} {b}" (m == s && ZNum.X.ofStr? b s == some back) prop m s
    | _, _, _, _ => .bad "num.str"
  | "parse", [s, b], [r] =>
    match s.atom?, b.nat?, parseIntOrErr r with
    | some s, some b, some ri =>
      let m := ZNum.X.ofStr? b s
      let prop : Option String :=
        if b == 10 then
          -- Lean's own reader as an independent reference for plain decimal text
          match s.toInt?, ri with
          | some v, some w => if v == w || s.startsWith "+" then none else some "decimal value"
          | _, _ => none
        else none
      settle s!"num.parse {s} {b}" (m == ri) prop (showOptInt m) (showOptInt ri)
    | _, _, _ => .bad "num.parse"
  | "neg", [z], [r] =>
    match z.int?, r.int? with
    | some z, some r => settle s!"num.neg {z}" (-z == r) (if r + z == 0 then none else some "negation") (toString (-z)) (toString r)
    | _, _ => .bad "num.neg"
  | "incr", [z], [r] =>
    match z.int?, r.int? with
    | some z, some r => settle s!"num.incr {z}" (ZNum.X.incr z == r) (if r - 1 == z then none else some "increment") (toString (z + 1)) (toString r)
    | _, _ => .bad "num.incr"
  | "decr", [z], [r] =>
    match z.int?, r.int? with
    | some z, some r => settle s!"num.decr {z}" (ZNum.X.decr z == r) (if r + 1 == z then none else some "decrement") (toString (z - 1)) (toString r)
    | _, _ => .bad "num.decr"
  | "postincr", [z], [o, n] =>
    match z.int?, o.int?, n.int? with
    | some z, some o, some n =>
      settle s!"num.postincr {z}" (o == z && n == ZNum.X.incr z) (if o == z && n - 1 == z then none else some "post-increment")
        s!"{z} {z + 1}" s!"{o} {n}"
    | _, _, _ => .bad "num.postincr"
  | "postdecr", [z], [o, n] =>
    match z.int?, o.int?, n.int? with
    | some z, some o, some n =>
      settle s!"num.postdecr {z}" (o == z && n == ZNum.X.decr z) (if o == z && n + 1 == z then none else some "post-decrement")
        s!"{z} {z - 1}" s!"{o} {n}"
    | _, _, _ => .bad "num.postdecr"
  | "fill_ones", [z], [r] =>
    match z.int?, r.int? with
    | some z, some r =>
      if z < 0 then .skip "fill_ones: negative operand (assert)"
      else settle s!"num.fill_ones {z}" (ZNum.fillOnes z == r)
        (if fillOnesHolds z r then none else some "not the least 2^j-1 >= x") (toString (ZNum.fillOnes z)) (toString r)
    | _, _ => .bad "num.fill_ones"
  | _, [a, b], [r] =>
    match a.int?, b.int? with
    | some a, some b =>
      if ["lt", "le", "gt", "ge", "eq", "ne"].contains op then handleZCmp op a b r
      else match parseIntOrErr r with
        | some ri => handleZBin op a b ri
        | none => .bad s!"num.{op} result"
    | _, _ => .bad s!"num.{op}"
  | _, _, _ => .bad s!"num.{op}: arity"

/-! ### safe_i64 -/

def handleS (op : String) (args res : List Sexp) : Verdict :=
  let inR (x : Int) : Bool := decide (-(2 ^ 63) ≤ x ∧ x ≤ 2 ^ 63 - 1)
  /- never wraps: an answer is the exact result and in range; CRAB_ERROR exactly when the exact
     result is out of range -/
  let never (ctx : String) (exact : Int) (m ri : Option Int) : Verdict :=
    let prop : Option String := match ri with
      | some v => if v != exact then some s!"silent wrap: exact result is {exact}"
                  else if !inR v then some "answer outside int64" else none
      | none => if inR exact then some s!"CRAB_ERROR although the exact result {exact} fits" else none
    settle ctx (m == ri) prop (showOptInt m) (showOptInt ri)
  match op, args, res with
  | "of_z", [z], [r] =>
    match z.int?, parseIntOrErr r with
    | some z, some ri => never s!"safe.of_z {z}" z (SafeInt.ofZ z) ri
    | _, _ => .bad "safe.of_z"
  | "neg", [a], [r] =>
    match a.int?, parseIntOrErr r with
    | some a, some ri => if !inR a then .bad "safe.neg operand" else never s!"safe.neg {a}" (-a) (SafeInt.neg a) ri
    | _, _ => .bad "safe.neg"
  | _, [a, b], [r] =>
    match a.int?, b.int? with
    | some a, some b =>
      if !inR a || !inR b then .bad s!"safe.{op} operand outside int64" else
      if ["lt", "le", "gt", "ge", "eq", "ne"].contains op then
        match parseBool r with
        | some rb =>
          let m : Bool := match op with
            | "lt" => SafeInt.lt a b | "le" => SafeInt.le a b | "gt" => SafeInt.lt b a
            | "ge" => SafeInt.le b a | "eq" => SafeInt.eq a b | _ => !SafeInt.eq a b
          if m == rb then .ok else .unsound s!"safe.{op} {a} {b} impl={boolTxt rb} comparison differs from the order of the integers"
        | none => .bad s!"safe.{op} result"
      else
        match r with
        | .atom "trap" => if op == "div" && b == 0 then .skip "safe.div by zero (hardware trap, not executed)" else .bad "trap"
        | _ =>
          match parseIntOrErr r with
          | none => .bad s!"safe.{op} result"
          | some ri =>
            let ctx := s!"safe.{op} {a} {b}"
            match op with
            | "add" => never ctx (a + b) (SafeInt.add a b) ri
            | "adda" => never ctx (a + b) (SafeInt.add a b) ri
            | "sub" => never ctx (a - b) (SafeInt.sub a b) ri
            | "suba" => never ctx (a - b) (SafeInt.sub a b) ri
            | "mul" => never ctx (a * b) (SafeInt.mul a b) ri
            | "div" =>
              if b == 0 then .skip "safe.div by zero"
              else
                -- exact truncating quotient specified without division
                let exactOk (v : Int) := isTruncQuot a b v
                let m := (SafeInt.div a b).toOption
                let prop : Option String := match ri with
                  | some v => if !exactOk v then some "silent wrap: not the truncating quotient"
                              else if !inR v then some "answer outside int64" else none
                  | none => if a == -(2 ^ 63) && b == -1 then none else some "CRAB_ERROR although the quotient fits"
                settle ctx (m == ri) prop (showOptInt m) (showOptInt ri)
            | _ => .bad s!"safe.{op}"
    | _, _ => .bad s!"safe.{op}"
  | _, _, _ => .bad s!"safe.{op}: arity"

end NumDrv

/-- handler of component `num` (z_number, q_number) -/
def handleNum (op : String) (args res : List Sexp) : Verdict := NumDrv.handleZ op args res

/-- handler of component `safe` (safe_i64) -/
def handleSafe (op : String) (args res : List Sexp) : Verdict := NumDrv.handleS op args res

end Driver
