import Driver.DomH
import CrabModel.IR.Semantics

/-!
  Handler for component `prog` (mechanism R at program level): the harness `h_prog` builds a
  generated CrabIR program as a real crab CFG, runs the real forward (or forward+backward)
  analyzer with one shipped domain and the real assertion checker, and prints the invariants
  at the entry and exit of every block and one verdict per assert statement.  This handler
  parses the program and the answer, executes the program concretely with the formal semantics
  (`CrabModel/IR/Semantics.lean`) a few hundred times (initial states inside the declared `init`
  box, goal-directed choice streams) and checks

    [C01] every (block, entry state) visited satisfies the exported invariant at the entry of the
          block (not bottom, `at(v)` of every variable, every exported linear constraint); same
          for (block, exit state) and the invariant at the exit;
    [C02] no execution fails an assert classified `safe`; no execution reaches an assert
          classified `unreachable`.

  A violation message contains the tag, the program point, the initial state and the choice
  stream; the pair (initial state, choice stream) is replayed with `IR.run` before it is
  reported.

  Lines:  (prog.fwd <dom> (params d n t l) (ivars v0 ..) (bvars b0 ..) (entry B) (exit B) (init (v lo hi)..) (blocks ..))
              => (inv (B (pre bot top (iv ..) (bv ..) (cs ..)) (post ..)) ..) (chk (B i verdict) ..)  |  err
          (prog.fwdbwd ...)   same, analysed by intra_forward_backward_analyzer
-/
namespace Driver
open Crab Crab.IR

namespace Prog

/-! ### parsing -/

def idxOfName (pre : String) : Sexp → Option Nat
  | .atom s => if s.startsWith pre then (s.drop pre.length).toString.toNat? else none
  | _ => none

def pLin : Sexp → Option IR.Lin
  | .list (.atom "lin" :: c :: ts) => do
    let c ← c.int?
    let ts ← ts.mapM (fun t => match t with
      | .list [k, v] => do pure ((← k.int?), (← idxOfName "v" v))
      | _ => none)
    pure ⟨c, ts⟩
  | _ => none

def pCst : Sexp → Option IR.Cst
  | .list [.atom k, l] => do
    let l ← pLin l
    let k ← (match k with
      | "le" => some IR.CKind.le | "lt" => some IR.CKind.lt | "eq" => some IR.CKind.eq | "ne" => some IR.CKind.ne
      | _ => none)
    pure ⟨k, l⟩
  | _ => none

def pBinOp : String → Option BinOp
  | "add" => some .add | "sub" => some .sub | "mul" => some .mul | "sdiv" => some .sdiv
  | "udiv" => some .udiv | "srem" => some .srem | "urem" => some .urem | "and" => some .and
  | "or" => some .or | "xor" => some .xor | "shl" => some .shl | "lshr" => some .lshr
  | "ashr" => some .ashr | _ => none

def pOperand (s : Sexp) : Option Operand :=
  match idxOfName "v" s with
  | some v => some (.var v)
  | none => s.int?.map .const

def pStmt : Sexp → Option Stmt
  | .list [.atom "assign", x, e] => do pure (.assign (← idxOfName "v" x) (← pLin e))
  | .list [.atom "assume", c] => do pure (.assume (← pCst c))
  | .list [.atom "assert", c] => do pure (.assert (← pCst c))
  | .list [.atom "havoc", x] =>
    match idxOfName "v" x with
    | some v => some (.havoc v)
    | none => (idxOfName "b" x).map .havocB
  | .list [.atom "select", x, c, e1, e2] => do
    pure (.select (← idxOfName "v" x) (← pCst c) (← pLin e1) (← pLin e2))
  | .list [.atom "unreachable"] => some .unreachable
  | .list [.atom "bassign", b, c] => do pure (.bassign (← idxOfName "b" b) (← pCst c))
  | .list [.atom "bcopy", b, c, n] => do pure (.bcopy (← idxOfName "b" b) (← idxOfName "b" c) (← parseBool n))
  | .list [.atom "bor", b, c, d] => do pure (.bbin .bor (← idxOfName "b" b) (← idxOfName "b" c) (← idxOfName "b" d))
  | .list [.atom "band", b, c, d] => do pure (.bbin .band (← idxOfName "b" b) (← idxOfName "b" c) (← idxOfName "b" d))
  | .list [.atom "bxor", b, c, d] => do pure (.bbin .bxor (← idxOfName "b" b) (← idxOfName "b" c) (← idxOfName "b" d))
  | .list [.atom "bassume", b] => do pure (.bassume (← idxOfName "b" b) false)
  | .list [.atom "bnassume", b] => do pure (.bassume (← idxOfName "b" b) true)
  | .list [.atom "bassert", b] => do pure (.bassert (← idxOfName "b" b))
  | .list [.atom "bselect", b, c, d, e] => do
    pure (.bselect (← idxOfName "b" b) (← idxOfName "b" c) (← idxOfName "b" d) (← idxOfName "b" e))
  | .list [.atom op, x, y, z] => do
    pure (.binop (← pBinOp op) (← idxOfName "v" x) (← idxOfName "v" y) (← pOperand z))
  | _ => none

def sectionOf (name : String) (args : List Sexp) : Option (List Sexp) :=
  args.findSome? (fun a => match a with
    | .list (.atom n :: rest) => if n == name then some rest else none
    | _ => none)

structure Parsed where
  prog : Program
  labels : Array String
  box : Array (Bound × Bound)        -- per integer variable
  deriving Inhabited

/-- variables must be named `v0 … v(n-1)` / `b0 … b(m-1)` in this order -/
def namesOk (pre : String) (xs : List Sexp) : Bool :=
  (List.range xs.length).all (fun i => idxOfName pre (xs.getD i (.atom "?")) == some i)

def parseProgram (args : List Sexp) : Except String Parsed := do
  let some ivars := sectionOf "ivars" args | throw "ivars"
  let some bvars := sectionOf "bvars" args | throw "bvars"
  if !namesOk "v" ivars || !namesOk "b" bvars then throw "variable names"
  let some [.atom entry] := sectionOf "entry" args | throw "entry"
  let exit := match sectionOf "exit" args with | some [.atom e] => e | _ => ""
  let some blocks := sectionOf "blocks" args | throw "blocks"
  let labels : Array String := (blocks.map (fun b => match b with
    | .list (.atom l :: _) => l | _ => "?")).toArray
  let idx (l : String) : Option Nat := labels.toList.idxOf? l
  let mut bs : Array Block := #[]
  for b in blocks do
    match b with
    | .list [.atom l, .list (.atom "stmts" :: ss), .list (.atom "succs" :: succs)] =>
      let some stmts := ss.mapM pStmt | throw s!"statement in {l}"
      let some sx := succs.mapM (fun s => match s with | .atom n => idx n | _ => none) | throw s!"successor of {l}"
      bs := bs.push ⟨stmts, sx⟩
    | _ => throw "block"
  let some e := idx entry | throw "entry label"
  let x := (idx exit).getD bs.size
  let mut box : Array (Bound × Bound) := Array.replicate ivars.length (Bound.ninf, Bound.pinf)
  for t in (sectionOf "init" args).getD [] do
    match t with
    | .list [v, lo, hi] =>
      match idxOfName "v" v, parseBound lo, parseBound hi with
      | some v, some lo, some hi => box := box.setIfInBounds v (lo, hi)
      | _, _, _ => throw "init"
    | _ => throw "init"
  -- variable indices must be in range
  return { prog := ⟨ivars.length, bvars.length, e, x, bs⟩, labels := labels, box := box }

/-! ### the implementation's answer -/

structure Facts where
  bot : Bool := false
  top : Bool := false
  ivs : List Itv := []
  bvs : List Itv := []
  csts : List IR.Cst := []
  deriving Inhabited

def parseFacts : List Sexp → Option Facts
  | [b, t, .list (.atom "iv" :: ivs), .list (.atom "bv" :: bvs), .list (.atom "cs" :: cs)] => do
    pure { bot := (← parseBool b), top := (← parseBool t), ivs := (← ivs.mapM parseItv),
           bvs := (← bvs.mapM parseItv), csts := (← cs.mapM pCst) }
  | _ => none

def showState (σ : State) : String := s!"(iv {σ.iv.toList} bv {σ.bv.toList})"

def showLin (l : IR.Lin) : String :=
  l.ts.foldl (fun s t => s ++ s!" + {t.1}*v{t.2}") (toString l.c)

def showCst (c : IR.Cst) : String :=
  showLin c.e ++ (match c.k with | .le => " <= 0" | .lt => " < 0" | .eq => " = 0" | .ne => " != 0")

/-- first exported fact the state violates -/
def violates (f : Facts) (σ : State) : Option String :=
  if f.bot then some "is_bottom" else
  match (List.range f.ivs.length).find? (fun i => !(f.ivs.getD i Itv.top).contains (σ.geti i)) with
  | some i => some s!"at(v{i})={showItv (f.ivs.getD i Itv.top)}"
  | none =>
    match (List.range f.bvs.length).find? (fun i => !(f.bvs.getD i Itv.top).contains (if σ.getb i then 1 else 0)) with
    | some i => some s!"at(b{i})={showItv (f.bvs.getD i Itv.top)}"
    | none =>
      match f.csts.find? (fun c => !c.holds σ) with
      | some c => some s!"exported constraint {showCst c}"
      | none => none

inductive VerdictK | safe | warning | error | unreachable
  deriving BEq, Repr, Inhabited

structure Answer where
  pre : Array Facts
  post : Array Facts
  chk : List ((Nat × Nat) × VerdictK)

def parseAnswer (pp : Parsed) (res : List Sexp) : Except String Answer := do
  match res with
  | [.list (.atom "inv" :: invs), .list (.atom "chk" :: chks)] =>
    if invs.length != pp.labels.size then throw "number of blocks in inv"
    let mut pre : Array Facts := #[]
    let mut post : Array Facts := #[]
    for (iv, i) in invs.zipIdx do
      match iv with
      | .list [.atom l, .list (.atom "pre" :: a), .list (.atom "post" :: b)] =>
        if pp.labels.getD i "" != l then throw "block order in inv"
        let some a := parseFacts a | throw s!"pre of {l}"
        let some b := parseFacts b | throw s!"post of {l}"
        pre := pre.push a; post := post.push b
      | _ => throw "inv entry"
    let mut chk : List ((Nat × Nat) × VerdictK) := []
    for c in chks do
      match c with
      | .list [.atom l, i, .atom v] =>
        let some b := pp.labels.toList.idxOf? l | throw "chk label"
        let some i := i.nat? | throw "chk index"
        let some v := (match v with
          | "safe" => some VerdictK.safe | "warning" => some .warning | "error" => some .error
          | "unreachable" => some .unreachable | _ => none) | throw s!"verdict {v} of {l}#{i}"
        chk := ((b, i), v) :: chk
      | _ => throw "chk entry"
    return ⟨pre, post, chk⟩
  | _ => throw "answer shape"

/-! ### generation of executions -/

def inBox (b : Bound × Bound) (k : Int) : Bool := Bound.le b.1 (.fin k) && Bound.le (.fin k) b.2

def boxValues (b : Bound × Bound) (cands : Array Int) : Array Int :=
  let special : List Int := match b.1, b.2 with
    | .fin l, .fin h => [l, h, l + 1, h - 1, (l + h) / 2]
    | .fin l, _ => [l, l + 1, l + 7, l + 1000]
    | _, .fin h => [h, h - 1, h - 7, h - 1000]
    | _, _ => []
  ((special ++ cands.toList).filter (inBox b)).eraseDups.toArray

def progCandidates (req : Sexp) : Array Int :=
  let cs := (intsOf req).filter (fun k => k.natAbs < 2 ^ 70)
  let base : List Int := [0, 1, -1, 2, -2, 3, 5, -5, 8, -8, 100, -100, 2 ^ 31, -(2 ^ 31)]
  ((cs.flatMap (fun k => [k, k + 1, k - 1, -k])) ++ base).eraseDups.toArray

def pick (g : Gen) (n : Nat) : Gen × Nat :=
  let (g, r) := g.next
  (g, if n == 0 then 0 else r % n)

/-- every linear constraint occurring in the program -/
def progCsts (p : Program) : Array IR.Cst :=
  (p.blocks.toList.flatMap (fun b => b.stmts.filterMap (fun s => match s with
    | .assume c => some c | .assert c => some c | .select _ c _ _ => some c | .bassign _ c => some c
    | _ => none))).toArray

/-- boundary-directed value: a value for variable `x` that puts the expression of a random
    constraint mentioning `x` (with a unit coefficient) at -1, 0 or 1 in state σ -/
def directedValue (csts : Array IR.Cst) (g : Gen) (σ : State) (x : Nat) : Gen × Option Int :=
  let mine := csts.filter (fun c => c.e.ts.any (fun t => t.2 == x && (t.1 == 1 || t.1 == -1)))
  if mine.isEmpty then (g, none) else
  let (g, j) := pick g mine.size
  let (g, d) := pick g 3
  let c := mine.getD j default
  let k : Int := ((c.e.ts.find? (fun t => t.2 == x && (t.1 == 1 || t.1 == -1))).map (·.1)).getD 1
  let cur := c.e.eval σ
  -- eval with x replaced by x' :  cur + k * (x' - σ x) = δ
  let δ : Int := (d : Int) - 1
  (g, some (σ.geti x + k * (δ - cur)))

/-- initial state number `k` inside the box: corners first, then random members -/
def initState (pp : Parsed) (csts : Array IR.Cst) (vals : Array (Array Int)) (g : Gen) (k : Nat) : Gen × State := Id.run do
  let mut g := g
  let mut iv : Array Int := #[]
  for i in [0:pp.prog.nI] do
    let vs := vals.getD i #[0]
    if k < 5 && k < vs.size then
      iv := iv.push (vs.getD k 0)
    else
      let (g', j) := pick g vs.size
      g := g'
      iv := iv.push (vs.getD j 0)
  let mut bv : Array Bool := #[]
  for _ in [0:pp.prog.nB] do
    let (g', j) := pick g 2
    g := g'
    bv := bv.push (j == 1)
  let mut σ : State := ⟨iv, bv⟩
  -- boundary-directed adjustment of one or two variables (half of the states)
  if k ≥ 3 && pp.prog.nI > 0 then
    let (g', r) := pick g 2
    g := g'
    if r == 0 then
      for _ in [0:2] do
        let (g', x) := pick g pp.prog.nI
        g := g'
        let (g', v) := directedValue csts g σ x
        g := g'
        match v with
        | some v => if inBox (pp.box.getD x (Bound.ninf, Bound.pinf)) v then σ := σ.seti x v
        | none => pure ()
  return (g, σ)

def tooBig (σ : State) : Bool := σ.iv.any (fun k => k.natAbs > 2 ^ 256)

def verdictOf (a : Answer) (b i : Nat) : Option VerdictK :=
  (a.chk.find? (fun e => e.1 == (b, i))).map (·.2)

/-- can block `b` reach the exit block? (fuel = number of blocks) -/
def reachesExit (p : Program) (b : Nat) : Bool := Id.run do
  let mut seen : List Nat := [b]
  let mut frontier : List Nat := [b]
  for _ in [0:p.blocks.size + 1] do
    let nxt := (frontier.flatMap (fun x => (p.block x).succs)).eraseDups.filter (fun x => !seen.contains x)
    seen := seen ++ nxt
    frontier := nxt
  return seen.contains p.exit

/-- scan of the trace of one execution of the reference semantics: first [C01] and first [C02]
    violation (described with the program point) -/
def checkTrace (pp : Parsed) (a : Answer) (tr : List Event) : Option String × Option String :=
  tr.foldl (fun (c1, c2) ev =>
    let lab (b : Nat) := pp.labels.getD b "?"
    match ev with
    | .enter b σ =>
      (c1 <|> (violates (a.pre.getD b {}) σ).map (fun f =>
        s!"state {showState σ} arrives at block {lab b} but the invariant at its entry says {f}"), c2)
    | .leave b σ =>
      (c1 <|> (violates (a.post.getD b {}) σ).map (fun f =>
        s!"state {showState σ} leaves block {lab b} but the invariant at its exit says {f}"), c2)
    | .check b i σ ok =>
      let shape (_ : Unit) : String := if reachesExit pp.prog b then "" else " (shape: the block cannot reach the exit block)"
      (c1, c2 <|> (match verdictOf a b i with
        | some .unreachable => some s!"assert {lab b}#{i} classified unreachable is executed in state {showState σ}{shape ()}"
        | some .safe => if ok then none else some s!"assert {lab b}#{i} classified safe fails in state {showState σ}{shape ()}"
        | _ => none))
    | .done _ => (c1, c2)) (none, none)

structure Stats where
  execs : Nat := 0
  ge3 : Nat := 0          -- executions that visited at least 3 blocks
  back : Nat := 0         -- executions that entered a block a second time (took a loop back edge)
  undef : Nat := 0        -- executions ended by an operation without meaning (not counted)
  checksOk : Nat := 0     -- passed checks of asserts classified safe
  visited : Nat := 0      -- block visits
  deriving Inhabited, Repr

structure Found where
  msg : String
  σ0 : State
  stream : List Int
  fuel : Nat

structure Search where
  g : Gen
  visits : Array Nat
  stats : Stats := {}
  c1 : Option Found := none
  c2 : Option Found := none

/-- do the `assume` statements at the front of a block hold in σ? (look-ahead of the search) -/
def leadingAssumesHold : List Stmt → State → Bool
  | .assume c :: rest, σ => c.holds σ && leadingAssumesHold rest σ
  | .bassume b neg :: rest, σ => (σ.getb b != neg) && leadingAssumesHold rest σ
  | _, _ => true

def FUEL : Nat := 40

/-- one execution driven online: havoc values from the candidates, successors preferring blocks
    visited less often; returns the recorded choice stream and the number of blocks run.
    The checks are made on the fly with the same `checkTrace` on the events of each block. -/
def runOne (pp : Parsed) (a : Answer) (csts : Array IR.Cst) (cands : Array Int) (s : Search) (σ0 : State) : Search := Id.run do
  let p := pp.prog
  let mut g := s.g
  let mut visits := s.visits
  let mut σ := σ0
  let mut b := p.entry
  let mut stream : Array Int := #[]
  let mut seen : List Nat := []
  let mut nblocks := 0
  let mut back := false
  let mut c1 : Option String := none
  let mut c2 : Option String := none
  let mut isUndef := false
  let mut okChecks := 0
  for _ in [0:FUEL] do
    nblocks := nblocks + 1
    if seen.contains b then back := true
    seen := b :: seen
    visits := visits.modify b (· + 1)
    let blk := p.block b
    -- choices for the havocs of this block
    let mut chs : List Int := []
    for st in blk.stmts do
      match st with
      | .havoc x =>
        let (g', j) := pick g cands.size
        g := g'
        let (g', r) := pick g 3
        g := g'
        let (g', dv) := if r == 0 then directedValue csts g σ x else (g, none)
        g := g'
        chs := chs ++ [dv.getD (cands.getD j 0)]
      | .havocB _ =>
        let (g', j) := pick g 2
        g := g'
        chs := chs ++ [(j : Int)]
      | _ => pure ()
    stream := stream ++ chs.toArray
    let br := runBlock p b σ chs
    let evs : List Event := Event.enter b σ :: br.events ++ (match br.res with | .next σ' => [Event.leave b σ'] | _ => [])
    let (d1, d2) := checkTrace pp a evs
    okChecks := okChecks + (br.events.filter (fun e => match e with
      | .check bb i _ true => verdictOf a bb i == some .safe | _ => false)).length
    if c1.isNone then c1 := d1
    if c2.isNone then c2 := d2
    match br.res with
    | .next σ' =>
      σ := σ'
      if tooBig σ then break
      match blk.succs with
      | [] => break
      | [n] => b := n
      | succs =>
        -- prefer the successor visited least often (ties and 1/3 of the cases: random)
        let (g', r) := pick g 3
        g := g'
        let (g'', j) := pick g succs.length
        g := g''
        -- look ahead: successors whose leading assumes hold in the current state
        let feasible := (List.range succs.length).filter (fun k => leadingAssumesHold (p.block (succs.getD k 0)).stmts σ)
        let pool := if feasible.isEmpty then List.range succs.length else feasible
        let j := pool.getD (j % pool.length) 0
        let best := pool.foldl (fun m k =>
          if visits.getD (succs.getD k 0) 0 < visits.getD (succs.getD m 0) 0 then k else m) j
        let k := if r == 0 then j else best
        stream := stream.push (k : Int)
        b := succs.getD k 0
    | .undef => isUndef := true; break
    | _ => break
  let st := s.stats
  let stats : Stats := { execs := st.execs + 1, ge3 := st.ge3 + (if nblocks ≥ 3 then 1 else 0),
                          back := st.back + (if back then 1 else 0), undef := st.undef + (if isUndef then 1 else 0),
                          checksOk := st.checksOk + okChecks, visited := st.visited + nblocks }
  let mk (m : Option String) (old : Option Found) : Option Found :=
    match old, m with
    | some f, _ => some f
    | none, some m => some ⟨m, σ0, stream.toList, nblocks⟩
    | none, none => none
  return { g := g, visits := visits, stats := stats, c1 := mk c1 s.c1, c2 := mk c2 s.c2 }

def NEXEC : Nat := 240

def search (pp : Parsed) (a : Answer) (req : Sexp) : Search := Id.run do
  let cands := progCandidates req
  let csts := progCsts pp.prog
  let seed := (intsOf req).foldl (fun acc k => (acc * 31 + k.natAbs) % 2 ^ 61) (pp.labels.size + 11)
  let vals := pp.box.map (fun b => boxValues b cands)
  let mut s : Search := { g := ⟨seed⟩, visits := Array.replicate pp.labels.size 0 }
  if vals.any (·.isEmpty) then return s
  -- deterministic straight-line programs need few runs
  let nexec := NEXEC
  for k in [0:nexec] do
    let (g, σ0) := initState pp csts vals s.g k
    s := runOne pp a csts cands { s with g := g } σ0
    if s.c1.isSome && s.c2.isSome then break
  return s

/-- confirm a finding by replaying (initial state, choice stream) with the reference `IR.run` -/
def confirm (pp : Parsed) (a : Answer) (f : Found) (second : Bool) : Option String :=
  let tr := IR.run pp.prog f.fuel f.σ0 f.stream
  let (c1, c2) := checkTrace pp a tr
  let m := if second then c2 else c1
  m.map (fun m => s!"{m}; replay: init={showState f.σ0} choices={f.stream}")

def statsLine (st : Stats) : String :=
  s!"execs={st.execs} ge3blocks={st.ge3} backedge={st.back} undef={st.undef} safeChecksPassed={st.checksOk} blockVisits={st.visited}"

end Prog

open Prog in
def handleProg (op : String) (args res : List Sexp) : Verdict :=
  if op != "fwd" && op != "fwdbwd" then .bad s!"prog.{op}" else
  let dom := match args with | .atom d :: _ => d | _ => "?"
  match res with
  | [.atom "err"] => .skip s!"prog.{op} {dom}: CRAB_ERROR raised"
  | _ =>
  match parseProgram args with
  | .error e => .bad s!"prog.{op}: request ({e})"
  | .ok pp =>
    match parseAnswer pp res with
    | .error e => .bad s!"prog.{op}: answer ({e})"
    | .ok a =>
      let s := search pp a (.list args)
      let ctx := s!"prog.{op} {dom}"
      -- (fbparams m 1): use_refined_invariants — the stored "invariants" are the forward invariants refined by the
      -- necessary preconditions of the errors: by design they describe only the executions that go on to violate an
      -- assertion, so they are not checked as invariants of all executions ([C01]); the verdicts are ([C02])
      let refined := match sectionOf "fbparams" args with | some [_, .atom "1"] => true | _ => false
      let m1 := if refined then none else s.c1.map (fun f => (confirm pp a f false).map (fun m => s!"[C01] {ctx}: {m}"))
      let m2 := s.c2.map (fun f => (confirm pp a f true).map (fun m => s!"[C02] {ctx}: {m}"))
      match m1, m2 with
      | none, none => .ok
      | some none, _ => .bad s!"{ctx}: a [C01] finding of the online search was not confirmed by the replay"
      | _, some none => .bad s!"{ctx}: a [C02] finding of the online search was not confirmed by the replay"
      | some (some x), some (some y) => .unsound (x ++ " ;; " ++ y)
      | some (some x), none => .unsound x
      | none, some (some y) => .unsound y

/-- statistics of the executions of one line (non-triviality report; not a verdict) -/
def progStats (args res : List Sexp) : Option Prog.Stats :=
  match Prog.parseProgram args with
  | .error _ => none
  | .ok pp =>
    match Prog.parseAnswer pp res with
    | .error _ => none
    | .ok a => some (Prog.search pp a (.list args)).stats

end Driver
