import Driver.Common
import CrabModel.Fix.Interleaved

/-!
  Handler for component `fix`: the real `interleaved_fwd_fixpoint_iterator` driven with a client
  value type = finite set of concrete states (bit mask), block transformer = exact image under a
  per-block transition relation.

  (fix.run ns n (preds (p..) ...) (wto <comp>...) (nest (h..) ...) start init <asm> delay desc wmode nmode
           (rel (m_0 .. m_{ns-1}) ... one list per block))
     => (pre m_0 .. m_{n-1}) (post m_0 .. m_{n-1})
  <asm> = none | (asm (block mask) ...)
  wmode: 0 widening = join            1 widening = (b ⊆ a ? a : top)
  nmode: 0 narrowing = meet           1 narrowing = (a = top ? b : a)

  Checks, on every line:
   * soundness (C01): every table entry of the implementation contains the least solution
     (computed here by naive Kleene iteration of the concrete collecting semantics);
   * exactness (C06) when wmode = nmode = 0: the tables equal the least solution;
   * exact correspondence (E): the tables equal those of the Lean model of the iterator.
-/
namespace Driver
open Crab Crab.Fix

def maskOps (ns wmode nmode : Nat) : Ops Nat :=
  let top := 2 ^ ns - 1
  let leq := fun (a b : Nat) => (a ||| b) == b
  { bot := 0, top := top, leq := leq,
    join := fun a b => a ||| b,
    meet := fun a b => a &&& b,
    widen := fun a b => if wmode == 0 then a ||| b else (if leq b a then a else top),
    narrow := fun a b => if nmode == 0 then a &&& b else (if a == top then b else a) }

/-- image of a set of states under the relation of one block -/
def image (ns : Nat) (rel : Array Nat) (s : Nat) : Nat := Id.run do
  let mut r := 0
  for i in [0:ns] do
    if s.testBit i then r := r ||| rel.getD i 0
  return r

partial def parseComp : Sexp → Option Comp
  | .atom s => s.toNat?.map Comp.vertex
  | .list (.atom h :: body) => do
      let h ← h.toNat?
      let b ← body.mapM parseComp
      pure (Comp.cycle h b)
  | _ => none

def natList : Sexp → Option (List Nat)
  | .list xs => xs.mapM Sexp.nat?
  | _ => none

def tagged (tag : String) : Sexp → Option (List Sexp)
  | .list (.atom t :: xs) => if t == tag then some xs else none
  | _ => none

/-- least solution of the concrete collecting semantics by Kleene iteration -/
def kleene (ns n : Nat) (preds : Array (List Nat)) (start init : Nat) (asm : List (Nat × Nat))
    (rels : Array (Array Nat)) : Array Nat × Array Nat := Id.run do
  let mut pre : Array Nat := Array.replicate n 0
  let mut post : Array Nat := Array.replicate n 0
  -- at most n * ns + 1 rounds are needed; iterate until stable
  for _ in [0:(2 * n * ns + 2)] do
    let mut changed := false
    for b in [0:n] do
      let mut v := if b == start then init else 0
      for p in preds.getD b [] do
        v := v ||| post.getD p 0
      match asm.lookup b with
      | some a => v := v &&& a
      | none => pure ()
      let w := image ns (rels.getD b #[]) v
      if v != pre.getD b 0 || w != post.getD b 0 then
        changed := true
        pre := pre.set! b v
        post := post.set! b w
    if !changed then break
  return (pre, post)

mutual
/-- `b` is the head of some cycle of the component -/
def headOf : Comp → Nat → Bool
  | .vertex _, _ => false
  | .cycle h body, b => h == b || headOfList body b
def headOfList : List Comp → Nat → Bool
  | [], _ => false
  | c :: cs, b => headOf c b || headOfList cs b
end

def firstBitNotIn (ns a b : Nat) : Option Nat :=
  (List.range ns).find? (fun i => a.testBit i && !b.testBit i)

def handleFix (op : String) (args res : List Sexp) : Verdict :=
  match op, args, res with
  | "run", [ns, n, succs, cfgentry, start, init, asm, delay, desc, wmode, nmode, rel], [preds, wto, nest, rpre, rpost] =>
    let parsed : Option _ := do
      let ns ← ns.nat?; let n ← n.nat?
      let succs ← (← tagged "succs" succs).mapM natList
      let _ ← cfgentry.nat?
      let preds ← (← tagged "preds" preds).mapM natList
      let wto ← (← tagged "wto" wto).mapM parseComp
      let nest ← (← tagged "nest" nest).mapM (fun x => match x with
        | .atom "x" => some (none : Option (List Nat))
        | y => (natList y).map some)
      let start ← start.nat?; let init ← init.nat?
      let asm : Option (List (Nat × Nat)) ← (match asm with
        | .atom "none" => some none
        | s => do
          let xs ← tagged "asm" s
          let ps ← xs.mapM (fun x => match x with
            | .list [b, m] => do pure ((← b.nat?), (← m.nat?))
            | _ => none)
          pure (some ps))
      let delay ← delay.nat?; let desc ← desc.nat?
      let wmode ← wmode.nat?; let nmode ← nmode.nat?
      let rel ← (← tagged "rel" rel).mapM natList
      let ipre ← (← tagged "pre" rpre).mapM Sexp.nat?
      let ipost ← (← tagged "post" rpost).mapM Sexp.nat?
      -- the predecessor lists reported by the implementation must be the transpose of succs
      let predsOk := (List.range n).all (fun b =>
        let ps := preds.getD b []
        let expect := (List.range n).filter (fun p => (succs.getD p []).contains b)
        ps.all (fun p => expect.contains p) && expect.all (fun p => ps.contains p))
      if !predsOk then none
      pure (ns, n, preds, wto, nest, start, init, asm, delay, desc, wmode, nmode, rel, ipre, ipost)
    match parsed with
    | none => .bad "fix.run parse"
    | some (ns, n, preds, wto, nest, start, init, asm, delay, desc, wmode, nmode, rel, ipre, ipost) =>
      let predsA := preds.toArray
      let nestA := nest.toArray
      let relsA : Array (Array Nat) := (rel.map List.toArray).toArray
      let ops := maskOps ns wmode nmode
      let ctx : Ctx Nat := {
        ops := ops,
        analyze := fun b s => image ns (relsA.getD b #[]) s,
        preds := fun b => predsA.getD b [],
        nesting := fun b => nestA.getD b none,
        entry := start, init := init, assumptions := asm, delay := delay, descending := desc }
      -- fuel: every loop of the real code is finite here (finite lattice); be generous
      let fuel := (n + 2) * (ns + delay + desc + 4) * (n + 2) * 4 + 1000
      let (lpre, lpost) := kleene ns n predsA start init (asm.getD []) relsA
      -- 1. soundness / exactness against the least solution
      -- admissible start blocks for the exactness claim (C06): the first block of the ordering
      -- (the CFG entry, which may head a loop) or a block outside every loop
      let isHead := wto.any (fun c => headOf c start)
      let admissible := (match wto with
        | Comp.vertex v :: _ => v == start
        | Comp.cycle h _ :: _ => h == start
        | [] => false) || (nestA.getD start none == some [] && !isHead)
      let exact := wmode == 0 && nmode == 0 && admissible
      if nestA.getD start none == none then .skip "start block not reachable from the cfg entry" else
      let chk (name : String) (impl : List Nat) (lfp : Array Nat) : Option Verdict :=
        (List.range n).findSome? (fun b =>
          let iv := impl.getD b 0
          let lv := lfp.getD b 0
          match firstBitNotIn ns lv iv with
          | some s => some (.unsound s!"fix.run {name}[{b}]={iv} misses reachable state {s} (least solution {lv})")
          | none =>
            if exact && iv != lv then
              some (.imprecise s!"fix.run {name}[{b}]={iv} is not the least solution {lv} although widening=join, narrowing=meet")
            else none)
      match chk "pre" ipre lpre with
      | some v => v
      | none =>
      match chk "post" ipost lpost with
      | some v => v
      | none =>
        -- 2. exact correspondence with the model of the iterator
        match run ctx fuel wto with
        | none => .drift "fix.run: model ran out of fuel"
        | some st =>
          let mpre := (List.range n).map st.pre
          let mpost := (List.range n).map st.post
          if mpre == ipre && mpost == ipost then .ok
          else .drift s!"fix.run tables differ: model pre={mpre} post={mpost} impl pre={ipre} post={ipost}"
  | "run", _, [.atom "err"] =>
    .unsound "fix.run: the analysis raised CRAB_ERROR on a well-formed CFG: no invariant is produced"
  | _, _, _ => .bad s!"fix.{op}"

end Driver
