import Driver.DomH

/-!
  Handler for component `wchain` (property C05, widening chains of the shipped domains).

  `wchain.run`    : a chain  x_0 (seed history),  x_i = x_{i-1} ∇ y_i  of the real domain; the
                    harness reports the answers of the domain's own inclusion test for every step
                    and dumps of some x_i.  The driver replays the seed history and every y_i on
                    concrete witness states (same semantics as `Driver.handleDom`) and checks
        [C05][ub]     every witness of x_{i-1} and of y_i satisfies the exported facts of x_i
        [C05][ub-leq] / [C05][lub-leq]   `y_i <= x_i` / `x_{i-1} <= x_i` answered no (verdict
                      `imprecise`: no concrete state outside the result was found, the inclusion
                      test itself may be incomplete)
        [C05][chain]  the chain has no stationary suffix (`x_i <= x_{i-1}` fails in the last 20 steps and at least
                      4 times in the last 40: an isolated late step is not divergence)
        [C05][leq-trans] `y_i <= x_i`, `x_i <= x_{i-1}` answered yes but `y_i <= x_{i-1}` no
  `wchain.narrow` : z_i = z_{i-1} && y_i with y_i = F(z_{i-1}) & z_{i-1}:
        [C05][narrow] a witness of y_i (a state of F(z_{i-1}) that is also in z_{i-1}) violates z_i
  `wchain.wint`   : the same chain for the scalar wrapped_interval; membership is decided on
                    concrete bit-vectors.
-/
namespace Driver
namespace WChain
open Crab

/-! ### index forms -/

structure Accel where
  s : Nat
  e : Nat
  r : Nat

/-- effective index of step `i` (see h_widen.cpp) -/
def effIndex (a : Option Accel) (i : Nat) : Int :=
  match a with
  | none => i
  | some a =>
    let e := if a.e < a.s then a.s else a.e
    if i < a.s then i
    else if i < e then (a.s : Int) * 2 ^ (a.r * (i - a.s))
    else (a.s : Int) * 2 ^ (a.r * (e - a.s)) + ((i - e : Nat) : Int)

def parseAccel : Option Sexp → Option Accel
  | some (.list [.atom "accel", s, e, r]) => do pure ⟨← s.nat?, ← e.nat?, ← r.nat?⟩
  | _ => none

def iatom (k : Int) : Sexp := .atom (toString k)

/-- instantiate the index forms of a step with the step number `i` and the effective index `ie` -/
partial def inst (i : Nat) (ie : Int) : Sexp → Sexp
  | .atom s => .atom s
  | .list xs =>
    let dflt := Sexp.list (xs.map (inst i ie))
    match xs with
    | [.atom "ix", a, b] => match a.int?, b.int? with
      | some a, some b => iatom (a + b * ie) | _, _ => dflt
    | [.atom "ixq", a, b] => match a.int?, b.int? with
      | some a, some b => iatom (a + b * ie * i) | _, _ => dflt
    | [.atom "ixp", a, b, c] => match a.int?, b.int?, c.nat? with
      | some a, some b, some c =>
        let ex : Nat := if ie < (c : Int) then ie.toNat else c
        iatom (a + b * 2 ^ ex)
      | _, _, _ => dflt
    | [.atom "ixm", a, b, m] => match a.int?, b.int?, m.nat? with
      | some a, some b, some m => iatom (a + b * ((i % (max 1 m) : Nat) : Int)) | _, _, _ => dflt
    | [.atom "ixd", a, b, m] => match a.int?, b.int?, m.nat? with
      | some a, some b, some m => iatom (a + b * (ie.tdiv ((max 1 m : Nat) : Int))) | _, _, _ => dflt
    | [.atom "vix", k] => match k.nat? with
      | some k => .atom s!"v{(k + i) % NVARS}" | none => dflt
    | [.atom "vixd", k, m] => match k.nat?, m.nat? with
      | some k, some m => .atom s!"v{(k + i / (max 1 m)) % NVARS}" | _, _ => dflt
    | _ => dflt

/-! ### one operation of the h_dom op language on a pool of witness sets -/

abbrev Pool := Array (List CState)

/-- the driver's own pseudo-random stream (native 64-bit arithmetic) -/
structure Gen where
  s : UInt64
def Gen.next (g : Gen) : Gen × Nat :=
  let s := g.s * 6364136223846793005 + 1442695040888963407
  (⟨s⟩, (s >>> 33).toNat)

def freshStates (cands : Array Int) (g : Gen) (k : Nat) : Gen × List CState := Id.run do
  let mut g := g
  let mut out : List CState := []
  for _ in [0:k] do
    let mut σ : CState := Array.mkEmpty NVARS
    for _ in [0:NVARS] do
      let (g', r) := g.next
      g := g'
      σ := σ.push (cands.getD (r % cands.size) 0)
    out := σ :: out
  return (g, out)

/-- havoc of variable `x`: keep the state and add a few variants -/
def havoc (cands : Array Int) (g : Gen) (x : Nat) (ws : List CState) : Gen × List CState := Id.run do
  let mut g := g
  let mut out : List CState := []
  for σ in ws do
    out := σ :: out
    for _ in [0:2] do
      let (g', r) := g.next
      g := g'
      out := (σ.setIfInBounds x (cands.getD (r % cands.size) 0)) :: out
  return (g, capList out.reverse)

def applyOp (cands : Array Int) (g : Gen) (w : Pool) (o : Sexp) : Except String (Gen × Pool) :=
  let W := fun (k : Nat) => w.getD k []
  let dOf : Sexp → Nat := fun d => d.nat?.getD 0
  let put := fun (g : Gen) (d : Nat) (ws : List CState) => (Except.ok (g, w.setIfInBounds d ws) : Except String (Gen × Pool))
  match o with
  | .list [.atom "top", d] => let (g, ws) := freshStates cands g CAP; put g (dOf d) ws
  | .list [.atom "bot", d] => put g (dOf d) []
  | .list [.atom "copy", d, s] => put g (dOf d) (W (dOf s))
  | .list [.atom "assign", d, x, e] =>
    match varIdx x, parseLin e with
    | some x, some e => put g (dOf d) ((W (dOf d)).map (fun σ => σ.setIfInBounds x (e.eval σ)))
    | _, _ => .error "assign"
  | .list [.atom "select", d, x, c, e1, e2] =>
    match varIdx x, parseCst c, parseLin e1, parseLin e2 with
    | some x, some c, some e1, some e2 =>
      put g (dOf d) ((W (dOf d)).map (fun σ => σ.setIfInBounds x (if c.sat σ then e1.eval σ else e2.eval σ)))
    | _, _, _, _ => .error "select"
  | .list [.atom k, d, .atom aop, x, y, z] =>
    if k == "arith" || k == "bitw" then
      match varIdx x, varIdx y with
      | some x, some y =>
        let zv : CState → Option Int := match varIdx z with
          | some zi => fun σ => some (σ.getD zi 0)
          | none => fun _ => z.int?
        put g (dOf d) ((W (dOf d)).filterMap (fun σ => do
          let b ← zv σ
          let c ← concBin (arithName aop) (σ.getD y 0) b
          pure (σ.setIfInBounds x c)))
      | _, _ => .error k
    else .error s!"op {k}"
  | .list (.atom "assume" :: d :: cs) =>
    match cs.mapM parseCst with
    | some cs => put g (dOf d) ((W (dOf d)).filter (fun σ => cs.all (·.sat σ)))
    | none => .error "assume"
  | .list (.atom "forget" :: d :: xs) =>
    let (g, ws) := xs.foldl (fun (g, ws) x => havoc cands g ((varIdx x).getD 0) ws) (g, W (dOf d))
    put g (dOf d) ws
  | .list (.atom "project" :: d :: xs) =>
    let keep := xs.filterMap varIdx
    let (g, ws) := (List.range NVARS).foldl (fun (g, ws) x =>
      if keep.contains x then (g, ws) else havoc cands g x ws) (g, W (dOf d))
    put g (dOf d) ws
  | .list [.atom "rename", d, .list [x], .list [y]] =>
    match varIdx x, varIdx y with
    | some x, some y =>
      let ws := (W (dOf d)).map (fun σ => σ.setIfInBounds y (σ.getD x 0))
      let (g, ws) := havoc cands g x ws
      put g (dOf d) ws
    | _, _ => .error "rename"
  | .list [.atom "expand", d, x, y] =>
    match varIdx x, varIdx y with
    | some x, some y => put g (dOf d) ((W (dOf d)).map (fun σ => σ.setIfInBounds y (σ.getD x 0)))
    | _, _ => .error "expand"
  | .list [.atom k, d, a, b] =>
    let a := dOf a; let b := dOf b
    if k == "join" || k == "widen" then put g (dOf d) (capList (interleave (W a) (W b)))
    else if k == "meet" || k == "narrow" then put g (dOf d) ((W a).filter (fun σ => (W b).contains σ))
    else .error s!"op {k}"
  | .list [.atom "joineq", d, a] => put g (dOf d) (capList (interleave (W (dOf d)) (W (dOf a))))
  | .list [.atom "meeteq", d, a] => put g (dOf d) ((W (dOf d)).filter (fun σ => (W (dOf a)).contains σ))
  | .list [.atom "normalize", _] => .ok (g, w)
  | .list [.atom "minimize", _] => .ok (g, w)
  | .list [.atom "query", _] => .ok (g, w)
  | _ => .error s!"op {o}"

def applyOps (cands : Array Int) (g : Gen) (w : Pool) (ops : List Sexp) : Except String (Gen × Pool) :=
  ops.foldl (fun acc o => do let (g, w) ← acc; applyOp cands g w o) (.ok (g, w))

/-- witnesses with astronomically large components are dropped (repeated squaring in a loop body
    doubles the size of a witness at every step); dropping witnesses is always sound -/
def LIMIT : Nat := 2 ^ 2048
def saneState (σ : CState) : Bool := σ.all (fun k => k.natAbs < LIMIT)

/-- `capList` on a prefix (the duplicate elimination is quadratic) -/
def capFast (xs : List CState) : List CState := capList ((xs.filter saneState).take (CAP + CAP / 2))

/-- more fresh states than the cap for values built from top by constraints -/
def FRESH : Nat := 160

/-- candidates of one instantiated step (its constants and neighbours) on top of the chain's -/
def stepCands (cands : Array Int) (step : Sexp) : Array Int :=
  let cs := (intsOf step).filter (fun k => k.natAbs < 2 ^ 200)
  (cs.flatMap (fun k => [k, k + 1, k - 1])).foldl (fun a k => if a.contains k then a else a.push k) cands

/-- witnesses of the further value of one (instantiated) step -/
def runStep (cands : Array Int) (g : Gen) (step : Sexp) (wx w0 : List CState) : Except String (Gen × List CState) :=
  match step with
  | .list (.atom kind :: ops) =>
    let cands := stepCands cands step
    let (g, f0) := freshStates cands g FRESH
    let (g, f2) := freshStates cands g CAP
    let (g, f3) := freshStates cands g CAP
    let s0 := if kind == "ind" then f0 else wx
    match applyOps cands g #[s0, w0, f2, f3] ops with
    | .error e => .error e
    | .ok (g, w) =>
      let y := w.getD 0 []
      if kind == "bodyj" then .ok (g, capFast (interleave y w0))
      else if kind == "ind" || kind == "body" then .ok (g, capFast y)
      else .error s!"step kind {kind}"
  | _ => .error "step"

/-! ### result items -/

def parseBits : Sexp → Option (Array Bool)
  | .atom "-" => some #[]
  | .atom s => if s.toList.all (fun c => c == '0' || c == '1') then some (s.toList.map (· == '1')).toArray else none
  | _ => none

/-- `(tag <isbot> <istop> (iv ..) (cs ..))` -/
def parseDump : List Sexp → Option SlotFacts
  | [b, _t, .list (.atom "iv" :: ivs), .list (.atom "cs" :: cs)] => do
    let b ← parseBool b
    let ivs ← ivs.mapM parseItv
    let cs ← cs.mapM parseCst
    pure { bot := b, ivs := ivs, csts := cs }
  | _ => none

def findBits (tag : String) (res : List Sexp) : Option (Array Bool) :=
  res.findSome? (fun r => match r with
    | .list [.atom t, b] => if t == tag then parseBits b else none
    | _ => none)

def findDump (i : Nat) (res : List Sexp) : Option SlotFacts :=
  res.findSome? (fun r => match r with
    | .list (.atom "d" :: k :: rest) => if k.nat? == some i then parseDump rest else none
    | _ => none)

def findX0 (res : List Sexp) : Option SlotFacts :=
  res.findSome? (fun r => match r with
    | .list (.atom "x0" :: rest) => parseDump rest
    | _ => none)

def firstFalse (b : Array Bool) : Option Nat := (List.range b.size).find? (fun i => !b.getD i true)

def stableFrom (st : Array Bool) : Nat := Id.run do
  let mut k := st.size
  while k > 0 && st.getD (k - 1) false do k := k - 1
  return k

def seedOf (req : Sexp) (n : Nat) : Nat :=
  (intsOf req).foldl (fun a k => (a * 31 + k.natAbs) % 2 ^ 61) (n + 7)

structure Setup where
  cands : Array Int
  g : Gen
  w0 : List CState
  steps : Array Sexp
  acc : Option Accel

/-- replay of the seed history; common to run / narrow -/
def setup (dom : String) (seed steps : List Sexp) (acc : Option Sexp) (mode : Sexp) (res : List Sexp) :
    Except Verdict Setup := do
  let req := Sexp.list (mode :: seed ++ steps)
  let cands := candidates req
  let (g, init) := freshStates cands ⟨(seedOf req seed.length).toUInt64⟩ FRESH
  let (g, i1) := freshStates cands g CAP
  let (g, w) ← (match applyOps cands g #[init, i1, i1, i1] seed with
    | .ok r => pure r
    | .error e => throw (.bad s!"wchain seed-history: {e}"))
  let w0 := capList (w.getD 0 [])
  let some f0 := findX0 res | throw (.bad "wchain: x0 dump")
  match w0.findSome? (fun σ => (violates f0 σ).map (fun f => (σ, f))) with
  | some (σ, f) => throw (.unsound s!"[C03] wchain {dom} seed-history: witness state {showState σ} of x0 violates {f}")
  | none => pure ()
  if steps.isEmpty then throw (.bad "wchain: no steps")
  pure { cands := cands, g := g, w0 := w0, steps := steps.toArray, acc := parseAccel acc }

def handleRun (dom : String) (mode nsteps : Sexp) (seed steps : List Sexp) (acc : Option Sexp) (res : List Sexp) : Verdict :=
  match res with
  | [.atom "err"] => .skip s!"wchain.run {dom}: CRAB_ERROR raised"
  | [.atom "otherdom"] => .skip "wchain.run: request for another domain"
  | _ =>
  let r : Except Verdict Unit := do
    let some n := nsteps.nat? | throw (.bad "wchain.run nsteps")
    let su ← setup dom seed steps acc mode res
    let some ub := findBits "ub" res | throw (.bad "wchain.run ub")
    let some lub := findBits "lub" res | throw (.bad "wchain.run lub")
    let some st := findBits "st" res | throw (.bad "wchain.run st")
    let some cov := findBits "cov" res | throw (.bad "wchain.run cov")
    if ub.size != n || lub.size != n || st.size != n || cov.size != n then throw (.bad "wchain.run: bit strings")
    -- replay of the chain on witnesses
    let mut g := su.g
    let mut wx := su.w0
    for i in [0:n] do
      let step := inst i (effIndex su.acc i) (su.steps.getD (i % su.steps.size) (.atom "?"))
      let (g', wy) ← (match runStep su.cands g step wx su.w0 with
        | .ok r => pure r
        | .error e => throw (.bad s!"wchain.run step {i}: {e}"))
      g := g'
      match findDump i res with
      | some f =>
        match wx.findSome? (fun σ => (violates f σ).map (fun v => (σ, v))) with
        | some (σ, v) => throw (.unsound s!"[C05][ub] wchain.run {dom} step {i}: witness state {showState σ} of x_{i}-1 (left argument of the widening) violates {v} of x_{i}")
        | none => pure ()
        match wy.findSome? (fun σ => (violates f σ).map (fun v => (σ, v))) with
        | some (σ, v) => throw (.unsound s!"[C05][ub] wchain.run {dom} step {i}: witness state {showState σ} of y_{i} = {step} (right argument of the widening) violates {v} of x_{i}")
        | none => pure ()
      | none => pure ()
      wx := capFast (interleave wy wx)
    -- the domain's own inclusion test
    match firstFalse ub with
    | some i => throw (.imprecise s!"[C05][ub-leq] wchain.run {dom} step {i}: y_{i} <= x_{i-1} ∇ y_{i} answered no (widening is not an upper bound of its right argument for the domain's own inclusion test)")
    | none => pure ()
    match firstFalse lub with
    | some i => throw (.imprecise s!"[C05][lub-leq] wchain.run {dom} step {i}: x_{i-1} <= x_{i-1} ∇ y_{i} answered no (widening is not an upper bound of its left argument for the domain's own inclusion test)")
    | none => pure ()
    match (List.range n).find? (fun i => st.getD i false && !cov.getD i true) with
    | some i => throw (.imprecise s!"[C05][leq-trans] wchain.run {dom} step {i}: y <= x∇y and x∇y <= x answered yes but y <= x answered no")
    | none => pure ()
    -- the chain condition
    let k := stableFrom st
    match res.getLast? with
    | some (.list [.atom "fin", .atom kind, kk]) =>
      if kk.nat? != some k || (kind == "diverge") != (k + 20 > n) then throw (.bad s!"wchain.run fin: recomputed {k}")
    | _ => throw (.bad "wchain.run fin")
    -- an isolated late step (a threshold crossed near the end, a wrap-around reached late) is not divergence: the
    -- chain must still be moving repeatedly at the end (>= 4 non-stationary steps among the last 40)
    let late := ((List.range n).filter (fun i => i + 40 ≥ n && !(st.getD i true))).length
    if k + 20 > n && late ≥ 4 then
      let kc := stableFrom cov
      let changes := (st.toList.filter (!·)).length
      let what := if kc + 20 > n then s!"the iterator's test y_i <= x_i-1 still fails at step {kc - 1}"
                  else s!"y_i <= x_i-1 holds from step {kc} on but x_i keeps changing for <="
      throw (.unsound s!"[C05][chain] wchain.run {dom}: no stationary suffix after {n} widening steps (x_i <= x_i-1 fails at step {k - 1}, {changes} non-stationary steps; {what})")
  match r with
  | .ok () => .ok
  | .error v => v

def handleNarrow (dom : String) (mode nsteps : Sexp) (seed steps : List Sexp) (acc : Option Sexp) (res : List Sexp) : Verdict :=
  match res with
  | [.atom "err"] => .skip s!"wchain.narrow {dom}: CRAB_ERROR raised"
  | [.atom "otherdom"] => .skip "wchain.narrow: request for another domain"
  | _ =>
  let r : Except Verdict Unit := do
    let some n := nsteps.nat? | throw (.bad "wchain.narrow nsteps")
    let su ← setup dom seed steps acc mode res
    let some dec := findBits "dec" res | throw (.bad "wchain.narrow dec")
    let some lb := findBits "lb" res | throw (.bad "wchain.narrow lb")
    let some below := findBits "below" res | throw (.bad "wchain.narrow below")
    if dec.size != n || lb.size != n || below.size != n then throw (.bad "wchain.narrow: bit strings")
    let mut g := su.g
    let mut wz := su.w0
    for i in [0:n] do
      let step := inst i (effIndex su.acc i) (su.steps.getD (i % su.steps.size) (.atom "?"))
      let (g', wf) ← (match runStep su.cands g step wz su.w0 with
        | .ok r => pure r
        | .error e => throw (.bad s!"wchain.narrow step {i}: {e}"))
      g := g'
      -- y_i = F(z_{i-1}) & z_{i-1}: the states of F(z_{i-1}) that are witnesses of z_{i-1} too
      let wy := wf.filter (fun σ => wz.contains σ)
      let some f := findDump i res | throw (.bad s!"wchain.narrow dump {i}")
      match wy.findSome? (fun σ => (violates f σ).map (fun v => (σ, v))) with
      | some (σ, v) => throw (.unsound s!"[C05][narrow] wchain.narrow {dom} step {i}: witness state {showState σ} of the second argument y_{i} (decreasing pair) violates {v} of z_{i-1} && y_{i}")
      | none => pure ()
      wz := wy
    match firstFalse lb with
    | some i => throw (.imprecise s!"[C05][narrow-leq] wchain.narrow {dom} step {i}: y <= z && y answered no for the decreasing pair y <= z")
    | none => pure ()
    match firstFalse dec with
    | some i => throw (.imprecise s!"[C04] wchain.narrow {dom} step {i}: (f & z) <= z answered no")
    | none => pure ()
    match firstFalse below with
    | some i => throw (.imprecise s!"[C05][narrow-above] wchain.narrow {dom} step {i}: z && y <= z answered no (narrowing left its first argument)")
    | none => pure ()
  match r with
  | .ok () => .ok
  | .error v => v

/-! ### wrapped_interval scalar -/

inductive WI where
  | bot | top
  | rng (w s e : Nat)
  deriving BEq, Inhabited

def parseWI : Sexp → Option WI
  | .atom "bot" => some .bot
  | .atom "top" => some .top
  | .list [w, s, e] => do pure (.rng (← w.nat?) (← s.nat?) (← e.nat?))
  | _ => none

/-- membership of the bit-vector `v` (as a natural number below 2^w) -/
def WI.mem (v : Nat) : WI → Bool
  | .bot => false
  | .top => true
  | .rng w s e => let m := 2 ^ w; ((v + m - s % m) % m) ≤ ((e % m + m - s % m) % m)

/-- sample members: both ends, neighbours inside, middle, a few offsets -/
def WI.samples (w : Nat) : WI → List Nat
  | .bot => []
  | .top => let m := 2 ^ w; [0, 1 % m, m - 1, m / 2, (m / 2 + m - 1) % m, 5 % m, 100 % m]
  | .rng _ s e =>
    let m := 2 ^ w
    let len := (e % m + m - s % m) % m
    let offs : List Nat := [0, 1, 2, 3, len / 2, len / 3, len - 1, len - 2, len, 7, 64, 255, 256, 65535, 65536]
    ((offs.filter (· ≤ len)).map (fun o => (s + o) % m)).eraseDups

def handleWint (w mode nsteps x0 : Sexp) (res : List Sexp) : Verdict :=
  match res with
  | [.atom "err"] => .skip "wchain.wint: CRAB_ERROR raised"
  | _ =>
  let r : Except Verdict Unit := do
    let some w := w.nat? | throw (.bad "wchain.wint width")
    let some n := nsteps.nat? | throw (.bad "wchain.wint nsteps")
    let some x0 := parseWI x0 | throw (.bad "wchain.wint x0")
    let x0 : WI := match x0 with
      | .rng w s e => let m := 2 ^ w; .rng w (s % m) (e % m)
      | v => v
    let some ub := findBits "ub" res | throw (.bad "wchain.wint ub")
    let some lub := findBits "lub" res | throw (.bad "wchain.wint lub")
    let some st := findBits "st" res | throw (.bad "wchain.wint st")
    let some cov := findBits "cov" res | throw (.bad "wchain.wint cov")
    if ub.size != n || lub.size != n || st.size != n || cov.size != n then throw (.bad "wchain.wint: bit strings")
    let mut x := x0
    let mut cnt := 0
    for r in res do
      match r with
      | .list [.atom "s", i, y, xn] =>
        let some y := parseWI y | throw (.bad "wchain.wint y")
        let some xn := parseWI xn | throw (.bad "wchain.wint x")
        if i.nat? != some cnt then throw (.bad "wchain.wint step order")
        match (x.samples w).find? (fun v => !xn.mem v) with
        | some v => throw (.unsound s!"[C05][ub] wchain.wint width {w} step {cnt}: {v} is in the left argument but not in the widening result")
        | none => pure ()
        match (y.samples w).find? (fun v => !xn.mem v) with
        | some v => throw (.unsound s!"[C05][ub] wchain.wint width {w} step {cnt}: {v} is in the right argument but not in the widening result")
        | none => pure ()
        -- the inclusion answers against concrete members
        if st.getD cnt false then
          match (xn.samples w).find? (fun v => !x.mem v) with
          | some v => throw (.unsound s!"[C04] wchain.wint width {w} step {cnt}: x_i <= x_i-1 answered yes but {v} is only in x_i")
          | none => pure ()
        x := xn
        cnt := cnt + 1
      | _ => pure ()
    if cnt != n then throw (.bad s!"wchain.wint: {cnt} steps for {n}")
    match firstFalse ub with
    | some i => throw (.imprecise s!"[C05][ub-leq] wchain.wint width {w} step {i}: y <= x ∇ y answered no")
    | none => pure ()
    match firstFalse lub with
    | some i => throw (.imprecise s!"[C05][lub-leq] wchain.wint width {w} step {i}: x <= x ∇ y answered no")
    | none => pure ()
    let k := stableFrom st
    match res.getLast? with
    | some (.list [.atom "fin", .atom kind, kk]) =>
      if kk.nat? != some k || (kind == "diverge") != (k + 20 > n) then throw (.bad s!"wchain.wint fin: recomputed {k}")
    | _ => throw (.bad "wchain.wint fin")
    -- the widening of wrapped intervals at least doubles the size or jumps to a threshold (delayed steps are joins):
    -- a chain has at most w + #thresholds + delay non-stationary steps, however they are spaced; more = divergence
    let modeInts : Nat := match mode with | .list xs => xs.length | _ => 0
    let bound := w + modeInts + 10
    let changes := (st.toList.filter (!·)).length
    if k + 20 > n && changes > bound then
      throw (.unsound s!"[C05][chain] wchain.wint width {w}: no stationary suffix after {n} widening steps (x_i <= x_i-1 fails at step {k - 1}, {changes} non-stationary steps)")
  match r with
  | .ok () => .ok
  | .error v => v

end WChain

open WChain in
def handleWChain (op : String) (args res : List Sexp) : Verdict :=
  match op, args with
  | "run", .atom dom :: mode :: nsteps :: .list (.atom "seed-history" :: seed) :: .list (.atom "steps" :: steps) :: rest =>
    handleRun dom mode nsteps seed steps rest.head? res
  | "narrow", .atom dom :: mode :: nsteps :: .list (.atom "seed-history" :: seed) :: .list (.atom "steps" :: steps) :: rest =>
    handleNarrow dom mode nsteps seed steps rest.head? res
  | "wint", w :: mode :: nsteps :: x0 :: .list (.atom "ys" :: _) :: _ => handleWint w mode nsteps x0 res
  | _, _ => .bad s!"wchain.{op}"

end Driver
