import Driver.Common
import CrabModel.Dom.DbmWiden

/-!
  Handler for component `zw` (property C05, harness `h_zwiden.cpp`): the EXACT tie of the zones
  widening model (`CrabModel/Dom/DbmWiden.lean`, theorems `CrabProofs/Props/C05Zones.lean`) to
  `split_dbm_domain` / `sparse_dbm_domain`.

  A line gives a start value `x0` and further values `y_i` by in-language constraints and, per
  step of the real chain `x_{i+1} = x_i || y_i`, what the code said: `y_i.is_bottom()`,
  `y_i <= x_i`, `x_{i+1} <= x_i`, `x_{i+1}.is_bottom()` and the constraint system of (a copy of)
  `x_{i+1}`.  The handler

  * rebuilds `x0` as the graph the code holds after `+=` of the constraints in order
    (`buildSplit`: `split_dbm::add_linear_leq` with `close_bounds_inline=false` — a difference
    constraint implied by the current bounds is skipped, the other ones are closed over among
    the variables only, the bounds are recomputed through the zero vertex; `buildSparse`:
    full incremental closure) — the left operand of the widening is never closed, so the
    explicit edge set of `x0` is what every later step depends on;
  * replays the chain with `SplitDbm.widen` / `SparseDbm.widen` (the right operand is read
    through `splitEw` / `sparseEw`, i.e. closed: the code's `y_i` are normalised by `+=`);
  * compares per step: bottom-ness, the two flags (`SplitDbm.leq` / `SparseDbm.leq`; the second
    one with the unclosed model value on the left, which the model's `leq` closes itself), and
    `close(model x_{i+1})` with `close(parsed dump)` ENTRYWISE; any difference is `.drift`;
  * independently of the model evaluates the property's own predicate on the dump: witnesses of
    `x_i` (taken from the code's own previous dump) and of `y_i` (from the request) must satisfy
    every dumped constraint of `x_{i+1}`, else `.unsound` with the witness.

  sparse_dbm with default parameters: `normalize()` after a widening does not restore closure
  (`vert_set_wrap_t` gives membership in `unstable` where `close_after_widen` expects
  `is_stable`).  That does NOT weaken any comparison made here: the dump of an incompletely
  normalised copy still lists every explicit edge and the driver closes it itself, and the two
  flags do not depend on the re-derived edges (an edge that the widening dropped is never implied
  by the kept ones, because the right operand is closed).  So sparse is compared exactly like
  split; nothing is hidden.

  Mode `index` calls the non-const `operator[]` on the stored `x_i` before every widening; that
  calls `normalize()` IN PLACE (split_dbm.hpp / sparse_dbm.hpp `operator[]`), so the left operand
  is closed by the caller (the pattern of `C05.zones_closed_left_diverges`).  The code's in-place
  normal form is not the full closure of the model, so that mode is only checked for the
  upper-bound predicate and for the agreement of the two flags, not compared entrywise.

  Counters: `.ok` for compared chains, `.skip` for lines of another domain; the harness prints
  the stationarity bits `(st ...)`, a chain is non-trivial when at least two of them are 0.
-/
namespace Driver
namespace ZW
open Crab Crab.Dbm Crab.Zones

variable {n : Nat}

def mkFin (k : Nat) : Option (Fin n) := if h : k < n then some ⟨k, h⟩ else none

/-- request constraint: `(b v k)` v ≤ k, `(l v k)` v ≥ k, `(d v u k)` v - u ≤ k -/
def parseReqCst : Sexp → Option (Zones.Cst n)
  | .list [.atom "b", v, k] => do
    let v ← v.nat?; let v ← mkFin v; let k ← k.int?
    pure (.ub v k)
  | .list [.atom "l", v, k] => do
    let v ← v.nat?; let v ← mkFin v; let k ← k.int?
    pure (.lb v (-k))
  | .list [.atom "d", v, u, k] => do
    let v ← v.nat?; let v ← mkFin v; let u ← u.nat?; let u ← mkFin u; let k ← k.int?
    pure (.diff v u k)
  | _ => none

def parseReqCsts : List Sexp → Option (List (Zones.Cst n))
  | [] => some []
  | c :: cs => do
    let c ← parseReqCst c; let cs ← parseReqCsts cs
    pure (c :: cs)

def parseTerm : Sexp → Option (Int × Nat)
  | .list [a, v] => do
    let a ← a.int?; let v ← v.nat?
    pure (a, v)
  | _ => none

/-- `sum a*v + c ≤ 0` with unit coefficients as zone constraints -/
def leToCsts (c : Int) (ts : List (Int × Nat)) : Option (List (Zones.Cst n)) :=
  match ts with
  | [(1, v)] => do let v ← mkFin v; pure [.ub v (-c)]
  | [(-1, v)] => do let v ← mkFin v; pure [.lb v (-c)]
  | [(1, v), (-1, u)] => do let v ← mkFin v; let u ← mkFin u; pure [.diff v u (-c)]
  | [(-1, v), (1, u)] => do let v ← mkFin v; let u ← mkFin u; pure [.diff u v (-c)]
  | _ => none

/-- dumped constraint; `none` = not in the language; `some none` = contradiction -/
def parseDumpCst : Sexp → Option (Option (List (Zones.Cst n)))
  | .list [.atom "false"] => some none
  | .list [.atom "true"] => some (some [])
  | .list (.atom k :: c :: ts) => do
    let c ← c.int?
    let ts ← ts.mapM parseTerm
    match k with
    | "le" => (leToCsts c ts).map some
    | "eq" => do
      let a ← leToCsts c ts
      let b ← leToCsts (-c) (ts.map fun (q, v) => (-q, v))
      pure (some (a ++ b))
    | _ => none
  | _ => none

/-- the whole dumped system: `none` = unparsable, `some none` = contains a contradiction -/
def parseDump : List Sexp → Option (Option (List (Zones.Cst n)))
  | [] => some (some [])
  | c :: cs => do
    let c : Option (List (Zones.Cst n)) ← parseDumpCst c
    let cs : Option (List (Zones.Cst n)) ← parseDump cs
    match c, cs with
    | some a, some b => pure (some (a ++ b))
    | _, _ => pure none

/-! ### the graph the code holds after `+=` -/

def offDiag (z : Zone n) : Zone n := Mat.ofFn fun i j => if i = j then none else z.get i j

/-- drop the bound edges -/
def blank0 (z : Zone n) : Zone n := Mat.ofFn fun i j => if i = 0 ∨ j = 0 then none else z.get i j

/-- split normal form of an explicit edge set: edges between variables closed among the
    variables only (`close_over_edge` works on `g_excl`), bounds = shortest paths through the
    whole graph (`close_after_assign(g, potential, 0, ..)`) -/
def snf (z : Zone n) : Zone n :=
  let full := close z
  let nz := close (blank0 z)
  Mat.ofFn fun i j => if i = j then none else if i = 0 ∨ j = 0 then full.get i j else nz.get i j

/-- `split_dbm::add_linear_leq` for one in-language constraint (`close_bounds_inline = false`).
    For `x - y ≤ k`, `diffcsts_of_lin_leq` first turns the CURRENT bounds of the two variables
    (`at()`, i.e. the explicit bound edges) into the bounds `y ≥ lb(x) - k` and `x ≤ k + ub(y)`,
    which are inserted before the difference constraint; the difference constraint itself is
    then skipped when the (updated) bounds already imply it
    ("Check if the edge (src,dest) via bounds already exists"). -/
def splitAdd (z : Zone n) (c : Zones.Cst n) : Option (Zone n) :=
  let z' : Zone n :=
    match c with
    | .diff x y k =>
      let lbx := z.get 0 x.succ          -- -x ≤ lbx
      let uby := z.get y.succ 0          --  y ≤ uby
      let z1 := match lbx with | some a => z.addEdge 0 y.succ (k + a) | none => z
      let z2 := match uby with | some b => z1.addEdge x.succ 0 (k + b) | none => z1
      let skip : Bool :=
        match z2.get x.succ 0, z2.get 0 y.succ with
        | some a, some b => decide (a + b ≤ k)
        | _, _ => false
      if skip then z2 else z2.addEdge x.succ y.succ k
    | _ => assumeCst z c
  if isBottom z' then none else some (snf z')

def buildSplit (cs : List (Zones.Cst n)) : ZVal n :=
  cs.foldl (fun acc c => match acc with | none => none | some z => splitAdd z c) (some (offDiag Zones.top))

/-- `sparse_dbm::add_linear_leq`: every edge is closed over in the whole graph -/
def buildSparse (cs : List (Zones.Cst n)) : ZVal n :=
  let z := assumeAll Zones.top cs
  if isBottom z then none else some (offDiag (close z))

/-! ### comparison -/

def showW : W → String
  | none => "+oo"
  | some k => toString k

def idxName (i : Fin (n + 1)) : String := if i.val = 0 then "0" else s!"v{i.val - 1}"

/-- first off-diagonal entry where two closed matrices differ -/
def firstDiff (a b : Zone n) : Option String :=
  (List.finRange (n + 1)).findSome? fun i => (List.finRange (n + 1)).findSome? fun j =>
    if i = j then none
    else if a.get i j == b.get i j then none
    else some s!"{idxName i}-{idxName j}<= model {showW (a.get i j)} code {showW (b.get i j)}"

def stateArr (σ : State n) : List Int := (List.finRange n).map σ

/-- witnesses of a satisfiable constraint set: one extreme state per row of the closed matrix -/
def witnesses (z : Zone n) : List (State n) :=
  -- `Zones.witnessEdge z i 0` for every row `i`, with the closure computed once
  let c := close z
  if isBottomC c then [] else
  let L := 2 * c.absSum + 1
  (List.finRange (n + 1)).map fun i => stateOf (c.witness i L)

def cstHolds (c : Zones.Cst n) (σ : State n) : Bool :=
  match c with
  | .ub x k => decide (σ x ≤ k)
  | .lb x k => decide (-σ x ≤ k)
  | .diff x y k => decide (σ x - σ y ≤ k)

def showCst (c : Zones.Cst n) : String :=
  match c with
  | .ub x k => s!"v{x.val}<={k}"
  | .lb x k => s!"-v{x.val}<={k}"
  | .diff x y k => s!"v{x.val}-v{y.val}<={k}"

/-- a witness violating the dumped system (`none` dump = bottom: every witness is lost) -/
def lostWitness (ws : List (State n)) (dump : Option (List (Zones.Cst n))) : Option String :=
  match dump with
  | none => ws.head?.map fun σ => s!"state {stateArr σ} lost: result is bottom"
  | some cs =>
    ws.findSome? fun σ => cs.findSome? fun c =>
      if cstHolds c σ then none else some s!"state {stateArr σ} violates {showCst c}"

inductive Kind | split | sparse deriving BEq

def kindOf (dom : String) : Option Kind :=
  if dom.startsWith "split-dbm" then some .split
  else if dom.startsWith "sparse-dbm" then some .sparse
  else none

def mWiden (k : Kind) (x y : ZVal n) : ZVal n :=
  match k with | .split => SplitDbm.widen x y | .sparse => SparseDbm.widen x y

def mLeq (k : Kind) (y x : ZVal n) : Bool :=
  match k with | .split => SplitDbm.leq y x | .sparse => SparseDbm.leq y x

def bitsOf (s : String) : Option (List Bool) :=
  if s == "-" then some [] else
  s.toList.mapM fun c => if c == '1' then some true else if c == '0' then some false else none

structure Step (n : Nat) where
  ycs : List (Zones.Cst n)
  yb : Bool
  cov : Bool
  st : Bool
  dbot : Bool
  dump : Option (List (Zones.Cst n))     -- `none` = the system contains `false`

/-- one step; `prev` = constraints describing the code's own `x_i` (request for `i = 0`, previous
    dump afterwards; `none` = bottom); returns the model's next value -/
def checkStep (k : Kind) (exact : Bool) (i : Nat) (x : ZVal n) (prev : Option (List (Zones.Cst n)))
    (s : Step n) : Except Verdict (ZVal n) := do
  -- the further value in the code's own representation (it becomes the result when `x_i` is bottom)
  let y : ZVal n := match k with | .split => buildSplit s.ycs | .sparse => buildSparse s.ycs
  let tag := s!"[C05][zw] step {i}: "
  -- the property's own predicate on the implementation's answer
  let wx : List (State n) := match prev with | none => [] | some cs => witnesses (assumeAll Zones.top cs)
  let wy : List (State n) := witnesses (assumeAll Zones.top s.ycs)
  match lostWitness wx s.dump with
  | some m => throw (.unsound (tag ++ "x_i || y_i does not contain x_i: " ++ m))
  | none => pure ()
  match lostWitness wy s.dump with
  | some m => throw (.unsound (tag ++ "x_i || y_i does not contain y_i: " ++ m))
  | none => pure ()
  if s.dbot != s.dump.isNone then
    throw (.drift (tag ++ s!"is_bottom() = {s.dbot} but the constraint system says {s.dump.isNone}"))
  if s.yb != y.isNone then
    throw (.drift (tag ++ s!"y_i.is_bottom() = {s.yb}, model {y.isNone}"))
  if !exact then
    -- left operand closed in place by the caller: flags must still agree with each other
    if s.cov != s.st then
      throw (.drift (tag ++ s!"(index mode) y_i<=x_i is {s.cov} but x_(i+1)<=x_i is {s.st}"))
    -- continue from the code's own value (closed), as the code does
    return (match s.dump with
            | none => none
            | some cs => some (offDiag (close (assumeAll Zones.top cs))))
  let cov := mLeq k y x
  if cov != s.cov then
    throw (.drift (tag ++ s!"y_i <= x_i: code {s.cov}, model {cov}"))
  let x' := mWiden k x y
  let st := mLeq k x' x
  if st != s.st then
    throw (.drift (tag ++ s!"x_(i+1) <= x_i: code {s.st}, model {st}"))
  match x', s.dump with
  | none, none => pure ()
  | none, some _ => throw (.drift (tag ++ "model result is bottom, code is not"))
  | some _, none => throw (.drift (tag ++ "code result is bottom, model is not"))
  | some g, some cs =>
    let cm := close g
    let cc := close (assumeAll Zones.top cs)
    if isBottomC cm != isBottomC cc then
      throw (.drift (tag ++ s!"feasibility: model {!isBottomC cm}, code {!isBottomC cc}"))
    match firstDiff cm cc with
    | some m => throw (.drift (tag ++ "closed results differ: " ++ m))
    | none => pure ()
  return x'

def runChain (k : Kind) (exact : Bool) (x0cs : List (Zones.Cst n)) (x0bot : Bool) (steps : List (Step n)) :
    Verdict :=
  let x0 : ZVal n := match k with | .split => buildSplit x0cs | .sparse => buildSparse x0cs
  if x0.isNone != x0bot then .drift s!"[C05][zw] x0.is_bottom(): code {x0bot}, model {x0.isNone}" else
  let rec go (i : Nat) (x : ZVal n) (prev : Option (List (Zones.Cst n))) : List (Step n) → Verdict
    | [] => .ok
    | s :: rest =>
      match checkStep k exact i x prev s with
      | .error v => v
      | .ok x' => go (i + 1) x' s.dump rest
  go 0 x0 (if x0bot then none else some x0cs) steps

def parseSteps (ys : List Sexp) (yb cov st : List Bool) (ds : List Sexp) : Option (List (Step n)) :=
  match ys, yb, cov, st, ds with
  | [], [], [], [], [] => some []
  | .list (.atom "y" :: ycs) :: ys, b :: yb, c :: cov, s :: st,
      .list [.atom "d", dbot, .list (.atom "cs" :: dcs)] :: ds => do
    let ycs ← parseReqCsts ycs
    let dbot ← parseBool dbot
    let dump ← parseDump dcs
    let rest ← parseSteps ys yb cov st ds
    pure ({ ycs := ycs, yb := b, cov := c, st := s, dbot := dbot, dump := dump } :: rest)
  | _, _, _, _, _ => none

def run (n : Nat) (k : Kind) (exact : Bool) (x0 ys res : List Sexp) : Verdict :=
  match res with
  | .list [.atom "x0", x0bot] :: .list [.atom "yb", .atom yb] :: .list [.atom "cov", .atom cov] ::
      .list [.atom "st", .atom st] :: ds =>
    match (parseReqCsts x0 : Option (List (Zones.Cst n))), parseBool x0bot, bitsOf yb, bitsOf cov, bitsOf st with
    | some x0cs, some x0bot, some yb, some cov, some st =>
      match (parseSteps ys yb cov st ds : Option (List (Step n))) with
      | some steps => runChain k exact x0cs x0bot steps
      | none => .bad "zw.chain: steps"
    | _, _, _, _, _ => .bad "zw.chain: header"
  | _ => .bad "zw.chain: result shape"

end ZW

def handleZw (op : String) (args res : List Sexp) : Verdict :=
  match op, args with
  | "chain", [.atom dom, mode, nv, .list (.atom "x0" :: x0), .list (.atom "ys" :: ys)] =>
    match res with
    | [.atom "otherdom"] => .skip "zw.chain: line of another domain"
    | [.atom "err"] => .drift s!"[C05][zw] zw.chain {dom}: CRAB_ERROR raised during the chain"
    | _ =>
      match nv.nat?, ZW.kindOf dom with
      | some n, some k =>
        let exact := match mode with | .atom "index" => false | _ => true
        ZW.run n k exact x0 ys res
      | _, _ => .bad s!"zw.chain: domain {dom}"
  | _, _ => .bad s!"zw.{op}"

end Driver
