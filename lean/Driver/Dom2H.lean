import Driver.DomH

/-!
  Handler for component `dom2` (mechanism R, second history harness `harness/h_dom2.cpp`):
  replays an operation history on concrete witness states with the formal semantics of the
  operations and checks every fact the real domain exported after each operation.  On top of
  `Driver/DomH.lean` the states have typed integer variables (v0..v3 : 32, v4 : 8, v5 : 16,
  v6 : 64 bits) and Boolean variables b0..b2 (stored as 0 / 1), and the histories contain the
  Boolean API, integer casts, weak assignments, entailment queries, `operator[]` queries and the
  disjunctive export.

  Conventions (DESIGN.md §2.3): a cast on mathematical integers is the identity on the values
  that fit the source type read unsigned for `zext` / signed otherwise; a witness outside that
  range has no successor (it is dropped, not counted).  `trunc` to bool is exercised on 0 / 1
  only, `sext` of a Boolean on `false` only (on these values every reading agrees).
  A weak assignment keeps the old state and adds the updated one.

  At the end of a history the harness also exports what a copy of every final value says after
  `assume_bool(b, neg)` (probe) and after `+= cst` for the constraints of `(probes ...)` (nprobe).
  If `i <= j` was answered yes, every witness of #i that satisfies the probe must satisfy these
  facts of #j (monotonicity); with i = j this is an ordinary [C03] check.  The probes reach what a
  value holds without exporting it (implications recorded by flat_boolean_numerical_domain,
  disjuncts of a powerset, partitions).

  `dom2.stat` lines (harness run with DOM2_STAT=1) are checked like `dom2.hist` lines and answered
  with `SKIP stat checks=.. assumes=.. liveAssumes=.. casts=.. liveCasts=.. entails=.. entailsYes=..`
  (test-strength figures).

  Messages are tagged with the property they decide:
    [C03] a witness state of the collecting semantics is outside an exported fact (is_bottom,
          at(x), operator[](x), exported linear constraint, every disjunct of the disjunctive
          export, a `yes` of entails)
    [C04] inclusion / lattice laws (as in DomH), `is_top` and `is_bottom` both yes, `i <= j` yes
          although a witness of #i violates a fact of #j (exports, disjunctive export, probes)
    [C16] an operation on one value changed what another value of the pool says
-/
namespace Driver
namespace Dom2
open Crab

def NV : Nat := 7
def NB : Nat := 3
def NALL : Nat := NV + NB
def NPOOL : Nat := 4
def CAP : Nat := 40

def widthOf (i : Nat) : Nat :=
  if i < 4 then 32 else if i == 4 then 8 else if i == 5 then 16 else if i == 6 then 64 else 1

def isBoolVar (i : Nat) : Bool := i ≥ NV

def fitsS (w : Nat) (x : Int) : Bool := -(2 ^ (w - 1) : Int) ≤ x && x < (2 ^ (w - 1) : Int)
def fitsU (w : Nat) (x : Int) : Bool := 0 ≤ x && x < (2 ^ w : Int)

/-- `vK` ↦ K, `bK` ↦ NV + K -/
def varIdx : Sexp → Option Nat
  | .atom s =>
    if s.startsWith "v" then (s.drop 1).toString.toNat?.bind (fun k => if k < NV then some k else none)
    else if s.startsWith "b" then (s.drop 1).toString.toNat?.bind (fun k => if k < NB then some (NV + k) else none)
    else none
  | _ => none

def parseLin : Sexp → Option Lin
  | .list (.atom "lin" :: c :: ts) => do
    let c ← c.int?
    let ts ← ts.mapM (fun t => match t with
      | .list [k, v] => do pure ((← k.int?), (← varIdx v))
      | _ => none)
    pure ⟨c, ts⟩
  | _ => none

def parseCst : Sexp → Option Cst
  | .list [.atom k, l] => do
    let l ← parseLin l
    let k ← (match k with
      | "le" => some CKind.le | "lt" => some CKind.lt | "eq" => some CKind.eq | "ne" => some CKind.ne
      | _ => none)
    pure ⟨k, l⟩
  | _ => none

def showCst (c : Cst) : String :=
  let k := match c.k with | .le => "<=" | .lt => "<" | .eq => "==" | .ne => "!="
  s!"(lin c={c.e.c} terms={c.e.ts}) {k} 0"

/-- candidate concrete values: constants of the history, their neighbours, type boundaries -/
def candidates (req : Sexp) : Array Int :=
  let cs := (intsOf req).filter (fun k => k.natAbs < 2 ^ 70)
  let base : List Int := [0, 1, -1, 2, -2, 3, 5, -5, 8, -8, 100, -100, 127, 128, -128, -129, 255, 256,
                          65535, 2 ^ 31, -(2 ^ 31), 2 ^ 32 - 1]
  ((cs.flatMap (fun k => [k, k + 1, k - 1, -k])) ++ base).eraseDups.toArray

/-- a value for variable `i` out of candidate `c` (narrow variables mostly get values of their type) -/
def adapt (i : Nat) (c : Int) (r : Nat) : Int :=
  if isBoolVar i then (if r % 2 == 0 then 0 else 1)
  else
    let w := widthOf i
    if w < 32 && !fitsS w c && r % 4 != 0 then c.emod (2 ^ (w - 1)) else c

def freshStates (cands : Array Int) (g : Gen) (k : Nat) : Gen × List CState := Id.run do
  let mut g := g
  let mut out : List CState := []
  for _ in [0:k] do
    let mut σ : CState := #[]
    for i in [0:NALL] do
      let (g', r) := g.next
      g := g'
      σ := σ.push (adapt i (cands.getD (r % cands.size) 0) (r / 7))
    out := σ :: out
  return (g, out)

def capList (xs : List CState) : List CState := (xs.eraseDups).take CAP

/-- havoc of variable `x`: keep the state and add a few variants -/
def havoc (cands : Array Int) (g : Gen) (x : Nat) (ws : List CState) : Gen × List CState := Id.run do
  let mut g := g
  let mut out : List CState := []
  for σ in ws do
    out := σ :: out
    for _ in [0:2] do
      let (g', r) := g.next
      g := g'
      out := (σ.setIfInBounds x (adapt x (cands.getD (r % cands.size) 0) (r / 7))) :: out
  return (g, capList out.reverse)

structure SlotFacts where
  bot : Bool := false
  ivs : List Itv := []
  csts : List Cst := []
  djFalse : Bool := false
  dj : List (List Cst) := []     -- empty = true / not available
  deriving Inhabited

/-- does a witness satisfy every exported fact? returns a description of the first violated one -/
def violates (f : SlotFacts) (σ : CState) : Option String :=
  if f.bot then some "is_bottom" else
  match (List.range f.ivs.length).find? (fun i => !(f.ivs.getD i Itv.top).contains (σ.getD i 0)) with
  | some i => some s!"at({if i < NV then "v" else "b"}{if i < NV then i else i - NV})={showItv (f.ivs.getD i Itv.top)}"
  | none =>
    match f.csts.find? (fun c => !c.sat σ) with
    | some c => some s!"exported constraint {showCst c}"
    | none =>
      if f.djFalse then some "to_disjunctive_linear_constraint_system = false"
      else if !f.dj.isEmpty && !(f.dj.any (fun cs => cs.all (·.sat σ))) then
        some s!"every disjunct of to_disjunctive_linear_constraint_system ({f.dj.length} disjuncts)"
      else none

structure OpRes where
  d : Nat
  isbot : Bool
  istop : Bool
  facts : SlotFacts
  oth : Bool
  ent : Option Bool := none
  sub : Option Itv := none

def parseDj (f : SlotFacts) : Sexp → Option SlotFacts
  | .list [.atom "dj", .atom "true"] => some f
  | .list [.atom "dj", .atom "err"] => some f
  | .list [.atom "dj", .atom "false"] => some { f with djFalse := true }
  | .list (.atom "dj" :: ds) => do
    let ds ← ds.mapM (fun d => match d with
      | .list (.atom "cs" :: cs) => cs.mapM parseCst
      | _ => none)
    pure { f with dj := ds }
  | _ => none

def parseRes (r : Sexp) : Option OpRes :=
  match r with
  | .list (.atom "s" :: d :: b :: t :: .list (.atom "iv" :: ivs) :: .list (.atom "cs" :: cs) :: dj :: .list [.atom "oth", o] :: extra) => do
    let d ← d.nat?; let b ← parseBool b; let t ← parseBool t; let o ← parseBool o
    let ivs ← ivs.mapM parseItv
    let cs ← cs.mapM parseCst
    let f ← parseDj { bot := b, ivs := ivs, csts := cs } dj
    let r0 : OpRes := { d := d, isbot := b, istop := t, facts := f, oth := o }
    extra.foldlM (fun (r : OpRes) e => match e with
      | .list [.atom "ent", v] => do pure { r with ent := some (← parseBool v) }
      | .list [.atom "sub", i] => do pure { r with sub := some (← parseItv i) }
      | _ => none) r0
  | _ => none

structure HState where
  g : Gen
  w : Array (List CState)
  facts : Array SlotFacts
  checks : Nat := 0        -- witness × op checks done
  assumes : Nat := 0       -- bassume ops
  liveAssumes : Nat := 0   -- bassume ops with a witness before the assumption
  casts : Nat := 0
  liveCasts : Nat := 0     -- casts with a witness after the cast
  entails : Nat := 0
  entailsYes : Nat := 0    -- entails answered yes with at least one witness to check it on

def get (σ : CState) (i : Nat) : Int := σ.getD i 0
def b2i (b : Bool) : Int := if b then 1 else 0

/-- concrete semantics of a cast; `none` = outside the range where the cast has a meaning -/
def castConc (op : String) (dst src : Nat) (σ : CState) : Option CState :=
  let x := get σ src
  if isBoolVar src then
    if isBoolVar dst then none
    else if op == "zext" then some (σ.setIfInBounds dst x)
    else if op == "sext" then (if x == 0 then some (σ.setIfInBounds dst 0) else none)
    else none
  else if isBoolVar dst then
    if op == "trunc" && (x == 0 || x == 1) then some (σ.setIfInBounds dst x) else none
  else
    let ok := if op == "zext" then fitsU (widthOf src) x else fitsS (widthOf src) x
    if ok then some (σ.setIfInBounds dst x) else none

def handleDom2 (op : String) (args res : List Sexp) : Verdict :=
  match args with
  | .atom dom :: .list (.atom "params" :: _) :: .list (.atom "ops" :: ops) :: rest =>
    let nprobes : List Sexp := match rest with
      | [.list (.atom "probes" :: cs)] => cs
      | _ => []
    let hasNProbe : Nat := if rest.isEmpty then 0 else 1
    if op != "hist" && op != "stat" then .bad s!"dom2.{op}" else
    match res with
    | [.atom "err"] => .skip s!"dom2.hist {dom}: CRAB_ERROR raised during the history"
    | _ =>
    let req := Sexp.list ops
    let cands := candidates req
    let seed := (intsOf req).foldl (fun a k => (a * 31 + k.natAbs) % 2 ^ 61) (ops.length + 7)
    let (g0, init) := freshStates cands ⟨seed⟩ CAP
    let st0 : HState := { g := g0, w := Array.replicate NPOOL init, facts := Array.replicate NPOOL {} }
    let nops := ops.length
    if res.length != nops + 3 + hasNProbe then .bad s!"dom2.hist: {res.length} results for {nops} ops" else
    let step (acc : Except Verdict HState) (i : Nat) : Except Verdict HState := do
      let st ← acc
      let o := ops.getD i (.atom "?")
      let r := res.getD i (.atom "?")
      let some pr := parseRes r | throw (.bad s!"dom2.hist result {i}: {r}")
      let d := pr.d
      let W := fun (k : Nat) => st.w.getD k []
      let slot := fun (s : Sexp) => s.nat?.getD 0
      let bad := fun (k : String) => (throw (.bad s!"dom2.hist op {i} ({k}): {o}") : Except Verdict (Gen × List CState × String))
      let (g, wd, kind) ← (match o with
        | .list (.atom k :: _ :: rest) =>
          match k, rest with
          | "top", [] => let (g, ws) := freshStates cands st.g CAP; pure (g, ws, k)
          | "bot", [] => pure (st.g, [], k)
          | "copy", [s] => pure (st.g, W (slot s), k)
          | "assign", [x, e] =>
            match varIdx x, parseLin e with
            | some x, some e => pure (st.g, (W d).map (fun σ => σ.setIfInBounds x (e.eval σ)), k)
            | _, _ => bad k
          | "wassign", [x, e] =>
            match varIdx x, parseLin e with
            | some x, some e => pure (st.g, capList (interleave (W d) ((W d).map (fun σ => σ.setIfInBounds x (e.eval σ)))), k)
            | _, _ => bad k
          | "select", [x, c, e1, e2] =>
            match varIdx x, parseCst c, parseLin e1, parseLin e2 with
            | some x, some c, some e1, some e2 =>
              pure (st.g, (W d).map (fun σ => σ.setIfInBounds x (if c.sat σ then e1.eval σ else e2.eval σ)), k)
            | _, _, _, _ => bad k
          | "arith", [.atom aop, x, y, z] | "bitw", [.atom aop, x, y, z] =>
            match varIdx x, varIdx y with
            | some x, some y =>
              let zv : CState → Option Int := match varIdx z with
                | some zi => fun σ => some (get σ zi)
                | none => fun _ => z.int?
              pure (st.g, (W d).filterMap (fun σ => do
                let b ← zv σ
                let c ← concBin (arithName aop) (get σ y) b
                pure (σ.setIfInBounds x c)), k)
            | _, _ => bad k
          | "assume", cs =>
            match cs.mapM parseCst with
            | some cs => pure (st.g, (W d).filter (fun σ => cs.all (·.sat σ)), k)
            | none => bad k
          | "forget", xs =>
            match xs.mapM varIdx with
            | some xs =>
              let (g, ws) := xs.foldl (fun (g, ws) x => havoc cands g x ws) (st.g, W d)
              pure (g, ws, k)
            | none => bad k
          | "project", xs =>
            match xs.mapM varIdx with
            | some keep =>
              let (g, ws) := (List.range NALL).foldl (fun (g, ws) x =>
                if keep.contains x then (g, ws) else havoc cands g x ws) (st.g, W d)
              pure (g, ws, k)
            | none => bad k
          | "rename", [.list [x], .list [y]] =>
            match varIdx x, varIdx y with
            | some x, some y =>
              let ws := (W d).map (fun σ => σ.setIfInBounds y (get σ x))
              let (g, ws) := havoc cands st.g x ws
              pure (g, ws, k)
            | _, _ => bad k
          | "expand", [x, y] =>
            match varIdx x, varIdx y with
            | some x, some y => pure (st.g, (W d).map (fun σ => σ.setIfInBounds y (get σ x)), k)
            | _, _ => bad k
          | "join", [a, b] | "widen", [a, b] => pure (st.g, capList (interleave (W (slot a)) (W (slot b))), k)
          | "meet", [a, b] | "narrow", [a, b] => pure (st.g, (W (slot a)).filter (fun σ => (W (slot b)).contains σ), k)
          | "joineq", [a] => pure (st.g, capList (interleave (W d) (W (slot a))), k)
          | "meeteq", [a] => pure (st.g, (W d).filter (fun σ => (W (slot a)).contains σ), k)
          | "normalize", [] | "minimize", [] | "query", [_] | "entails", [_] | "vpstart", [_] | "vpend", [_] => pure (st.g, W d, k)
          -- Booleans
          | "bcst", [b, c] =>
            match varIdx b, parseCst c with
            | some b, some c => pure (st.g, (W d).map (fun σ => σ.setIfInBounds b (b2i (c.sat σ))), k)
            | _, _ => bad k
          | "wbcst", [b, c] =>
            match varIdx b, parseCst c with
            | some b, some c => pure (st.g, capList (interleave (W d) ((W d).map (fun σ => σ.setIfInBounds b (b2i (c.sat σ))))), k)
            | _, _ => bad k
          | "bvar", [b, c, n] =>
            match varIdx b, varIdx c, parseBool n with
            | some b, some c, some n => pure (st.g, (W d).map (fun σ => σ.setIfInBounds b (if n then 1 - get σ c else get σ c)), k)
            | _, _, _ => bad k
          | "wbvar", [b, c, n] =>
            match varIdx b, varIdx c, parseBool n with
            | some b, some c, some n =>
              pure (st.g, capList (interleave (W d) ((W d).map (fun σ => σ.setIfInBounds b (if n then 1 - get σ c else get σ c)))), k)
            | _, _, _ => bad k
          | "bbin", [.atom bop, b, c, e] =>
            match varIdx b, varIdx c, varIdx e with
            | some b, some c, some e =>
              let f : Int → Int → Int := fun x y =>
                if bop == "and" then b2i (x == 1 && y == 1) else if bop == "or" then b2i (x == 1 || y == 1) else b2i (x != y)
              pure (st.g, (W d).map (fun σ => σ.setIfInBounds b (f (get σ c) (get σ e))), k)
            | _, _, _ => bad k
          | "bassume", [b, n] =>
            match varIdx b, parseBool n with
            | some b, some n => pure (st.g, (W d).filter (fun σ => get σ b == (if n then 0 else 1)), k)
            | _, _ => bad k
          | "bsel", [b, c, b1, b2] =>
            match varIdx b, varIdx c, varIdx b1, varIdx b2 with
            | some b, some c, some b1, some b2 =>
              pure (st.g, (W d).map (fun σ => σ.setIfInBounds b (if get σ c == 1 then get σ b1 else get σ b2)), k)
            | _, _, _, _ => bad k
          | "cast", [.atom cop, dst, src] =>
            match varIdx dst, varIdx src with
            | some dst, some src => pure (st.g, (W d).filterMap (castConc cop dst src), k)
            | _, _ => bad k
          | _, _ => bad k
        | _ => bad "?")
      let ctx := s!"dom2.hist {dom} op#{i} {o}"
      -- C16: the other values of the pool must not have changed
      if !pr.oth then throw (.unsound s!"[C16] {ctx}: another value of the pool changed its exported meaning")
      -- C04: is_top / is_bottom right after set_to_top / set_to_bottom
      if kind == "top" && (!pr.istop || pr.isbot) then throw (.unsound s!"[C04] {ctx}: set_to_top then is_top={pr.istop} is_bottom={pr.isbot}")
      if kind == "bot" && !pr.isbot then throw (.unsound s!"[C04] {ctx}: set_to_bottom then is_bottom=false")
      if pr.istop && pr.isbot then throw (.unsound s!"[C04] {ctx}: is_top and is_bottom both answer yes")
      -- C03: every witness of the collecting semantics satisfies every exported fact
      match wd.findSome? (fun σ => (violates pr.facts σ).map (fun f => (σ, f))) with
      | some (σ, f) => throw (.unsound s!"[C03]{if kind == "join" || kind == "meet" || kind == "joineq" || kind == "meeteq" then "[C04]" else ""} {ctx}: witness state {showState σ} of the collecting semantics violates {f}")
      | none => pure ()
      -- C03: queries
      match kind, pr.ent, o with
      | "entails", some true, .list [_, _, c] =>
        match parseCst c with
        | some c =>
          match wd.find? (fun σ => !c.sat σ) with
          | some σ => throw (.unsound s!"[C03] {ctx}: entails answered yes but witness state {showState σ} violates the constraint")
          | none => pure ()
        | none => throw (.bad "entails")
      | _, _, _ => pure ()
      match kind, pr.sub, o with
      | "query", some iv, .list [_, _, x] =>
        match varIdx x with
        | some x =>
          match wd.find? (fun σ => !iv.contains (get σ x)) with
          | some σ => throw (.unsound s!"[C03] {ctx}: witness state {showState σ} is outside operator[]={showItv iv}")
          | none => pure ()
        | none => throw (.bad "query")
      | _, _, _ => pure ()
      let isAssume := kind == "bassume"
      let isCast := kind == "cast"
      pure { st with g := g, w := st.w.setIfInBounds d wd, facts := st.facts.setIfInBounds d pr.facts,
                     checks := st.checks + wd.length,
                     assumes := st.assumes + (if isAssume then 1 else 0),
                     liveAssumes := st.liveAssumes + (if isAssume && !(W d).isEmpty then 1 else 0),
                     casts := st.casts + (if isCast then 1 else 0),
                     liveCasts := st.liveCasts + (if isCast && !wd.isEmpty then 1 else 0),
                     entails := st.entails + (if kind == "entails" then 1 else 0),
                     entailsYes := st.entailsYes + (if kind == "entails" && pr.ent == some true && !wd.isEmpty then 1 else 0) }
    match (List.range nops).foldl step (.ok st0) with
    | .error v => v
    | .ok st =>
      -- pair queries
      match res.getD nops (.atom "?"), res.getD (nops + 1) (.atom "?") with
      | .list (.atom "leq" :: ps), .list (.atom "lat" :: ls) =>
        let bad := ps.findSome? (fun p => match p with
          | .list [i, j, b] =>
            match i.nat?, j.nat?, parseBool b with
            | some i, some j, some b =>
              if i == j && !b then some s!"[C04] dom2.hist {dom}: value #{i} is not <= itself"
              else if b then
                ((st.w.getD i []).findSome? (fun σ => (violates (st.facts.getD j {}) σ).map (fun f =>
                  s!"[C04] dom2.hist {dom}: #{i} <= #{j} answered yes but witness {showState σ} of #{i} violates {f} of #{j}")))
              else none
            | _, _, _ => some "parse"
          | _ => some "parse")
        match bad with
        | some m => if m == "parse" then .bad "dom2.hist leq" else .unsound m
        | none =>
          let badl := ls.findSome? (fun l => match l with
            | .list [a, b, c, e] =>
              if parseBool a == some true && parseBool b == some true && parseBool c == some true && parseBool e == some true then none
              else some s!"[C04] dom2.hist {dom}: lattice law failed (bot<=x, x<=top, is_bottom(bot), is_top(top)) = {l}"
            | _ => some "parse")
          match badl with
          | some m => if m == "parse" then .bad "dom2.hist lat" else .unsound m
          | none =>
            -- probes: (j b neg isbot istop (iv ...) (cs ...)) = copy of #j after assume_bool(b, neg)
            let probes := match res.getD (nops + 2) (.atom "?") with
              | .list (.atom "probe" :: qs) => qs
              | _ => []
            let leqYes := fun (i j : Nat) => ps.any (fun p => match p with
              | .list [a, b, c] => a.nat? == some i && b.nat? == some j && parseBool c == some true
              | _ => false)
            let badp := probes.findSome? (fun q => match q with
              | .list [j, b, n, isb, _, .list (.atom "iv" :: ivs), .list (.atom "cs" :: cs)] =>
                match j.nat?, varIdx b, parseBool n, parseBool isb, ivs.mapM parseItv, cs.mapM parseCst with
                | some j, some b, some n, some isb, some ivs, some cs =>
                  let f : SlotFacts := { bot := isb, ivs := ivs, csts := cs }
                  (List.range NPOOL).findSome? (fun i =>
                    if leqYes i j then
                      ((st.w.getD i []).filter (fun σ => get σ b == (if n then 0 else 1))).findSome? (fun σ =>
                        (violates f σ).map (fun v =>
                          (if i == j then s!"[C03] dom2.hist {dom}: witness {showState σ} of #{j}"
                           else s!"[C04] dom2.hist {dom}: #{i} <= #{j} answered yes but witness {showState σ} of #{i}")
                          ++ s!" violates {v} of #{j} after assume_bool(b{b - NV}, neg={n})"))
                    else none)
                | _, _, _, _, _, _ => some "parse"
              | _ => some "parse")
            match badp with
            | some m => if m == "parse" then .bad "dom2.hist probe" else .unsound m
            | none =>
            -- numeric probes: (j k isbot istop (iv ...) (cs ...)) = copy of #j after += probe constraint k
            let nqs := match res.getD (nops + 3) (.atom "?") with
              | .list (.atom "nprobe" :: qs) => qs
              | _ => []
            let badn := nqs.findSome? (fun q => match q with
              | .list [j, k, isb, _, .list (.atom "iv" :: ivs), .list (.atom "cs" :: cs)] =>
                match j.nat?, k.nat?, parseBool isb, ivs.mapM parseItv, cs.mapM parseCst with
                | some j, some k, some isb, some ivs, some cs =>
                  match (nprobes.getD k (.atom "?")) |> parseCst with
                  | some c =>
                    let f : SlotFacts := { bot := isb, ivs := ivs, csts := cs }
                    (List.range NPOOL).findSome? (fun i =>
                      if leqYes i j then
                        ((st.w.getD i []).filter (fun σ => c.sat σ)).findSome? (fun σ =>
                          (violates f σ).map (fun v =>
                            (if i == j then s!"[C03] dom2.hist {dom}: witness {showState σ} of #{j}"
                             else s!"[C04] dom2.hist {dom}: #{i} <= #{j} answered yes but witness {showState σ} of #{i}")
                            ++ s!" violates {v} of #{j} after += probe constraint #{k} {showCst c}"))
                      else none)
                  | none => some "parse"
                | _, _, _, _, _ => some "parse"
              | _ => some "parse")
            match badn with
            | some m => if m == "parse" then .bad "dom2.hist nprobe" else .unsound m
            | none =>
            if op == "stat" then
              .skip s!"stat checks={st.checks} assumes={st.assumes} liveAssumes={st.liveAssumes} casts={st.casts} liveCasts={st.liveCasts} entails={st.entails} entailsYes={st.entailsYes}"
            else .ok
      | _, _ => .bad "dom2.hist tail"
  | _ => .bad s!"dom2.{op}"

end Dom2

def handleDom2 := Dom2.handleDom2

end Driver
