import Driver.Common
import CrabModel.Container.SeparateDomain
import CrabModel.Container.PSet

/-!
  Handlers for the components `env` (`ikos::separate_domain<Key, interval<z_number>>`) and
  `pset` (`ikos::patricia_tree_set<Key>`, `ikos::discrete_domain<Key>`), property C19.

  Every line carries its full operands.  Environments are `bot` or a key-sorted binding list
  `(env (k (iv l u)) ...)`.  For every line the handler
    1. rebuilds the patricia-tree model of each operand by inserting the bindings one by one,
    2. computes the answer with the tree model (twice: with the pointer-equality oracle
       always-no and with the oracle "structurally equal = shared"; they must agree),
    3. computes the answer with a plain association list read pointwise ("spec map": total map
       with default top / plain sorted list for sets), which is the property's own predicate,
    4. compares the implementation's answer with both:
         differs from the spec map                  -> UNSOUND (with the key as witness)
         equals the spec map, differs from the tree -> DRIFT.
-/
namespace Driver
open Crab Crab.Patricia

/-! ## spec maps: total maps `Nat → Itv` with default top, as sorted association lists -/

abbrev Binds := List (Nat × Itv)
/-- `none` = the bottom environment -/
abbrev Spec := Option Binds

def bAt (m : Binds) (k : Nat) : Itv :=
  match m.find? (fun p => p.1 == k) with
  | some p => p.2
  | none => Itv.top

def bErase (m : Binds) (k : Nat) : Binds := m.filter (fun p => p.1 != k)

def bInsertSorted (p : Nat × Itv) : Binds → Binds
  | [] => [p]
  | q :: qs => if p.1 < q.1 then p :: q :: qs else q :: bInsertSorted p qs

/-- pointwise update; a top value is the absence of a binding -/
def bPut (m : Binds) (k : Nat) (v : Itv) : Binds :=
  if v.isTop then bErase m k else bInsertSorted (k, v) (bErase m k)

def sortNat (l : List Nat) : List Nat := (l.mergeSort (fun a b => a ≤ b)).eraseDups

def bKeys (m : Binds) : List Nat := m.map Prod.fst

def specAt (s : Spec) (k : Nat) : Itv :=
  match s with
  | none => Itv.bot
  | some m => bAt m k

def specSet (s : Spec) (k : Nat) (v : Itv) : Spec :=
  match s with
  | none => none
  | some m => if v.isBottom then none else some (bPut m k v)

def specForget (s : Spec) (k : Nat) : Spec := s.map (fun m => bErase m k)

/-- weak update: pointwise join at `k`; a bottom value makes the environment bottom (as documented by the code) -/
def specWJoin (s : Spec) (k : Nat) (v : Itv) : Spec :=
  match s with
  | none => none
  | some m => if v.isBottom then none else some (bPut m k (Itv.join (bAt m k) v))

/-- join / widening: pointwise on every key bound on either side -/
def specUpper (f : Itv → Itv → Itv) (a b : Spec) : Spec :=
  match a, b with
  | none, b => b
  | a, none => a
  | some x, some y =>
    some ((sortNat (bKeys x ++ bKeys y)).foldl (fun acc k => bPut acc k (f (bAt x k) (bAt y k))) [])

/-- meet / narrowing: pointwise; bottom as soon as one component is bottom -/
def specLower (f : Itv → Itv → Itv) (a b : Spec) : Spec :=
  match a, b with
  | some x, some y =>
    let ks := sortNat (bKeys x ++ bKeys y)
    if ks.any (fun k => (f (bAt x k) (bAt y k)).isBottom) then none
    else some (ks.foldl (fun acc k => bPut acc k (f (bAt x k) (bAt y k))) [])
  | _, _ => none

/-- pointwise order; returns the first key at which it fails -/
def specLeqWitness (a b : Spec) : Option (Option Nat) :=
  match a, b with
  | none, _ => none
  | some _, none => some none
  | some x, some y =>
    match (sortNat (bKeys x ++ bKeys y)).find? (fun k => !Itv.leq (bAt x k) (bAt y k)) with
    | some k => some (some k)
    | none => none

def specLeq (a b : Spec) : Bool := (specLeqWitness a b).isNone

def specIsTop (s : Spec) : Bool :=
  match s with
  | some [] => true
  | _ => false

def specProject (s : Spec) (keys : List Nat) : Spec :=
  s.map (fun m => m.filter (fun p => keys.contains p.1))

def specRename1 (m : Binds) (k newK : Nat) : Binds :=
  if k = newK then m
  else
    let v := bAt m k
    if v.isTop then m else bErase (bPut m newK v) k

def specRename (s : Spec) (frm to : List Nat) : Option Spec :=
  match s with
  | none => some none
  | some [] => some (some [])
  | some m => if frm.length != to.length then none
              else some (some ((frm.zip to).foldl (fun acc p => specRename1 acc p.1 p.2) m))

/-! ## parsing / printing -/

def parseBinds : List Sexp → Option Binds
  | [] => some []
  | .list [k, v] :: rest => do
      let k ← k.nat?; let v ← parseItv v; let r ← parseBinds rest; pure ((k, v) :: r)
  | _ => none

def parseEnv : Sexp → Option Spec
  | .atom "bot" => some none
  | .list (.atom "env" :: bs) => (parseBinds bs).map some
  | _ => none

def parseNats : Sexp → Option (List Nat)
  | .list xs => xs.mapM Sexp.nat?
  | _ => none

def showBinds (m : Binds) : String :=
  "(env" ++ String.join (m.map (fun p => s!" ({p.1} {showItv p.2})")) ++ ")"

def showSpec : Spec → String
  | none => "bot"
  | some m => showBinds m

def showNats (l : List Nat) : String := "(" ++ " ".intercalate (l.map toString) ++ ")"

/-! ## the tree model -/

abbrev Env := SepDom Itv

/-- the two oracles the model is run with -/
def ctxNever : Ctx Itv := ⟨fun _ _ => false, Itv.beq⟩
def ctxAlways : Ctx Itv := ⟨fun a b => a == b, Itv.beq⟩

/-- rebuild the tree from the text like the harness does: `set` binding after binding -/
def buildEnv (c : Ctx Itv) (s : Spec) : Env :=
  match s with
  | none => SepDom.bottom
  | some m => m.foldl (fun e p => SepDom.set c itvLattice e p.1 p.2) SepDom.top

/-- the observable content of a tree-model environment -/
def envView (e : Env) : Spec := if e.isBot then none else some e.tree.toList

/-- the first key at which two environments differ (as total maps), or a structural remark -/
def specDiff (impl spec : Spec) : String :=
  match impl, spec with
  | none, none => "same"
  | none, some _ => "implementation is bottom, pointwise result is not"
  | some _, none => "pointwise result is bottom, implementation is not"
  | some x, some y =>
    match (sortNat (bKeys x ++ bKeys y)).find? (fun k => bAt x k != bAt y k) with
    | some k => s!"key {k}: impl {showItv (bAt x k)} pointwise {showItv (bAt y k)}"
    | none =>
      match x.find? (fun p => p.2.isTop) with
      | some p => s!"key {p.1}: a top binding is stored (iteration must list non-top bindings only)"
      | none => "binding lists differ (duplicate or unsorted keys)"

/-- verdict for an environment-valued answer -/
def judgeEnv (ctx : String) (impl : Spec) (mN mA : Env) (spec : Spec) : Verdict :=
  if impl != spec then
    .unsound s!"{ctx} impl={showSpec impl} pointwise={showSpec spec} model={showSpec (envView mN)} witness {specDiff impl spec}"
  else if envView mN != impl then .drift s!"{ctx} impl={showSpec impl} model={showSpec (envView mN)}"
  else if envView mA != envView mN then .drift s!"{ctx} model depends on the pointer-equality oracle"
  else .ok

def judgeBool (ctx : String) (impl mN mA spec : Bool) (witness : String) : Verdict :=
  if impl != spec then .unsound s!"{ctx} impl={impl} pointwise={spec} model={mN} witness {witness}"
  else if mN != impl then .drift s!"{ctx} impl={impl} model={mN}"
  else if mA != mN then .drift s!"{ctx} model depends on the pointer-equality oracle"
  else .ok

def fx : Bool := Patricia.compareIsFixed

def leqWitnessStr (a b : Spec) : String :=
  match specLeqWitness a b with
  | none => "(pointwise order holds)"
  | some none => "right operand is bottom, left is not"
  | some (some k) => s!"key {k}: {showItv (specAt a k)} not<= {showItv (specAt b k)}"

/-- binary lattice operations and tests on (tree model N, tree model A, spec) triples -/
structure Tri where
  n : Env
  a : Env
  s : Spec

def Tri.ofSpec (s : Spec) : Tri := ⟨buildEnv ctxNever s, buildEnv ctxAlways s, s⟩

def triBinEnv (op : String) (x y : Tri) : Option Tri :=
  let L := itvLattice
  match op with
  | "join" => some ⟨SepDom.join ctxNever L x.n y.n, SepDom.join ctxAlways L x.a y.a, specUpper Itv.join x.s y.s⟩
  | "widen" => some ⟨SepDom.widen ctxNever L x.n y.n, SepDom.widen ctxAlways L x.a y.a, specUpper Itv.widen x.s y.s⟩
  | "meet" => some ⟨SepDom.meet ctxNever L x.n y.n, SepDom.meet ctxAlways L x.a y.a, specLower Itv.meet x.s y.s⟩
  | "narrow" => some ⟨SepDom.narrow ctxNever L x.n y.n, SepDom.narrow ctxAlways L x.a y.a, specLower Itv.narrow x.s y.s⟩
  | _ => none

def judgeTriEnv (ctx : String) (impl : Spec) (t : Tri) : Verdict := judgeEnv ctx impl t.n t.a t.s

/-- remark added to a wrong `<=`: does the repaired leaf/leaf test of `tree::compare` explain it? -/
def fixNote (x y : Tri) : String :=
  if SepDom.leq true ctxNever itvLattice x.n y.n == specLeq x.s y.s
  then " [tree model with the repaired leaf/leaf test of tree::compare agrees with the pointwise order]"
  else " [NOT explained by the leaf/leaf test of tree::compare]"

def judgeLeq (ctx : String) (impl : Bool) (x y : Tri) : Verdict :=
  let L := itvLattice
  judgeBool ctx impl (SepDom.leq fx ctxNever L x.n y.n) (SepDom.leq fx ctxAlways L x.a y.a)
    (specLeq x.s y.s) (leqWitnessStr x.s y.s ++ fixNote x y)

def judgeEq (ctx : String) (impl : Bool) (x y : Tri) : Verdict :=
  let L := itvLattice
  let sp := specLeq x.s y.s && specLeq y.s x.s
  let w := if !specLeq x.s y.s then leqWitnessStr x.s y.s ++ fixNote x y else leqWitnessStr y.s x.s ++ fixNote y x
  judgeBool ctx impl (SepDom.eq fx ctxNever L x.n y.n) (SepDom.eq fx ctxAlways L x.a y.a) sp w

def triSet (t : Tri) (k : Nat) (v : Itv) : Tri :=
  ⟨SepDom.set ctxNever itvLattice t.n k v, SepDom.set ctxAlways itvLattice t.a k v, specSet t.s k v⟩
def triForget (t : Tri) (k : Nat) : Tri :=
  ⟨SepDom.forget ctxNever t.n k, SepDom.forget ctxAlways t.a k, specForget t.s k⟩
def triWJoin (t : Tri) (k : Nat) (v : Itv) : Tri :=
  ⟨SepDom.wjoin SepDom.wjoinIsFixed ctxNever itvLattice t.n k v,
   SepDom.wjoin SepDom.wjoinIsFixed ctxAlways itvLattice t.a k v, specWJoin t.s k v⟩
def triProject (t : Tri) (ks : List Nat) : Tri :=
  ⟨SepDom.project ctxNever itvLattice t.n ks, SepDom.project ctxAlways itvLattice t.a ks, specProject t.s ks⟩
def triRename (t : Tri) (f g : List Nat) : Option Tri :=
  match SepDom.rename ctxNever itvLattice t.n f g, SepDom.rename ctxAlways itvLattice t.a f g, specRename t.s f g with
  | some n, some a, some s => some ⟨n, a, s⟩
  | _, _, _ => none
/-- do model and spec agree on whether `rename` raises CRAB_ERROR -/
def renameErrAgree (t : Tri) (f g : List Nat) : Bool :=
  (SepDom.rename ctxNever itvLattice t.n f g).isSome == (specRename t.s f g).isSome

def judgeAt (ctx : String) (impl : Itv) (t : Tri) (k : Nat) : Verdict :=
  let sp := specAt t.s k
  let mn := SepDom.atKey itvLattice t.n k
  let ma := SepDom.atKey itvLattice t.a k
  if !(Itv.beq impl sp && Itv.beq sp impl) then .unsound s!"{ctx} impl={showItv impl} pointwise={showItv sp} witness key {k}"
  else if !(Itv.beq mn impl) then .drift s!"{ctx} impl={showItv impl} model={showItv mn}"
  else if !(Itv.beq ma mn) then .drift s!"{ctx} model depends on the pointer-equality oracle"
  else .ok

/-- iteration: every non-top binding exactly once (spec), in the model's order (drift) -/
def judgeKeys (ctx : String) (res : Sexp) (t : Tri) : Verdict :=
  match t.s, res with
  | none, .atom "err" => if t.n.bindings.isNone then .ok else .drift s!"{ctx} model iterates over bottom"
  | none, r => .drift s!"{ctx} iteration over bottom must raise CRAB_ERROR, impl={r}"
  | some m, r =>
    match parseNats r with
    | none => .drift s!"{ctx} impl={r} (expected a key list)"
    | some ks =>
      if (ks.mergeSort (fun a b => a ≤ b)) != bKeys m then
        .unsound s!"{ctx} impl={showNats ks} pointwise non-top keys={showNats (bKeys m)} witness iteration does not list exactly the non-top bindings once"
      else
        match t.n.bindings, t.a.bindings with
        | some bn, some ba =>
          if bn.map Prod.fst != ks then .drift s!"{ctx} impl order={showNats ks} model order={showNats (bn.map Prod.fst)}"
          else if ba != bn then .drift s!"{ctx} model depends on the pointer-equality oracle"
          else .ok
        | _, _ => .drift s!"{ctx} model raises CRAB_ERROR"

/-! ## histories over a pool of 6 environments -/

def poolGet (p : Array Tri) (i : Nat) : Tri := p.getD i (Tri.ofSpec (some []))

def parseIdx (s : Sexp) : Option Nat := do
  let i ← s.nat?
  if i < 6 then some i else none

/-- one step; returns the verdict and the new pool -/
def histStep (p : Array Tri) (i : Nat) (st res : Sexp) : Verdict × Array Tri :=
  let ctx := s!"env.hist step {i} {st}"
  let bad : Verdict × Array Tri := (.bad ctx, p)
  let envRes (d : Nat) (t : Tri) : Verdict × Array Tri :=
    match parseEnv res with
    | some impl => (judgeTriEnv ctx impl t, p.setIfInBounds d t)
    | none => (.drift s!"{ctx} impl={res}", p)
  match st with
  | .list [.atom "set", d, k, v] =>
    match parseIdx d, k.nat?, parseItv v with
    | some d, some k, some v => envRes d (triSet (poolGet p d) k v)
    | _, _, _ => bad
  | .list [.atom "wjoin", d, k, v] =>
    match parseIdx d, k.nat?, parseItv v with
    | some d, some k, some v => envRes d (triWJoin (poolGet p d) k v)
    | _, _, _ => bad
  | .list [.atom "forget", d, k] =>
    match parseIdx d, k.nat? with
    | some d, some k => envRes d (triForget (poolGet p d) k)
    | _, _ => bad
  | .list [.atom "copy", d, s] =>
    match parseIdx d, parseIdx s with
    | some d, some s => envRes d (poolGet p s)
    | _, _ => bad
  | .list [.atom "bot", d] =>
    match parseIdx d with
    | some d => envRes d (Tri.ofSpec none)
    | _ => bad
  | .list [.atom "top", d] =>
    match parseIdx d with
    | some d => envRes d (Tri.ofSpec (some []))
    | _ => bad
  | .list [.atom "project", d, ks] =>
    match parseIdx d, parseNats ks with
    | some d, some ks => envRes d (triProject (poolGet p d) ks)
    | _, _ => bad
  | .list [.atom "rename", d, f, g] =>
    match parseIdx d, parseNats f, parseNats g with
    | some d, some f, some g =>
      let t := poolGet p d
      if !renameErrAgree t f g then (.drift s!"{ctx} model and pointwise map disagree on CRAB_ERROR", p)
      else match triRename t f g with
        | some t' => envRes d t'
        | none => if res == .atom "err" then (.ok, p) else (.drift s!"{ctx} model raises CRAB_ERROR impl={res}", p)
    | _, _, _ => bad
  | .list [.atom "leq", a, b] =>
    match parseIdx a, parseIdx b, parseBool res with
    | some a, some b, some r => (judgeLeq ctx r (poolGet p a) (poolGet p b), p)
    | _, _, _ => bad
  | .list [.atom "eq", a, b] =>
    match parseIdx a, parseIdx b, parseBool res with
    | some a, some b, some r => (judgeEq ctx r (poolGet p a) (poolGet p b), p)
    | _, _, _ => bad
  | .list [.atom "at", a, k] =>
    match parseIdx a, k.nat?, parseItv res with
    | some a, some k, some r => (judgeAt ctx r (poolGet p a) k, p)
    | _, _, _ => bad
  | .list [.atom "keys", a] =>
    match parseIdx a with
    | some a => (judgeKeys ctx res (poolGet p a), p)
    | _ => bad
  | .list [.atom "is_top", a] =>
    match parseIdx a, parseBool res with
    | some a, some r =>
      let t := poolGet p a
      (judgeBool ctx r t.n.isTop t.a.isTop (specIsTop t.s) "is_top must hold exactly when every key is top", p)
    | _, _ => bad
  | .list [.atom op, d, a, b] =>
    match parseIdx d, parseIdx a, parseIdx b with
    | some d, some a, some b =>
      match triBinEnv op (poolGet p a) (poolGet p b) with
      | some t => envRes d t
      | none => bad
    | _, _, _ => bad
  | _ => bad

def runHist (steps res : List Sexp) : Verdict :=
  if steps.length != res.length then .bad "env.hist: number of results"
  else
    let init : Array Tri := Array.replicate 6 (Tri.ofSpec (some []))
    let rec go (i : Nat) (p : Array Tri) : List Sexp → List Sexp → Verdict
      | st :: sts, r :: rs =>
        match histStep p i st r with
        | (.ok, p') => go (i + 1) p' sts rs
        | (v, _) => v
      | _, _ => .ok
    go 1 init steps res

/-- the edits of a `shared` request -/
def applyEdits (t : Tri) : List Sexp → Option Tri
  | [] => some t
  | .list [.atom "set", k, v] :: rest => do
      let k ← k.nat?; let v ← parseItv v; applyEdits (triSet t k v) rest
  | .list [.atom "forget", k] :: rest => do
      let k ← k.nat?; applyEdits (triForget t k) rest
  | _ => none

def handleEnvBin (ctx op : String) (x y : Tri) (res : Sexp) : Verdict :=
  match op with
  | "leq" => match parseBool res with
    | some r => judgeLeq ctx r x y
    | none => .bad ctx
  | "eq" => match parseBool res with
    | some r => judgeEq ctx r x y
    | none => .bad ctx
  | _ =>
    match triBinEnv op x y, parseEnv res with
    | some t, some impl => judgeTriEnv ctx impl t
    | _, _ => .bad ctx

def handleEnv (op : String) (args res : List Sexp) : Verdict :=
  let ctx := s!"env.{op} " ++ " ".intercalate (args.map toString)
  match op, args, res with
  | "hist", steps, rs => runHist steps rs
  | "shared", [.atom bop, .atom dir, a, .list eds], [r] =>
    match parseEnv a with
    | some sa =>
      let x := Tri.ofSpec sa
      match applyEdits x eds with
      | some y => if dir == "ab" then handleEnvBin ctx bop x y r else handleEnvBin ctx bop y x r
      | none => .bad ctx
    | none => .bad ctx
  | "set", [e, k, v], [r] =>
    match parseEnv e, k.nat?, parseItv v, parseEnv r with
    | some e, some k, some v, some impl => judgeTriEnv ctx impl (triSet (Tri.ofSpec e) k v)
    | _, _, _, _ => .bad ctx
  | "wjoin", [e, k, v], [r] =>
    match parseEnv e, k.nat?, parseItv v, parseEnv r with
    | some e, some k, some v, some impl => judgeTriEnv ctx impl (triWJoin (Tri.ofSpec e) k v)
    | _, _, _, _ => .bad ctx
  | "forget", [e, k], [r] =>
    match parseEnv e, k.nat?, parseEnv r with
    | some e, some k, some impl => judgeTriEnv ctx impl (triForget (Tri.ofSpec e) k)
    | _, _, _ => .bad ctx
  | "at", [e, k], [r] =>
    match parseEnv e, k.nat?, parseItv r with
    | some e, some k, some impl => judgeAt ctx impl (Tri.ofSpec e) k
    | _, _, _ => .bad ctx
  | "keys", [e], [r] =>
    match parseEnv e with
    | some e => judgeKeys ctx r (Tri.ofSpec e)
    | none => .bad ctx
  | "size", [e], [r] =>
    match parseEnv e with
    | some e =>
      let t := Tri.ofSpec e
      let sp : Option Nat := match e with
        | none => some 0
        | some [] => none
        | some m => some m.length
      let showO : Option Nat → String := fun o => match o with | some n => toString n | none => "err"
      if r.atom? != some (showO sp) then .unsound s!"{ctx} impl={r} pointwise={showO sp} witness number of non-top bindings"
      else if t.n.size != sp then .drift s!"{ctx} impl={r} model={showO t.n.size}"
      else .ok
    | none => .bad ctx
  | "is_top", [e], [r] =>
    match parseEnv e, parseBool r with
    | some e, some r =>
      let t := Tri.ofSpec e
      judgeBool ctx r t.n.isTop t.a.isTop (specIsTop e) "is_top must hold exactly when every key is top"
    | _, _ => .bad ctx
  | "is_bottom", [e], [r] =>
    match parseEnv e, parseBool r with
    | some e, some r =>
      let t := Tri.ofSpec e
      judgeBool ctx r t.n.isBottom t.a.isBottom e.isNone "is_bottom"
    | _, _ => .bad ctx
  | "project", [e, ks], [r] =>
    match parseEnv e, parseNats ks, parseEnv r with
    | some e, some ks, some impl => judgeTriEnv ctx impl (triProject (Tri.ofSpec e) ks)
    | _, _, _ => .bad ctx
  | "rename", [e, f, g], [r] =>
    match parseEnv e, parseNats f, parseNats g with
    | some e, some f, some g =>
      let t := Tri.ofSpec e
      if !renameErrAgree t f g then .drift s!"{ctx} model and pointwise map disagree on CRAB_ERROR"
      else match triRename t f g with
        | some t' => match parseEnv r with
          | some impl => judgeTriEnv ctx impl t'
          | none => .drift s!"{ctx} impl={r}"
        | none => if r == .atom "err" then .ok else .drift s!"{ctx} model raises CRAB_ERROR impl={r}"
    | _, _, _ => .bad ctx
  | _, [a, b], [r] =>
    match parseEnv a, parseEnv b with
    | some a, some b => handleEnvBin ctx op (Tri.ofSpec a) (Tri.ofSpec b) r
    | _, _ => .bad ctx
  | _, _, _ => .bad s!"{ctx}: arity"

/-! ## sets -/

def pctxNever : Ctx Bool := PSet.ctx (fun _ _ => false)
def pctxAlways : Ctx Bool := PSet.ctx (fun a b => a == b)

/-- `(s k ...)` -/
def parseSet : Sexp → Option (List Nat)
  | .list (.atom "s" :: ks) => ks.mapM Sexp.nat?
  | _ => none

/-- `top` or a set -/
def parseDD : Sexp → Option (Option (List Nat))
  | .atom "top" => some none
  | s => (parseSet s).map some

def showSet (l : List Nat) : String := "(s" ++ String.join (l.map (fun k => s!" {k}")) ++ ")"
def showDDs : Option (List Nat) → String
  | none => "top"
  | some l => showSet l

def buildSet (c : Ctx Bool) (l : List Nat) : PSet.T := l.foldl (fun s k => PSet.add c s k) PSet.empty
def buildDD (c : Ctx Bool) : Option (List Nat) → DD
  | none => DD.top
  | some l => l.foldl (fun d k => DD.add c d k) DD.bottom

def lUnion (a b : List Nat) : List Nat := sortNat (a ++ b)
def lInter (a b : List Nat) : List Nat := a.filter (fun k => b.contains k)
def lDiff (a b : List Nat) : List Nat := a.filter (fun k => !b.contains k)
def lSubset (a b : List Nat) : Bool := a.all (fun k => b.contains k)
def lSubsetWitness (a b : List Nat) : String :=
  match a.find? (fun k => !b.contains k) with
  | some k => s!"element {k} of the left operand is not in the right operand"
  | none => "(inclusion holds)"

def judgeSet (ctx : String) (impl : List Nat) (mN mA : PSet.T) (spec : List Nat) : Verdict :=
  if impl != spec then
    let w := match (sortNat (impl ++ spec)).find? (fun k => impl.contains k != spec.contains k) with
      | some k => s!"element {k}"
      | none => "duplicates"
    .unsound s!"{ctx} impl={showSet impl} exact={showSet spec} witness {w}"
  else if PSet.elems mN != impl then .drift s!"{ctx} impl={showSet impl} model={showSet (PSet.elems mN)}"
  else if PSet.elems mA != PSet.elems mN then .drift s!"{ctx} model depends on the pointer-equality oracle"
  else .ok

def ddView (d : DD) : Option (List Nat) := if d.isTop then none else some (PSet.elems d.set)

def judgeDD (ctx : String) (impl : Option (List Nat)) (mN mA : DD) (spec : Option (List Nat)) : Verdict :=
  if impl != spec then .unsound s!"{ctx} impl={showDDs impl} exact={showDDs spec} witness set contents differ"
  else if ddView mN != impl then .drift s!"{ctx} impl={showDDs impl} model={showDDs (ddView mN)}"
  else if ddView mA != ddView mN then .drift s!"{ctx} model depends on the pointer-equality oracle"
  else .ok

def setBin (ctx op : String) (a b : List Nat) (nA nB aA aB : PSet.T) (r : Sexp) : Verdict :=
  match op with
  | "union" => match parseSet r with
    | some impl => judgeSet ctx impl (PSet.union pctxNever nA nB) (PSet.union pctxAlways aA aB) (lUnion a b)
    | none => .bad ctx
  | "inter" => match parseSet r with
    | some impl => judgeSet ctx impl (PSet.inter pctxNever nA nB) (PSet.inter pctxAlways aA aB) (lInter a b)
    | none => .bad ctx
  | "subset" => match parseBool r with
    | some impl => judgeBool ctx impl (PSet.subset fx pctxNever nA nB) (PSet.subset fx pctxAlways aA aB) (lSubset a b) (lSubsetWitness a b)
    | none => .bad ctx
  | "supset" => match parseBool r with
    | some impl => judgeBool ctx impl (PSet.subset fx pctxNever nB nA) (PSet.subset fx pctxAlways aB aA) (lSubset b a) (lSubsetWitness b a)
    | none => .bad ctx
  | "eq" => match parseBool r with
    | some impl => judgeBool ctx impl (PSet.eq fx pctxNever nA nB) (PSet.eq fx pctxAlways aA aB) (lSubset a b && lSubset b a)
        (if lSubset a b then lSubsetWitness b a else lSubsetWitness a b)
    | none => .bad ctx
  | _ => .bad ctx

def applySetEdits (l : List Nat) (n a : PSet.T) : List Sexp → Option (List Nat × PSet.T × PSet.T)
  | [] => some (l, n, a)
  | .list [.atom "add", k] :: rest => do
      let k ← k.nat?
      applySetEdits (sortNat (k :: l)) (PSet.add pctxNever n k) (PSet.add pctxAlways a k) rest
  | .list [.atom "remove", k] :: rest => do
      let k ← k.nat?
      applySetEdits (l.filter (· != k)) (PSet.remove pctxNever n k) (PSet.remove pctxAlways a k) rest
  | _ => none

def optNatStr : Option Nat → String
  | some n => toString n
  | none => "err"

def handleDD (ctx o : String) (args : List Sexp) (r : Sexp) : Verdict :=
  match args with
  | [a] =>
    match parseDD a with
    | some sa =>
      let n := buildDD pctxNever sa
      match o with
      | "is_top" => match parseBool r with
        | some impl => judgeBool ctx impl n.isTop (buildDD pctxAlways sa).isTop sa.isNone "is_top"
        | none => .bad ctx
      | "is_bottom" => match parseBool r with
        | some impl => judgeBool ctx impl n.isBottom (buildDD pctxAlways sa).isBottom (sa == some []) "is_bottom"
        | none => .bad ctx
      | "size" =>
        let sp := sa.map List.length
        if r.atom? != some (optNatStr sp) then .unsound s!"{ctx} impl={r} exact={optNatStr sp} witness cardinality"
        else if n.size != sp then .drift s!"{ctx} impl={r} model={optNatStr n.size}"
        else .ok
      | "elems" =>
        match sa, r with
        | none, .atom "err" => if n.elems.isNone then .ok else .drift s!"{ctx} model iterates over top"
        | none, _ => .drift s!"{ctx} iteration over top must raise CRAB_ERROR impl={r}"
        | some l, _ =>
          match parseNats r with
          | some ks =>
            if ks.mergeSort (fun a b => a ≤ b) != l then .unsound s!"{ctx} impl={showNats ks} exact={showNats l} witness iteration does not list every element once"
            else if n.elems != some ks then .drift s!"{ctx} impl order={showNats ks} model={n.elems.map showNats}"
            else .ok
          | none => .drift s!"{ctx} impl={r}"
      | _ => .bad ctx
    | none => .bad ctx
  | [a, k] =>
    match parseDD a with
    | some sa =>
      let n := buildDD pctxNever sa
      let aa := buildDD pctxAlways sa
      match o with
      | "add" | "remove" | "contain" =>
        match k.nat? with
        | some k =>
          if o == "add" then
            match parseDD r with
            | some impl => judgeDD ctx impl (DD.add pctxNever n k) (DD.add pctxAlways aa k) (sa.map (fun l => sortNat (k :: l)))
            | none => .bad ctx
          else if o == "remove" then
            match parseDD r with
            | some impl => judgeDD ctx impl (DD.remove pctxNever n k) (DD.remove pctxAlways aa k) (sa.map (fun l => l.filter (· != k)))
            | none => .bad ctx
          else
            match parseBool r with
            | some impl =>
              let sp := match sa with | none => true | some l => l.contains k
              judgeBool ctx impl (n.contain k) (aa.contain k) sp s!"element {k}"
            | none => .bad ctx
        | none => .bad ctx
      | _ =>
        match parseDD k with
        | some sb =>
          let nb := buildDD pctxNever sb
          let ab := buildDD pctxAlways sb
          match o with
          | "join" => match parseDD r with
            | some impl =>
              let sp := match sa, sb with | some x, some y => some (lUnion x y) | _, _ => none
              judgeDD ctx impl (DD.join pctxNever n nb) (DD.join pctxAlways aa ab) sp
            | none => .bad ctx
          | "meet" => match parseDD r with
            | some impl =>
              let sp := match sa, sb with
                | some x, some y => some (lInter x y) | none, y => y | x, none => x
              judgeDD ctx impl (DD.meet pctxNever n nb) (DD.meet pctxAlways aa ab) sp
            | none => .bad ctx
          | "leq" => match parseBool r with
            | some impl =>
              let sp := match sa, sb with
                | _, none => true | none, some _ => false | some x, some y => lSubset x y
              let w := match sa, sb with
                | some x, some y => lSubsetWitness x y | _, _ => "top is only below top"
              judgeBool ctx impl (DD.leq fx pctxNever n nb) (DD.leq fx pctxAlways aa ab) sp w
            | none => .bad ctx
          | "eq" => match parseBool r with
            | some impl =>
              let sp := sa == sb
              let w := match sa, sb with
                | some x, some y => (if lSubset x y then lSubsetWitness y x else lSubsetWitness x y)
                | _, _ => "top (all elements) is compared with a proper set: any element outside it is a witness"
              judgeBool ctx impl (DD.eq DD.eqIsFixed fx pctxNever n nb) (DD.eq DD.eqIsFixed fx pctxAlways aa ab) sp w
            | none => .bad ctx
          | "diff" =>
            -- exact difference; on `a` not top and `b` top the code raises CRAB_ERROR (accepted: the
            -- difference with "all elements" has no representation as an iteration)
            match DD.diff pctxNever n nb, DD.diff pctxAlways aa ab with
            | some mn, some ma =>
              match parseDD r with
              | some impl =>
                let sp := match sa, sb with
                  | none, _ => none | some x, some y => some (lDiff x y) | some _, none => some []
                judgeDD ctx impl mn ma sp
              | none => .drift s!"{ctx} impl={r} model={showDDs (ddView mn)}"
            | none, none => if r == .atom "err" then .ok else .drift s!"{ctx} model raises CRAB_ERROR impl={r}"
            | _, _ => .drift s!"{ctx} model depends on the pointer-equality oracle"
          | _ => .bad ctx
        | none => .bad ctx
    | none => .bad ctx
  | [a, f, g] =>
    match parseDD a, parseNats f, parseNats g, o with
    | some sa, some f, some g, "rename" =>
      let n := buildDD pctxNever sa
      let aa := buildDD pctxAlways sa
      let sp : Option (Option (List Nat)) :=
        match sa with
        | none => some none
        | some [] => some (some [])
        | some l => if f.length != g.length then none
                    else some (some ((f.zip g).foldl (fun acc p =>
                      if p.1 = p.2 then acc else if acc.contains p.1 then sortNat (p.2 :: acc.filter (· != p.1)) else acc) l))
      match DD.rename pctxNever n f g, DD.rename pctxAlways aa f g, sp with
      | some mn, some ma, some sp => match parseDD r with
        | some impl => judgeDD ctx impl mn ma sp
        | none => .drift s!"{ctx} impl={r}"
      | none, none, none => if r == .atom "err" then .ok else .drift s!"{ctx} model raises CRAB_ERROR impl={r}"
      | _, _, _ => .drift s!"{ctx} model and exact set disagree on CRAB_ERROR"
    | _, _, _, _ => .bad ctx
  | _ => .bad ctx

def handlePSet (op : String) (args res : List Sexp) : Verdict :=
  let ctx := s!"pset.{op} " ++ " ".intercalate (args.map toString)
  match res with
  | [r] =>
    if op.startsWith "dd_" then handleDD ctx (op.drop 3).toString args r
    else
    match op, args with
    | "shared", [.atom bop, .atom dir, a, .list eds] =>
      match parseSet a with
      | some la =>
        let nA := buildSet pctxNever la
        let aA := buildSet pctxAlways la
        match applySetEdits la nA aA eds with
        | some (lb, nB, aB) =>
          if dir == "ab" then setBin ctx bop la lb nA nB aA aB r else setBin ctx bop lb la nB nA aB aA r
        | none => .bad ctx
      | none => .bad ctx
    | _, [a] =>
      match parseSet a with
      | some la =>
        let n := buildSet pctxNever la
        match op with
        | "empty" => match parseBool r with
          | some impl => judgeBool ctx impl (PSet.isEmpty n) (PSet.isEmpty (buildSet pctxAlways la)) la.isEmpty "emptiness"
          | none => .bad ctx
        | "size" =>
          if r.atom? != some (toString la.length) then .unsound s!"{ctx} impl={r} exact={la.length} witness cardinality"
          else if PSet.size n != la.length then .drift s!"{ctx} impl={r} model={PSet.size n}"
          else .ok
        | "elems" =>
          match parseNats r with
          | some ks =>
            if ks.mergeSort (fun a b => a ≤ b) != la then .unsound s!"{ctx} impl={showNats ks} exact={showNats la} witness iteration does not list every element once"
            else if PSet.elems n != ks then .drift s!"{ctx} impl order={showNats ks} model order={showNats (PSet.elems n)}"
            else .ok
          | none => .bad ctx
        | _ => .bad ctx
      | none => .bad ctx
    | _, [a, b] =>
      match parseSet a with
      | some la =>
        let nA := buildSet pctxNever la
        let aA := buildSet pctxAlways la
        match op with
        | "add" | "remove" | "member" =>
          match b.nat? with
          | some k =>
            if op == "add" then
              match parseSet r with
              | some impl => judgeSet ctx impl (PSet.add pctxNever nA k) (PSet.add pctxAlways aA k) (sortNat (k :: la))
              | none => .bad ctx
            else if op == "remove" then
              match parseSet r with
              | some impl => judgeSet ctx impl (PSet.remove pctxNever nA k) (PSet.remove pctxAlways aA k) (la.filter (· != k))
              | none => .bad ctx
            else
              match parseBool r with
              | some impl => judgeBool ctx impl (PSet.member nA k) (PSet.member aA k) (la.contains k) s!"element {k}"
              | none => .bad ctx
          | none => .bad ctx
        | _ =>
          match parseSet b with
          | some lb => setBin ctx op la lb nA (buildSet pctxNever lb) aA (buildSet pctxAlways lb) r
          | none => .bad ctx
      | none => .bad ctx
    | _, _ => .bad s!"{ctx}: arity"
  | _ => .bad s!"{ctx}: result"

end Driver
