import Driver.ProgH
import CrabModel.IR.RSemantics

/-!
  Handler for component `rprog` (mechanism R at program level, programs with REFERENCES): the
  harness `h_rprog` builds a generated CrabIR program with region / reference statements as a real
  crab CFG, runs the real `intra_fwd_analyzer` and the real `intra_forward_backward_analyzer` with
  `region_domain<Base>` and the real assertion checker, and prints the forward invariants at the
  entry and exit of every block and two verdicts (forward-only, forward+backward) per assert /
  assert_ref statement.  This handler parses the program and the answer, executes the program on
  concrete heaps with the formal semantics (`CrabModel/IR/RSemantics.lean`, heap operations of
  `CrabModel/Dom/RegionSem.lean`) a few dozen times (initial integers inside the declared `init`
  box, every reference null, every region empty; havoc values from a small set; goal-directed
  successor choices; at most `FUEL` blocks) and checks

    [C01] every (block, entry state) visited satisfies the exported invariant at the entry of the
          block: not bottom, `at(v)` of every integer variable, `at(b0)`, `at(r)` = interval of the
          address of every reference (NULL = 0), definite `is_null_ref` answers, allocation sites
          of non-null references, `at(G)` = interval of the content of every written cell of
          region G, every exported linear constraint; same for (block, exit state);
    [C02] no execution fails an assertion classified `safe`, no execution reaches an assertion
          classified `unreachable` — forward verdicts and forward+backward verdicts (a wrong
          forward+backward verdict where the forward one was not `safe` is also tagged [C11]:
          the discharge came from the necessary preconditions of the backward analysis).

  An execution that leaves the concrete semantics (`undef`: access through null / freed / foreign
  references, never-written cells, pointer arithmetic out of the block, ...) is not counted from
  that point on.  A violation message contains the program point, the state, the initial state
  and the choice stream; the pair is replayed with `RIR.run` before it is reported.

  Lines:  (rprog.run <dom> (params d n t l) (rparams ..) (ivars ..) (bvars b0) (rvars ..) (entry B) (exit B)
             (init (v lo hi)..) (blocks ..)) => (inv (B (pre <facts>) (post <facts>)) ..) (chk (B i vf vb) ..) | err
          (rprog.stat ...)  same replay, reports test-strength figures instead of `ok`
-/
namespace Driver
open Crab Crab.RIR

namespace RProg
open Prog (idxOfName pLin pCst pStmt sectionOf namesOk VerdictK pick inBox boxValues progCandidates)

/-! ### parsing -/

def pRgn : Sexp → Option Nat
  | .atom "g0" => some 0 | .atom "g1" => some 1 | .atom "g2" => some 2
  | .atom "h0" => some 3 | .atom "h1" => some 4
  | _ => none

def NRGN : Nat := 5
def rgnName (g : Nat) : String := ["g0", "g1", "g2", "h0", "h1"].getD g "g?"

def pRef (s : Sexp) : Option Nat := idxOfName "r" s

def pRKind : String → Option RKind
  | "eq" => some .eq | "ne" => some .ne | "le" => some .le | "lt" => some .lt
  | "ge" => some .ge | "gt" => some .gt | _ => none

/-- `(k R null)` and `(k R1 R2 off)`, built like the factory functions `mk_null … mk_ge` do -/
def pRefCst : Sexp → Option RefCst
  | .list [.atom k, p, .atom "null"] => do pure (RefCst.mk' (some (← pRef p)) none 0 (← pRKind k))
  | .list [.atom k, p, q, off] => do
    pure (RefCst.mk' (some (← pRef p)) (some (← pRef q)) (← off.int?) (← pRKind k))
  | _ => none

def pSelArg : Sexp → Option (Option (Nat × Nat))
  | .atom "null" => some none
  | .list [r, g] => do pure (some ((← pRef r), (← pRgn g)))
  | _ => none

def pRStmt (s : Sexp) : Option Stmt :=
  match s with
  | .list [.atom "rinit", g] => do pure (.regionInit (← pRgn g))
  | .list [.atom "mk", r, g, sz, site] => do
    let size ← (match idxOfName "v" sz with
      | some v => some (IR.Operand.var v)
      | none => sz.int?.map IR.Operand.const)
    let site ← site.nat?
    if site ≥ 64 then none else pure (.makeRef (← pRef r) (← pRgn g) size site)
  | .list [.atom "free", g, r] => do pure (.removeRef (← pRgn g) (← pRef r))
  | .list [.atom "ld", d, r, g] => do
    let dst ← (match idxOfName "v" d with
      | some x => some (LoadDst.ivar x)
      | none => (pRef d).map LoadDst.rvar)
    pure (.load dst (← pRef r) (← pRgn g))
  | .list [.atom "st", r, g, v] => do
    let val ← (match v with
      | .atom "null" => some StoreVal.null
      | _ => match idxOfName "v" v, pRef v with
        | some x, _ => some (StoreVal.ivar x)
        | _, some r0 => some (StoreVal.rvar r0)
        | _, _ => v.int?.map StoreVal.const)
    pure (.store (← pRef r) (← pRgn g) val)
  | .list [.atom "gep", r2, g2, r1, g1, off] => do
    pure (.gep (← pRef r2) (← pRgn g2) (← pRef r1) (← pRgn g1) (← pLin off))
  | .list [.atom "rassume", c] => do pure (.assumeRef (← pRefCst c))
  | .list [.atom "rassert", c] => do pure (.assertRef (← pRefCst c))
  | .list [.atom "rcopy", l, r] => do pure (.regionCopy (← pRgn l) (← pRgn r))
  | .list [.atom "r2i", x, r, g] => do pure (.refToInt (← idxOfName "v" x) (← pRef r) (← pRgn g))
  | .list [.atom "i2r", r, g, x] => do pure (.intToRef (← pRef r) (← pRgn g) (← idxOfName "v" x))
  | .list [.atom "sel", r, g, a1, a2] => do
    pure (.selectRef (← pRef r) (← pRgn g) (← pSelArg a1) (← pSelArg a2))
  | _ => (pStmt s).map Stmt.base

structure Parsed where
  prog : Program
  labels : Array String
  box : Array (Bound × Bound)        -- per integer variable
  deriving Inhabited

def parseProgram (args : List Sexp) : Except String Parsed := do
  let some ivars := sectionOf "ivars" args | throw "ivars"
  let some bvars := sectionOf "bvars" args | throw "bvars"
  let some rvars := sectionOf "rvars" args | throw "rvars"
  if !namesOk "v" ivars || !namesOk "r" rvars then throw "variable names"
  if bvars.length != 1 || !namesOk "b" bvars then throw "exactly the boolean b0 is expected"
  let some [.atom entry] := sectionOf "entry" args | throw "entry"
  let exit := match sectionOf "exit" args with | some [.atom e] => e | _ => ""
  let some blocks := sectionOf "blocks" args | throw "blocks"
  let labels : Array String := (blocks.map (fun b => match b with
    | .list (.atom l :: _) => l | _ => "?")).toArray
  let idx (l : String) : Option Nat := labels.toList.idxOf? l
  let mut bs : Array Block := #[]
  for b in blocks do
    match b with
    | .list [.atom l, .list (.atom "stmts" :: ss), .list (.atom "succs" :: succs)] =>
      let mut stmts : List Stmt := []
      for s in ss do
        match pRStmt s with
        | some st => stmts := st :: stmts
        | none => throw s!"statement {s} in {l}"
      let some sx := succs.mapM (fun s => match s with | .atom n => idx n | _ => none) | throw s!"successor of {l}"
      bs := bs.push ⟨stmts.reverse, sx⟩
    | _ => throw "block"
  let some e := idx entry | throw "entry label"
  let x := (idx exit).getD bs.size
  let mut box : Array (Bound × Bound) := Array.replicate ivars.length (Bound.ninf, Bound.pinf)
  for t in (sectionOf "init" args).getD [] do
    match t with
    | .list [v, lo, hi] =>
      match idxOfName "v" v, parseBound lo, parseBound hi with
      | some v, some lo, some hi => box := box.setIfInBounds v (lo, hi)
      | _, _, _ => throw "init"
    | _ => throw "init"
  return { prog := ⟨ivars.length, rvars.length, e, x, bs⟩, labels := labels, box := box }

/-! ### the implementation's answer -/

structure Facts where
  bot : Bool := false
  ivs : Array Itv := #[]
  bv : Itv := Itv.top
  ras : Array Itv := #[]
  rns : Array String := #[]               -- per reference: y n m b
  sites : Array (Option (List Nat)) := #[] -- per reference: x | (s k ...)
  gvs : Array Itv := #[]
  csts : List IR.Cst := []
  deriving Inhabited

def parseSites : Sexp → Option (Option (List Nat))
  | .atom "x" => some none
  | .list (.atom "s" :: xs) => (xs.mapM Sexp.nat?).map some
  | _ => none

def parseFacts : List Sexp → Option Facts
  | [b, .list (.atom "iv" :: ivs), .list [.atom "bv", bv], .list (.atom "ra" :: ras), .list (.atom "rn" :: rns),
     .list (.atom "as" :: as), .list (.atom "gv" :: gvs), .list (.atom "cs" :: cs)] => do
    pure { bot := (← parseBool b), ivs := (← ivs.mapM parseItv).toArray, bv := (← parseItv bv),
           ras := (← ras.mapM parseItv).toArray, rns := (← rns.mapM Sexp.atom?).toArray,
           sites := (← as.mapM parseSites).toArray, gvs := (← gvs.mapM parseItv).toArray,
           csts := (← cs.mapM pCst) }
  | _ => none

def showRef : Rgn.RefVal → String
  | .null => "null"
  | .ptr p => s!"(ptr {rgnName p.rgn} site={p.site % 64} block={p.site} addr={p.addr})"

def showCellVal : Rgn.CellVal → String
  | .int v => toString v
  | .ref r => showRef r

/-- the written cells of a region that are visible (first binding of an address wins) -/
def visibleCells (m : Rgn.Mem) : List (Int × Rgn.CellVal) :=
  let rec go (seen : List Int) : List (Int × Rgn.Cell) → List (Int × Rgn.CellVal)
    | [] => []
    | (a, c) :: rest =>
      if seen.contains a then go seen rest
      else match c.val with
        | some v => (a, v) :: go (a :: seen) rest
        | none => go (a :: seen) rest
  go [] m.cells

def showMem (m : Rgn.Mem) : String :=
  let cs := (visibleCells m).map (fun (a, v) => s!"{a}:{showCellVal v}")
  s!"[{" ".intercalate cs}]"

def showState (p : Program) (σ : RState) : String :=
  let ints := (List.range p.nI).map σ.ints
  let refs := (List.range p.nR).map (fun r => showRef (σ.refs r))
  let mems := (List.range NRGN).filterMap (fun g =>
    if (σ.mems g).cells.isEmpty then none else some s!"{rgnName g}={showMem (σ.mems g)}")
  s!"(iv {ints} b0 {σ.cond} refs {refs} {" ".intercalate mems})"

/-- first exported fact the state violates -/
def violates (p : Program) (f : Facts) (σ : RState) : Option String :=
  if f.bot then some "is_bottom" else
  match (List.range f.ivs.size).find? (fun i => !(f.ivs.getD i Itv.top).contains (σ.ints i)) with
  | some i => some s!"at(v{i})={showItv (f.ivs.getD i Itv.top)}"
  | none =>
  if !f.bv.contains (if σ.cond then 1 else 0) then some s!"at(b0)={showItv f.bv}" else
  match (List.range p.nR).findSome? (fun r =>
      let v := σ.refs r
      let a := v.toInt
      let n := f.rns.getD r "m"
      if !(f.ras.getD r Itv.top).contains a then some s!"at(r{r})={showItv (f.ras.getD r Itv.top)}"
      else if n == "y" && a != 0 then some s!"is_null_ref(r{r})=yes"
      else if n == "n" && a == 0 then some s!"is_null_ref(r{r})=no"
      else if n == "b" then some s!"is_null_ref(r{r})=bottom"
      else match f.sites.getD r none, v with
        | some S, .ptr q => if S.contains (q.site % 64) then none else some s!"get_allocation_sites(r{r})={S}"
        | _, _ => none) with
  | some m => some m
  | none =>
  match (List.range NRGN).findSome? (fun g =>
      let iv := f.gvs.getD g Itv.top
      if iv.lb == .ninf && iv.ub == .pinf then none else
      match (visibleCells (σ.mems g)).find? (fun (_, v) => !iv.contains v.toInt) with
      | some (a, v) => some s!"at({rgnName g})={showItv iv} but the cell at {a} holds {showCellVal v}"
      | none => none) with
  | some m => some m
  | none =>
    let τ := toIR p.nI σ
    match f.csts.find? (fun c => !c.holds τ) with
    | some c => some s!"exported constraint {Prog.showCst c}"
    | none => none

structure Answer where
  pre : Array Facts
  post : Array Facts
  chk : List ((Nat × Nat) × VerdictK × VerdictK)   -- (block, statement) ↦ forward verdict, forward+backward verdict

def pVerdict : String → Option VerdictK
  | "safe" => some .safe | "warning" => some .warning | "error" => some .error
  | "unreachable" => some .unreachable | _ => none

def parseAnswer (pp : Parsed) (res : List Sexp) : Except String Answer := do
  match res with
  | [.list (.atom "inv" :: invs), .list (.atom "chk" :: chks)] =>
    if invs.length != pp.labels.size then throw "number of blocks in inv"
    let mut pre : Array Facts := #[]
    let mut post : Array Facts := #[]
    for (iv, i) in invs.zipIdx do
      match iv with
      | .list [.atom l, .list (.atom "pre" :: a), .list (.atom "post" :: b)] =>
        if pp.labels.getD i "" != l then throw "block order in inv"
        let some a := parseFacts a | throw s!"pre of {l}"
        let some b := parseFacts b | throw s!"post of {l}"
        pre := pre.push a; post := post.push b
      | _ => throw "inv entry"
    let mut chk : List ((Nat × Nat) × VerdictK × VerdictK) := []
    for c in chks do
      match c with
      | .list [.atom l, i, .atom vf, .atom vb] =>
        let some b := pp.labels.toList.idxOf? l | throw "chk label"
        let some i := i.nat? | throw "chk index"
        let some vf := pVerdict vf | throw s!"verdict {vf} of {l}#{i}"
        let some vb := pVerdict vb | throw s!"verdict {vb} of {l}#{i}"
        chk := ((b, i), vf, vb) :: chk
      | _ => throw "chk entry"
    return ⟨pre, post, chk⟩
  | _ => throw "answer shape"

def verdictOf (a : Answer) (b i : Nat) : Option (VerdictK × VerdictK) :=
  (a.chk.find? (fun e => e.1 == (b, i))).map (·.2)

/-- findings of one trace: first [C01], first forward [C02], first forward+backward [C02] -/
structure Finds where
  c1 : Option String := none
  c2f : Option String := none
  c2b : Option String := none

def Finds.any (f : Finds) : Bool := f.c1.isSome || f.c2f.isSome || f.c2b.isSome

def checkEvents (pp : Parsed) (a : Answer) (acc : Finds) (evs : List Event) : Finds :=
  evs.foldl (fun acc ev =>
    let lab (b : Nat) := pp.labels.getD b "?"
    let p := pp.prog
    match ev with
    | .enter b σ =>
      if acc.c1.isSome then acc else
      { acc with c1 := (violates p (a.pre.getD b {}) σ).map (fun f =>
          s!"state {showState p σ} arrives at block {lab b} but the invariant at its entry says {f}") }
    | .leave b σ =>
      if acc.c1.isSome then acc else
      { acc with c1 := (violates p (a.post.getD b {}) σ).map (fun f =>
          s!"state {showState p σ} leaves block {lab b} but the invariant at its exit says {f}") }
    | .check b i σ ok =>
      match verdictOf a b i with
      | none => acc
      | some (vf, vb) =>
        let stmt := (p.block b).stmts.getD i default
        let what := match stmt with | .assertRef _ => "assert_ref" | _ => "assert"
        let msg (mode : String) (v : VerdictK) : Option String :=
          match v with
          | .unreachable => some s!"{mode}: {what} {lab b}#{i} classified unreachable is executed in state {showState p σ}"
          | .safe => if ok then none else some s!"{mode}: {what} {lab b}#{i} classified safe fails in state {showState p σ}"
          | _ => none
        let c2f := acc.c2f <|> msg "forward" vf
        -- a forward+backward verdict that only repeats the wrong forward verdict is one finding
        let c2b := acc.c2b <|> (if vf == vb then none else
          (msg "forward+backward" vb).map (fun m => if vf == .safe then m else "[C11] " ++ m))
        { acc with c2f := c2f, c2b := c2b }
    | .done _ => acc) acc

/-! ### generation of executions -/

/-- every linear constraint occurring in the program (boundary-directed havoc values) -/
def progCsts (p : Program) : Array IR.Cst :=
  (p.blocks.toList.flatMap (fun b => b.stmts.filterMap (fun s => match s with
    | .base (.assume c) => some c | .base (.assert c) => some c | .base (.select _ c _ _) => some c
    | .base (.bassign _ c) => some c | _ => none))).toArray

structure Stats where
  execs : Nat := 0
  ge3 : Nat := 0          -- executions that visited at least 3 blocks
  back : Nat := 0         -- executions that entered a block a second time
  undef : Nat := 0        -- executions that left the concrete semantics (not counted from there on)
  halted : Nat := 0       -- executions that ran to a block without successor
  checks : Nat := 0       -- assertion events
  refChecks : Nat := 0    -- ... of assert_ref statements
  failed : Nat := 0       -- assertion events with a failing assertion
  safeOk : Nat := 0       -- passed checks of assertions classified safe (either analysis)
  visited : Nat := 0      -- block visits
  heapSteps : Nat := 0    -- executed load / store statements
  undefAt : List String := []  -- statement kinds at which executions left the concrete semantics
  deriving Inhabited, Repr

structure Found where
  msg : String
  σ0 : RState
  iv0 : List Int
  b0 : Bool
  stream : List Int
  fuel : Nat

structure Search where
  g : Gen
  visits : Array Nat
  stats : Stats := {}
  c1 : Option Found := none
  c2f : Option Found := none
  c2b : Option Found := none

/-- do the `assume` statements at the front of a block hold in σ? (look-ahead of the search) -/
def leadingAssumesHold (nI : Nat) : List Stmt → RState → Bool
  | .base (.assume c) :: rest, σ => c.holds (toIR nI σ) && leadingAssumesHold nI rest σ
  | .base (.bassume _ neg) :: rest, σ => (σ.cond != neg) && leadingAssumesHold nI rest σ
  | .assumeRef c :: rest, σ => c.holds σ && leadingAssumesHold nI rest σ
  | _, _ => true

def FUEL : Nat := 30
def NEXEC : Nat := 40

def stmtKind : Stmt → String
  | .base _ => "base" | .regionInit _ => "rinit" | .makeRef _ _ _ _ => "mk" | .removeRef _ _ => "free"
  | .load _ _ _ => "ld" | .store _ _ _ => "st" | .gep _ _ _ _ _ => "gep" | .assumeRef _ => "rassume"
  | .assertRef _ => "rassert" | .regionCopy _ _ => "rcopy" | .refToInt _ _ _ => "r2i"
  | .intToRef _ _ _ => "i2r" | .selectRef _ _ _ _ => "sel"

def isHeapStmt : Stmt → Bool
  | .load _ _ _ => true
  | .store _ _ _ => true
  | _ => false

/-- one execution driven online: havoc values from the candidates, successors preferring feasible
    and less visited blocks; records the choice stream.  The checks are made on the fly with
    `checkEvents` on the events of each block. -/
def runOne (stat : Bool) (pp : Parsed) (a : Answer) (csts : Array IR.Cst) (cands : Array Int) (s : Search)
    (iv0 : Array Int) (b0 : Bool) : Search := Id.run do
  let p := pp.prog
  let σ0 := initState iv0 b0
  let mut g := s.g
  let mut visits := s.visits
  let mut σ := σ0
  let mut b := p.entry
  let mut stream : Array Int := #[]
  let mut seen : List Nat := []
  let mut nblocks := 0
  let mut back := false
  let mut fnd : Finds := {}
  let mut isUndef := false
  let mut halted := false
  let mut st := s.stats
  for _ in [0:FUEL] do
    nblocks := nblocks + 1
    if seen.contains b then back := true
    seen := b :: seen
    visits := visits.modify b (· + 1)
    let blk := p.block b
    -- choices for the havocs of this block
    let mut chs : List Int := []
    for stm in blk.stmts do
      match stm with
      | .base (.havoc x) =>
        let (g', j) := pick g cands.size
        g := g'
        let (g', r) := pick g 3
        g := g'
        let (g', dv) := if r == 0 then Prog.directedValue csts g (toIR p.nI σ) x else (g, none)
        g := g'
        chs := chs ++ [dv.getD (cands.getD j 0)]
      | .base (.havocB _) =>
        let (g', j) := pick g 2
        g := g'
        chs := chs ++ [(j : Int)]
      | _ => pure ()
    stream := stream ++ chs.toArray
    let br := runBlock p b σ chs
    let evs : List Event := Event.enter b σ :: br.events ++ (match br.res with | .next σ' => [Event.leave b σ'] | _ => [])
    fnd := checkEvents pp a fnd evs
    if stat then
      -- executed load / store statements of this block (prefix that ran)
      let rec heapRan (ss : List Stmt) (σ : RState) (ch : List Int) (n : Nat) : Nat :=
        match ss with
        | [] => n
        | s0 :: rest =>
          let cc := if s0.usesChoice then IR.popChoice ch else (0, ch)
          match stepStmt p.nI s0 σ cc.1 with
          | .next σ' => heapRan rest σ' cc.2 (n + (if isHeapStmt s0 then 1 else 0))
          | _ => n
      st := { st with heapSteps := st.heapSteps + heapRan blk.stmts σ chs 0 }
    for e in br.events do
      match e with
      | .check bb i _ ok =>
        let isRef := match (p.block bb).stmts.getD i default with | .assertRef _ => true | _ => false
        let safe := match verdictOf a bb i with | some (vf, vb) => vf == .safe || vb == .safe | none => false
        st := { st with checks := st.checks + 1, refChecks := st.refChecks + (if isRef then 1 else 0) }
        st := { st with failed := st.failed + (if ok then 0 else 1), safeOk := st.safeOk + (if ok && safe then 1 else 0) }
      | _ => pure ()
    match br.res with
    | .next σ' =>
      σ := σ'
      -- repeated squaring in a loop: stop before the numbers explode
      if (List.range p.nI).any (fun i => (σ.ints i).natAbs > 2 ^ 256) then break
      match blk.succs with
      | [] => halted := true; break
      | [n] => b := n
      | succs =>
        let (g', r) := pick g 3
        g := g'
        let (g'', j) := pick g succs.length
        g := g''
        let feasible := (List.range succs.length).filter (fun k => leadingAssumesHold p.nI (p.block (succs.getD k 0)).stmts σ)
        let pool := if feasible.isEmpty then List.range succs.length else feasible
        let j := pool.getD (j % pool.length) 0
        let best := pool.foldl (fun m k =>
          if visits.getD (succs.getD k 0) 0 < visits.getD (succs.getD m 0) 0 then k else m) j
        let k := if r == 0 then j else best
        stream := stream.push (k : Int)
        b := succs.getD k 0
    | .undef =>
      isUndef := true
      -- the statement that has no successor: the first one after the prefix that ran
      let rec firstUndef (ss : List Stmt) (σ : RState) (ch : List Int) : String :=
        match ss with
        | [] => "?"
        | s0 :: rest =>
          let cc := if s0.usesChoice then IR.popChoice ch else (0, ch)
          match stepStmt p.nI s0 σ cc.1 with
          | .next σ' => firstUndef rest σ' cc.2
          | _ => stmtKind s0
      st := { st with undefAt := firstUndef blk.stmts σ chs :: st.undefAt }
      break
    | _ => break
  st := { st with execs := st.execs + 1, ge3 := st.ge3 + (if nblocks ≥ 3 then 1 else 0) }
  st := { st with back := st.back + (if back then 1 else 0), undef := st.undef + (if isUndef then 1 else 0) }
  st := { st with halted := st.halted + (if halted then 1 else 0), visited := st.visited + nblocks }
  let stats : Stats := st
  let mk (m : Option String) (old : Option Found) : Option Found :=
    match old, m with
    | some f, _ => some f
    | none, some m => some ⟨m, σ0, iv0.toList, b0, stream.toList, nblocks⟩
    | none, none => none
  return { g := g, visits := visits, stats := stats, c1 := mk fnd.c1 s.c1, c2f := mk fnd.c2f s.c2f, c2b := mk fnd.c2b s.c2b }

/-- initial integers number `k` inside the box: corners first, then random members -/
def initInts (pp : Parsed) (vals : Array (Array Int)) (g : Gen) (k : Nat) : Gen × Array Int × Bool := Id.run do
  let mut g := g
  let mut iv : Array Int := #[]
  for i in [0:pp.prog.nI] do
    let vs := vals.getD i #[0]
    if k < 5 && k < vs.size then
      iv := iv.push (vs.getD k 0)
    else
      let (g', j) := pick g vs.size
      g := g'
      iv := iv.push (vs.getD j 0)
  let (g', j) := pick g 2
  return (g', iv, j == 1)

def search (stat : Bool) (pp : Parsed) (a : Answer) (req : Sexp) : Search := Id.run do
  -- small candidate set: constants of the program and their neighbours, a few fixed values
  let cands := ((progCandidates req).filter (fun k => k.natAbs ≤ 100000))
  let cands := if cands.isEmpty then #[0] else cands
  let csts := progCsts pp.prog
  let seed := (intsOf req).foldl (fun acc k => (acc * 31 + k.natAbs) % 2 ^ 61) (pp.labels.size + 11)
  let vals := pp.box.map (fun b => boxValues b cands)
  let mut s : Search := { g := ⟨seed⟩, visits := Array.replicate pp.labels.size 0 }
  if vals.any (·.isEmpty) then return s
  for k in [0:NEXEC] do
    let (g, iv, b0) := initInts pp vals s.g k
    s := runOne stat pp a csts cands { s with g := g } iv b0
    if s.c1.isSome && s.c2f.isSome && s.c2b.isSome then break
  return s

/-- confirm a finding by replaying (initial state, choice stream) with the reference `RIR.run` -/
def confirm (pp : Parsed) (a : Answer) (f : Found) (which : Nat) : Option String :=
  let tr := RIR.run pp.prog f.fuel f.σ0 f.stream
  let fs := checkEvents pp a {} tr
  let m := match which with | 0 => fs.c1 | 1 => fs.c2f | _ => fs.c2b
  m.map (fun m => s!"{m}; replay: init=(iv {f.iv0} b0 {f.b0}) choices={f.stream}")

def statsLine (st : Stats) : String :=
  s!"execs={st.execs} ge3blocks={st.ge3} backedge={st.back} undef={st.undef} halted={st.halted} blockVisits={st.visited} checks={st.checks} refChecks={st.refChecks} failed={st.failed} safeChecksPassed={st.safeOk} heapSteps={st.heapSteps} undefAt={st.undefAt}"

end RProg

open RProg in
def handleRprog (op : String) (args res : List Sexp) : Verdict :=
  if op != "run" && op != "stat" then .bad s!"rprog.{op}" else
  let dom := match args with | .atom d :: _ => d | _ => "?"
  match res with
  | [.atom "err"] => .skip s!"rprog.{op} {dom}: CRAB_ERROR raised"
  | [_, .list [.atom "inv2", .atom "differs"], _] =>
    .drift s!"rprog.{op} {dom}: the invariants of intra_forward_backward_analyzer differ from those of intra_fwd_analyzer"
  | _ =>
  match parseProgram args with
  | .error e => .bad s!"rprog.{op}: request ({e})"
  | .ok pp =>
    match parseAnswer pp res with
    | .error e => .bad s!"rprog.{op}: answer ({e})"
    | .ok a =>
      let s := search (op == "stat") pp a (.list args)
      let ctx := s!"rprog.run {dom}"
      let conf (f : Option Found) (which : Nat) (tag : String) : Option (Option String) :=
        f.map (fun f => (confirm pp a f which).map (fun m => s!"{tag} {ctx}: {m}"))
      let ms := [conf s.c1 0 "[C01]", conf s.c2f 1 "[C02]", conf s.c2b 2 "[C02]"]
      if ms.any (fun m => m == some none) then .bad s!"{ctx}: a finding of the online search was not confirmed by the replay"
      else
        let found := ms.filterMap (fun m => match m with | some (some x) => some x | _ => none)
        if !found.isEmpty then .unsound (" ;; ".intercalate found)
        else if op == "stat" then .skip ("stat " ++ statsLine s.stats)
        else .ok

end Driver
