import Driver.DomH
import CrabModel.Bwd.BSemantics

/-!
  Handler for component `bwd` (property C11, mechanism R): necessary-precondition analysis.

  * `bwd.run` : the real `necessary_preconditions_fixpoint_iterator` ran on a random CFG.  The
    driver samples concrete states at block entries (forward executions from random initial
    states; arbitrary states as well when the supplied forward invariants are top / absent).
    For every sampled state OUTSIDE the exported precondition of its block it searches
    (`Crab.Bwd.search`) for an execution, consistent with the supplied forward invariants, that
    fails an assertion (error mode) or ends the exit block in a given final state.  A witness
    (re-validated by `Crab.Bwd.replay`) is a concrete failing input of C11.
  * `bwd.op`  : one statement through `intra_necessary_preconditions_abs_transformer::exec`.
    For sampled `σ ⊨ inv`: if `σ →[s] σ'` and `σ' ⊨ post`, or `s` fails from `σ` in error mode,
    then `σ` must satisfy every exported fact of the returned value.
  * `bwd.fb`  : assertions `intra_forward_backward_analyzer` reports safe; a forward execution
    from the entry block that fails such an assertion is a failing input.

  Findings are classified by the shape of the witness (`shape=`); the first two shapes are the
  defects repaired by the `fix:` commits 111ab80 and ac800bc (their minimal inputs are the
  regression lines of corpus/h_bwd/defects.ops, which must be `ok` now):
    `dead-end-assert` the failing assert sits in a block from which the exit is unreachable
                      and no witness exists without such a block (DESIGN.md §4 #8);
    `sdiv-const`      every witness found executes `x := y / k` with a constant `|k| >= 2`
                      (BackwardAssignOps::apply used to invert the division by `y := x * k`);
    `generic`         anything else.
-/
namespace Driver
open Crab Crab.Bwd

namespace BwdH

def blkIdx : Sexp → Option Nat
  | .atom s => if s.startsWith "b" then (s.drop 1).toString.toNat? else none
  | _ => none

def toLin (l : Driver.Lin) : Bwd.Lin := ⟨l.c, l.ts⟩
def toCst (c : Driver.Cst) : Bwd.Cst :=
  ⟨(match c.k with | .le => .le | .lt => .lt | .eq => .eq | .ne => .ne), toLin c.e⟩

def pLin (s : Sexp) : Option Bwd.Lin := (parseLin s).map toLin
def pCst (s : Sexp) : Option Bwd.Cst := (parseCst s).map toCst

def pStmt : Sexp → Option Stmt
  | .list [.atom "assign", x, e] => do pure (.assign (← varIdx x) (← pLin e))
  | .list [.atom "bin", .atom op, x, y, z] => do
    let op ← (match op with
      | "add" => some BinOp.add | "sub" => some BinOp.sub | "mul" => some BinOp.mul | "sdiv" => some BinOp.sdiv
      | _ => none)
    let z ← (match varIdx z with
      | some v => some (Operand.var v)
      | none => z.int?.map Operand.const)
    pure (.bin op (← varIdx x) (← varIdx y) z)
  | .list [.atom "havoc", x] => do pure (.havoc (← varIdx x))
  | .list [.atom "assume", c] => do pure (.assume (← pCst c))
  | .list [.atom "assert", c] => do pure (.assert (← pCst c))
  | .list [.atom "select", x, c, e1, e2] => do pure (.select (← varIdx x) (← pCst c) (← pLin e1) (← pLin e2))
  | _ => none

def pBlock (i : Nat) : Sexp → Option Block
  | .list [.atom "blk", l, .list (.atom "st" :: ss), .list (.atom "succ" :: su)] => do
    if (← blkIdx l) != i then none
    pure ⟨(← ss.mapM pStmt), (← su.mapM blkIdx)⟩
  | _ => none

def pProg : Sexp → Option (Nat × Prog)
  | .list (.atom "prog" :: nv :: en :: ex :: bs) => do
    let blocks ← (List.range bs.length).mapM (fun i => pBlock i (bs.getD i (.atom "?")))
    pure ((← nv.nat?), ⟨blocks, (← blkIdx en), (← blkIdx ex)⟩)
  | _ => none

/-- `(f <isbot> (iv ...) (cs ...))` -/
def pFacts : Sexp → Option SlotFacts
  | .list [.atom "f", b, .list (.atom "iv" :: ivs), .list (.atom "cs" :: cs)] => do
    pure { bot := (← parseBool b), ivs := (← ivs.mapM parseItv), csts := (← cs.mapM parseCst) }
  | _ => none

/-- `((b0 FACTS) (b1 FACTS) ...)` in block order -/
def pFactsList (xs : List Sexp) : Option (Array SlotFacts) := do
  let fs ← (List.range xs.length).mapM (fun i => match xs.getD i (.atom "?") with
    | .list [l, f] => do
      if (← blkIdx l) != i then none
      pFacts f
    | _ => none)
  pure fs.toArray

def ofArr (a : CState) : State := fun i => a.getD i 0
def toArr (nv : Nat) (σ : State) : CState := ((List.range nv).map σ).toArray

def factsViolated (f : SlotFacts) (nv : Nat) (σ : State) : Option String := violates f (toArr nv σ)

def isSdivConst : Stmt → Bool
  | .bin .sdiv _ _ (.const k) => k.natAbs ≥ 2
  | _ => false

/-- candidate concrete values: constants of the request, their neighbours and negations -/
def candVals (req : Sexp) : Array Int :=
  let cs := ((intsOf req).filter (fun k => k.natAbs < 1000)).eraseDups
  let base : List Int := [0, 1, -1, 2, -2, 3]
  -- products (and neighbours) of the first constants: pre-images of multiplications / divisions
  let small := cs.take 6
  let prods := small.flatMap (fun a => small.flatMap (fun b => [a * b, a * b + 1, a * b - 1, -(a * b), 1 - a * b, -(a * b) - 1]))
  (base ++ cs.flatMap (fun k => [k, -k, k + 1, k - 1, 1 - k, -k - 1]) ++ prods).eraseDups.toArray

def pick (cands : Array Int) (g : Gen) : Gen × Int :=
  let (g, r) := g.next
  (g, cands.getD (r % cands.size) 0)

def randState (cands : Array Int) (nv : Nat) (g : Gen) : Gen × CState := Id.run do
  let mut g := g
  let mut a : CState := #[]
  for _ in [0:nv] do
    let (g', v) := pick cands g
    g := g'
    a := a.push v
  return (g, a)

/-- a value inside the interval when it has a finite bound, a random candidate otherwise -/
def insideVal (cands : Array Int) (iv : Itv) (g : Gen) : Gen × Int :=
  let (g, r) := g.next
  match iv.lb, iv.ub with
  | .fin l, .fin u => (g, if l ≤ u then l + (Int.ofNat (r % ((u - l).toNat + 1))) else l)
  | .fin l, _ => (g, l + Int.ofNat (r % 3))
  | _, .fin u => (g, u - Int.ofNat (r % 3))
  | _, _ => (g, cands.getD (r % cands.size) 0)

/-- states just outside a value: one variable 1..3 beyond a finite bound of its interval, the
    other variables inside theirs -/
def boundaryStates (cands : Array Int) (nv : Nat) (f : SlotFacts) (g : Gen) : Gen × List CState := Id.run do
  let mut g := g
  let mut out : List CState := []
  if f.bot then return (g, out)
  for i in [0:nv] do
    let iv := f.ivs.getD i Itv.top
    let outside : List Int :=
      (match iv.lb with | .fin l => [l - 1, l - 2, l - 3] | _ => []) ++
      (match iv.ub with | .fin u => [u + 1, u + 2, u + 3] | _ => [])
    for o in outside do
      let mut a : CState := #[]
      for j in [0:nv] do
        if j == i then a := a.push o
        else
          let (g', v) := insideVal cands (f.ivs.getD j Itv.top) g
          g := g'
          a := a.push v
      out := a :: out
  return (g, out)

/-- one forward execution with random choices; returns the (block, entry state) pairs met -/
def fwdRun (p : Prog) (nv : Nat) (cands : Array Int) (g : Gen) (σ0 : CState) (maxBlocks : Nat) :
    Gen × List (Nat × CState) := Id.run do
  let mut g := g
  let mut out : List (Nat × CState) := []
  let mut n := p.entry
  let mut a := σ0
  for _ in [0:maxBlocks] do
    out := (n, a) :: out
    -- choices for this block: a havoc value per statement is enough
    let mut cs : List Int := []
    for _ in (p.block n).stmts do
      let (g', v) := pick cands g
      g := g'
      cs := v :: cs
    match runStmts (p.block n).stmts (ofArr a) cs with
    | .done σ' _ =>
      let su := (p.block n).succs
      if su.isEmpty then return (g, out)
      let (g', r) := g.next
      g := g'
      n := su.getD (r % su.length) 0
      a := toArr nv σ'
    | _ => return (g, out)
  return (g, out)

/-- statements executed by the replay of a choice stream (for the classification only) -/
def execTrace (p : Prog) : Nat → Nat → State → List Int → List Stmt
  | 0, _, _, _ => []
  | fuel + 1, n, σ, cs =>
    let ss := (p.block n).stmts
    match runStmts ss σ cs with
    | .done σ' cs' =>
      match cs' with
      | [] => ss
      | k :: cs'' => match (p.block n).succs[k.toNat]? with
        | some m => ss ++ execTrace p fuel m σ' cs''
        | none => ss
    | .fail i => ss.take (i + 1)
    | .stuck => ss

structure Found where
  shape : String
  witness : List Int
  what : String

def describeEnd (p : Prog) (fin : State → Bool) (n : Nat) (σ : State) (cs : List Int) : String :=
  -- follow the replay to say how it ends
  let rec go : Nat → Nat → State → List Int → String
    | 0, _, _, _ => "?"
    | fuel + 1, n, σ, cs =>
      match runStmts (p.block n).stmts σ cs with
      | .fail i => s!"fails assert #{i} of block b{n}"
      | .stuck => "gets stuck"
      | .done σ' cs' =>
        if n == p.exit && fin σ' then s!"ends the exit block b{n} in a given final state"
        else match cs' with
          | [] => "stops"
          | k :: cs'' => match (p.block n).succs[k.toNat]? with
            | some m => go fuel m σ' cs''
            | none => "stops"
  go 64 n σ cs

/-- three-tier search from `(n, σ)`; every witness is re-validated by `replay` -/
def findWitness (p : Prog) (invOk : Nat → State → Bool) (err : Bool) (errSel : Nat → Nat → Bool)
    (fin : State → Bool) (finPossible : Bool) (hv : List Int) (n : Nat) (σ : State) : Option Found :=
  let nb := p.blocks.length
  let rx := reachSet p (fun i => i == p.exit) nb
  let reachX := fun i => rx.getD i false
  let mk := fun (errAt : Nat → Nat → Bool) (avoid : Stmt → Bool) =>
    let goalBlock := fun i =>
      (finPossible && i == p.exit) ||
      (err && (List.range (p.block i).stmts.length).any (fun j =>
        ((p.block i).stmts.getD j (.havoc 0)).isAssert && errAt i j))
    let us := reachSet p goalBlock nb
    ({ p := p, invOk := invOk, errAt := errAt, fin := fin, cands := hv,
       useful := fun i => us.getD i false, avoid := avoid } : SearchCfg)
  let errA := fun i j => err && errSel i j && reachX i
  let errC := fun i j => err && errSel i j
  let tryK := fun (k : SearchCfg) (shape : String) =>
    match search k n σ with
    | some w =>
      if replay p invOk k.errAt fin 64 n σ w then
        some { shape := shape, witness := w, what := describeEnd p fin n σ w : Found }
      else some { shape := "SEARCH-REPLAY-MISMATCH", witness := w, what := "replay rejects the witness" }
    | none => none
  match tryK (mk errA isSdivConst) "generic" with
  | some f => some f
  | none =>
    match tryK (mk errA (fun _ => false)) "sdiv-const" with
    | some f =>
      -- the tag is kept only if the witness really executes such a division
      if (execTrace p 64 n σ f.witness).any isSdivConst then some f else some { f with shape := "generic" }
    | none =>
      if err then
        match tryK (mk errC (fun _ => false)) "dead-end-assert" with
        | some f => some f
        | none => none
      else none

def finalPred (nv : Nat) : Sexp → Option ((State → Bool) × Bool)
  | .atom "bot" => some (fun _ => false, false)
  | .atom "top" => some (fun _ => true, true)
  | .list (.atom "box" :: ivs) => do
    let ivs ← ivs.mapM parseItv
    if ivs.length != nv then none
    pure (fun σ => (List.range nv).all (fun i => (ivs.getD i Itv.top).contains (σ i)), true)
  | _ => none

def seedOf (req : Sexp) : Nat :=
  (intsOf req).foldl (fun a k => (a * 31 + k.natAbs + 7) % 2 ^ 61) 12345

def handleRun (dom mode invk : String) (fin prog : Sexp) (res : List Sexp) : Verdict :=
  match res with
  | [.atom "err"] => .skip s!"bwd.run {dom}: CRAB_ERROR raised"
  | [.list (.atom "fwd" :: fwds), .list (.atom "pre" :: pres)] =>
    match pProg prog with
    | none => .bad "bwd.run: program"
    | some (nv, p) =>
    match pFactsList fwds, pFactsList pres, finalPred nv fin with
    | some fwdF, some preF, some (finP, finPossible) =>
      let nb := p.blocks.length
      if fwdF.size != nb || preF.size != nb then .bad "bwd.run: facts per block" else
      if mode != "error" && mode != "good" then .bad "bwd.run: mode" else
      let err := mode == "error"
      let req := Sexp.list [fin, prog]
      let cands := candVals req
      let hv := (cands.toList.take 14)
      let invOk : Nat → State → Bool :=
        if invk == "fwd" then fun n σ => (factsViolated (fwdF.getD n {}) nv σ).isNone else fun _ _ => true
      Id.run do
        let mut g : Gen := ⟨seedOf req⟩
        let mut samples : List (Nat × CState) := []
        -- states met by forward executions from random initial states
        for _ in [0:14] do
          let (g1, a) := randState cands nv g
          let (g2, tr) := fwdRun p nv cands g1 a 24
          g := g2
          samples := tr ++ samples
        -- initial states just outside the precondition of the entry block
        let (g3, bs) := boundaryStates cands nv (preF.getD p.entry {}) g
        g := g3
        for a in bs.take 12 do
          let (g2, tr) := fwdRun p nv cands g a 24
          g := g2
          samples := tr ++ samples
        let reachable := samples.eraseDups
        -- C01 sanity: a forward-reachable state violates the forward invariant handed in
        if invk == "fwd" then
          for (n, a) in reachable do
            match violates (fwdF.getD n {}) a with
            | some f =>
              return .unsound s!"[C01] bwd.run {dom}: state {showState a} reaches the entry of b{n} in a forward execution from the entry block but violates {f} of the forward invariant"
            | none => pure ()
        let mut all := reachable
        if invk != "fwd" then
          for _ in [0:40] do
            let (g1, a) := randState cands nv g
            let (g2, r) := g1.next
            g := g2
            all := (r % nb, a) :: all
          -- states just outside the exported precondition of each block
          for n in [0:nb] do
            let (g1, bs) := boundaryStates cands nv (preF.getD n {}) g
            g := g1
            all := (bs.take 10).map (fun a => (n, a)) ++ all
        all := all.eraseDups
        -- only states outside the exported precondition need a witness
        let mut worst : Option (String × Nat) := none   -- (message, rank) rank 0 generic, 1 sdiv, 2 dead-end
        let mut searched := 0
        for (n, a) in all do
          match violates (preF.getD n {}) a with
          | none => pure ()
          | some fact =>
            if searched ≥ 60 then break
            searched := searched + 1
            let σ := ofArr a
            match findWitness p invOk err (fun _ _ => true) finP finPossible hv n σ with
            | none => pure ()
            | some f =>
              if f.shape == "SEARCH-REPLAY-MISMATCH" then
                return .bad s!"bwd.run: search/replay mismatch at b{n} state {showState a} choices {f.witness}"
              let rank := if f.shape == "generic" then 0 else if f.shape == "sdiv-const" then 1 else 2
              let msg := s!"[C11] bwd.run {dom} mode={mode} inv={invk} shape={f.shape}: state {showState a} at the entry of b{n} is outside the precondition ({fact}) but the execution with choices {f.witness} {f.what}"
              match worst with
              | some (_, r) => if rank < r then worst := some (msg, rank)
              | none => worst := some (msg, rank)
              if rank == 0 then break
        match worst with
        | some (m, _) => return .unsound m
        | none => return .ok
    | _, _, _ => .bad "bwd.run: facts / final"
  | _ => .bad "bwd.run: result"

/-- `bot` or `(cs CST...)` as a predicate (`none` = bottom) -/
def pVal : Sexp → Option (Option (List Bwd.Cst))
  | .atom "bot" => some none
  | .list (.atom "cs" :: cs) => (cs.mapM pCst).map some
  | _ => none

/-- all states over `nv` variables with values in `vals` (capped) -/
def allStates (nv : Nat) (vals : List Int) : List CState :=
  (List.range nv).foldl (fun acc _ => acc.flatMap (fun a => vals.map (fun v => a.push v))) [#[]]

def handleOp (dom mode : String) (nvS stmt post inv : Sexp) (res : List Sexp) : Verdict :=
  match res with
  | [.atom "err"] => .skip s!"bwd.op {dom}: CRAB_ERROR raised"
  | [r] =>
    match nvS.nat?, pStmt stmt, pVal post, pVal inv, pFacts r with
    | some nv, some s, some postV, some (some invC), some facts =>
      let err := mode == "error"
      let req := Sexp.list [stmt, post, inv]
      let cands := candVals req
      -- exhaustive over a small value set, random over the full candidate set
      let small := (cands.toList.take (if nv ≤ 2 then 30 else if nv == 3 then 12 else 7))
      let (_, rnd) := (List.range 300).foldl (fun (g, acc) _ =>
        let (g, a) := randState cands nv g
        (g, a :: acc)) ((⟨seedOf req⟩ : Gen), ([] : List CState))
      let states := (allStates nv small ++ rnd)
      let hvals : List Int := match s with
        | .havoc _ => cands.toList.take 30
        | _ => [0]
      let shape := if isSdivConst s then "sdiv-const" else "generic"
      let bad := states.findSome? (fun a =>
        let σ := ofArr a
        if !(invC.all (·.sat σ)) then none else
        match violates facts a with
        | none => none
        | some fact =>
          hvals.findSome? (fun h =>
            match stepStmt s σ h with
            | .next σ' =>
              match postV with
              | some pc =>
                if pc.all (·.sat σ') then
                  some s!"[C11] bwd.op {dom} mode={mode} shape={shape}: pre-state {showState a} satisfies the forward invariant, its successor {showState (toArr nv σ')} (havoc value {h}) satisfies the post value, but the pre-state violates {fact} of the returned precondition"
                else none
              | none => none
            | .fail =>
              if err then
                some s!"[C11] bwd.op {dom} mode={mode} shape={shape}: pre-state {showState a} satisfies the forward invariant and fails the assertion, but violates {fact} of the returned precondition"
              else none
            | .stuck => none))
      match bad with
      | some m => .unsound m
      | none => .ok
    | _, _, _, some none, _ => .skip "bwd.op: bottom forward invariant (nothing to check)"
    | _, _, _, _, _ => .bad "bwd.op: parse"
  | _ => .bad "bwd.op: result"

def handleFb (dom : String) (prog : Sexp) (res : List Sexp) : Verdict :=
  match res with
  | [.atom "err"] => .skip s!"bwd.fb {dom}: CRAB_ERROR raised"
  | [.list (.atom "safe" :: safes)] =>
    match pProg prog with
    | none => .bad "bwd.fb: program"
    | some (nv, p) =>
      match safes.mapM (fun s => match s with
        | .list [l, i] => do pure ((← blkIdx l), (← i.nat?))
        | _ => none) with
      | none => .bad "bwd.fb: safe list"
      | some safes =>
        if safes.isEmpty then .ok else
        let cands := candVals prog
        let hv := cands.toList.take 14
        Id.run do
          let mut g : Gen := ⟨seedOf prog⟩
          let mut inits : List CState := []
          for _ in [0:16] do
            let (g1, a) := randState cands nv g
            g := g1
            inits := a :: inits
          let mut worst : Option (String × Nat) := none
          for (l, i) in safes do
            for a in inits do
              match findWitness p (fun _ _ => true) true (fun n j => n == l && j == i) (fun _ => false) false hv p.entry (ofArr a) with
              | none => pure ()
              | some f =>
                if f.shape == "SEARCH-REPLAY-MISMATCH" then return .bad "bwd.fb: search/replay mismatch"
                let rank := if f.shape == "generic" then 0 else if f.shape == "sdiv-const" then 1 else 2
                let msg := s!"[C11] bwd.fb {dom} shape={f.shape}: assert #{i} of block b{l} is reported safe by the forward-backward analyser but the execution from the entry block with initial state {showState a} and choices {f.witness} {f.what}"
                match worst with
                | some (_, r) => if rank < r then worst := some (msg, rank)
                | none => worst := some (msg, rank)
                break
          match worst with
          | some (m, _) => return .unsound m
          | none => return .ok
  | _ => .bad "bwd.fb: result"

end BwdH

def handleBwd (op : String) (args res : List Sexp) : Verdict :=
  match op, args with
  | "run", [.atom dom, .atom mode, .atom invk, .list [.atom "final", fin], prog] =>
    BwdH.handleRun dom mode invk fin prog res
  | "op", [.atom dom, .atom mode, nv, stmt, .list [.atom "post", post], .list [.atom "inv", inv]] =>
    BwdH.handleOp dom mode nv stmt post inv res
  | "fb", [.atom dom, prog] => BwdH.handleFb dom prog res
  | _, _ => .bad s!"bwd.{op}"

end Driver
