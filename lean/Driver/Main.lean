import Driver.ItvH
import Driver.FixH
import Driver.DomH
import Driver.WrapH
import Driver.CongH
import Driver.FinH
import Driver.ICH
import Driver.WtoH
import Driver.NumH
import Driver.LinH
import Driver.EnvH
import Driver.WidenH
import Driver.Dom2H
import Driver.CrawlH
import Driver.RgnH
import Driver.ArrH
import Driver.InterH
import Driver.IDomH
import Driver.ProgH
import Driver.ExactH
import Driver.XformH
import Driver.BwdH
import Driver.WIntH
import Driver.InterBUH
import Driver.ZWidenH
import Driver.XDomH
import Driver.RProgH
import Driver.InterTDH
import Driver.ArrXH
import Driver.CrawlCH
import Driver.OWidenH
import Driver.DisH
import Driver.ExactIncrH
import Driver.WDomH

/-!
  crabdrv : line-protocol driver.  Reads cases on stdin, one per line
      (component.op arg ...) => result ...
  evaluates the Lean model (and, on a difference, the property's own predicate) and
  writes one line per *non-ok* case:  `<lineno> <VERDICT> ...`, followed by a final
  `SUMMARY total=<n> ok=<n> skip=<n> unsound=<n> imprecise=<n> drift=<n> bad=<n>`.
-/
namespace Driver

def dispatch (comp op : String) (args res : List Sexp) : Verdict :=
  match comp with
  | "iv" => handleItv op args res
  | "bd" => handleBound op args res
  | "fix" => handleFix op args res
  | "dom" => handleDom op args res
  | "wi" => handleWrap op args res
  | "cg" => handleCong op args res
  | "ic" => handleIC op args res
  | "sgn" => handleSgn op args res
  | "bool" => handleBoolV op args res
  | "cst" => handleCst op args res
  | "wto" => handleWto op args res
  | "num" => handleNum op args res
  | "safe" => handleSafe op args res
  | "lin" => handleLin op args res
  | "env" => handleEnv op args res
  | "pset" => handlePSet op args res
  | "wchain" => handleWChain op args res
  | "dom2" => handleDom2 op args res
  | "crawl" => handleCrawlC op args res
  | "rgn" => handleRgn op args res
  | "arr" => handleArrX op args res
  | "inter" => handleInter3 op args res
  | "zw" => handleZw op args res
  | "ow" => handleOw op args res
  | "dis" => handleDis op args res
  | "wdom" => handleWDom op args res
  | "xdom" => handleXDom op args res
  | "rprog" => handleRprog op args res
  | "idom" => handleIDom op args res
  | "prog" => handleProg op args res
  | "exact" => handleExactBoth op args res
  | "xf" => handleXf op args res
  | "live" => handleLive op args res
  | "bwd" => handleBwd op args res
  | "wint" => handleWInt op args res
  | _ => .bad s!"unknown component {comp}"

def handleLine (line : String) : Verdict :=
  match Sexp.parseLine line with
  | none => .bad "parse"
  | some xs =>
    match Sexp.splitArrow xs with
    | none => .bad "no =>"
    | some ([Sexp.list (Sexp.atom hd :: args)], res) =>
      match hd.splitOn "." with
      | [comp, op] => dispatch comp op args res
      | _ => .bad s!"head {hd}"
    | some _ => .bad "shape"

structure Counts where
  total : Nat := 0
  ok : Nat := 0
  skip : Nat := 0
  unsound : Nat := 0
  imprecise : Nat := 0
  drift : Nat := 0
  bad : Nat := 0

def Counts.add (c : Counts) : Verdict → Counts
  | .ok => { c with total := c.total + 1, ok := c.ok + 1 }
  | .skip _ => { c with total := c.total + 1, skip := c.skip + 1 }
  | .unsound _ => { c with total := c.total + 1, unsound := c.unsound + 1 }
  | .imprecise _ => { c with total := c.total + 1, imprecise := c.imprecise + 1 }
  | .drift _ => { c with total := c.total + 1, drift := c.drift + 1 }
  | .bad _ => { c with total := c.total + 1, bad := c.bad + 1 }

partial def loop (h : IO.FS.Stream) (out : IO.FS.Stream) (n : Nat) (c : Counts) : IO Counts := do
  let line ← h.getLine
  if line.isEmpty then return c
  let t := line.trimAscii.toString
  if t.isEmpty || t.startsWith "#" then loop h out (n + 1) c
  else
    let v := handleLine t
    match v with
    | .ok => pure ()
    | _ => out.putStrLn s!"{n} {v.toString}"
    loop h out (n + 1) (c.add v)

end Driver

def main : IO UInt32 := do
  let stdin ← IO.getStdin
  let stdout ← IO.getStdout
  let c ← Driver.loop stdin stdout 1 {}
  stdout.putStrLn s!"SUMMARY total={c.total} ok={c.ok} skip={c.skip} unsound={c.unsound} imprecise={c.imprecise} drift={c.drift} bad={c.bad}"
  return 0
