import Driver.DomH
import CrabModel.Dom.RegionSem

/-!
  Handler for component `rgn` (property C15, mechanism R): replays a region / reference history
  (harness/h_rgn.cpp) on concrete witness heaps with the formal semantics of
  `CrabModel/Dom/RegionSem.lean` and checks, after every operation, every fact the real
  `region_domain` exported about the modified value:

    * is_bottom, `at(v)` of the integer variables, exported linear constraints over them
      (in particular the variable written by `ref_load`),
    * definite `is_null_ref` answers (yes / no) against every witness,
    * `get_allocation_sites`: the reported set contains the site of every witness's reference,
    * `get_tags`: the reported set contains the tags of every cell of the region.

  A witness for which a step has no successor in the model (load of a never-written cell,
  null / freed / foreign reference, ...) is dropped and not counted.
-/
namespace Driver
namespace RgnHist
open Crab Crab.Rgn

def RNV : Nat := 4
def RNR : Nat := 4
def RNG : Nat := 6
def RNP : Nat := 3
def RCAP : Nat := 24

def rgnIdx : Sexp → Option Nat
  | .atom "g0" => some 0 | .atom "g1" => some 1 | .atom "g2" => some 2
  | .atom "h0" => some 3 | .atom "h1" => some 4 | .atom "u0" => some 5
  | _ => none

def refIdx : Sexp → Option Nat
  | .atom s => if s.startsWith "r" then (s.drop 1).toString.toNat? else none
  | _ => none

def rgnName (g : Nat) : String := ["g0", "g1", "g2", "h0", "h1", "u0"].getD g "g?"

def showRef : RefVal → String
  | .null => "null"
  | .ptr p => s!"(ptr {rgnName p.rgn} site={p.site} addr={p.addr})"

def showCellVal : CellVal → String
  | .int v => toString v
  | .ref r => showRef r

/-- visible content of a region, canonical (sorted by address, shadowed bindings removed) -/
def memCanon (m : Mem) : List (Int × Cell) :=
  let addrs := (m.cells.map (·.1)).eraseDups
  let vis := addrs.filterMap (fun a => (m.cell a).map (fun c => (a, c)))
  (vis.toArray.qsort (fun x y => x.1 < y.1)).toList

def showMem (m : Mem) : String :=
  let cs := (memCanon m).map (fun (a, c) =>
    s!"{a}:{match c.val with | some v => showCellVal v | none => "-"}{if c.tags.isEmpty then "" else s!"#{(c.tags.eraseDups.toArray.qsort (· < ·)).toList}"}")
  let ms := (m.members.toArray.qsort (· < ·)).toList
  s!"[{" ".intercalate cs} | members {ms}]"

/-- canonical text of a witness (also its identity for meet / duplicates) -/
def showRState (σ : State) : String :=
  let ints := (List.range RNV).map σ.ints
  let refs := (List.range RNR).map (fun r => showRef (σ.refs r))
  let mems := (List.range RNG).map (fun g => s!"{rgnName g}={showMem (σ.mems g)}")
  let itg := (List.range RNV).map (fun x => ((σ.itags x).eraseDups.toArray.qsort (· < ·)).toList)
  let rtg := (List.range RNR).map (fun x => ((σ.rtags x).eraseDups.toArray.qsort (· < ·)).toList)
  s!"ints={ints} b0={σ.cond} refs={refs} {" ".intercalate mems} freed={(σ.freed.toArray.qsort (· < ·)).toList} tags={itg}{rtg}"

structure Wit where
  σ : State
  key : String

def mkWit (σ : State) : Wit := ⟨σ, showRState σ⟩

def capW (xs : List Wit) : List Wit :=
  let rec go (seen : List String) (n : Nat) : List Wit → List Wit
    | [] => []
    | w :: ws => if n == 0 then [] else if seen.contains w.key then go seen n ws else w :: go (w.key :: seen) (n - 1) ws
  go [] RCAP xs

def interleaveW : List Wit → List Wit → List Wit
  | [], ys => ys
  | xs, [] => xs
  | x :: xs, y :: ys => x :: y :: interleaveW xs ys

def freshWits (cands : Array Int) (g : Gen) (k : Nat) : Gen × List Wit := Id.run do
  let mut g := g
  let mut out : List Wit := []
  for _ in [0:k] do
    let mut vals : Array Int := #[]
    for _ in [0:RNV] do
      let (g', r) := g.next
      g := g'
      -- mostly small values (allocation sizes, offsets, stored values), sometimes any constant of the history
      let v : Int := if r % 4 != 0 then ((r / 4) % 15 : Nat) - 2 else cands.getD ((r / 4) % cands.size) 0
      vals := vals.push v
    let (g', r) := g.next
    g := g'
    let σ : State := { ints := fun i => vals.getD i 0, itags := fun _ => [], cond := r % 2 == 0,
                       refs := fun _ => .null, rtags := fun _ => [], mems := fun _ => Mem.empty,
                       blocks := [], freed := [] }
    out := mkWit σ :: out
  return (g, out)

def stateArr (σ : State) : CState := ((List.range RNV).map σ.ints).toArray

def linTags (σ : State) (e : Lin) : List Nat := (e.ts.flatMap (fun (_, v) => σ.itags v)).eraseDups

structure RFacts where
  bot : Bool
  ivs : List Itv
  csts : List Cst
  nulls : List String               -- per reference: y n m b
  sites : List (Option (List Nat))  -- per reference
  tags : List (Option (List Nat))   -- per region

def parseNatList (tag : String) : Sexp → Option (Option (List Nat))
  | .atom "x" => some none
  | .list (.atom t :: xs) => if t == tag then (xs.mapM Sexp.nat?).map some else none
  | _ => none

def parseRFacts (r : Sexp) : Option (Nat × RFacts) :=
  match r with
  | .list [.atom "s", d, b, .list (.atom "iv" :: ivs), .list (.atom "cs" :: cs), .list (.atom "rf" :: rfs), .list (.atom "tg" :: tgs)] => do
    let d ← d.nat?; let b ← parseBool b
    let ivs ← ivs.mapM parseItv
    let cs ← cs.mapM parseCst
    let rfs ← rfs.mapM (fun x => match x with
      | .list [.atom n, s] => do pure (n, (← parseNatList "as" s))
      | _ => none)
    let tgs ← tgs.mapM (parseNatList "t")
    pure (d, { bot := b, ivs := ivs, csts := cs, nulls := rfs.map (·.1), sites := rfs.map (·.2), tags := tgs })
  | _ => none

/-- first exported fact a witness violates -/
def rviolates (f : RFacts) (σ : State) : Option String :=
  if f.bot then some "is_bottom" else
  let arr := stateArr σ
  match (List.range f.ivs.length).find? (fun i => !(f.ivs.getD i Itv.top).contains (σ.ints i)) with
  | some i => some s!"at(v{i})={showItv (f.ivs.getD i Itv.top)}"
  | none =>
  match f.csts.find? (fun c => !c.sat arr) with
  | some c => some s!"exported constraint lin c={c.e.c} terms={c.e.ts}"
  | none =>
  match (List.range RNR).findSome? (fun r =>
      let n := f.nulls.getD r "m"
      let isnull := σ.isNull r
      if n == "y" && !isnull then some s!"is_null_ref(r{r})=yes"
      else if n == "n" && isnull then some s!"is_null_ref(r{r})=no"
      else if n == "b" then some s!"is_null_ref(r{r})=bottom"
      else match f.sites.getD r none, σ.refs r with
        | some S, .ptr p => if S.contains p.site then none else some s!"get_allocation_sites(r{r})={S}"
        | _, _ => none) with
  | some m => some m
  | none =>
  (List.range RNG).findSome? (fun g =>
    match f.tags.getD g none with
    | none => none
    | some T =>
      match (memCanon (σ.mems g)).find? (fun (_, c) => c.tags.any (fun t => !T.contains t)) with
      | some (a, c) => some s!"get_tags({rgnName g})={T} but the cell at {a} carries {c.tags.eraseDups}"
      | none => none)

inductive RStoreVal | cst (k : Int) | ivar (x : Nat) | rvar (r : Nat) | null

def parseRStoreVal : Sexp → Option RStoreVal
  | .atom "null" => some .null
  | .atom s =>
    if s.startsWith "v" then ((s.drop 1).toString.toNat?).map .ivar
    else if s.startsWith "r" then ((s.drop 1).toString.toNat?).map .rvar
    else s.toInt?.map .cst
  | _ => none

def selArg (r g : Sexp) : Option (Option (Nat × Nat)) :=
  match r with
  | .atom "null" => some none
  | _ => do pure (some ((← refIdx r), (← rgnIdx g)))

structure RHState where
  g : Gen
  w : Array (List Wit)
  checks : Nat := 0      -- witnesses checked against exported facts
  loads : Nat := 0       -- ref_load operations
  liveLoads : Nat := 0   -- ... with at least one surviving witness
  loadWits : Nat := 0    -- witnesses that performed a load of a written cell
  flow : List (String × Nat × Nat × Nat) := []
  trace : List String := []   -- per op kind: witnesses before / after (stat mode)

/-- why a load / store through `r` in `g` has no successor (stat mode) -/
def accessReason (σ : State) (r g : Nat) (load : Bool) : String :=
  match σ.refs r with
  | .null => "null"
  | .ptr p =>
    if !(σ.mems g).members.contains p.addr then "foreign"
    else if σ.freed.contains p.site then "freed"
    else if !σ.inBlock p.site p.addr then "outofblock"
    else if load && ((σ.mems g).read p.addr).isNone then "unwritten"
    else if load then "type" else "ok"

def mapW (ws : List Wit) (f : State → Option State) : List Wit :=
  capW (ws.filterMap (fun w => (f w.σ).map mkWit))

def handleRgn (op : String) (args res : List Sexp) : Verdict :=
  match args with
  | [.atom dom, .list (.atom "params" :: ps), .list (.atom "ops" :: ops)] =>
    if op != "hist" && op != "stat" then .bad s!"rgn.{op}" else
    let ptxt := " ".intercalate (ps.map toString)
    match res with
    | [.atom "err"] => .skip s!"rgn.hist {dom}: CRAB_ERROR raised during the history"
    | [.list [.atom "err", i, o]] => .skip s!"rgn.hist {dom} params=({ptxt}): CRAB_ERROR raised by op#{i} {o} = {ops.getD (i.nat?.getD 0) (.atom "?")}"
    | [.list [.atom "crash", s]] => .unsound s!"[C15] rgn.hist {dom} params=({ptxt}): the implementation crashed (signal {s}) on a legal history"
    | _ =>
    let req := Sexp.list ops
    let cands := candidates req
    let seed := (intsOf req).foldl (fun a k => (a * 31 + k.natAbs) % 2 ^ 61) (ops.length + 11)
    let (g0, init) := freshWits cands ⟨seed⟩ RCAP
    let st0 : RHState := { g := g0, w := Array.replicate RNP (capW init) }
    let nops := ops.length
    if res.length != nops then .bad s!"rgn.hist: {res.length} results for {nops} ops" else
    let step (acc : Except Verdict RHState) (i : Nat) : Except Verdict RHState := do
      let st ← acc
      let o := ops.getD i (.atom "?")
      let r := res.getD i (.atom "?")
      let some (d, facts) := parseRFacts r | throw (.bad s!"rgn.hist result {i}: {r}")
      let W := fun (k : Nat) => st.w.getD k []
      let badop : Except Verdict (Gen × List Wit) := throw (.bad s!"rgn.hist op {i}: {o}")
      let (g, wd) ← (match o with
        | .list [.atom "top", _] => let (g, ws) := freshWits cands st.g RCAP; pure (g, capW ws)
        | .list [.atom "bot", _] => pure (st.g, [])
        | .list [.atom "copy", _, s] => pure (st.g, W (s.nat?.getD 0))
        | .list (.atom "assume" :: _ :: cs) =>
          match cs.mapM parseCst with
          | some cs => pure (st.g, (W d).filter (fun w => cs.all (·.sat (stateArr w.σ))))
          | none => badop
        | .list [.atom k, _, a, b] =>
          if k == "join" || k == "widen" then pure (st.g, capW (interleaveW (W (a.nat?.getD 0)) (W (b.nat?.getD 0))))
          else if k == "meet" || k == "narrow" then
            let kb := (W (b.nat?.getD 0)).map (·.key)
            pure (st.g, (W (a.nat?.getD 0)).filter (fun w => kb.contains w.key))
          else if k == "assign" then
            match varIdx a, parseLin b with
            | some x, some e => pure (st.g, mapW (W d) (fun σ => some (σ.setInt x (e.eval (stateArr σ)) (linTags σ e))))
            | _, _ => badop
          else if k == "rcopy" then
            match rgnIdx a, rgnIdx b with
            | some l, some rr => pure (st.g, mapW (W d) (fun σ => σ.regionCopy l rr))
            | _, _ => badop
          else if k == "rcast" then
            match rgnIdx a, rgnIdx b with
            | some s, some dd => pure (st.g, mapW (W d) (fun σ => σ.regionCopy dd s))
            | _, _ => badop
          else if k == "free" then
            match rgnIdx a, refIdx b with
            | some gg, some rr => pure (st.g, mapW (W d) (fun σ => σ.refFree gg rr))
            | _, _ => badop
          else if k == "rassume" then
            match a, refIdx b with
            | .atom "null", some rr => pure (st.g, mapW (W d) (fun σ => σ.assumeB (σ.isNull rr)))
            | .atom "nonnull", some rr => pure (st.g, mapW (W d) (fun σ => σ.assumeB (!σ.isNull rr)))
            | .atom "gtnull", some rr => pure (st.g, mapW (W d) (fun σ => σ.assumeB (decide ((σ.refs rr).toInt > 0))))
            | _, _ => badop
          else badop
        | .list [.atom "joineq", _, a] => pure (st.g, capW (interleaveW (W d) (W (a.nat?.getD 0))))
        | .list [.atom "meeteq", _, a] =>
          let kb := (W (a.nat?.getD 0)).map (·.key)
          pure (st.g, (W d).filter (fun w => kb.contains w.key))
        | .list [.atom "forget", _, x] =>
          match varIdx x, refIdx x, rgnIdx x with
          | some x, _, _ => Id.run do
            -- havoc of an integer variable: keep the state, add two variants
            let mut g := st.g
            let mut out : List Wit := []
            for w in W d do
              out := w :: out
              for _ in [0:2] do
                let (g', r) := g.next
                g := g'
                out := mkWit (w.σ.setInt x (cands.getD (r % cands.size) 0) []) :: out
            return pure (g, capW out.reverse)
          | _, some rr, _ => pure (st.g, capW ((W d).flatMap (fun w => [w, mkWit (w.σ.setRef rr .null [])])))
          | _, _, some _ => pure (st.g, W d)   -- the old content is one of the possible contents
          | _, _, _ => badop
        | .list [.atom "bassign", _, c] =>
          match parseCst c with
          | some c => pure (st.g, mapW (W d) (fun σ => some { σ with cond := c.sat (stateArr σ) }))
          | none => badop
        | .list [.atom "rinit", _, gg] =>
          match rgnIdx gg with
          | some gg => pure (st.g, mapW (W d) (fun σ => σ.regionInit gg))
          | none => badop
        | .list [.atom "mk", _, rr, gg, sz, site] =>
          match refIdx rr, rgnIdx gg, site.nat? with
          | some rr, some gg, some site =>
            let szv : State → Option Int := match varIdx sz with
              | some x => fun σ => some (σ.ints x)
              | none => fun _ => sz.int?
            pure (st.g, mapW (W d) (fun σ => match szv σ with | some z => σ.refMake rr gg z site | none => none))
          | _, _, _ => badop
        | .list [.atom "gep", _, r1, g1, r2, g2, off] =>
          match refIdx r1, rgnIdx g1, refIdx r2, rgnIdx g2, parseLin off with
          | some r1, some g1, some r2, some g2, some off =>
            pure (st.g, mapW (W d) (fun σ => σ.refGep r1 g1 r2 g2 (off.eval (stateArr σ))))
          | _, _, _, _, _ => badop
        | .list [.atom "st", _, rr, gg, v] =>
          match refIdx rr, rgnIdx gg, parseRStoreVal v with
          | some rr, some gg, some v =>
            pure (st.g, mapW (W d) (fun σ =>
              let (cv, tg) : CellVal × List Nat := match v with
                | .cst k => (.int k, [])
                | .ivar x => (.int (σ.ints x), σ.itags x)
                | .rvar r0 => (.ref (σ.refs r0), σ.rtags r0)
                | .null => (.ref .null, [])
              σ.refStore rr gg cv tg))
          | _, _, _ => badop
        | .list [.atom "ld", _, rr, gg, dst] =>
          match refIdx rr, rgnIdx gg with
          | some rr, some gg =>
            match varIdx dst, refIdx dst with
            | some x, _ => pure (st.g, mapW (W d) (fun σ => σ.refLoadInt rr gg x))
            | _, some r' => pure (st.g, mapW (W d) (fun σ => σ.refLoadRef rr gg r'))
            | _, _ => badop
          | _, _ => badop
        | .list [.atom "rassume", _, .atom k, a, b] =>
          match refIdx a, refIdx b with
          | some a, some b =>
            if k == "eq" then pure (st.g, mapW (W d) (fun σ => σ.assumeB (σ.refEq a b)))
            else pure (st.g, mapW (W d) (fun σ => σ.assumeB (!σ.refEq a b)))
          | _, _ => badop
        | .list [.atom "sel", _, rr, gg, r1, g1, r2, g2] =>
          match refIdx rr, rgnIdx gg, selArg r1 g1, selArg r2 g2 with
          | some rr, some gg, some a1, some a2 => pure (st.g, mapW (W d) (fun σ => σ.selectRef rr gg a1 a2))
          | _, _, _, _ => badop
        | .list [.atom "addtag", _, gg, rr, t] =>
          match rgnIdx gg, refIdx rr, t.nat? with
          | some gg, some rr, some t => pure (st.g, mapW (W d) (fun σ => σ.addTag gg rr t))
          | _, _, _ => badop
        | _ => badop)
      let ctx := s!"rgn.hist {dom} params=({ptxt}) op#{i} {o}"
      match wd.findSome? (fun w => (rviolates facts w.σ).map (fun f => (w, f))) with
      | some (w, f) => throw (.unsound s!"[C15] {ctx}: witness {w.key} of the concrete semantics violates {f}")
      | none => pure ()
      let isLd := match o with | .list (.atom "ld" :: _) => true | _ => false
      let kind := match o with | .list (.atom k :: _) => k | _ => "?"
      let nin := (W d).length
      let kind := if op != "stat" then kind else
        match o with
        | .list [.atom "ld", _, rr, gg, _] =>
          match refIdx rr, rgnIdx gg with
          | some rr, some gg =>
            if wd.isEmpty then
              match (W d).head? with
              | some w => "ld-" ++ accessReason w.σ rr gg true
              | none => "ld-nowit"
            else "ld-live"
          | _, _ => kind
        | _ => kind
      let flow := if op != "stat" then st.flow else
        match st.flow.find? (·.1 == kind) with
        | some (_, n, a, b) => (kind, n + 1, a + nin, b + wd.length) :: st.flow.filter (·.1 != kind)
        | none => (kind, 1, nin, wd.length) :: st.flow
      pure { st with g := g, flow := flow, trace := if op == "stat" then s!"{kind}@{d}:{nin}>{wd.length}" :: st.trace else [], w := st.w.setIfInBounds d wd, checks := st.checks + wd.length,
                     loads := st.loads + (if isLd then 1 else 0),
                     liveLoads := st.liveLoads + (if isLd && !wd.isEmpty then 1 else 0),
                     loadWits := st.loadWits + (if isLd then wd.length else 0) }
    match (List.range nops).foldl step (.ok st0) with
    | .error v => v
    | .ok st =>
      -- `rgn.stat` : same replay, reports how much was actually checked (test-strength figures)
      if op == "stat" then .skip s!"stat ops={nops} checks={st.checks} loads={st.loads} liveLoads={st.liveLoads} loadWits={st.loadWits} flow={st.flow} trace={st.trace.reverse}"
      else .ok
  | _ => .bad s!"rgn.{op}"

end RgnHist

/-- dispatch entry: `| "rgn" => handleRgn op args res` -/
def handleRgn (op : String) (args res : List Sexp) : Verdict := RgnHist.handleRgn op args res

end Driver
