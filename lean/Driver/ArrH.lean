import Driver.DomH
import CrabModel.Dom.ArraySem

/-!
  Handler for component `arr` (property C14, mechanism R): replays a history of numeric and array
  operations on concrete witness states that contain arrays (`Crab.Dom.Arr` semantics, finite
  representation `FMem`) and checks every fact the real array domain exported after each operation.

    [C14] a witness state of the collecting semantics violates an exported fact: is_bottom, the
          interval of an integer variable (in particular the variable that received an array
          load), an exported linear constraint over the integer variables.

  Witness semantics: a witness that leaves the word-level assumption (negative or unaligned
  offset) or reads a never-written cell is dropped.  A value that received a strong update outside
  the client contract (`astore ... 2`, or a `1` that hits an array with other cells in some witness)
  is tainted: it and everything computed from it is no longer checked.
-/
namespace Driver
open Crab Crab.Dom.Arr

namespace ArrImpl

structure AState where
  iv : Array Int
  ar : Array FMem
  deriving BEq, Inhabited

def AState.show (σ : AState) : String := s!"ints={σ.iv.toList} arrays={σ.ar.toList}"

def ANVARS : Nat := 4
def ANARR : Nat := 2
def ANPOOL : Nat := 3
def ACAP : Nat := 48

def acap (xs : List AState) : List AState := (xs.eraseDups).take ACAP

def ainterleave : List AState → List AState → List AState
  | [], ys => ys
  | xs, [] => xs
  | x :: xs, y :: ys => x :: y :: ainterleave xs ys

def afresh (cands : Array Int) (g : Gen) (k : Nat) : Gen × List AState := Id.run do
  let mut g := g
  let mut out : List AState := []
  for _ in [0:k] do
    let mut σ : Array Int := #[]
    for _ in [0:ANVARS] do
      let (g', r) := g.next
      g := g'
      σ := σ.push (cands.getD (r % cands.size) 0)
    out := { iv := σ, ar := Array.replicate ANARR [] } :: out
  return (g, out)

def ahavoc (cands : Array Int) (g : Gen) (x : Nat) (ws : List AState) : Gen × List AState := Id.run do
  let mut g := g
  let mut out : List AState := []
  for σ in ws do
    out := σ :: out
    for _ in [0:2] do
      let (g', r) := g.next
      g := g'
      out := { σ with iv := σ.iv.setIfInBounds x (cands.getD (r % cands.size) 0) } :: out
  return (g, acap out.reverse)

def arrIdx : Sexp → Option Nat
  | .atom s => if s.startsWith "a" then (s.drop 1).toString.toNat? else none
  | _ => none

/-- offset of a cell, or none when the access leaves the word-level assumption -/
def offOf (e : Nat) (l : Lin) (σ : AState) : Option Nat := alignedOff e (l.eval σ.iv)

def MAXCELLS : Nat := 400

/-- array_init: a fresh array whose cells lb, lb+e, ... ≤ ub hold val -/
def stepInit (e a : Nat) (lb ub val : Lin) (σ : AState) : Option AState := do
  let l ← offOf e lb σ
  let u := ub.eval σ.iv
  if cellCount e l u > MAXCELLS then none else
  pure { σ with ar := σ.ar.setIfInBounds a (FMem.storeRange [] e l u (val.eval σ.iv)) }

def stepRange (e a : Nat) (lb ub val : Lin) (σ : AState) : Option AState := do
  let l ← offOf e lb σ
  let u := ub.eval σ.iv
  if cellCount e l u > MAXCELLS then none else
  pure { σ with ar := σ.ar.setIfInBounds a (FMem.storeRange (σ.ar.getD a []) e l u (val.eval σ.iv)) }

def stepStore (e a : Nat) (i val : Lin) (σ : AState) : Option AState := do
  let o ← offOf e i σ
  pure { σ with ar := σ.ar.setIfInBounds a (FMem.set (σ.ar.getD a []) o (val.eval σ.iv)) }

def stepLoad (e x a : Nat) (i : Lin) (σ : AState) : Option AState := do
  let o ← offOf e i σ
  let v ← FMem.get (σ.ar.getD a []) o
  pure { σ with iv := σ.iv.setIfInBounds x v }

def stepAssign (a b : Nat) (σ : AState) : AState :=
  { σ with ar := σ.ar.setIfInBounds a (σ.ar.getD b []) }

/-- is the strong update legal in this witness: the array has no other cell than the one written -/
def strongLegal (e a : Nat) (i : Lin) (σ : AState) : Bool :=
  match offOf e i σ with
  | none => true
  | some o => (σ.ar.getD a []).all (fun kv => kv.1 == o)

def isLoad : Sexp → Bool
  | .list (.atom "aload" :: _) => true
  | .list (.atom "lcheck" :: _) => true
  | _ => false

def parseArrFacts (r : Sexp) : Option (Nat × SlotFacts) :=
  match r with
  | .list [.atom "s", d, b, .list (.atom "iv" :: ivs), .list (.atom "cs" :: cs)] => do
    let d ← d.nat?; let b ← parseBool b
    let ivs ← ivs.mapM parseItv
    let cs ← cs.mapM parseCst
    pure (d, { bot := b, ivs := ivs, csts := cs })
  | _ => none

structure ArrHState where
  g : Gen
  w : Array (List AState)
  taint : Array Bool
  checks : Nat := 0
  loads : Nat := 0     -- witnesses on which an array load was checked

def replayArr (dom : String) (par : List Sexp) (e0 e1 : Nat) (ops res : List Sexp) : Verdict :=
    if e0 == 0 || e1 == 0 then .bad "arr.hist: element size 0" else
    let esz := fun (a : Nat) => if a == 0 then e0 else e1
    let req := Sexp.list ops
    let cands := candidates req
    let seed := (intsOf (Sexp.list (par ++ ops))).foldl (fun a k => (a * 31 + k.natAbs) % 2 ^ 61) (ops.length + 11)
    let (g0, init) := afresh cands ⟨seed⟩ ACAP
    let st0 : ArrHState := { g := g0, w := Array.replicate ANPOOL init, taint := Array.replicate ANPOOL false }
    let nops := ops.length
    if res.length != nops then .bad s!"arr.hist: {res.length} results for {nops} ops" else
    let step (acc : Except Verdict ArrHState) (i : Nat) : Except Verdict ArrHState := do
      let st ← acc
      let o := ops.getD i (.atom "?")
      let r := res.getD i (.atom "?")
      let some (d, facts) := parseArrFacts r | throw (.bad s!"arr.hist result {i}")
      let W := fun (k : Nat) => st.w.getD k []
      let T := fun (k : Nat) => st.taint.getD k false
      let ctx := s!"arr.hist {dom} par={par} esz=({e0} {e1}) op#{i} {o}"
      -- (generator, witnesses, taint of the result)
      let (g, wd, td) ← (match o with
        | .list [.atom "top", _] => let (g, ws) := afresh cands st.g ACAP; pure (g, ws, false)
        | .list [.atom "copy", _, s] => let s := s.nat?.getD 0; pure (st.g, W s, T s)
        | .list [.atom "join", _, a, b] =>
          let a := a.nat?.getD 0; let b := b.nat?.getD 0
          pure (st.g, acap (ainterleave (W a) (W b)), T a || T b)
        | .list [.atom "widen", _, a, b] =>
          let a := a.nat?.getD 0; let b := b.nat?.getD 0
          pure (st.g, acap (ainterleave (W a) (W b)), T a || T b)
        | .list [.atom "meet", _, a, b] =>
          let a := a.nat?.getD 0; let b := b.nat?.getD 0
          pure (st.g, (W a).filter (fun σ => (W b).contains σ), T a || T b)
        | .list [.atom "assign", _, x, e] =>
          match varIdx x, parseLin e with
          | some x, some e => pure (st.g, (W d).map (fun σ => { σ with iv := σ.iv.setIfInBounds x (e.eval σ.iv) }), T d)
          | _, _ => throw (.bad "assign")
        | .list [.atom "aassign", _, x, y] =>
          match arrIdx x, arrIdx y with
          | some x, some y => pure (st.g, (W d).map (stepAssign x y), T d)
          | _, _ => throw (.bad "aassign")
        | .list (.atom "assume" :: _ :: cs) =>
          match cs.mapM parseCst with
          | some cs => pure (st.g, (W d).filter (fun σ => cs.all (·.sat σ.iv)), T d)
          | none => throw (.bad "assume")
        | .list [.atom "forget", _, x] =>
          let (g, ws) := ahavoc cands st.g ((varIdx x).getD 0) (W d)
          pure (g, ws, T d)
        | .list [.atom "range", _, x, lo, hi] =>
          match varIdx x, lo.int?, hi.int? with
          | some x, some lo, some hi =>
            let n := (hi - lo + 1).toNat
            if n > 64 then throw (.bad "range too wide") else
            -- fair cut: all pairs (witness, value) when they fit; otherwise round r gives witness j the value
            -- (j + r) mod n, so that every value and every witness (hence both operands of an earlier join)
            -- stay represented under the cap (a value-major order would keep only the first values)
            let wl := W d
            let m := wl.length
            let set := fun (σ : AState) (k : Nat) => { σ with iv := σ.iv.setIfInBounds x (lo + (k : Int)) }
            let ws := if m * n ≤ ACAP then wl.flatMap (fun σ => (List.range n).map (set σ))
              else (List.range ((ACAP + m - 1) / (max m 1) + 1)).flatMap (fun r =>
                     (List.range m).map (fun j => set (wl.getD j default) ((j + r) % n)))
            pure (st.g, acap ws, T d)
          | _, _, _ => throw (.bad "range")
        | .list [.atom "ainit", _, a, lb, ub, v] =>
          match arrIdx a, parseLin lb, parseLin ub, parseLin v with
          | some a, some lb, some ub, some v => pure (st.g, (W d).filterMap (stepInit (esz a) a lb ub v), T d)
          | _, _, _, _ => throw (.bad "ainit")
        | .list [.atom "arange", _, a, lb, ub, v] =>
          match arrIdx a, parseLin lb, parseLin ub, parseLin v with
          | some a, some lb, some ub, some v => pure (st.g, (W d).filterMap (stepRange (esz a) a lb ub v), T d)
          | _, _, _, _ => throw (.bad "arange")
        | .list [.atom "astore", _, a, ix, v, flag] =>
          match arrIdx a, parseLin ix, parseLin v, flag.nat? with
          | some a, some ix, some v, some flag =>
            let illegal := flag == 2 || (flag == 1 && (W d).any (fun σ => !strongLegal (esz a) a ix σ))
            pure (st.g, (W d).filterMap (stepStore (esz a) a ix v), T d || illegal)
          | _, _, _, _ => throw (.bad "astore")
        | .list [.atom "aload", _, x, a, ix] =>
          match varIdx x, arrIdx a, parseLin ix with
          | some x, some a, some ix => pure (st.g, (W d).filterMap (stepLoad (esz a) x a ix), T d)
          | _, _, _ => throw (.bad "aload")
        | .list [.atom "lcheck", _, x, a, ix, v] =>
          match varIdx x, arrIdx a, parseLin ix, parseLin v with
          | some x, some a, some ix, some v =>
            -- the load that follows a store returns the stored value (sanity of the replay itself)
            let ws := (W d).filterMap (fun σ => (stepLoad (esz a) x a ix σ).map (fun σ' => (σ, σ')))
            match ws.find? (fun (σ, σ') => σ'.iv.getD x 0 != v.eval σ.iv) with
            | some (σ, _) => throw (.bad s!"{ctx}: replay: load after store does not return the stored value in {σ.show}")
            | none => pure (st.g, ws.map (·.2), T d)
          | _, _, _, _ => throw (.bad "lcheck")
        | _ => throw (.bad s!"arr.hist op {i}: {o}"))
      -- C14: every witness of the collecting semantics satisfies every exported fact
      if !td then
        match wd.findSome? (fun σ => (violates facts σ.iv).map (fun f => (σ, f))) with
        | some (σ, f) => throw (.unsound s!"[C14] {ctx}: witness state {σ.show} of the collecting semantics violates {f}")
        | none => pure ()
      pure { st with g := g, w := st.w.setIfInBounds d wd, taint := st.taint.setIfInBounds d td,
                     checks := st.checks + (if td then 0 else wd.length),
                     loads := st.loads + (if td || !isLoad o then 0 else wd.length) }
    match (List.range nops).foldl step (.ok st0) with
    | .error v => v
    | .ok st => if st.loads == 0 then .skip s!"arr.hist {dom}: no array load was checked on a witness" else .ok

end ArrImpl
open ArrImpl

def handleArr (op : String) (args res : List Sexp) : Verdict :=
  match op, args with
  | "hist", [.atom dom, .list (.atom "par" :: par), .list [.atom "esz", e0, e1], .list (.atom "ops" :: ops)] =>
    match res with
    | [.atom "err"] => .skip s!"arr.hist {dom}: CRAB_ERROR raised during the history"
    | _ =>
      match e0.nat?, e1.nat? with
      | some e0, some e1 => replayArr dom par e0 e1 ops res
      | _, _ => .bad "arr.hist esz"
  | _, _ => .bad s!"arr.{op}"

end Driver
