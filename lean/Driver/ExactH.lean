import Driver.Common
import CrabModel.Dom.Zones
import CrabModel.Dom.Octagon
import CrabModel.Dom.ItvEnv
import CrabModel.Dom.ZonesOps
import CrabModel.Dom.OctagonOps
import CrabModel.Dom.ItvEnvOps

/-!
  Handler for component `exact` (property C12): replays a history of in-language constraints,
  copies, joins, meets and forgets on the canonical Lean model of the domain's kind
  (`itv` = interval environment, `zone` = closed DBM, `oct` = tightly closed octagon DBM) and
  compares EVERYTHING the implementation exported after every step with the model:

   * `is_bottom`     : non-bottom on an unsatisfiable conjunction = IMPRECISE,
                       bottom on a satisfiable one = UNSOUND (witness = a state of the model's γ)
   * `iv` (operator[]): must equal the model's tight bounds (wider = IMPRECISE, narrower = UNSOUND
                       with a state of γ outside the reported interval)
   * `at` (const at()): must contain the model's bounds (UNSOUND otherwise); it is only required to
                       be tight when the request called `normalize()` after the operation
   * `entails(c)`    : yes where the model says "not implied" = UNSOUND (witness: a state of γ
                       violating c), no where implied = IMPRECISE
   * `a <= b`        : same against the model's inclusion (exact equality: the model's test is
                       proved exact, `C04.zones_leq_iff`, `C04.oct_leq_iff` on the coherent values
                       every history produces, `C04.itvenv_leq_iff`).

  The assignments expressible in the language (`assignc` x := k, `assignv` x := y + k,
  `assignn` x := -y + k), `project` and `forgetv` are replayed with the operations of
  `CrabModel/Dom/{ZonesOps,OctagonOps,ItvEnvOps}.lean`, proved to be the exact post-images
  (`C03.zones_stmt_exact`, `C03.oct_stmt_exact`, `C03.itvenv_stmt_exact`), so the same per-step
  comparison ties `assign` / `project` / `forget(vector)` of the shipped domains to the model.

  Zone / interval witnesses come from the proved constructions (`Zones.witnessEdge`); octagon
  witnesses from a labelling search and are re-checked against the raw constraints.  For octagons
  with ≤ 3 variables the model's own tight closure is cross-checked by brute force over a small box
  (messages tagged `[model-test]`: they are findings about the MODEL, not about crab).
-/
namespace Driver
namespace Exact
open Crab Crab.Dbm

inductive CK | ub | lb | diff | sum | nsum deriving BEq, Repr, Inhabited

structure PCst where
  k : CK
  x : Nat
  y : Nat
  c : Int
  deriving Inhabited

def PCst.toStr (c : PCst) : String :=
  match c.k with
  | .ub => s!"v{c.x} <= {c.c}"
  | .lb => s!"-v{c.x} <= {c.c}"
  | .diff => s!"v{c.x} - v{c.y} <= {c.c}"
  | .sum => s!"v{c.x} + v{c.y} <= {c.c}"
  | .nsum => s!"-v{c.x} - v{c.y} <= {c.c}"

def PCst.term (c : PCst) (σ : Array Int) : Int :=
  let X := σ.getD c.x 0; let Y := σ.getD c.y 0
  match c.k with
  | .ub => X | .lb => -X | .diff => X - Y | .sum => X + Y | .nsum => -X - Y

def PCst.holds (c : PCst) (σ : Array Int) : Bool := c.term σ ≤ c.c

def vIdx : Sexp → Option Nat
  | .atom s => if s.startsWith "v" then (s.drop 1).toString.toNat? else none
  | _ => none

/-- a request constraint; an equality is the conjunction of two inequalities -/
def parsePCst : Sexp → Option (List PCst)
  | .list [.atom k, x, c] => do
    let x ← vIdx x; let c ← c.int?
    match k with
    | "ub" => some [⟨.ub, x, x, c⟩]
    | "lb" => some [⟨.lb, x, x, c⟩]
    | "equ" => some [⟨.ub, x, x, c⟩, ⟨.lb, x, x, -c⟩]
    | _ => none
  | .list [.atom k, x, y, c] => do
    let x ← vIdx x; let y ← vIdx y; let c ← c.int?
    match k with
    | "diff" => some [⟨.diff, x, y, c⟩]
    | "sum" => some [⟨.sum, x, y, c⟩]
    | "nsum" => some [⟨.nsum, x, y, c⟩]
    | "eqd" => some [⟨.diff, x, y, c⟩, ⟨.diff, y, x, -c⟩]
    | "eqs" => some [⟨.sum, x, y, c⟩, ⟨.nsum, x, y, -c⟩]
    | _ => none
  | _ => none

/-- the operations of a reference model, on raw values (`closeQ` gives the closed form on which
    the `*C` queries are evaluated) -/
structure Model (α : Type) where
  top : α
  assume : α → PCst → Option α
  join : α → α → α
  meet : α → α → α
  forget : α → Nat → α
  /-- `x := k` -/
  assignCst : α → Nat → Int → α
  /-- `x := y + k` (`none`: outside the model's language) -/
  assignVar : α → Nat → Nat → Int → Option α
  /-- `x := -y + k` -/
  assignNeg : α → Nat → Nat → Int → Option α
  /-- `forget(vars)` -/
  forgetAll : α → List Nat → α
  /-- `project(vars)` -/
  project : α → List Nat → α
  closeQ : α → α
  isBottomC : α → Bool
  boundsC : α → Nat → Itv
  entailsC : α → PCst → Option Bool
  /-- some state of γ (argument: raw value) -/
  witness : α → Option (Array Int)
  /-- a state of γ violating the constraint -/
  witnessNot : α → PCst → Option (Array Int)
  leq : α → α → Bool
  leqWitness : α → α → Option (Array Int)
  selfTest : α → Option String

def stateArr {n : Nat} (σ : Fin n → Int) : Array Int := Array.ofFn σ

/-- the in-range variables of a request list -/
def finList (n : Nat) (xs : List Nat) : List (Fin n) :=
  xs.filterMap fun x => if h : x < n then some ⟨x, h⟩ else none

-- ------------------------------------------------------------------ intervals
section Itv
variable {n : Nat}
open ItvEnv

def itvCst (c : PCst) : Option (ItvEnv.Cst n) :=
  if h : c.x < n then
    match c.k with
    | .ub => some (.ub ⟨c.x, h⟩ c.c)
    | .lb => some (.lb ⟨c.x, h⟩ c.c)
    | _ => none
  else none

def pickIn (i : Crab.Itv) : Int :=
  match i.lb, i.ub with
  | .fin l, _ => l
  | _, .fin u => u
  | _, _ => 0

def itvWitness (e : Env n) : Option (Array Int) :=
  if ItvEnv.isBottom e then none else some (stateArr fun x => pickIn (ItvEnv.get e x))

def itvWitnessNot (e : Env n) (c : PCst) : Option (Array Int) :=
  if ItvEnv.isBottom e then none else
  some (stateArr fun x =>
    let i := ItvEnv.get e x
    if x.val = c.x then
      match c.k with
      | .ub => (match i.ub, i.lb with       -- want x > c.c
                | .fin u, _ => u
                | _, .fin l => if l ≤ c.c then c.c + 1 else l
                | _, _ => c.c + 1)
      | _ => (match i.lb, i.ub with         -- want -x > c.c, i.e. x < -c.c
                | .fin l, _ => l
                | _, .fin u => if -c.c ≤ u then -c.c - 1 else u
                | _, _ => -c.c - 1)
    else pickIn i)

def itvLeq (a b : Env n) : Bool :=
  ItvEnv.isBottom a || (!ItvEnv.isBottom b && (List.finRange n).all fun x => Crab.Itv.leq (ItvEnv.get a x) (ItvEnv.get b x))

def itvModel (n : Nat) : Model (Env n) where
  top := ItvEnv.top
  assume := fun e c => (itvCst c).map (ItvEnv.assumeCst e)
  join := ItvEnv.join
  meet := ItvEnv.meet
  forget := fun e x => if h : x < n then ItvEnv.forget e ⟨x, h⟩ else e
  assignCst := fun e x k => if h : x < n then ItvEnv.assignCst e ⟨x, h⟩ k else e
  assignVar := fun _ _ _ _ => none
  assignNeg := fun _ _ _ _ => none
  forgetAll := fun e xs => (finList n xs).foldl ItvEnv.forget e
  project := fun e xs => ((List.finRange n).filter fun x => !(finList n xs).contains x).foldl ItvEnv.forget e
  closeQ := id
  isBottomC := ItvEnv.isBottom
  boundsC := fun e x => if h : x < n then ItvEnv.bounds e ⟨x, h⟩ else Crab.Itv.top
  entailsC := fun e c => (itvCst c).map (ItvEnv.entails e)
  witness := itvWitness
  witnessNot := itvWitnessNot
  leq := fun a b => itvLeq a b && ItvEnv.leq a b      -- the two formulations agree (`ItvEnv.leq` is the proved one)
  leqWitness := fun a b =>
    if ItvEnv.isBottom b then itvWitness a else
    (List.finRange n).findSome? fun x =>
      let ia := ItvEnv.get a x; let ib := ItvEnv.get b x
      if Crab.Itv.leq ia ib then none
      else if Bound.lt ia.lb ib.lb then
        (match ib.lb with | .fin l => itvWitnessNot a ⟨.lb, x.val, x.val, -l⟩ | _ => none)
      else (match ib.ub with | .fin u => itvWitnessNot a ⟨.ub, x.val, x.val, u⟩ | _ => none)
  selfTest := fun _ => none

end Itv

-- ------------------------------------------------------------------ zones
section Zone
variable {n : Nat}
open Zones

def zoneCst (c : PCst) : Option (Zones.Cst n) :=
  if hx : c.x < n then
    match c.k with
    | .ub => some (.ub ⟨c.x, hx⟩ c.c)
    | .lb => some (.lb ⟨c.x, hx⟩ c.c)
    | .diff => if hy : c.y < n then some (.diff ⟨c.x, hx⟩ ⟨c.y, hy⟩ c.c) else none
    | _ => none
  else none

def zoneWitness (z : Zone n) : Option (Array Int) :=
  if Zones.isBottom z then none else some (stateArr (Zones.witnessEdge z 0 0))

def zoneWitnessNot (z : Zone n) (c : PCst) : Option (Array Int) :=
  if Zones.isBottom z then none else
  match (zoneCst c : Option (Zones.Cst n)) with
  | some k => some (stateArr (Zones.witnessEdge z k.row k.bound))
  | none => none

/-- the first entry of `b` that `a` does not entail -/
def zoneLeqCex (a b : Zone n) : Option (Fin (n + 1) × Fin (n + 1) × Int) :=
  let ca := Zones.close a
  (List.finRange (n + 1)).findSome? fun i => (List.finRange (n + 1)).findSome? fun j =>
    match b.get i j with
    | some k => if W.le (ca.get i j) (some k) then none else some (i, j, k)
    | none => none

def zoneModel (n : Nat) : Model (Zone n) where
  top := Zones.top
  assume := fun z c => (zoneCst c).map (Zones.assumeCst z)
  join := Zones.join
  meet := Zones.meet
  forget := fun z x => if h : x < n then Zones.forget z ⟨x, h⟩ else z
  assignCst := fun z x k => if h : x < n then Zones.assignCst z ⟨x, h⟩ k else z
  assignVar := fun z x y k =>
    if hx : x < n then if hy : y < n then some (Zones.assignVar z ⟨x, hx⟩ ⟨y, hy⟩ k) else none else none
  assignNeg := fun _ _ _ _ => none
  forgetAll := fun z xs => Zones.forgetAll z (finList n xs)
  project := fun z xs => Zones.project z (finList n xs)
  closeQ := Zones.close
  isBottomC := Zones.isBottomC
  boundsC := fun c x => if h : x < n then Zones.boundsC c ⟨x, h⟩ else Crab.Itv.top
  entailsC := fun c k => (zoneCst k).map (Zones.entailsC c)
  witness := zoneWitness
  witnessNot := zoneWitnessNot
  leq := Zones.leq
  leqWitness := fun a b =>
    if Zones.isBottom a then none else
    match zoneLeqCex a b with
    | some (i, _, k) => some (stateArr (Zones.witnessEdge a i k))
    | none => none
  selfTest := fun _ => none

end Zone

-- ------------------------------------------------------------------ octagons
section Oct
variable {n : Nat}
open Octagon

def octCst (c : PCst) : Option (Octagon.Cst n) :=
  if hx : c.x < n then
    if hy : c.y < n then
      let X : Fin n := ⟨c.x, hx⟩; let Y : Fin n := ⟨c.y, hy⟩
      match c.k with
      | .ub => some (.ub X c.c)
      | .lb => some (.lb X c.c)
      | .diff => some (.diff X Y c.c)
      | .sum => some (.sum X Y c.c)
      | .nsum => some (.nsum X Y c.c)
    else none
  else none

/-- integer point by labelling, re-checked against the raw matrix -/
def octPoint (o : Oct n) : Option (Array Int) :=
  match Octagon.findPoint o with
  | some σ => if Octagon.holds o σ then some (stateArr σ) else none
  | none => none

def octWitnessNot (o : Oct n) (c : PCst) : Option (Array Int) :=
  match (octCst c : Option (Octagon.Cst n)) with
  | some k =>
    -- negation of `v row - v col ≤ b` over the integers: `v col - v row ≤ -b - 1`
    octPoint (Octagon.addEdge2 o k.col k.row (-k.bound - 1))
  | none => none

def octLeqCex (a b : Oct n) : Option (Fin (2 * n) × Fin (2 * n) × Int) :=
  let ca := Octagon.close a
  (List.finRange (2 * n)).findSome? fun i => (List.finRange (2 * n)).findSome? fun j =>
    match b.get i j with
    | some k => if W.le (ca.get i j) (some k) then none else some (i, j, k)
    | none => none

/-- all states of the box `[-B, B]^n` -/
def boxStates (n : Nat) (B : Int) : List (Array Int) :=
  let vals : List Int := (List.range (2 * B.toNat + 1)).map fun (k : Nat) => (k : Int) - B
  (List.range n).foldl (fun acc _ => acc.flatMap fun σ => vals.map fun v => σ.push v) [#[]]

/-- brute-force cross-check of the model's tight closure on a small box (a test of the MODEL) -/
def octSelfTest (o : Oct n) : Option String :=
  if n = 0 || n > 3 then none else
  let S := Mat.absSum o
  let B := S + 1
  if (2 * B + 1) ^ n > 3000 then none else
  let c := Octagon.close o
  let pts := (boxStates n B).filter fun σ => Octagon.holds o (fun x => σ.getD x.val 0)
  let ptsF : List (Fin n → Int) := pts.map fun σ => (fun x => σ.getD x.val 0)
  -- soundness of the closure
  match ptsF.find? (fun σ => !Octagon.holds c σ) with
  | some σ => some s!"tight closure excludes the solution {(stateArr σ).toList}"
  | none =>
    if Octagon.isBottomC c then
      none
    else if pts.isEmpty then some s!"closure is consistent but the box [-{B},{B}]^{n} has no solution"
    else
      -- every finite entry is attained
      (List.finRange (2 * n)).findSome? fun i => (List.finRange (2 * n)).findSome? fun j =>
        match c.get i j with
        | some k =>
          if i = j then none
          else if ptsF.any (fun σ => Octagon.ext σ i - Octagon.ext σ j == k) then none
          else some s!"closed entry ({i.val},{j.val}) = {k} is not attained in the box [-{B},{B}]^{n}"
        | none => none

def octModel (n : Nat) : Model (Oct n) where
  top := Octagon.top
  assume := fun o c => (octCst c).map (Octagon.assumeCst o)
  join := Octagon.join
  meet := Octagon.meet
  forget := fun o x => if h : x < n then Octagon.forget o ⟨x, h⟩ else o
  assignCst := fun o x k => if h : x < n then Octagon.assignCst o ⟨x, h⟩ k else o
  assignVar := fun o x y k =>
    if hx : x < n then if hy : y < n then some (Octagon.assignVar o ⟨x, hx⟩ ⟨y, hy⟩ k) else none else none
  assignNeg := fun o x y k =>
    if hx : x < n then if hy : y < n then some (Octagon.assignNeg o ⟨x, hx⟩ ⟨y, hy⟩ k) else none else none
  forgetAll := fun o xs => Octagon.forgetAll o (finList n xs)
  project := fun o xs => Octagon.project o (finList n xs)
  closeQ := Octagon.close
  isBottomC := Octagon.isBottomC
  boundsC := fun c x => if h : x < n then Octagon.boundsC c ⟨x, h⟩ else Crab.Itv.top
  entailsC := fun c k => (octCst k).map (Octagon.entailsC c)
  witness := octPoint
  witnessNot := octWitnessNot
  leq := Octagon.leq
  leqWitness := fun a b =>
    match octLeqCex a b with
    | some (i, j, k) => octPoint (Octagon.addEdge2 a j i (-k - 1))
    | none => none
  selfTest := octSelfTest

end Oct

-- ------------------------------------------------------------------ replay
def showW (w : Option (Array Int)) : String :=
  match w with
  | some σ => s!"witness state {σ.toList}"
  | none => "no witness state constructed"

structure Acc where
  unsound : Option String := none
  imprecise : Option String := none
  drift : Option String := none

def Acc.addU (a : Acc) (m : String) : Acc := if a.unsound.isSome then a else { a with unsound := some m }
def Acc.addI (a : Acc) (m : String) : Acc := if a.imprecise.isSome then a else { a with imprecise := some m }
def Acc.addD (a : Acc) (m : String) : Acc := if a.drift.isSome then a else { a with drift := some m }

/-- compare an exported interval with the model's tight one.
    `tight = false`: only soundness is required. -/
def cmpItv {α : Type} (M : Model α) (raw : α) (ctx what : String) (x : Nat) (tight : Bool)
    (I B : Crab.Itv) (acc : Acc) : Acc :=
  if B.isBottom then acc          -- model bottom: handled by the is_bottom comparison
  else if I.isBottom then
    acc.addU s!"{ctx}: {what}(v{x}) = bot but the constraints are satisfiable: {showW (M.witness raw)}"
  else
    let acc :=
      if I.lb == B.lb then acc
      else if Bound.lt I.lb B.lb then
        (if tight then acc.addI s!"{ctx}: {what}(v{x}) = {showItv I}, tightest implied is {showItv B} (lower bound)" else acc)
      else
        match I.lb with
        | .fin l => acc.addU s!"{ctx}: {what}(v{x}) = {showItv I} but the tightest implied interval is {showItv B}: {showW (M.witnessNot raw ⟨.lb, x, x, -l⟩)}"
        | _ => acc.addU s!"{ctx}: {what}(v{x}) = {showItv I} has an impossible lower bound"
    if I.ub == B.ub then acc
    else if Bound.lt B.ub I.ub then
      (if tight then acc.addI s!"{ctx}: {what}(v{x}) = {showItv I}, tightest implied is {showItv B} (upper bound)" else acc)
    else
      match I.ub with
      | .fin u => acc.addU s!"{ctx}: {what}(v{x}) = {showItv I} but the tightest implied interval is {showItv B}: {showW (M.witnessNot raw ⟨.ub, x, x, u⟩)}"
      | _ => acc.addU s!"{ctx}: {what}(v{x}) = {showItv I} has an impossible upper bound"

def stepModel {α : Type} (M : Model α) (pool : Array α) (o : Sexp) : Except String (Nat × α) :=
  match o with
  | .list [.atom "assume", d, c] =>
    match d.nat?, parsePCst c with
    | some d, some cs =>
      match cs.foldl (fun (a : Option α) c => a.bind (fun a => M.assume a c)) (some (pool.getD d M.top)) with
      | some v => .ok (d, v)
      | none => .error "constraint outside the model's language"
    | _, _ => .error "parse"
  | .list [.atom "copy", d, s] =>
    match d.nat?, s.nat? with
    | some d, some s => .ok (d, pool.getD s M.top)
    | _, _ => .error "parse"
  | .list [.atom "join", d, a, b] =>
    match d.nat?, a.nat?, b.nat? with
    | some d, some a, some b => .ok (d, M.join (pool.getD a M.top) (pool.getD b M.top))
    | _, _, _ => .error "parse"
  | .list [.atom "meet", d, a, b] =>
    match d.nat?, a.nat?, b.nat? with
    | some d, some a, some b => .ok (d, M.meet (pool.getD a M.top) (pool.getD b M.top))
    | _, _, _ => .error "parse"
  | .list [.atom "forget", d, x] =>
    match d.nat?, vIdx x with
    | some d, some x => .ok (d, M.forget (pool.getD d M.top) x)
    | _, _ => .error "parse"
  | .list [.atom "top", d] =>
    match d.nat? with
    | some d => .ok (d, M.top)
    | none => .error "parse"
  | .list [.atom "assignc", d, x, k] =>
    match d.nat?, vIdx x, k.int? with
    | some d, some x, some k => .ok (d, M.assignCst (pool.getD d M.top) x k)
    | _, _, _ => .error "parse"
  | .list [.atom "assignv", d, x, y, k] =>
    match d.nat?, vIdx x, vIdx y, k.int? with
    | some d, some x, some y, some k =>
      match M.assignVar (pool.getD d M.top) x y k with
      | some v => .ok (d, v)
      | none => .error "assignment outside the model's language"
    | _, _, _, _ => .error "parse"
  | .list [.atom "assignn", d, x, y, k] =>
    match d.nat?, vIdx x, vIdx y, k.int? with
    | some d, some x, some y, some k =>
      match M.assignNeg (pool.getD d M.top) x y k with
      | some v => .ok (d, v)
      | none => .error "assignment outside the model's language"
    | _, _, _, _ => .error "parse"
  | .list (.atom "forgetv" :: d :: xs) =>
    match d.nat?, xs.mapM vIdx with
    | some d, some xs => .ok (d, M.forgetAll (pool.getD d M.top) xs)
    | _, _ => .error "parse"
  | .list (.atom "project" :: d :: xs) =>
    match d.nat?, xs.mapM vIdx with
    | some d, some xs => .ok (d, M.project (pool.getD d M.top) xs)
    | _, _ => .error "parse"
  | _ => .error "unknown op"

/-- the liftings / products of C12's last sentence (only variable bounds are claimed for them) -/
def isLifting (dom : String) : Bool :=
  dom.startsWith "flat-bool-" || dom.startsWith "array-" || dom.startsWith "product-" || dom.startsWith "rgn-"

def run {α : Type} (M : Model α) (dom : String) (nv : Nat) (norm : Bool) (ops res : List Sexp) : Verdict := Id.run do
  let nops := ops.length
  if res.length != nops + 1 then return .bad s!"exact.hist: {res.length} results for {nops} ops"
  let mut pool : Array α := Array.replicate 3 M.top
  let mut acc : Acc := {}
  for i in [0:nops] do
    let o := ops.getD i (.atom "?")
    let r := res.getD i (.atom "?")
    let ctx := s!"[C12] exact.hist {dom} op#{i} {o}"
    -- the model step
    let (d, v) ← match stepModel M pool o with
      | .ok dv => pure dv
      | .error m => return .bad s!"{ctx}: {m}"
    pool := pool.setIfInBounds d v
    let c := M.closeQ v
    let mb := M.isBottomC c
    -- model self test (octagons, small)
    match M.selfTest v with
    | some m => acc := acc.addD s!"[model-test] {ctx}: {m}"
    | none => pure ()
    match r with
    | .list [.atom "s", _, ib, .list (.atom "at" :: ats), .list (.atom "iv" :: ivs), .list (.atom "q" :: qs)] =>
      let some ib := parseBool ib | return .bad s!"{ctx}: result parse (is_bottom)"
      if ib && !mb then
        acc := acc.addU s!"{ctx}: is_bottom = true but the constraints are satisfiable: {showW (M.witness v)}"
      else if !ib && mb then
        acc := acc.addI s!"{ctx}: is_bottom = false but the conjunction is unsatisfiable over the integers"
      if !mb then
        for x in [0:nv] do
          let B := M.boundsC c x
          match (ivs.getD x (.atom "?") |> parseItv), (ats.getD x (.atom "?") |> parseItv) with
          | some I, some A =>
            if !ib then
              acc := cmpItv M v ctx "operator[]" x true I B acc
              acc := cmpItv M v ctx (if norm then "normalize();at" else "at") x norm A B acc
          | _, _ => return .bad s!"{ctx}: result parse (intervals)"
        if !ib then
          for q in qs do
            match q with
            | .list [cs, ans] =>
              match parsePCst cs, parseBool ans with
              | some [k], some ans =>
                match M.entailsC c k with
                | some m =>
                  if ans && !m then
                    acc := acc.addU s!"{ctx}: entails({k.toStr}) = true but it is not implied: {showW (M.witnessNot v k)}"
                  else if !ans && m then
                    acc := acc.addI s!"{ctx}: entails({k.toStr}) = false but the constraint is implied"
                | none => return .bad s!"{ctx}: probe outside the language"
              | _, _ => return .bad s!"{ctx}: result parse (probe)"
            | _ => return .bad s!"{ctx}: result parse (probe)"
    | _ => return .bad s!"{ctx}: result shape"
  -- inclusion between the final values
  match res.getD nops (.atom "?") with
  | .list (.atom "leq" :: ps) =>
    for p in ps do
      match p with
      | .list [i, j, b] =>
        match i.nat?, j.nat?, parseBool b with
        | some i, some j, some b =>
          let a := pool.getD i M.top; let bb := pool.getD j M.top
          let m := M.leq a bb
          -- only meaningful while the implementation's values are the model's values: after a
          -- reported imprecision the implementation's operands are larger than the model's
          if acc.imprecise.isNone then
            if b && !m then
              acc := acc.addU s!"[C12] exact.hist {dom}: #{i} <= #{j} = true but not included: {showW (M.leqWitness a bb)}"
            else if !b && m && !isLifting dom then
              -- completeness of `<=` is part of C12 for the base domains only; for the liftings and the reduced
              -- products the property claims variable bounds (their `<=` is component-wise by design)
              acc := acc.addI s!"[C12] exact.hist {dom}: #{i} <= #{j} = false but every state of #{i} is in #{j}"
        | _, _, _ => return .bad "exact.hist leq parse"
      | _ => return .bad "exact.hist leq parse"
  | _ => return .bad "exact.hist tail"
  match acc.unsound, acc.drift, acc.imprecise with
  | some m, _, _ => return .unsound m
  | _, some m, _ => return .drift m
  | _, _, some m => return .imprecise m
  | _, _, _ => return .ok

end Exact

/-- largest absolute value of an integer atom -/
partial def Exact.maxAbs : Sexp → Nat
  | .atom s => match s.toInt? with | some k => k.natAbs | none => 0
  | .list xs => xs.foldl (fun a x => Nat.max a (Exact.maxAbs x)) 0

/-- tag octagon findings whose request has constants beyond the `float` significand: the known
    root cause `integer_tightening()` (see `C12.oct_tighten_coded_counterexample`) -/
def Exact.tagBig (kind : String) (ops : List Sexp) (v : Verdict) : Verdict :=
  if kind == "oct" && Exact.maxAbs (.list ops) ≥ 2 ^ 23 then
    match v with
    | .unsound m => .unsound (m ++ " [oct constants >= 2^23: float tightening]")
    | .imprecise m => .imprecise (m ++ " [oct constants >= 2^23: float tightening]")
    | v => v
  else v

open Exact in
def handleExact (op : String) (args res : List Sexp) : Verdict :=
  match op, args with
  | "hist", [.atom dom, .atom kind, .list (.atom "params" :: _), .list [.atom "nv", nv], .list [.atom "norm", norm],
             .list [.atom "inplace", _], .list [.atom "qseed", _], .list (.atom "qk" :: _), .list (.atom "ops" :: ops)] =>
    match res with
    | [.atom "err"] => .skip s!"exact.hist {dom}: CRAB_ERROR raised during the history"
    | [.atom "abort"] => .drift s!"[C12][abort] exact.hist {dom}: assertion failure (abort) inside the domain during the history"
    | _ =>
      match nv.nat?, parseBool norm with
      | some nv, some norm =>
        match kind with
        | "itv" => Exact.run (itvModel nv) dom nv norm ops res
        | "zone" => Exact.run (zoneModel nv) dom nv norm ops res
        | "oct" => Exact.tagBig kind ops (Exact.run (octModel nv) dom nv norm ops res)
        | _ => .bad s!"exact.hist: kind {kind}"
      | _, _ => .bad "exact.hist header"
  | _, _ => .bad s!"exact.{op}"

end Driver
