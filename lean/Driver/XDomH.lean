import Driver.DomH
import CrabModel.Dom.ConstantDomain
import CrabModel.Dom.SignDomain
import CrabModel.Dom.CongruenceDomain
import CrabModel.Dom.RicDomain

/-!
  Handler for component `xdom`: exact correspondence between `constant_domain<z_number>`,
  `sign_domain<z_number>` (harness/h_cdom.cpp, one binary per domain) and the models
  `Crab.CDom`, `Crab.SDom` (CrabModel/Dom/ConstantDomain.lean, SignDomain.lean).

  A line is one operation history over a pool of abstract values.  After every operation the
  harness printed the complete value of the target (bottom flag, top flag, the value of every
  variable that is not top, the exported constraint system) and the answer of query operations;
  the handler replays the history with the model and compares everything, operation by operation
  (`DRIFT` on any difference).  Independently it replays the history on concrete witness states
  with the concrete semantics of the operations and checks that every witness is described by
  what the implementation printed (`UNSOUND` otherwise: [C03] bindings, exported constraints,
  `at`; [C04] `<=`, `entails`).
-/
namespace Driver
namespace XDomH
open Crab Crab.Lin Crab.XDom

def NV : Nat := 8
def NPOOL : Nat := 4
def WCAP : Nat := 40

/-- description of a domain whose environment is `separate_domain<variable_t, V>` -/
structure SOps (V : Type) where
  name : String
  L : Lattice V
  showVal : V → String
  parseVal : Sexp → Option V
  contains : V → Int → Bool
  /-- a few members (for the concrete meaning of `set`) -/
  samples : Array Int → V → List Int
  assign : Env V → Nat → Expr → Env V
  weakAssign : Env V → Nat → Expr → Env V
  applyVar : Env V → ArithOp → Nat → Nat → Nat → Env V
  applyCst : Env V → ArithOp → Nat → Nat → Int → Env V
  applyBitVar : Env V → BitOp → Nat → Nat → Nat → Env V
  applyBitCst : Env V → BitOp → Nat → Nat → Int → Env V
  add : Env V → Sys → Env V
  select : Env V → Nat → Lin.Cst → Expr → Expr → Env V
  intCast : Env V → Bool → Nat → Nat → Nat → Env V
  entails : Env V → Lin.Cst → Bool
  atItv : Env V → Nat → Itv
  toCsts : Env V → Sys
  /-- `operator||` and `widening_thresholds` -/
  widen : Env V → Env V → Env V
  narrow : Env V → Env V → Env V
  forget : Env V → Nat → Env V := XDom.Env.forget L
  forgetAll : Env V → List Nat → Env V := XDom.Env.forgetAll L
  project : Env V → List Nat → Env V := XDom.Env.project L
  rename : Env V → List Nat → List Nat → Option (Env V) := XDom.Env.rename L
  expand : Env V → Nat → Nat → Env V := XDom.Env.expand L

def cstSOps : SOps Crab.Cst :=
  { name := "cst", L := CDom.cstLattice,
    showVal := fun c => toString c,
    parseVal := fun s => match s with
      | .atom "top" => some .top
      | .atom "bot" => some .bot
      | s => s.int?.map Crab.Cst.val,
    contains := Crab.Cst.contains,
    samples := fun cands c => match c with
      | .bot => [] | .val n => [n] | .top => (cands.toList.take 3),
    assign := CDom.Env.assign, weakAssign := CDom.Env.weakAssign,
    applyVar := CDom.Env.applyVar, applyCst := CDom.Env.applyCst,
    applyBitVar := CDom.Env.applyBitVar, applyBitCst := CDom.Env.applyBitCst,
    add := CDom.Env.add, select := CDom.Env.select, intCast := CDom.Env.intCast,
    entails := CDom.Env.entails, atItv := CDom.Env.atItv, toCsts := CDom.Env.toCsts,
    widen := XDom.Env.widen CDom.cstLattice, narrow := XDom.Env.narrow CDom.cstLattice }

def sgnSOps : SOps Sign :=
  { name := "sgn", L := SDom.signLattice,
    showVal := Sign.name,
    parseVal := fun s => match s with
      | .atom a => Sign.ofName? a
      | _ => none,
    contains := fun s k => s.has (Cls.of k),
    samples := fun cands s =>
      ((cands.toList ++ [0, 1, -1, 7, -7]).filter (fun k => s.has (Cls.of k))).eraseDups.take 3,
    assign := SDom.Env.assign, weakAssign := SDom.Env.weakAssign,
    applyVar := SDom.Env.applyVar, applyCst := SDom.Env.applyCst,
    applyBitVar := SDom.Env.applyBitVar, applyBitCst := SDom.Env.applyBitCst,
    add := SDom.Env.add, select := SDom.Env.select, intCast := SDom.Env.intCast,
    entails := SDom.Env.entails, atItv := SDom.Env.atItv, toCsts := SDom.Env.toCsts,
    -- `operator||`, `widening_thresholds` are the join and `operator&&` the meet
    widen := XDom.Env.join SDom.signLattice, narrow := XDom.Env.meet SDom.signLattice }

def congSOps : SOps Cong :=
  { name := "cong", L := GDom.congLattice,
    showVal := fun c => toString c,
    parseVal := fun s => match s with
      | .atom "top" => some Cong.top
      | .atom "bot" => some Cong.bot
      | .list [.atom "cg", a, b] => do
        let a ← a.int?; let b ← b.int?
        -- the harness builds `aZ+b` as `congruence(b) | congruence(b + a)`
        pure (if a = 0 then Cong.ofInt b else Cong.join (Cong.ofInt b) (Cong.ofInt (b + a)))
      | _ => none,
    contains := Cong.contains,
    samples := fun cands c =>
      if c.isBot then [] else
      (((List.range 5).map (fun (i : Nat) => c.b + c.a * (Int.ofNat i - 2))) ++ cands.toList.filter (fun k => c.contains k)).eraseDups.take 3,
    assign := GDom.Env.assign, weakAssign := GDom.Env.weakAssign,
    applyVar := GDom.Env.applyVar, applyCst := GDom.Env.applyCst,
    applyBitVar := GDom.Env.applyBitVar, applyBitCst := GDom.Env.applyBitCst,
    add := GDom.Env.add, select := GDom.Env.select, intCast := GDom.Env.intCast,
    entails := GDom.Env.entails, atItv := GDom.Env.atItv, toCsts := GDom.Env.toCsts,
    widen := XDom.Env.widen GDom.congLattice, narrow := XDom.Env.narrow GDom.congLattice,
    forget := GDom.Env.forget, forgetAll := GDom.Env.forgetAll, project := GDom.Env.project,
    rename := GDom.Env.rename, expand := GDom.Env.expand }

/-- what the handler needs of a domain model with values of type `E` -/
structure Ops (E : Type) where
  name : String
  top : E
  bot : E
  isBottom : E → Bool
  isTop : E → Bool
  /-- the observable bindings of a non-bottom value, as the harness prints them -/
  bindings : E → List (Nat × String)
  /-- first fact of the value the state violates -/
  envViolates : E → CState → Option String
  /-- membership in a printed value (`none`: unparsable) -/
  valContains : Sexp → Int → Option Bool
  /-- a few members of a printed value (for the concrete meaning of `set`) -/
  valSamples : Array Int → Sexp → Option (List Int)
  setVal : E → Nat → Sexp → Option E
  /-- the variable is unconstrained (for the concrete meaning of `rename`) -/
  isFresh : E → Nat → Bool
  assign : E → Nat → Expr → E
  weakAssign : E → Nat → Expr → E
  applyVar : E → ArithOp → Nat → Nat → Nat → E
  applyCst : E → ArithOp → Nat → Nat → Int → E
  applyBitVar : E → BitOp → Nat → Nat → Nat → E
  applyBitCst : E → BitOp → Nat → Nat → Int → E
  add : E → Sys → E
  select : E → Nat → Lin.Cst → Expr → Expr → E
  intCast : E → Bool → Nat → Nat → Nat → E
  entails : E → Lin.Cst → Bool
  atItv : E → Nat → Itv
  toCsts : E → Sys
  leq : E → E → Bool
  join : E → E → E
  meet : E → E → E
  joinEq : E → E → E
  meetEq : E → E → E
  widen : E → E → E
  widenTh : List Int → E → E → E
  narrow : E → E → E
  forget : E → Nat → E
  forgetAll : E → List Nat → E
  project : E → List Nat → E
  rename : E → List Nat → List Nat → Option E
  expand : E → Nat → Nat → E

/-- a `separate_domain`-based domain as an `Ops` record -/
def ofSOps {V : Type} (O : SOps V) : Ops (Env V) :=
  let L := O.L
  let bnd := fun (e : Env V) => (XDom.Env.bindings e).map (fun p => (p.1, O.showVal p.2))
  { name := O.name, top := XDom.Env.top, bot := XDom.Env.bot,
    isBottom := fun e => e.isBot, isTop := fun e => XDom.Env.isTop e,
    bindings := bnd,
    envViolates := fun e σ =>
      if e.isBot then some "is_bottom" else
      ((XDom.Env.bindings e).find? (fun (v, c) => !O.contains c (σ.getD v 0))).map
        (fun (v, c) => s!"v{v} -> {O.showVal c}"),
    valContains := fun s k => (O.parseVal s).map (fun c => O.contains c k),
    valSamples := fun cands s => (O.parseVal s).map (O.samples cands),
    setVal := fun e x s => (O.parseVal s).map (fun c => XDom.Env.set L e x c),
    isFresh := fun e y => e.isBot || (e.tree.lookup y).isNone,
    assign := O.assign, weakAssign := O.weakAssign, applyVar := O.applyVar, applyCst := O.applyCst,
    applyBitVar := O.applyBitVar, applyBitCst := O.applyBitCst, add := O.add, select := O.select,
    intCast := O.intCast, entails := O.entails, atItv := O.atItv, toCsts := O.toCsts,
    leq := XDom.Env.leq L, join := XDom.Env.join L, meet := XDom.Env.meet L,
    joinEq := XDom.Env.join L, meetEq := XDom.Env.meet L,
    widen := O.widen, widenTh := fun _ => O.widen, narrow := O.narrow,
    forget := O.forget, forgetAll := O.forgetAll, project := O.project, rename := O.rename,
    expand := O.expand }

def cstOps := ofSOps cstSOps
def sgnOps := ofSOps sgnSOps
def congOps := ofSOps congSOps

/-! ### the "ric" domain (`numerical_congruence_domain<interval_domain>`) -/

def parseCongVal : Sexp → Option Cong
  | .atom "top" => some Cong.top
  | .atom "bot" => some Cong.bot
  | .list [.atom "cg", a, b] => do
    let a ← a.int?; let b ← b.int?
    -- the harness builds `aZ+b` as `congruence(b) | congruence(b + a)`
    pure (if a = 0 then Cong.ofInt b else Cong.join (Cong.ofInt b) (Cong.ofInt (b + a)))
  | _ => none

def parseIC : Sexp → Option (Itv × Cong)
  | .list [.atom "ic", i, c] => do pure ((← parseItv i), (← parseCongVal c))
  | _ => none

def showCongVal (c : Cong) : String := if !c.isBot && c.isTop then "top" else toString c

/-- the variables bound in one of the two components, with both values -/
def ricBindings (e : RDom.Env) : List (Nat × Itv × Cong) :=
  if e.isBottom then [] else
  let cs := XDom.Env.bindings e.s
  let ks := (e.f.m.map (·.1) ++ cs.map (·.1)).eraseDups
  let ks := ks.foldr (fun k acc => let (a, b) := acc.span (fun t => t < k); a ++ k :: b) []
  ks.map (fun k => (k, ((e.f.m.find? (fun p => p.1 == k)).map (·.2)).getD Itv.top,
                       ((cs.find? (fun p => p.1 == k)).map (·.2)).getD Cong.top))

def ricOps : Ops RDom.Env :=
  { name := "ric", top := RDom.Env.top, bot := RDom.Env.bot,
    isBottom := RDom.Env.isBottom, isTop := RDom.Env.isTop,
    bindings := fun e => (ricBindings e).map (fun (k, i, c) => (k, s!"(ic {showItv i} {showCongVal c})")),
    envViolates := fun e σ =>
      if e.isBottom then some "is_bottom" else
      ((ricBindings e).find? (fun (k, i, c) => !(i.contains (σ.getD k 0) && c.contains (σ.getD k 0)))).map
        (fun (k, i, c) => s!"v{k} -> ({showItv i}, {showCongVal c})"),
    valContains := fun s k => (parseIC s).map (fun (i, c) => i.contains k && c.contains k),
    valSamples := fun cands s => (parseIC s).map (fun (i, c) =>
      let v := RDom.icReduce i c
      if v.isBottom then [] else
      (((itvSamples v.i) ++ cands.toList ++ (List.range 5).map (fun (j : Nat) => v.c.b + v.c.a * (Int.ofNat j - 2))).filter
        (fun k => v.i.contains k && v.c.contains k)).eraseDups.take 3),
    setVal := fun e x s => (parseIC s).map (fun (i, c) => RDom.Env.set e x (RDom.icReduce i c)),
    isFresh := fun e y => e.isBottom || ((IDom.Map.find e.f.m y).isNone && (e.s.tree.lookup y).isNone),
    assign := RDom.Env.assign, weakAssign := RDom.Env.weakAssign,
    applyVar := RDom.Env.applyVar, applyCst := RDom.Env.applyCst,
    applyBitVar := RDom.Env.applyBitVar, applyBitCst := RDom.Env.applyBitCst,
    add := RDom.Env.add, select := RDom.Env.select, intCast := RDom.Env.intCast,
    entails := RDom.Env.entails, atItv := RDom.Env.atItv, toCsts := RDom.Env.toCsts,
    leq := RDom.Env.leq, join := RDom.Env.join, meet := RDom.Env.meet,
    joinEq := RDom.Env.joinEq, meetEq := RDom.Env.meetEq,
    widen := RDom.Env.widen,
    widenTh := fun ks => RDom.Env.widenTh (ks.foldl (fun ts k => IDom.Thresholds.add ts 4294967295 k) IDom.Thresholds.init),
    narrow := RDom.Env.narrow,
    forget := RDom.Env.forget, forgetAll := RDom.Env.forgetAll, project := RDom.Env.project,
    rename := RDom.Env.rename, expand := RDom.Env.expand }

/-- the expression the harness builds: `e = e + linear_expression(k, v)` for every term
    (a term with a zero coefficient is never stored) -/
def mkExpr (l : Driver.Lin) : Expr :=
  l.ts.foldl (fun acc (k, v) => Expr.add acc (if k = 0 then Expr.zero else ⟨[(v, k)], 0⟩)) (Expr.const l.c)

def mkKind : CKind → Kind
  | .le => .leq | .lt => .lt | .eq => .eq | .ne => .neq

def mkCst (c : Driver.Cst) : Lin.Cst := ⟨mkExpr c.e, mkKind c.k⟩

def showExpr (e : Expr) : String :=
  "(lin " ++ toString e.cst ++ String.join (e.terms.map (fun (v, k) => s!" ({k} v{v})")) ++ ")"

def showCst (c : Lin.Cst) : String :=
  let k := match c.kind with | .leq => "le" | .lt => "lt" | .eq => "eq" | .neq => "ne"
  s!"({k} {showExpr c.expr})"

/-- insertion sort of strings (small lists) -/
def sortStrings (xs : List String) : List String :=
  xs.foldl (fun acc s =>
    let (a, b) := acc.span (fun t => t < s)
    a ++ s :: b) []

def parseArith : String → Option ArithOp
  | "add" => some .add | "sub" => some .sub | "mul" => some .mul | "sdiv" => some .sdiv
  | "udiv" => some .udiv | "srem" => some .srem | "urem" => some .urem | _ => none

def parseBit : String → Option BitOp
  | "and" => some .and | "or" => some .or | "xor" => some .xor | "shl" => some .shl
  | "lshr" => some .lshr | "ashr" => some .ashr | _ => none

def vars? (xs : List Sexp) : Option (List Nat) := xs.mapM varIdx

section generic
variable {E : Type} (O : Ops E)

def showBindings (bot : Bool) (m : List (Nat × String)) : String :=
  if bot then "_|_" else "{" ++ "; ".intercalate (m.map (fun (v, s) => s!"v{v} -> {s}")) ++ "}"

def showEnv (e : E) : String := showBindings (O.isBottom e) (O.bindings e)

/-- result of one operation in the model: `none` = CRAB_ERROR expected -/
structure MStep (E : Type) where
  d : Nat
  env : Option E
  q : String := "-"

/-- the model run of one operation -/
def modelStep (pool : Array E) (o : Sexp) : Option (MStep E) :=
  let P := fun (s : Sexp) => pool.getD (s.nat?.getD 0) O.top
  match o with
  | .list [.atom "top", d] => do pure ⟨← d.nat?, some O.top, "-"⟩
  | .list [.atom "bot", d] => do pure ⟨← d.nat?, some O.bot, "-"⟩
  | .list [.atom "copy", d, s] => do pure ⟨← d.nat?, some (P s), "-"⟩
  | .list [.atom "assign", d, x, e] => do
    pure ⟨← d.nat?, some (O.assign (P d) (← varIdx x) (mkExpr (← parseLin e))), "-"⟩
  | .list [.atom "wassign", d, x, e] => do
    pure ⟨← d.nat?, some (O.weakAssign (P d) (← varIdx x) (mkExpr (← parseLin e))), "-"⟩
  | .list [.atom "arith", d, .atom op, x, y, z] => do
    let op ← parseArith op; let x ← varIdx x; let y ← varIdx y
    match varIdx z with
    | some z => pure ⟨← d.nat?, some (O.applyVar (P d) op x y z), "-"⟩
    | none => pure ⟨← d.nat?, some (O.applyCst (P d) op x y (← z.int?)), "-"⟩
  | .list [.atom "bitw", d, .atom op, x, y, z] => do
    let op ← parseBit op; let x ← varIdx x; let y ← varIdx y
    match varIdx z with
    | some z => pure ⟨← d.nat?, some (O.applyBitVar (P d) op x y z), "-"⟩
    | none => pure ⟨← d.nat?, some (O.applyBitCst (P d) op x y (← z.int?)), "-"⟩
  | .list (.atom "assume" :: d :: cs) => do
    let cs ← cs.mapM parseCst
    -- `sys += cst` for every constraint (syntactic duplicates are dropped)
    let sys := cs.foldl (fun s c => Sys.addCst s (mkCst c)) []
    pure ⟨← d.nat?, some (O.add (P d) sys), "-"⟩
  | .list [.atom "forget1", d, x] => do pure ⟨← d.nat?, some (O.forget (P d) (← varIdx x)), "-"⟩
  | .list (.atom "forget" :: d :: xs) => do pure ⟨← d.nat?, some (O.forgetAll (P d) (← vars? xs)), "-"⟩
  | .list (.atom "project" :: d :: xs) => do pure ⟨← d.nat?, some (O.project (P d) (← vars? xs)), "-"⟩
  | .list [.atom "rename", d, .list f, .list t] => do
    pure ⟨← d.nat?, O.rename (P d) (← vars? f) (← vars? t), "-"⟩
  | .list [.atom "expand", d, x, y] => do
    pure ⟨← d.nat?, some (O.expand (P d) (← varIdx x) (← varIdx y)), "-"⟩
  | .list [.atom "join", d, a, b] => do pure ⟨← d.nat?, some (O.join (P a) (P b)), "-"⟩
  | .list [.atom "meet", d, a, b] => do pure ⟨← d.nat?, some (O.meet (P a) (P b)), "-"⟩
  | .list [.atom "widen", d, a, b] => do pure ⟨← d.nat?, some (O.widen (P a) (P b)), "-"⟩
  | .list [.atom "narrow", d, a, b] => do pure ⟨← d.nat?, some (O.narrow (P a) (P b)), "-"⟩
  | .list [.atom "joineq", d, a] => do pure ⟨← d.nat?, some (O.joinEq (P d) (P a)), "-"⟩
  | .list [.atom "meeteq", d, a] => do pure ⟨← d.nat?, some (O.meetEq (P d) (P a)), "-"⟩
  | .list [.atom "widenth", d, a, b, .list (.atom "ts" :: ks)] => do
    pure ⟨← d.nat?, some (O.widenTh (← ks.mapM Sexp.int?) (P a) (P b)), "-"⟩
  | .list [.atom "select", d, x, c, e1, e2] => do
    pure ⟨← d.nat?, some (O.select (P d) (← varIdx x) (mkCst (← parseCst c)) (mkExpr (← parseLin e1)) (mkExpr (← parseLin e2))), "-"⟩
  | .list [.atom "set", d, x, v] => do
    pure ⟨← d.nat?, some (← O.setVal (P d) (← varIdx x) v), "-"⟩
  | .list [.atom "cast", d, .atom c, x, y] => do
    pure ⟨← d.nat?, some (O.intCast (P d) (c == "zext") 32 (← varIdx x) (← varIdx y)), "-"⟩
  | .list [.atom "entails", d, c] => do
    let b := O.entails (P d) (mkCst (← parseCst c))
    pure ⟨← d.nat?, some (P d), if b then "1" else "0"⟩
  | .list [.atom "leq", d, a] => do
    pure ⟨← d.nat?, some (P d), if O.leq (P d) (P a) then "1" else "0"⟩
  | .list [.atom "at", d, x] => do
    pure ⟨← d.nat?, some (P d), showItv (O.atItv (P d) (← varIdx x))⟩
  | _ => none

end generic

/-- what the harness printed for one op -/
structure Printed where
  bot : Bool
  top : Bool
  m : List (Nat × Sexp)
  cs : List Sexp
  q : Sexp

def parsePrinted : Sexp → Option Printed
  | .list [.atom "s", b, t, .list (.atom "b" :: bs), .list (.atom "cs" :: cs), q] => do
    let b ← parseBool b; let t ← parseBool t
    let bs ← bs.mapM (fun x => match x with
      | .list [v, val] => do pure ((← varIdx v), val)
      | _ => none)
    pure ⟨b, t, bs, cs, q⟩
  | _ => none

/-! ### concrete side -/

def freshStates (cands : Array Int) (g : Gen) (k : Nat) : Gen × List CState := Id.run do
  let mut g := g
  let mut out : List CState := []
  for _ in [0:k] do
    let mut σ : CState := #[]
    for _ in [0:NV] do
      let (g', r) := g.next
      g := g'
      σ := σ.push (cands.getD (r % cands.size) 0)
    out := σ :: out
  return (g, out)

def capW (xs : List CState) : List CState := (xs.eraseDups).take WCAP

def havoc (cands : Array Int) (g : Gen) (x : Nat) (ws : List CState) : Gen × List CState := Id.run do
  let mut g := g
  let mut out : List CState := []
  for σ in ws do
    out := σ :: out
    for _ in [0:2] do
      let (g', r) := g.next
      g := g'
      out := (σ.setIfInBounds x (cands.getD (r % cands.size) 0)) :: out
  return (g, capW out.reverse)

def arithConc : String → String
  | "sdiv" => "div"
  | s => s

structure HState (E : Type) where
  g : Gen
  pool : Array E
  w : Array (List CState)

section generic
variable {E : Type} (O : Ops E)

/-- is the state described by the printed bindings? (first violated fact) -/
def violates (bot : Bool) (m : List (Nat × Sexp)) (σ : CState) : Option String :=
  if bot then some "is_bottom" else
  (m.find? (fun (v, c) => (O.valContains c (σ.getD v 0)) != some true)).map (fun (v, c) => s!"v{v} -> {c}")

def violatesEnv (e : E) (σ : CState) : Option String := O.envViolates e σ

/-- concrete run of one operation on the witnesses of the pool -/
def concStep (cands : Array Int) (st : HState E) (o : Sexp) : Option (Gen × List CState) :=
  let W := fun (s : Sexp) => st.w.getD (s.nat?.getD 0) []
  let EV := fun (s : Sexp) => st.pool.getD (s.nat?.getD 0) O.top
  match o with
  | .list [.atom "top", _] => some (freshStates cands st.g WCAP)
  | .list [.atom "bot", _] => some (st.g, [])
  | .list [.atom "copy", _, s] => some (st.g, W s)
  | .list [.atom "assign", d, x, e] => do
    let x ← varIdx x; let e ← parseLin e
    pure (st.g, (W d).map (fun σ => σ.setIfInBounds x (e.eval σ)))
  | .list [.atom "wassign", d, x, e] => do
    let x ← varIdx x; let e ← parseLin e
    pure (st.g, capW (interleave (W d) ((W d).map (fun σ => σ.setIfInBounds x (e.eval σ)))))
  | .list (.atom "assume" :: d :: cs) => do
    let cs ← cs.mapM parseCst
    pure (st.g, (W d).filter (fun σ => cs.all (·.sat σ)))
  | .list [.atom "forget1", d, x] => do pure (havoc cands st.g (← varIdx x) (W d))
  | .list (.atom "forget" :: d :: xs) => do
    let xs ← vars? xs
    pure (xs.foldl (fun (g, ws) x => havoc cands g x ws) (st.g, W d))
  | .list (.atom "project" :: d :: xs) => do
    let keep ← vars? xs
    pure ((List.range NV).foldl (fun (g, ws) x => if keep.contains x then (g, ws) else havoc cands g x ws) (st.g, W d))
  | .list [.atom k, d, .atom op, x, y, z] =>
    if k == "arith" || k == "bitw" then do
      let x ← varIdx x; let y ← varIdx y
      let zv : CState → Option Int := match varIdx z with
        | some zi => fun σ => some (σ.getD zi 0)
        | none => fun _ => z.int?
      pure (st.g, (W d).filterMap (fun σ => do
        let b ← zv σ
        let c ← concBin (arithConc op) (σ.getD y 0) b
        pure (σ.setIfInBounds x c)))
    else none   -- `select` (also six items) is handled by `concSelect`
  | .list [.atom "rename", d, .list f, .list t] => do
    let f ← vars? f; let t ← vars? t
    let e := EV d
    -- meaningful only for distinct sources and distinct, fresh (unconstrained, not a source) targets
    let okShape := f.length == t.length && f.eraseDups.length == f.length && t.eraseDups.length == t.length
      && t.all (fun y => !f.contains y && O.isFresh e y)
    if okShape then
      let ws := (W d).map (fun σ => (f.zip t).foldl (fun τ (x, y) => τ.setIfInBounds y (σ.getD x 0)) σ)
      pure (f.foldl (fun (g, ws) x => havoc cands g x ws) (st.g, ws))
    else pure (st.g, [])
  | .list [.atom "expand", d, x, y] => do
    let x ← varIdx x; let y ← varIdx y
    pure (st.g, (W d).map (fun σ => σ.setIfInBounds y (σ.getD x 0)))
  | .list [.atom k, d, a, b] =>
    if k == "join" || k == "widen" then some (st.g, capW (interleave (W a) (W b)))
    else if k == "meet" || k == "narrow" then some (st.g, (W a).filter (fun σ => (W b).contains σ))
    else if k == "set" then do
      let x ← varIdx a
      let vals ← O.valSamples cands b
      pure (st.g, capW ((W d).flatMap (fun σ => vals.map (fun k => σ.setIfInBounds x k))))
    else none
  | .list [.atom "joineq", d, a] => some (st.g, capW (interleave (W d) (W a)))
  | .list [.atom "meeteq", d, a] => some (st.g, (W d).filter (fun σ => (W a).contains σ))
  | .list [.atom "widenth", _, a, b, _] => some (st.g, capW (interleave (W a) (W b)))
  | .list [.atom "cast", d, .atom c, x, y] => do
    let x ← varIdx x; let y ← varIdx y
    let ws := (W d).map (fun σ => σ.setIfInBounds x (σ.getD y 0))
    pure (st.g, if c == "zext" then ws.filter (fun σ => σ.getD x 0 ≤ 2 ^ 32 - 1) else ws)
  | .list [.atom "entails", d, _] => some (st.g, W d)
  | .list [.atom "leq", d, _] => some (st.g, W d)
  | .list [.atom "at", d, _] => some (st.g, W d)
  | _ => none

/-- `select` has six items and is handled apart -/
def concSelect (st : HState E) (o : Sexp) : Option (Gen × List CState) :=
  match o with
  | .list [.atom "select", d, x, c, e1, e2] => do
    let x ← varIdx x; let c ← parseCst c; let e1 ← parseLin e1; let e2 ← parseLin e2
    pure (st.g, (st.w.getD (d.nat?.getD 0) []).map (fun σ => σ.setIfInBounds x (if c.sat σ then e1.eval σ else e2.eval σ)))
  | _ => none

end generic

/-- one history against the model `O` -/
def handleHist {E : Type} (O : Ops E) (ops res : List Sexp) : Verdict :=
  let req := Sexp.list ops
  let cands := candidates req
  let seed := (intsOf req).foldl (fun a k => (a * 31 + k.natAbs) % 2 ^ 61) (ops.length + 7)
  let (g0, init) := freshStates cands ⟨seed⟩ WCAP
  let st0 : HState E := { g := g0, pool := Array.replicate NPOOL O.top, w := Array.replicate NPOOL init }
  let nops := ops.length
  let step (acc : Except Verdict (HState E × Bool)) (i : Nat) : Except Verdict (HState E × Bool) := do
    let (st, stopped) ← acc
    if stopped then return (st, true)
    let o := ops.getD i (.atom "?")
    let ctx := s!"xdom.hist {O.name} op#{i} {o}"
    let some r := res[i]? | throw (.drift s!"{ctx}: no result printed (history stopped early)")
    let some ms := modelStep O st.pool o | throw (.bad s!"{ctx}: unparsable op")
    match r, ms.env with
    | .list [.atom "err"], none => return (st, true)
    | .list [.atom "err"], some e => throw (.drift s!"{ctx}: CRAB_ERROR raised, model gives {showEnv O e}")
    | _, none => throw (.drift s!"{ctx}: model expects CRAB_ERROR, implementation printed {r}")
    | _, some e =>
      let some p := parsePrinted r | throw (.bad s!"{ctx}: unparsable result {r}")
      if !(p.m.all (fun (_, s) => (O.valContains s 0).isSome)) then throw (.bad s!"{ctx}: unparsable value in {r}")
      let pm := p.m
      let pre := st.pool.getD ms.d O.top
      let printedStr := showBindings p.bot (p.m.map (fun (v, s) => (v, toString s)))
      -- concrete side first: a drift that is also a soundness violation is reported as such
      let some (g, wd) := (match concSelect st o with | some x => some x | none => concStep O cands st o)
        | throw (.bad s!"{ctx}: no concrete semantics")
      match wd.findSome? (fun σ => (violates O p.bot pm σ).map (fun f => (σ, f))) with
      | some (σ, f) =>
        throw (.unsound s!"[C03] {ctx}: before {showEnv O pre}; witness state {showState σ} of the collecting semantics violates {f} of the printed result {printedStr}")
      | none => pure ()
      -- exported constraints against witnesses
      match p.cs.mapM parseCst with
      | some cs =>
        match wd.findSome? (fun σ => (cs.find? (fun c => !c.sat σ)).map (fun _ => σ)) with
        | some σ => throw (.unsound s!"[C03] {ctx}: witness state {showState σ} violates the exported constraints {p.cs}")
        | none => pure ()
      | none => throw (.bad s!"{ctx}: unparsable exported constraint in {r}")
      -- query answers against witnesses
      match o with
      | .list [.atom "entails", _, c] =>
        if toString p.q == "1" then
          match parseCst c with
          | some c =>
            match wd.find? (fun σ => !c.sat σ) with
            | some σ => throw (.unsound s!"[C04] {ctx}: entails answered yes on {showEnv O pre} but witness {showState σ} violates the constraint")
            | none => pure ()
          | none => pure ()
      | .list [.atom "leq", _, a] =>
        if toString p.q == "1" then
          let ea := st.pool.getD (a.nat?.getD 0) O.top
          match wd.findSome? (fun σ => (violatesEnv O ea σ).map (fun f => (σ, f))) with
          | some (σ, f) => throw (.unsound s!"[C04] {ctx}: {showEnv O pre} <= {showEnv O ea} answered yes but witness {showState σ} violates {f}")
          | none => pure ()
      | .list [.atom "at", _, x] =>
        match parseItv p.q, varIdx x with
        | some i, some x =>
          match wd.find? (fun σ => !i.contains (σ.getD x 0)) with
          | some σ => throw (.unsound s!"[C03] {ctx}: at(v{x}) = {showItv i} on {showEnv O pre} excludes the witness {showState σ}")
          | none => pure ()
        | _, _ => throw (.bad s!"{ctx}: unparsable interval {p.q}")
      | _ => pure ()
      -- exact comparison with the model
      let mm := O.bindings e
      if p.bot != O.isBottom e then throw (.drift s!"{ctx}: before {showEnv O pre}; is_bottom={p.bot}, model {showEnv O e}")
      if p.m.map (fun (v, s) => (v, toString s)) != mm then
        throw (.drift s!"{ctx}: before {showEnv O pre}; printed {printedStr}, model {showEnv O e}")
      if p.top != O.isTop e then throw (.drift s!"{ctx}: is_top={p.top}, model {O.isTop e} on {showEnv O e}")
      let mcs := sortStrings ((O.toCsts e).map showCst)
      if sortStrings (p.cs.map toString) != mcs then
        throw (.drift s!"{ctx}: to_linear_constraint_system printed {p.cs}, model {mcs}")
      if toString p.q != ms.q then throw (.drift s!"{ctx}: before {showEnv O pre}; query answered {p.q}, model {ms.q}")
      return ({ g := g, pool := st.pool.setIfInBounds ms.d e, w := st.w.setIfInBounds ms.d wd }, false)
  match (List.range nops).foldl step (.ok (st0, false)) with
  | .error v => v
  | .ok _ => .ok

def handleXDom (op : String) (args res : List Sexp) : Verdict :=
  match op, args with
  | "hist", [.atom "cst", .list (.atom "ops" :: ops)] => handleHist cstOps ops res
  | "hist", [.atom "sgn", .list (.atom "ops" :: ops)] => handleHist sgnOps ops res
  | "hist", [.atom "cong", .list (.atom "ops" :: ops)] => handleHist congOps ops res
  | "hist", [.atom "ric", .list (.atom "ops" :: ops)] => handleHist ricOps ops res
  | "hist", [.atom d, _] => .skip s!"xdom.hist: no model for domain {d}"
  | _, _ => .bad s!"xdom.{op}"

end XDomH

def handleXDom := XDomH.handleXDom

end Driver
