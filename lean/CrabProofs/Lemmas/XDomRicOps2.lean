import CrabProofs.Lemmas.XDomRicOps
import CrabProofs.Lemmas.LinSys

/-!
  The "ric" domain (model `Crab.RDom`): the transformers of `numerical_congruence_domain`
  (product operation, `reduce()`, `reduce_variable`), `entails`, `at`, exported constraints.
-/
namespace Crab
namespace RDom
open XDom Lin

local notation "GL" => GDom.congLattice

namespace Env

theorem canonical_of_ok {csts : Sys} (h : ∀ c ∈ csts, CstOk c) : ∀ c ∈ csts, c.expr.Canonical :=
  fun c hc => (h c hc).1

/-! ### `assign`, `weak_assign`, `apply` -/

theorem assign_inv {e : Env} (he : e.Inv) {x : Var} (hx : x < 2 ^ 64) (ex : Expr) : (e.assign x ex).Inv :=
  reduceVar_inv (both_inv he (fun f h => IDom.Env.assign_inv IDom.Env.sortedInv f x ex h)
    (fun _ h => iassign_bot h x ex) (fun _ h => GDom.Env.assign_inv h hx ex)) hx

/-- `assign(x, e)` -/
theorem assign_sound {e : Env} (he : e.Inv) {σ : State} (hg : e.γ σ) {x : Var} (hx : x < 2 ^ 64) (ex : Expr) :
    (e.assign x ex).γ (upd σ x (ex.eval σ)) :=
  reduceVar_sound (both_inv he (fun f h => IDom.Env.assign_inv IDom.Env.sortedInv f x ex h)
      (fun _ h => iassign_bot h x ex) (fun _ h => GDom.Env.assign_inv h hx ex))
    (both_sound hg (IDom.Env.assign_sound hg.2.1 x ex) (GDom.Env.assign_sound he.2.1 hg.2.2 hx ex)) hx

theorem weakAssign_inv {e : Env} (he : e.Inv) {x : Var} (hx : x < 2 ^ 64) (ex : Expr) : (e.weakAssign x ex).Inv :=
  reduceVar_inv (both_inv he (fun f h => IDom.Env.weakAssign_sorted f x ex h)
    (fun _ h => iweak_bot h x ex) (fun _ h => GDom.Env.weakAssign_inv h hx ex)) hx

/-- `weak_assign(x, e)`: both the old state and the updated state are described -/
theorem weakAssign_sound {e : Env} (he : e.Inv) {σ : State} (hg : e.γ σ) {x : Var} (hx : x < 2 ^ 64) (ex : Expr) :
    (e.weakAssign x ex).γ σ ∧ (e.weakAssign x ex).γ (upd σ x (ex.eval σ)) := by
  have hi := both_inv (g1 := fun f => f.weakAssign x ex) (g2 := fun s => s.weakAssign x ex) he
    (fun f h => IDom.Env.weakAssign_sorted f x ex h) (fun _ h => iweak_bot h x ex)
    (fun _ h => GDom.Env.weakAssign_inv h hx ex)
  have h1 := IDom.Env.weakAssign_sound hg.2.1 x ex
  have h2 := GDom.Env.weakAssign_sound he.2.1 hg.2.2 hx ex
  exact ⟨reduceVar_sound hi (both_sound hg h1.1 h2.1) hx, reduceVar_sound hi (both_sound hg h1.2 h2.2) hx⟩

/-- the common shape of `apply` / `select` / casts: product operation, `reduce()`,
    `reduce_variable(x)` -/
theorem applyLike_inv {g1 : IDom.Env → IDom.Env} {g2 : GDom.Env → GDom.Env} {e : Env} (he : e.Inv)
    (h1 : ∀ f : IDom.Env, f.Sorted → (g1 f).Sorted) (h1b : ∀ f : IDom.Env, f.bottom = true → (g1 f).bottom = true)
    (h2 : ∀ s : GDom.Env, s.Inv → (g2 s).Inv) {x : Var} (hx : x < 2 ^ 64) :
    ((reduceP (both g1 g2 e)).reduceVar x).Inv :=
  reduceVar_inv (reduceP_inv (both_inv he h1 h1b h2)) hx

theorem applyLike_sound {g1 : IDom.Env → IDom.Env} {g2 : GDom.Env → GDom.Env} {e : Env} (he : e.Inv)
    (h1 : ∀ f : IDom.Env, f.Sorted → (g1 f).Sorted) (h1b : ∀ f : IDom.Env, f.bottom = true → (g1 f).bottom = true)
    (h2 : ∀ s : GDom.Env, s.Inv → (g2 s).Inv) {x : Var} (hx : x < 2 ^ 64) {σ σ' : State} (hg : e.γ σ)
    (s1 : IDom.Env.γ (g1 e.f) σ') (s2 : GDom.Env.γ (g2 e.s) σ') : ((reduceP (both g1 g2 e)).reduceVar x).γ σ' :=
  reduceVar_sound (reduceP_inv (both_inv he h1 h1b h2)) (reduceP_sound (both_sound hg s1 s2)) hx

theorem applyVar_inv {e : Env} (he : e.Inv) (op : ArithOp) {x : Var} (hx : x < 2 ^ 64) (y z : Var) :
    (e.applyVar op x y z).Inv :=
  applyLike_inv he (fun f h => IDom.Env.applyVar_inv IDom.Env.sortedInv f _ x y z h) (fun _ h => iset_bot h _ _)
    (fun _ h => GDom.Env.applyVar_inv h op hx y z) hx

theorem applyVar_sound {e : Env} (he : e.Inv) {σ : State} (hg : e.γ σ) (op : ArithOp) {x : Var}
    (hx : x < 2 ^ 64) (y z : Var) {c : Int} (hc : op.conc (σ y) (σ z) = some c) :
    (e.applyVar op x y z).γ (upd σ x c) :=
  applyLike_sound he (fun f h => IDom.Env.applyVar_inv IDom.Env.sortedInv f _ x y z h) (fun _ h => iset_bot h _ _)
    (fun _ h => GDom.Env.applyVar_inv h op hx y z) hx hg
    (IDom.Env.set_sound hg.2.1 ((toIA op).eval_sound (hg.2.1.2 y) (hg.2.1.2 z) (toIA_conc hc)) x)
    (GDom.Env.applyVar_sound he.2.1 hg.2.2 op hx y z hc)

theorem applyCst_inv {e : Env} (he : e.Inv) (op : ArithOp) {x : Var} (hx : x < 2 ^ 64) (y : Var) (k : Int) :
    (e.applyCst op x y k).Inv :=
  applyLike_inv he (fun f h => IDom.Env.applyCst_inv IDom.Env.sortedInv f _ x y k h) (fun _ h => iset_bot h _ _)
    (fun _ h => GDom.Env.applyCst_inv h op hx y k) hx

theorem applyCst_sound {e : Env} (he : e.Inv) {σ : State} (hg : e.γ σ) (op : ArithOp) {x : Var}
    (hx : x < 2 ^ 64) (y : Var) (k : Int) {c : Int} (hc : op.conc (σ y) k = some c) :
    (e.applyCst op x y k).γ (upd σ x c) :=
  applyLike_sound he (fun f h => IDom.Env.applyCst_inv IDom.Env.sortedInv f _ x y k h) (fun _ h => iset_bot h _ _)
    (fun _ h => GDom.Env.applyCst_inv h op hx y k) hx hg
    (IDom.Env.set_sound hg.2.1 ((toIA op).eval_sound (hg.2.1.2 y) ((Itv.mem_single k k).2 rfl) (toIA_conc hc)) x)
    (GDom.Env.applyCst_sound he.2.1 hg.2.2 op hx y k hc)

theorem applyBitVar_inv {e : Env} (he : e.Inv) (op : BitOp) {x : Var} (hx : x < 2 ^ 64) (y z : Var) :
    (e.applyBitVar op x y z).Inv :=
  applyLike_inv he (fun f h => IDom.Env.applyBitVar_inv IDom.Env.sortedInv f _ x y z h) (fun _ h => iset_bot h _ _)
    (fun _ h => GDom.Env.applyBitVar_inv h op hx y z) hx

/-- `apply(bitwise op, x, y, z)`: for `Shl` the modulus of the class of `z` must fit a machine
    word (the side condition of the congruence component, F22) -/
theorem applyBitVar_sound {e : Env} (he : e.Inv) {σ : State} (hg : e.γ σ) (op : BitOp) {x : Var}
    (hx : x < 2 ^ 64) (y z : Var) {c : Int} (hc : op.conc (σ y) (σ z) = some c)
    (hz : op = .shl → (e.s.get z).a < 2 ^ 64) : (e.applyBitVar op x y z).γ (upd σ x c) :=
  applyLike_sound he (fun f h => IDom.Env.applyBitVar_inv IDom.Env.sortedInv f _ x y z h) (fun _ h => iset_bot h _ _)
    (fun _ h => GDom.Env.applyBitVar_inv h op hx y z) hx hg
    (IDom.Env.set_sound hg.2.1 ((toIB op).eval_sound (hg.2.1.2 y) (hg.2.1.2 z) (toIB_conc hc).1 (toIB_conc hc).2) x)
    (GDom.Env.applyBitVar_sound he.2.1 hg.2.2 op hx y z hc hz)

theorem applyBitCst_inv {e : Env} (he : e.Inv) (op : BitOp) {x : Var} (hx : x < 2 ^ 64) (y : Var) (k : Int) :
    (e.applyBitCst op x y k).Inv :=
  applyLike_inv he (fun f h => IDom.Env.applyBitCst_inv IDom.Env.sortedInv f _ x y k h) (fun _ h => iset_bot h _ _)
    (fun _ h => GDom.Env.applyBitCst_inv h op hx y k) hx

theorem applyBitCst_sound {e : Env} (he : e.Inv) {σ : State} (hg : e.γ σ) (op : BitOp) {x : Var}
    (hx : x < 2 ^ 64) (y : Var) (k : Int) {c : Int} (hc : op.conc (σ y) k = some c) :
    (e.applyBitCst op x y k).γ (upd σ x c) :=
  applyLike_sound he (fun f h => IDom.Env.applyBitCst_inv IDom.Env.sortedInv f _ x y k h) (fun _ h => iset_bot h _ _)
    (fun _ h => GDom.Env.applyBitCst_inv h op hx y k) hx hg
    (IDom.Env.set_sound hg.2.1 ((toIB op).eval_sound (hg.2.1.2 y) ((Itv.mem_single k k).2 rfl) (toIB_conc hc).1
      (toIB_conc hc).2) x)
    (GDom.Env.applyBitCst_sound he.2.1 hg.2.2 op hx y k hc)

/-! ### `select`, casts -/

theorem select_inv {e : Env} (he : e.Inv) {lhs : Var} (hx : lhs < 2 ^ 64) {cond : Lin.Cst} (hc : CstOk cond)
    (e1 e2 : Expr) : (e.select lhs cond e1 e2).Inv :=
  applyLike_inv he (fun f h => IDom.Env.select_inv IDom.Env.sortedInv f lhs cond e1 e2 h)
    (fun _ h => iselect_bot h _ _ _ _) (fun _ h => GDom.Env.select_inv h hx hc e1 e2) hx

theorem select_sound {e : Env} (he : e.Inv) {σ : State} (hg : e.γ σ) {lhs : Var} (hx : lhs < 2 ^ 64)
    {cond : Lin.Cst} (hc : CstOk cond) (e1 e2 : Expr) :
    (e.select lhs cond e1 e2).γ (upd σ lhs (if cond.sat σ then e1.eval σ else e2.eval σ)) :=
  applyLike_sound he (fun f h => IDom.Env.select_inv IDom.Env.sortedInv f lhs cond e1 e2 h)
    (fun _ h => iselect_bot h _ _ _ _) (fun _ h => GDom.Env.select_inv h hx hc e1 e2) hx hg
    (IDom.Env.select_sound hg.2.1 lhs hc.1 e1 e2) (GDom.Env.select_sound he.2.1 hg.2.2 hx hc e1 e2)

theorem intCast_inv {e : Env} (he : e.Inv) (zext : Bool) (bw : Nat) {dst : Var} (hd : dst < 2 ^ 64) (src : Var) :
    (e.intCast zext bw dst src).Inv :=
  applyLike_inv he (fun f h => IDom.Env.intCast_inv IDom.Env.sortedInv f zext bw dst src h)
    (fun _ h => icast_bot h _ _ _ _) (fun _ h => GDom.Env.intCast_inv h zext bw hd src) hd

theorem intCast_sound {e : Env} (he : e.Inv) {σ : State} (hg : e.γ σ) (zext : Bool) (bw : Nat) {dst : Var}
    (hd : dst < 2 ^ 64) (src : Var) (hz : zext = true → σ src ≤ 2 ^ bw - 1) :
    (e.intCast zext bw dst src).γ (upd σ dst (σ src)) :=
  applyLike_sound he (fun f h => IDom.Env.intCast_inv IDom.Env.sortedInv f zext bw dst src h)
    (fun _ h => icast_bot h _ _ _ _) (fun _ h => GDom.Env.intCast_inv h zext bw hd src) hd hg
    (IDom.Env.intCast_sound hg.2.1 zext bw dst src hz) (GDom.Env.intCast_sound he.2.1 hg.2.2 zext bw hd src hz)

/-! ### `+=` -/

theorem reduceVars_spec : ∀ (vs : List Var), (∀ v ∈ vs, v < 2 ^ 64) → ∀ e : Env, e.Inv →
    (reduceVars vs e).Inv ∧ ∀ σ : State, e.γ σ → (reduceVars vs e).γ σ := by
  intro vs
  induction vs with
  | nil => intro _ e he; exact ⟨he, fun _ hg => hg⟩
  | cons v rest ih =>
    intro hv e he
    have hv0 := hv v List.mem_cons_self
    have i1 := reduceVar_inv he hv0
    simp only [reduceVars]
    split
    · exact ⟨i1, fun σ hg => reduceVar_sound he hg hv0⟩
    · obtain ⟨i2, s2⟩ := ih (fun w hw => hv w (List.mem_cons_of_mem _ hw)) _ i1
      exact ⟨i2, fun σ hg => s2 σ (reduceVar_sound he hg hv0)⟩

theorem reduceCsts_spec : ∀ (csts : List Lin.Cst), (∀ c ∈ csts, CstOk c) → ∀ e : Env, e.Inv →
    (reduceCsts csts e).Inv ∧ ∀ σ : State, e.γ σ → (reduceCsts csts e).γ σ := by
  intro csts
  induction csts with
  | nil => intro _ e he; exact ⟨he, fun _ hg => hg⟩
  | cons c rest ih =>
    intro hok e he
    have hvars : ∀ v ∈ c.expr.variables, v < 2 ^ 64 := by
      intro v hv
      unfold Expr.variables at hv
      obtain ⟨p, hp, rfl⟩ := List.mem_map.mp hv
      exact (hok c List.mem_cons_self).2 p hp
    obtain ⟨i1, s1⟩ := reduceVars_spec _ hvars e he
    simp only [reduceCsts]
    split
    · exact ⟨i1, s1⟩
    · obtain ⟨i2, s2⟩ := ih (fun c' h => hok c' (List.mem_cons_of_mem _ h)) _ i1
      exact ⟨i2, fun σ hg => s2 σ (s1 σ hg)⟩

theorem add_inv {e : Env} (he : e.Inv) {csts : Sys} (hok : ∀ c ∈ csts, CstOk c) : (e.add csts).Inv := by
  have i1 := reduceP_inv (both_inv (g1 := fun f => f.add csts) (g2 := fun s => s.add csts) he
    (fun f h => IDom.Env.add_inv IDom.Env.sortedInv f csts h) (fun _ h => iadd_bot h csts)
    (fun _ h => GDom.Env.add_inv h hok))
  unfold add
  simp only
  split
  · exact (reduceCsts_spec csts hok _ i1).1
  · exact i1

/-- `operator+=(csts)`: every state of `γ` that satisfies the system is kept -/
theorem add_sound {e : Env} (he : e.Inv) {σ : State} (hg : e.γ σ) {csts : Sys} (hok : ∀ c ∈ csts, CstOk c)
    (hsat : Sys.sat csts σ) : (e.add csts).γ σ := by
  have i1 := reduceP_inv (both_inv (g1 := fun f => f.add csts) (g2 := fun s => s.add csts) he
    (fun f h => IDom.Env.add_inv IDom.Env.sortedInv f csts h) (fun _ h => iadd_bot h csts)
    (fun _ h => GDom.Env.add_inv h hok))
  have g1 := reduceP_sound (both_sound (g1 := fun f => f.add csts) (g2 := fun s => s.add csts) hg
    (IDom.Env.add_sound hg.2.1 (canonical_of_ok hok) hsat) (GDom.Env.add_sound he.2.1 hg.2.2 hok hsat))
  unfold add
  simp only
  split
  · exact (reduceCsts_spec csts hok _ i1).2 σ g1
  · exact g1

end Env
end RDom
end Crab
