import CrabProofs.Lemmas.FunctorVPartLat

/-!
`value_partitioning_domain` over an arbitrary base: `apply_binary_op` as an upper bound and as a
lower bound, `&`, `&&`, `||`, `operator<=`.
-/
namespace Crab
namespace Dom
namespace Fct
namespace VP
set_option linter.unusedSectionVars false

variable {V S : Type} [DecidableEq V] {D : VDom V S}

/-- a sound lower-bound operator of the base (`&`, `&&`) -/
def LSound (D : VDom V S) (g : D.B → D.B → D.B) : Prop := ∀ x y s, D.γ x s → D.γ y s → D.γ (g x y) s

theorem lSound_meet : LSound D D.meet := D.meet_sound
theorem lSound_narrow : LSound D D.narrow := D.narrow_sound

/-- what the element-wise branch needs to be a lower bound on the operands `a`, `b` -/
def ZipLower (dop : D.B → D.B → D.B) (a b : VP D) : Prop :=
  a.var = b.var → hasSame a b = true → ∀ s, γl a.parts s → γl b.parts s → γl (zipOp dop a.parts b.parts) s

theorem applyBin_upper (iop : Itv → Itv → Itv) {w : D.B → D.B → D.B} (hw : D.USound w) {a b : VP D}
    (ha : Inv a) (hb : Inv b) (s : S) (h : γ a s ∨ γ b s) : γ (applyBin iop w a b) s := by
  unfold applyBin
  split
  · rename_i hv
    simp only [Bool.and_eq_true, Option.isNone_iff_eq_none] at hv
    obtain ⟨p, hp⟩ := ha.single hv.1
    obtain ⟨q, hq⟩ := hb.single hv.2
    show γl (onFirst _ a.parts) s
    rw [hp, hq, onFirst_single]
    refine ⟨_, List.mem_singleton.2 rfl, hw _ _ _ ?_⟩
    rcases h with ⟨p', hp', hg⟩ | ⟨q', hq', hg⟩
    · rw [hp, List.mem_singleton] at hp'; subst hp'; exact Or.inl hg
    · rw [hq, List.mem_singleton] at hq'; subst hq'; exact Or.inr hg
  · split
    · obtain ⟨p0, hp0, h0⟩ := removeParts_single ha
      show γl (onFirst _ (removeParts a).parts) s
      rw [hp0, onFirst_single]
      refine ⟨_, List.mem_singleton.2 rfl, hw _ _ _ ?_⟩
      rcases h with h | h
      · exact Or.inl (h0 s h)
      · exact Or.inr (mergeParts_sound h)
    · split
      · rename_i hs
        simp only [hasSame, Bool.and_eq_true] at hs
        exact zipOp_upper w hw _ _ s hs.2 h
      · refine ⟨_, List.mem_singleton.2 rfl, hw _ _ _ ?_⟩
        rcases h with h | h
        · exact Or.inl (mergeParts_sound h)
        · exact Or.inr (mergeParts_sound h)

theorem applyBin_lower (iop : Itv → Itv → Itv) {g : D.B → D.B → D.B} (hg : LSound D g) {a b : VP D}
    (ha : Inv a) (hb : Inv b) (hz : ZipLower g a b) (s : S) (h1 : γ a s) (h2 : γ b s) :
    γ (applyBin iop g a b) s := by
  unfold applyBin
  split
  · rename_i hv
    simp only [Bool.and_eq_true, Option.isNone_iff_eq_none] at hv
    obtain ⟨p, hp⟩ := ha.single hv.1
    obtain ⟨q, hq⟩ := hb.single hv.2
    show γl (onFirst _ a.parts) s
    rw [hp, hq, onFirst_single]
    refine ⟨_, List.mem_singleton.2 rfl, hg _ _ _ ?_ ?_⟩
    · obtain ⟨p', hp', hx⟩ := h1
      rw [hp, List.mem_singleton] at hp'; subst hp'; exact hx
    · obtain ⟨q', hq', hx⟩ := h2
      rw [hq, List.mem_singleton] at hq'; subst hq'; exact hx
  · split
    · obtain ⟨p0, hp0, h0⟩ := removeParts_single ha
      show γl (onFirst _ (removeParts a).parts) s
      rw [hp0, onFirst_single]
      exact ⟨_, List.mem_singleton.2 rfl, hg _ _ _ (h0 s h1) (mergeParts_sound h2)⟩
    · split
      · rename_i hne hs
        exact hz (Decidable.of_not_not hne) hs s h1 h2
      · exact ⟨_, List.mem_singleton.2 rfl, hg _ _ _ (mergeParts_sound h1) (mergeParts_sound h2)⟩

theorem applyBin_inv (iop : Itv → Itv → Itv) (g : D.B → D.B → D.B) {a b : VP D} (ha : Inv a) (_hb : Inv b) :
    Inv (applyBin iop g a b) := by
  unfold applyBin
  split
  · rename_i hv
    simp only [Bool.and_eq_true, Option.isNone_iff_eq_none] at hv
    exact ⟨onFirst_ne_nil _ ha.1, fun _ => by
      show (onFirst _ a.parts).length = 1
      rw [onFirst_length]; exact ha.2 hv.1⟩
  · split
    · have hr := removeParts_inv ha
      exact ⟨onFirst_ne_nil _ hr.1, fun _ => by
        show (onFirst _ (removeParts a).parts).length = 1
        rw [onFirst_length]; exact hr.2 (removeParts_var a)⟩
    · split
      · rename_i hn hne hs
        simp only [hasSame, Bool.and_eq_true] at hs
        refine ⟨zipOp_ne_nil g hs.2 ha.1, fun hv => ?_⟩
        exfalso
        have hva : a.var = none := hv
        have hvb : b.var = none := by
          have : a.var = b.var := Decidable.of_not_not hne
          rw [← this]; exact hva
        apply hn
        simp [hva, hvb]
      · exact inv_single _ _

/-- the element-wise branch is harmless on a single partition -/
theorem zipLower_of_short {g : D.B → D.B → D.B} (hg : LSound D g) {a b : VP D}
    (h : a.parts.length ≤ 1) : ZipLower g a b := by
  intro _ hs s h1 h2
  simp only [hasSame, Bool.and_eq_true] at hs
  have hl := sameKeys_length hs.2
  match hp : a.parts, hq : b.parts with
  | [], _ => rw [hp] at h1; exact absurd h1 (γl_nil s)
  | [p], [q] =>
    rw [hp] at h1; rw [hq] at h2
    simp only [zipOp]
    refine ⟨_, List.mem_singleton.2 rfl, hg _ _ _ ?_ ?_⟩
    · obtain ⟨p', hp', hx⟩ := h1
      rw [List.mem_singleton] at hp'; subst hp'; exact hx
    · obtain ⟨q', hq', hx⟩ := h2
      rw [List.mem_singleton] at hq'; subst hq'; exact hx
  | [p], [] => rw [hp, hq] at hl; simp at hl
  | [p], _ :: _ :: _ => rw [hp, hq] at hl; simp at hl
  | _ :: _ :: _, _ => rw [hp] at h; simp at h

/-! ### `&`, `&&`, `||` -/

theorem meet_sound_of {a b : VP D} (ha : Inv a) (hb : Inv b) (hz : ZipLower D.meet a b) (s : S)
    (h1 : γ a s) (h2 : γ b s) : γ (meet a b) s := by
  unfold meet
  split
  · exact h1
  · split
    · exact h2
    · exact applyBin_lower _ lSound_meet ha hb hz s h1 h2

theorem narrow_sound_of {a b : VP D} (ha : Inv a) (hb : Inv b) (hz : ZipLower D.narrow a b) (s : S)
    (h1 : γ a s) (h2 : γ b s) : γ (narrow a b) s := by
  unfold narrow
  split
  · exact h1
  · split
    · exact h2
    · exact applyBin_lower _ lSound_narrow ha hb hz s h1 h2

theorem meet_inv {a b : VP D} (ha : Inv a) (hb : Inv b) : Inv (meet a b) := by
  unfold meet
  split
  · exact ha
  · split
    · exact hb
    · exact applyBin_inv _ _ ha hb

theorem narrow_inv {a b : VP D} (ha : Inv a) (hb : Inv b) : Inv (narrow a b) := by
  unfold narrow
  split
  · exact ha
  · split
    · exact hb
    · exact applyBin_inv _ _ ha hb

theorem widenWith_sound (t : D.TopSound) (iw : Itv → Itv → Itv) {w : D.B → D.B → D.B} (hw : D.USound w)
    {a b : VP D} (ha : Inv a) (hb : Inv b) (s : S) (h : γ a s ∨ γ b s) : γ (widenWith iw w a b) s := by
  unfold widenWith
  split
  · rename_i hc
    simp only [Bool.or_eq_true] at hc
    rcases hc with hc | hc
    · rcases h with h | h
      · exact absurd h (not_γ_of_isBottom hc s)
      · exact h
    · exact γ_of_isTop t hb.1 hc s
  · split
    · rename_i hc
      simp only [Bool.or_eq_true] at hc
      rcases hc with hc | hc
      · rcases h with h | h
        · exact h
        · exact absurd h (not_γ_of_isBottom hc s)
      · exact γ_of_isTop t ha.1 hc s
    · exact applyBin_upper iw hw ha hb s h

theorem widenWith_inv (iw : Itv → Itv → Itv) (w : D.B → D.B → D.B) {a b : VP D} (ha : Inv a) (hb : Inv b) :
    Inv (widenWith iw w a b) := by
  unfold widenWith
  split
  · exact hb
  · split
    · exact ha
    · exact applyBin_inv _ _ ha hb

/-! ### `operator<=` -/

theorem leqReach_sound (p : Part D) (qs : List (Part D)) (h : leqReach p qs = true) :
    ∃ q ∈ qs, D.leq p.val q.val = true := by
  induction qs with
  | nil => simp [leqReach] at h
  | cons q qs ih =>
    simp only [leqReach] at h
    split at h
    · simp only [Bool.or_eq_true] at h
      rcases h with h | h
      · exact ⟨q, List.mem_cons_self, h⟩
      · obtain ⟨q', hq', hl⟩ := ih h
        exact ⟨q', List.mem_cons_of_mem _ hq', hl⟩
    · cases h

theorem leqOne_sound (p : Part D) (k : List (Part D) → Bool) (r : List (Part D))
    (h : leqOne p k r = true) :
    (∀ s, D.γ p.val s → γl r s) ∧ ∃ r', (∀ q, q ∈ r' → q ∈ r) ∧ k r' = true := by
  induction r with
  | nil =>
    simp only [leqOne] at h
    split at h
    · cases h
    · rename_i hb
      simp only [Bool.not_eq_true', Bool.not_eq_false] at hb
      exact ⟨fun s hg => absurd hg (D.isBot_sound _ s hb), [], fun _ hq => hq, h⟩
  | cons q qs ih =>
    simp only [leqOne] at h
    split at h
    · split at h
      · cases h
      · rename_i hb
        simp only [Bool.not_eq_true', Bool.not_eq_false] at hb
        exact ⟨fun s hg => absurd hg (D.isBot_sound _ s hb), q :: qs, fun _ hq => hq, h⟩
    · split at h
      · obtain ⟨h1, r', hr', hk⟩ := ih h
        exact ⟨fun s hg => γl_mono (fun _ hx => List.mem_cons_of_mem _ hx) (h1 s hg), r',
          fun x hx => List.mem_cons_of_mem _ (hr' x hx), hk⟩
      · split at h
        · split at h
          · cases h
          · rename_i hl
            simp only [Bool.not_eq_true', Bool.not_eq_false] at hl
            exact ⟨fun s hg => ⟨q, List.mem_cons_self, D.leq_sound _ _ s hl hg⟩, q :: qs, fun _ hq => hq, h⟩
        · split at h
          · cases h
          · rename_i hl
            simp only [Bool.not_eq_true', Bool.not_eq_false, Bool.or_eq_true] at hl
            refine ⟨fun s hg => ?_, qs, fun x hx => List.mem_cons_of_mem _ hx, h⟩
            rcases hl with hl | hl
            · exact ⟨q, List.mem_cons_self, D.leq_sound _ _ s hl hg⟩
            · obtain ⟨q', hq', hl'⟩ := leqReach_sound p qs hl
              exact ⟨q', List.mem_cons_of_mem _ hq', D.leq_sound _ _ s hl' hg⟩

theorem leqSame_sound (l r : List (Part D)) (h : leqSame l r = true) (s : S) (hg : γl l s) : γl r s := by
  induction l generalizing r with
  | nil => exact absurd hg (γl_nil s)
  | cons p ps ih =>
    simp only [leqSame] at h
    obtain ⟨h1, r', hr', hk⟩ := leqOne_sound p (leqSame ps) r h
    rcases (γl_cons p ps s).1 hg with h2 | h2
    · exact h1 s h2
    · exact γl_mono hr' (ih r' hk h2)

theorem leq_sound (t : D.TopSound) {a b : VP D} (ha : Inv a) (hb : Inv b) (h : leq a b = true) (s : S)
    (hg : γ a s) : γ b s := by
  unfold leq at h
  split at h
  · rename_i hc; exact absurd hg (not_γ_of_isBottom hc s)
  · split at h
    · rename_i hc; exact γ_of_isTop t hb.1 hc s
    · split at h
      · rename_i hv
        simp only [Bool.and_eq_true, Option.isNone_iff_eq_none] at hv
        obtain ⟨p, hp⟩ := ha.single hv.1
        obtain ⟨q, hq⟩ := hb.single hv.2
        rw [hp, hq] at h
        obtain ⟨p', hp', hx⟩ := hg
        rw [hp, List.mem_singleton] at hp'; subst hp'
        exact ⟨q, by rw [hq]; exact List.mem_singleton.2 rfl, D.leq_sound _ _ s h hx⟩
      · split at h
        · obtain ⟨p, hp, hx⟩ := hg
          have := List.all_eq_true.1 h p hp
          simp only [Bool.or_eq_true, List.any_eq_true] at this
          rcases this with hb' | ⟨q, hq, hl⟩
          · exact absurd hx (D.isBot_sound _ s hb')
          · exact ⟨q, hq, D.leq_sound _ _ s hl hx⟩
        · exact leqSame_sound _ _ h s hg

end VP
end Fct
end Dom
end Crab
