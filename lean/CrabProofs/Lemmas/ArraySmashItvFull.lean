import CrabProofs.Lemmas.ArraySmashItvMeet

/-!
  Step obligations of EVERY operation of the exact model of `array_smashing<interval_domain>`
  (meet included) relative to the invariant `Inv2` and the concretisation `γ2`, for the steps
  `XOp.toStepC` whose concrete relation of `array_init` contains the client contract "the range is
  not empty", and for operations that respect `XOp.SizeOk` (`array_assign` between arrays of the
  same element size).
-/
namespace Crab
namespace Dom
namespace SmashItv
open Crab.Dom.Arr Crab.IDom

/-- `array_assign` only between arrays of the same element size -/
def XOp.SizeOk (esz : Nat → Nat) : XOp → Prop
  | .aAssign _ lhs rhs => esz lhs = esz rhs
  | _ => True

instance (esz : Nat → Nat) (o : XOp) : Decidable (o.SizeOk esz) := by
  cases o <;> simp only [XOp.SizeOk] <;> exact inferInstance

/-- the steps of `XOp.toStep` with the client contract of `array_init` (at least one cell is
    initialised: `lb ≤ ub`) in its concrete relation -/
def XOp.toStepC (esz : Nat → Nat) : XOp → Step St CState
  | .aInit d a lb ub val =>
    .trans d ⟨fun st => st.arrayInit (esz a) a val,
              fun s s' => cInit (esz a) a lb.eval ub.eval val.eval s = some s' ∧ lb.eval s.iv ≤ ub.eval s.iv⟩
  | o => o.toStep esz

def toHistC (esz : Nat → Nat) (ops : List XOp) : List (Step St CState) := ops.map (XOp.toStepC esz)

variable {esz : Nat → Nat}

theorem sizesOk_same {st st' : St} (e : st'.sizes = st.sizes) (h : SizesOk esz st) : SizesOk esz st' := by
  intro a k hk; rw [e] at hk; exact h a k hk

theorem ne_same {st st' : St} {s s' : CState} (e : st'.sizes = st.sizes) (ea : s'.ar = s.ar) (h : NE esz st s) :
    NE esz st' s' := by
  intro a ha; rw [e] at ha; rw [ea]; exact h a ha

theorem arrayLoad_sizes (st : St) (k x a : Nat) : (st.arrayLoad k x a).sizes = st.sizes := by
  unfold St.arrayLoad; split <;> rfl

theorem arrayStoreRange_sizes (st : St) (k a : Nat) (val : SLin) : (st.arrayStoreRange k a val).sizes = st.sizes := by
  unfold St.arrayStoreRange; split <;> rfl

theorem inv2_top : Inv2 esz St.top := ⟨inv_top, sizesOk_top, nd_top⟩

theorem γ2_top (s : CState) : γ2 esz St.top s :=
  ⟨γx_top s, fun a h => by simp [St.top, SzEnv.top, SzEnv.constSize, SzMap.find] at h⟩

theorem not_γ2_bottom {st : St} {s : CState} (hb : st.isBottom = true) : ¬ γ2 esz st s :=
  fun h => absurd (γx_at h.1).1 (by simp [hb])

/-- every operation, meet included -/
theorem step_soundInv2 (esz : Nat → Nat) (o : XOp) (hs : o.SizeOk esz) :
    (o.toStepC esz).SoundInv (Inv2 esz) (γ2 esz) := by
  cases o with
  | top d => exact fun a _ => ⟨inv2_top, fun _ s' _ _ => γ2_top s'⟩
  | copy d s => trivial
  | meet d a b =>
    intro x y hx hy
    exact ⟨inv2_meet hx hy, fun s g1 g2 => ⟨meet_sound hx hy g1 g2, ne_meet hx hy g1.2 g2.2⟩⟩
  | join d a b =>
    intro x y hx hy
    have h0 := step_soundInv esz (XOp.join d a b) rfl x y hx.1 hy.1
    refine ⟨⟨h0.1, (sizesOk_join hx.1 hy.1 hx.2.1 hy.2.1).1, (nd_join esz hx.1 hy.1 hx.2.1 hy.2.1 hx.2.2 hy.2.2).1⟩,
      fun s h => ⟨h0.2 s (h.elim (fun g => Or.inl g.1) (fun g => Or.inr g.1)), ?_⟩⟩
    show NE esz (St.join x y) s
    cases na : x.isBottom with
    | true => rw [join_bottom_l na]; exact h.elim (fun g => absurd g (not_γ2_bottom na)) (fun g => g.2)
    | false =>
      cases nb : y.isBottom with
      | true => rw [join_bottom_r na nb]; exact h.elim (fun g => g.2) (fun g => absurd g (not_γ2_bottom nb))
      | false =>
        have e : St.join x y = ⟨SzEnv.join x.sizes y.sizes, IDom.Env.join x.base y.base⟩ := by
          simp [St.join, na, nb]
        rw [e]; exact ne_upper hx.1 hy.1 _ (h.elim (fun g => Or.inl g.2) (fun g => Or.inr g.2))
  | widen d a b =>
    intro x y hx hy
    have h0 := step_soundInv esz (XOp.widen d a b) rfl x y hx.1 hy.1
    refine ⟨⟨h0.1, (sizesOk_join hx.1 hy.1 hx.2.1 hy.2.1).2, (nd_join esz hx.1 hy.1 hx.2.1 hy.2.1 hx.2.2 hy.2.2).2⟩,
      fun s h => ⟨h0.2 s (h.elim (fun g => Or.inl g.1) (fun g => Or.inr g.1)), ?_⟩⟩
    show NE esz (St.widen x y) s
    cases na : x.isBottom with
    | true => rw [widen_bottom_l na]; exact h.elim (fun g => absurd g (not_γ2_bottom na)) (fun g => g.2)
    | false =>
      cases nb : y.isBottom with
      | true => rw [widen_bottom_r na nb]; exact h.elim (fun g => g.2) (fun g => absurd g (not_γ2_bottom nb))
      | false =>
        have e : St.widen x y = ⟨SzEnv.join x.sizes y.sizes, IDom.Env.widen x.base y.base⟩ := by
          simp [St.widen, na, nb]
        rw [e]; exact ne_upper hx.1 hy.1 _ (h.elim (fun g => Or.inl g.2) (fun g => Or.inr g.2))
  | assign d x e =>
    intro st hI
    have h0 := step_soundInv esz (XOp.assign d x e) rfl st hI.1
    refine ⟨⟨h0.1, sizesOk_same rfl hI.2.1, nd_assign hI.2.2 x e⟩, fun s s' hg hr => ⟨h0.2 s s' hg.1 hr, ?_⟩⟩
    simp only at hr; subst hr
    exact ne_same rfl rfl hg.2
  | assume d cs =>
    intro st hI
    have h0 := step_soundInv esz (XOp.assume d cs) rfl st hI.1
    refine ⟨⟨h0.1, sizesOk_same rfl hI.2.1, nd_assume hI.2.2 cs⟩, fun s s' hg hr => ⟨h0.2 s s' hg.1 hr, ?_⟩⟩
    obtain ⟨_, rfl⟩ := hr
    exact ne_same rfl rfl hg.2
  | forget d x =>
    intro st hI
    have h0 := step_soundInv esz (XOp.forget d x) rfl st hI.1
    refine ⟨⟨h0.1, sizesOk_same rfl hI.2.1, nd_forget hI.2.2 x⟩, fun s s' hg hr => ⟨h0.2 s s' hg.1 hr, ?_⟩⟩
    obtain ⟨v, rfl⟩ := hr
    exact ne_same rfl rfl hg.2
  | aInit d a lb ub val =>
    intro st hI
    have h0 := step_soundInv esz (XOp.aInit d a lb ub val) rfl st hI.1
    exact ⟨⟨h0.1, sizesOk_set hI.1 hI.2.1 a _, nd_arrayInit hI.1 hI.2.2 _ a val⟩,
      fun s s' hg hr => ⟨h0.2 s s' hg.1 hr.1, ne_arrayInit hI.1 hg.2 a lb ub val hr.1 hr.2⟩⟩
  | aStore d a i val strong =>
    intro st hI
    have h0 := step_soundInv esz (XOp.aStore d a i val strong) rfl st hI.1
    exact ⟨⟨h0.1, sizesOk_arrayStore hI.1 hI.2.1 a val strong, nd_arrayStore hI.1 hI.2.2 _ a val strong⟩,
      fun s s' hg hr => ⟨h0.2 s s' hg.1 hr, ne_arrayStore hI.1 hg.2 a i val strong hr.1⟩⟩
  | aStoreRange d a lb ub val =>
    intro st hI
    have h0 := step_soundInv esz (XOp.aStoreRange d a lb ub val) rfl st hI.1
    exact ⟨⟨h0.1, sizesOk_same (arrayStoreRange_sizes st _ a val) hI.2.1, nd_arrayStoreRange hI.1 hI.2.2 _ a val⟩,
      fun s s' hg hr => ⟨h0.2 s s' hg.1 hr, ne_arrayStoreRange hg.2 a lb ub val hr⟩⟩
  | aLoad d x a i =>
    intro st hI
    have h0 := step_soundInv esz (XOp.aLoad d x a i) rfl st hI.1
    refine ⟨⟨h0.1, sizesOk_same (arrayLoad_sizes st _ x a) hI.2.1, nd_arrayLoad hI.2.2 _ x a⟩,
      fun s s' hg hr => ⟨h0.2 s s' hg.1 hr, ?_⟩⟩
    have hr' : cLoad (esz a) x a i.eval s = some s' := hr
    unfold cLoad at hr'
    split at hr'
    · exact absurd hr' (by simp)
    · split at hr'
      · exact absurd hr' (by simp)
      · have e : s' = s.setVar x _ := (Option.some.inj hr').symm
        rw [e]; exact ne_same (arrayLoad_sizes st _ x a) rfl hg.2
  | aAssign d lhs rhs =>
    intro st hI
    have h0 := step_soundInv esz (XOp.aAssign d lhs rhs) rfl st hI.1
    exact ⟨⟨h0.1, sizesOk_arrayAssign hI.1 hI.2.1 lhs rhs hs, nd_arrayAssign hI.1 hI.2.2 lhs rhs⟩,
      fun s s' hg hr => ⟨h0.2 s s' hg.1 hr, ne_arrayAssign hI.1 hI.2.1 hg.2 lhs rhs hr.2⟩⟩

end SmashItv
end Dom
end Crab
