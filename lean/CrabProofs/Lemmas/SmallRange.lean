import CrabModel.Scalar.SmallRange

/-!
  Soundness of the `small_range` operations (model `CrabModel/Scalar/SmallRange.lean`)
  w.r.t. the two readings of the abstract counter:
    `γ  : SmallRange → Nat → Prop`          the value of the counter,
    `γV : SmallRange → (Nat → Prop) → Prop` the set of counted variables.
-/
namespace Crab
namespace SmallRange

theorem join_isSome (a b : SmallRange) : (join a b).isSome = true := by
  cases a <;> cases b <;> simp [join, isBottom, isTop, isZero, joinZeroWith, joinOneWith,
    joinZeroOrOneWith, joinOneOrMoreWith] <;> split <;> rfl

theorem meet_isSome (a b : SmallRange) : (meet a b).isSome = true := by
  cases a <;> cases b <;> simp [meet, isBottom, isTop, isZero, meetZeroWith, meetOneWith,
    meetZeroOrOneWith, meetOneOrMoreWith] <;> split <;> rfl

/-- join is an upper bound for the counter reading -/
theorem join_sound {a b r : SmallRange} {n : Nat} (h : γ a n ∨ γ b n) (hj : join a b = some r) : γ r n := by
  cases a <;> cases b <;>
    simp [join, isBottom, isTop, isZero, joinZeroWith, joinOneWith, joinZeroOrOneWith,
      joinOneOrMoreWith] at hj <;>
    (try (split at hj)) <;> (try (simp at hj)) <;> (try subst hj) <;> simp [γ] at h ⊢ <;> omega

/-- join is an upper bound for the variable-set reading -/
theorem joinV_sound {a b r : SmallRange} {S : Nat → Prop} (h : γV a S ∨ γV b S) (hj : join a b = some r) : γV r S := by
  cases a <;> cases b <;>
    simp [join, isBottom, isTop, isZero, joinZeroWith, joinOneWith, joinZeroOrOneWith,
      joinOneOrMoreWith] at hj <;>
    (try (split at hj)) <;> (try (simp at hj)) <;> (try subst hj) <;> simp [γV] at h ⊢
  all_goals first
    | exact h
    | grind
    | (rcases h with h | h <;> first
        | exact h
        | exact ⟨_, (h _).2 rfl⟩
        | (obtain ⟨x, hx⟩ := h; exact ⟨x, hx⟩)
        | grind)

/-- meet is a lower bound for the variable-set reading -/
theorem meetV_sound {a b r : SmallRange} {S : Nat → Prop} (ha : γV a S) (hb : γV b S) (hm : meet a b = some r) : γV r S := by
  cases a <;> cases b <;>
    simp [meet, isBottom, isTop, isZero, meetZeroWith, meetOneWith, meetZeroOrOneWith,
      meetOneOrMoreWith] at hm <;>
    (try (split at hm)) <;> (try (simp at hm)) <;> (try subst hm) <;> simp [γV] at ha hb ⊢
  all_goals first
    | exact ha
    | exact hb
    | exact absurd ((hb _).2 rfl) (ha _)
    | exact absurd ((ha _).2 rfl) (hb _)
    | (rename_i h; first
        | exact h ((hb _).1 ((ha _).2 rfl))
        | exact h (hb _ ((ha _).2 rfl))
        | exact h (ha _ ((hb _).2 rfl)))
    | grind

/-- the two operands speak about the same variable (whenever both name one) -/
def sameVar : SmallRange → SmallRange → Bool
  | one v, one w => v == w
  | one v, zeroOrOne w => v == w
  | zeroOrOne v, one w => v == w
  | zeroOrOne v, zeroOrOne w => v == w
  | _, _ => true

/-- meet is a lower bound for the counter reading when the operands name the same variable -/
theorem meet_sound_partial {a b r : SmallRange} {n : Nat} (hv : sameVar a b = true)
    (ha : γ a n) (hb : γ b n) (hm : meet a b = some r) : γ r n := by
  cases a <;> cases b <;>
    simp [meet, isBottom, isTop, isZero, meetZeroWith, meetOneWith, meetZeroOrOneWith,
      meetOneOrMoreWith, sameVar] at hm hv <;>
    (try (split at hm)) <;> (try (simp at hm)) <;> (try subst hm) <;> simp [γ] at ha hb ⊢ <;>
    (first | omega | (rename_i h; exact absurd hv h) | (rename_i h; exact absurd hv.symm h))

/-- `increment` counts one more object -/
theorem increment_sound {a : SmallRange} {n v : Nat} (h : γ a n) : γ (increment a v) (n + 1) := by
  cases a <;> simp [increment, γ] at h ⊢ <;> omega

/-- an increment that does not add a new object (the counter is already at least one) -/
theorem increment_same {a : SmallRange} {n v : Nat} (h : γ a n) (hn : 1 ≤ n) : γ (increment a v) n := by
  cases a <;> simp [increment, γ] at h ⊢ <;> omega

/-- `increment` for the variable-set reading: `v` joins the set -/
theorem incrementV_sound {a : SmallRange} {S : Nat → Prop} {v : Nat} (h : γV a S) :
    γV (increment a v) (fun x => S x ∨ x = v) := by
  cases a with
  | bottom => exact h
  | zero =>
    simp only [increment, γV] at h ⊢
    intro x; constructor
    · rintro (hx | hx)
      · exact absurd hx (h x)
      · exact hx
    · intro hx; exact Or.inr hx
  | one w => exact ⟨v, Or.inr rfl⟩
  | zeroOrOne w => exact ⟨v, Or.inr rfl⟩
  | zeroOrMore => exact ⟨v, Or.inr rfl⟩
  | oneOrMore => exact ⟨v, Or.inr rfl⟩

/-- the old `increment` agrees with the fixed one except on `1(v)` incremented with `v` -/
theorem incrementOld_eq {a : SmallRange} {v : Nat} (hne : a ≠ one v) : incrementOld a v = increment a v := by
  cases a with
  | one w =>
    by_cases hw : w = v
    · subst hw; exact absurd rfl hne
    · simp [incrementOld, increment, hw]
  | _ => rfl

/-- `operator<=` never reaches CRAB_ERROR -/
theorem leq_isSome (a b : SmallRange) : (leq a b).isSome = true := by
  cases a <;> cases b <;> simp [leq, isBottom, isTop] <;> (try split) <;> rfl

/-- `operator<=` answers yes only for included values -/
theorem leq_sound {a b : SmallRange} {n : Nat} (h : leq a b = some true) (ha : γ a n) : γ b n := by
  cases a <;> cases b <;> simp [leq, isBottom, isTop] at h ⊢ <;> simp [γ] at ha ⊢ <;> omega

/-- the same for the set reading -/
theorem leqV_sound {a b : SmallRange} {S : Nat → Prop} (h : leq a b = some true) (ha : γV a S) : γV b S := by
  cases a <;> cases b <;> simp [leq, isBottom, isTop] at h ⊢ <;> simp [γV] at ha ⊢
  all_goals first
    | exact ha
    | (subst h; exact ha)
    | (subst h; intro x hx; exact (ha x).1 hx)
    | (intro x hx; exact absurd hx (ha x))
    | exact ⟨_, (ha _).2 rfl⟩
    | grind

end SmallRange
end Crab
