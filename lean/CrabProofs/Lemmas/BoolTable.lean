import CrabModel.Scalar.Sign

/-! Lifting of the per-entry side condition of the `boolean_value` table. -/
namespace Crab
namespace BoolV

theorem mem_iff (b : Bool) (v : BoolV) : mem b v ↔ v.has b = true := Iff.rfl
theorem mem_bools (b : Bool) : b ∈ bools := by cases b <;> decide
theorem mem_all (v : BoolV) : v ∈ all := by cases v <;> decide

theorem binop_mem {op : BOp} {x y res : BoolV} (h : binop op x y = some res) :
    (op, x, y, some res) ∈ Gen.boolTable := by
  unfold binop at h
  split at h
  · rename_i o' x' y' r hget
    split at h
    · rename_i hk
      obtain ⟨h1, h2, h3⟩ := hk
      subst h1; subst h2; subst h3; subst h
      exact List.mem_of_getElem? hget
    · cases h
  · cases h

theorem entryOk_sound {op : BOp} {x y res : BoolV} (hok : entryOk op x y res = true)
    {a b r : Bool} (hx : mem a x) (hy : mem b y) (hc : op.conc a b = some r) : mem r res := by
  have hok' : bools.all (fun a => bools.all (fun b =>
      !(x.has a && y.has b) || (match op.conc a b with | some c => res.has c | none => true))) = true := by
    cases op <;> first | exact hok | cases hc
  have h1 := List.all_eq_true.mp hok' a (mem_bools a)
  have h2 := List.all_eq_true.mp h1 b (mem_bools b)
  rw [(mem_iff a x).mp hx, (mem_iff b y).mp hy, hc] at h2
  exact (mem_iff r res).mpr (by simpa using h2)

theorem entryOk_upper {op : BOp} (hop : op = .join ∨ op = .widen) {x y res : BoolV}
    (hok : entryOk op x y res = true) {k : Bool} (hk : mem k x ∨ mem k y) : mem k res := by
  have hok' : bools.all (fun c => !(x.has c || y.has c) || res.has c) = true := by
    rcases hop with h | h <;> subst h <;> exact hok
  have h1 := List.all_eq_true.mp hok' k (mem_bools k)
  rcases hk with hk | hk
  · rw [(mem_iff k x).mp hk] at h1; exact (mem_iff k res).mpr (by simpa using h1)
  · rw [(mem_iff k y).mp hk] at h1; exact (mem_iff k res).mpr (by simpa using h1)

theorem entryOk_lower {op : BOp} (hop : op = .meet ∨ op = .narrow) {x y res : BoolV}
    (hok : entryOk op x y res = true) {k : Bool} (hx : mem k x) (hy : mem k y) : mem k res := by
  have hok' : bools.all (fun c => !(x.has c && y.has c) || res.has c) = true := by
    rcases hop with h | h <;> subst h <;> exact hok
  have h1 := List.all_eq_true.mp hok' k (mem_bools k)
  rw [(mem_iff k x).mp hx, (mem_iff k y).mp hy] at h1
  exact (mem_iff k res).mpr (by simpa using h1)

end BoolV

namespace Sign
theorem mem_all (s : Sign) : s ∈ all := by cases s <;> decide
end Sign
end Crab
