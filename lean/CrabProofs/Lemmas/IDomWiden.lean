import CrabProofs.Lemmas.IDomEnv
import CrabProofs.Lemmas.IntervalWiden

/-!
  The widening of the interval domain satisfies the chain condition: a widening step with an
  argument that is not below the current value strictly decreases a well-founded measure
  (bottom flag, then the number of bindings plus the number of their finite bounds).  Widening
  only keeps keys of its left argument, so no bound on the set of variables is needed.
-/
namespace Crab
namespace IDom
open Lin

theorem wmeasure_le_three (x : Itv) : Itv.wmeasure x ≤ 3 := by
  unfold Itv.wmeasure; split
  · omega
  · split <;> split <;> omega

/-- a widening step never increases the measure of an interval -/
theorem widen_measure_le (x y : Itv) : Itv.wmeasure (Itv.widen x y) ≤ Itv.wmeasure x := by
  by_cases h : Itv.leq y x = false
  · exact Nat.le_of_lt (Itv.widen_measure h)
  · simp only [Bool.not_eq_false] at h
    unfold Itv.widen
    split
    · rename_i hx
      have e : Itv.wmeasure x = 3 := by simp [Itv.wmeasure, hx]
      rw [e]; exact wmeasure_le_three y
    · split
      · exact Nat.le_refl _
      · rename_i hx hy
        unfold Itv.leq at h
        simp [hx, hy] at h
        have e1 : Bound.lt y.lb x.lb = false := by simp [Bound.lt, Bound.ge, h.1]
        have e2 : Bound.lt x.ub y.ub = false := by simp [Bound.lt, Bound.ge, h.2]
        simp only [e1, e2, Bool.false_eq_true, if_false]
        have : Itv.mk' x.lb x.ub = x := by
          unfold Itv.mk'; simp [Itv.isBottom] at hx; simp [hx]
        rw [this]; exact Nat.le_refl _

namespace Map

/-- one plus the number of finite bounds, summed over the bindings -/
def wsum (m : Map) : Nat := (m.map (fun p => 1 + Itv.wmeasure p.2)).sum

/-- the contribution of a binding of the left argument to the result of the widening -/
def wcontrib (b : Map) (p : Var × Itv) : Nat :=
  match find b p.1 with
  | some w => if (Itv.widen p.2 w).isTop then 0 else 1 + Itv.wmeasure (Itv.widen p.2 w)
  | none => 0

theorem wsum_mergeAbs (a b : Map) : wsum (mergeAbs Itv.widen a b) = (a.map (wcontrib b)).sum := by
  induction a with
  | nil => rfl
  | cons p rest ih =>
    unfold mergeAbs wsum at ih ⊢
    simp only [List.filterMap_cons, List.map_cons, List.sum_cons, wcontrib]
    cases hf : find b p.1 with
    | none => simp only []; rw [ih]; omega
    | some w =>
      simp only []
      by_cases ht : (Itv.widen p.2 w).isTop = true
      · simp only [ht, if_true]; rw [ih]; omega
      · simp only [ht]; simp only [Bool.false_eq_true, if_false, List.map_cons, List.sum_cons]; rw [ih]

theorem wcontrib_le (b : Map) (p : Var × Itv) : wcontrib b p ≤ 1 + Itv.wmeasure p.2 := by
  unfold wcontrib
  split
  · split
    · omega
    · have := widen_measure_le p.2 ‹Itv›; omega
  · omega

theorem sum_lt_of_le_of_exists {α : Type} (f g : α → Nat) : ∀ (l : List α), (∀ p ∈ l, g p ≤ f p) →
    (∃ p ∈ l, g p < f p) → (l.map g).sum < (l.map f).sum := by
  intro l
  induction l with
  | nil => intro _ ⟨p, hp, _⟩; simp at hp
  | cons q rest ih =>
    intro hle ⟨p, hp, hlt⟩
    simp only [List.map_cons, List.sum_cons]
    have hq := hle q List.mem_cons_self
    have hrest : (rest.map g).sum ≤ (rest.map f).sum := by
      clear ih hp hlt
      induction rest with
      | nil => simp
      | cons r rs ihr =>
        simp only [List.map_cons, List.sum_cons]
        have := hle r (List.mem_cons_of_mem _ List.mem_cons_self)
        have := ihr (fun p hp => hle p (by
          rcases List.mem_cons.1 hp with h | h
          · exact h ▸ List.mem_cons_self
          · exact List.mem_cons_of_mem _ (List.mem_cons_of_mem _ h)))
        omega
    rcases List.mem_cons.1 hp with h | h
    · subst h; omega
    · have := ih (fun p hp => hle p (List.mem_cons_of_mem _ hp)) ⟨p, h, hlt⟩
      omega

/-- a widening with a map that is not below strictly decreases the sum -/
theorem wsum_widen_lt {a b : Map} (h : leq b a = false) : wsum (mergeAbs Itv.widen a b) < wsum a := by
  rw [wsum_mergeAbs]
  unfold wsum
  apply sum_lt_of_le_of_exists _ _ a (fun p _ => wcontrib_le b p)
  unfold leq at h
  rw [List.all_eq_false] at h
  obtain ⟨p, hp, hx⟩ := h
  refine ⟨p, hp, ?_⟩
  unfold wcontrib
  cases hf : find b p.1 with
  | none => simp only []; omega
  | some w =>
    simp only [hf, Bool.not_eq_true] at hx
    simp only []
    split
    · omega
    · have := Itv.widen_measure hx; omega

end Map

namespace Env

/-- the measure: bottom first, then the sum over the bindings -/
def wmeas (e : Env) : Nat × Nat := (if e.bottom then 1 else 0, Map.wsum e.m)

/-- a strict widening step decreases the measure lexicographically -/
theorem widen_wmeas_lt {x y : Env} (h : leq y x = false) :
    Prod.Lex (· < ·) (· < ·) (wmeas (widen x y)) (wmeas x) := by
  unfold leq at h
  cases hy : y.bottom with
  | true => simp [hy] at h
  | false =>
    simp only [hy, Bool.false_eq_true, if_false] at h
    cases hx : x.bottom with
    | true =>
      have : widen x y = y := by simp [widen, upperWith, hx]
      rw [this]
      unfold wmeas
      rw [hx, hy]
      exact Prod.Lex.left _ _ (by decide)
    | false =>
      simp only [hx, Bool.false_eq_true, if_false] at h
      have : widen x y = ⟨false, Map.mergeAbs Itv.widen x.m y.m⟩ := by simp [widen, upperWith, hx, hy]
      rw [this]
      unfold wmeas
      simp only [hx, Bool.false_eq_true, if_false]
      exact Prod.Lex.right _ (Map.wsum_widen_lt h)

/-- **chain condition**: strict widening steps cannot be chained forever -/
theorem widen_wf : WellFounded (fun x' x : Env => ∃ y, leq y x = false ∧ x' = widen x y) := by
  apply Subrelation.wf (r := InvImage (Prod.Lex (· < ·) (· < ·)) wmeas)
  · intro x' x ⟨y, hy, e⟩
    subst e
    exact widen_wmeas_lt hy
  · exact InvImage.wf wmeas (Prod.lex Nat.lt_wfRel Nat.lt_wfRel).wf

end Env
end IDom
end Crab
