import CrabProofs.Lemmas.DbmIncrDelta

/-!
  `closeOverEdge = closeOverEdgeI`: the coded loops with `delta` against the immediate ones.
-/
namespace Crab
namespace DbmIncr
open Dbm Zones

variable {n : Nat}

/-- the state of a coded loop with its pending edges applied -/
def flush (st : PassSt n) : ISt n := (applyDelta st.g st.delta, st.dec)

variable {inl : Bool} {ii jj : Fin (n + 1)} {c : Int}

theorem pass1Step_flush (hj : jj ≠ 0) (hij : ii ≠ jj) (st : PassSt n) (se : Fin (n + 1))
    (hδ : ∀ e ∈ st.delta, e.2.1 = jj ∧ e.1 ≠ 0 ∧ e.1 ≠ se) :
    flush (pass1Step inl ii jj c st se) = p1I inl ii jj c (flush st) se ∧
    ∀ e ∈ (pass1Step inl ii jj c st se).delta, e.2.1 = jj ∧ e.1 ≠ 0 ∧ (e ∈ st.delta ∨ e.1 = se) := by
  have keep : ∀ e ∈ st.delta, e.2.1 = jj ∧ e.1 ≠ 0 ∧ (e ∈ st.delta ∨ e.1 = se) :=
    fun e he => ⟨(hδ e he).1, (hδ e he).2.1, Or.inl he⟩
  have r1 : edge (flush st).1 se ii = edge st.g se ii :=
    edge_applyDelta_none _ _ _ _ (fun e he h => hij ((h.2.symm.trans (hδ e he).1)))
  have r2 : edge (flush st).1 se jj = edge st.g se jj :=
    edge_applyDelta_none _ _ _ _ (fun e he h => (hδ e he).2.2 h.1)
  have r2' : edge (applyDelta st.g st.delta) se jj = edge st.g se jj := r2
  unfold pass1Step p1I
  by_cases h0 : se = 0 ∨ se = ii
  · simp only [h0, if_true]; exact ⟨by first | rfl | trivial, keep⟩
  simp only [h0, if_false, r1]
  have hs0 : se ≠ 0 := fun e => h0 (Or.inl e)
  rcases hev : edge st.g se ii with _ | ev
  · exact ⟨by first | rfl | trivial, keep⟩
  simp only
  by_cases hsj : se = jj
  · simp only [hsj, if_true]
    exact ⟨by first | rfl | trivial, fun e he => ⟨(hδ e he).1, (hδ e he).2.1, Or.inl he⟩⟩
  simp only [hsj, if_false, r2]
  have cbc : ∀ g' : Zone n, applyDelta (closeBounds g' se jj (ev + c)) st.delta =
      closeBounds (applyDelta g' st.delta) se jj (ev + c) := by
    intro g'
    apply applyDelta_closeBounds_comm _ _ _ _ _ hj
    intro e he
    obtain ⟨a1, a2, _⟩ := hδ e he
    exact ⟨fun h => a2 h.1, fun h => hj (a1.symm.trans h.2), fun h => a2 h.1,
      fun h => hj (a1.symm.trans h.2)⟩
  have sec : applyDelta (setEdge st.g se (ev + c) jj) st.delta =
      setEdge (applyDelta st.g st.delta) se (ev + c) jj :=
    applyDelta_setEdge_comm _ _ _ _ _ (fun e he h => (hδ e he).2.2 h.1)
  rcases hw : edge st.g se jj with _ | w
  · -- new edge: pushed on `delta`
    have hle : W.le (none : W) (some (ev + c)) = false := rfl
    simp only [hle, Bool.false_eq_true, if_false]
    have hrel : relax (applyDelta st.g st.delta) se (ev + c) jj =
        setEdge (applyDelta st.g st.delta) se (ev + c) jj :=
      (setEdge_eq_relax (fun k hk => by rw [r2', hw] at hk; cases hk)).symm
    refine ⟨?_, ?_⟩
    · simp only [flush]
      rw [applyDelta_append, hrel]
      cases inl with
      | false => simp
      | true =>
        simp only [if_true]
        rw [cbc, setEdge_closeBounds_comm _ _ _ hj (fun h => hs0 h.1) (fun h => hj h.2)
          (fun h => hs0 h.1) (fun h => hj h.2)]
    · intro e he
      rcases List.mem_append.1 he with he | he
      · exact keep e he
      · simp only [List.mem_singleton] at he
        subst he
        exact ⟨rfl, hs0, Or.inr rfl⟩
  · simp only [W.le, decide_eq_true_eq]
    by_cases hle : w ≤ ev + c
    · simp only [hle, if_true]; exact ⟨by first | rfl | trivial, keep⟩
    · simp only [hle, if_false]
      have hrel : relax (applyDelta st.g st.delta) se (ev + c) jj =
          setEdge (applyDelta st.g st.delta) se (ev + c) jj :=
        (setEdge_eq_relax (fun k hk => by rw [r2', hw] at hk; cases hk; omega)).symm
      refine ⟨?_, keep⟩
      simp only [flush]
      rw [hrel]
      cases inl with
      | false => simp [sec]
      | true => simp only [if_true]; rw [cbc, sec]

theorem pass2Step_flush (hi : ii ≠ 0) (hij : ii ≠ jj) (st : PassSt n) (de : Fin (n + 1))
    (hδ : ∀ e ∈ st.delta, e.1 = ii ∧ e.2.1 ≠ 0 ∧ e.2.1 ≠ de) :
    flush (pass2Step inl ii jj c st de) = p2I inl ii jj c (flush st) de ∧
    ∀ e ∈ (pass2Step inl ii jj c st de).delta, e.1 = ii ∧ e.2.1 ≠ 0 ∧ (e ∈ st.delta ∨ e.2.1 = de) := by
  have keep : ∀ e ∈ st.delta, e.1 = ii ∧ e.2.1 ≠ 0 ∧ (e ∈ st.delta ∨ e.2.1 = de) :=
    fun e he => ⟨(hδ e he).1, (hδ e he).2.1, Or.inl he⟩
  have r1 : edge (flush st).1 jj de = edge st.g jj de :=
    edge_applyDelta_none _ _ _ _ (fun e he h => hij ((hδ e he).1.symm.trans h.1))
  have r2 : edge (flush st).1 ii de = edge st.g ii de :=
    edge_applyDelta_none _ _ _ _ (fun e he h => (hδ e he).2.2 h.2)
  have r2' : edge (applyDelta st.g st.delta) ii de = edge st.g ii de := r2
  unfold pass2Step p2I
  by_cases h0 : de = 0 ∨ de = jj
  · simp only [h0, if_true]; exact ⟨by first | rfl | trivial, keep⟩
  simp only [h0, if_false, r1]
  have hd0 : de ≠ 0 := fun e => h0 (Or.inl e)
  rcases hev : edge st.g jj de with _ | ev
  · exact ⟨by first | rfl | trivial, keep⟩
  simp only
  by_cases hdi : de = ii
  · simp only [hdi, if_true]
    exact ⟨by first | rfl | trivial, fun e he => ⟨(hδ e he).1, (hδ e he).2.1, Or.inl he⟩⟩
  simp only [hdi, if_false, r2]
  have cbc : ∀ g' : Zone n, applyDelta (closeBounds g' ii de (ev + c)) st.delta =
      closeBounds (applyDelta g' st.delta) ii de (ev + c) := by
    intro g'
    apply applyDelta_closeBounds_comm _ _ _ _ _ hd0
    intro e he
    obtain ⟨a1, a2, _⟩ := hδ e he
    exact ⟨fun h => hi (a1.symm.trans h.1), fun h => a2 h.2, fun h => hi (a1.symm.trans h.1),
      fun h => a2 h.2⟩
  have sec : applyDelta (setEdge st.g ii (ev + c) de) st.delta =
      setEdge (applyDelta st.g st.delta) ii (ev + c) de :=
    applyDelta_setEdge_comm _ _ _ _ _ (fun e he h => (hδ e he).2.2 h.2)
  rcases hw : edge st.g ii de with _ | w
  · have hle : W.le (none : W) (some (ev + c)) = false := rfl
    simp only [hle, Bool.false_eq_true, if_false]
    have hrel : relax (applyDelta st.g st.delta) ii (ev + c) de =
        setEdge (applyDelta st.g st.delta) ii (ev + c) de :=
      (setEdge_eq_relax (fun k hk => by rw [r2', hw] at hk; cases hk)).symm
    refine ⟨?_, ?_⟩
    · simp only [flush]
      rw [applyDelta_append, hrel]
      cases inl with
      | false => simp
      | true =>
        simp only [if_true]
        rw [cbc, setEdge_closeBounds_comm _ _ _ hd0 (fun h => hi h.1) (fun h => hd0 h.2)
          (fun h => hi h.1) (fun h => hd0 h.2)]
    · intro e he
      rcases List.mem_append.1 he with he | he
      · exact keep e he
      · simp only [List.mem_singleton] at he
        subst he
        exact ⟨rfl, hd0, Or.inr rfl⟩
  · simp only [W.le, decide_eq_true_eq]
    by_cases hle : w ≤ ev + c
    · simp only [hle, if_true]; exact ⟨by first | rfl | trivial, keep⟩
    · simp only [hle, if_false]
      have hrel : relax (applyDelta st.g st.delta) ii (ev + c) de =
          setEdge (applyDelta st.g st.delta) ii (ev + c) de :=
        (setEdge_eq_relax (fun k hk => by rw [r2', hw] at hk; cases hk; omega)).symm
      refine ⟨?_, keep⟩
      simp only [flush]
      rw [hrel]
      cases inl with
      | false => simp [sec]
      | true => simp only [if_true]; rw [cbc, sec]

theorem pass1_fold_flush (hj : jj ≠ 0) (hij : ii ≠ jj) :
    ∀ (vs : List (Fin (n + 1))) (st : PassSt n), vs.Nodup →
      (∀ e ∈ st.delta, e.2.1 = jj ∧ e.1 ≠ 0 ∧ e.1 ∉ vs) →
      flush (vs.foldl (pass1Step inl ii jj c) st) = vs.foldl (p1I inl ii jj c) (flush st) := by
  intro vs
  induction vs with
  | nil => intro st _ _; rfl
  | cons se vs ih =>
    intro st hnd hδ
    rw [List.foldl_cons, List.foldl_cons]
    obtain ⟨hse, hnd'⟩ := List.nodup_cons.1 hnd
    obtain ⟨e1, e2⟩ := pass1Step_flush (inl := inl) (c := c) hj hij st se
      (fun e he => ⟨(hδ e he).1, (hδ e he).2.1,
        fun h => (hδ e he).2.2 (h ▸ List.mem_cons_self ..)⟩)
    rw [← e1]
    apply ih _ hnd'
    intro e he
    obtain ⟨a1, a2, a3⟩ := e2 e he
    refine ⟨a1, a2, ?_⟩
    rcases a3 with a3 | a3
    · exact fun h => (hδ e a3).2.2 (List.mem_cons_of_mem _ h)
    · rw [a3]; exact hse

theorem pass2_fold_flush (hi : ii ≠ 0) (hij : ii ≠ jj) :
    ∀ (vs : List (Fin (n + 1))) (st : PassSt n), vs.Nodup →
      (∀ e ∈ st.delta, e.1 = ii ∧ e.2.1 ≠ 0 ∧ e.2.1 ∉ vs) →
      flush (vs.foldl (pass2Step inl ii jj c) st) = vs.foldl (p2I inl ii jj c) (flush st) := by
  intro vs
  induction vs with
  | nil => intro st _ _; rfl
  | cons de vs ih =>
    intro st hnd hδ
    rw [List.foldl_cons, List.foldl_cons]
    obtain ⟨hde, hnd'⟩ := List.nodup_cons.1 hnd
    obtain ⟨e1, e2⟩ := pass2Step_flush (inl := inl) (c := c) hi hij st de
      (fun e he => ⟨(hδ e he).1, (hδ e he).2.1,
        fun h => (hδ e he).2.2 (h ▸ List.mem_cons_self ..)⟩)
    rw [← e1]
    apply ih _ hnd'
    intro e he
    obtain ⟨a1, a2, a3⟩ := e2 e he
    refine ⟨a1, a2, ?_⟩
    rcases a3 with a3 | a3
    · exact fun h => (hδ e a3).2.2 (List.mem_cons_of_mem _ h)
    · rw [a3]; exact hde

/-- the coded `close_over_edge` (with `delta`) computes what the immediate form computes -/
theorem closeOverEdge_eq_I (inl : Bool) (vs : List (Fin (n + 1))) (hnd : vs.Nodup) (g : Zone n)
    (hi : ii ≠ 0) (hj : jj ≠ 0) (hij : ii ≠ jj) :
    closeOverEdge inl vs g ii jj = closeOverEdgeI inl vs g ii jj := by
  unfold closeOverEdge closeOverEdgeG closeOverEdgeI
  rcases edge g ii jj with _ | c
  · rfl
  simp only
  have h1 := pass1_fold_flush (inl := inl) (c := c) hj hij vs
    ⟨if inl then closeBounds g ii jj c else g, [], []⟩ hnd (fun e he => by cases he)
  have e0 : flush (⟨if inl then closeBounds g ii jj c else g, [], []⟩ : PassSt n) =
      (if inl then closeBounds g ii jj c else g, []) := rfl
  rw [e0] at h1
  rw [← h1]
  simp only [flush]
  have h2 := pass2_fold_flush (inl := inl) (c := c) hi hij vs
    ⟨applyDelta (vs.foldl (pass1Step inl ii jj c) ⟨if inl then closeBounds g ii jj c else g, [], []⟩).g
        (vs.foldl (pass1Step inl ii jj c) ⟨if inl then closeBounds g ii jj c else g, [], []⟩).delta,
      [], []⟩ hnd (fun e he => by cases he)
  rw [show flush (⟨applyDelta (vs.foldl (pass1Step inl ii jj c) ⟨if inl then closeBounds g ii jj c else g, [], []⟩).g
        (vs.foldl (pass1Step inl ii jj c) ⟨if inl then closeBounds g ii jj c else g, [], []⟩).delta,
      [], []⟩ : PassSt n) = (applyDelta (vs.foldl (pass1Step inl ii jj c) ⟨if inl then closeBounds g ii jj c else g, [], []⟩).g
        (vs.foldl (pass1Step inl ii jj c) ⟨if inl then closeBounds g ii jj c else g, [], []⟩).delta, []) from rfl] at h2
  rw [← h2]
  simp only [flush]

end DbmIncr
end Crab
