import CrabModel.Lin.Cst
import CrabProofs.Lemmas.LinExpr

/-! Lemmas on the model of `ikos::linear_constraint`: negation is the exact complement over the
    integers, the tautology / contradiction tests, strict-to-non-strict, renaming, `equal`. -/
namespace Crab.Lin.Cst
open Crab.Lin.Expr

theorem eval_of_isConstant {e : Expr} (h : e.isConstant = true) (σ : Var → Int) :
    e.eval σ = e.cst := by
  cases e with | mk t c =>
  have : t = [] := by simpa [isConstant] using h
  subst this
  simp [eval, evalTerms]

/-- a yes of `is_tautology()` : the constraint holds under every valuation -/
theorem sat_of_isTautology {c : Cst} (h : c.isTautology = true) (σ : Var → Int) : c.sat σ := by
  obtain ⟨e, k⟩ := c
  cases k <;> simp only [isTautology, Bool.and_eq_true] at h <;>
    simp only [sat, eval_of_isConstant h.1]
  · have := h.2; simp [Expr.constant] at this; omega
  · have := h.2; simp [Expr.constant] at this; omega
  · exact of_decide_eq_true h.2
  · exact of_decide_eq_true h.2

/-- a yes of `is_contradiction()` : the constraint fails under every valuation -/
theorem not_sat_of_isContradiction {c : Cst} (h : c.isContradiction = true) (σ : Var → Int) :
    ¬ c.sat σ := by
  obtain ⟨e, k⟩ := c
  cases k <;> simp only [isContradiction, Bool.and_eq_true] at h <;>
    simp only [sat, eval_of_isConstant h.1]
  · have := h.2; simp [Expr.constant] at this; omega
  · have := h.2; simp [Expr.constant] at this; omega
  · have := h.2; simp [Expr.constant] at this; omega
  · have := h.2; simp [Expr.constant] at this; omega

/-- on a constant constraint the two tests are exact -/
theorem isTautology_iff_of_constant {c : Cst} (hc : c.expr.isConstant = true) :
    c.isTautology = true ↔ ∀ σ, c.sat σ := by
  constructor
  · exact fun h σ => sat_of_isTautology h σ
  · intro h
    have h0 := h (fun _ => 0)
    obtain ⟨e, k⟩ := c
    simp only at hc
    cases k <;> simp only [sat, eval_of_isConstant hc] at h0 <;>
      simp [isTautology, hc, Expr.constant, h0]

theorem isContradiction_iff_of_constant {c : Cst} (hc : c.expr.isConstant = true) :
    c.isContradiction = true ↔ ∀ σ, ¬ c.sat σ := by
  constructor
  · exact fun h σ => not_sat_of_isContradiction h σ
  · intro h
    have h0 := h (fun _ => 0)
    obtain ⟨e, k⟩ := c
    simp only at hc
    cases k <;> simp only [sat, eval_of_isConstant hc] at h0 <;>
      simp only [isContradiction, hc, Expr.constant, Bool.true_and]
    · simpa using h0
    · simpa using h0
    · simp; omega
    · simp; omega

/-- on a constraint whose map is not empty both tests answer no -/
theorem tests_false_of_not_constant {c : Cst} (hc : c.expr.isConstant = false) :
    c.isTautology = false ∧ c.isContradiction = false := by
  obtain ⟨e, k⟩ := c
  simp only at hc
  cases k <;> simp [isTautology, isContradiction, hc]

theorem sat_getTrue (σ : Var → Int) : getTrue.sat σ := by simp [getTrue, sat]
theorem not_sat_getFalse (σ : Var → Int) : ¬ getFalse.sat σ := by simp [getFalse, sat]

/-- `negate()` (with either inequality case) is the complement, provided the inequality case is -/
theorem sat_negateWith {f : Cst → Cst}
    (hf : ∀ (c : Cst) (σ : Var → Int), c.kind = .leq → ((f c).sat σ ↔ ¬ c.sat σ))
    (c : Cst) (σ : Var → Int) : (negateWith f c).sat σ ↔ ¬ c.sat σ := by
  unfold negateWith
  split
  · next h =>
    constructor
    · intro h'; exact absurd h' (not_sat_getFalse σ)
    · intro h'; exact absurd (sat_of_isTautology h σ) h'
  · split
    · next h =>
      constructor
      · intro _; exact not_sat_of_isContradiction h σ
      · intro _; exact sat_getTrue σ
    · obtain ⟨e, k⟩ := c
      cases k
      · simp [sat]
      · simp [sat]
      · exact hf _ σ rfl
      · simp only [sat, eval_neg]; omega

theorem sat_negateInequalityZ (c : Cst) (σ : Var → Int) (h : c.kind = .leq) :
    (negateInequalityZ c).sat σ ↔ ¬ c.sat σ := by
  obtain ⟨e, k⟩ := c
  simp only at h
  subst h
  simp only [negateInequalityZ, sat, eval_neg, eval_subNum]; omega

theorem sat_negateInequalityGeneric (c : Cst) (σ : Var → Int) (h : c.kind = .leq) :
    (negateInequalityGeneric c).sat σ ↔ ¬ c.sat σ := by
  obtain ⟨e, k⟩ := c
  simp only at h
  subst h
  simp only [negateInequalityGeneric, sat, eval_neg]; omega

theorem sat_negate (c : Cst) (σ : Var → Int) : (negate c).sat σ ↔ ¬ c.sat σ :=
  sat_negateWith sat_negateInequalityZ c σ

theorem sat_negateGeneric (c : Cst) (σ : Var → Int) : (negateGeneric c).sat σ ↔ ¬ c.sat σ :=
  sat_negateWith sat_negateInequalityGeneric c σ

theorem strictToNonStrict_iff (c r : Cst) : c.strictToNonStrict? = some r ↔
    (c.kind = .lt ∧ r = ⟨c.expr.addNum 1, .leq⟩) := by
  obtain ⟨e, k⟩ := c
  cases k <;> simp [strictToNonStrict?, eq_comm]

theorem sat_strictToNonStrict {c r : Cst} (h : c.strictToNonStrict? = some r) (σ : Var → Int) :
    r.sat σ ↔ c.sat σ := by
  obtain ⟨hk, hr⟩ := (strictToNonStrict_iff c r).1 h
  obtain ⟨e, k⟩ := c
  simp only at hk
  subst hk hr
  simp only [sat, eval_addNum]; omega

theorem sat_rename {c : Cst} (h : c.expr.Sorted) (m : List (Var × Var)) (σ : Var → Int) :
    (rename c m).sat σ ↔ c.sat (fun v => σ (renVar m v)) := by
  obtain ⟨e, k⟩ := c
  cases k <;> simp only [rename, sat, eval_rename h]

theorem equal_iff (c o : Cst) : c.equal o = true ↔ c = o := by
  obtain ⟨e1, k1⟩ := c
  obtain ⟨e2, k2⟩ := o
  simp only [equal, Bool.and_eq_true, decide_eq_true_eq, Expr.equal_iff]
  constructor
  · rintro ⟨h1, h2⟩; subst h1 h2; rfl
  · intro h; cases h; exact ⟨rfl, rfl⟩

end Crab.Lin.Cst
