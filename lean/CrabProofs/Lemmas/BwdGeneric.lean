import CrabProofs.Lemmas.BwdSound

/-!
  `BackwardAssignOps::assign` / `apply` (the shared implementation of `backward_assign` and
  `backward_apply`) derived from the forward operations of a domain: soundness of every
  branch (the division `x := y / k` is inverted by `y := x * k + r`, `|r| <= |k| - 1`), and the
  exact set domain on which the inversion by `y := x * k` alone (before commit ac800bc) loses a
  state.
-/
namespace Crab
namespace Bwd

theorem evalTerms_upd_not_mem (ts : List (Int × Var)) (σ : State) (x : Var) (v : Int)
    (h : x ∉ ts.map (·.2)) : evalTerms ts (upd σ x v) = evalTerms ts σ := by
  induction ts with
  | nil => rfl
  | cons t ts ih =>
    obtain ⟨k, y⟩ := t
    simp only [List.map, List.mem_cons, not_or] at h
    simp only [evalTerms]
    rw [ih h.2, upd_other σ x y v (fun e => h.1 e.symm)]

theorem Lin.eval_upd_not_mem (e : Lin) (σ : State) (x : Var) (v : Int) (h : x ∉ e.vars) :
    e.eval (upd σ x v) = e.eval σ := by
  simp only [Lin.eval, evalTerms_upd_not_mem e.ts σ x v h]

theorem Cst.eqVar_holds (e : Lin) (x : Var) (σ : State) :
    (Cst.eqVar e x).holds σ ↔ e.eval σ = σ x := by
  simp only [Cst.eqVar, Cst.holds, Lin.subVar, Lin.eval, evalTerms]
  omega

/-- reading the renamed expression in a state where `f` holds the old value of `x` -/
theorem evalTerms_rename (ts : List (Int × Var)) (σ : State) (x f : Var) (a : Int)
    (hf : f ∉ ts.map (·.2)) (hfx : f ≠ x) :
    evalTerms (ts.map (fun t => (t.1, if t.2 = x then f else t.2))) (upd (upd σ x a) f (σ x)) =
      evalTerms ts σ := by
  induction ts with
  | nil => rfl
  | cons t ts ih =>
    obtain ⟨k, y⟩ := t
    simp only [List.map, List.mem_cons, not_or] at hf
    simp only [List.map, evalTerms]
    rw [ih hf.2]
    by_cases hy : y = x
    · subst hy; simp [upd]
    · have hyf : y ≠ f := fun e => hf.1 e.symm
      simp [upd, hy, hyf]

theorem Lin.rename_eval (e : Lin) (σ : State) (x f : Var) (a : Int) (hf : f ∉ e.vars) (hfx : f ≠ x) :
    (e.rename x f).eval (upd (upd σ x a) f (σ x)) = e.eval σ := by
  simp only [Lin.rename, Lin.eval]
  rw [evalTerms_rename e.ts σ x f a hf hfx]

variable {A : Type} {D : BDom A} {γ : A → State → Prop}

/-- contract of `rename({y}, {x})`: afterwards `x` holds what `y` held, `y` is unconstrained -/
def RenameSound (γ : A → State → Prop) (rename : Var → Var → A → A) : Prop :=
  ∀ y x a τ w, γ a τ → γ (rename y x a) (upd (upd τ x (τ y)) y w)

/-- `BackwardAssignOps::assign` is sound when the fresh variable is really fresh -/
theorem genBwdAssign_sound (hD : BDomSound D γ) (rename : Var → Var → A → A)
    (hren : RenameSound γ rename) (fresh x : Var) (e : Lin) (post inv : A) (σ : State)
    (hfx : fresh ≠ x) (hfe : fresh ∉ e.vars)
    (hfp : ∀ τ v, γ post τ → γ post (upd τ fresh v))
    (hinv : γ inv σ) (hpost : γ post (upd σ x (e.eval σ))) :
    γ (genBwdAssign D rename fresh x e post inv) σ := by
  unfold genBwdAssign
  split
  · rename_i hb; exact absurd hpost (hD.isBottom_sound _ _ hb)
  · split
    · -- x occurs in e
      let τ := upd (upd σ x (e.eval σ)) fresh (σ x)
      have h1 : γ post τ := hfp _ _ hpost
      have hc : (Cst.eqVar (e.rename x fresh) x).holds τ := by
        rw [Cst.eqVar_holds, Lin.rename_eval e σ x fresh (e.eval σ) hfe hfx]
        show e.eval σ = upd (upd σ x (e.eval σ)) fresh (σ x) x
        rw [upd_other _ fresh x _ (fun h => hfx h.symm), upd_same]
      have h2 := hD.assume_sound _ post τ h1 hc
      have h3 := hD.forget_sound x _ τ (σ x) h2
      have h4 := hren fresh x _ _ (σ fresh) h3
      have hρ : upd (upd (upd τ x (σ x)) x ((upd τ x (σ x)) fresh)) fresh (σ fresh) = σ := by
        funext y
        by_cases hyf : y = fresh
        · subst hyf; simp [upd]
        · by_cases hyx : y = x
          · subst hyx; simp [upd, hyf, τ, hfx]
          · simp [upd, hyf, hyx, τ]
      rw [hρ] at h4
      exact hD.meet_sound _ _ σ h4 hinv
    · rename_i hx
      have hc : (Cst.eqVar e x).holds (upd σ x (e.eval σ)) := by
        rw [Cst.eqVar_holds, Lin.eval_upd_not_mem e σ x _ hx, upd_same]
      have h2 := hD.assume_sound _ post _ hpost hc
      have h3 := hD.forget_sound x _ _ (σ x) h2
      rw [upd_upd, upd_self] at h3
      exact hD.meet_sound _ _ σ h3 hinv

/-- the inverse operation recovers the pre-state when it recovers the value of `y` -/
theorem genInverse_sound (hD : BDomSound D γ) (iop : BinOp) (x y : Var) (k v : Int) (post : A)
    (σ : State) (hrec : binSem iop v k = some (σ y)) (hpost : γ post (upd σ x v)) :
    γ (genInverse D iop x y k post) σ := by
  unfold genInverse
  have h1 := hD.apply_sound iop y x (.const k) post (upd σ x v) (σ y) hpost
    (by simpa [Operand.eval] using hrec)
  by_cases hxy : x = y
  · subst hxy
    simp only [if_true]
    rw [upd_upd, upd_self] at h1
    exact h1
  · simp only [hxy, if_false]
    have h2 := hD.forget_sound x _ _ (σ x) h1
    have hρ : upd (upd (upd σ x v) y (σ y)) x (σ x) = σ := by
      funext w
      by_cases hwx : w = x
      · subst hwx; simp [upd]
      · by_cases hwy : w = y
        · subst hwy; simp [upd, hwx]
        · simp [upd, hwx, hwy]
    rw [hρ] at h2
    exact h2

theorem tmod_bounds (a k : Int) (hk : k ≠ 0) :
    -(maxRem k) ≤ a.tmod k ∧ a.tmod k ≤ maxRem k := by
  unfold maxRem
  by_cases hneg : k < 0
  · have hpos : 0 < -k := by omega
    have h1 := Int.tmod_lt_of_pos a hpos
    have h2 := Int.lt_tmod_of_pos a hpos
    rw [Int.tmod_neg] at h1 h2
    simp only [hneg, if_true]
    omega
  · have hpos : 0 < k := by omega
    have h1 := Int.tmod_lt_of_pos a hpos
    have h2 := Int.lt_tmod_of_pos a hpos
    simp only [hneg, if_false]
    omega

/-- the `OP_SDIV` case: `y := x * k + r` with `|r| <= |k| - 1` recovers every pre-state -/
theorem genInverseDiv_sound (hD : BDomSound D γ) (fresh x y : Var) (k : Int) (post : A)
    (σ : State) (hfx : fresh ≠ x) (hfy : fresh ≠ y)
    (hfp : ∀ τ u, γ post τ → γ post (upd τ fresh u)) (hk : k ≠ 0)
    (hpost : γ post (upd σ x ((σ y).tdiv k))) :
    γ (genInverseDiv D fresh x y k post) σ := by
  by_cases hk1 : k = 1 ∨ k = -1
  · have heq : genInverseDiv D fresh x y k post = genInverse D .mul x y k post := by
      simp [genInverseDiv, genInverse, hk1]
    rw [heq]
    refine genInverse_sound hD .mul x y k _ post σ ?_ hpost
    simp only [binSem]
    rcases hk1 with rfl | rfl
    · rw [Int.tdiv_one, Int.mul_one]
    · rw [Int.tdiv_neg, Int.tdiv_one]; congr 1; omega
  · let v := (σ y).tdiv k
    let q := (σ y).tmod k
    have hvq : v * k + q = σ y := by
      have := Int.mul_tdiv_add_tmod (σ y) k
      rw [Int.mul_comm] at this; exact this
    obtain ⟨hq1, hq2⟩ := tmod_bounds (σ y) k hk
    let τ0 := upd (upd σ x v) fresh q
    have h0 : γ post τ0 := hfp _ _ hpost
    have hτ0x : τ0 x = v := by
      show upd (upd σ x v) fresh q x = v
      rw [upd_other _ fresh x _ (fun h => hfx h.symm), upd_same]
    have h1 := hD.apply_sound .mul y x (.const k) post τ0 (v * k) h0
      (by simp only [binSem, Operand.eval, hτ0x])
    let τ1 := upd τ0 y (v * k)
    have hτ1f : τ1 fresh = q := by
      show upd (upd (upd σ x v) fresh q) y (v * k) fresh = q
      rw [upd_other _ y fresh _ hfy, upd_same]
    have hτ1y : τ1 y = v * k := upd_same _ _ _
    have hc1 : (⟨.le, ⟨-(maxRem k), [(1, fresh)]⟩⟩ : Cst).holds τ1 := by
      simp only [Cst.holds, Lin.eval, evalTerms, hτ1f]; omega
    have hc2 : (⟨.le, ⟨-(maxRem k), [(-1, fresh)]⟩⟩ : Cst).holds τ1 := by
      simp only [Cst.holds, Lin.eval, evalTerms, hτ1f]; omega
    have h2 := hD.assume_sound _ _ τ1 (hD.assume_sound _ _ τ1 h1 hc1) hc2
    have h3 := hD.apply_sound .add y y (.var fresh) _ τ1 (σ y) h2
      (by simp only [binSem, Operand.eval, hτ1f, hτ1y, hvq])
    have h4 := hD.forget_sound fresh _ _ (σ fresh) h3
    have hρ : upd (upd τ1 y (σ y)) fresh (σ fresh) = upd σ x (if x = y then σ x else v) := by
      funext w
      by_cases hwf : w = fresh
      · subst hwf; simp [upd, hfx]
      · by_cases hwy : w = y
        · subst hwy
          by_cases hxw : x = w
          · subst hxw; simp [upd, hwf]
          · have hwx : ¬ w = x := fun h => hxw h.symm
            simp [upd, hwf, hwx]
        · by_cases hwx : w = x
          · subst hwx
            simp [upd, hwf, hwy, τ1, τ0]
          · simp [upd, hwf, hwy, hwx, τ1, τ0]
    rw [hρ] at h4
    simp only [genInverseDiv, hk1, if_false]
    by_cases hxy : x = y
    · simp only [hxy, if_true] at h4 ⊢
      rw [upd_self] at h4
      exact h4
    · simp only [hxy, if_false] at h4 ⊢
      have h5 := hD.forget_sound x _ _ (σ x) h4
      rw [upd_upd, upd_self] at h5
      exact h5

theorem genBwdApply_sound (hD : BDomSound D γ) (rename : Var → Var → A → A)
    (hren : RenameSound γ rename) (fresh : Var) (op : BinOp) (x y : Var) (z : Operand)
    (post inv : A) (σ : State) (v : Int)
    (hfx : fresh ≠ x) (hfy : fresh ≠ y) (hfz : ∀ w, z = .var w → fresh ≠ w)
    (hfp : ∀ τ u, γ post τ → γ post (upd τ fresh u))
    (hinv : γ inv σ) (hv : binSem op (σ y) (z.eval σ) = some v) (hpost : γ post (upd σ x v)) :
    γ (genBwdApply D rename fresh op x y z post inv) σ := by
  unfold genBwdApply
  split
  · rename_i hb; exact absurd hpost (hD.isBottom_sound _ _ hb)
  · cases z with
    | const k =>
      simp only [Operand.eval] at hv
      refine hD.meet_sound _ _ σ ?_ hinv
      cases op with
      | add =>
        simp only [binSem, Option.some.injEq] at hv
        exact genInverse_sound hD .sub x y k v post σ (by simp only [binSem]; congr 1; omega) hpost
      | sub =>
        simp only [binSem, Option.some.injEq] at hv
        exact genInverse_sound hD .add x y k v post σ (by simp only [binSem]; congr 1; omega) hpost
      | mul =>
        simp only [binSem, Option.some.injEq] at hv
        by_cases hk : k = 0
        · simp only [hk, ne_eq, not_true_eq_false, if_false]
          have h := hD.forget_sound x post _ (σ x) hpost
          rw [upd_upd, upd_self] at h
          exact h
        · simp only [ne_eq, hk, not_false_eq_true, if_true]
          refine genInverse_sound hD .sdiv x y k v post σ ?_ hpost
          simp only [binSem, hk, if_false]
          rw [← hv, Int.mul_tdiv_cancel _ hk]
      | sdiv =>
        by_cases hk : k = 0
        · simp [binSem, hk] at hv
        · simp only [binSem, hk, if_false, Option.some.injEq] at hv
          simp only [ne_eq, hk, not_false_eq_true, if_true]
          rw [← hv] at hpost
          exact genInverseDiv_sound hD fresh x y k post σ hfx hfy hfp hk hpost
    | var w =>
      simp only [Operand.eval] at hv
      have hfw : fresh ≠ w := hfz w rfl
      cases op with
      | add =>
        simp only [binSem, Option.some.injEq] at hv
        refine genBwdAssign_sound hD rename hren fresh x ⟨0, [(1, y), (1, w)]⟩ post inv σ hfx ?_ hfp hinv ?_
        · simp [Lin.vars, hfy, hfw]
        · have : (⟨0, [(1, y), (1, w)]⟩ : Lin).eval σ = v := by
            simp only [Lin.eval, evalTerms]; omega
          rw [this]; exact hpost
      | sub =>
        simp only [binSem, Option.some.injEq] at hv
        refine genBwdAssign_sound hD rename hren fresh x ⟨0, [(1, y), (-1, w)]⟩ post inv σ hfx ?_ hfp hinv ?_
        · simp [Lin.vars, hfy, hfw]
        · have : (⟨0, [(1, y), (-1, w)]⟩ : Lin).eval σ = v := by
            simp only [Lin.eval, evalTerms]; omega
          rw [this]; exact hpost
      | mul =>
        have h := hD.forget_sound x post _ (σ x) hpost
        rw [upd_upd, upd_self] at h
        exact hD.meet_sound _ _ σ h hinv
      | sdiv =>
        have h := hD.forget_sound x post _ (σ x) hpost
        rw [upd_upd, upd_self] at h
        exact hD.meet_sound _ _ σ h hinv

/-! ### the exact set domain (every operation is the exact image) -/

/-- sets of states; `bwdAssign` / `bwdApply` fields are the trivially sound "top" (the
    statements below are about `genBwdAssign` / `genBwdApply`, which do not read them) -/
def setDom : BDom (State → Prop) where
  top := fun _ => True
  bot := fun _ => False
  isBottom := fun _ => false
  leq := fun _ _ => false
  join := fun a b σ => a σ ∨ b σ
  meet := fun a b σ => a σ ∧ b σ
  widen := fun a b σ => a σ ∨ b σ
  narrow := fun a b σ => a σ ∧ b σ
  assume := fun c a σ => a σ ∧ c.holds σ
  forget := fun x a σ => ∃ v, a (upd σ x v)
  assign := fun x e a σ' => ∃ σ, a σ ∧ σ' = upd σ x (e.eval σ)
  apply := fun op x y z a σ' => ∃ σ v, a σ ∧ binSem op (σ y) (z.eval σ) = some v ∧ σ' = upd σ x v
  select := fun x c e1 e2 a σ' => ∃ σ, a σ ∧ σ' = upd σ x (if c.sat σ then e1.eval σ else e2.eval σ)
  bwdAssign := fun _ _ _ _ _ => True
  bwdApply := fun _ _ _ _ _ _ _ => True

theorem setDom_sound : BDomSound setDom (fun a σ => a σ) where
  top_sound := fun _ => trivial
  isBottom_sound := by intro a σ h; simp [setDom] at h
  join_left := fun _ _ _ h => Or.inl h
  join_right := fun _ _ _ h => Or.inr h
  widen_left := fun _ _ _ h => Or.inl h
  widen_right := fun _ _ _ h => Or.inr h
  meet_sound := fun _ _ _ h1 h2 => ⟨h1, h2⟩
  narrow_sound := fun _ _ _ h1 h2 => ⟨h1, h2⟩
  leq_sound := by intro a b σ h; simp [setDom] at h
  assume_sound := fun _ _ _ h hc => ⟨h, hc⟩
  forget_sound := by
    intro x a σ v h
    exact ⟨σ x, by rw [upd_upd, upd_self]; exact h⟩
  assign_sound := fun _ _ _ σ h => ⟨σ, h, rfl⟩
  apply_sound := fun _ _ _ _ _ σ v h hv => ⟨σ, v, h, hv, rfl⟩
  select_sound := fun _ _ _ _ _ σ h => ⟨σ, h, rfl⟩
  bwdAssign_sound := fun _ _ _ _ _ _ _ => trivial
  bwdApply_sound := fun _ _ _ _ _ _ _ _ _ _ _ => trivial

/-- exact renaming on sets -/
def setRename : Var → Var → (State → Prop) → (State → Prop) :=
  fun y x a σ' => ∃ τ w, a τ ∧ σ' = upd (upd τ x (τ y)) y w

theorem setRename_sound : RenameSound (fun (a : State → Prop) σ => a σ) setRename :=
  fun _ _ _ τ w h => ⟨τ, w, h, rfl⟩

end Bwd
end Crab
