import CrabModel.IR.Semantics

/-!
  Structure of the traces of the executable CrabIR semantics (`CrabModel/IR/Semantics.lean`):
  the events of a block are `check` events of that block with increasing statement indices;
  every `check` event of a trace belongs to the run of a block that the trace enters; the
  successor taken after a block is one of its successors.
-/
namespace Crab
namespace IR

theorem runStmts_events_check (b : Nat) :
    ∀ (ss : List Stmt) (i : Nat) (σ : State) (ch : List Int) (e : Event),
      e ∈ (runStmts b i ss σ ch).events → ∃ j σ' ok, e = Event.check b j σ' ok ∧ i ≤ j := by
  intro ss
  induction ss with
  | nil => intro i σ ch e h; simp [runStmts] at h
  | cons s ss ih =>
    intro i σ ch e h
    unfold runStmts at h
    simp only at h
    split at h
    · -- next
      simp only [List.mem_append] at h
      rcases h with h | h
      · split at h
        · simp only [List.mem_singleton] at h
          exact ⟨i, σ, _, h, Nat.le_refl _⟩
        · simp at h
      · obtain ⟨j, σ', ok, he, hij⟩ := ih _ _ _ _ h
        exact ⟨j, σ', ok, he, by omega⟩
    · split at h
      · simp only [List.mem_singleton] at h
        exact ⟨i, σ, _, h, Nat.le_refl _⟩
      · simp at h

theorem pickSucc_mem (succs : List Nat) (ch : List Int) (s : Nat) (ch' : List Int)
    (h : pickSucc succs ch = some (s, ch')) : s ∈ succs := by
  unfold pickSucc at h
  split at h
  · simp at h
  · simp only [Option.some.injEq, Prod.mk.injEq] at h
    simp [h.1]
  · rename_i a as _
    simp only [Option.some.injEq, Prod.mk.injEq] at h
    rw [← h.1]
    rw [List.getD_eq_getElem?_getD]
    cases hget : (a :: as)[((popChoice ch).1 % ((a :: as).length : Int)).toNat]? with
    | none => simp
    | some v =>
      simp only [Option.getD_some]
      exact List.mem_of_getElem? hget

/-- every `check` event of a trace lies in the run of a block the trace enters, started in the
    state of the `enter` event -/
theorem exec_check_of_enter (p : Program) :
    ∀ (fuel b0 : Nat) (σ0 : State) (ch : List Int) (b j : Nat) (σ' : State) (ok : Bool),
      Event.check b j σ' ok ∈ exec p fuel b0 σ0 ch →
      ∃ σ ch', Event.enter b σ ∈ exec p fuel b0 σ0 ch ∧
               Event.check b j σ' ok ∈ (runBlock p b σ ch').events := by
  intro fuel
  induction fuel with
  | zero => intro b0 σ0 ch b j σ' ok h; simp [exec] at h
  | succ fuel ih =>
    intro b0 σ0 ch b j σ' ok h
    unfold exec at h ⊢
    simp only [List.mem_cons, List.mem_append] at h ⊢
    rcases h with h | h | h
    · cases h
    · obtain ⟨j', σ'', ok', he, _⟩ := runStmts_events_check b0 _ 0 σ0 ch _ h
      cases he
      exact ⟨σ0, ch, Or.inl rfl, h⟩
    · split at h
      · rename_i σ1 hres
        simp only [List.mem_cons] at h
        rcases h with h | h
        · cases h
        · split at h
          · simp at h
          · rename_i s ch1 hp
            obtain ⟨σ, ch', he, hc⟩ := ih s σ1 ch1 b j σ' ok h
            refine ⟨σ, ch', Or.inr (Or.inr ?_), hc⟩
            simp only [List.mem_cons]
            exact Or.inr he
      · simp at h

end IR
end Crab
