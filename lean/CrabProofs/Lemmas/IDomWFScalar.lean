import CrabProofs.Lemmas.IntervalTight
import CrabProofs.Lemmas.IntervalDiv
import CrabProofs.Lemmas.IntervalBits
import CrabProofs.Lemmas.IDomThresholds

/-!
  Every scalar operation the interval domain uses maps well-formed intervals (`lb ≠ +oo`,
  `ub ≠ -oo`) to well-formed intervals.  This is what makes the CRAB_ERROR of
  `interval::operator+` / `operator-` (`-oo + +oo`) unreachable from the domain.
-/
namespace Crab
namespace Itv
open Bound

theorem wf_top : top.WF := by simp [WF, top]
theorem wf_single (k : Int) : (single k).WF := by simp [WF, single]

/-- an interval with a member is well formed -/
theorem wf_of_mem {i : Itv} {k : Int} (h : mem k i) : i.WF := by
  obtain ⟨l, u⟩ := i
  obtain ⟨h1, h2⟩ := h
  constructor
  · intro e; simp only at e h1; subst e; simp at h1
  · intro e; simp only at e h2; subst e; simp at h2

theorem max_ne_pinf {a b : Bound} (ha : a ≠ pinf) (hb : b ≠ pinf) : Bound.max a b ≠ pinf := by
  rcases Bound.max_eq_or a b with h | h <;> rw [h] <;> assumption
theorem min_ne_pinf {a b : Bound} (ha : a ≠ pinf) (hb : b ≠ pinf) : Bound.min a b ≠ pinf := by
  rcases Bound.min_eq_or a b with h | h <;> rw [h] <;> assumption
theorem max_ne_ninf {a b : Bound} (ha : a ≠ ninf) (hb : b ≠ ninf) : Bound.max a b ≠ ninf := by
  rcases Bound.max_eq_or a b with h | h <;> rw [h] <;> assumption
theorem min_ne_ninf {a b : Bound} (ha : a ≠ ninf) (hb : b ≠ ninf) : Bound.min a b ≠ ninf := by
  rcases Bound.min_eq_or a b with h | h <;> rw [h] <;> assumption

theorem wf_meet {x y : Itv} (hx : x.WF) (hy : y.WF) : (meet x y).WF := by
  unfold meet; split
  · exact wf_bot
  · exact wf_mk' (max_ne_pinf hx.1 hy.1) (min_ne_ninf hx.2 hy.2)

theorem wf_join {x y : Itv} (hx : x.WF) (hy : y.WF) : (join x y).WF := by
  unfold join; split
  · exact hy
  · split
    · exact hx
    · exact wf_mk' (min_ne_pinf hx.1 hy.1) (max_ne_ninf hx.2 hy.2)

theorem wf_widen {x y : Itv} (hx : x.WF) (hy : y.WF) : (widen x y).WF := by
  unfold widen; split
  · exact hy
  · split
    · exact hx
    · apply wf_mk'
      · split
        · simp
        · exact hx.1
      · split
        · simp
        · exact hx.2

theorem wf_narrow {x y : Itv} (hx : x.WF) (hy : y.WF) : (narrow x y).WF := by
  unfold narrow; split
  · exact wf_bot
  · apply wf_mk'
    · split
      · exact hy.1
      · exact hx.1
    · split
      · exact hy.2
      · exact hx.2

theorem wf_lowerHalfLine {x : Itv} (hx : x.WF) : x.lowerHalfLine.WF := wf_mk' (by simp) hx.2
theorem wf_upperHalfLine {x : Itv} (hx : x.WF) : x.upperHalfLine.WF := wf_mk' hx.1 (by simp)

theorem wf_trim {i : Itv} (hi : i.WF) (j : Itv) : (trim i j).WF := by
  unfold trim
  split
  · split
    · exact wf_mk' (by simp) hi.2
    · split
      · exact wf_mk' hi.1 (by simp)
      · exact hi
  · exact hi

/-- a non-bottom result of a sound operation applied to non-empty operands is well formed -/
theorem wf_mul {x y : Itv} (hx : x.WF) (hy : y.WF) : (mul x y).WF := by
  by_cases hb : (x.isBottom || y.isBottom) = true
  · unfold mul; simp only [hb, if_true]; exact wf_bot
  · simp only [Bool.or_eq_true, not_or, Bool.not_eq_true] at hb
    obtain ⟨a, ha⟩ := exists_mem hx hb.1
    obtain ⟨b, hb'⟩ := exists_mem hy hb.2
    exact wf_of_mem (mul_sound ha hb')

theorem wf_udiv (x y : Itv) : (udiv x y).WF := by unfold udiv; split; exact wf_bot; exact wf_top

theorem wf_srem (x y : Itv) : (srem x y).WF := by
  unfold srem
  split
  · exact wf_bot
  · split
    · split
      · exact wf_bot
      · exact wf_single _
    · split
      · simp only []
        split
        · exact wf_bot
        · split
          · split <;> exact wf_mk' (by simp) (by simp)
          · exact wf_mk' (by simp) (by simp)
      · exact wf_top

theorem wf_urem (x y : Itv) : (urem x y).WF := by
  unfold urem
  split
  · exact wf_bot
  · split
    · split
      · exact wf_top
      · split
        · exact wf_bot
        · split
          · exact wf_mk' (by simp) (by simp)
          · exact wf_single _
    · split
      · split
        · exact wf_top
        · split
          · exact wf_bot
          · exact wf_mk' (by simp) (by simp)
      · exact wf_top

theorem wf_and {x y : Itv} (hx : x.WF) (hy : y.WF) : (Itv.and x y).WF := by
  unfold Itv.and
  split
  · exact wf_bot
  · split
    · exact wf_single _
    · split
      · exact wf_mk' (by simp) (min_ne_ninf hx.2 hy.2)
      · exact wf_top

theorem wf_or (x y : Itv) : (Itv.or x y).WF := by
  unfold Itv.or
  split
  · exact wf_bot
  · split
    · exact wf_single _
    · split
      · split
        · exact wf_mk' (by simp) (by simp)
        · exact wf_mk' (by simp) (by simp)
      · exact wf_top

theorem wf_xor (x y : Itv) : (Itv.xor x y).WF := by
  unfold Itv.xor
  split
  · exact wf_bot
  · split
    · exact wf_single _
    · exact wf_or x y

theorem wf_shl {x : Itv} (hx : x.WF) (y : Itv) : (shl x y).WF := by
  unfold shl
  split
  · exact wf_bot
  · split
    · split
      · exact wf_top
      · split
        · exact wf_mul hx (wf_single _)
        · exact wf_top
    · exact wf_top

theorem shrBound_ne_pinf {b : Bound} (h : b ≠ pinf) (k : Int) : shrBound b k ≠ pinf := by
  cases b <;> simp_all [shrBound]
theorem shrBound_ne_ninf {b : Bound} (h : b ≠ ninf) (k : Int) : shrBound b k ≠ ninf := by
  cases b <;> simp_all [shrBound]

theorem wf_ashr {x : Itv} (hx : x.WF) (y : Itv) : (ashr x y).WF := by
  unfold ashr
  split
  · exact wf_bot
  · split
    · split
      · exact wf_top
      · split
        · exact wf_mk' (shrBound_ne_pinf hx.1 _) (shrBound_ne_ninf hx.2 _)
        · exact wf_top
    · exact wf_top

theorem wf_lshr (x y : Itv) : (lshr x y).WF := by
  unfold lshr
  split
  · exact wf_bot
  · split
    · split
      · exact wf_top
      · split
        · split
          · exact wf_mk' (by simp) (by simp)
          · exact wf_top
        · exact wf_top
    · exact wf_top

/-- a well-formed, non-bottom interval without a non-zero member is `[0,0]` -/
theorem eq_zero_of_no_nonzero {y : Itv} (hy : y.WF) (hb : y.isBottom = false)
    (h : ∀ b, mem b y → b = 0) : y = single 0 := by
  obtain ⟨l, u⟩ := y
  have hl : l = fin 0 := by
    cases hl : l with
    | pinf => exact absurd hl hy.1
    | ninf =>
      obtain ⟨k, hk, hm⟩ := unbounded_below hy (by simpa using hl) (-1)
      have := h k hm; omega
    | fin a => have := h a (lb_mem hb (by simpa using hl)); rw [this]
  have hu : u = fin 0 := by
    cases hu : u with
    | ninf => exact absurd hu hy.2
    | pinf =>
      obtain ⟨k, hk, hm⟩ := unbounded_above hy (by simpa using hu) 1
      have := h k hm; omega
    | fin a => have := h a (ub_mem hb (by simpa using hu)); rw [this]
  subst hl; subst hu; rfl

theorem div_single_zero {x : Itv} (hx : x.isBottom = false) : div x (single 0) = some bot := by
  have e1 : (single 0).isBottom = false := by decide
  have e2 : (single 0).singleton? = some 0 := by decide
  have e3 : (single 0).contains 0 = true := by decide
  have e4 : divSingleton x 0 = none := by simp [divSingleton]
  unfold div divGen
  simp only [hx, e1, Bool.or_self, Bool.false_eq_true, if_false, e2, Option.bind, e4, e3, if_true]
  have l1 : (mk' (single 0).lb (fin (-1))).isBottom = true := by decide
  have l2 : (mk' (fin 1) (single 0).ub).isBottom = true := by decide
  simp only [l1, l2, if_true]
  rfl

theorem wf_div {x y r : Itv} (hx : x.WF) (hy : y.WF) (h : div x y = some r) : r.WF := by
  by_cases hb : (x.isBottom || y.isBottom) = true
  · unfold div divGen at h; simp only [hb, if_true, Option.some.injEq] at h; subst h; exact wf_bot
  · simp only [Bool.or_eq_true, not_or, Bool.not_eq_true] at hb
    obtain ⟨a, ha⟩ := exists_mem hx hb.1
    by_cases hz : ∃ b, mem b y ∧ b ≠ 0
    · obtain ⟨b, hb', hb0⟩ := hz
      exact wf_of_mem (div_sound ha hb' hb0 h)
    · have hy0 := eq_zero_of_no_nonzero hy hb.2 (fun b hb' => by
        apply Classical.byContradiction; intro hn; exact hz ⟨b, hb', hn⟩)
      rw [hy0, div_single_zero hb.1] at h
      simp only [Option.some.injEq] at h; subst h; exact wf_bot

end Itv

namespace IDom

theorem wf_addT {x y : Itv} (hx : x.WF) (hy : y.WF) : (addT x y).WF := by
  unfold addT
  cases h : Itv.add x y with
  | none => exact Itv.wf_top
  | some r => exact Itv.add_wf hx hy h

theorem wf_subT {x y : Itv} (hx : x.WF) (hy : y.WF) : (subT x y).WF := by
  unfold subT
  cases h : Itv.sub x y with
  | none => exact Itv.wf_top
  | some r => exact Itv.sub_wf hx hy h

theorem wf_divT {x y : Itv} (hx : x.WF) (hy : y.WF) : (divT x y).WF := by
  unfold divT
  cases h : Itv.div x y with
  | none => exact Itv.wf_top
  | some r => exact Itv.wf_div hx hy h

/-- on well-formed operands the wrappers are the operations themselves: no CRAB_ERROR -/
theorem add_eq_addT {x y : Itv} (hx : x.WF) (hy : y.WF) : Itv.add x y = some (addT x y) := by
  have := Itv.add_defined hx hy
  unfold addT
  cases h : Itv.add x y with
  | none => rw [h] at this; simp at this
  | some r => rfl

theorem sub_eq_subT {x y : Itv} (hx : x.WF) (hy : y.WF) : Itv.sub x y = some (subT x y) := by
  have := Itv.sub_defined hx hy
  unfold subT
  cases h : Itv.sub x y with
  | none => rw [h] at this; simp at this
  | some r => rfl

theorem div_eq_divT (x y : Itv) : Itv.div x y = some (divT x y) := by
  have := Itv.div_defined x y
  unfold divT
  cases h : Itv.div x y with
  | none => rw [h] at this; simp at this
  | some r => rfl

theorem ArithOp.eval_wf (op : ArithOp) {x y : Itv} (hx : x.WF) (hy : y.WF) : (op.eval x y).WF := by
  cases op <;> simp only [ArithOp.eval]
  · exact wf_addT hx hy
  · exact wf_subT hx hy
  · exact Itv.wf_mul hx hy
  · exact wf_divT hx hy
  · exact Itv.wf_udiv x y
  · exact Itv.wf_srem x y
  · exact Itv.wf_urem x y

theorem BitOp.eval_wf (op : BitOp) {x y : Itv} (hx : x.WF) (hy : y.WF) : (op.eval x y).WF := by
  cases op <;> simp only [BitOp.eval]
  · exact Itv.wf_and hx hy
  · exact Itv.wf_or x y
  · exact Itv.wf_xor x y
  · exact Itv.wf_shl hx y
  · exact Itv.wf_lshr x y
  · exact Itv.wf_ashr hx y

/-- thresholds between `-oo` and `+oo`: `get_prev` is never `+oo`, `get_next` never `-oo` on the
    bounds of well-formed intervals -/
theorem wf_widenTh {ts : Thresholds} (hw : ts.WF) {x y : Itv} (hx : x.WF) (hy : y.WF) : (widenTh ts x y).WF := by
  unfold widenTh; split
  · exact hy
  · split
    · exact hx
    · apply Itv.wf_mk'
      · split
        · intro e
          have := Thresholds.getPrev_le hw y.lb
          rw [e] at this
          have : y.lb = .pinf := by cases h : y.lb <;> simp_all
          exact hy.1 this
        · exact hx.1
      · split
        · intro e
          have := Thresholds.le_getNext hw y.ub
          rw [e] at this
          have : y.ub = .ninf := by cases h : y.ub <;> simp_all
          exact hy.2 this
        · exact hx.2

end IDom
end Crab
