import CrabProofs.Lemmas.FunctorVPart

/-!
`value_partitioning_domain` over an arbitrary base: `operator|=` (the merging loop), the four
branches of `apply_binary_op` as upper bound (widenings) and as lower bound (`&`, `&&`), and the
invariant of their results.
-/
namespace Crab
namespace Dom
namespace Fct
namespace VP
set_option linter.unusedSectionVars false

variable {V S : Type} [DecidableEq V] {D : VDom V S}

/-! ### `m_partitions[0].get_dom() = ..` -/

theorem onFirst_single (f : D.B → D.B) (p : Part D) : onFirst f [p] = [Part.app f p] := rfl

theorem onFirst_ne_nil (f : D.B → D.B) {l : List (Part D)} (h : l ≠ []) : onFirst f l ≠ [] := by
  match l with
  | [] => exact absurd rfl h
  | p :: ps => simp [onFirst]

theorem onFirst_length (f : D.B → D.B) (l : List (Part D)) : (onFirst f l).length = l.length := by
  match l with
  | [] => rfl
  | p :: ps => simp [onFirst]

theorem foldl_joinval_acc (qs : List (Part D)) (v : D.B) (s : S) (h : D.γ v s) :
    D.γ (qs.foldl (fun acc q => D.join acc q.val) v) s := by
  induction qs generalizing v with
  | nil => exact h
  | cons q qs ih => exact ih _ (D.join_l _ _ _ h)

theorem foldl_joinval_mem (qs : List (Part D)) (v : D.B) (s : S) (h : γl qs s) :
    D.γ (qs.foldl (fun acc q => D.join acc q.val) v) s := by
  induction qs generalizing v with
  | nil => exact absurd h (γl_nil s)
  | cons q qs ih =>
    rcases (γl_cons q qs s).1 h with h1 | h1
    · exact foldl_joinval_acc qs _ s (D.join_r _ _ _ h1)
    · exact ih _ h1

/-! ### the loop of `operator|=` on the same variable -/

theorem joinOne_sound (r : Part D) (k : List (Part D) → List (Part D)) (R : Prop) (s : S)
    (hk : ∀ l, (γl l s ∨ R) → γl (k l) s) (l : List (Part D))
    (h : γl l s ∨ D.γ r.val s ∨ R) : γl (joinOne r k l) s := by
  induction l with
  | nil =>
    simp only [joinOne]
    rcases h with h | h | h
    · exact absurd h (γl_nil s)
    · exact (γl_cons _ _ s).2 (Or.inl h)
    · exact (γl_cons _ _ s).2 (Or.inr (hk [] (Or.inr h)))
  | cons p ps ih =>
    simp only [joinOne]
    split
    · rcases h with h | h
      · rcases (γl_cons p ps s).1 h with h1 | h1
        · exact (γl_cons _ _ s).2 (Or.inl h1)
        · exact (γl_cons _ _ s).2 (Or.inr (ih (Or.inl h1)))
      · exact (γl_cons _ _ s).2 (Or.inr (ih (Or.inr h)))
    · split
      · rcases h with h | h | h
        · exact (γl_cons _ _ s).2 (Or.inr (hk _ (Or.inl h)))
        · exact (γl_cons _ _ s).2 (Or.inl h)
        · exact (γl_cons _ _ s).2 (Or.inr (hk _ (Or.inr h)))
      · apply hk
        rcases h with h | h | h
        · have h1 : D.γ (Part.joinKey p r).val s ∨ γl ps s := (γl_cons p ps s).1 h
          rcases absorb_sound (Part.joinKey p r) ps s h1 with h2 | h2
          · exact Or.inl ((γl_cons _ _ s).2 (Or.inl (D.join_l _ _ _ h2)))
          · exact Or.inl ((γl_cons _ _ s).2 (Or.inr h2))
        · exact Or.inl ((γl_cons _ _ s).2 (Or.inl (D.join_r _ _ _ h)))
        · exact Or.inr h

theorem joinSame_sound (rs l : List (Part D)) (s : S) (h : γl l s ∨ γl rs s) : γl (joinSame rs l) s := by
  induction rs generalizing l with
  | nil =>
    rcases h with h | h
    · exact h
    · exact absurd h (γl_nil s)
  | cons r rs ih =>
    simp only [joinSame]
    apply joinOne_sound r (joinSame rs) (γl rs s) s (fun l' h' => ih l' h') l
    rcases h with h | h
    · exact Or.inl h
    · exact Or.inr ((γl_cons r rs s).1 h)

theorem joinOne_ne_nil (r : Part D) (k : List (Part D) → List (Part D))
    (hk : ∀ l, l ≠ [] → k l ≠ []) (l : List (Part D)) : joinOne r k l ≠ [] := by
  induction l with
  | nil => simp [joinOne]
  | cons p ps ih =>
    simp only [joinOne]
    split
    · simp
    · split
      · simp
      · exact hk _ (by simp)

theorem joinSame_ne_nil (rs l : List (Part D)) (h : l ≠ []) : joinSame rs l ≠ [] := by
  induction rs generalizing l with
  | nil => exact h
  | cons r rs ih => exact joinOne_ne_nil r _ (fun l' h' => ih l' h') l

/-! ### `operator|=` -/

theorem join_sound {a b : VP D} (ha : Inv a) (hb : Inv b) (s : S) (h : γ a s ∨ γ b s) : γ (join a b) s := by
  unfold join
  split
  · rename_i hba
    rcases h with h | h
    · exact absurd h (not_γ_of_isBottom hba s)
    · exact h
  · split
    · rename_i hbb
      rcases h with h | h
      · exact h
      · exact absurd h (not_γ_of_isBottom hbb s)
    · split
      · rename_i hv
        simp only [Bool.and_eq_true, Option.isNone_iff_eq_none] at hv
        obtain ⟨p, hp⟩ := ha.single hv.1
        obtain ⟨q, hq⟩ := hb.single hv.2
        show γl (onFirst _ a.parts) s
        rw [hp, hq, onFirst_single]
        refine ⟨_, List.mem_singleton.2 rfl, ?_⟩
        rcases h with ⟨p', hp', hg⟩ | ⟨q', hq', hg⟩
        · rw [hp, List.mem_singleton] at hp'; subst hp'
          exact D.join_l _ _ _ hg
        · rw [hq, List.mem_singleton] at hq'; subst hq'
          exact D.join_r _ _ _ hg
      · split
        · obtain ⟨p0, hp0, h0⟩ := removeParts_single ha
          show γl (onFirst _ (removeParts a).parts) s
          rw [hp0, onFirst_single]
          refine ⟨_, List.mem_singleton.2 rfl, ?_⟩
          rcases h with h | h
          · exact foldl_joinval_acc _ _ s (h0 s h)
          · exact foldl_joinval_mem _ _ s h
        · exact joinSame_sound b.parts a.parts s h

theorem join_inv {a b : VP D} (ha : Inv a) (hb : Inv b) : Inv (join a b) := by
  unfold join
  split
  · exact hb
  · split
    · exact ha
    · split
      · rename_i hv
        simp only [Bool.and_eq_true, Option.isNone_iff_eq_none] at hv
        exact ⟨onFirst_ne_nil _ ha.1, fun _ => by
          show (onFirst _ a.parts).length = 1
          rw [onFirst_length]; exact ha.2 hv.1⟩
      · split
        · have hr := removeParts_inv ha
          exact ⟨onFirst_ne_nil _ hr.1, fun _ => by
            show (onFirst _ (removeParts a).parts).length = 1
            rw [onFirst_length]; exact hr.2 (removeParts_var a)⟩
        · rename_i hn hne
          refine ⟨joinSame_ne_nil _ _ ha.1, fun hv => ?_⟩
          exfalso
          have hva : a.var = none := hv
          have hvb : b.var = none := by
            have : a.var = b.var := Decidable.of_not_not hne
            rw [← this]; exact hva
          apply hn
          simp [hva, hvb]

/-! ### `apply_binary_op` -/

theorem zipOp_upper (w : D.B → D.B → D.B) (hw : D.USound w) (l1 l2 : List (Part D)) (s : S)
    (hs : sameKeys l1 l2 = true) (h : γl l1 s ∨ γl l2 s) : γl (zipOp w l1 l2) s := by
  induction l1 generalizing l2 with
  | nil =>
    match l2 with
    | [] => rcases h with h | h <;> exact absurd h (γl_nil s)
    | q :: qs => simp [sameKeys] at hs
  | cons p ps ih =>
    match l2 with
    | [] => simp [sameKeys] at hs
    | q :: qs =>
      simp only [sameKeys, Bool.and_eq_true] at hs
      simp only [zipOp]
      rcases h with h | h
      · rcases (γl_cons p ps s).1 h with h1 | h1
        · exact (γl_cons _ _ s).2 (Or.inl (hw _ _ _ (Or.inl h1)))
        · exact (γl_cons _ _ s).2 (Or.inr (ih qs hs.2 (Or.inl h1)))
      · rcases (γl_cons q qs s).1 h with h1 | h1
        · exact (γl_cons _ _ s).2 (Or.inl (hw _ _ _ (Or.inr h1)))
        · exact (γl_cons _ _ s).2 (Or.inr (ih qs hs.2 (Or.inr h1)))

theorem zipOp_ne_nil (w : D.B → D.B → D.B) {l1 l2 : List (Part D)} (hs : sameKeys l1 l2 = true)
    (h : l1 ≠ []) : zipOp w l1 l2 ≠ [] := by
  match l1, l2 with
  | [], _ => exact absurd rfl h
  | p :: ps, [] => simp [sameKeys] at hs
  | p :: ps, q :: qs => simp [zipOp]

theorem sameKeys_length {l1 l2 : List (Part D)} (hs : sameKeys l1 l2 = true) : l1.length = l2.length := by
  induction l1 generalizing l2 with
  | nil =>
    match l2 with
    | [] => rfl
    | q :: qs => simp [sameKeys] at hs
  | cons p ps ih =>
    match l2 with
    | [] => simp [sameKeys] at hs
    | q :: qs =>
      simp only [sameKeys, Bool.and_eq_true] at hs
      simp [ih hs.2]

end VP
end Fct
end Dom
end Crab
