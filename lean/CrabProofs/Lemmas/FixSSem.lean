import CrabModel.Fix.InterleavedS
import CrabProofs.Lemmas.FixSoundMain

/-!
  The table lemmas of `FixSoundSem.lean` that mention `c.analyze`, restated for an arbitrary
  value `r` stored as the post of a block together with the fact that `r` is a sound image of the
  invariant it was computed from (`PostOf`).  Used by the soundness proof of the state-passing
  iterator `runS` (`FixSMain.lean`), where the block transformer is not a function of its argument.
-/
namespace Crab
namespace Fix
namespace Sound

variable {A S : Type} {c : Ctx A} {sem : Sem c S}

/-- `r` is a sound image of `a` under block `n` -/
def PostOf (sem : Sem c S) (n : Nat) (a r : A) : Prop :=
  ∀ s s', sem.γ a s → sem.step n s s' → sem.γ r s'

theorem vertex_sound' (st st' : St A) (v : Nat) (hself : v ∉ c.preds v)
    (hpre : st'.pre v = vertexPre c st v) (hpost : PostOf sem v (vertexPre c st v) (st'.post v)) :
    Snd c sem [v] (Ext sem st) st' := by
  intro n s hL
  have hn : n = v := by simpa using hL.mem
  subst hn
  have hγ : sem.γ (vertexPre c st n) s := by
    cases hL with
    | init s h1 h2 h3 => exact vertexPre_of_init st _ s rfl h2 h3
    | inj p n s h1 h2 h3 h4 h5 => exact vertexPre_of_pred st n p s h3 h4 h5
    | flow p n s0 s h1 h2 h3 h4 h5 h6 =>
        have : p = n := by simpa using h2
        subst this
        exact absurd h3 hself
  exact ⟨hpre ▸ hγ, fun s' hs => hpost s s' hγ hs⟩

theorem cycle_core' (h : Nat) (B : List Nat) (st st1 st2 : St A) (pre : A)
    (hhB : h ∉ B)
    (hp1 : PostOf sem h pre (st1.post h))
    (hf1 : ∀ n, n ≠ h → st1.post n = st.post n)
    (hf2 : ∀ n, n ∉ B → st2.post n = st1.post n)
    (hB : Snd c sem B (Ext sem st1) st2)
    (hH : ∀ s, LPre c sem (h :: B) (Ext sem st) h s → sem.γ (newPre c st2 h) s → sem.γ pre s) :
    (∀ s, LPre c sem (h :: B) (Ext sem st) h s → sem.γ pre s) ∧
    (∀ n s, LPre c sem (h :: B) (Ext sem st) n s → n ∈ B → LPre c sem B (Ext sem st1) n s) := by
  have hpost_h : ∀ s0 s, sem.γ pre s0 → sem.step h s0 s → sem.γ (st2.post h) s := by
    intro s0 s h0 hs
    rw [hf2 h hhB]; exact hp1 s0 s h0 hs
  have key : ∀ n s, LPre c sem (h :: B) (Ext sem st) n s →
      (n = h → sem.γ pre s) ∧ (n ∈ B → LPre c sem B (Ext sem st1) n s) := by
    intro n s hL
    induction hL with
    | init s h1 h2 h3 =>
        refine ⟨fun he => ?_, fun hb => .init s hb h2 h3⟩
        subst he
        exact hH s (.init s h1 h2 h3) (newPre_of_init st2 _ s rfl h2 h3)
    | inj p n s hn hp hpn hE ha =>
        have hp' : p ≠ h ∧ p ∉ B := by simpa using hp
        have hE1 : sem.γ (st1.post p) s := by rw [hf1 p hp'.1]; exact hE
        refine ⟨fun he => ?_, fun hb => .inj p n s hb hp'.2 hpn hE1 ha⟩
        subst he
        refine hH s (.inj p n s hn hp hpn hE ha) (newPre_of_pred st2 n p s hpn ?_ ha)
        rw [hf2 p hp'.2]; exact hE1
    | flow p n s0 s hn hp hpn hL hs ha ih =>
        have hq2 : sem.γ (st2.post p) s := by
          rcases List.mem_cons.1 hp with hp | hp
          · subst hp; exact hpost_h s0 s (ih.1 rfl) hs
          · exact (hB p s0 (ih.2 hp)).2 s hs
        constructor
        · intro he
          subst he
          exact hH s (.flow p n s0 s hn hp hpn hL hs ha) (newPre_of_pred st2 n p s hpn hq2 ha)
        · intro hb
          rcases List.mem_cons.1 hp with hp | hp
          · subst hp
            refine .inj p n s hb hhB hpn ?_ ha
            show sem.γ (st1.post p) s
            exact hp1 s0 s (ih.1 rfl) hs
          · exact .flow p n s0 s hb hp hpn (ih.2 hp) hs ha
  exact ⟨fun s hL => (key h s hL).1 rfl, fun n s hL hb => (key n s hL).2 hb⟩

theorem cycle_round' (h : Nat) (B : List Nat) (st st1 st2 : St A) (pre : A)
    (hhB : h ∉ B)
    (hp1 : PostOf sem h pre (st1.post h))
    (hf1 : ∀ n, n ≠ h → st1.post n = st.post n)
    (hf2 : ∀ n, n ∉ B → st2.post n = st1.post n)
    (hB : Snd c sem B (Ext sem st1) st2)
    (hH : ∀ s, LPre c sem (h :: B) (Ext sem st) h s → sem.γ (newPre c st2 h) s → sem.γ pre s)
    (hpre : ∀ s, LPre c sem (h :: B) (Ext sem st) h s → sem.γ pre s → sem.γ (st2.pre h) s) :
    Snd c sem (h :: B) (Ext sem st) st2 ∧
    (∀ s, LPre c sem (h :: B) (Ext sem st) h s → sem.γ pre s) := by
  obtain ⟨k1, k2⟩ := cycle_core' h B st st1 st2 pre hhB hp1 hf1 hf2 hB hH
  refine ⟨?_, k1⟩
  intro n s hL
  rcases List.mem_cons.1 hL.mem with hn | hn
  · subst hn
    refine ⟨hpre s hL (k1 s hL), fun s' hs => ?_⟩
    rw [hf2 n hhB]; exact hp1 s s' (k1 s hL) hs
  · exact hB n s (k2 n s hL hn)

end Sound
end Fix
end Crab
