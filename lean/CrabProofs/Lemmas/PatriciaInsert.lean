import CrabProofs.Lemmas.PatriciaWF

/-! `join`, `insert`, `remove` of patricia trees: well-formedness is preserved and `lookup`
    changes pointwise, whatever the pointer-equality / value-equality oracles answer. -/
namespace Crab
namespace Patricia
open Tree

variable {V : Type} {P : V → Prop}

/-- the oracles never claim more than structural equality (`valEq` only matters when its
    second argument is a stored value) -/
def Ctx.SoundOn (P : V → Prop) (c : Ctx V) : Prop :=
  (∀ a b, c.ptrEq a b = true → a = b) ∧ (∀ x y, P y → c.valEq x y = true → x = y)

theorem Ctx.Sound.soundOn {c : Ctx V} (h : c.Sound) (P : V → Prop) : c.SoundOn P :=
  ⟨h.1, fun x y _ => h.2 x y⟩

theorem Ctx.never_sound : (Ctx.never : Ctx V).Sound := ⟨by simp [Ctx.never], by simp [Ctx.never]⟩

theorem Ctx.SoundOn.peq {c : Ctx V} (h : c.SoundOn P) {a b : Tree V} (e : c.peq a b = true) : a = b := by
  cases a <;> cases b <;>
    first | rfl | (simp [Ctx.peq] at e; done) | exact h.1 _ _ (by simpa [Ctx.peq] using e)

/-- the binary operation applied in the direction given by `combine_left_to_right` -/
def app (op : BinOp V) (l2r : Bool) (k : Nat) (x y : V) : OpRes V :=
  if l2r then op.apply k x y else op.apply k y x

theorem app_not (op : BinOp V) (l2r : Bool) (k : Nat) (x y : V) : app op (!l2r) k x y = app op l2r k y x := by
  cases l2r <;> rfl

/-- the operation keeps the invariant of stored values -/
def BinOp.Pres (op : BinOp V) (P : V → Prop) : Prop :=
  ∀ k x y z, P x → P y → op.apply k x y = .val z → P z

theorem BinOp.Pres.app {op : BinOp V} (h : op.Pres P) {l2r : Bool} {k : Nat} {x y z : V}
    (hx : P x) (hy : P y) (e : app op l2r k x y = .val z) : P z := by
  cases l2r
  · exact h k y x z hy hx e
  · exact h k x y z hx hy e

/-! ### `join` -/

theorem bb'_eq {t : Tree V} (h : WF P t) : t.bb' = if lvl t = 0 then 0 else 2 ^ (lvl t - 1) := by
  cases t with
  | empty => rfl
  | leaf k v => rfl
  | node p m l r =>
    obtain ⟨i, _, rfl, _⟩ := h
    simp [Tree.bb', lvl, Nat.log2_two_pow]

theorem startBit_eq {t0 t1 : Tree V} (h0 : WF P t0) (h1 : WF P t1) (hL : max (lvl t0) (lvl t1) < 64) :
    Nat.max 1 (dbl (Nat.max t0.bb' t1.bb')) = 2 ^ (max (lvl t0) (lvl t1)) := by
  rw [bb'_eq h0, bb'_eq h1]
  have pos : ∀ n, 0 < 2 ^ n := fun n => Nat.pow_pos (by decide)
  have mono : ∀ a b, a ≤ b → 2 ^ a ≤ 2 ^ b := fun a b h => Nat.pow_le_pow_right (by decide) h
  have key : ∀ L, 0 < L → L < 64 → Nat.max 1 (dbl (2 ^ (L - 1))) = 2 ^ L := by
    intro L h1 h2
    rw [dbl_two_pow (by omega)]
    have : L - 1 + 1 = L := by omega
    rw [this]
    exact Nat.max_eq_right (pos L)
  by_cases a0 : lvl t0 = 0 <;> by_cases a1 : lvl t1 = 0
  · simp [a0, a1, dbl]
  · simp only [a0, a1, if_true, if_false]
    have : Nat.max 0 (2 ^ (lvl t1 - 1)) = 2 ^ (lvl t1 - 1) := Nat.max_eq_right (Nat.zero_le _)
    rw [this, key _ (by omega) (by omega)]
    congr 1 <;> omega
  · simp only [a0, a1, if_true, if_false]
    have : Nat.max (2 ^ (lvl t0 - 1)) 0 = 2 ^ (lvl t0 - 1) := Nat.max_eq_left (Nat.zero_le _)
    rw [this, key _ (by omega) (by omega)]
    congr 1 <;> omega
  · simp only [a0, a1, if_false]
    by_cases hle : lvl t0 ≤ lvl t1
    · have : Nat.max (2 ^ (lvl t0 - 1)) (2 ^ (lvl t1 - 1)) = 2 ^ (lvl t1 - 1) :=
        Nat.max_eq_right (mono _ _ (by omega))
      rw [this, key _ (by omega) (by omega)]
      congr 1 <;> omega
    · have : Nat.max (2 ^ (lvl t0 - 1)) (2 ^ (lvl t1 - 1)) = 2 ^ (lvl t0 - 1) :=
        Nat.max_eq_left (mono _ _ (by omega))
      rw [this, key _ (by omega) (by omega)]
      congr 1 <;> omega

/-- `join` of two non-empty well-formed trees whose prefixes differ above both levels -/
theorem join_spec {t0 t1 : Tree V} (h0 : WF P t0) (h1 : WF P t1)
    (hd : ∃ b, max (lvl t0) (lvl t1) ≤ b ∧ t0.pfx'.testBit b ≠ t1.pfx'.testBit b) :
    WF P (join t0 t1) ∧ ∀ k, (join t0 t1).lookup k = (t0.lookup k).or (t1.lookup k) := by
  have hp0 := h0.pfx_lt
  have hp1 := h1.pfx_lt
  have hL : max (lvl t0) (lvl t1) < 64 := by
    obtain ⟨b, hb, hne⟩ := hd
    by_cases hb64 : b < 64
    · omega
    · exfalso
      rw [testBit_false_of_lt64 hp0 (by omega), testBit_false_of_lt64 hp1 (by omega)] at hne
      exact hne rfl
  obtain ⟨h, hLh, hh, hres, hdiff, hag⟩ := highestBit_xor hp0 hp1 hL hd
  have hm : computeBranchingBit t0.pfx' t0.bb' t1.pfx' t1.bb' = 2 ^ h := by
    unfold computeBranchingBit
    rw [startBit_eq h0 h1 hL]; exact hres
  have hal := aligned_mask hh hp0
  have hagm := agree_mask hh hp0
  have hmlt := mask_lt t0.pfx' (2 ^ h)
  -- keys of t0 / t1 relative to the new node
  have k0 : ∀ k ∈ t0.keys, AgreeAbove h k (mask t0.pfx' (2 ^ h)) ∧ k.testBit h = t0.pfx'.testBit h := by
    intro k hk
    have ag := h0.agree_pfx hk
    refine ⟨fun j hj => ?_, ag h (by omega)⟩
    rw [ag j (by omega)]; exact (hagm j hj).symm
  have k1 : ∀ k ∈ t1.keys, AgreeAbove h k (mask t0.pfx' (2 ^ h)) ∧ k.testBit h = t1.pfx'.testBit h := by
    intro k hk
    have ag := h1.agree_pfx hk
    refine ⟨fun j hj => ?_, ag h (by omega)⟩
    rw [ag j (by omega), ← hag j hj]; exact (hagm j hj).symm
  unfold join
  simp only [hm, zeroBit_two_pow]
  cases hb0 : t0.pfx'.testBit h
  · have hb1 : t1.pfx'.testBit h = true := by
      cases hb1 : t1.pfx'.testBit h
      · rw [hb0, hb1] at hdiff; exact absurd rfl hdiff
      · rfl
    have kl : ∀ k ∈ t0.keys, InL h (mask t0.pfx' (2 ^ h)) k := fun k hk => ⟨(k0 k hk).1, by rw [(k0 k hk).2, hb0]⟩
    have kr : ∀ k ∈ t1.keys, InR h (mask t0.pfx' (2 ^ h)) k := fun k hk => ⟨(k1 k hk).1, by rw [(k1 k hk).2, hb1]⟩
    simp only [Bool.not_false, if_true]
    refine ⟨WF_mkNode hh hmlt hal h0 h1 kl kr, fun k => ?_⟩
    have kle : ∀ k ∈ t0.keys, k ≤ mask t0.pfx' (2 ^ h) := fun k hk => le_of_InL hal (kl k hk)
    have kgt : ∀ k ∈ t1.keys, mask t0.pfx' (2 ^ h) < k := fun k hk => lt_of_InR hal (kr k hk)
    rw [lookup_mkNode kle kgt]
    split
    · rename_i hk
      have : t1.lookup k = none := lookup_none_of_not_mem (fun hm => by have := kgt k hm; omega)
      rw [this]; simp
    · rename_i hk
      have : t0.lookup k = none := lookup_none_of_not_mem (fun hm => hk (kle k hm))
      rw [this]; simp
  · have hb1 : t1.pfx'.testBit h = false := by
      cases hb1 : t1.pfx'.testBit h
      · rfl
      · rw [hb0, hb1] at hdiff; exact absurd rfl hdiff
    have kr : ∀ k ∈ t0.keys, InR h (mask t0.pfx' (2 ^ h)) k := fun k hk => ⟨(k0 k hk).1, by rw [(k0 k hk).2, hb0]⟩
    have kl : ∀ k ∈ t1.keys, InL h (mask t0.pfx' (2 ^ h)) k := fun k hk => ⟨(k1 k hk).1, by rw [(k1 k hk).2, hb1]⟩
    simp only [Bool.not_true, Bool.false_eq_true, if_false]
    refine ⟨WF_mkNode hh hmlt hal h1 h0 kl kr, fun k => ?_⟩
    have kle : ∀ k ∈ t1.keys, k ≤ mask t0.pfx' (2 ^ h) := fun k hk => le_of_InL hal (kl k hk)
    have kgt : ∀ k ∈ t0.keys, mask t0.pfx' (2 ^ h) < k := fun k hk => lt_of_InR hal (kr k hk)
    rw [lookup_mkNode kle kgt]
    split
    · rename_i hk
      have : t0.lookup k = none := lookup_none_of_not_mem (fun hm => by have := kgt k hm; omega)
      rw [this]; simp
    · rename_i hk
      have : t1.lookup k = none := lookup_none_of_not_mem (fun hm => hk (kle k hm))
      rw [this]
      cases t0.lookup k <;> simp


/-! ### rebuilding a node around a changed child -/

theorem rebuild_left {i p : Nat} {l r l' : Tree V} (hw : WF P (.node p (2 ^ i) l r)) (hl' : WF P l')
    (hk' : ∀ k ∈ l'.keys, InL i p k) :
    WF P (mkNode p (2 ^ i) l' r) ∧
      ∀ k, (mkNode p (2 ^ i) l' r).lookup k = if k ≤ p then l'.lookup k else r.lookup k := by
  have hgt := hw.right_gt
  obtain ⟨j, hj, he, hp, ha, _, _, _, hwr, _, hkr⟩ := hw
  have : i = j := (Nat.pow_right_inj (by decide)).mp he
  subst this
  exact ⟨WF_mkNode hj hp ha hl' hwr hk' hkr,
    lookup_mkNode (fun k hk => le_of_InL ha (hk' k hk)) hgt⟩

theorem rebuild_right {i p : Nat} {l r r' : Tree V} (hw : WF P (.node p (2 ^ i) l r)) (hr' : WF P r')
    (hk' : ∀ k ∈ r'.keys, InR i p k) :
    WF P (mkNode p (2 ^ i) l r') ∧
      ∀ k, (mkNode p (2 ^ i) l r').lookup k = if k ≤ p then l.lookup k else r'.lookup k := by
  have hle := hw.left_le
  obtain ⟨j, hj, he, hp, ha, _, _, hwl, _, hkl, _⟩ := hw
  have : i = j := (Nat.pow_right_inj (by decide)).mp he
  subst this
  exact ⟨WF_mkNode hj hp ha hwl hr' hkl hk',
    lookup_mkNode hle (fun k hk => lt_of_InR ha (hk' k hk))⟩

theorem ite_peq_left {c : Ctx V} (hc : c.SoundOn P) {p m : Nat} {l r n : Tree V} (hl : l ≠ .empty) (hr : r ≠ .empty) :
    (if c.peq n l then some (Tree.node p m l r) else some (mkNode p m n r)) = some (mkNode p m n r) := by
  split
  · rename_i h; rw [hc.peq h, mkNode_of_ne hl hr]
  · rfl

theorem ite_peq_right {c : Ctx V} (hc : c.SoundOn P) {p m : Nat} {l r n : Tree V} (hl : l ≠ .empty) (hr : r ≠ .empty) :
    (if c.peq n r then some (Tree.node p m l r) else some (mkNode p m l n)) = some (mkNode p m l n) := by
  split
  · rename_i h; rw [hc.peq h, mkNode_of_ne hl hr]
  · rfl

theorem isEmpty_false {t : Tree V} (h : t ≠ .empty) : t.isEmpty = false := by
  cases t <;> simp_all [Tree.isEmpty]

/-- a key that does not match the prefix of a node is not bound in it -/
theorem not_mem_of_not_agree {i p m : Nat} {l r : Tree V} (hw : WF P (.node p m l r)) (hm : m = 2 ^ i)
    {k : Nat} (h : ¬ AgreeAbove i k p) : k ∉ (Tree.node p m l r).keys := by
  obtain ⟨j, _, he, _, _, _, _, _, _, hkl, hkr⟩ := hw
  have : i = j := (Nat.pow_right_inj (by decide)).mp (hm ▸ he)
  subst this
  intro hk
  simp at hk
  rcases hk with hk | hk
  · exact h (hkl k hk).1
  · exact h (hkr k hk).1

theorem exists_bit_of_not_agree {i k p : Nat} (h : ¬ AgreeAbove i k p) :
    ∃ b, i + 1 ≤ b ∧ k.testBit b ≠ p.testBit b := by
  apply Classical.byContradiction
  intro hn
  apply h
  intro j hj
  apply Classical.byContradiction
  intro hne
  exact hn ⟨j, hj, hne⟩

/-! ### `insert` -/

/-- pointwise effect of `insert` at the inserted key (outer `none` = bottom is raised) -/
def insSpec (op : BinOp V) (l2r : Bool) (k : Nat) (v : V) : Option V → Option (Option V)
  | some x =>
    match app op l2r k x v with
    | .bottom => none
    | .dflt => some none
    | .val z => some (some z)
  | none => some (if op.absorbing then none else some v)

/-- what `insert` guarantees -/
def InsertOK (P : V → Prop) (op : BinOp V) (l2r : Bool) (k : Nat) (v : V) (t : Tree V)
    (res : Option (Tree V)) : Prop :=
  match res with
  | none => insSpec op l2r k v (t.lookup k) = none
  | some r => WF P r ∧ insSpec op l2r k v (t.lookup k) = some (r.lookup k) ∧
      ∀ k', k' ≠ k → r.lookup k' = t.lookup k'

theorem combineLeaf_spec {c : Ctx V} (hc : c.SoundOn P) {res : OpRes V} {old : V} {k : Nat} (ho : P old) :
    combineLeaf c res old (.leaf k old) k =
      match res with
      | .bottom => none
      | .val nv => some (.leaf k nv)
      | .dflt => some .empty := by
  unfold combineLeaf
  cases res with
  | bottom => rfl
  | dflt => rfl
  | val nv =>
    simp only
    split
    · rename_i h; rw [hc.2 nv old ho h]
    · rfl

theorem insert_spec {c : Ctx V} {op : BinOp V} {l2r : Bool} (hc : c.SoundOn P) (hop : op.Pres P)
    {k : Nat} {v : V} (hk : k < 2 ^ 64) (hv : P v) :
    ∀ {t : Tree V}, WF P t → InsertOK P op l2r k v t (insert c op l2r t k v) := by
  intro t
  induction t with
  | empty =>
    intro _
    unfold insert
    split <;> simp [InsertOK, insSpec, WF_leaf, *]
    intro k' hk'; omega
  | leaf key value =>
    intro hw
    unfold insert
    by_cases hkk : key = k
    · subst hkk
      rw [if_pos rfl, combineLeaf_spec hc hw.2]
      cases hres : (if l2r = true then op.apply key value v else op.apply key v value) with
      | bottom => simp [InsertOK, insSpec, app, hres]
      | dflt =>
        simp [InsertOK, insSpec, app, hres]
        intro k' h1 h2; exact h1 h2.symm
      | val nv =>
        have : P nv := hop.app (l2r := l2r) hw.2 hv (by simpa [app] using hres)
        simp [InsertOK, insSpec, app, hres, WF_leaf, hw.1, this]
        intro k' h1
        have : ¬ key = k' := fun h => h1 h.symm
        simp [this]
    · rw [if_neg hkk]
      split
      · rename_i ha
        simp [InsertOK, insSpec, hkk, ha]
        exact hw
      · rename_i ha
        have hd : ∃ b, max (lvl (Tree.leaf k v)) (lvl (Tree.leaf key value)) ≤ b ∧
            (Tree.leaf k v).pfx'.testBit b ≠ (Tree.leaf key value).pfx'.testBit b := by
          obtain ⟨b, hb⟩ := Nat.exists_testBit_ne_of_ne (Ne.symm hkk)
          exact ⟨b, by simp [lvl], hb⟩
        have hwk : WF P (Tree.leaf k v) := ⟨hk, hv⟩
        obtain ⟨hwj, hlj⟩ := join_spec hwk hw hd
        refine ⟨hwj, ?_, ?_⟩
        · rw [hlj]; simp [insSpec, hkk, ha]
        · intro k' hk'
          rw [hlj]
          have : ¬ k = k' := fun h => hk' h.symm
          simp [this]
  | node p m l r ihl ihr =>
    intro hw
    have hw' := hw
    obtain ⟨i, hi, rfl, hp, ha, hl, hr, hwl, hwr, hkl, hkr⟩ := hw
    unfold insert
    by_cases hmp : matchPrefix k p (2 ^ i) = true
    · rw [if_pos hmp]
      have hag := (matchPrefix_iff hi hk ha).mp hmp
      rw [zeroBit_two_pow]
      cases hbit : k.testBit i
      · -- left
        have hin : InL i p k := ⟨hag, hbit⟩
        have hkp : k ≤ p := le_of_InL ha hin
        simp only [Bool.not_false, if_true, isEmpty_false hl, Bool.false_eq_true, if_false]
        have ih := ihl hwl
        cases hres : insert c op l2r l k v with
        | none =>
          rw [hres] at ih
          simpa [InsertOK, hkp] using ih
        | some newLb =>
          rw [hres] at ih
          obtain ⟨hwn, hsp, hoth⟩ := ih
          simp only [ite_peq_left hc hl hr]
          have hkn : ∀ k' ∈ newLb.keys, InL i p k' := by
            intro k' hk'
            by_cases e : k' = k
            · subst e; exact hin
            · obtain ⟨x, hx⟩ := (mem_keys_iff_lookup hwn).mp hk'
              rw [hoth k' e] at hx
              exact hkl k' (mem_keys_of_lookup hx)
          obtain ⟨hwres, hlres⟩ := rebuild_left hw' hwn hkn
          refine ⟨hwres, ?_, ?_⟩
          · rw [hlres]; simpa [hkp] using hsp
          · intro k' hk'
            rw [hlres]
            simp only [lookup_node]
            split
            · exact hoth k' hk'
            · rfl
      · -- right
        have hin : InR i p k := ⟨hag, hbit⟩
        have hkp : ¬ k ≤ p := by have := lt_of_InR ha hin; omega
        simp only [Bool.not_true, Bool.false_eq_true, if_false, isEmpty_false hr]
        have ih := ihr hwr
        cases hres : insert c op l2r r k v with
        | none =>
          rw [hres] at ih
          simpa [InsertOK, hkp] using ih
        | some newRb =>
          rw [hres] at ih
          obtain ⟨hwn, hsp, hoth⟩ := ih
          simp only [ite_peq_right hc hl hr]
          have hkn : ∀ k' ∈ newRb.keys, InR i p k' := by
            intro k' hk'
            by_cases e : k' = k
            · subst e; exact hin
            · obtain ⟨x, hx⟩ := (mem_keys_iff_lookup hwn).mp hk'
              rw [hoth k' e] at hx
              exact hkr k' (mem_keys_of_lookup hx)
          obtain ⟨hwres, hlres⟩ := rebuild_right hw' hwn hkn
          refine ⟨hwres, ?_, ?_⟩
          · rw [hlres]; simpa [hkp] using hsp
          · intro k' hk'
            rw [hlres]
            simp only [lookup_node]
            split
            · rfl
            · exact hoth k' hk'
    · rw [if_neg hmp]
      have hnag : ¬ AgreeAbove i k p := fun h => hmp ((matchPrefix_iff hi hk ha).mpr h)
      have hnone : (Tree.node p (2 ^ i) l r).lookup k = none :=
        lookup_none_of_not_mem (not_mem_of_not_agree hw' rfl hnag)
      split
      · rename_i hab
        refine ⟨hw', ?_, fun _ _ => rfl⟩
        rw [hnone]; simp [insSpec, hab]
      · rename_i hab
        have hd : ∃ b, max (lvl (Tree.leaf k v)) (lvl (Tree.node p (2 ^ i) l r)) ≤ b ∧
            (Tree.leaf k v).pfx'.testBit b ≠ (Tree.node p (2 ^ i) l r).pfx'.testBit b := by
          obtain ⟨b, hb, hne⟩ := exists_bit_of_not_agree hnag
          exact ⟨b, by simp [lvl, Nat.log2_two_pow]; omega, hne⟩
        have hwk : WF P (Tree.leaf k v) := ⟨hk, hv⟩
        obtain ⟨hwj, hlj⟩ := join_spec hwk hw' hd
        refine ⟨hwj, ?_, ?_⟩
        · rw [hlj, hnone]; simp [insSpec, hab]
        · intro k' hk'
          rw [hlj]
          have : ¬ k = k' := fun h => hk' h.symm
          simp [this]

theorem insertOp_pres : (insertOp : BinOp V).Pres P := by
  intro k x y z _ hy h
  simp [insertOp] at h; subst h; exact hy

/-- `patricia_tree::insert(key, value)`: the binding is overwritten, nothing else changes -/
theorem insertKV_spec {c : Ctx V} (hc : c.SoundOn P) {t : Tree V} (hw : WF P t) {k : Nat} {v : V}
    (hk : k < 2 ^ 64) (hv : P v) :
    WF P (insertKV c t k v) ∧ ∀ k', (insertKV c t k v).lookup k' = if k' = k then some v else t.lookup k' := by
  have h := insert_spec (l2r := true) hc insertOp_pres hk hv hw
  unfold insertKV
  cases hres : insert c insertOp true t k v with
  | none =>
    rw [hres] at h
    simp only [InsertOK] at h
    cases hl : t.lookup k <;> simp [hl, insSpec, app, insertOp] at h
  | some r =>
    rw [hres] at h
    obtain ⟨hwr, hsp, hoth⟩ := h
    refine ⟨hwr, fun k' => ?_⟩
    by_cases e : k' = k
    · subst e
      simp only [if_true]
      cases hl : t.lookup k' <;> simp [hl, insSpec, app, insertOp] at hsp <;> exact hsp.symm
    · simp only [e, if_false]; exact hoth k' e

/-! ### `remove` -/

theorem remove_spec {c : Ctx V} (hc : c.SoundOn P) {k : Nat} (hk : k < 2 ^ 64) :
    ∀ {t : Tree V}, WF P t →
      WF P (remove c t k) ∧ ∀ k', (remove c t k).lookup k' = if k' = k then none else t.lookup k' := by
  intro t
  induction t with
  | empty => intro _; simp [remove]
  | leaf key value =>
    intro hw
    unfold remove
    by_cases hkk : key = k
    · subst hkk
      simp
      intro k' h1 h2; exact absurd h2.symm h1
    · rw [if_neg hkk]
      refine ⟨hw, fun k' => ?_⟩
      by_cases e : k' = k
      · subst e; simp [hkk]
      · simp [e]
  | node p m l r ihl ihr =>
    intro hw
    have hw' := hw
    obtain ⟨i, hi, rfl, hp, ha, hl, hr, hwl, hwr, hkl, hkr⟩ := hw
    unfold remove
    by_cases hmp : matchPrefix k p (2 ^ i) = true
    · rw [if_pos hmp]
      have hag := (matchPrefix_iff hi hk ha).mp hmp
      rw [zeroBit_two_pow]
      cases hbit : k.testBit i
      · have hin : InL i p k := ⟨hag, hbit⟩
        have hkp : k ≤ p := le_of_InL ha hin
        simp only [Bool.not_false, if_true, isEmpty_false hl, Bool.false_eq_true, if_false]
        obtain ⟨hwn, hln⟩ := ihl hwl
        have e1 : (if c.peq (remove c l k) l = true then Tree.node p (2 ^ i) l r
              else mkNode p (2 ^ i) (remove c l k) r) = mkNode p (2 ^ i) (remove c l k) r := by
          split
          · rename_i h; rw [hc.peq h, mkNode_of_ne hl hr]
          · rfl
        rw [e1]
        have hkn : ∀ k' ∈ (remove c l k).keys, InL i p k' := by
          intro k' hk'
          obtain ⟨x, hx⟩ := (mem_keys_iff_lookup hwn).mp hk'
          rw [hln] at hx
          split at hx
          · cases hx
          · exact hkl k' (mem_keys_of_lookup hx)
        obtain ⟨hwres, hlres⟩ := rebuild_left hw' hwn hkn
        refine ⟨hwres, fun k' => ?_⟩
        rw [hlres, hln]
        simp only [lookup_node]
        by_cases e : k' = k
        · subst e; simp [hkp]
        · simp [e]
      · have hin : InR i p k := ⟨hag, hbit⟩
        have hkp : ¬ k ≤ p := by have := lt_of_InR ha hin; omega
        simp only [Bool.not_true, Bool.false_eq_true, if_false, isEmpty_false hr]
        obtain ⟨hwn, hln⟩ := ihr hwr
        have e1 : (if c.peq (remove c r k) r = true then Tree.node p (2 ^ i) l r
              else mkNode p (2 ^ i) l (remove c r k)) = mkNode p (2 ^ i) l (remove c r k) := by
          split
          · rename_i h; rw [hc.peq h, mkNode_of_ne hl hr]
          · rfl
        rw [e1]
        have hkn : ∀ k' ∈ (remove c r k).keys, InR i p k' := by
          intro k' hk'
          obtain ⟨x, hx⟩ := (mem_keys_iff_lookup hwn).mp hk'
          rw [hln] at hx
          split at hx
          · cases hx
          · exact hkr k' (mem_keys_of_lookup hx)
        obtain ⟨hwres, hlres⟩ := rebuild_right hw' hwn hkn
        refine ⟨hwres, fun k' => ?_⟩
        rw [hlres, hln]
        simp only [lookup_node]
        by_cases e : k' = k
        · subst e; simp [hkp]
        · simp [e]
    · rw [if_neg hmp]
      have hnag : ¬ AgreeAbove i k p := fun h => hmp ((matchPrefix_iff hi hk ha).mpr h)
      have hnone : (Tree.node p (2 ^ i) l r).lookup k = none :=
        lookup_none_of_not_mem (not_mem_of_not_agree hw' rfl hnag)
      refine ⟨hw', fun k' => ?_⟩
      by_cases e : k' = k
      · subst e; simp only [if_true]; exact hnone
      · simp [e]

end Patricia
end Crab
