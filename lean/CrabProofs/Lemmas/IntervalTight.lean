import CrabProofs.Lemmas.IntervalMul

/-! Tightness ("smallest interval") of `+`, `-`, `*` and join of `Crab.Itv`:
    `+`/`-` are exact, `*` has attained-or-unbounded corner products, and any interval that
    contains every concrete result contains the computed interval. -/
namespace Crab
namespace Itv
open Bound

/-! ### members of well-formed intervals -/

theorem lb_mem {x : Itv} (hb : x.isBottom = false) {l : Int} (h : x.lb = fin l) : mem l x := by
  simp [isBottom, Bound.gt] at hb
  refine ⟨by rw [h]; simp, ?_⟩
  rw [← h]; exact hb

theorem ub_mem {x : Itv} (hb : x.isBottom = false) {u : Int} (h : x.ub = fin u) : mem u x := by
  simp [isBottom, Bound.gt] at hb
  refine ⟨?_, by rw [h]; simp⟩
  rw [← h]; exact hb

/-- a well-formed non-bottom interval has a member -/
theorem exists_mem {x : Itv} (hw : x.WF) (hb : x.isBottom = false) : ∃ k, mem k x := by
  obtain ⟨w1, w2⟩ := hw
  cases hl : x.lb with
  | fin l => exact ⟨l, lb_mem hb hl⟩
  | pinf => exact absurd hl w1
  | ninf =>
    cases hu : x.ub with
    | fin u => exact ⟨u, ub_mem hb hu⟩
    | ninf => exact absurd hu w2
    | pinf => exact ⟨0, by simp [mem, hl, hu]⟩

/-- below an infinite lower bound there are members below every number -/
theorem unbounded_below {x : Itv} (hw : x.WF) (h : x.lb = ninf) (N : Int) :
    ∃ k, k ≤ N ∧ mem k x := by
  obtain ⟨_, w2⟩ := hw
  cases hu : x.ub with
  | ninf => exact absurd hu w2
  | pinf => exact ⟨N, Int.le_refl _, by simp [mem, h, hu]⟩
  | fin u =>
    by_cases hc : N ≤ u
    · exact ⟨N, Int.le_refl _, by simp [mem, h, hu]; exact hc⟩
    · exact ⟨u, by omega, by simp [mem, h, hu]⟩

theorem unbounded_above {x : Itv} (hw : x.WF) (h : x.ub = pinf) (N : Int) :
    ∃ k, N ≤ k ∧ mem k x := by
  obtain ⟨w1, _⟩ := hw
  cases hl : x.lb with
  | pinf => exact absurd hl w1
  | ninf => exact ⟨N, Int.le_refl _, by simp [mem, h, hl]⟩
  | fin l =>
    by_cases hc : l ≤ N
    · exact ⟨N, Int.le_refl _, by simp [mem, h, hl]; exact hc⟩
    · exact ⟨l, by omega, by simp [mem, h, hl]⟩

/-! ### reachability of a bound by a set of concrete values -/

/-- `Reach S c`: the bound `c` is attained by the set `S` (finite) or `S` is unbounded in the
    direction of `c` (infinite) -/
def Reach (S : Int → Prop) : Bound → Prop
  | fin v => S v
  | ninf => ∀ N : Int, ∃ k, k ≤ N ∧ S k
  | pinf => ∀ N : Int, ∃ k, N ≤ k ∧ S k

/-- a reachable bound lies inside every interval that contains the whole set -/
theorem reach_inside {S : Int → Prop} {c : Bound} {r' : Itv} (hc : Reach S c)
    (h : ∀ k, S k → mem k r') : Bound.le r'.lb c = true ∧ Bound.le c r'.ub = true := by
  cases c with
  | fin v => exact h v hc
  | ninf =>
    refine ⟨?_, by simp⟩
    cases hl : r'.lb with
    | ninf => simp
    | fin l =>
      obtain ⟨k, hk, hs⟩ := hc (l - 1)
      have := (h k hs).1
      rw [hl] at this; simp at this; omega
    | pinf =>
      obtain ⟨k, _, hs⟩ := hc 0
      have := (h k hs).1
      rw [hl] at this; simp at this
  | pinf =>
    refine ⟨by simp, ?_⟩
    cases hu : r'.ub with
    | pinf => simp
    | fin u =>
      obtain ⟨k, hk, hs⟩ := hc (u + 1)
      have := (h k hs).2
      rw [hu] at this; simp at this; omega
    | ninf =>
      obtain ⟨k, _, hs⟩ := hc 0
      have := (h k hs).2
      rw [hu] at this; simp at this

theorem reach_lb {x : Itv} (hw : x.WF) (hb : x.isBottom = false) : Reach (fun k => mem k x) x.lb := by
  cases hl : x.lb with
  | fin l => exact lb_mem hb hl
  | ninf => exact unbounded_below hw hl
  | pinf => exact absurd hl hw.1

theorem reach_ub {x : Itv} (hw : x.WF) (hb : x.isBottom = false) : Reach (fun k => mem k x) x.ub := by
  cases hu : x.ub with
  | fin u => exact ub_mem hb hu
  | pinf => exact unbounded_above hw hu
  | ninf => exact absurd hu hw.2

/-- an interval whose two bounds are reachable by `S` is below every interval containing `S` -/
theorem leq_of_reach {S : Int → Prop} {r r' : Itv} (hl : Reach S r.lb) (hu : Reach S r.ub)
    (hne : ∃ k, S k) (h : ∀ k, S k → mem k r') : leq r r' = true := by
  unfold leq
  split
  · rfl
  · obtain ⟨k, hk⟩ := hne
    simp [isBottom_false_of_mem (h k hk)]
    exact ⟨(reach_inside hl h).1, (reach_inside hu h).2⟩

/-- inclusion of concretisations gives the order, for a well-formed left side -/
theorem leq_of_subset {r r' : Itv} (hw : r.WF) (h : ∀ k, mem k r → mem k r') : leq r r' = true := by
  cases hb : r.isBottom
  · exact leq_of_reach (S := fun k => mem k r) (reach_lb hw hb) (reach_ub hw hb) (exists_mem hw hb) h
  · exact leq_of_isBottom hb r'

/-! ### `+` and `-` are exact -/

/-- the largest finite one of two lower bounds -/
def pickLo : Bound → Bound → Option Int
  | fin a, fin b => some (if a ≤ b then b else a)
  | fin a, _ => some a
  | _, fin b => some b
  | _, _ => none

/-- the smallest finite one of two upper bounds -/
def pickHi : Bound → Bound → Option Int
  | fin a, fin b => some (if a ≤ b then a else b)
  | fin a, _ => some a
  | _, fin b => some b
  | _, _ => none

/-- a point above both lower bounds and below both upper bounds (when there is one) -/
def pick (l1 l2 u1 u2 : Bound) : Int :=
  match pickLo l1 l2 with
  | some v => v
  | none => match pickHi u1 u2 with
    | some v => v
    | none => 0

/-- `k - b` on bounds -/
def kminus (k : Int) : Bound → Bound
  | fin v => fin (k - v)
  | pinf => ninf
  | ninf => pinf

theorem add_exact {x y r : Itv} {k : Int} (hx : x.WF) (hy : y.WF) (h : add x y = some r)
    (hk : mem k r) : ∃ a b, mem a x ∧ mem b y ∧ k = a + b := by
  unfold add at h
  split at h
  · simp at h; subst h; exact absurd hk (not_mem_bot k)
  · rename_i hbot
    simp at hbot
    obtain ⟨hbx, hby⟩ := hbot
    split at h <;> simp at h
    rename_i l u hl hu
    subst h
    rw [mem_mk'] at hk
    obtain ⟨hk1, hk2⟩ := hk
    obtain ⟨wx1, wx2⟩ := hx
    obtain ⟨wy1, wy2⟩ := hy
    refine ⟨pick x.lb (kminus k y.ub) x.ub (kminus k y.lb),
            k - pick x.lb (kminus k y.ub) x.ub (kminus k y.lb), ?_, ?_, by omega⟩
    · simp [isBottom, Bound.gt] at hbx hby
      simp only [mem]
      cases hxl : x.lb <;> cases hxu : x.ub <;> cases hyl : y.lb <;> cases hyu : y.ub <;>
        simp_all [Bound.add, pick, pickLo, pickHi, kminus] <;>
        (try subst hl) <;> (try subst hu) <;> simp_all <;> (try split) <;> omega
    · simp [isBottom, Bound.gt] at hbx hby
      simp only [mem]
      cases hxl : x.lb <;> cases hxu : x.ub <;> cases hyl : y.lb <;> cases hyu : y.ub <;>
        simp_all [Bound.add, pick, pickLo, pickHi, kminus] <;>
        (try subst hl) <;> (try subst hu) <;> simp_all <;> (try split) <;> omega

theorem wf_bot : bot.WF := by simp [WF, bot]

theorem wf_mk' {l u : Bound} (h1 : l ≠ pinf) (h2 : u ≠ ninf) : (mk' l u).WF := by
  unfold mk'; split
  · exact wf_bot
  · exact ⟨h1, h2⟩

theorem neg_wf {y : Itv} (hy : y.WF) : (neg y).WF := by
  unfold neg; split
  · exact wf_bot
  · obtain ⟨w1, w2⟩ := hy
    apply wf_mk'
    · cases hu : y.ub <;> simp_all [Bound.neg]
    · cases hl : y.lb <;> simp_all [Bound.neg]

theorem add_wf {x y r : Itv} (hx : x.WF) (hy : y.WF) (h : add x y = some r) : r.WF := by
  unfold add at h
  split at h
  · simp at h; subst h; exact wf_bot
  · split at h <;> simp at h
    rename_i l u hl hu
    subst h
    obtain ⟨wx1, wx2⟩ := hx
    obtain ⟨wy1, wy2⟩ := hy
    apply wf_mk'
    · cases hxl : x.lb <;> cases hyl : y.lb <;> simp_all [Bound.add] <;> subst hl <;> simp
    · cases hxu : x.ub <;> cases hyu : y.ub <;> simp_all [Bound.add] <;> subst hu <;> simp

/-- binary minus is plus the negation, branch for branch -/
theorem sub_eq_add_neg (x y : Itv) : sub x y = add x (neg y) := by
  unfold sub add
  by_cases hx : x.isBottom = true
  · simp [hx]
  · by_cases hy : y.isBottom = true
    · simp [hy, neg, isBottom_bot]
    · simp at hx hy
      have hy' : Bound.gt y.lb y.ub = false := hy
      have hg : Bound.gt (Bound.neg y.ub) (Bound.neg y.lb) = false := by
        cases hl : y.lb <;> cases hu : y.ub <;> simp_all [Bound.neg, Bound.gt] <;> omega
      have hn : neg y = ⟨Bound.neg y.ub, Bound.neg y.lb⟩ := by
        unfold neg mk'
        simp [hy, hg]
      have hnb : (neg y).isBottom = false := by
        rw [hn]; exact hg
      rw [hnb, hn]
      simp [hx, hy, Bound.sub]

theorem sub_exact {x y r : Itv} {k : Int} (hx : x.WF) (hy : y.WF) (h : sub x y = some r)
    (hk : mem k r) : ∃ a b, mem a x ∧ mem b y ∧ k = a - b := by
  rw [sub_eq_add_neg] at h
  obtain ⟨a, b, ha, hb, e⟩ := add_exact hx (neg_wf hy) h hk
  exact ⟨a, -b, ha, neg_exact hb, by omega⟩

theorem sub_wf {x y r : Itv} (hx : x.WF) (hy : y.WF) (h : sub x y = some r) : r.WF := by
  rw [sub_eq_add_neg] at h
  exact add_wf hx (neg_wf hy) h

/-- `+` returns the smallest interval containing all sums -/
theorem add_tight {x y r r' : Itv} (hx : x.WF) (hy : y.WF) (h : add x y = some r)
    (hr : ∀ a b, mem a x → mem b y → mem (a + b) r') : leq r r' = true := by
  apply leq_of_subset (add_wf hx hy h)
  intro k hk
  obtain ⟨a, b, ha, hb, e⟩ := add_exact hx hy h hk
  subst e; exact hr a b ha hb

/-- `-` returns the smallest interval containing all differences -/
theorem sub_tight {x y r r' : Itv} (hx : x.WF) (hy : y.WF) (h : sub x y = some r)
    (hr : ∀ a b, mem a x → mem b y → mem (a - b) r') : leq r r' = true := by
  apply leq_of_subset (sub_wf hx hy h)
  intro k hk
  obtain ⟨a, b, ha, hb, e⟩ := sub_exact hx hy h hk
  subst e; exact hr a b ha hb

/-- unary `-` returns the smallest interval containing all opposites -/
theorem neg_tight {x r' : Itv} (hx : x.WF) (hr : ∀ a, mem a x → mem (-a) r') :
    leq (neg x) r' = true := by
  apply leq_of_subset (neg_wf hx)
  intro k hk
  have := hr (-k) (neg_exact hk)
  simpa using this

/-- join returns the smallest interval containing both operands -/
theorem join_tight {x y r' : Itv} (hx : x.WF) (hy : y.WF)
    (hr : ∀ k, mem k x ∨ mem k y → mem k r') : leq (join x y) r' = true :=
  join_least (leq_of_subset hx (fun k hk => hr k (Or.inl hk)))
    (leq_of_subset hy (fun k hk => hr k (Or.inr hk)))

/-- meet returns the smallest interval containing the common members (it is exact) -/
theorem meet_tight {x y r' : Itv} (hx : x.WF) (hy : y.WF)
    (hr : ∀ k, mem k x → mem k y → mem k r') : leq (meet x y) r' = true := by
  have hw : (meet x y).WF := by
    unfold meet; split
    · exact wf_bot
    · apply wf_mk'
      · rcases Bound.max_eq_or x.lb y.lb with e | e <;> rw [e]
        · exact hx.1
        · exact hy.1
      · rcases Bound.min_eq_or x.ub y.ub with e | e <;> rw [e]
        · exact hx.2
        · exact hy.2
  apply leq_of_subset hw
  intro k hk
  obtain ⟨h1, h2⟩ := meet_exact hk
  exact hr k h1 h2

/-! ### `*` : every corner product is attained or unbounded -/

/-- the set of products of a member of `P` and a member of `Q` -/
def Prod (P Q : Int → Prop) (k : Int) : Prop := ∃ a b, P a ∧ Q b ∧ k = a * b

theorem reach_congr {S S' : Int → Prop} (h : ∀ k, S k → S' k) {c : Bound} (hc : Reach S c) :
    Reach S' c := by
  cases c with
  | fin v => exact h v hc
  | ninf => intro N; obtain ⟨k, h1, h2⟩ := hc N; exact ⟨k, h1, h k h2⟩
  | pinf => intro N; obtain ⟨k, h1, h2⟩ := hc N; exact ⟨k, h1, h k h2⟩

theorem prod_swap {P Q : Int → Prop} (k : Int) (h : Prod Q P k) : Prod P Q k := by
  obtain ⟨a, b, ha, hb, e⟩ := h
  exact ⟨b, a, hb, ha, by rw [e, Int.mul_comm]⟩

theorem prod_up_pos {P Q : Int → Prop} {a : Int} (ha : P a) (h1 : 1 ≤ a) (hQ : Reach Q pinf) :
    Reach (Prod P Q) pinf := by
  intro N
  obtain ⟨b, hb, hq⟩ := hQ (if N ≤ 0 then 0 else N)
  refine ⟨a * b, ?_, a, b, ha, hq, rfl⟩
  have hb0 : 0 ≤ b := by split at hb <;> omega
  have := Int.mul_le_mul_of_nonneg_right h1 hb0
  split at hb <;> omega

theorem prod_down_pos {P Q : Int → Prop} {a : Int} (ha : P a) (h1 : 1 ≤ a) (hQ : Reach Q ninf) :
    Reach (Prod P Q) ninf := by
  intro N
  obtain ⟨b, hb, hq⟩ := hQ (if 0 ≤ N then 0 else N)
  refine ⟨a * b, ?_, a, b, ha, hq, rfl⟩
  have hb0 : b ≤ 0 := by split at hb <;> omega
  have := Int.mul_le_mul_of_nonpos_right h1 hb0
  split at hb <;> omega

theorem prod_down_neg {P Q : Int → Prop} {a : Int} (ha : P a) (h1 : a ≤ -1) (hQ : Reach Q pinf) :
    Reach (Prod P Q) ninf := by
  intro N
  obtain ⟨b, hb, hq⟩ := hQ (if 0 ≤ N then 0 else -N)
  refine ⟨a * b, ?_, a, b, ha, hq, rfl⟩
  have hb0 : 0 ≤ b := by split at hb <;> omega
  have := Int.mul_le_mul_of_nonneg_right h1 hb0
  split at hb <;> omega

theorem prod_up_neg {P Q : Int → Prop} {a : Int} (ha : P a) (h1 : a ≤ -1) (hQ : Reach Q ninf) :
    Reach (Prod P Q) pinf := by
  intro N
  obtain ⟨b, hb, hq⟩ := hQ (if N ≤ 0 then 0 else -N)
  refine ⟨a * b, ?_, a, b, ha, hq, rfl⟩
  have hb0 : b ≤ 0 := by split at hb <;> omega
  have := Int.mul_le_mul_of_nonpos_right h1 hb0
  split at hb <;> omega

theorem mul_fin_fin (a b : Int) : Bound.mul (fin a) (fin b) = fin (a * b) := Bound.scale_fin a b

theorem mul_fin_ninf (a : Int) : Bound.mul (fin a) ninf =
    if a = 0 then fin 0 else if a < 0 then pinf else ninf := by
  simp [Bound.mul, Bound.n, Bound.isInfinite, Bound.mkRaw]
  split
  · subst_vars; rfl
  · split <;> rfl

theorem mul_fin_pinf (a : Int) : Bound.mul (fin a) pinf =
    if a = 0 then fin 0 else if 0 < a then pinf else ninf := by
  simp [Bound.mul, Bound.n, Bound.isInfinite, Bound.mkRaw]
  split
  · subst_vars; rfl
  · rfl

/-- corner products when the left factor is finite, or both are infinite -/
theorem mul_reach_aux {P Q : Int → Prop} {A B : Bound} (hA : Reach P A) (hB : Reach Q B)
    (hq : ∃ b, Q b) (hfin : A.isFinite = true ∨ B.isInfinite = true) :
    Reach (Prod P Q) (Bound.mul A B) := by
  cases A with
  | fin a =>
    cases B with
    | fin b => rw [mul_fin_fin]; exact ⟨a, b, hA, hB, rfl⟩
    | ninf =>
      rw [mul_fin_ninf]
      split
      · rename_i h0; subst h0
        obtain ⟨b, hb⟩ := hq
        exact ⟨0, b, hA, hb, by simp⟩
      · split
        · exact prod_up_neg hA (by omega) hB
        · exact prod_down_pos hA (by omega) hB
    | pinf =>
      rw [mul_fin_pinf]
      split
      · rename_i h0; subst h0
        obtain ⟨b, hb⟩ := hq
        exact ⟨0, b, hA, hb, by simp⟩
      · split
        · exact prod_up_pos hA (by omega) hB
        · exact prod_down_neg hA (by omega) hB
  | ninf =>
    obtain ⟨a, ha1, ha⟩ := hA (-1)
    cases B with
    | fin b => simp [Bound.isFinite, Bound.isInfinite] at hfin
    | ninf => exact prod_up_neg ha ha1 hB
    | pinf => exact prod_down_neg ha ha1 hB
  | pinf =>
    obtain ⟨a, ha1, ha⟩ := hA 1
    cases B with
    | fin b => simp [Bound.isFinite, Bound.isInfinite] at hfin
    | ninf => exact prod_down_pos ha ha1 hB
    | pinf => exact prod_up_pos ha ha1 hB

/-- every corner product `A * B` of reachable bounds is reachable by the products -/
theorem mul_reach {P Q : Int → Prop} {A B : Bound} (hA : Reach P A) (hB : Reach Q B)
    (hp : ∃ a, P a) (hq : ∃ b, Q b) : Reach (Prod P Q) (Bound.mul A B) := by
  by_cases h : A.isFinite = true ∨ B.isInfinite = true
  · exact mul_reach_aux hA hB hq h
  · rw [Bound.mul_comm]
    refine reach_congr prod_swap (mul_reach_aux hB hA hp ?_)
    cases A <;> cases B <;> simp_all [Bound.isFinite, Bound.isInfinite]

theorem reach_min {S : Int → Prop} {a b : Bound} (ha : Reach S a) (hb : Reach S b) :
    Reach S (Bound.min a b) := by
  rcases Bound.min_eq_or a b with e | e <;> rw [e] <;> assumption

theorem reach_max {S : Int → Prop} {a b : Bound} (ha : Reach S a) (hb : Reach S b) :
    Reach S (Bound.max a b) := by
  rcases Bound.max_eq_or a b with e | e <;> rw [e] <;> assumption

/-- `*` returns the smallest interval containing all products -/
theorem mul_tight {x y r' : Itv} (hx : x.WF) (hy : y.WF)
    (hr : ∀ a b, mem a x → mem b y → mem (a * b) r') : leq (mul x y) r' = true := by
  unfold mul
  split
  · exact bot_leq r'
  · rename_i hbot
    simp at hbot
    obtain ⟨hbx, hby⟩ := hbot
    have hxl := reach_lb hx hbx
    have hxu := reach_ub hx hbx
    have hyl := reach_lb hy hby
    have hyu := reach_ub hy hby
    have ex := exists_mem hx hbx
    have ey := exists_mem hy hby
    have hS : ∀ k, Prod (fun k => mem k x) (fun k => mem k y) k → mem k r' := by
      intro k ⟨a, b, ha, hb, e⟩; subst e; exact hr a b ha hb
    have hne : ∃ k, Prod (fun k => mem k x) (fun k => mem k y) k := by
      obtain ⟨a, ha⟩ := ex; obtain ⟨b, hb⟩ := ey
      exact ⟨a * b, a, b, ha, hb, rfl⟩
    have cll := mul_reach hxl hyl ex ey
    have clu := mul_reach hxl hyu ex ey
    have cul := mul_reach hxu hyl ex ey
    have cuu := mul_reach hxu hyu ex ey
    simp only []
    unfold mk'
    split
    · exact bot_leq r'
    · refine leq_of_reach (S := Prod (fun k => mem k x) (fun k => mem k y)) ?_ ?_ hne hS
      · exact reach_min cll (reach_min clu (reach_min cul cuu))
      · exact reach_max cll (reach_max clu (reach_max cul cuu))

end Itv
end Crab
