import CrabModel.Transform.Simplify
import CrabProofs.Lemmas.TIRWf

/-!
  Effect of the CFG editing primitives of `CrabModel/Transform/Simplify.lean`
  (`mapBlock`, `addEdge` = `>>`, `removeEdge` = `-=`, `copyBack`, `remove`) on the lookups
  `block?`, `stmtsOf`, `succsOf`, `predsOf`, `labels`.
-/
namespace Crab
namespace TIR

theorem block?_label {P : Prog} {l : Label} {b : Block} (h : P.block? l = some b) : b.label = l :=
  (block?_mem h).2

theorem block?_none_iff {P : Prog} {l : Label} : P.block? l = none ↔ l ∉ P.labels := by
  unfold Prog.block? Prog.labels
  simp [List.find?_eq_none]

theorem block?_isSome_of_mem {P : Prog} {l : Label} (h : l ∈ P.labels) : ∃ b, P.block? l = some b := by
  cases hb : P.block? l with
  | some b => exact ⟨b, rfl⟩
  | none => exact absurd h (block?_none_iff.mp hb)

/-- `mapBlock` with a label-preserving function -/
theorem block?_mapBlock (P : Prog) (l : Label) (f : Block → Block) (hf : ∀ b, (f b).label = b.label)
    (l' : Label) :
    (P.mapBlock l f).block? l' = if l' = l then (P.block? l').map f else P.block? l' := by
  have h1 : (P.mapBlock l f).block? l' =
      (P.block? l').map (fun b => if b.label == l then f b else b) := by
    unfold Prog.block? Prog.mapBlock
    exact find_map_label P.blocks _ (by intro b; split <;> simp [hf]) l'
  rw [h1]
  cases hb : P.block? l' with
  | none => simp
  | some b =>
    have := block?_label hb
    by_cases h : l' = l
    · subst h; simp [this]
    · simp [h, this]

theorem labels_mapBlock (P : Prog) (l : Label) (f : Block → Block) (hf : ∀ b, (f b).label = b.label) :
    (P.mapBlock l f).labels = P.labels := by
  unfold Prog.labels Prog.mapBlock
  simp only [List.map_map]
  apply List.map_congr_left
  intro b _
  simp only [Function.comp]
  split <;> simp [hf]

@[simp] theorem labels_mapSucc (P : Prog) (l : Label) (g : List Label → List Label) :
    (P.mapBlock l (Block.mapSucc g)).labels = P.labels := labels_mapBlock P l _ (fun _ => rfl)
@[simp] theorem labels_mapPred (P : Prog) (l : Label) (g : List Label → List Label) :
    (P.mapBlock l (Block.mapPred g)).labels = P.labels := labels_mapBlock P l _ (fun _ => rfl)
@[simp] theorem labels_mapStmts (P : Prog) (l : Label) (g : List Stmt → List Stmt) :
    (P.mapBlock l (Block.mapStmts g)).labels = P.labels := labels_mapBlock P l _ (fun _ => rfl)

theorem succsOf_eq (P : Prog) (l : Label) : P.succsOf l = ((P.block? l).map (·.succ)).getD [] := by
  unfold Prog.succsOf; cases P.block? l <;> rfl
theorem predsOf_eq (P : Prog) (l : Label) : P.predsOf l = ((P.block? l).map (·.pred)).getD [] := by
  unfold Prog.predsOf; cases P.block? l <;> rfl
theorem stmtsOf_eq (P : Prog) (l : Label) : P.stmtsOf l = ((P.block? l).map (·.stmts)).getD [] := by
  unfold Prog.stmtsOf; cases P.block? l <;> rfl

/-- generic lookup after `mapBlock`: `sel` is the field read, `f` changes it to `g` of it -/
theorem lookup_mapBlock {α : Type} (P : Prog) (l : Label) (f : Block → Block) (hf : ∀ b, (f b).label = b.label)
    (sel : Block → List α) (g : List α → List α) (hs : ∀ b, sel (f b) = g (sel b)) (l' : Label)
    (hg : g [] = [] ∨ l ∈ P.labels) :
    (((P.mapBlock l f).block? l').map sel).getD [] =
      if l' = l then g (((P.block? l').map sel).getD []) else ((P.block? l').map sel).getD [] := by
  rw [block?_mapBlock P l f hf l']
  by_cases h : l' = l
  · subst h
    simp only [if_true]
    cases hb : P.block? l' with
    | none =>
      rcases hg with hg | hg
      · simp [hg]
      · exact absurd hg (block?_none_iff.mp hb)
    | some b => simp [hs]
  · simp [h]

theorem succsOf_mapSucc (P : Prog) (l : Label) (g : List Label → List Label) (l' : Label)
    (hg : g [] = [] ∨ l ∈ P.labels) :
    (P.mapBlock l (Block.mapSucc g)).succsOf l' = if l' = l then g (P.succsOf l') else P.succsOf l' := by
  simp only [succsOf_eq]
  exact lookup_mapBlock P l (Block.mapSucc g) (fun _ => rfl) (fun b => b.succ) g (fun _ => rfl) l' hg

theorem succsOf_mapPred (P : Prog) (l : Label) (g : List Label → List Label) (l' : Label) :
    (P.mapBlock l (Block.mapPred g)).succsOf l' = P.succsOf l' := by
  simp only [succsOf_eq]
  have := lookup_mapBlock P l (Block.mapPred g) (fun _ => rfl) (fun b => b.succ) id (fun _ => rfl) l' (Or.inl rfl)
  simpa using this

theorem succsOf_mapStmts (P : Prog) (l : Label) (g : List Stmt → List Stmt) (l' : Label) :
    (P.mapBlock l (Block.mapStmts g)).succsOf l' = P.succsOf l' := by
  simp only [succsOf_eq]
  have := lookup_mapBlock P l (Block.mapStmts g) (fun _ => rfl) (fun b => b.succ) id (fun _ => rfl) l' (Or.inl rfl)
  simpa using this

theorem predsOf_mapPred (P : Prog) (l : Label) (g : List Label → List Label) (l' : Label)
    (hg : g [] = [] ∨ l ∈ P.labels) :
    (P.mapBlock l (Block.mapPred g)).predsOf l' = if l' = l then g (P.predsOf l') else P.predsOf l' := by
  simp only [predsOf_eq]
  exact lookup_mapBlock P l (Block.mapPred g) (fun _ => rfl) (fun b => b.pred) g (fun _ => rfl) l' hg

theorem predsOf_mapSucc (P : Prog) (l : Label) (g : List Label → List Label) (l' : Label) :
    (P.mapBlock l (Block.mapSucc g)).predsOf l' = P.predsOf l' := by
  simp only [predsOf_eq]
  have := lookup_mapBlock P l (Block.mapSucc g) (fun _ => rfl) (fun b => b.pred) id (fun _ => rfl) l' (Or.inl rfl)
  simpa using this

theorem predsOf_mapStmts (P : Prog) (l : Label) (g : List Stmt → List Stmt) (l' : Label) :
    (P.mapBlock l (Block.mapStmts g)).predsOf l' = P.predsOf l' := by
  simp only [predsOf_eq]
  have := lookup_mapBlock P l (Block.mapStmts g) (fun _ => rfl) (fun b => b.pred) id (fun _ => rfl) l' (Or.inl rfl)
  simpa using this

theorem stmtsOf_mapStmts (P : Prog) (l : Label) (g : List Stmt → List Stmt) (l' : Label)
    (hg : g [] = [] ∨ l ∈ P.labels) :
    (P.mapBlock l (Block.mapStmts g)).stmtsOf l' = if l' = l then g (P.stmtsOf l') else P.stmtsOf l' := by
  simp only [stmtsOf_eq]
  exact lookup_mapBlock P l (Block.mapStmts g) (fun _ => rfl) (fun b => b.stmts) g (fun _ => rfl) l' hg

theorem stmtsOf_mapSucc (P : Prog) (l : Label) (g : List Label → List Label) (l' : Label) :
    (P.mapBlock l (Block.mapSucc g)).stmtsOf l' = P.stmtsOf l' := by
  simp only [stmtsOf_eq]
  have := lookup_mapBlock P l (Block.mapSucc g) (fun _ => rfl) (fun b => b.stmts) id (fun _ => rfl) l' (Or.inl rfl)
  simpa using this

theorem stmtsOf_mapPred (P : Prog) (l : Label) (g : List Label → List Label) (l' : Label) :
    (P.mapBlock l (Block.mapPred g)).stmtsOf l' = P.stmtsOf l' := by
  simp only [stmtsOf_eq]
  have := lookup_mapBlock P l (Block.mapPred g) (fun _ => rfl) (fun b => b.stmts) id (fun _ => rfl) l' (Or.inl rfl)
  simpa using this

/-! ### removeEdge -/

theorem labels_removeEdge (P : Prog) (a b : Label) : (P.removeEdge a b).labels = P.labels := by
  simp [Prog.removeEdge]

theorem succsOf_removeEdge (P : Prog) (a b l : Label) :
    (P.removeEdge a b).succsOf l = if l = a then removeAdj (P.succsOf l) b else P.succsOf l := by
  unfold Prog.removeEdge
  rw [succsOf_mapPred]
  exact succsOf_mapSucc P a _ l (Or.inl rfl)

theorem predsOf_removeEdge (P : Prog) (a b l : Label) :
    (P.removeEdge a b).predsOf l = if l = b then removeAdj (P.predsOf l) a else P.predsOf l := by
  unfold Prog.removeEdge
  rw [predsOf_mapPred _ _ _ _ (Or.inl rfl), predsOf_mapSucc]

theorem stmtsOf_removeEdge (P : Prog) (a b l : Label) : (P.removeEdge a b).stmtsOf l = P.stmtsOf l := by
  unfold Prog.removeEdge
  rw [stmtsOf_mapPred, stmtsOf_mapSucc]

/-! ### addEdge -/

theorem labels_addEdge (P : Prog) (a b : Label) : (P.addEdge a b).labels = P.labels := by
  simp [Prog.addEdge]

theorem succsOf_addEdge (P : Prog) (a b l : Label) (ha : a ∈ P.labels) :
    (P.addEdge a b).succsOf l = if l = a then insertAdj (P.succsOf l) b else P.succsOf l := by
  unfold Prog.addEdge
  rw [succsOf_mapPred]
  exact succsOf_mapSucc P a _ l (Or.inr ha)

theorem predsOf_addEdge (P : Prog) (a b l : Label) (hb : b ∈ P.labels) :
    (P.addEdge a b).predsOf l = if l = b then insertAdj (P.predsOf l) a else P.predsOf l := by
  unfold Prog.addEdge
  rw [predsOf_mapPred _ _ _ _ (Or.inr (by simpa using hb)), predsOf_mapSucc]

theorem stmtsOf_addEdge (P : Prog) (a b l : Label) : (P.addEdge a b).stmtsOf l = P.stmtsOf l := by
  unfold Prog.addEdge
  rw [stmtsOf_mapPred, stmtsOf_mapSucc]

/-! ### copyBack -/

theorem labels_copyBack (P : Prog) (a : Label) (st : List Stmt) : (P.copyBack a st).labels = P.labels := by
  simp [Prog.copyBack]

theorem succsOf_copyBack (P : Prog) (a : Label) (st : List Stmt) (l : Label) :
    (P.copyBack a st).succsOf l = P.succsOf l := succsOf_mapStmts P a _ l

theorem predsOf_copyBack (P : Prog) (a : Label) (st : List Stmt) (l : Label) :
    (P.copyBack a st).predsOf l = P.predsOf l := predsOf_mapStmts P a _ l

theorem stmtsOf_copyBack (P : Prog) (a : Label) (st : List Stmt) (l : Label) (ha : a ∈ P.labels) :
    (P.copyBack a st).stmtsOf l = if l = a then P.stmtsOf l ++ st else P.stmtsOf l :=
  stmtsOf_mapStmts P a _ l (Or.inr ha)

/-! ### erasing a block -/

theorem block?_eraseBlock (P : Prog) (l l' : Label) :
    (P.eraseBlock l).block? l' = if l' = l then none else P.block? l' := by
  unfold Prog.block? Prog.eraseBlock
  simp only
  induction P.blocks with
  | nil => simp
  | cons b r ih =>
    simp only [List.filter_cons]
    by_cases hb : b.label = l
    · simp only [hb, bne_self_eq_false, Bool.false_eq_true, if_false, List.find?_cons]
      rw [ih]
      by_cases h : l' = l
      · simp [h]
      · have : (l == l') = false := by simpa using fun hc => h hc.symm
        simp [h, this]
    · have hne : (b.label != l) = true := by simpa using hb
      simp only [hne, if_true, List.find?_cons]
      cases hbl : b.label == l' with
      | true =>
        have : b.label = l' := by simpa using hbl
        have h : l' ≠ l := by rw [← this]; exact hb
        simp [h]
      | false => exact ih

theorem labels_eraseBlock (P : Prog) (l : Label) : (P.eraseBlock l).labels = P.labels.filter (fun x => x != l) := by
  unfold Prog.labels Prog.eraseBlock
  simp only
  induction P.blocks with
  | nil => rfl
  | cons b r ih =>
    simp only [List.filter_cons, List.map_cons]
    cases b.label != l with
    | true => simp [ih]
    | false => simp [ih]

theorem succsOf_eraseBlock (P : Prog) (l l' : Label) :
    (P.eraseBlock l).succsOf l' = if l' = l then [] else P.succsOf l' := by
  simp only [succsOf_eq, block?_eraseBlock]
  split <;> rfl

theorem predsOf_eraseBlock (P : Prog) (l l' : Label) :
    (P.eraseBlock l).predsOf l' = if l' = l then [] else P.predsOf l' := by
  simp only [predsOf_eq, block?_eraseBlock]
  split <;> rfl

theorem stmtsOf_eraseBlock (P : Prog) (l l' : Label) :
    (P.eraseBlock l).stmtsOf l' = if l' = l then [] else P.stmtsOf l' := by
  simp only [stmtsOf_eq, block?_eraseBlock]
  split <;> rfl

end TIR
end Crab
