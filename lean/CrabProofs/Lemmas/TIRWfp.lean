import CrabProofs.Lemmas.TIRGraph

/-!
  Well-formedness as a proposition on the lookups (`WFp`), equivalent to the boolean check
  `Prog.wf`, and its preservation by `cfg::remove`.
-/
namespace Crab
namespace TIR

structure WFp (P : Prog) : Prop where
  nodup : P.labels.Nodup
  entry : P.entry ∈ P.labels
  exit : ∀ x, P.exit = some x → x ∈ P.labels
  sym : ∀ l l', l' ∈ P.succsOf l ↔ l ∈ P.predsOf l'
  succ_lab : ∀ l l', l' ∈ P.succsOf l → l' ∈ P.labels
  nd_succ : ∀ l, (P.succsOf l).Nodup
  nd_pred : ∀ l, (P.predsOf l).Nodup

theorem nodupB_iff : ∀ (xs : List Nat), nodupB xs = true ↔ xs.Nodup
  | [] => by simp [nodupB]
  | x :: r => by
    simp only [nodupB, Bool.and_eq_true, Bool.not_eq_eq_eq_not, Bool.not_true, List.nodup_cons]
    rw [nodupB_iff r]
    constructor
    · rintro ⟨h1, h2⟩; exact ⟨by simpa using h1, h2⟩
    · rintro ⟨h1, h2⟩; exact ⟨by simpa using h1, h2⟩

theorem find?_of_mem_nodup : ∀ (bs : List Block), (bs.map (·.label)).Nodup → ∀ b, b ∈ bs →
    bs.find? (fun x => x.label == b.label) = some b
  | [], _, b, hb => by simp at hb
  | a :: r, hnd, b, hb => by
    simp only [List.map_cons, List.nodup_cons] at hnd
    simp only [List.find?_cons]
    rcases List.mem_cons.mp hb with rfl | hb'
    · simp
    · have : a.label ≠ b.label := by
        intro hc
        exact hnd.1 (by rw [hc]; exact List.mem_map.mpr ⟨b, hb', rfl⟩)
      have h2 : (a.label == b.label) = false := by simpa using this
      rw [h2]
      exact find?_of_mem_nodup r hnd.2 b hb'

theorem block?_of_mem {P : Prog} (hnd : P.labels.Nodup) {b : Block} (hb : b ∈ P.blocks) :
    P.block? b.label = some b := find?_of_mem_nodup P.blocks hnd b hb

theorem mem_labels_of_pred {P : Prog} {l l' : Label} (h : l' ∈ P.predsOf l) : l ∈ P.labels := by
  unfold Prog.predsOf at h
  cases hb : P.block? l with
  | none => rw [hb] at h; simp at h
  | some b => exact mem_labels_of_block hb

theorem WFp.of_wf {P : Prog} (h : P.wf = true) : WFp P where
  nodup := (nodupB_iff _).mp (wf_parts h).1
  entry := wf_entry h
  exit := by
    intro x hx
    exact wf_exitPresent h x (by simp [Prog.isExit, hx])
  sym := fun l l' => ⟨fun hl => wf_succ_pred h hl, fun hl => wf_pred_succ h hl⟩
  succ_lab := fun _ _ hl => wf_succ_labels h hl
  nd_succ := by
    intro l
    unfold Prog.succsOf
    cases hb : P.block? l with
    | none => simp
    | some b =>
      have h4 := (wf_parts h).2.2.2
      rw [List.all_eq_true] at h4
      have := h4 b (block?_mem hb).1
      simp only [Bool.and_eq_true] at this
      exact (nodupB_iff _).mp this.1.1.1
  nd_pred := by
    intro l
    unfold Prog.predsOf
    cases hb : P.block? l with
    | none => simp
    | some b =>
      have h4 := (wf_parts h).2.2.2
      rw [List.all_eq_true] at h4
      have := h4 b (block?_mem hb).1
      simp only [Bool.and_eq_true] at this
      exact (nodupB_iff _).mp this.1.1.2

theorem WFp.pred_lab {P : Prog} (h : WFp P) {l l' : Label} (hl : l' ∈ P.predsOf l) : l' ∈ P.labels :=
  mem_labels_of_succ ((h.sym l' l).mpr hl)

theorem WFp.to_wf {P : Prog} (h : WFp P) : P.wf = true := by
  unfold Prog.wf
  simp only [Bool.and_eq_true]
  refine ⟨⟨⟨(nodupB_iff _).mpr h.nodup, by simpa using h.entry⟩, ?_⟩, ?_⟩
  · cases hx : P.exit with
    | none => rfl
    | some x => simpa using h.exit x hx
  · rw [List.all_eq_true]
    intro b hb
    have hbl := block?_of_mem h.nodup hb
    have hs : P.succsOf b.label = b.succ := by simp [Prog.succsOf, hbl]
    have hp : P.predsOf b.label = b.pred := by simp [Prog.predsOf, hbl]
    simp only [Bool.and_eq_true, List.all_eq_true]
    refine ⟨⟨⟨(nodupB_iff _).mpr (hs ▸ h.nd_succ b.label), (nodupB_iff _).mpr (hp ▸ h.nd_pred b.label)⟩, ?_⟩, ?_⟩
    · intro l hl
      rw [← hs] at hl
      exact ⟨by simpa using (h.sym _ _).mp hl, by simpa using h.succ_lab _ _ hl⟩
    · intro l hl
      rw [← hp] at hl
      exact ⟨by simpa using (h.sym _ _).mpr hl, by simpa using h.pred_lab hl⟩

theorem wf_iff_WFp (P : Prog) : P.wf = true ↔ WFp P := ⟨WFp.of_wf, WFp.to_wf⟩

/-! ### adjacency list edits -/

theorem mem_removeAdj {c : List Label} {e x : Label} : x ∈ removeAdj c e ↔ x ∈ c ∧ x ≠ e := by
  simp [removeAdj]

theorem removeAdj_of_not_mem {c : List Label} {e : Label} (h : e ∉ c) : removeAdj c e = c := by
  unfold removeAdj
  apply List.filter_eq_self.mpr
  intro x hx
  simpa using fun hc : x = e => h (hc ▸ hx)

theorem nodup_removeAdj {c : List Label} (e : Label) (h : c.Nodup) : (removeAdj c e).Nodup :=
  h.filter _

theorem mem_insertAdj {c : List Label} {e x : Label} : x ∈ insertAdj c e ↔ x ∈ c ∨ x = e := by
  unfold insertAdj
  split
  · rename_i hc
    have : e ∈ c := by simpa using hc
    constructor
    · exact Or.inl
    · rintro (h | rfl)
      · exact h
      · exact this
  · simp

theorem nodup_insertAdj {c : List Label} (e : Label) (h : c.Nodup) : (insertAdj c e).Nodup := by
  unfold insertAdj
  split
  · exact h
  · rename_i hc
    have : e ∉ c := by simpa using hc
    exact List.nodup_append.mpr ⟨h, by simp, by
      intro a ha b hb
      simp at hb
      subst hb
      intro hab; subst hab; exact this ha⟩

end TIR
end Crab
