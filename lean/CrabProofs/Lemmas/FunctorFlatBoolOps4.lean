import CrabProofs.Lemmas.FunctorFlatBoolLat

/-!
Soundness of `forget`, `project`, `expand`, the weak Boolean assignments and the Boolean part of
`to_linear_constraint_system` for the model of `flat_boolean_numerical_domain`.
-/
set_option linter.unusedSectionVars false
set_option linter.unusedSimpArgs false

namespace Crab
namespace Dom
namespace Fct

variable {V : Type} [DecidableEq V] {K : CSig V}

namespace Prod2
variable {S : Type} {D1 D2 : LDom S}

/-- `op` with pointwise facts about the two component results -/
theorem op_γ (m : Meth) {f1 : D1.B → D1.B} {f2 : D2.B → D2.B} {p : Prod2 D1 D2} {s s' : S} (hg : p.γ s)
    (h1 : D1.γ (f1 p.fst) s') (h2 : D2.γ (f2 p.snd) s') : (op m f1 f2 p).γ s' := by
  have hb : (onSecond f2 (onFirst f1 p)).γ s' := by
    have e1 : onFirst f1 p = { p with fst := f1 p.fst } := by
      unfold onFirst; rw [canonicalize_of_γ hg]
    have e2 : ({ p with fst := f1 p.fst } : Prod2 D1 D2).canonicalize = { p with fst := f1 p.fst } :=
      canonicalize_eq_self hg.1 (D1.isBot_false_of_γ h1) (D2.isBot_false_of_γ hg.2.2)
    rw [e1]; unfold onSecond; rw [e2]
    exact ⟨hg.1, h1, h2⟩
  unfold op
  simp only
  split
  · exact (γ_reduce _ s').2 hb
  · exact hb
end Prod2

namespace FEnv

theorem γ_of_isTop {e : FEnv V} (h : e.isTop = true) (s : CSt V) : γ e s := by
  cases e with
  | bot => simp [isTop] at h
  | env m =>
    have : m = [] := List.isEmpty_iff.1 h
    subst this
    intro x b hx; simp [AL.get] at hx

theorem foldl_forget1_sound (vs : List V) {s' : CSt V} :
    ∀ (e : FEnv V) (s : CSt V), γ e s → (∀ k, k ∉ vs → s'.bool k = s.bool k) → γ (vs.foldl forget1 e) s' := by
  induction vs with
  | nil =>
    intro e s h hs
    exact γ_congr h (funext fun k => hs k (by simp))
  | cons v r ih =>
    intro e s h hs
    simp only [List.foldl_cons]
    apply ih (e.forget1 v) (s.setB v (s'.bool v)) (forget1_sound h v _)
    intro k hk
    by_cases hkv : k = v
    · subst hkv; simp [CSt.setB]
    · simp only [CSt.setB, hkv, if_false]
      exact hs k (by simp [hkv, hk])

theorem forget_sound {e : FEnv V} {s s' : CSt V} (h : γ e s) (vs : List V)
    (hs : ∀ k, k ∉ vs → s'.bool k = s.bool k) : γ (e.forget vs) s' := by
  unfold forget
  split
  · rename_i hc
    rw [isBot_false_of_γ h, Bool.false_or] at hc
    exact γ_of_isTop hc s'
  · exact foldl_forget1_sound vs e s h hs

/-- the loop of `project`: the accumulated environment only holds values of `e` for keys of `vs` -/
theorem foldl_project_spec (m : List (V × Bool)) (vs : List V) :
    ∀ (l : List V) (res : List (V × Bool)), (∀ v ∈ l, v ∈ vs) →
      (∀ k b, AL.get res k = some b → k ∈ vs ∧ AL.get m k = some b) →
      ∃ res', l.foldl (fun r v => FEnv.set r v ((FEnv.env m).get v)) (.env res) = .env res' ∧
        ∀ k b, AL.get res' k = some b → k ∈ vs ∧ AL.get m k = some b := by
  intro l
  induction l with
  | nil => exact fun res _ h => ⟨res, rfl, h⟩
  | cons v r ih =>
    intro res hl hres
    simp only [List.foldl_cons]
    have hv : v ∈ vs := hl v List.mem_cons_self
    have hr : ∀ v ∈ r, v ∈ vs := fun v hv => hl v (List.mem_cons_of_mem _ hv)
    cases hg : AL.get m v with
    | none =>
      simp only [get, hg, set]
      apply ih _ hr
      intro k b hk
      rw [AL.get_del] at hk
      by_cases hkv : k = v
      · simp [hkv] at hk
      · simp only [hkv, if_false] at hk; exact hres k b hk
    | some bv =>
      cases bv with
      | true =>
        simp only [get, hg, set, BVal.ofBool]
        apply ih _ hr
        intro k b hk
        rw [AL.get_put] at hk
        by_cases hkv : k = v
        · simp only [hkv, if_true, Option.some.injEq] at hk
          subst hk; rw [hkv]; exact ⟨hv, hg⟩
        · simp only [hkv, if_false] at hk; exact hres k b hk
      | false =>
        simp only [get, hg, set, BVal.ofBool]
        apply ih _ hr
        intro k b hk
        rw [AL.get_put] at hk
        by_cases hkv : k = v
        · simp only [hkv, if_true, Option.some.injEq] at hk
          subst hk; rw [hkv]; exact ⟨hv, hg⟩
        · simp only [hkv, if_false] at hk; exact hres k b hk

theorem project_sound {e : FEnv V} {s s' : CSt V} (h : γ e s) (vs : List V)
    (hs : ∀ k ∈ vs, s'.bool k = s.bool k) : γ (e.project vs) s' := by
  unfold project
  split
  · rename_i hc
    rw [isBot_false_of_γ h, Bool.false_or] at hc
    exact γ_of_isTop hc s'
  · cases e with
    | bot => exact h.elim
    | env m =>
      obtain ⟨res', he, hres⟩ := foldl_project_spec m vs vs [] (fun _ h => h)
        (fun k b hk => by simp [AL.get] at hk)
      rw [he]
      intro k b hk
      obtain ⟨h1, h2⟩ := hres k b hk
      rw [hs k h1]; exact h k b h2

end FEnv

namespace FBN
variable {N : BNDom V K}

/-! ### `forget(variables)` -/

theorem forgetMaps_spec (isBool : V → Bool) (vs : List V) :
    ∀ (a : FBN N), a.lin.isBot = false → a.bools.isBot = false → a.unch.isBot = false →
      (forgetMaps isBool vs a).prod = a.prod ∧
      (forgetMaps isBool vs a).lin.isBot = false ∧ (forgetMaps isBool vs a).bools.isBot = false ∧
      (forgetMaps isBool vs a).unch.isBot = false ∧
      (∀ k c, ((forgetMaps isBool vs a).lin.look k).mem c = true →
        (a.lin.look k).mem c = true ∧ ¬ (k ∈ vs ∧ isBool k = true)) ∧
      (∀ k k', ((forgetMaps isBool vs a).bools.look k).mem k' = true →
        (a.bools.look k).mem k' = true ∧ ¬ (k ∈ vs ∧ isBool k = true)) ∧
      (∀ v, (forgetMaps isBool vs a).unch.mem v = true →
        a.unch.mem v = true ∧ ¬ (v ∈ vs ∧ isBool v = false)) := by
  induction vs with
  | nil =>
    intro a h1 h2 h3
    exact ⟨rfl, h1, h2, h3, fun k c h => ⟨h, by simp⟩, fun k k' h => ⟨h, by simp⟩, fun v h => ⟨h, by simp⟩⟩
  | cons v r ih =>
    intro a h1 h2 h3
    unfold forgetMaps
    cases hv : isBool v with
    | true =>
      simp only [if_true]
      obtain ⟨e0, e1, e2, e3, e4, e5, e6⟩ := ih ({ a with lin := a.lin.del v, bools := a.bools.del v })
        (by rw [SEnv.isBot_del]; exact h1) (by rw [SEnv.isBot_del]; exact h2) h3
      refine ⟨e0, e1, e2, e3, ?_, ?_, ?_⟩
      · intro k c hc
        obtain ⟨g1, g2⟩ := e4 k c hc
        rw [SEnv.mem_look_del h1] at g1
        refine ⟨g1.2, ?_⟩
        rintro ⟨hk, hb⟩
        rcases List.mem_cons.1 hk with e | e
        · exact g1.1 e
        · exact g2 ⟨e, hb⟩
      · intro k k' hc
        obtain ⟨g1, g2⟩ := e5 k k' hc
        rw [SEnv.mem_look_del h2] at g1
        refine ⟨g1.2, ?_⟩
        rintro ⟨hk, hb⟩
        rcases List.mem_cons.1 hk with e | e
        · exact g1.1 e
        · exact g2 ⟨e, hb⟩
      · intro w hw
        obtain ⟨g1, g2⟩ := e6 w hw
        refine ⟨g1, ?_⟩
        rintro ⟨hk, hb⟩
        rcases List.mem_cons.1 hk with e | e
        · rw [e, hv] at hb; cases hb
        · exact g2 ⟨e, hb⟩
    | false =>
      simp only [Bool.false_eq_true, if_false]
      obtain ⟨e0, e1, e2, e3, e4, e5, e6⟩ := ih ({ a with unch := a.unch.remove v }) h1 h2
        (by rw [DSet.isBot_remove]; exact h3)
      refine ⟨e0, e1, e2, e3, ?_, ?_, ?_⟩
      · intro k c hc
        obtain ⟨g1, g2⟩ := e4 k c hc
        refine ⟨g1, ?_⟩
        rintro ⟨hk, hb⟩
        rcases List.mem_cons.1 hk with e | e
        · rw [e, hv] at hb; cases hb
        · exact g2 ⟨e, hb⟩
      · intro k k' hc
        obtain ⟨g1, g2⟩ := e5 k k' hc
        refine ⟨g1, ?_⟩
        rintro ⟨hk, hb⟩
        rcases List.mem_cons.1 hk with e | e
        · rw [e, hv] at hb; cases hb
        · exact g2 ⟨e, hb⟩
      · intro w hw
        obtain ⟨g1, g2⟩ := e6 w hw
        rw [DSet.mem_remove _ h3] at g1
        refine ⟨g1.2, ?_⟩
        rintro ⟨hk, hb⟩
        rcases List.mem_cons.1 hk with e | e
        · exact g1.1 e
        · exact g2 ⟨e, hb⟩

theorem forget_sound (isBool : V → Bool) {f2 : N.B → N.B} {vs : List V}
    (hf2 : N.TSound f2 (relForget isBool vs)) {a : FBN N} {s s' : CSt V} (hg : γ a s)
    (hr : relForget isBool vs s s') : γ (forget isBool f2 vs a) s' := by
  obtain ⟨hp, hlb, hbb, hub, hL, hB⟩ := hg
  have hp0 : (Prod2.op .forget (fun e => FEnv.forget e vs) f2 a.prod).γ s' :=
    Prod2.op_γ .forget hp (FEnv.forget_sound hp.2.1 vs (fun k hk => (hr.1 k hk).2)) (hf2 _ _ _ hp.2.2 hr)
  unfold forget
  simp only [isBottom, Prod2.isBottom_false_of_γ hp, Bool.false_eq_true, if_false]
  obtain ⟨e0, e1, e2, e3, e4, e5, e6⟩ := forgetMaps_spec isBool vs
    ({ a with prod := Prod2.op .forget (fun e => FEnv.forget e vs) f2 a.prod } : FBN N) hlb hbb hub
  have hbool : ∀ k, ¬ (k ∈ vs ∧ isBool k = true) → s'.bool k = s.bool k := by
    intro k hk
    by_cases hkv : k ∈ vs
    · cases hb : isBool k
      · exact hr.2.2 k hb
      · exact absurd ⟨hkv, hb⟩ hk
    · exact (hr.1 k hkv).2
  have hnum : ∀ k, ¬ (k ∈ vs ∧ isBool k = false) → s'.num k = s.num k := by
    intro k hk
    by_cases hkv : k ∈ vs
    · cases hb : isBool k
      · exact absurd ⟨hkv, hb⟩ hk
      · exact hr.2.1 k hb
    · exact (hr.1 k hkv).1
  refine ⟨by rw [e0]; exact hp0, e1, by rw [SEnv.isBot_transformIf]; exact e2, e3, ?_, ?_⟩
  · intro k c hc hu
    obtain ⟨g1, g2⟩ := e4 k c hc
    rw [unchanged_iff] at hu
    have hu' : unchanged a.unch c = true := by
      rw [unchanged_iff]; exact fun v hv => (e6 v (hu v hv)).1
    have hfr : K.holds c s'.num ↔ K.holds c s.num :=
      K.frame c _ _ (fun v hv => hnum v (e6 v (hu v hv)).2)
    rw [hbool k g2, hfr]
    exact hL k c g1 hu'
  · intro k k' hk hs
    rw [SEnv.mem_look_transformIf _ _ (by simp) e2] at hk
    obtain ⟨l, hl, hm⟩ := hk
    have hk'l : k' ∈ l ∧ k' ∉ vs := by
      split at hm
      · simp only [List.mem_filter] at hm
        exact ⟨hm.1, by simpa [List.contains_iff_mem] using hm.2⟩
      · rename_i hany
        refine ⟨hm, fun hv => hany ?_⟩
        simp only [List.any_eq_true]
        exact ⟨k', hv, by simpa [List.contains_iff_mem] using hm⟩
    obtain ⟨g1, g2⟩ := e5 k k' (by rw [hl]; simpa [DSet.mem, List.contains_iff_mem] using hk'l.1)
    rw [hbool k g2] at hs
    rw [(hr.1 k' hk'l.2).2]
    exact hB k k' g1 hs

/-! ### `project(variables)` -/

theorem inv_top (p : Prod2 (FB V) N.toLDom) (s : CSt V) : Inv (⟨p, .top, .top, .fin []⟩ : FBN N) s := by
  refine ⟨rfl, rfl, rfl, ?_, ?_⟩
  · intro k c hc; cases hc
  · intro k k' hk; cases hk

theorem project_sound {f2 : N.B → N.B} {vs : List V} (hf2 : N.TSound f2 (relProject vs)) {a : FBN N}
    {s s' : CSt V} (hg : γ a s) (hr : relProject vs s s') : γ (project f2 vs a) s' := by
  unfold project
  simp only [isBottom, Prod2.isBottom_false_of_γ hg.1, Bool.false_eq_true, if_false]
  apply γ_ite
  · exact fun _ => γ_top s'
  · intro _
    exact ⟨Prod2.op_γ .project hg.1 (FEnv.project_sound hg.1.2.1 vs (fun k hk => (hr k hk).2))
      (hf2 _ _ _ hg.1.2.2 hr), inv_top _ s'⟩

/-! ### `expand(x, new_x)` -/

theorem FEnv.expand_sound_bool {e : FEnv V} {s : CSt V} (h : FEnv.γ e s) (x nx : V) :
    FEnv.γ (e.expand x nx) (s.setB nx (s.bool x)) := by
  unfold FEnv.expand
  split
  · rename_i hc
    rw [FEnv.isBot_false_of_γ h, Bool.false_or] at hc
    exact FEnv.γ_of_isTop hc _
  · exact FEnv.set_sound h nx (FEnv.get_sound h x)

theorem FEnv.expand_sound_num {e : FEnv V} {s : CSt V} (h : FEnv.γ e s) (x nx : V) (k : Int)
    (hx : e.get x = .top) : FEnv.γ (e.expand x nx) (s.setN nx k) := by
  unfold FEnv.expand
  split
  · exact FEnv.γ_congr h rfl
  · rw [hx]
    have := FEnv.set_same_sound h nx (v := .top) trivial
    exact FEnv.γ_congr this rfl

/-- `expand(x, new_x)`: for a Boolean `x` the target must not occur in `m_bool_to_bools` (the
    code leaves that map alone); for a numerical `x` nothing is asked of the maps, but `x` must
    have no value in the flat Boolean environment (typing) -/
theorem expand_sound (isBool : V → Bool) {f2 : N.B → N.B} {x nx : V}
    (hf2 : N.TSound f2 (relExpand isBool x nx)) {a : FBN N} {s s' : CSt V} (hg : γ a s)
    (hfresh : isBool x = true → BoolFresh nx a.bools)
    (hty : isBool x = false → a.prod.fst.get x = .top)
    (hr : relExpand isBool x nx s s') : γ (expand isBool f2 x nx a) s' := by
  obtain ⟨hp, hlb, hbb, hub, hL, hB⟩ := hg
  have h2 := hf2 _ _ _ hp.2.2 hr
  unfold expand
  simp only [isBottom, Prod2.isBottom_false_of_γ hp, Bool.false_eq_true, if_false]
  unfold relExpand at hr
  cases hx : isBool x with
  | true =>
    simp only [hx, if_true] at hr ⊢
    subst hr
    refine ⟨Prod2.op_γ .expand hp (FEnv.expand_sound_bool hp.2.1 x nx) h2,
      SEnv.isBot_set hlb nx (SEnv.look_isBot hlb x), hbb, hub, ?_, ?_⟩
    · exact hL.setB_set hlb nx _ (SEnv.look_isBot hlb x) (fun c hc hu => hL x c hc hu)
    · intro k k' hk hs
      obtain ⟨f1, f2'⟩ := hfresh hx k k' hk
      simp only [CSt.setB, f1, f2', if_false] at hs ⊢
      exact hB k k' hk hs
  | false =>
    simp only [hx, Bool.false_eq_true, if_false] at hr ⊢
    subst hr
    refine ⟨Prod2.op_γ .expand hp ?_ h2, hlb, hbb,
      by show (a.unch.remove nx).isBot = false; rw [DSet.isBot_remove]; exact hub,
      hL.setN hub nx _, hB.setN nx _⟩
    exact FEnv.expand_sound_num hp.2.1 x nx _ (hty hx)

/-! ### weak Boolean assignments, `to_linear_constraint_system` -/

theorem weakAssignBoolCst_sound {f2 : N.B → N.B} {x : V} {c : K.C} (hf2 : N.TSound f2 (relBcst x c))
    {a : FBN N} {s s' : CSt V} (hg : γ a s) (hr : relWeak (relBcst x c) s s') :
    γ (weakAssignBoolCst f2 x c a) s' := by
  unfold weakAssignBoolCst
  simp only [isBottom, Prod2.isBottom_false_of_γ hg.1, Bool.not_false, if_true]
  rcases hr with rfl | hr
  · exact joinEq_sound (Or.inl hg)
  · exact joinEq_sound (Or.inr (assignBoolCst_sound hf2 hg hr))

theorem weakAssignBoolVar_sound {f2 : N.B → N.B} {x y : V} {neg : Bool}
    (hf2 : N.TSound f2 (relBvar x y neg)) {a : FBN N} {s s' : CSt V} (hg : γ a s)
    (hr : relWeak (relBvar x y neg) s s') : γ (weakAssignBoolVar f2 x y neg a) s' := by
  unfold weakAssignBoolVar
  simp only [isBottom, Prod2.isBottom_false_of_γ hg.1, Bool.not_false, if_true]
  rcases hr with rfl | hr
  · exact joinEq_sound (Or.inl hg)
  · exact joinEq_sound (Or.inr (assignBoolVar_sound hf2 hg hr))

/-- the Boolean constraints of `to_linear_constraint_system()` hold in every state of the value -/
theorem boolFacts_sound {a : FBN N} {s : CSt V} (hg : γ a s) :
    ∃ l, boolFacts a = some l ∧ ∀ p ∈ l, s.bool p.1 = p.2 := by
  have h1 : FEnv.γ a.prod.fst s := hg.1.2.1
  unfold boolFacts
  cases he : a.prod.fst with
  | bot => rw [he] at h1; exact h1.elim
  | env m =>
    rw [he] at h1
    refine ⟨_, rfl, ?_⟩
    intro p hp
    simp only [List.mem_filterMap] at hp
    obtain ⟨k, _, hk⟩ := hp
    cases hgk : AL.get m k with
    | none => simp [hgk] at hk
    | some b =>
      simp only [hgk, Option.map_some, Option.some.injEq] at hk
      subst hk
      exact h1 k b hgk

end FBN

end Fct
end Dom
end Crab
