import CrabModel.Bwd.BwdTransfer
import CrabModel.Fix.Semantics

/-!
  Lemmas for property C11 (backward analysis): constraints and their negation, the statement
  relations, soundness of the per-statement backward transformer and of `analyze` on a block
  for every domain satisfying `BDomSound`.
-/
namespace Crab
namespace Bwd

theorem Cst.sat_iff (c : Cst) (σ : State) : c.sat σ = true ↔ c.holds σ := by
  unfold Cst.sat Cst.holds
  cases c.k <;> simp

theorem Cst.sat_false_iff (c : Cst) (σ : State) : c.sat σ = false ↔ ¬ c.holds σ := by
  rw [← Cst.sat_iff]; cases c.sat σ <;> simp

theorem evalTerms_neg (ts : List (Int × Var)) (σ : State) :
    evalTerms (ts.map (fun t => (-t.1, t.2))) σ = - evalTerms ts σ := by
  induction ts with
  | nil => simp [evalTerms]
  | cons t ts ih =>
    obtain ⟨k, v⟩ := t
    simp only [List.map, evalTerms, ih]
    rw [Int.neg_mul, Int.neg_add]

theorem Lin.neg_eval (e : Lin) (σ : State) : e.neg.eval σ = - e.eval σ := by
  simp only [Lin.neg, Lin.eval, evalTerms_neg]
  omega

theorem Cst.negate_holds (c : Cst) (σ : State) : c.negate.holds σ ↔ ¬ c.holds σ := by
  obtain ⟨k, e⟩ := c
  cases k
  · -- le
    have h := Lin.neg_eval e σ
    simp only [Cst.negate, Cst.holds, Lin.eval, Lin.neg] at *
    omega
  · have h := Lin.neg_eval e σ
    simp only [Cst.negate, Cst.holds] at *
    omega
  · simp [Cst.negate, Cst.holds]
  · simp [Cst.negate, Cst.holds]

/-! ### the statement relations, spelled out -/

theorem stmtStep_assign {x : Var} {e : Lin} {σ σ' : State} :
    StmtStep (.assign x e) σ σ' ↔ σ' = upd σ x (e.eval σ) := by
  constructor
  · rintro ⟨h, hh⟩; simp only [stepStmt, Outcome.next.injEq] at hh; exact hh.symm
  · intro h; exact ⟨0, by simp [stepStmt, h]⟩

theorem stmtStep_bin {op : BinOp} {x y : Var} {z : Operand} {σ σ' : State} :
    StmtStep (.bin op x y z) σ σ' ↔ ∃ v, binSem op (σ y) (z.eval σ) = some v ∧ σ' = upd σ x v := by
  constructor
  · rintro ⟨h, hh⟩
    simp only [stepStmt] at hh
    cases hb : binSem op (σ y) (z.eval σ) with
    | none => rw [hb] at hh; cases hh
    | some v =>
      rw [hb] at hh
      simp only [Outcome.next.injEq] at hh
      exact ⟨v, rfl, hh.symm⟩
  · rintro ⟨v, hv, h⟩
    exact ⟨0, by simp [stepStmt, hv, h]⟩

theorem stmtStep_havoc {x : Var} {σ σ' : State} :
    StmtStep (.havoc x) σ σ' ↔ ∃ v, σ' = upd σ x v := by
  constructor
  · rintro ⟨h, hh⟩; simp only [stepStmt, Outcome.next.injEq] at hh; exact ⟨h, hh.symm⟩
  · rintro ⟨v, h⟩; exact ⟨v, by simp [stepStmt, h]⟩

theorem stmtStep_assume {c : Cst} {σ σ' : State} :
    StmtStep (.assume c) σ σ' ↔ c.holds σ ∧ σ' = σ := by
  constructor
  · rintro ⟨h, hh⟩
    simp only [stepStmt] at hh
    cases hs : c.sat σ with
    | false => rw [hs] at hh; simp at hh
    | true =>
      rw [hs] at hh
      simp only [if_true, Outcome.next.injEq] at hh
      exact ⟨(Cst.sat_iff c σ).1 hs, hh.symm⟩
  · rintro ⟨hc, h⟩
    exact ⟨0, by simp [stepStmt, (Cst.sat_iff c σ).2 hc, h]⟩

theorem stmtStep_assert {c : Cst} {σ σ' : State} :
    StmtStep (.assert c) σ σ' ↔ c.holds σ ∧ σ' = σ := by
  constructor
  · rintro ⟨h, hh⟩
    simp only [stepStmt] at hh
    cases hs : c.sat σ with
    | false => rw [hs] at hh; simp at hh
    | true =>
      rw [hs] at hh
      simp only [if_true, Outcome.next.injEq] at hh
      exact ⟨(Cst.sat_iff c σ).1 hs, hh.symm⟩
  · rintro ⟨hc, h⟩
    exact ⟨0, by simp [stepStmt, (Cst.sat_iff c σ).2 hc, h]⟩

theorem stmtStep_select {x : Var} {c : Cst} {e1 e2 : Lin} {σ σ' : State} :
    StmtStep (.select x c e1 e2) σ σ' ↔
      σ' = upd σ x (if c.sat σ then e1.eval σ else e2.eval σ) := by
  constructor
  · rintro ⟨h, hh⟩; simp only [stepStmt, Outcome.next.injEq] at hh; exact hh.symm
  · intro h; exact ⟨0, by simp [stepStmt, h]⟩

/-- only an assert can fail, and it fails exactly when its condition is false -/
theorem stmtFails_iff {s : Stmt} {σ : State} :
    StmtFails s σ ↔ ∃ c, s = .assert c ∧ ¬ c.holds σ := by
  constructor
  · rintro ⟨h, hh⟩
    cases s with
    | assign x e => simp [stepStmt] at hh
    | bin op x y z =>
      simp only [stepStmt] at hh
      cases hb : binSem op (σ y) (z.eval σ) <;> rw [hb] at hh <;> cases hh
    | havoc x => simp [stepStmt] at hh
    | assume c =>
      simp only [stepStmt] at hh
      cases hs : c.sat σ <;> rw [hs] at hh <;> simp at hh
    | assert c =>
      refine ⟨c, rfl, ?_⟩
      simp only [stepStmt] at hh
      cases hs : c.sat σ with
      | true => rw [hs] at hh; simp at hh
      | false => exact (Cst.sat_false_iff c σ).1 hs
    | select x c e1 e2 => simp [stepStmt] at hh
  · rintro ⟨c, rfl, hc⟩
    exact ⟨0, by simp [stepStmt, (Cst.sat_false_iff c σ).2 hc]⟩

theorem stmtsFail_has_assert {ss : List Stmt} {σ : State} (h : StmtsFail ss σ) :
    ∃ s ∈ ss, s.isAssert = true := by
  induction ss generalizing σ with
  | nil => exact h.elim
  | cons s ss ih =>
    rcases h with h | ⟨σ1, _, h⟩
    · obtain ⟨c, rfl, _⟩ := stmtFails_iff.1 h
      exact ⟨_, List.mem_cons_self, rfl⟩
    · obtain ⟨t, ht, ha⟩ := ih h
      exact ⟨t, List.mem_cons_of_mem _ ht, ha⟩

/-! ### soundness of the transformers -/

variable {A : Type} {D : BDom A} {γ : A → State → Prop}

/-- `intra_abs_transformer::exec` is sound -/
theorem fwdExec_sound (hD : BDomSound D γ) (s : Stmt) (inv : A) (σ σ' : State)
    (hinv : γ inv σ) (hstep : StmtStep s σ σ') : γ (fwdExec D s inv) σ' := by
  cases s with
  | assign x e =>
    rw [stmtStep_assign.1 hstep]; exact hD.assign_sound x e inv σ hinv
  | bin op x y z =>
    obtain ⟨v, hv, rfl⟩ := stmtStep_bin.1 hstep
    exact hD.apply_sound op x y z inv σ v hinv hv
  | havoc x =>
    obtain ⟨v, rfl⟩ := stmtStep_havoc.1 hstep
    exact hD.forget_sound x inv σ v hinv
  | assume c =>
    obtain ⟨hc, h⟩ := stmtStep_assume.1 hstep
    rw [h]; exact hD.assume_sound c inv σ hinv hc
  | assert c =>
    obtain ⟨hc, h⟩ := stmtStep_assert.1 hstep
    rw [h]; exact hD.assume_sound c inv σ hinv hc
  | select x c e1 e2 =>
    rw [stmtStep_select.1 hstep]; exact hD.select_sound x c e1 e2 inv σ hinv

/-- one statement backwards: a state that satisfies the forward invariant and has a successor
    in `post` is in the computed precondition (both modes) -/
theorem bwdExec_step_sound (hD : BDomSound D γ) (good : Bool) (s : Stmt) (post inv : A)
    (σ σ' : State) (hinv : γ inv σ) (hstep : StmtStep s σ σ') (hpost : γ post σ') :
    γ (bwdExec D good s post inv) σ := by
  cases s with
  | assign x e =>
    rw [stmtStep_assign.1 hstep] at hpost
    exact hD.bwdAssign_sound x e post inv σ hinv hpost
  | bin op x y z =>
    obtain ⟨v, hv, rfl⟩ := stmtStep_bin.1 hstep
    exact hD.bwdApply_sound op x y z post inv σ v hinv hv hpost
  | havoc x =>
    obtain ⟨v, rfl⟩ := stmtStep_havoc.1 hstep
    have h := hD.forget_sound x post (upd σ x v) (σ x) hpost
    rw [upd_upd, upd_self] at h
    exact h
  | assume c =>
    obtain ⟨hc, h⟩ := stmtStep_assume.1 hstep
    rw [h] at hpost
    exact hD.assume_sound c post σ hpost hc
  | assert c =>
    obtain ⟨hc, h⟩ := stmtStep_assert.1 hstep
    rw [h] at hpost
    cases good with
    | true => exact hD.assume_sound c post σ hpost hc
    | false => exact hD.join_left _ _ σ hpost
  | select x c e1 e2 =>
    have hσ' := stmtStep_select.1 hstep
    simp only [bwdExec]
    cases hs : c.sat σ with
    | true =>
      have hc : c.holds σ := (Cst.sat_iff c σ).1 hs
      rw [hs] at hσ'
      simp only [if_true] at hσ'
      rw [hσ'] at hpost
      have hthen : γ (D.assume c (D.bwdAssign x e1 post inv)) σ :=
        hD.assume_sound c _ σ (hD.bwdAssign_sound x e1 post inv σ hinv hpost) hc
      have hnb : D.isBottom (D.assume c inv) = false := by
        cases hb : D.isBottom (D.assume c inv) with
        | false => rfl
        | true => exact absurd (hD.assume_sound c inv σ hinv hc) (hD.isBottom_sound _ σ hb)
      rw [hnb]
      simp only [Bool.false_eq_true, if_false]
      split
      · exact hthen
      · exact hD.join_left _ _ σ hthen
    | false =>
      have hc : ¬ c.holds σ := (Cst.sat_false_iff c σ).1 hs
      have hn : c.negate.holds σ := (Cst.negate_holds c σ).2 hc
      rw [hs] at hσ'
      simp only [Bool.false_eq_true, if_false] at hσ'
      rw [hσ'] at hpost
      have helse : γ (D.assume c.negate (D.bwdAssign x e2 post inv)) σ :=
        hD.assume_sound c.negate _ σ (hD.bwdAssign_sound x e2 post inv σ hinv hpost) hn
      split
      · exact helse
      · have hnb : D.isBottom (D.assume c.negate inv) = false := by
          cases hb : D.isBottom (D.assume c.negate inv) with
          | false => rfl
          | true => exact absurd (hD.assume_sound c.negate inv σ hinv hn) (hD.isBottom_sound _ σ hb)
        rw [hnb]
        simp only [Bool.false_eq_true, if_false]
        exact hD.join_right _ _ σ helse

/-- one statement backwards, error mode: a state from which the statement fails is in the
    computed precondition whatever `post` is (even bottom) -/
theorem bwdExec_fail_sound (hD : BDomSound D γ) (s : Stmt) (post inv : A) (σ : State)
    (hfail : StmtFails s σ) : γ (bwdExec D false s post inv) σ := by
  obtain ⟨c, rfl, hc⟩ := stmtFails_iff.1 hfail
  have hn : c.negate.holds σ := (Cst.negate_holds c σ).2 hc
  simp only [bwdExec, Bool.false_eq_true, if_false]
  exact hD.join_right _ _ σ (hD.assume_sound c.negate D.top σ (hD.top_sound σ) hn)

/-- `analyze` on a block: states that run through the block into `post` -/
theorem bwdStmts_step_sound (hD : BDomSound D γ) (good : Bool) (ss : List Stmt) (post inv : A)
    (σ σ' : State) (hinv : γ inv σ) (hrun : StmtsStep ss σ σ') (hpost : γ post σ') :
    γ (bwdStmts D good ss post inv) σ := by
  induction ss generalizing σ inv with
  | nil =>
    simp only [StmtsStep] at hrun
    subst hrun
    exact hpost
  | cons s ss ih =>
    obtain ⟨σ1, h1, hrest⟩ := hrun
    have hinv1 : γ (fwdExec D s inv) σ1 := fwdExec_sound hD s inv σ σ1 hinv h1
    have hmid := ih (fwdExec D s inv) σ1 hinv1 hrest
    exact bwdExec_step_sound hD good s _ inv σ σ1 hinv h1 hmid

/-- `analyze` on a block, error mode: states from which an assert of the block fails -/
theorem bwdStmts_fail_sound (hD : BDomSound D γ) (ss : List Stmt) (post inv : A)
    (σ : State) (hinv : γ inv σ) (hfail : StmtsFail ss σ) :
    γ (bwdStmts D false ss post inv) σ := by
  induction ss generalizing σ inv with
  | nil => exact hfail.elim
  | cons s ss ih =>
    rcases hfail with h | ⟨σ1, h1, hrest⟩
    · exact bwdExec_fail_sound hD s _ inv σ h
    · have hinv1 : γ (fwdExec D s inv) σ1 := fwdExec_sound hD s inv σ σ1 hinv h1
      have hmid := ih (fwdExec D s inv) σ1 hinv1 hrest
      exact bwdExec_step_sound hD false s _ inv σ σ1 hinv h1 hmid

end Bwd
end Crab
