import CrabProofs.Lemmas.InterWire

/-!
  Concrete instances used by the counterexamples of C09: a box lattice over two variables (the
  hull gap of joined calling contexts) and the collecting domain (exact images, shows that the
  sequential parameter wiring itself is wrong under name sharing, not a domain's imprecision).
-/
namespace Crab.Inter

/-- does `policyAdd` join the two oldest contexts? (decidable) -/
def policyJoins {L : Lat} (max : Option Nat) (ccs : List (Ctx L)) : Bool :=
  match max with
  | none => false
  | some m => decide (ccs.length ≥ 2) && decide (ccs.length > m)

/-! #### the counterexample: a box lattice over the two variables `0` (input) and `1` (output) -/

/-- `v0 ∈ [a.1.1, a.1.2]` and `v1 ∈ [a.2.1, a.2.2]` -/
def boxLat : Lat where
  A := (Int × Int) × (Int × Int)
  γ := fun a σ => a.1.1 ≤ σ 0 ∧ σ 0 ≤ a.1.2 ∧ a.2.1 ≤ σ 1 ∧ σ 1 ≤ a.2.2
  leq := fun a b => decide (b.1.1 ≤ a.1.1) && decide (a.1.2 ≤ b.1.2) && decide (b.2.1 ≤ a.2.1) && decide (a.2.2 ≤ b.2.2)
  join := fun a b => ((min a.1.1 b.1.1, max a.1.2 b.1.2), (min a.2.1 b.2.1, max a.2.2 b.2.2))
  leq_sound := by
    intro a b σ h hg
    simp only [Bool.and_eq_true, decide_eq_true_eq] at h
    obtain ⟨⟨⟨h1, h2⟩, h3⟩, h4⟩ := h
    obtain ⟨g1, g2, g3, g4⟩ := hg
    exact ⟨by omega, by omega, by omega, by omega⟩
  join_left := by
    intro a b σ hg
    obtain ⟨g1, g2, g3, g4⟩ := hg
    refine ⟨?_, ?_, ?_, ?_⟩ <;> dsimp only <;> omega
  join_right := by
    intro a b σ hg
    obtain ⟨g1, g2, g3, g4⟩ := hg
    refine ⟨?_, ?_, ?_, ?_⟩ <;> dsimp only <;> omega

/-- `f(x) = (x == 1 ? 5 : 0)`: entry state `σ` (input `v0`), exit state `τ` (output `v1`) -/
def gapF : St → St → Prop := fun σ τ => τ 0 = σ 0 ∧ τ 1 = (if σ 0 = 1 then 5 else 0)

def gapC (k : Int) : Ctx boxLat := ⟨((k, k), (0, 0)), ((k, k), (0, 0)), true⟩

theorem gapC_valid (k : Int) (hk : k ≠ 1) : SummaryValid boxLat gapF (gapC k).pre (gapC k).post := by
  intro σ τ hσ hF
  have hσ' : k ≤ σ 0 ∧ σ 0 ≤ k ∧ (0:Int) ≤ σ 1 ∧ σ 1 ≤ (0:Int) := hσ
  obtain ⟨g1, g2, _, _⟩ := hσ'
  obtain ⟨f1, f2⟩ := hF
  have h0 : σ 0 = k := by omega
  have : ¬ (σ 0 = 1) := by omega
  simp only [this, if_false] at f2
  exact ⟨by show k ≤ τ 0; omega, by show τ 0 ≤ k; omega, by show (0:Int) ≤ τ 1; omega, by show τ 1 ≤ (0:Int); omega⟩

/-- the most precise domain: sets of states, every operation is the exact image -/
def collDom : AbsDom where
  A := St → Prop
  γ := fun a σ => a σ
  leq := fun _ _ => false
  join := fun a b σ => a σ ∨ b σ
  leq_sound := by intro a b σ h; cases h
  join_left := fun h => Or.inl h
  join_right := fun h => Or.inr h
  top := fun _ => True
  isBot := fun _ => false
  meet := fun a b σ => a σ ∧ b σ
  assignVar := fun a x y τ => ∃ σ, a σ ∧ τ = σ.upd x (σ y)
  forget := fun a xs τ => ∃ σ, a σ ∧ ∀ v, v ∉ xs → τ v = σ v
  project := fun a xs τ => ∃ σ, a σ ∧ ∀ v, v ∈ xs → τ v = σ v
  rename := fun _ _ _ _ => True
  top_sound := fun _ => trivial
  isBot_sound := by intro a σ h; cases h
  meet_sound := fun h1 h2 => ⟨h1, h2⟩
  assign_sound := fun {a σ} x y h => ⟨σ, h, rfl⟩
  forget_sound := fun {a σ τ} xs h hτ => ⟨σ, h, hτ⟩
  project_sound := fun {a σ τ} xs h hτ => ⟨σ, h, hτ⟩

end Crab.Inter
