import CrabProofs.Lemmas.PatriciaInsert

/-! `tree::compare` versus the pointwise order of the bindings. -/
namespace Crab
namespace Patricia
open Tree

variable {V : Type} {P : V → Prop}

/-- the order on "binding or default": a missing binding is the default value, which is the
    top (`default_is_top`) or the bottom of the order; stored values are never the default -/
def leO (po : POrder V) : Option V → Option V → Bool
  | some x, some y => po.leq x y
  | some _, none => po.defaultIsTop
  | none, some _ => !po.defaultIsTop
  | none, none => true

/-- `compare(s, t, po, l2r)` tests `s ≤ t` when `l2r`, `t ≤ s` otherwise -/
def rel (po : POrder V) (l2r : Bool) (a b : Option V) : Bool := if l2r then leO po a b else leO po b a

/-- the pointwise order of two trees -/
def PwLe (po : POrder V) (l2r : Bool) (s t : Tree V) : Prop :=
  ∀ k, rel po l2r (s.lookup k) (t.lookup k) = true

@[simp] theorem rel_none_none (po : POrder V) (l2r : Bool) : rel po l2r none none = true := by
  cases l2r <;> rfl

theorem rel_some_none (po : POrder V) (l2r : Bool) (x : V) :
    rel po l2r (some x) none = (if l2r then po.defaultIsTop else !po.defaultIsTop) := by
  cases l2r <;> rfl

theorem rel_none_some (po : POrder V) (l2r : Bool) (y : V) :
    rel po l2r none (some y) = (if l2r then !po.defaultIsTop else po.defaultIsTop) := by
  cases l2r <;> rfl

theorem rel_some_some (po : POrder V) (l2r : Bool) (x y : V) :
    rel po l2r (some x) (some y) = (if l2r then po.leq x y else po.leq y x) := by
  cases l2r <;> rfl

theorem WF.exists_binding {t : Tree V} (h : WF P t) (hne : t ≠ .empty) : ∃ k v, t.lookup k = some v := by
  obtain ⟨k, hk⟩ := h.exists_key hne
  obtain ⟨v, hv⟩ := (mem_keys_iff_lookup h).mp hk
  exact ⟨k, v, hv⟩

theorem pwLe_empty_right (po : POrder V) (l2r : Bool) {s : Tree V} (hs : WF P s) (hne : s ≠ .empty) :
    PwLe po l2r s .empty ↔ (if l2r then po.defaultIsTop else !po.defaultIsTop) = true := by
  constructor
  · intro h
    obtain ⟨k, v, hv⟩ := hs.exists_binding hne
    have := h k
    rw [hv, lookup_empty, rel_some_none] at this
    exact this
  · intro h k
    rw [lookup_empty]
    cases hl : s.lookup k with
    | none => simp
    | some x => rw [rel_some_none]; exact h

theorem pwLe_empty_left (po : POrder V) (l2r : Bool) {t : Tree V} (ht : WF P t) (hne : t ≠ .empty) :
    PwLe po l2r .empty t ↔ (if l2r then !po.defaultIsTop else po.defaultIsTop) = true := by
  constructor
  · intro h
    obtain ⟨k, v, hv⟩ := ht.exists_binding hne
    have := h k
    rw [hv, lookup_empty, rel_none_some] at this
    exact this
  · intro h k
    rw [lookup_empty]
    cases hl : t.lookup k with
    | none => simp
    | some x => rw [rel_none_some]; exact h

theorem pwLe_refl (po : POrder V) (l2r : Bool) (hrefl : ∀ x, P x → po.leq x x = true) {s : Tree V} (hs : WF P s) :
    PwLe po l2r s s := by
  intro k
  cases hl : s.lookup k with
  | none => simp
  | some x => rw [rel_some_some]; simp [hrefl x (hs.val_of_lookup hl)]

/-- a well-formed node binds a key different from any given one -/
theorem exists_other_key {t : Tree V} (ht : WF P t) {ks : Nat} (h : t.isLeaf = false) (hne : t ≠ .empty) :
    ∃ k y, k ≠ ks ∧ t.lookup k = some y := by
  cases t with
  | empty => exact absurd rfl hne
  | leaf kt vt => simp [Tree.isLeaf] at h
  | node p m l r =>
    obtain ⟨⟨k1, hk1⟩, ⟨k2, hk2⟩⟩ := ht.node_keys
    have h1 := ht.left_le k1 hk1
    have h2 := ht.right_gt k2 hk2
    have m1 : k1 ∈ (Tree.node p m l r).keys := by simp [hk1]
    have m2 : k2 ∈ (Tree.node p m l r).keys := by simp [hk2]
    obtain ⟨v1, hv1⟩ := (mem_keys_iff_lookup ht).mp m1
    obtain ⟨v2, hv2⟩ := (mem_keys_iff_lookup ht).mp m2
    by_cases e : k1 = ks
    · exact ⟨k2, v2, by omega, hv2⟩
    · exact ⟨k1, v1, e, hv1⟩

/-- a binding under another key: the tree is a node, or the key `ks` is not bound -/
theorem other_of_binding {t : Tree V} {ks k : Nat} {y : V} (hk : k ≠ ks) (hl : t.lookup k = some y) :
    t.isLeaf = false ∨ t.lookup ks = none := by
  cases t with
  | empty => simp at hl
  | leaf kt vt =>
    simp at hl
    have : kt ≠ ks := by omega
    right; simp [this]
  | node p m l r => left; rfl

/-- the leaf branch of the repaired `compare` is the pointwise order -/
theorem compareLeaf_spec (po : POrder V) (l2r : Bool) {ks : Nat} {vs : V} {t : Tree V} (ht : WF P t)
    (hne : t ≠ .empty) :
    compareLeaf true po l2r ks vs t = true ↔ PwLe po l2r (.leaf ks vs) t := by
  unfold compareLeaf
  simp only [if_true]
  constructor
  · intro h k
    by_cases e : k = ks
    · subst e
      simp only [lookup_leaf, if_true]
      cases hf : t.lookup k with
      | none => simp [hf] at h
      | some v' =>
        rw [rel_some_some]
        simp only [hf] at h
        cases l2r <;> simp_all
    · have e' : ¬ ks = k := fun h => e h.symm
      simp only [lookup_leaf, e', if_false]
      cases hl : t.lookup k with
      | none => simp
      | some y =>
        rw [rel_none_some]
        rcases other_of_binding e hl with ho | ho
        · rw [ho] at h
          cases l2r <;> cases hd : po.defaultIsTop <;> simp_all
        · simp [ho] at h
  · intro h
    have hks := h ks
    simp only [lookup_leaf, if_true] at hks
    cases hf : t.lookup ks with
    | none =>
      exfalso
      rw [hf, rel_some_none] at hks
      obtain ⟨k, y, hy⟩ := ht.exists_binding hne
      have hk : k ≠ ks := by intro e; subst e; rw [hf] at hy; cases hy
      have := h k
      have e' : ¬ ks = k := fun h => hk h.symm
      simp only [lookup_leaf, e', if_false] at this
      rw [hy, rel_none_some] at this
      cases l2r <;> cases hd : po.defaultIsTop <;> simp_all
    | some v' =>
      rw [hf, rel_some_some] at hks
      have hoth : t.isLeaf = false → (if l2r then !po.defaultIsTop else po.defaultIsTop) = true := by
        intro ho
        obtain ⟨k, y, hk, hl⟩ := exists_other_key (ks := ks) ht ho hne
        have := h k
        have e' : ¬ ks = k := fun h => hk h.symm
        simp only [lookup_leaf, e', if_false] at this
        rw [hl, rel_none_some] at this
        exact this
      cases hlf : t.isLeaf
      · have := hoth hlf
        cases l2r <;> cases hd : po.defaultIsTop <;> simp_all
      · cases l2r <;> cases hd : po.defaultIsTop <;> simp_all

/-! ### two nodes -/

theorem two_pow_lt_iff {i j : Nat} : 2 ^ j < 2 ^ i ↔ j < i := Nat.pow_lt_pow_iff_right (by decide)
theorem two_pow_inj {i j : Nat} : 2 ^ i = 2 ^ j ↔ i = j := Nat.pow_right_inj (by decide)

/-- the keys of a node agree with its prefix above its branching bit -/
theorem WF.node_agree {p i : Nat} {l r : Tree V} (h : WF P (.node p (2 ^ i) l r)) :
    ∀ k ∈ (Tree.node p (2 ^ i) l r).keys, AgreeAbove i k p := by
  intro k hk b hb
  have := h.agree_pfx hk b (by simp [lvl, Nat.log2_two_pow]; omega)
  simpa [Tree.pfx'] using this

/-- `t` (branching bit below `i`, prefix matching `(p, 2^i)`) lies in one half of `(p, 2^i)` -/
theorem keys_inside {p i q j : Nat} {tl tr : Tree V} (ht : WF P (.node q (2 ^ j) tl tr)) (hij : j < i)
    (hag : AgreeAbove i q p) :
    ∀ k ∈ (Tree.node q (2 ^ j) tl tr).keys, AgreeAbove i k p ∧ k.testBit i = q.testBit i := by
  intro k hk
  have := ht.node_agree k hk
  exact ⟨(this.mono (by omega)).trans hag, this i hij⟩

/-- the last case of `merge` / `compare`: the two prefixes differ above both branching bits -/
theorem else_case_bit {p i q j : Nat} {sl sr tl tr : Tree V} (hs : WF P (.node p (2 ^ i) sl sr))
    (ht : WF P (.node q (2 ^ j) tl tr))
    (h1 : ¬ (i = j ∧ p = q)) (h2 : ¬ (j < i ∧ AgreeAbove i q p)) (h3 : ¬ (i < j ∧ AgreeAbove j p q)) :
    ∃ b, max (i + 1) (j + 1) ≤ b ∧ p.testBit b ≠ q.testBit b := by
  obtain ⟨i', _, he, _, hap, _⟩ := hs
  have : i = i' := two_pow_inj.mp he
  subst this
  obtain ⟨j', _, he, _, haq, _⟩ := ht
  have : j = j' := two_pow_inj.mp he
  subst this
  rcases Nat.lt_trichotomy i j with hlt | heq | hgt
  · have : ¬ AgreeAbove j p q := fun h => h3 ⟨hlt, h⟩
    obtain ⟨b, hb, hne⟩ := exists_bit_of_not_agree this
    exact ⟨b, by omega, hne⟩
  · subst heq
    have : ¬ AgreeAbove i p q := fun h => h1 ⟨rfl, aligned_eq hap haq h⟩
    obtain ⟨b, hb, hne⟩ := exists_bit_of_not_agree this
    exact ⟨b, by omega, hne⟩
  · have : ¬ AgreeAbove i q p := fun h => h2 ⟨hgt, h⟩
    obtain ⟨b, hb, hne⟩ := exists_bit_of_not_agree this
    exact ⟨b, by omega, fun h => hne h.symm⟩

theorem disjoint_of_bit {p i q j : Nat} {sl sr tl tr : Tree V} (hs : WF P (.node p (2 ^ i) sl sr))
    (ht : WF P (.node q (2 ^ j) tl tr)) (hb : ∃ b, max (i + 1) (j + 1) ≤ b ∧ p.testBit b ≠ q.testBit b) :
    ∀ k, k ∈ (Tree.node p (2 ^ i) sl sr).keys → k ∉ (Tree.node q (2 ^ j) tl tr).keys := by
  obtain ⟨b, hb, hne⟩ := hb
  intro k h1 h2
  have e1 := hs.node_agree k h1 b (by omega)
  have e2 := ht.node_agree k h2 b (by omega)
  exact hne (e1.symm.trans e2)

/-- decomposition of the pointwise order along a pivot -/
theorem pwLe_split (po : POrder V) (l2r : Bool) {s t a b c d : Tree V} {p : Nat}
    (ha : ∀ k ∈ a.keys, k ≤ p) (hb : ∀ k ∈ b.keys, p < k)
    (hc : ∀ k ∈ c.keys, k ≤ p) (hd : ∀ k ∈ d.keys, p < k)
    (hs : ∀ k, s.lookup k = if k ≤ p then a.lookup k else b.lookup k)
    (ht : ∀ k, t.lookup k = if k ≤ p then c.lookup k else d.lookup k) :
    PwLe po l2r s t ↔ PwLe po l2r a c ∧ PwLe po l2r b d := by
  constructor
  · intro h
    constructor
    · intro k
      by_cases hk : k ≤ p
      · have := h k; rw [hs, ht] at this; simpa [hk] using this
      · rw [lookup_none_of_not_mem (fun hm => hk (ha k hm)), lookup_none_of_not_mem (fun hm => hk (hc k hm))]
        simp
    · intro k
      by_cases hk : k ≤ p
      · rw [lookup_none_of_not_mem (fun hm => by have := hb k hm; omega),
          lookup_none_of_not_mem (fun hm => by have := hd k hm; omega)]
        simp
      · have := h k; rw [hs, ht] at this; simpa [hk] using this
  · intro ⟨h1, h2⟩ k
    rw [hs, ht]
    by_cases hk : k ≤ p
    · simpa [hk] using h1 k
    · simpa [hk] using h2 k

theorem not_pwLe_of_disjoint (po : POrder V) (l2r : Bool) {s t : Tree V} (hs : WF P s) (ht : WF P t)
    (ns : s ≠ .empty) (nt : t ≠ .empty) (hdis : ∀ k, k ∈ s.keys → k ∉ t.keys) : ¬ PwLe po l2r s t := by
  intro h
  obtain ⟨k1, x, hx⟩ := hs.exists_binding ns
  obtain ⟨k2, y, hy⟩ := ht.exists_binding nt
  have n1 : t.lookup k1 = none := lookup_none_of_not_mem (hdis k1 (mem_keys_of_lookup hx))
  have n2 : s.lookup k2 = none := lookup_none_of_not_mem (fun hm => hdis k2 hm (mem_keys_of_lookup hy))
  have e1 := h k1
  have e2 := h k2
  rw [hx, n1, rel_some_none] at e1
  rw [hy, n2, rel_none_some] at e2
  cases l2r <;> cases hd : po.defaultIsTop <;> simp_all

theorem pwLe_swap (po : POrder V) (l2r : Bool) (s t : Tree V) : PwLe po (!l2r) t s ↔ PwLe po l2r s t := by
  unfold PwLe
  constructor <;> intro h k <;> have := h k <;> cases l2r <;> simpa [rel] using this

/-- decoding of the test `s->branching_bit() > t->branching_bit() && match_prefix(t->prefix(), ...)` -/
theorem decode_gt {p i q j : Nat} {sl sr tl tr : Tree V} (hs : WF P (.node p (2 ^ i) sl sr))
    (ht : WF P (.node q (2 ^ j) tl tr)) :
    (2 ^ i > 2 ^ j ∧ matchPrefix q p (2 ^ i) = true) ↔ (j < i ∧ AgreeAbove i q p) := by
  obtain ⟨i', hi, he, _, hap, _⟩ := hs
  have : i = i' := two_pow_inj.mp he
  subst this
  have hq := ht.pfx_lt
  simp only [Tree.pfx'] at hq
  rw [matchPrefix_iff hi hq hap]
  constructor
  · intro ⟨h1, h2⟩; exact ⟨two_pow_lt_iff.mp h1, h2⟩
  · intro ⟨h1, h2⟩; exact ⟨two_pow_lt_iff.mpr h1, h2⟩

theorem decode_eq {p i q j : Nat} : (2 ^ i = 2 ^ j ∧ p = q) ↔ (i = j ∧ p = q) := by
  rw [two_pow_inj]

section
variable (po : POrder V) (l2r : Bool) {p i q j : Nat} {sl sr tl tr : Tree V}

theorem pwLe_same (hs : WF P (.node p (2 ^ i) sl sr)) (ht : WF P (.node p (2 ^ i) tl tr)) :
    PwLe po l2r (.node p (2 ^ i) sl sr) (.node p (2 ^ i) tl tr) ↔ PwLe po l2r sl tl ∧ PwLe po l2r sr tr :=
  pwLe_split po l2r hs.left_le hs.right_gt ht.left_le ht.right_gt (fun _ => rfl) (fun _ => rfl)

theorem node_ne_of_WF (hs : WF P (.node p (2 ^ i) sl sr)) : sl ≠ .empty ∧ sr ≠ .empty ∧ WF P sl ∧ WF P sr := by
  obtain ⟨_, _, _, _, _, h1, h2, h3, h4, _⟩ := hs
  exact ⟨h1, h2, h3, h4⟩

theorem aligned_of_WF (hs : WF P (.node p (2 ^ i) sl sr)) : Aligned i p ∧ i < 64 ∧ p < 2 ^ 64 := by
  obtain ⟨i', hi, he, hp, hap, _⟩ := hs
  have : i = i' := two_pow_inj.mp he
  subst this
  exact ⟨hap, hi, hp⟩

theorem pwLe_gt_left (hs : WF P (.node p (2 ^ i) sl sr)) (ht : WF P (.node q (2 ^ j) tl tr))
    (hji : j < i) (hag : AgreeAbove i q p) (hb : q.testBit i = false) :
    PwLe po l2r (.node p (2 ^ i) sl sr) (.node q (2 ^ j) tl tr) ↔
      PwLe po l2r sl (.node q (2 ^ j) tl tr) ∧ (if l2r then po.defaultIsTop else !po.defaultIsTop) = true := by
  have hal := (aligned_of_WF hs).1
  have hk : ∀ k ∈ (Tree.node q (2 ^ j) tl tr).keys, k ≤ p := fun k hk =>
    le_of_InL hal ⟨(keys_inside ht hji hag k hk).1, by rw [(keys_inside ht hji hag k hk).2, hb]⟩
  obtain ⟨_, n2, _, w2⟩ := node_ne_of_WF hs
  rw [pwLe_split po l2r (a := sl) (b := sr) (c := .node q (2 ^ j) tl tr) (d := .empty) hs.left_le hs.right_gt hk
    (by simp) (fun _ => rfl)
    (fun k => by
      split
      · rfl
      · rename_i h; exact lookup_none_of_not_mem (fun hm => h (hk k hm))),
    pwLe_empty_right po l2r w2 n2]

theorem pwLe_gt_right (hs : WF P (.node p (2 ^ i) sl sr)) (ht : WF P (.node q (2 ^ j) tl tr))
    (hji : j < i) (hag : AgreeAbove i q p) (hb : q.testBit i = true) :
    PwLe po l2r (.node p (2 ^ i) sl sr) (.node q (2 ^ j) tl tr) ↔
      (if l2r then po.defaultIsTop else !po.defaultIsTop) = true ∧ PwLe po l2r sr (.node q (2 ^ j) tl tr) := by
  have hal := (aligned_of_WF hs).1
  have hk : ∀ k ∈ (Tree.node q (2 ^ j) tl tr).keys, p < k := fun k hk =>
    lt_of_InR hal ⟨(keys_inside ht hji hag k hk).1, by rw [(keys_inside ht hji hag k hk).2, hb]⟩
  obtain ⟨n1, _, w1, _⟩ := node_ne_of_WF hs
  rw [pwLe_split po l2r (a := sl) (b := sr) (c := .empty) (d := .node q (2 ^ j) tl tr) hs.left_le hs.right_gt
    (by simp) hk (fun _ => rfl)
    (fun k => by
      split
      · rename_i h; exact lookup_none_of_not_mem (fun hm => by have := hk k hm; omega)
      · rfl),
    pwLe_empty_right po l2r w1 n1]

theorem pwLe_lt_left (hs : WF P (.node p (2 ^ i) sl sr)) (ht : WF P (.node q (2 ^ j) tl tr))
    (hij : i < j) (hag : AgreeAbove j p q) (hb : p.testBit j = false) :
    PwLe po l2r (.node p (2 ^ i) sl sr) (.node q (2 ^ j) tl tr) ↔
      PwLe po l2r (.node p (2 ^ i) sl sr) tl ∧ (if l2r then !po.defaultIsTop else po.defaultIsTop) = true := by
  have hal := (aligned_of_WF ht).1
  have hk : ∀ k ∈ (Tree.node p (2 ^ i) sl sr).keys, k ≤ q := fun k hk =>
    le_of_InL hal ⟨(keys_inside hs hij hag k hk).1, by rw [(keys_inside hs hij hag k hk).2, hb]⟩
  obtain ⟨_, n2, _, w2⟩ := node_ne_of_WF ht
  rw [pwLe_split po l2r (a := .node p (2 ^ i) sl sr) (b := .empty) (c := tl) (d := tr) hk (by simp)
    ht.left_le ht.right_gt
    (fun k => by
      split
      · rfl
      · rename_i h; exact lookup_none_of_not_mem (fun hm => h (hk k hm)))
    (fun _ => rfl),
    pwLe_empty_left po l2r w2 n2]

theorem pwLe_lt_right (hs : WF P (.node p (2 ^ i) sl sr)) (ht : WF P (.node q (2 ^ j) tl tr))
    (hij : i < j) (hag : AgreeAbove j p q) (hb : p.testBit j = true) :
    PwLe po l2r (.node p (2 ^ i) sl sr) (.node q (2 ^ j) tl tr) ↔
      (if l2r then !po.defaultIsTop else po.defaultIsTop) = true ∧ PwLe po l2r (.node p (2 ^ i) sl sr) tr := by
  have hal := (aligned_of_WF ht).1
  have hk : ∀ k ∈ (Tree.node p (2 ^ i) sl sr).keys, q < k := fun k hk =>
    lt_of_InR hal ⟨(keys_inside hs hij hag k hk).1, by rw [(keys_inside hs hij hag k hk).2, hb]⟩
  obtain ⟨n1, _, w1, _⟩ := node_ne_of_WF ht
  rw [pwLe_split po l2r (a := .empty) (b := .node p (2 ^ i) sl sr) (c := tl) (d := tr) (by simp) hk
    ht.left_le ht.right_gt
    (fun k => by
      split
      · rename_i h; exact lookup_none_of_not_mem (fun hm => by have := hk k hm; omega)
      · rfl)
    (fun _ => rfl),
    pwLe_empty_left po l2r w1 n1]

end

/-- a WF node has a power of two as branching bit -/
theorem WF.bb_pow {p m : Nat} {l r : Tree V} (h : WF P (.node p m l r)) : ∃ i, m = 2 ^ i := by
  obtain ⟨i, _, he, _⟩ := h; exact ⟨i, he⟩

/-- **the repaired `compare` is the pointwise order** (both directions of use, both kinds of
    default), for every sound pointer-equality oracle -/
theorem compare_fixed_iff {c : Ctx V} (hc : c.SoundOn P) (po : POrder V)
    (hrefl : ∀ x, P x → po.leq x x = true) (l2r : Bool) (s t : Tree V) (hs : WF P s) (ht : WF P t) :
    compare true c po l2r s t = true ↔ PwLe po l2r s t := by
  fun_induction compare true c po l2r s t with
  | case1 => simp [PwLe]
  | case2 x hx =>
    rw [pwLe_empty_left po l2r ht (fun h => hx h)]
    cases l2r <;> cases po.defaultIsTop <;> simp
  | case3 k v =>
    rw [pwLe_empty_right po l2r hs (by simp)]
    cases l2r <;> cases po.defaultIsTop <;> simp
  | case4 p m l r =>
    rw [pwLe_empty_right po l2r hs (by simp)]
    cases l2r <;> cases po.defaultIsTop <;> simp
  | case5 ks vs kt vt h =>
    rw [hc.1 _ _ h]; simp only [true_iff]; exact pwLe_refl po l2r hrefl ht
  | case6 ks vs kt vt h => exact compareLeaf_spec po l2r ht (by simp)
  | case7 ks vs q n tl tr h =>
    rw [hc.1 _ _ h]; simp only [true_iff]; exact pwLe_refl po l2r hrefl ht
  | case8 ks vs q n tl tr h => exact compareLeaf_spec po l2r ht (by simp)
  | case9 p m sl sr kt vt h =>
    rw [hc.1 _ _ h]; simp only [true_iff]; exact pwLe_refl po l2r hrefl ht
  | case10 p m sl sr kt vt h1 h2 =>
    rw [hc.1 _ _ h2]; simp only [true_iff]; exact pwLe_refl po l2r hrefl hs
  | case11 p m sl sr kt vt h1 h2 =>
    rw [compareLeaf_spec po (!l2r) hs (by simp), pwLe_swap]
  | case12 p m sl sr q n tl tr h =>
    rw [hc.1 _ _ h]; simp only [true_iff]; exact pwLe_refl po l2r hrefl ht
  | case13 p m sl sr q n tl tr h hpq ih2 ih1 =>
    obtain ⟨rfl, rfl⟩ := hpq
    obtain ⟨i, rfl⟩ := hs.bb_pow
    obtain ⟨_, _, w1, w2⟩ := node_ne_of_WF hs
    obtain ⟨_, _, w3, w4⟩ := node_ne_of_WF ht
    rw [pwLe_same po l2r hs ht, Bool.and_eq_true, ih2 w1 w3, ih1 w2 w4]
  | case14 p m sl sr q n tl tr h hne hgt hdir =>
    obtain ⟨i, rfl⟩ := hs.bb_pow
    obtain ⟨j, rfl⟩ := ht.bb_pow
    obtain ⟨hji, hag⟩ := (decode_gt hs ht).mp hgt
    have hno : ¬ ((if l2r then po.defaultIsTop else !po.defaultIsTop) = true) := by
      cases l2r <;> cases hd : po.defaultIsTop <;> simp_all
    simp only [Bool.false_eq_true, false_iff]
    cases hb : q.testBit i
    · rw [pwLe_gt_left po l2r hs ht hji hag hb]; exact fun h => hno h.2
    · rw [pwLe_gt_right po l2r hs ht hji hag hb]; exact fun h => hno h.1
  | case15 p m sl sr q n tl tr h hne hgt hdir hz ih =>
    obtain ⟨i, rfl⟩ := hs.bb_pow
    obtain ⟨j, rfl⟩ := ht.bb_pow
    obtain ⟨hji, hag⟩ := (decode_gt hs ht).mp hgt
    have hyes : (if l2r then po.defaultIsTop else !po.defaultIsTop) = true := by
      cases l2r <;> cases hd : po.defaultIsTop <;> simp_all
    have hb : q.testBit i = false := by rw [zeroBit_two_pow] at hz; simpa using hz
    rw [pwLe_gt_left po l2r hs ht hji hag hb, ih (node_ne_of_WF hs).2.2.1 ht]
    simp [hyes]
  | case16 p m sl sr q n tl tr h hne hgt hdir hz ih =>
    obtain ⟨i, rfl⟩ := hs.bb_pow
    obtain ⟨j, rfl⟩ := ht.bb_pow
    obtain ⟨hji, hag⟩ := (decode_gt hs ht).mp hgt
    have hyes : (if l2r then po.defaultIsTop else !po.defaultIsTop) = true := by
      cases l2r <;> cases hd : po.defaultIsTop <;> simp_all
    have hb : q.testBit i = true := by rw [zeroBit_two_pow] at hz; simpa using hz
    rw [pwLe_gt_right po l2r hs ht hji hag hb, ih (node_ne_of_WF hs).2.2.2 ht]
    simp [hyes]
  | case17 p m sl sr q n tl tr h hne hngt hlt hdir =>
    obtain ⟨i, rfl⟩ := hs.bb_pow
    obtain ⟨j, rfl⟩ := ht.bb_pow
    obtain ⟨hij, hag⟩ := (decode_gt ht hs).mp hlt
    have hno : ¬ ((if l2r then !po.defaultIsTop else po.defaultIsTop) = true) := by
      cases l2r <;> cases hd : po.defaultIsTop <;> simp_all
    simp only [Bool.false_eq_true, false_iff]
    cases hb : p.testBit j
    · rw [pwLe_lt_left po l2r hs ht hij hag hb]; exact fun h => hno h.2
    · rw [pwLe_lt_right po l2r hs ht hij hag hb]; exact fun h => hno h.1
  | case18 p m sl sr q n tl tr h hne hngt hlt hdir hz ih =>
    obtain ⟨i, rfl⟩ := hs.bb_pow
    obtain ⟨j, rfl⟩ := ht.bb_pow
    obtain ⟨hij, hag⟩ := (decode_gt ht hs).mp hlt
    have hyes : (if l2r then !po.defaultIsTop else po.defaultIsTop) = true := by
      cases l2r <;> cases hd : po.defaultIsTop <;> simp_all
    have hb : p.testBit j = false := by rw [zeroBit_two_pow] at hz; simpa using hz
    rw [pwLe_lt_left po l2r hs ht hij hag hb, ih hs (node_ne_of_WF ht).2.2.1]
    simp [hyes]
  | case19 p m sl sr q n tl tr h hne hngt hlt hdir hz ih =>
    obtain ⟨i, rfl⟩ := hs.bb_pow
    obtain ⟨j, rfl⟩ := ht.bb_pow
    obtain ⟨hij, hag⟩ := (decode_gt ht hs).mp hlt
    have hyes : (if l2r then !po.defaultIsTop else po.defaultIsTop) = true := by
      cases l2r <;> cases hd : po.defaultIsTop <;> simp_all
    have hb : p.testBit j = true := by rw [zeroBit_two_pow] at hz; simpa using hz
    rw [pwLe_lt_right po l2r hs ht hij hag hb, ih hs (node_ne_of_WF ht).2.2.2]
    simp [hyes]
  | case20 p m sl sr q n tl tr h hne hngt hnlt =>
    obtain ⟨i, rfl⟩ := hs.bb_pow
    obtain ⟨j, rfl⟩ := ht.bb_pow
    simp only [Bool.false_eq_true, false_iff]
    have hbit := else_case_bit hs ht (fun h => hne (decode_eq.mpr h))
      (fun h => hngt ((decode_gt hs ht).mpr h)) (fun h => hnlt ((decode_gt ht hs).mpr h))
    exact not_pwLe_of_disjoint po l2r hs ht (by simp) (by simp) (disjoint_of_bit hs ht hbit)

/-! ### the code as it is (`fixedLeafLeaf = false`) versus the repaired test -/

theorem compareLeaf_mono (po : POrder V) (l2r : Bool) (ks : Nat) (vs : V) (t : Tree V)
    (h : compareLeaf true po l2r ks vs t = true) : compareLeaf false po l2r ks vs t = true := by
  unfold compareLeaf at h ⊢
  generalize po.defaultIsTop = d at h ⊢
  generalize t.isLeaf = lf at h ⊢
  generalize t.lookup ks = f at h ⊢
  cases l2r <;> cases d <;> cases lf <;> cases f <;> simp_all

/-- unfold `compare` on constructor arguments and follow the branch fixed by the hypotheses -/
macro "cmp_unfold" : tactic =>
  `(tactic| (simp only [Patricia.compare]; repeat' (split <;> try contradiction)))

/-- the current code never answers no where the repaired code answers yes -/
theorem compare_mono (c : Ctx V) (po : POrder V) (l2r : Bool) (s t : Tree V)
    (h : Patricia.compare true c po l2r s t = true) : Patricia.compare false c po l2r s t = true := by
  fun_induction Patricia.compare true c po l2r s t <;> cmp_unfold <;>
    first
      | rfl
      | exact h
      | exact compareLeaf_mono _ _ _ _ _ h
      | (cases h; done)
      | (simp only [Bool.and_eq_true] at h ⊢; rename_i ih2 ih1 _; exact ⟨ih2 h.1, ih1 h.2⟩)
      | solve_by_elim

theorem compareLeaf_eq_of_node (po : POrder V) (ks : Nat) (vs : V) (t : Tree V)
    (ht : t.isLeaf = false) (l2r : Bool) :
    compareLeaf false po l2r ks vs t = compareLeaf true po l2r ks vs t := by
  unfold compareLeaf
  generalize po.defaultIsTop = d
  generalize t.lookup ks = f
  cases l2r <;> cases d <;> cases f <;> simp [ht]

theorem compareLeaf_eq_of_bot (po : POrder V) (hd : po.defaultIsTop = false) (ks : Nat) (vs : V) (t : Tree V) :
    compareLeaf false po true ks vs t = compareLeaf true po true ks vs t := by
  unfold compareLeaf
  generalize t.lookup ks = f
  cases f <;> simp [hd]

/-- when the default is the bottom of the order (sets), the defect of the leaf/leaf test is
    not reachable from `patricia_tree::leq`: the two versions coincide on all trees -/
theorem compare_eq_of_bot (c : Ctx V) (po : POrder V) (hd : po.defaultIsTop = false) (s t : Tree V) :
    Patricia.compare false c po true s t = Patricia.compare true c po true s t := by
  fun_induction Patricia.compare true c po true s t <;> cmp_unfold <;>
    first
      | rfl
      | exact compareLeaf_eq_of_bot po hd _ _ _
      | exact compareLeaf_eq_of_node po _ _ _ rfl _
      | (rename_i ih2 ih1 _; rw [ih2, ih1]; done)
      | assumption

end Patricia
end Crab
