import CrabProofs.Lemmas.WtoStepG

/-! Root pop, case "cycle", second half: after `component` has returned. -/
namespace Crab
namespace Wto

section
variable {g : Graph} {K : Nat → Prop} {st0 : St} {part0 : List WtoC} {v : Nat}
  {p : GF} {gs : List GF} {ln : List Nat} {part : List WtoC} {st : St} {W : List WtoC}

/-- every node of the segment above the root has been placed in the body of the cycle -/
theorem Inv.above_sub_body (h : Inv g K st0 part0 v (p :: gs) ln part st W) (hK : ClosedK g K st0)
    {stack2 : List Nat} {body : List WtoC} {st3 : St}
    (hP : Placed g (fun x => x ∈ p.above) (rootState st p stack2) body st3)
    (hsucc : ∀ s ∈ g.succ p.f.node, getDfn (rootState st p stack2).dfn s = .fin 0 → s ∈ flattenL body) :
    ∀ x ∈ p.above, x ∈ flattenL body := by
  have hfree : ∀ x ∈ p.above, getDfn (rootState st p stack2).dfn x = .fin 0 := by
    intro x hx; rw [getDfn_rootState h hK, if_pos hx]
  have main : ∀ n, ∀ x ∈ p.above, dn st.dfn x = n → x ∈ flattenL body := by
    intro n
    induction n using Nat.strongRecOn with
    | _ n ih =>
      intro x hx hn
      obtain ⟨q, hq, hlt, hxq⟩ := h.top_frame.parent x hx
      simp only [GF.seg, List.mem_append, List.mem_singleton] at hq
      rcases hq with hq | hq
      · have hqb := ih (dn st.dfn q) (by omega) q hq rfl
        rcases hP.W_edges q hqb x hxq with hd | hd
        · rw [hfree x hx] at hd; cases hd
        · exact hd.mem_right
      · subst hq
        exact hsucc x hxq (hfree x hx)
  exact fun x hx => main _ x hx rfl

theorem Inv.step_cycle (h : Inv g K st0 part0 v (p :: gs) ln part st W) (hK : ClosedK g K st0)
    (hs : p.f.succs = []) (hroot : p.f.min = dn st.dfn p.f.node)
    {body : List WtoC} {st3 : St}
    (hP : Placed g (fun x => x ∈ p.above) (rootState st p (stk gs ++ st0.stack)) body st3)
    (hsucc : ∀ s ∈ g.succ p.f.node,
      getDfn (rootState st p (stk gs ++ st0.stack)).dfn s = .fin 0 → s ∈ flattenL body) :
    Inv g K st0 part0 v gs ln (.cycle p.f.node body :: part) st3 (.cycle p.f.node body :: W) := by
  have hab := h.above_sub_body hK hP hsucc
  have hba : ∀ x ∈ flattenL body, x ∈ p.above := fun x hx => (hP.W_K x hx).1
  have hnb : p.f.node ∉ flattenL body := fun hx => h.node_not_above (hba _ hx)
  have hnW : p.f.node ∉ flattenL W := fun hw => h.disj _ hw h.node_mem_stk
  have habS : ∀ x ∈ p.above, x ∈ stk (p :: gs) := fun x hx => mem_stk_of_mem (by simp) (above_sub_seg hx)
  have hbW : ∀ x ∈ flattenL body, x ∉ flattenL W := fun x hx hw => h.disj x hw (habS x (hba x hx))
  have hfl : flattenL (WtoC.cycle p.f.node body :: W) = p.f.node :: (flattenL body ++ flattenL W) := by
    simp [flattenL, flattenC]
  have hr := getDfn_rootState h hK (stk gs ++ st0.stack)
  have hcl := h.root_closed hs hroot
  apply h.pop_root
  · rw [h.part_eq]; rfl
  · rw [hP.stack_eq]; rfl
  · rw [hP.size_eq]; simp [rootState]
  · exact hP.num_ge
  · intro x
    rw [hfl]
    simp only [List.mem_cons, List.mem_append, GF.seg, List.not_mem_nil, or_false]
    constructor
    · rintro (h1 | h1 | h1)
      · exact Or.inl (Or.inr h1)
      · exact Or.inl (Or.inl (hba x h1))
      · exact Or.inr h1
    · rintro ((h1 | h1) | h1)
      · exact Or.inr (Or.inl (hab x h1))
      · exact Or.inl h1
      · exact Or.inr (Or.inr h1)
  · rw [hfl, List.nodup_cons, List.nodup_append]
    refine ⟨?_, hP.W_nodup, h.W_nodup, ?_⟩
    · simp only [List.mem_append, not_or]; exact ⟨hnb, hnW⟩
    · intro a ha b hb e
      subst e
      exact hbW a ha hb
  · intro x hx
    rw [hfl] at hx
    simp only [List.mem_cons, List.mem_append] at hx
    by_cases hxb : x ∈ flattenL body
    · exact hP.dfn_W x hxb
    · rw [hP.dfn_other x hxb, hr]
      have hxa : x ∉ p.above := fun hxa => hxb (hab x hxa)
      rw [if_neg hxa]
      rcases hx with h1 | h1 | h1
      · rw [if_pos h1]
      · exact absurd h1 hxb
      · by_cases hxn : x = p.f.node
        · rw [if_pos hxn]
        · rw [if_neg hxn]; exact h.dfn_W x h1
  · intro x hx
    rw [hfl] at hx
    simp only [List.mem_cons, List.mem_append, not_or] at hx
    rw [hP.dfn_other x hx.2.1, hr, if_neg (fun hxa => hx.2.1 (hab x hxa)), if_neg hx.1]
  · -- edges
    have hW' : WtoC.cycle p.f.node body :: W = [WtoC.cycle p.f.node body] ++ W := rfl
    have hflc : flattenL [WtoC.cycle p.f.node body] = p.f.node :: flattenL body := by
      simp [flattenL, flattenC]
    -- an edge from the cycle to a node placed before this call or in `W`, or inside the segment
    have hseg_edge : ∀ x, x ∈ p.f.node :: flattenL body → ∀ y, (DoneNow st0 W y ∨ y ∈ p.seg) →
        (y ∈ p.above → EdgeOK [WtoC.cycle p.f.node body] x y) →
        getDfn st0.dfn y = .inf ∨ EdgeOK (WtoC.cycle p.f.node body :: W) x y := by
      intro x hx y hy hin
      rcases hy with (hd | hd) | hd
      · right; rw [hW']
        exact EdgeOK.cross (by rw [hflc]; exact hx) hd
      · exact Or.inl hd
      · simp only [GF.seg, List.mem_append, List.mem_singleton] at hd
        rcases hd with hd | hd
        · right; rw [hW']; exact (hin hd).append_right W
        · subst hd
          right; rw [hW']
          exact (EdgeOK.to_head hx).append_right W
    intro x hx y hy
    rw [hfl] at hx
    simp only [List.mem_cons, List.mem_append] at hx
    rcases hx with hx | hx | hx
    · subst hx
      apply hseg_edge p.f.node (by simp) y (hcl _ (node_mem_seg p) y hy)
      intro hya
      exact EdgeOK.from_head (hab y hya)
    · have hxa := hba x hx
      apply hseg_edge x (List.mem_cons_of_mem _ hx) y (hcl x (above_sub_seg hxa) y hy)
      intro hya
      rcases hP.W_edges x hx y hy with hd | hd
      · rw [hr, if_pos hya] at hd; cases hd
      · exact hd.in_cycle p.f.node
    · rcases h.W_edges x hx y hy with hd | hd
      · exact Or.inl hd
      · right; rw [hW']; exact hd.append_left _
end

end Wto
end Crab
