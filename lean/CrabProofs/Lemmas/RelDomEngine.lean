import CrabProofs.Lemmas.RelDomZones
import CrabProofs.Lemmas.RelDomOct2
import CrabModel.Fix.Semantics

/-!
  * exact tests and least join on octagon values (`OVal`) under the coherence invariant;
  * the contract of the fixpoint engine (`Crab.Fix.Sem`) for a relational domain given by its
    per-operation soundness laws (`RelDom.EngDom`: the analogue of `XDom.EngDom` for an arbitrary
    state space and statement language), instantiated for zones (`Zones.eng`, any sound reading
    `ew` of the right operand of the widening: split_dbm / sparse_dbm) and octagons (`Octagon.eng`);
  * the measures that make the widenings of the two engines stabilise.
-/
namespace Crab

namespace Octagon
open Dbm
variable {n : Nat}

namespace OVal

theorem exec_exact (st : Stmt n) (v : OVal n) (hco : Coh v) (σ' : State n) :
    γv (exec st v) σ' ↔ ∃ σ, γv v σ ∧ st.rel σ σ' := by
  cases v with
  | none => simp [exec, γv]
  | some o => exact Stmt.exec_exact st o hco σ'

theorem isBottom_iff (v : OVal n) (hco : Coh v) : isBottom v = true ↔ ∀ σ, ¬ γv v σ := by
  cases v with
  | none => simp [isBottom, γv]
  | some o => exact Octagon.isBottom_iff o hco

theorem isTop_iff (v : OVal n) : isTop v = true ↔ ∀ σ, γv v σ := by
  cases v with
  | none => exact ⟨fun h => (by cases h), fun h => (h (fun _ => 0)).elim⟩
  | some o => exact Octagon.isTop_iff o

theorem leq_iff (a b : OVal n) (hca : Coh a) : leq a b = true ↔ ∀ σ, γv a σ → γv b σ := by
  cases a with
  | none => simp [leq, γv]
  | some x =>
    cases b with
    | none => simp only [leq, γv]; rw [Octagon.isBottom_iff x hca]
    | some y => exact Octagon.leq_iff x y hca

theorem join_least (a b c : OVal n) (hca : Coh a) (hcb : Coh b)
    (ha : ∀ σ, γv a σ → γv c σ) (hb : ∀ σ, γv b σ → γv c σ)
    (σ : State n) (h : γv (join a b) σ) : γv c σ := by
  cases a with
  | none => exact hb σ (by simpa [join] using h)
  | some x =>
    cases b with
    | none => exact ha σ h
    | some y =>
      cases c with
      | none =>
        have hx := (Octagon.isBottom_iff x hca).2 (fun τ hτ => ha τ hτ)
        have : join (some x) (some y) = some y := by simp [join, Octagon.join, hx]
        rw [this] at h; exact hb σ h
      | some w => exact Octagon.join_least x y w hca hcb ha hb σ h

end OVal

/-- a failing inclusion test exhibits an entry of the right operand that the tight closure of the
    left one does not reach -/
theorem leq_false {a b : Oct n} (h : leq a b = false) :
    isBottom a = false ∧ ∃ i j, W.le ((close a).get i j) (b.get i j) = false := by
  unfold leq at h
  rw [Bool.or_eq_false_iff] at h
  refine ⟨h.1, ?_⟩
  apply Classical.byContradiction
  intro hne
  have : ((List.finRange (2 * n)).all fun i => (List.finRange (2 * n)).all fun j =>
      W.le ((close a).get i j) (b.get i j)) = true := by
    simp only [List.all_eq_true]
    intro i _ j _
    cases hl : W.le ((close a).get i j) (b.get i j)
    · exact absurd ⟨i, j, hl⟩ hne
    · rfl
  rw [this] at h; exact absurd h.2 (by simp)

/-- the measure of an octagon value: bottom flag above every matrix; number of finite entries -/
def omeas : OVal n → Nat × Nat
  | none => (1, 0)
  | some o => (0, Zones.edges o)

/-- a strict step of the octagon widening lowers the measure -/
theorem omeas_widen_lt (x y : OVal n) (h : OVal.leq y x = false) :
    Prod.Lex (· < ·) (· < ·) (omeas (OVal.widen x y)) (omeas x) := by
  cases x with
  | none =>
    cases y with
    | none => simp [OVal.leq] at h
    | some r => exact Prod.Lex.left _ _ (by decide)
  | some l =>
    cases y with
    | none => simp [OVal.leq] at h
    | some r =>
      obtain ⟨hb, i, j, hij⟩ := leq_false (a := r) (b := l) h
      simp only [OVal.widen, hb, Bool.false_eq_true, if_false]
      exact Prod.Lex.right _ (Mat.edges_widenStd_lt hij)

end Octagon

namespace Zones
open Dbm
variable {n : Nat}

/-- a strict step (w.r.t. the EXACT inclusion test of the canonical model) of the widening of the
    code lowers (bottom flag, number of edges): either an edge of the left operand is not covered
    by the right one, or the left operand has a self loop (which the widening never keeps) -/
theorem zmeas_widenE_lt_canon {ew : Zone n → Fin (n + 1) → Fin (n + 1) → W} (hew : SoundEw ew)
    (x y : ZVal n) (h : ZVal.leq y x = false) :
    Prod.Lex (· < ·) (· < ·) (zmeas (widenE ew x y)) (zmeas x) := by
  cases x with
  | none =>
    cases y with
    | none => simp [ZVal.leq] at h
    | some r => exact Prod.Lex.left _ _ (by decide)
  | some l =>
    cases y with
    | none => simp [ZVal.leq] at h
    | some r =>
      apply Prod.Lex.right
      show edges (widenBy (ew r) l) < edges l
      cases hq : leqBy (ew r) l
      · exact edges_widenBy_lt hq
      · by_cases hl : NoSelfLoop l
        · have : Zones.leq r l = true :=
            (leq_iff r l).2 (fun σ hσ => leqBy_sat hl hq _ (hew r _ hσ))
          simp only [ZVal.leq] at h
          rw [this] at h; cases h
        · have hex : ∃ i, (l.get i i).isSome = true := by
            apply Classical.byContradiction
            intro hne
            apply hl
            intro i
            cases hg : l.get i i with
            | none => rfl
            | some k => exact absurd ⟨i, by rw [hg]; rfl⟩ hne
          obtain ⟨i, hi⟩ := hex
          unfold edges
          apply countP_lt_of_imp _ _ _ _ (i, i) (mem_allPairs i i) hi
          · simp
          · intro p hp
            cases hg : (widenBy (ew r) l).get p.1 p.2 with
            | none => rw [hg] at hp; cases hp
            | some k => rw [(widenBy_some hg).2.1]; rfl

end Zones

/-! ### the engine contract -/
namespace RelDom

/-- a domain as the engine sees it: values with a concretisation over the state space `S`, the
    lattice operations, a statement language with its concrete relation and a sound execution -/
structure EngDom (S : Type) where
  A : Type
  γ : A → S → Prop
  ops : Fix.Ops A
  Stmt : Type
  rel : Stmt → S → S → Prop
  exec : Stmt → A → A
  exec_sound : ∀ st a s s', γ a s → rel st s s' → γ (exec st a) s'
  join_left : ∀ a b s, γ a s → γ (ops.join a b) s
  join_right : ∀ a b s, γ b s → γ (ops.join a b) s
  widen_left : ∀ a b s, γ a s → γ (ops.widen a b) s
  widen_right : ∀ a b s, γ b s → γ (ops.widen a b) s
  meet_sound : ∀ a b s, γ a s → γ b s → γ (ops.meet a b) s
  narrow_sound : ∀ a b s, γ a s → γ b s → γ (ops.narrow a b) s
  leq_sound : ∀ a b s, ops.leq a b = true → γ a s → γ b s

namespace EngDom
variable {S : Type} (D : EngDom S)

/-- the block transformer: the statements of the block in order -/
def execBlock (b : List D.Stmt) (a : D.A) : D.A := b.foldl (fun a st => D.exec st a) a

/-- the composition of the relations of the statements -/
def BlockRel : List D.Stmt → S → S → Prop
  | [], s, s' => s' = s
  | st :: rest, s, s' => ∃ t, D.rel st s t ∧ BlockRel rest t s'

theorem execBlock_sound : ∀ (b : List D.Stmt) (a : D.A) (s s' : S),
    D.γ a s → D.BlockRel b s s' → D.γ (D.execBlock b a) s' := by
  intro b
  induction b with
  | nil => intro a s s' hg hr; simp only [BlockRel] at hr; subst hr; exact hg
  | cons st rest ih =>
    intro a s s' hg hr
    obtain ⟨t, h1, h2⟩ := hr
    simp only [execBlock, List.foldl_cons]
    exact ih _ t s' (D.exec_sound st a s t hg h1) h2

/-- a context of the iterator whose value type is the domain and whose block transformers are
    blocks of statements -/
def mkCtx (prog : Nat → List D.Stmt) (preds : Nat → List Nat) (nesting : Nat → Option (List Nat))
    (entry : Nat) (init : D.A) (assumptions : Option (List (Nat × D.A))) (delay descending : Nat) :
    Fix.Ctx D.A :=
  { ops := D.ops, analyze := fun n a => D.execBlock (prog n) a, preds := preds, nesting := nesting,
    entry := entry, init := init, assumptions := assumptions, delay := delay, descending := descending }

/-- the soundness contract `Crab.Fix.Sem` holds -/
def sem (prog : Nat → List D.Stmt) (preds : Nat → List Nat) (nesting : Nat → Option (List Nat))
    (entry : Nat) (init : D.A) (assumptions : Option (List (Nat × D.A))) (delay descending : Nat) :
    Fix.Sem (D.mkCtx prog preds nesting entry init assumptions delay descending) S where
  γ := D.γ
  step := fun n s s' => D.BlockRel (prog n) s s'
  analyze_sound := fun n a s s' hg hr => D.execBlock_sound (prog n) a s s' hg hr
  join_left := D.join_left
  join_right := D.join_right
  widen_left := D.widen_left
  widen_right := D.widen_right
  meet_sound := D.meet_sound
  narrow_sound := D.narrow_sound
  leq_sound := D.leq_sound

end EngDom
end RelDom

/-- zones: values `ZVal n`, the exact inclusion test, join and meet of the canonical model, the
    widening of the code for a sound reading `ew` of its right operand, narrowing = meet -/
def Zones.eng (n : Nat) (ew : Zones.Zone n → Fin (n + 1) → Fin (n + 1) → Dbm.W) (hew : Zones.SoundEw ew) :
    RelDom.EngDom (Zones.State n) where
  A := Zones.ZVal n
  γ := Zones.γv
  ops := Zones.ZVal.ops ew
  Stmt := Zones.Stmt n
  rel := Zones.Stmt.rel
  exec := Zones.ZVal.exec
  exec_sound := fun st a s s' hg hr => (Zones.ZVal.exec_exact st a s').2 ⟨s, hg, hr⟩
  join_left := fun a b s h => Zones.ZVal.join_upper a b s (Or.inl h)
  join_right := fun a b s h => Zones.ZVal.join_upper a b s (Or.inr h)
  widen_left := fun a b s h => (Zones.widenE_upper hew a b s).1 h
  widen_right := fun a b s h => (Zones.widenE_upper hew a b s).2 h
  meet_sound := fun a b s h1 h2 => (Zones.ZVal.meet_exact a b s).2 ⟨h1, h2⟩
  narrow_sound := fun a b s h1 h2 => (Zones.ZVal.meet_exact a b s).2 ⟨h1, h2⟩
  leq_sound := fun a b s h hg => (Zones.ZVal.leq_iff a b).1 h s hg

/-- `split_dbm_domain`'s widening -/
def Zones.splitEng (n : Nat) : RelDom.EngDom (Zones.State n) := Zones.eng n Zones.splitEw Zones.splitEw_soundEw
/-- `sparse_dbm_domain`'s widening -/
def Zones.sparseEng (n : Nat) : RelDom.EngDom (Zones.State n) := Zones.eng n Zones.sparseEw Zones.sparseEw_soundEw

/-- octagons: values `OVal n`, the operations of the canonical model, the textbook widening -/
def Octagon.eng (n : Nat) : RelDom.EngDom (Octagon.State n) where
  A := Octagon.OVal n
  γ := Octagon.γv
  ops := Octagon.OVal.ops
  Stmt := Octagon.Stmt n
  rel := Octagon.Stmt.rel
  exec := Octagon.OVal.exec
  exec_sound := fun st a s s' hg hr => Octagon.OVal.exec_sound st a s s' hg hr
  join_left := fun a b s h => Octagon.OVal.join_upper a b s (Or.inl h)
  join_right := fun a b s h => Octagon.OVal.join_upper a b s (Or.inr h)
  widen_left := fun a b s h => Octagon.OVal.widen_upper a b s (Or.inl h)
  widen_right := fun a b s h => Octagon.OVal.widen_upper a b s (Or.inr h)
  meet_sound := fun a b s h1 h2 => (Octagon.OVal.meet_exact a b s).2 ⟨h1, h2⟩
  narrow_sound := fun a b s h1 h2 => (Octagon.OVal.meet_exact a b s).2 ⟨h1, h2⟩
  leq_sound := fun a b s h hg => Octagon.OVal.leq_sound a b h s hg

end Crab
