import CrabModel.Fix.Semantics

/-!
# Local collecting semantics of a region of the control-flow graph (C01 soundness proof)

`LPre c sem C E n s` : the least solution of the flow equations *restricted to the blocks of
`C`*, where the states leaving a block `p ∉ C` are given by `E p` ("external posts").
The soundness proof of the iterator never argues with abstract post-fixpoints (transformers
need not be monotone, and the descending phase destroys post-fixpoint-ness); it shows that the
least solution of each component is contained in the concretisation of the tables.

The lemmas of this file do not mention the iterator functions, only table states.
-/
namespace Crab
namespace Fix
namespace Sound

variable {A S : Type}

/-- least solution of the region `C` with externals `E` (states arriving at `n`) -/
inductive LPre (c : Ctx A) (sem : Sem c S) (C : List Nat) (E : Nat → S → Prop) : Nat → S → Prop
  | init (s : S) : c.entry ∈ C → sem.γ c.init s → asmOk c sem c.entry s →
      LPre c sem C E c.entry s
  | inj (p n : Nat) (s : S) : n ∈ C → p ∉ C → p ∈ c.preds n → E p s → asmOk c sem n s →
      LPre c sem C E n s
  | flow (p n : Nat) (s0 s : S) : n ∈ C → p ∈ C → p ∈ c.preds n → LPre c sem C E p s0 →
      sem.step p s0 s → asmOk c sem n s → LPre c sem C E n s

/-- the externals read off the post table of a state -/
def Ext {c : Ctx A} (sem : Sem c S) (st : St A) : Nat → S → Prop := fun p s => sem.γ (st.post p) s

/-- the tables of `st'` contain the least solution of region `C` with externals `E` -/
def Snd (c : Ctx A) (sem : Sem c S) (C : List Nat) (E : Nat → S → Prop) (st' : St A) : Prop :=
  ∀ n s, LPre c sem C E n s →
    sem.γ (st'.pre n) s ∧ ∀ s', sem.step n s s' → sem.γ (st'.post n) s'

variable {c : Ctx A} {sem : Sem c S}

theorem LPre.mem {C : List Nat} {E : Nat → S → Prop} {n : Nat} {s : S}
    (h : LPre c sem C E n s) : n ∈ C := by
  cases h <;> assumption

theorem LPre.mono {C : List Nat} {E E' : Nat → S → Prop}
    (hE : ∀ p s, p ∉ C → E p s → E' p s) {n : Nat} {s : S}
    (h : LPre c sem C E n s) : LPre c sem C E' n s := by
  induction h with
  | init s h1 h2 h3 => exact .init s h1 h2 h3
  | inj p n s h1 h2 h3 h4 h5 => exact .inj p n s h1 h2 h3 (hE p s h2 h4) h5
  | flow p n s0 s h1 h2 h3 _ h5 h6 ih => exact .flow p n s0 s h1 h2 h3 ih h5 h6

theorem Snd.mono {C : List Nat} {E E' : Nat → S → Prop} {st' : St A}
    (hE : ∀ p s, p ∉ C → E' p s → E p s) (h : Snd c sem C E st') : Snd c sem C E' st' :=
  fun n s hL => h n s (hL.mono hE)

/-! ### the value operations -/

theorem upd_same (f : Nat → A) (k : Nat) (v : A) : upd f k v k = v := by simp [upd]

theorem upd_other (f : Nat → A) (k : Nat) (v : A) (i : Nat) (h : i ≠ k) : upd f k v i = f i := by
  simp [upd, h]

theorem strengthen_sound (n : Nat) (inv : A) (s : S) (h1 : sem.γ inv s) (h2 : asmOk c sem n s) :
    sem.γ (strengthen c n inv) s := by
  unfold strengthen
  unfold asmOk at h2
  split
  · rename_i hA
    rw [if_pos hA] at h2
    split
    · rename_i m hm
      rw [hm] at h2
      simp only at h2
      split
      · rename_i a ha
        rw [ha] at h2
        exact sem.meet_sound _ _ _ h1 h2
      · exact h1
    · exact h1
  · exact h1

theorem joinPosts_acc (post : Nat → A) (s : S) : ∀ (ps : List Nat) (acc : A),
    sem.γ acc s → sem.γ (joinPosts c post acc ps) s
  | [], acc, h => by simpa [joinPosts] using h
  | p :: ps, acc, h => by
      have := joinPosts_acc post s ps (c.ops.join acc (post p)) (sem.join_left _ _ _ h)
      simpa [joinPosts] using this

theorem joinPosts_mem (post : Nat → A) (s : S) (q : Nat) : ∀ (ps : List Nat) (acc : A),
    q ∈ ps → sem.γ (post q) s → sem.γ (joinPosts c post acc ps) s
  | [], _, h, _ => by simp at h
  | p :: ps, acc, h, hq => by
      rcases List.mem_cons.1 h with h | h
      · subst h
        have := joinPosts_acc (sem := sem) post s ps (c.ops.join acc (post q))
          (sem.join_right _ _ _ hq)
        simpa [joinPosts] using this
      · have := joinPosts_mem post s q ps (c.ops.join acc (post p)) h hq
        simpa [joinPosts] using this

theorem newPre_of_pred (st : St A) (h p : Nat) (s : S) (hp : p ∈ c.preds h)
    (hq : sem.γ (st.post p) s) (ha : asmOk c sem h s) : sem.γ (newPre c st h) s := by
  unfold newPre
  apply strengthen_sound _ _ _ _ ha
  have := joinPosts_mem (sem := sem) st.post s p (c.preds h) c.ops.bot hp hq
  split
  · exact sem.join_left _ _ _ this
  · exact this

theorem newPre_of_init (st : St A) (h : Nat) (s : S) (he : h = c.entry)
    (hq : sem.γ c.init s) (ha : asmOk c sem h s) : sem.γ (newPre c st h) s := by
  unfold newPre
  apply strengthen_sound _ _ _ _ ha
  simp only [he, beq_self_eq_true, if_true]
  exact sem.join_right _ _ _ hq

/-- the invariant the iterator stores for a plain vertex -/
def vertexPre (c : Ctx A) (st : St A) (node : Nat) : A :=
  strengthen c node
    (if node == c.entry then joinPosts c st.post c.init (c.preds node)
     else joinPosts c st.post c.ops.bot (c.preds node))

theorem vertexPre_of_pred (st : St A) (v p : Nat) (s : S) (hp : p ∈ c.preds v)
    (hq : sem.γ (st.post p) s) (ha : asmOk c sem v s) : sem.γ (vertexPre c st v) s := by
  unfold vertexPre
  apply strengthen_sound _ _ _ _ ha
  split
  · exact joinPosts_mem st.post s p _ _ hp hq
  · exact joinPosts_mem st.post s p _ _ hp hq

theorem vertexPre_of_init (st : St A) (v : Nat) (s : S) (he : v = c.entry)
    (hq : sem.γ c.init s) (ha : asmOk c sem v s) : sem.γ (vertexPre c st v) s := by
  unfold vertexPre
  apply strengthen_sound _ _ _ _ ha
  simp only [he, beq_self_eq_true, if_true]
  exact joinPosts_acc st.post s _ _ hq

/-! ### a plain vertex -/

theorem vertex_sound (st st' : St A) (v : Nat) (hself : v ∉ c.preds v)
    (hpre : st'.pre v = vertexPre c st v) (hpost : st'.post v = c.analyze v (vertexPre c st v)) :
    Snd c sem [v] (Ext sem st) st' := by
  intro n s hL
  have hn : n = v := by simpa using hL.mem
  subst hn
  have hγ : sem.γ (vertexPre c st n) s := by
    cases hL with
    | init s h1 h2 h3 => exact vertexPre_of_init st _ s rfl h2 h3
    | inj p n s h1 h2 h3 h4 h5 => exact vertexPre_of_pred st n p s h3 h4 h5
    | flow p n s0 s h1 h2 h3 h4 h5 h6 =>
        have : p = n := by simpa using h2
        subst this
        exact absurd h3 hself
  refine ⟨hpre ▸ hγ, fun s' hs => ?_⟩
  rw [hpost]
  exact sem.analyze_sound _ _ _ _ hγ hs

/-! ### the invariant of a head is covered by the join over all its predecessors -/

theorem head_newPre_sound {C : List Nat} {E : Nat → S → Prop} (st : St A) (h : Nat)
    (hS : ∀ p s0 s, LPre c sem C E p s0 → sem.step p s0 s → sem.γ (st.post p) s)
    (hE : ∀ p s, p ∉ C → E p s → sem.γ (st.post p) s) (s : S)
    (hL : LPre c sem C E h s) : sem.γ (newPre c st h) s := by
  cases hL with
  | init s h1 h2 h3 => exact newPre_of_init st _ s rfl h2 h3
  | inj p n s h1 h2 h3 h4 h5 => exact newPre_of_pred st h p s h3 (hE p s h2 h4) h5
  | flow p n s0 s h1 h2 h3 h4 h5 h6 => exact newPre_of_pred st h p s h3 (hS p s0 s h4 h5) h6

/-- overwriting the stored invariant of a block by any value containing the least solution -/
theorem Snd.set_pre {C : List Nat} {E : Nat → S → Prop} {st : St A} (h : Nat) (v : A)
    (hS : Snd c sem C E st) (hv : ∀ s, LPre c sem C E h s → sem.γ v s) :
    Snd c sem C E { st with pre := upd st.pre h v } := by
  intro n s hL
  refine ⟨?_, (hS n s hL).2⟩
  by_cases hn : n = h
  · subst hn
    simpa [upd] using hv s hL
  · simpa [upd, hn] using (hS n s hL).1

/-! ### a sequence of sibling components -/

theorem seq_sound (Cx Cxs : List Nat) (st st1 st2 : St A)
    (hdisj : ∀ n, n ∈ Cx → n ∉ Cxs)
    (hback : ∀ p n, p ∈ c.preds n → n ∈ Cx → p ∈ Cxs → False)
    (hf1 : ∀ n, n ∉ Cx → st1.post n = st.post n)
    (hf2 : ∀ n, n ∉ Cxs → st2.pre n = st1.pre n ∧ st2.post n = st1.post n)
    (h1 : Snd c sem Cx (Ext sem st) st1) (h2 : Snd c sem Cxs (Ext sem st1) st2) :
    Snd c sem (Cx ++ Cxs) (Ext sem st) st2 := by
  have key : ∀ n s, LPre c sem (Cx ++ Cxs) (Ext sem st) n s →
      (n ∈ Cx → LPre c sem Cx (Ext sem st) n s) ∧ (n ∈ Cxs → LPre c sem Cxs (Ext sem st1) n s) := by
    intro n s hL
    induction hL with
    | init s h1 h2 h3 => exact ⟨fun h => .init s h h2 h3, fun h => .init s h h2 h3⟩
    | inj p n s hn hp hpn hE ha =>
        have hp1 : p ∉ Cx := fun h => hp (List.mem_append.2 (Or.inl h))
        have hp2 : p ∉ Cxs := fun h => hp (List.mem_append.2 (Or.inr h))
        refine ⟨fun h => .inj p n s h hp1 hpn hE ha, fun h => .inj p n s h hp2 hpn ?_ ha⟩
        show sem.γ (st1.post p) s
        rw [hf1 p hp1]; exact hE
    | flow p n s0 s hn hp hpn hL hs ha ih =>
        constructor
        · intro hnx
          rcases List.mem_append.1 hp with hp | hp
          · exact .flow p n s0 s hnx hp hpn (ih.1 hp) hs ha
          · exact (hback p n hpn hnx hp).elim
        · intro hnx
          rcases List.mem_append.1 hp with hp | hp
          · refine .inj p n s hnx (hdisj p hp) hpn ?_ ha
            exact (h1 p s0 (ih.1 hp)).2 s hs
          · exact .flow p n s0 s hnx hp hpn (ih.2 hp) hs ha
  intro n s hL
  rcases List.mem_append.1 hL.mem with hn | hn
  · have := h1 n s ((key n s hL).1 hn)
    have hf := hf2 n (hdisj n hn)
    rw [hf.1, hf.2]; exact this
  · exact h2 n s ((key n s hL).2 hn)

/-! ### one round over a cycle: head recomputed from `pre`, then the body -/

/-- `st` : tables before the round, `st1` : after `post h := analyze h pre`, `st2` : after the
    body.  `hH` is how the caller knows that the stored invariant `pre` of the head is large
    enough: in the ascending phase by the stabilisation test `new_pre <= pre`, in the descending
    phase because `pre` already contains the least solution. -/
theorem cycle_core (h : Nat) (B : List Nat) (st st1 st2 : St A) (pre : A)
    (hhB : h ∉ B)
    (hp1 : st1.post h = c.analyze h pre)
    (hf1 : ∀ n, n ≠ h → st1.post n = st.post n)
    (hf2 : ∀ n, n ∉ B → st2.post n = st1.post n)
    (hB : Snd c sem B (Ext sem st1) st2)
    (hH : ∀ s, LPre c sem (h :: B) (Ext sem st) h s → sem.γ (newPre c st2 h) s → sem.γ pre s) :
    (∀ s, LPre c sem (h :: B) (Ext sem st) h s → sem.γ pre s) ∧
    (∀ n s, LPre c sem (h :: B) (Ext sem st) n s → n ∈ B → LPre c sem B (Ext sem st1) n s) := by
  have hpost_h : ∀ s0 s, sem.γ pre s0 → sem.step h s0 s → sem.γ (st2.post h) s := by
    intro s0 s h0 hs
    rw [hf2 h hhB, hp1]; exact sem.analyze_sound _ _ _ _ h0 hs
  have key : ∀ n s, LPre c sem (h :: B) (Ext sem st) n s →
      (n = h → sem.γ pre s) ∧ (n ∈ B → LPre c sem B (Ext sem st1) n s) := by
    intro n s hL
    induction hL with
    | init s h1 h2 h3 =>
        refine ⟨fun he => ?_, fun hb => .init s hb h2 h3⟩
        subst he
        exact hH s (.init s h1 h2 h3) (newPre_of_init st2 _ s rfl h2 h3)
    | inj p n s hn hp hpn hE ha =>
        have hp' : p ≠ h ∧ p ∉ B := by simpa using hp
        have hE1 : sem.γ (st1.post p) s := by rw [hf1 p hp'.1]; exact hE
        refine ⟨fun he => ?_, fun hb => .inj p n s hb hp'.2 hpn hE1 ha⟩
        subst he
        refine hH s (.inj p n s hn hp hpn hE ha) (newPre_of_pred st2 n p s hpn ?_ ha)
        rw [hf2 p hp'.2]; exact hE1
    | flow p n s0 s hn hp hpn hL hs ha ih =>
        -- the state leaves `p` into a table entry of `st2`
        have hq2 : sem.γ (st2.post p) s := by
          rcases List.mem_cons.1 hp with hp | hp
          · subst hp; exact hpost_h s0 s (ih.1 rfl) hs
          · exact (hB p s0 (ih.2 hp)).2 s hs
        constructor
        · intro he
          subst he
          exact hH s (.flow p n s0 s hn hp hpn hL hs ha) (newPre_of_pred st2 n p s hpn hq2 ha)
        · intro hb
          rcases List.mem_cons.1 hp with hp | hp
          · subst hp
            refine .inj p n s hb hhB hpn ?_ ha
            show sem.γ (st1.post p) s
            rw [hp1]; exact sem.analyze_sound _ _ _ _ (ih.1 rfl) hs
          · exact .flow p n s0 s hb hp hpn (ih.2 hp) hs ha
  exact ⟨fun s hL => (key h s hL).1 rfl, fun n s hL hb => (key n s hL).2 hb⟩

/-- assembling the statement for the whole cycle after one round -/
theorem cycle_round (h : Nat) (B : List Nat) (st st1 st2 : St A) (pre : A)
    (hhB : h ∉ B)
    (hp1 : st1.post h = c.analyze h pre)
    (hf1 : ∀ n, n ≠ h → st1.post n = st.post n)
    (hf2 : ∀ n, n ∉ B → st2.post n = st1.post n)
    (hB : Snd c sem B (Ext sem st1) st2)
    (hH : ∀ s, LPre c sem (h :: B) (Ext sem st) h s → sem.γ (newPre c st2 h) s → sem.γ pre s)
    (hpre : ∀ s, LPre c sem (h :: B) (Ext sem st) h s → sem.γ pre s → sem.γ (st2.pre h) s) :
    Snd c sem (h :: B) (Ext sem st) st2 ∧
    (∀ s, LPre c sem (h :: B) (Ext sem st) h s → sem.γ pre s) := by
  obtain ⟨k1, k2⟩ := cycle_core h B st st1 st2 pre hhB hp1 hf1 hf2 hB hH
  refine ⟨?_, k1⟩
  intro n s hL
  rcases List.mem_cons.1 hL.mem with hn | hn
  · subst hn
    refine ⟨hpre s hL (k1 s hL), fun s' hs => ?_⟩
    rw [hf2 n hhB, hp1]; exact sem.analyze_sound _ _ _ _ (k1 s hL) hs
  · exact hB n s (k2 n s hL hn)

/-- the join over all predecessors of the head contains the least solution at the head, once the
    tables are sound for the cycle -/
theorem cycle_newPre (h : Nat) (B : List Nat) (st st2 : St A)
    (hf : ∀ n, n ∉ h :: B → st2.post n = st.post n)
    (hS : Snd c sem (h :: B) (Ext sem st) st2) (s : S)
    (hL : LPre c sem (h :: B) (Ext sem st) h s) : sem.γ (newPre c st2 h) s := by
  refine head_newPre_sound st2 h (fun p s0 s hp hs => (hS p s0 hp).2 s hs) ?_ s hL
  intro p s hp hE
  rw [hf p hp]; exact hE

theorem refine_sound (it : Nat) (a b : A) (s : S) (ha : sem.γ a s) (hb : sem.γ b s) :
    sem.γ (refine c it a b) s := by
  unfold refine
  split
  · exact sem.meet_sound _ _ _ ha hb
  · exact sem.narrow_sound _ _ _ ha hb

end Sound
end Fix
end Crab
