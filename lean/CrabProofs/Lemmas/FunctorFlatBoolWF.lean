import CrabProofs.Lemmas.FunctorFlatBoolLat2
import CrabProofs.Lemmas.FunctorFlatBoolOps4

/-!
A representation invariant of the model of `flat_boolean_numerical_domain` that every operation
preserves (`FBN.WF`): the product is well formed (`Prod2.WF`: a set bottom flag means empty
components) and `m_unchanged_vars` is the bottom of its lattice only on values whose flat Boolean
environment is bottom.  It is what `is_top()` relies on (it reads neither `m_is_bottom` nor
`m_unchanged_vars`).  Preservation needs the base transformers to map empty values to empty values
(`LDom.Strict`), as for the products (`C04.product_wf_step`).
-/
set_option linter.unusedSectionVars false
set_option linter.unusedSimpArgs false

namespace Crab
namespace Dom
namespace Fct

variable {V : Type} [DecidableEq V] {K : CSig V}

/-- the flat environments without states are exactly `bot` -/
theorem FEnv.eq_bot_of_empty {e : FEnv V} (h : ∀ s, ¬ FEnv.γ e s) : e = .bot := by
  cases e with
  | bot => rfl
  | env m =>
    exfalso
    apply h ⟨fun _ => 0, fun x => (AL.get m x).getD false⟩
    intro x b hx
    simp [hx]

/-- a function on flat environments that keeps `bot` is strict -/
theorem fb_strict {f : FEnv V → FEnv V} (h : f .bot = .bot) : (FB V).Strict f := by
  intro e he s
  have : e = .bot := FEnv.eq_bot_of_empty he
  subst this
  show ¬ FEnv.γ (f .bot) s
  rw [h]; exact fun h => h

namespace Prod2
variable {D2 : LDom (CSt V)}

theorem fst_canonicalize {p : Prod2 (FB V) D2} (h : p.fst = FEnv.bot) : p.canonicalize.fst = FEnv.bot := by
  unfold canonicalize
  split
  · split
    · rfl
    · exact h
  · exact h

theorem fst_onFirst {f : FEnv V → FEnv V} (hf : f .bot = .bot) {p : Prod2 (FB V) D2}
    (h : p.fst = FEnv.bot) : (onFirst f p).fst = FEnv.bot := by
  unfold onFirst
  show f p.canonicalize.fst = FEnv.bot
  rw [fst_canonicalize h]; exact hf

theorem fst_onSecond {f : D2.B → D2.B} {p : Prod2 (FB V) D2} (h : p.fst = FEnv.bot) :
    (onSecond f p).fst = FEnv.bot := by
  unfold onSecond
  exact fst_canonicalize h

theorem fst_reduce {p : Prod2 (FB V) D2} (h : p.fst = FEnv.bot) : p.reduce.fst = FEnv.bot := by
  unfold reduce
  simp only
  split
  · rfl
  · split
    · rfl
    · exact fst_canonicalize (fst_canonicalize h)

theorem fst_op (m : Meth) {f1 : FEnv V → FEnv V} (hf : f1 .bot = .bot) {f2 : D2.B → D2.B}
    {p : Prod2 (FB V) D2} (h : p.fst = FEnv.bot) : (op m f1 f2 p).fst = FEnv.bot := by
  unfold op
  simp only
  split
  · exact fst_reduce (fst_onSecond (fst_onFirst hf h))
  · exact fst_onSecond (fst_onFirst hf h)

theorem isBottom_of_fst_bot {p : Prod2 (FB V) D2} (h : p.fst = FEnv.bot) : p.isBottom = true := by
  unfold isBottom
  split
  · rfl
  · have : (FB V).isBot p.fst = true := by rw [h]; rfl
    simp [this]
end Prod2

namespace FBN
variable {N : BNDom V K}

/-- the invariant: well-formed product; `m_unchanged_vars` bottom only under a bottom flat part -/
def WF (a : FBN N) : Prop := a.prod.WF ∧ (a.unch.isBot = true → a.prod.fst = FEnv.bot)

/-- the strictness of what the reduction calls on the base itself -/
def StrictRed (N : BNDom V K) : Prop :=
  (∀ c, N.Strict (fun b => N.addCst b c)) ∧ (∀ x k, N.Strict (fun b => N.assignK b x k))

theorem unch_of_not_isBottom {a : FBN N} (h : a.WF) (hb : a.prod.isBottom = false) : a.unch.isBot = false := by
  cases hu : a.unch.isBot
  · rfl
  · rw [Prod2.isBottom_of_fst_bot (h.2 hu)] at hb; cases hb

/-- a value whose `m_unchanged_vars` is not bottom satisfies the second half trivially -/
theorem wf_of_unch {a : FBN N} (hp : a.prod.WF) (hu : a.unch.isBot = false) : a.WF :=
  ⟨hp, fun h => by rw [hu] at h; cases h⟩

theorem wf_ite {c : Prop} [Decidable c] {A B : FBN N} (hA : c → A.WF) (hB : ¬ c → B.WF) :
    (if c then A else B).WF := by
  split
  · exact hA ‹_›
  · exact hB ‹_›

theorem wf_top : (top : FBN N).WF := wf_of_unch (Prod2.wf_setTop Prod2.top) rfl
theorem wf_bottom : (bottom : FBN N).WF := ⟨Prod2.wf_setBottom Prod2.top, fun _ => rfl⟩

/-! ### Boolean operations (they return early on bottom) -/

theorem wf_reduceNumCstToBool (x : V) (c : K.C) {a : FBN N} (hp : a.prod.WF) (hu : a.unch.isBot = false) :
    (reduceNumCstToBool x c a).WF := by
  have hs : ∀ v, (FB V).Strict (fun e => FEnv.set e x v) := fun v => fb_strict rfl
  unfold reduceNumCstToBool
  by_cases ht : K.isTaut c = true
  · simp only [ht, if_true]
    exact wf_of_unch (Prod2.wf_onFirst (hs _) hp) hu
  · by_cases hc : K.isContra c = true
    · simp only [ht, hc, if_true, if_false, Bool.false_eq_true]
      exact wf_of_unch (Prod2.wf_onFirst (hs _) hp) hu
    · simp only [ht, hc, if_false, Bool.false_eq_true]
      apply wf_of_unch (Prod2.wf_onFirst (hs _) (Prod2.wf_canonicalize hp))
      show (markVars (K.vars c) (a.lin.del x, a.unch)).2.isBot = false
      rw [(markVars_isBot _ _).2]; exact hu

theorem wf_assignBoolCst {f2 : N.B → N.B} (h2 : N.Strict f2) (x : V) (c : K.C) {a : FBN N} (h : a.WF) :
    (assignBoolCst f2 x c a).WF := by
  unfold assignBoolCst
  apply wf_ite (fun _ => h)
  intro hb
  exact wf_reduceNumCstToBool x c (Prod2.wf_op _ (fb_strict rfl) h2 h.1)
    (unch_of_not_isBottom (a := a) h (by simpa using hb))

theorem wf_assignBoolVar {f2 : N.B → N.B} (h2 : N.Strict f2) (x y : V) (neg : Bool) {a : FBN N} (h : a.WF) :
    (assignBoolVar f2 x y neg a).WF := by
  unfold assignBoolVar
  apply wf_ite (fun _ => h)
  intro hb
  exact wf_of_unch (Prod2.wf_op _ (fb_strict rfl) h2 h.1) (unch_of_not_isBottom (a := a) h (by simpa [isBottom] using hb))

theorem wf_applyBinaryBool {f2 : N.B → N.B} (h2 : N.Strict f2) (op : BBin) (x y z : V) {a : FBN N}
    (h : a.WF) : (applyBinaryBool f2 op x y z a).WF := by
  unfold applyBinaryBool
  apply wf_ite (fun _ => h)
  intro hb
  exact wf_of_unch (Prod2.wf_op _ (fb_strict rfl) h2 h.1) (unch_of_not_isBottom (a := a) h (by simpa [isBottom] using hb))

theorem wf_addIfUnchanged (hN : StrictRed N) (c : K.C) {a : FBN N} (hp : a.prod.WF) :
    (addIfUnchanged c a).prod.WF ∧ (addIfUnchanged c a).unch = a.unch := by
  unfold addIfUnchanged
  split
  · exact ⟨Prod2.wf_onSecond (hN.1 c) hp, rfl⟩
  · exact ⟨hp, rfl⟩

theorem wf_foldl_addIfUnchanged (hN : StrictRed N) (l : List K.C) :
    ∀ (a : FBN N), a.prod.WF → (l.foldl (fun a c => addIfUnchanged c a) a).prod.WF ∧
      (l.foldl (fun a c => addIfUnchanged c a) a).unch = a.unch := by
  induction l with
  | nil => exact fun a h => ⟨h, rfl⟩
  | cons c r ih =>
    intro a h
    simp only [List.foldl_cons]
    obtain ⟨h1, h2⟩ := wf_addIfUnchanged hN c h
    obtain ⟨h3, h4⟩ := ih _ h1
    exact ⟨h3, h4.trans h2⟩

theorem wf_bwdReductionAssumeBool (hN : StrictRed N) (x : V) (neg : Bool) {a : FBN N} (hp : a.prod.WF) :
    (bwdReductionAssumeBool x neg a).prod.WF ∧ (bwdReductionAssumeBool x neg a).unch = a.unch := by
  unfold bwdReductionAssumeBool
  simp only
  split
  · exact ⟨hp, rfl⟩
  · split
    · exact wf_foldl_addIfUnchanged hN _ a hp
    · split
      · split
        · exact wf_addIfUnchanged hN _ hp
        · exact ⟨hp, rfl⟩
      · exact ⟨hp, rfl⟩

theorem wf_foldl_reduceStep (x : V) (l : List V) :
    ∀ (a : FBN N), a.prod.WF → (l.foldl (reduceStep x) a).prod.WF ∧ (l.foldl (reduceStep x) a).unch = a.unch := by
  induction l with
  | nil => exact fun a h => ⟨h, rfl⟩
  | cons v r ih =>
    intro a h
    simp only [List.foldl_cons]
    have h1 : (reduceStep x a v).prod.WF := Prod2.wf_onFirst (fb_strict rfl) h
    obtain ⟨h3, h4⟩ := ih _ h1
    exact ⟨h3, h4⟩

theorem wf_reduceBoolToCsts (hN : StrictRed N) (x : V) (neg : Bool) {a : FBN N} (hp : a.prod.WF) :
    (reduceBoolToCsts x neg a).prod.WF ∧ (reduceBoolToCsts x neg a).unch = a.unch := by
  unfold reduceBoolToCsts
  split
  · obtain ⟨h1, h2⟩ := wf_foldl_reduceStep x (a.bools.look x).elems a hp
    obtain ⟨h3, h4⟩ := wf_bwdReductionAssumeBool hN x false h1
    exact ⟨h3, h4.trans h2⟩
  · exact ⟨hp, rfl⟩

theorem wf_assumeBool (hN : StrictRed N) {f2 : N.B → N.B} (h2 : N.Strict f2) (x : V) (neg : Bool)
    {a : FBN N} (h : a.WF) : (assumeBool f2 x neg a).WF := by
  unfold assumeBool
  apply wf_ite (fun _ => h)
  intro hb
  have hu := unch_of_not_isBottom (a := a) h (by simpa [isBottom] using hb)
  have hp1 := Prod2.wf_op .boolOp (f1 := fun e => FEnv.assumeBool e x neg) (fb_strict rfl) h2 h.1
  apply wf_ite
  · exact fun _ => wf_of_unch hp1 hu
  · intro _
    obtain ⟨h3, h4⟩ := wf_reduceBoolToCsts hN x neg
      (a := ({ a with prod := Prod2.op .boolOp (fun e => FEnv.assumeBool e x neg) f2 a.prod } : FBN N)) hp1
    exact wf_of_unch h3 (by rw [h4]; exact hu)

theorem FEnv.selectBool_bot (lhs cond b1 b2 : V) : FEnv.selectBool (.bot : FEnv V) lhs cond b1 b2 = .bot := rfl

theorem wf_selectBool {f2 f2' : N.B → N.B} (h2 : N.Strict f2) (h2' : N.Strict f2') (lhs cond b1 b2 : V)
    {a : FBN N} (h : a.WF) : (selectBool f2 f2' lhs cond b1 b2 a).WF := by
  unfold selectBool
  apply wf_ite _ (fun _ => h)
  intro hb
  apply wf_ite
  · exact fun _ => wf_assignBoolVar h2' lhs b1 false h
  · intro _
    have hu := unch_of_not_isBottom (a := a) h (by simpa [isBottom] using hb)
    have hs : (FB V).Strict (fun e => FEnv.selectBool e lhs cond b1 b2) :=
      fb_strict (FEnv.selectBool_bot lhs cond b1 b2)
    have hp : (Prod2.op .boolOp (fun e => FEnv.selectBool e lhs cond b1 b2) f2 a.prod.canonicalize).WF :=
      Prod2.wf_op .boolOp hs h2 (Prod2.wf_canonicalize h.1)
    exact ⟨hp, fun hb' => by rw [show a.unch.isBot = false from hu] at hb'; cases hb'⟩

end FBN

end Fct
end Dom
end Crab
