import CrabProofs.Lemmas.InterWire

/-!
  Lemmas for the bottom-up summary instantiation (`instantiate` = `reuse_summary`): association
  lists between the formal parameters and their internal (fresh) names.
-/
namespace Crab.Inter

/-- the old name of the new name `v` (`ks` new names, `xs` old names); identity elsewhere -/
def assocLookup : List Var → List Var → Var → Var
  | k :: ks, x :: xs, v => if v = k then x else assocLookup ks xs v
  | _, _, v => v

theorem assocLookup_pairs : ∀ (xs ks : List Var), ks.Nodup →
    AllPairs (fun x k => assocLookup ks xs k = x) xs ks
  | [], _, _ => by cases ‹List Var› <;> trivial
  | _ :: _, [], _ => trivial
  | x :: xs, k :: ks, hnd => by
    have hk : k ∉ ks := (List.nodup_cons.mp hnd).1
    refine ⟨by simp [assocLookup], ?_⟩
    refine AllPairs.imp_mem (assocLookup_pairs xs ks (List.nodup_cons.mp hnd).2) ?_
    intro x' k' _ hk' hp
    have : k' ≠ k := fun e => hk (e ▸ hk')
    simp [assocLookup, this, hp]

theorem AllPairs.append {P : Var → Var → Prop} :
    ∀ {a c b d : List Var}, a.length = c.length → AllPairs P a c → AllPairs P b d → AllPairs P (a ++ b) (c ++ d)
  | [], [], _, _, _, _, h => by simpa using h
  | [], _ :: _, _, _, hl, _, _ => by simp at hl
  | _ :: _, [], _, _, hl, _, _ => by simp at hl
  | x :: a, y :: c, b, d, hl, h1, h2 => by
    have hl' : a.length = c.length := by simpa using hl
    exact ⟨h1.1, AllPairs.append hl' h1.2 h2⟩

theorem AllPairs.of_append_left {P : Var → Var → Prop} :
    ∀ {a c b d : List Var}, a.length = c.length → AllPairs P (a ++ b) (c ++ d) → AllPairs P a c
  | [], [], _, _, _, _ => trivial
  | [], _ :: _, _, _, hl, _ => by simp at hl
  | _ :: _, [], _, _, hl, _ => by simp at hl
  | x :: a, y :: c, b, d, hl, h => by
    have hl' : a.length = c.length := by simpa using hl
    exact ⟨h.1, AllPairs.of_append_left hl' h.2⟩

theorem AllPairs.of_append_right {P : Var → Var → Prop} :
    ∀ {a c b d : List Var}, a.length = c.length → AllPairs P (a ++ b) (c ++ d) → AllPairs P b d
  | [], [], _, _, _, h => by simpa using h
  | [], _ :: _, _, _, hl, _ => by simp at hl
  | _ :: _, [], _, _, hl, _ => by simp at hl
  | x :: a, y :: c, b, d, hl, h => by
    have hl' : a.length = c.length := by simpa using hl
    exact AllPairs.of_append_right hl' h.2

/-- three lists read positionally -/
theorem AllPairs.three {P Q R : Var → Var → Prop} {S : Var → Prop} :
    ∀ {ls rs os : List Var}, ls.length = rs.length → ls.length = os.length →
      AllPairs P ls rs → AllPairs Q os rs → AllPairs R ls os →
      (∀ l r o, P l r → Q o r → R l o → S l) → ∀ l, l ∈ ls → S l
  | [], _, _, _, _, _, _, _, _, l, hl => by cases hl
  | _ :: _, [], _, h1, _, _, _, _, _, _, _ => by simp at h1
  | _ :: _, _ :: _, [], _, h2, _, _, _, _, _, _ => by simp at h2
  | l0 :: ls, r0 :: rs, o0 :: os, h1, h2, hp, hq, hr, hS, l, hl => by
    rcases List.mem_cons.mp hl with rfl | hl'
    · exact hS _ r0 o0 hp.1 hq.1 hr.1
    · exact AllPairs.three (by simpa using h1) (by simpa using h2) hp.2 hq.2 hr.2 hS l hl'

theorem AllPairs.swap {P : Var → Var → Prop} :
    ∀ {xs ys : List Var}, AllPairs P xs ys → AllPairs (fun y x => P x y) ys xs
  | [], _, _ => by cases ‹List Var› <;> trivial
  | _ :: _, [], _ => trivial
  | _ :: _, _ :: _, h => ⟨h.1, AllPairs.swap h.2⟩

theorem SeqOK.of_disjoint : ∀ (xs ys : List Var), (∀ x, x ∈ xs → x ∉ ys) → SeqOK xs ys
  | [], _, _ => by cases ‹List Var› <;> trivial
  | _ :: _, [], _ => trivial
  | x :: xs, y :: ys, h =>
    ⟨Or.inr (fun hy => h x (List.mem_cons_self ..) (List.mem_cons_of_mem _ hy)),
     SeqOK.of_disjoint xs ys (fun x' hx' hy' => h x' (List.mem_cons_of_mem _ hx') (List.mem_cons_of_mem _ hy'))⟩

end Crab.Inter
