import CrabProofs.Lemmas.WDomVal
import CrabProofs.Lemmas.PatriciaSepDom

/-!
  The environment of the wrapped interval domain: `separate_domain<variable_t, wrapped_interval>`
  = `SepDom WInt` with the lattice `WDom.wintLattice`.

  * `Inv e`   : the invariant of `separate_domain` (well-formed Patricia tree, no stored bottom or
                top, empty tree when bottom);
  * `Typed wd e` : the value bound to `v` is an interval of the declared width `wd v`;
  * `γ wd e σ` : `σ` gives every variable `v` a bit-vector of width `wd v` (its unsigned value) that
                belongs to the value of `v`.

  The tree-level specifications of `CrabProofs/Lemmas/PatriciaSepDom.lean` are instantiated with
  the predicate "neither bottom nor top"; the typing is carried separately because it depends on
  the key.
-/
namespace Crab
namespace WDom
open Patricia SepDom XDom WInt Lin

local notation "WL" => wintLattice

/-- what the tree stores: neither bottom nor top -/
def St (x : WInt) : Prop := x.isBottom = false ∧ x.isTop = false

theorem ctx_sound : (ctxOf WL).SoundOn St :=
  ⟨fun _ _ h => by simp [ctxOf] at h, fun x y _ h => by simpa [ctxOf, wintLattice] using h⟩

def Inv (e : Env) : Prop := SepDom.Inv St e
def Typed (wd : Ty) (e : Env) : Prop := ∀ k v, e.tree.lookup k = some v → Shape (wd k) v
def γ (wd : Ty) (e : Env) (σ : Var → Nat) : Prop := e.isBot = false ∧ ∀ k, mem (wd k) (σ k) (e.get k)

/-- state update -/
def upd (σ : Var → Nat) (x : Var) (n : Nat) : Var → Nat := fun y => if y = x then n else σ y

theorem inv_top : Inv Env.top := SepDom.inv_top
theorem inv_bot : Inv Env.bot := SepDom.inv_bottom
theorem typed_top (wd : Ty) : Typed wd Env.top := fun _ _ h => by simp [Env.top, XDom.Env.top, SepDom.top] at h
theorem typed_bot (wd : Ty) : Typed wd Env.bot := fun _ _ h => by simp [Env.bot, XDom.Env.bot, SepDom.bottom] at h

theorem get_eq (e : Env) (k : Var) :
    e.get k = if e.isBot then WInt.bottom else (e.tree.lookup k).getD WInt.top := by
  unfold Env.get XDom.Env.get atKey
  split
  · rfl
  · cases e.tree.lookup k <;> rfl

theorem get_good {wd : Ty} {e : Env} (ht : Typed wd e) (k : Var) : Good (wd k) (e.get k) := by
  rw [get_eq]
  split
  · exact good_bot _
  · cases h : e.tree.lookup k with
    | none => exact good_top _
    | some v => exact good_of_shape (ht k v h)

theorem not_γ_of_bot {wd : Ty} {e : Env} (h : e.isBot = true) (σ : Var → Nat) : ¬ γ wd e σ := by
  intro hg; rw [hg.1] at h; cases h

theorem γ_top (wd : Ty) (σ : Var → Nat) : γ wd Env.top σ := by
  refine ⟨rfl, fun k => ?_⟩
  rw [get_eq]
  simp only [Env.top, XDom.Env.top, SepDom.top, Tree.lookup, Bool.false_eq_true, if_false, Option.getD_none]
  exact mem_top _ _

/-- **`_env.set(x, i)`**: the binding of `x` is replaced (a bottom value makes the environment
    bottom, a top value removes the binding) -/
theorem set_spec {wd : Ty} {e : Env} (he : Inv e) {x : Var} (hx : x < 2 ^ 64) {i : WInt} :
    Inv (e.set x i) ∧ (Typed wd e → Good (wd x) i → Typed wd (e.set x i)) ∧
      (e.isBot = false → i.isBottom = false →
        (e.set x i).isBot = false ∧ ∀ k, (e.set x i).get k = if k = x then (if i.isTop then WInt.top else i) else e.get k) := by
  unfold Env.set XDom.Env.set
  cases hb : e.isBot
  · cases hib : i.isBottom
    · cases hit : i.isTop
      · obtain ⟨a, b, c⟩ := set_spec_stored (L := WL) ctx_sound he hb hx (v := i) ⟨hib, hit⟩ hib hit
        refine ⟨a, ?_, fun _ _ => ⟨b, fun k => ?_⟩⟩
        · intro ht hi k v hl
          rw [c k] at hl
          split at hl
          · next hk => injection hl with hl; subst hl; subst hk; exact good_shape hi hit
          · exact ht k v hl
        · show Env.get _ k = _
          rw [get_eq, b, c k, get_eq, hb]
          simp only [Bool.false_eq_true, if_false]
          split <;> rfl
      · obtain ⟨a, b, c⟩ := set_spec_top (L := WL) ctx_sound he hb hx (v := i) hib hit
        refine ⟨a, ?_, fun _ _ => ⟨b, fun k => ?_⟩⟩
        · intro ht _ k v hl
          rw [c k] at hl
          split at hl
          · cases hl
          · exact ht k v hl
        · show Env.get _ k = _
          rw [get_eq, b, c k, get_eq, hb]
          simp only [Bool.false_eq_true, if_false, if_true]
          split <;> rfl
    · rw [set_bottom_val (L := WL) hb (v := i) hib]
      exact ⟨SepDom.inv_bottom, fun _ _ => typed_bot wd, fun _ h => by cases h⟩
  · rw [set_of_bottom hb]
    exact ⟨he, fun ht _ => ht, fun h => by cases h⟩

/-- **soundness of `set`**: storing for `x` a value that contains `n` describes the state where
    `x` holds `n` -/
theorem set_sound {wd : Ty} {e : Env} (he : Inv e) {x : Var} (hx : x < 2 ^ 64) {i : WInt}
    {σ : Var → Nat} (hg : γ wd e σ) {n : Nat} (hn : mem (wd x) n i) :
    γ wd (e.set x i) (upd σ x n) := by
  obtain ⟨_, _, h⟩ := set_spec (wd := wd) he hx (i := i)
  obtain ⟨nb, hget⟩ := h hg.1 hn.1
  refine ⟨nb, fun k => ?_⟩
  rw [hget k]
  unfold upd
  split
  · next hk =>
    subst hk
    split
    · exact mem_top _ _
    · exact hn
  · exact hg.2 k

/-! ### lattice operations -/

theorem leq_self {x : WInt} (h : St x) : x.leq x = true := by
  unfold WInt.leq; simp [h.1, h.2]

theorem join_nonbot {x y : WInt} (hx : x.isBottom = false) (hy : y.isBottom = false) :
    (x.join y).isBottom = false := by
  unfold WInt.join
  dsimp only
  repeat' split
  all_goals first | exact hx | exact hy | rfl

theorem join_self {x : WInt} (h : St x) : x.join x = x := by
  unfold WInt.join; rw [if_pos (leq_self h)]

theorem widen_nonbot {x y : WInt} (hx : x.isBottom = false) (hy : y.isBottom = false) :
    (x.widen y).isBottom = false := by
  unfold WInt.widen
  simp only [hx, hy, Bool.false_eq_true, if_false]
  repeat' split
  all_goals first | exact hx | exact hy | rfl | (apply join_nonbot <;> first | exact hy | rfl | (apply join_nonbot <;> assumption))

theorem widen_self {x : WInt} (h : St x) : x.widen x = x := by
  unfold WInt.widen; simp [h.1, h.2, leq_self h]

/-- an upper-bound operation of the values gives an upper bound of the environments -/
theorem upper_sound {wd : Ty} {f : WInt → WInt → WInt}
    (hnb : ∀ x y, x.isBottom = false → y.isBottom = false → (f x y).isBottom = false)
    (hid : ∀ x, St x → f x x = x)
    (hup : ∀ w, w ≤ 64 → ∀ x y, Shape w x → Shape w y → ∀ v, v < 2 ^ w → mem w v x ∨ mem w v y → mem w v (f x y))
    (hw : ∀ k, wd k ≤ 64) {a b : Env} (ha : Inv a) (hb : Inv b) (ta : Typed wd a) (tb : Typed wd b)
    {σ : Var → Nat} (hσ : ∀ k, σ k < 2 ^ wd k) (hg : γ wd a σ ∨ γ wd b σ) :
    γ wd (SepDom.upper (ctxOf WL) WL f a b) σ := by
  cases na : a.isBot
  · cases nb : b.isBot
    · obtain ⟨_, nbr, hl⟩ := upper_spec (L := WL) (f := f) ctx_sound (fun x y hx hy ht => ⟨hnb x y hx.1 hy.1, ht⟩) hid (fun x hx => hx.2) ha hb na nb
      refine ⟨nbr, fun k => ?_⟩
      rw [get_eq, nbr, hl k]
      simp only [Bool.false_eq_true, if_false]
      cases l1 : a.tree.lookup k with
      | none => exact mem_top _ _
      | some x =>
        cases l2 : b.tree.lookup k with
        | none => exact mem_top _ _
        | some y =>
          simp only
          split
          · exact mem_top _ _
          · simp only [Option.getD_some]
            apply hup (wd k) (hw k) x y (ta k x l1) (tb k y l2) (σ k) (hσ k)
            rcases hg with hg | hg
            · left; have := hg.2 k; rwa [get_eq, na, l1] at this
            · right; have := hg.2 k; rwa [get_eq, nb, l2] at this
    · have : SepDom.upper (ctxOf WL) WL f a b = a := by unfold SepDom.upper; simp [na, nb]
      rw [this]
      rcases hg with hg | hg
      · exact hg
      · exact absurd hg (not_γ_of_bot nb σ)
  · have : SepDom.upper (ctxOf WL) WL f a b = b := by unfold SepDom.upper; simp [na]
    rw [this]
    rcases hg with hg | hg
    · exact absurd hg (not_γ_of_bot na σ)
    · exact hg

/-- invariant and typing of the result of an upper-bound operation -/
theorem upper_inv {wd : Ty} {f : WInt → WInt → WInt}
    (hnb : ∀ x y, x.isBottom = false → y.isBottom = false → (f x y).isBottom = false)
    (hid : ∀ x, St x → f x x = x)
    (hsh : ∀ w, w ≤ 64 → ∀ x y, Shape w x → Shape w y → Good w (f x y)) (hw : ∀ k, wd k ≤ 64)
    {a b : Env} (ha : Inv a) (hb : Inv b) (ta : Typed wd a) (tb : Typed wd b) :
    Inv (SepDom.upper (ctxOf WL) WL f a b) ∧ Typed wd (SepDom.upper (ctxOf WL) WL f a b) := by
  cases na : a.isBot
  · cases nb : b.isBot
    · obtain ⟨i, _, hl⟩ := upper_spec (L := WL) (f := f) ctx_sound (fun x y hx hy ht => ⟨hnb x y hx.1 hy.1, ht⟩) hid (fun x hx => hx.2) ha hb na nb
      refine ⟨i, fun k v hk => ?_⟩
      rw [hl k] at hk
      cases l1 : a.tree.lookup k with
      | none => rw [l1] at hk; cases hk
      | some x =>
        cases l2 : b.tree.lookup k with
        | none => rw [l1, l2] at hk; cases hk
        | some y =>
          rw [l1, l2] at hk
          simp only at hk
          split at hk
          · cases hk
          · next hnt =>
            injection hk with hk; subst hk
            exact good_shape (hsh _ (hw k) x y (ta k x l1) (tb k y l2)) (by simpa [wintLattice] using hnt)
    · have : SepDom.upper (ctxOf WL) WL f a b = a := by unfold SepDom.upper; simp [na, nb]
      rw [this]; exact ⟨ha, ta⟩
  · have : SepDom.upper (ctxOf WL) WL f a b = b := by unfold SepDom.upper; simp [na]
    rw [this]; exact ⟨hb, tb⟩

theorem join_good' {w : Nat} {x y : WInt} (hx : Shape w x) (hy : Shape w y) : Good w (x.join y) :=
  (join_shape hx hy).elim (fun h => h ▸ good_top w) good_of_shape

/-- the widening gives `top()` or an interval of the width of its operands -/
theorem widen_good {w : Nat} (hw : w ≤ 64) {x y : WInt} (hx : Shape w x) (hy : Shape w y) :
    Good w (x.widen y) := by
  unfold WInt.widen
  split
  · exact good_of_shape hy
  split
  · exact good_of_shape hx
  rename_i hxb hyb
  obtain ⟨s1, e1, _, _, rfl⟩ := shape_cases hx (by simpa using hxb)
  obtain ⟨s2, e2, _, _, rfl⟩ := shape_cases hy (by simpa using hyb)
  split
  · exact good_top w
  split
  · exact good_of_shape hx
  dsimp only
  split
  · exact good_top w
  have jg := join_good' hx hy
  split
  · exact join_good jg (shape_mk2 rfl rfl (by assumption) (addT_lt hw _ _ rfl))
  split
  · exact join_good jg (shape_mk2 rfl rfl (subT_lt hw _ _ rfl) (by assumption))
  split
  · exact join_good (good_of_shape hy) (shape_mk2 rfl rfl (by assumption) (addT_lt hw _ _ rfl))
  · exact good_top w

/-- `operator-=(x)` -/
theorem forget_spec' {wd : Ty} {e : Env} (he : Inv e) (ht : Typed wd e) {x : Var} (hx : x < 2 ^ 64) :
    Inv (XDom.Env.forget WL e x) ∧ Typed wd (XDom.Env.forget WL e x) ∧
      ∀ σ, γ wd e σ → ∀ n, γ wd (XDom.Env.forget WL e x) (upd σ x n) := by
  unfold XDom.Env.forget
  cases hb : e.isBot
  · simp only [Bool.false_eq_true, if_false]
    obtain ⟨a, b, c⟩ := SepDom.forget_spec (c := ctxOf WL) ctx_sound he hx
    refine ⟨a, fun k v hl => ?_, fun σ hg n => ⟨by rw [b, hb], fun k => ?_⟩⟩
    · rw [c k] at hl
      split at hl
      · cases hl
      · exact ht k v hl
    · show mem _ _ (Env.get _ k)
      rw [get_eq, b, hb, c k]
      simp only [Bool.false_eq_true, if_false]
      unfold upd
      split
      · exact mem_top _ _
      · have := hg.2 k; rwa [get_eq, hb] at this
  · simp only [if_true]
    exact ⟨he, ht, fun σ hg => absurd hg (not_γ_of_bot hb σ)⟩

/-- a yes answer of `operator<=` is an inclusion of concretisations -/
theorem leq_sound {wd : Ty} (hw : ∀ k, wd k ≤ 64) {a b : Env} (ha : Inv a) (hb : Inv b)
    (ta : Typed wd a) (tb : Typed wd b) (h : XDom.Env.leq WL a b = true)
    {σ : Var → Nat} (hσ : ∀ k, σ k < 2 ^ wd k) (hg : γ wd a σ) : γ wd b σ := by
  have h' : SepDom.leq true (ctxOf WL) WL a b = true := h
  have na := hg.1
  cases nb : b.isBot
  · have hp := (leq_spec (L := WL) ctx_sound (fun x hx => leq_self hx) ha hb na nb).mp h'
    refine ⟨nb, fun x => ?_⟩
    have hx := hp x
    have m := hg.2 x
    rw [get_eq, na] at m
    rw [get_eq, nb]
    simp only [Bool.false_eq_true, if_false] at m ⊢
    cases l2 : b.tree.lookup x with
    | none => exact mem_top _ _
    | some y =>
      cases l1 : a.tree.lookup x with
      | none => rw [l1, l2] at hx; simp [rel, leO, domainPO] at hx
      | some u =>
        rw [l1, l2] at hx; rw [l1] at m
        simp only [rel, leO, domainPO, if_true] at hx
        exact WInt.leq_sound (hw x) (ta x u l1) (tb x y l2) (hσ x) hx m
  · rw [leq_bottom_right true na nb] at h'; cases h'

/-! ### meet / narrowing -/

/-- weaker tree predicate used for the meet: not bottom -/
def NB (x : WInt) : Prop := x.isBottom = false

theorem WF_mono {P Q : WInt → Prop} (h : ∀ v, P v → Q v) : ∀ t : Tree WInt, WF P t → WF Q t
  | .empty, _ => trivial
  | .leaf _ v, hw => ⟨hw.1, h v hw.2⟩
  | .node _ _ l r, hw => by
      obtain ⟨i, a, b, c, d, e, f, g1, g2, k1, k2⟩ := hw
      exact ⟨i, a, b, c, d, e, f, WF_mono h l g1, WF_mono h r g2, k1, k2⟩

theorem ctx_sound_nb : (ctxOf WL).SoundOn NB :=
  ⟨fun _ _ h => by simp [ctxOf] at h, fun x y _ h => by simpa [ctxOf, wintLattice] using h⟩

theorem meet_self {x : WInt} (h : NB x) : x.meet x = x := by
  have : x.leq x = true := by
    unfold WInt.leq
    cases x.isTop <;> simp [show x.isBottom = false from h]
  unfold WInt.meet; rw [if_pos this]

/-- **`operator&` / `operator&&`** keep every common state -/
theorem meet_sound {wd : Ty} (hw : ∀ k, wd k ≤ 64) {a b : Env} (ha : Inv a) (hb : Inv b)
    (ta : Typed wd a) (tb : Typed wd b) {σ : Var → Nat} (hσ : ∀ k, σ k < 2 ^ wd k)
    (hga : γ wd a σ) (hgb : γ wd b σ) : γ wd (SepDom.lower (ctxOf WL) WL WInt.meet a b) σ := by
  have ha' : SepDom.Inv NB a := ⟨WF_mono (fun _ hv => hv.1) _ ha.1, ha.2⟩
  have hb' : SepDom.Inv NB b := ⟨WF_mono (fun _ hv => hv.1) _ hb.1, hb.2⟩
  obtain ⟨_, hbot, hl⟩ := lower_spec (L := WL) (g := WInt.meet) ctx_sound_nb (fun _ _ _ _ h => h)
    (fun x hx => meet_self hx) (fun _ hx => hx) ha' hb' hga.1 hgb.1
  have mema : ∀ k x, a.tree.lookup k = some x → mem (wd k) (σ k) x := by
    intro k x hk; have := hga.2 k; rwa [get_eq, hga.1, hk] at this
  have memb : ∀ k y, b.tree.lookup k = some y → mem (wd k) (σ k) y := by
    intro k y hk; have := hgb.2 k; rwa [get_eq, hgb.1, hk] at this
  have nbr : (SepDom.lower (ctxOf WL) WL WInt.meet a b).isBot = false := by
    cases hr : (SepDom.lower (ctxOf WL) WL WInt.meet a b).isBot
    · rfl
    · exfalso
      obtain ⟨k, x, y, hx, hy, hbt⟩ := hbot.mp hr
      have := WInt.meet_sound (hw k) (ta k x hx) (tb k y hy) (hσ k) (mema k x hx) (memb k y hy)
      have hnb := this.1
      have hbt' : (x.meet y).isBottom = true := hbt
      rw [hbt'] at hnb; cases hnb
  refine ⟨nbr, fun k => ?_⟩
  rw [get_eq, nbr, hl nbr k]
  simp only [Bool.false_eq_true, if_false]
  cases l1 : a.tree.lookup k with
  | none =>
    cases l2 : b.tree.lookup k with
    | none => exact mem_top _ _
    | some y => exact memb k y l2
  | some x =>
    cases l2 : b.tree.lookup k with
    | none => exact mema k x l1
    | some y => exact WInt.meet_sound (hw k) (ta k x l1) (tb k y l2) (hσ k) (mema k x l1) (memb k y l2)

end WDom
end Crab
