import CrabModel.Num.ZNumExtra

/-! `z_number` text in a base: `z_number(get_str(base), base)` gives the number back. -/
namespace Crab.ZNum.Spec
open Crab.ZNum.X

/-- value of a least-significant-first digit list -/
def valRev (b : Nat) : List Nat → Nat
  | [] => 0
  | d :: ds => d + b * valRev b ds

theorem digitsRev_spec (b : Nat) (hb : 2 ≤ b) (fuel n : Nat) (hpos : 0 < fuel) (h : n < b ^ fuel) :
    valRev b (digitsRev b fuel n) = n ∧ (∀ d ∈ digitsRev b fuel n, d < b) ∧
      digitsRev b fuel n ≠ [] := by
  induction fuel generalizing n with
  | zero => omega
  | succ f ih =>
    simp only [digitsRev]
    split
    · next hlt => simp [valRev, hlt]
    · next hge =>
      have hf : n / b < b ^ f := by
        apply Nat.div_lt_of_lt_mul
        rw [Nat.pow_succ, Nat.mul_comm] at h
        exact h
      have hfpos : 0 < f := by
        cases f with
        | zero =>
          exfalso
          simp only [Nat.pow_zero, Nat.lt_one_iff] at hf
          have := Nat.div_add_mod n b
          have := Nat.mod_lt n (show 0 < b by omega)
          rw [hf] at *
          omega
        | succ g => omega
      obtain ⟨h1, h2, _⟩ := ih (n / b) hfpos hf
      refine ⟨?_, ?_, by simp⟩
      · simp only [valRev, h1]; exact Nat.mod_add_div n b
      · intro d hd
        rcases List.mem_cons.1 hd with hd | hd
        · subst hd; exact Nat.mod_lt _ (by omega)
        · exact h2 d hd

theorem ofDigits?_append (b : Nat) (l : List Nat) (d acc : Nat) :
    ofDigits? b (l ++ [d]) acc =
      match ofDigits? b l acc with
      | some v => if d < b then some (v * b + d) else none
      | none => none := by
  induction l generalizing acc with
  | nil => simp [ofDigits?]
  | cons e rest ih =>
    simp only [List.cons_append, ofDigits?]
    split
    · exact ih _
    · rfl

theorem ofDigits?_reverse (b : Nat) (l : List Nat) (h : ∀ d ∈ l, d < b) :
    ofDigits? b l.reverse 0 = some (valRev b l) := by
  induction l with
  | nil => simp [ofDigits?, valRev]
  | cons d ds ih =>
    rw [List.reverse_cons, ofDigits?_append, ih (fun e he => h e (List.mem_cons_of_mem _ he))]
    simp only [h d (List.mem_cons_self ..), if_true, valRev]
    congr 1
    rw [Nat.mul_comm]; omega

theorem digits_spec (b : Nat) (hb : 2 ≤ b) (n : Nat) :
    ofDigits? b (digits b n) 0 = some n ∧ (∀ d ∈ digits b n, d < b) ∧ digits b n ≠ [] := by
  have hlt : n < b ^ (n + 1) :=
    Nat.lt_of_lt_of_le (Nat.lt_pow_self (show 1 < b by omega))
      (Nat.pow_le_pow_right (by omega) (Nat.le_succ n))
  obtain ⟨h1, h2, h3⟩ := digitsRev_spec b hb (n + 1) n (Nat.succ_pos n) hlt
  unfold digits
  refine ⟨by rw [ofDigits?_reverse b _ h2, h1], fun d hd => h2 d (List.mem_reverse.1 hd), ?_⟩
  simpa using h3

theorem charDigit?_digitChar (d : Nat) (h : d < 36) : charDigit? (digitChar d) = some d := by
  have : ∀ d : Fin 36, charDigit? (digitChar d.1) = some d.1 := by decide
  exact this ⟨d, h⟩

theorem digitChar_ne_minus (d : Nat) (h : d < 36) : digitChar d ≠ '-' := by
  have : ∀ d : Fin 36, digitChar d.1 ≠ '-' := by decide
  exact this ⟨d, h⟩

theorem allSome_map (ds : List Nat) (h : ∀ d ∈ ds, d < 36) :
    allSome ((ds.map digitChar).map charDigit?) = some ds := by
  induction ds with
  | nil => rfl
  | cons d rest ih =>
    simp only [List.map_cons, charDigit?_digitChar d (h d (List.mem_cons_self ..)), allSome,
      ih (fun e he => h e (List.mem_cons_of_mem _ he))]

theorem ofDigitChars?_digits (b : Nat) (hb : 2 ≤ b) (hb' : b ≤ 36) (n : Nat) :
    ofDigitChars? b ((digits b n).map digitChar) = some n := by
  obtain ⟨h1, h2, h3⟩ := digits_spec b hb n
  unfold ofDigitChars?
  cases hd : digits b n with
  | nil => exact absurd hd h3
  | cons d rest =>
    rw [hd] at h1 h2
    simp only [List.map_cons]
    have := allSome_map (d :: rest) (fun e he => Nat.lt_of_lt_of_le (h2 e he) hb')
    simp only [List.map_cons] at this
    rw [this]
    exact h1

/-- text round trip at the level of characters -/
theorem ofChars?_toChars (b : Nat) (hb : 2 ≤ b) (hb' : b ≤ 36) (x : Int) :
    ofChars? b (toChars b x) = some x := by
  have key := ofDigitChars?_digits b hb hb' x.natAbs
  obtain ⟨_, h2, h3⟩ := digits_spec b hb x.natAbs
  unfold toChars
  simp only
  split
  · next hneg =>
    simp only [ofChars?, key]
    congr 1
    show -((x.natAbs : Nat) : Int) = x
    omega
  · next hnn =>
    -- the first character is a digit, not '-'
    cases hd : digits b x.natAbs with
    | nil => exact absurd hd h3
    | cons d rest =>
      have hdlt : d < 36 := Nat.lt_of_lt_of_le (h2 d (by rw [hd]; exact List.mem_cons_self ..)) hb'
      rw [hd] at key
      simp only [List.map_cons] at key ⊢
      have hne := digitChar_ne_minus d hdlt
      unfold ofChars?
      split
      · next c rest' heq =>
        simp only [List.cons.injEq] at heq
        exact absurd heq.1 hne
      · simp only [key]
        congr 1
        show ((x.natAbs : Nat) : Int) = x
        omega

theorem ofStr?_toStr (b : Nat) (hb : 2 ≤ b) (hb' : b ≤ 36) (x : Int) :
    ofStr? b (toStr b x) = some x := by
  unfold ofStr? toStr
  rw [String.toList_ofList]
  exact ofChars?_toChars b hb hb' x

end Crab.ZNum.Spec
