import CrabProofs.Lemmas.IDomEnv
import CrabProofs.Lemmas.IntervalDiv
import CrabProofs.Lemmas.IntervalBits
import CrabProofs.Lemmas.LinSys

/-!
  Soundness of the model of `linear_interval_solver`: a state of `γ env` that satisfies every
  constraint of the system stays in `γ` after every `refine` / trim step, hence after `run`.
-/
namespace Crab
namespace IDom
open Lin

/-! ### the total wrappers -/

theorem addT_sound {x y : Itv} {a b : Int} (ha : Itv.mem a x) (hb : Itv.mem b y) : Itv.mem (a + b) (addT x y) := by
  unfold addT
  cases h : Itv.add x y with
  | none => exact Itv.mem_top _
  | some r => exact Itv.add_sound ha hb h

theorem subT_sound {x y : Itv} {a b : Int} (ha : Itv.mem a x) (hb : Itv.mem b y) : Itv.mem (a - b) (subT x y) := by
  unfold subT
  cases h : Itv.sub x y with
  | none => exact Itv.mem_top _
  | some r => exact Itv.sub_sound ha hb h

theorem divT_sound {x y : Itv} {a b : Int} (ha : Itv.mem a x) (hb : Itv.mem b y) (hb0 : b ≠ 0) :
    Itv.mem (Int.tdiv a b) (divT x y) := by
  unfold divT
  cases h : Itv.div x y with
  | none => exact Itv.mem_top _
  | some r => exact Itv.div_sound ha hb hb0 h

/-! ### the residual -/

/-- the sum of the terms other than the pivot -/
def restSum (σ : State) (pivot : Var) : List (Var × Int) → Int
  | [] => 0
  | (v, c) :: rest => if v = pivot then restSum σ pivot rest else c * σ v + restSum σ pivot rest

theorem restSum_of_not_key (σ : State) (pivot : Var) (ts : List (Var × Int)) (h : ∀ p ∈ ts, p.1 ≠ pivot) :
    restSum σ pivot ts = Expr.evalTerms σ ts := by
  induction ts with
  | nil => rfl
  | cons p rest ih =>
    obtain ⟨v, c⟩ := p
    have h1 : v ≠ pivot := h (v, c) List.mem_cons_self
    simp only [restSum, h1, if_false, Expr.evalTerms]
    rw [ih (fun q hq => h q (List.mem_cons_of_mem _ hq))]

/-- with distinct keys the expression is the pivot term plus the rest -/
theorem evalTerms_split (σ : State) {ts : List (Var × Int)} (hs : Expr.SortedKeys ts) {pivot : Var} {coef : Int}
    (hm : (pivot, coef) ∈ ts) : Expr.evalTerms σ ts = coef * σ pivot + restSum σ pivot ts := by
  induction ts with
  | nil => simp at hm
  | cons p rest ih =>
    obtain ⟨v, c⟩ := p
    have hs' := List.pairwise_cons.1 hs
    rcases List.mem_cons.1 hm with h | h
    · simp only [Prod.mk.injEq] at h
      obtain ⟨h1, h2⟩ := h
      subst h1; subst h2
      have : restSum σ pivot rest = Expr.evalTerms σ rest :=
        restSum_of_not_key σ pivot rest (fun q hq => Nat.ne_of_gt (hs'.1 q hq))
      simp only [restSum, if_true, Expr.evalTerms, this]
    · have hv : v ≠ pivot := Nat.ne_of_lt (hs'.1 _ h)
      simp only [restSum, hv, if_false, Expr.evalTerms, ih hs'.2 h]
      omega

/-- the loop of `compute_residual`: unless it stops on top, the result contains the constant
    minus the other terms -/
theorem residualLoop_sound {env : Env} {σ : State} (hg : Env.γ env σ) (pivot : Var) :
    ∀ (ts : List (Var × Int)) (r : Itv) (n : Nat) (a : Int), Itv.mem a r →
      (residualLoop env pivot ts r n).1.isTop = false →
      Itv.mem (a - restSum σ pivot ts) (residualLoop env pivot ts r n).1 := by
  intro ts
  induction ts with
  | nil => intro r n a ha _; simpa [residualLoop, restSum] using ha
  | cons p rest ih =>
    obtain ⟨v, c⟩ := p
    intro r n a ha hnt
    unfold residualLoop at hnt ⊢
    by_cases hv : v = pivot
    · simp only [hv, if_true] at hnt ⊢
      simp only [restSum, if_true]
      exact ih r n a ha hnt
    · simp only [hv, if_false] at hnt ⊢
      have hm : Itv.mem (a - c * σ v) (subT r (Itv.mul (Itv.single c) (env.get v))) :=
        subT_sound ha (Itv.mul_sound ((Itv.mem_single c c).2 rfl) (hg.2 v))
      by_cases ht : (subT r (Itv.mul (Itv.single c) (env.get v))).isTop = true
      · simp only [ht, if_true] at hnt
        exact absurd hnt (by decide)
      · simp only [ht] at hnt ⊢
        simp only [restSum, hv, if_false]
        have := ih _ (n + 1) _ hm hnt
        have e : a - (c * σ v + restSum σ pivot rest) = a - c * σ v - restSum σ pivot rest := by omega
        rw [e]; exact this

/-! ### `refine` -/

theorem refine_sound {st : SolverSt} {σ : State} (hg : Env.γ st.env σ) {v : Var} {i : Itv}
    (hi : Itv.mem (σ v) i) : (refine st v i).1 = false ∧ Env.γ (refine st v i).2.env σ := by
  unfold refine
  have hm : Itv.mem (σ v) (Itv.meet (st.env.get v) i) := Itv.meet_sound (hg.2 v) hi
  simp only [Itv.isBottom_false_of_mem hm, Bool.false_eq_true, if_false]
  split
  · exact ⟨rfl, Env.set_sound_same hg hm⟩
  · exact ⟨rfl, hg⟩

/-! ### one propagation step -/

theorem tdiv_mul_cancel {c s : Int} (hc : c ≠ 0) : Int.tdiv (c * s) c = s := Int.mul_tdiv_cancel_left s hc

theorem mem_lowerHalfLine {i : Itv} {k m : Int} (hm : Itv.mem m i) (h : k ≤ m) : Itv.mem k i.lowerHalfLine := by
  unfold Itv.lowerHalfLine
  rw [Itv.mem_mk']
  exact ⟨by simp, Bound.le_trans (by simpa using h) hm.2⟩

theorem mem_upperHalfLine {i : Itv} {k m : Int} (hm : Itv.mem m i) (h : m ≤ k) : Itv.mem k i.upperHalfLine := by
  unfold Itv.upperHalfLine
  rw [Itv.mem_mk']
  exact ⟨Bound.le_trans hm.1 (by simpa using h), by simp⟩

theorem single_of_singleton? {a : Itv} {q : Int} (h : a.singleton? = some q) : a = Itv.single q := by
  obtain ⟨h1, h2⟩ := Itv.singleton?_some h
  obtain ⟨l, u⟩ := a
  simp only at h1 h2
  subst h1; subst h2; rfl

theorem mul_single_single (q c : Int) : Itv.mul (Itv.single q) (Itv.single c) = Itv.single (q * c) := by
  simp [Itv.mul, Itv.single, Itv.isBottom, Bound.gt, Itv.mk', Bound.mul, Bound.n, Bound.min4, Bound.max4,
    Bound.min, Bound.max, Bound.mkRaw, Bound.isInfinite]
  by_cases hc : c = 0
  · subst hc; simp
  · by_cases hq : q = 0
    · subst hq; simp [hc]
    · simp [hc, hq]

theorem eq_single_of_beq {res : Itv} {k : Int} (h : Itv.beq (Itv.single k) res = true) : res = Itv.single k := by
  unfold Itv.beq at h
  have : (Itv.single k).isBottom = false := by simp [Itv.isBottom, Itv.single, Bound.gt]
  simp only [this, Bool.false_eq_true, if_false, Bool.and_eq_true, beq_iff_eq] at h
  obtain ⟨l, u⟩ := res
  simp only [Itv.single] at h ⊢
  obtain ⟨h1, h2⟩ := h
  subst h1; subst h2; rfl

/-- soundness of the body of `propagate` for one term of a satisfied constraint -/
theorem propagateTerm_sound {c : Cst} {st : SolverSt} {σ : State} (hg : Env.γ st.env σ)
    (hsat : c.sat σ) (hc : c.expr.Canonical) {pivot : Var} {coef : Int}
    (hm : (pivot, coef) ∈ c.expr.terms) :
    (propagateTerm c st pivot coef).1 = false ∧ Env.γ (propagateTerm c st pivot coef).2.env σ := by
  have hcoef : coef ≠ 0 := hc.2 (pivot, coef) hm
  -- the value of the expression in terms of the pivot and the residual value
  have heval : c.expr.eval σ = coef * σ pivot - (c.constant - restSum σ pivot c.expr.terms) := by
    unfold Expr.eval Cst.constant Expr.constant
    rw [evalTerms_split σ hc.1 hm]; omega
  generalize hρ : c.constant - restSum σ pivot c.expr.terms = ρ at heval
  have hres : (computeResidual c pivot st.env st.ops).1.isTop = false →
      Itv.mem ρ (computeResidual c pivot st.env st.ops).1 := by
    intro hnt
    have := residualLoop_sound hg pivot c.expr.terms (Itv.single c.constant) st.ops c.constant
      ((Itv.mem_single _ _).2 rfl) hnt
    rw [hρ] at this; exact this
  unfold propagateTerm
  generalize computeResidual c pivot st.env st.ops = ro at hres
  obtain ⟨res, ops⟩ := ro
  simp only at hres ⊢
  -- the quotient
  have hrhs : ∀ s : Int, coef * s = ρ →
      Itv.mem s (if (!res.isTop) = true then divT res (Itv.single coef) else Itv.top) := by
    intro s hs
    cases ht : res.isTop with
    | true => simp [Itv.mem_top]
    | false =>
      simp only [Bool.not_false, if_true]
      have := divT_sound (hres ht) ((Itv.mem_single coef coef).2 rfl) hcoef
      rw [← hs, tdiv_mul_cancel hcoef] at this
      exact this
  have hrhs' : (res.isTop = false → Itv.mem (Int.tdiv ρ coef)
      (if (!res.isTop) = true then divT res (Itv.single coef) else Itv.top)) := by
    intro ht
    simp only [ht, Bool.not_false, if_true]
    exact divT_sound (hres ht) ((Itv.mem_single coef coef).2 rfl) hcoef
  have htop : res.isTop = true →
      (if (!res.isTop) = true then divT res (Itv.single coef) else Itv.top) = Itv.top := by
    intro ht; simp [ht]
  generalize (if (!res.isTop) = true then divT res (Itv.single coef) else Itv.top) = rhs at hrhs hrhs' htop
  have hg' : Env.γ (SolverSt.mk st.env st.refined ops).env σ := hg
  cases hk : c.kind with
  | eq =>
    simp only []
    have h0 : c.expr.eval σ = 0 := by simpa [Cst.sat, hk] using hsat
    exact refine_sound hg' (hrhs (σ pivot) (by omega))
  | leq =>
    simp only []
    have h0 : c.expr.eval σ ≤ 0 := by simpa [Cst.sat, hk] using hsat
    have hle : coef * σ pivot ≤ ρ := by omega
    split
    · rename_i hpos
      apply refine_sound hg'
      cases ht : res.isTop with
      | true => rw [htop ht]; simp [Itv.lowerHalfLine, Itv.top, Itv.mk', Bound.gt, Itv.mem]
      | false =>
        have h1 := Crab.TDiv.mono_pos hle hpos
        rw [tdiv_mul_cancel hcoef] at h1
        exact mem_lowerHalfLine (hrhs' ht) h1
    · rename_i hpos
      have hneg : coef < 0 := by omega
      apply refine_sound hg'
      cases ht : res.isTop with
      | true => rw [htop ht]; simp [Itv.upperHalfLine, Itv.top, Itv.mk', Bound.gt, Itv.mem]
      | false =>
        have h1 := Crab.TDiv.anti_neg hle hneg
        rw [tdiv_mul_cancel hcoef] at h1
        exact mem_upperHalfLine (hrhs' ht) h1
  | lt => exact ⟨rfl, hg⟩
  | neq =>
    simp only []
    have h0 : c.expr.eval σ ≠ 0 := by simpa [Cst.sat, hk] using hsat
    have hne : coef * σ pivot ≠ ρ := by omega
    by_cases hbeq : Itv.beq (Itv.mul rhs (Itv.single coef)) res = true
    · simp only [hbeq, Bool.not_true, Bool.false_eq_true, if_false]
      -- the trimmed value still contains the value of the pivot
      have htrim : Itv.mem (σ pivot) (Itv.trim (st.env.get pivot) rhs) := by
        apply Itv.trim_sound (hg.2 pivot)
        intro hsing
        have hrhs_eq := single_of_singleton? hsing
        cases ht : res.isTop with
        | true =>
          rw [htop ht] at hrhs_eq
          simp [Itv.top, Itv.single] at hrhs_eq
        | false =>
          rw [hrhs_eq, mul_single_single] at hbeq
          have hres_eq := eq_single_of_beq hbeq
          have := hres ht
          rw [hres_eq, Itv.mem_single] at this
          exact hne (by rw [this]; exact Int.mul_comm _ _)
      simp only [Itv.isBottom_false_of_mem htrim, Bool.false_eq_true, if_false]
      split
      · exact ⟨rfl, Env.set_sound_same hg htrim⟩
      · exact ⟨rfl, hg⟩
    · simp only [hbeq, Bool.not_false, if_true]
      exact ⟨trivial, hg⟩

theorem propagateLoop_sound {c : Cst} {σ : State} (hsat : c.sat σ) (hc : c.expr.Canonical) :
    ∀ (ts : List (Var × Int)) (st : SolverSt), (∀ p ∈ ts, p ∈ c.expr.terms) → Env.γ st.env σ →
      (propagateLoop c ts st).1 = false ∧ Env.γ (propagateLoop c ts st).2.env σ := by
  intro ts
  induction ts with
  | nil => intro st _ hg; exact ⟨rfl, hg⟩
  | cons p rest ih =>
    obtain ⟨v, k⟩ := p
    intro st hsub hg
    have h1 := propagateTerm_sound hg hsat hc (hsub (v, k) List.mem_cons_self)
    unfold propagateLoop
    generalize propagateTerm c st v k = r at h1
    obtain ⟨b, st'⟩ := r
    simp only at h1
    obtain ⟨hb, hg'⟩ := h1
    subst hb
    simp only []
    exact ih st' (fun q hq => hsub q (List.mem_cons_of_mem _ hq)) hg'

theorem propagate_sound {c : Cst} {σ : State} (hsat : c.sat σ) (hc : c.expr.Canonical) {st : SolverSt}
    (hg : Env.γ st.env σ) : (propagate c st).1 = false ∧ Env.γ (propagate c st).2.env σ :=
  propagateLoop_sound hsat hc c.expr.terms st (fun _ h => h) hg

theorem propagateAll_sound {σ : State} :
    ∀ (tbl : List Cst) (st : SolverSt), (∀ c ∈ tbl, c.sat σ ∧ c.expr.Canonical) → Env.γ st.env σ →
      (propagateAll tbl st).1 = false ∧ Env.γ (propagateAll tbl st).2.env σ := by
  intro tbl
  induction tbl with
  | nil => intro st _ hg; exact ⟨rfl, hg⟩
  | cons c rest ih =>
    intro st hall hg
    have h1 := propagate_sound (hall c List.mem_cons_self).1 (hall c List.mem_cons_self).2 hg
    unfold propagateAll
    generalize propagate c st = r at h1
    obtain ⟨b, st'⟩ := r
    simp only at h1
    obtain ⟨hb, hg'⟩ := h1
    subst hb
    simp only []
    exact ih st' (fun q hq => hall q (List.mem_cons_of_mem _ hq)) hg'

theorem solveSmallLoop_sound {σ : State} {tbl : List Cst} (hall : ∀ c ∈ tbl, c.sat σ ∧ c.expr.Canonical) :
    ∀ (fuel : Nat) (st : SolverSt), Env.γ st.env σ →
      (solveSmallLoop tbl fuel st).1 = false ∧ Env.γ (solveSmallLoop tbl fuel st).2.env σ := by
  intro fuel
  induction fuel with
  | zero =>
    intro st hg
    have h1 := propagateAll_sound tbl ⟨st.env, [], st.ops⟩ hall hg
    unfold solveSmallLoop
    generalize propagateAll tbl ⟨st.env, [], st.ops⟩ = r at h1
    obtain ⟨b, st'⟩ := r
    obtain ⟨hb, hg'⟩ := h1
    simp only at hb hg'
    subst hb
    exact ⟨rfl, hg'⟩
  | succ n ih =>
    intro st hg
    have h1 := propagateAll_sound tbl ⟨st.env, [], st.ops⟩ hall hg
    unfold solveSmallLoop
    generalize propagateAll tbl ⟨st.env, [], st.ops⟩ = r at h1
    obtain ⟨b, st'⟩ := r
    obtain ⟨hb, hg'⟩ := h1
    simp only at hb hg'
    subst hb
    simp only []
    split
    · exact ih st' hg'
    · exact ⟨rfl, hg'⟩

theorem trigger_subset (tbl : List Cst) (vars : List Var) : ∀ c ∈ vars.flatMap (trigger tbl), c ∈ tbl := by
  intro c hc
  rw [List.mem_flatMap] at hc
  obtain ⟨v, _, hv⟩ := hc
  exact (List.mem_filter.1 hv).1

theorem solveLargeLoop_sound {σ : State} {tbl : List Cst} (hall : ∀ c ∈ tbl, c.sat σ ∧ c.expr.Canonical)
    (maxOp : Nat) : ∀ (fuel : Nat) (st : SolverSt), Env.γ st.env σ →
      (solveLargeLoop tbl maxOp fuel st).1 = false ∧ Env.γ (solveLargeLoop tbl maxOp fuel st).2.env σ := by
  intro fuel
  induction fuel with
  | zero =>
    intro st hg
    have h1 := propagateAll_sound (st.refined.flatMap (trigger tbl)) ⟨st.env, [], st.ops⟩
      (fun c hc => hall c (trigger_subset tbl _ c hc)) hg
    unfold solveLargeLoop
    simp only []
    generalize propagateAll (st.refined.flatMap (trigger tbl)) ⟨st.env, [], st.ops⟩ = r at h1
    obtain ⟨b, st'⟩ := r
    obtain ⟨hb, hg'⟩ := h1
    simp only at hb hg'
    subst hb
    exact ⟨rfl, hg'⟩
  | succ n ih =>
    intro st hg
    have h1 := propagateAll_sound (st.refined.flatMap (trigger tbl)) ⟨st.env, [], st.ops⟩
      (fun c hc => hall c (trigger_subset tbl _ c hc)) hg
    unfold solveLargeLoop
    simp only []
    generalize propagateAll (st.refined.flatMap (trigger tbl)) ⟨st.env, [], st.ops⟩ = r at h1
    obtain ⟨b, st'⟩ := r
    obtain ⟨hb, hg'⟩ := h1
    simp only at hb hg'
    subst hb
    simp only []
    split
    · exact ih st' hg'
    · exact ⟨rfl, hg'⟩

theorem solveLarge_sound {σ : State} {tbl : List Cst} (hall : ∀ c ∈ tbl, c.sat σ ∧ c.expr.Canonical)
    (maxOp : Nat) (st : SolverSt) (hg : Env.γ st.env σ) :
    (solveLarge tbl maxOp st).1 = false ∧ Env.γ (solveLarge tbl maxOp st).2.env σ := by
  have h1 := propagateAll_sound tbl ⟨st.env, [], 0⟩ hall hg
  unfold solveLarge
  generalize propagateAll tbl ⟨st.env, [], 0⟩ = r at h1
  obtain ⟨b, st'⟩ := r
  obtain ⟨hb, hg'⟩ := h1
  simp only at hb hg'
  subst hb
  simp only []
  exact solveLargeLoop_sound hall maxOp _ st' hg'

/-! ### preprocessing -/

theorem prepLoop_sound {σ : State} : ∀ (csts tbl : List Cst) (opc : Nat),
    (∀ c ∈ csts, c.sat σ ∧ c.expr.Canonical) → (∀ c ∈ tbl, c.sat σ ∧ c.expr.Canonical) →
    (prepLoop csts tbl opc).contradiction = false ∧
      ∀ c ∈ (prepLoop csts tbl opc).tbl, c.sat σ ∧ c.expr.Canonical := by
  intro csts
  induction csts with
  | nil => intro tbl opc _ ht; exact ⟨rfl, ht⟩
  | cons c rest ih =>
    intro tbl opc hc ht
    have hc0 := hc c List.mem_cons_self
    have hrest : ∀ c' ∈ rest, c'.sat σ ∧ c'.expr.Canonical := fun q hq => hc q (List.mem_cons_of_mem _ hq)
    unfold prepLoop
    split
    · rename_i hcon; exact absurd hc0.1 (Cst.not_sat_of_isContradiction hcon σ)
    · split
      · exact ih tbl opc hrest ht
      · split
        · rename_i hlt
          apply ih _ _ hrest
          intro q hq
          rcases List.mem_append.1 hq with hq | hq
          · exact ht q hq
          · have hs : c.expr.eval σ < 0 := by simpa [Cst.sat, hlt] using hc0.1
            simp only [List.mem_cons, List.not_mem_nil, or_false] at hq
            rcases hq with hq | hq
            · subst hq; exact ⟨by simp [Cst.sat]; omega, hc0.2⟩
            · subst hq; exact ⟨by simp [Cst.sat]; omega, hc0.2⟩
        · apply ih _ _ hrest
          intro q hq
          rcases List.mem_append.1 hq with hq | hq
          · exact ht q hq
          · simp only [List.mem_cons, List.not_mem_nil, or_false] at hq
            subst hq; exact hc0

/-- **soundness of the solver**: a state of `γ env` that satisfies the (canonical) constraints is in
    `γ` of the result of `run` -/
theorem solverRun_sound {csts : Sys} {σ : State} (hc : ∀ c ∈ csts, c.expr.Canonical) (hsat : Sys.sat csts σ)
    (maxCycles : Nat) {env : Env} (hg : Env.γ env σ) : Env.γ (solverRun csts maxCycles env) σ := by
  have hp := prepLoop_sound (σ := σ) csts [] 0 (fun c h => ⟨hsat c h, hc c h⟩) (by simp)
  unfold solverRun
  simp only []
  generalize prepLoop csts [] 0 = p at hp
  obtain ⟨hcon, htbl⟩ := hp
  simp only [hcon, Bool.false_eq_true, if_false]
  split
  · have := solveLarge_sound htbl (p.opc * maxCycles) ⟨env, [], 0⟩ hg
    simp only [this.1, Bool.false_eq_true, if_false]; exact this.2
  · have := solveSmallLoop_sound htbl maxCycles ⟨env, [], 0⟩ hg
    unfold solveSmall
    simp only [this.1, Bool.false_eq_true, if_false]; exact this.2

end IDom
end Crab
