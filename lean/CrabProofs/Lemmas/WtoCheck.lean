import CrabProofs.Lemmas.WtoSpec

/-!
  Lemmas relating the executable checker (`CrabModel/Graph/WtoCheck.lean`) and the nesting
  builder to the declarative notions of `WtoSpec`.
-/
namespace Crab
namespace Wto

/-! ### flatten -/

theorem mem_flattenL {v : Nat} : ∀ {l : List WtoC}, v ∈ flattenL l ↔ ∃ c ∈ l, v ∈ flattenC c
  | [] => by simp [flattenL]
  | c :: cs => by simp [flattenL, mem_flattenL (l := cs)]

theorem nodup_flattenC_of_mem {c : WtoC} : ∀ {l : List WtoC}, (flattenL l).Nodup → c ∈ l → (flattenC c).Nodup
  | [], _, h => by cases h
  | d :: ds, hn, h => by
    simp only [flattenL, List.nodup_append] at hn
    rcases List.mem_cons.1 h with rfl | h
    · exact hn.1
    · exact nodup_flattenC_of_mem hn.2.1 h

/-! ### reachability -/

theorem Reach.trans {g : Graph} {a b c : Nat} (h1 : Reach g a b) (h2 : Reach g b c) : Reach g a c := by
  induction h2 with
  | refl => exact h1
  | step _ hs ih => exact Reach.step ih hs

theorem mem_addNew {x : Nat} : ∀ {l S : List Nat}, x ∈ addNew S l ↔ x ∈ S ∨ x ∈ l
  | [], S => by simp [addNew]
  | v :: l, S => by
    simp only [addNew]
    split
    · rename_i h
      have hv : v ∈ S := by simpa using h
      rw [mem_addNew]
      constructor
      · rintro (h | h)
        · exact Or.inl h
        · exact Or.inr (List.mem_cons_of_mem _ h)
      · rintro (h | h)
        · exact Or.inl h
        · rcases List.mem_cons.1 h with rfl | h
          · exact Or.inl hv
          · exact Or.inr h
    · rw [mem_addNew]
      simp [or_assoc]

theorem nodup_addNew : ∀ {l S : List Nat}, S.Nodup → (addNew S l).Nodup
  | [], S, h => by simpa [addNew] using h
  | v :: l, S, h => by
    simp only [addNew]
    split
    · exact nodup_addNew h
    · rename_i hv
      have hv : v ∉ S := by simpa using hv
      apply nodup_addNew
      rw [List.nodup_append]
      refine ⟨h, by simp, ?_⟩
      intro a ha b hb
      have : b = v := by simpa using hb
      subst this
      intro hab
      exact hv (hab ▸ ha)

theorem length_addNew_ge : ∀ {l S : List Nat}, S.length ≤ (addNew S l).length
  | [], S => by simp [addNew]
  | v :: l, S => by
    simp only [addNew]
    split
    · exact length_addNew_ge
    · exact Nat.le_trans (by simp) (length_addNew_ge (l := l) (S := S ++ [v]))

/-- if nothing is appended, every candidate was already there -/
theorem addNew_length_eq : ∀ {l S : List Nat}, (addNew S l).length = S.length → ∀ x ∈ l, x ∈ S
  | [], S, _, x, hx => by cases hx
  | v :: l, S, h, x, hx => by
    simp only [addNew] at h
    split at h
    · rename_i hv
      have hv : v ∈ S := by simpa using hv
      rcases List.mem_cons.1 hx with rfl | hx
      · exact hv
      · exact addNew_length_eq h x hx
    · have := length_addNew_ge (l := l) (S := S ++ [v])
      simp at this
      omega

theorem reachIter_sound {g : Graph} {e : Nat} : ∀ (k : Nat) (S : List Nat),
    (∀ s ∈ S, Reach g e s) → ∀ x ∈ reachIter g k S, Reach g e x
  | 0, S, hS, x, hx => hS x (by simpa [reachIter] using hx)
  | k + 1, S, hS, x, hx => by
    simp only [reachIter] at hx
    split at hx
    · exact hS x hx
    · refine reachIter_sound k _ ?_ x hx
      intro s hs
      rcases mem_addNew.1 hs with h | h
      · exact hS s h
      · obtain ⟨u, hu, hus⟩ := List.mem_flatMap.1 h
        exact Reach.step (hS u hu) hus

theorem reachList_sound {g : Graph} {e x : Nat} (h : x ∈ reachList g e) : Reach g e x :=
  reachIter_sound g.n [e] (by intro s hs; simp at hs; subst hs; exact Reach.refl) x h

/-- the closure computed with enough rounds is closed under `succ` and contains the start set -/
theorem reachIter_closed {g : Graph} (hg : g.WF) : ∀ (k : Nat) (S : List Nat),
    S.Nodup → (∀ s ∈ S, s < g.n) → g.n ≤ k + S.length →
    (∀ s ∈ S, s ∈ reachIter g k S) ∧
    (∀ u ∈ reachIter g k S, ∀ v ∈ g.succ u, v ∈ reachIter g k S)
  | 0, S, hn, hb, hk => by
    simp only [reachIter]
    refine ⟨fun s hs => hs, ?_⟩
    intro u _ v hv
    -- S has no duplicates, stays below n and has at least n elements: it contains every node
    have hsub : S ⊆ List.range g.n := fun s hs => List.mem_range.2 (hb s hs)
    have hperm : List.range g.n ⊆ S := by
      have hle : (List.range g.n).length ≤ S.length := by simpa using hk
      intro x hx
      apply Classical.byContradiction
      intro hxS
      have : (x :: S).Nodup := List.nodup_cons.2 ⟨hxS, hn⟩
      have h2 := List.Nodup.length_le_of_subset this (l₂ := List.range g.n)
        (by intro y hy; rcases List.mem_cons.1 hy with rfl | hy; exact hx; exact hsub hy)
      simp at h2
      simp at hle
      omega
    exact hperm (List.mem_range.2 (hg u v hv))
  | k + 1, S, hn, hb, hk => by
    simp only [reachIter]
    split
    · rename_i heq
      refine ⟨fun s hs => hs, ?_⟩
      intro u hu v hv
      exact addNew_length_eq heq v (List.mem_flatMap.2 ⟨u, hu, hv⟩)
    · rename_i hne
      have hge := length_addNew_ge (l := S.flatMap g.succ) (S := S)
      have hb' : ∀ s ∈ addNew S (S.flatMap g.succ), s < g.n := by
        intro s hs
        rcases mem_addNew.1 hs with h | h
        · exact hb s h
        · obtain ⟨u, _, hus⟩ := List.mem_flatMap.1 h
          exact hg u s hus
      have ih := reachIter_closed hg k (addNew S (S.flatMap g.succ)) (nodup_addNew hn) hb' (by omega)
      exact ⟨fun s hs => ih.1 s (mem_addNew.2 (Or.inl hs)), ih.2⟩

theorem reachList_complete {g : Graph} (hg : g.WF) {e : Nat} (he : e < g.n) {x : Nat}
    (h : Reach g e x) : x ∈ reachList g e := by
  have hc := reachIter_closed hg g.n [e] (by simp) (by intro s hs; simp at hs; subst hs; exact he) (by simp)
  induction h with
  | refl => exact hc.1 e (by simp)
  | step _ hs ih => exact hc.2 _ ih _ hs

/-! ### cycles containing a node -/

theorem sub_of_sub_tail {c d : WtoC} {l : List WtoC} (h : Sub c l) : Sub c (d :: l) := by
  cases h with
  | here hm => exact Sub.here (List.mem_cons_of_mem _ hm)
  | inside hm hs => exact Sub.inside (List.mem_cons_of_mem _ hm) hs

mutual
theorem headContainsC_sound (h u : Nat) : ∀ (c : WtoC), headContainsC h u c = true →
    ∃ body, Sub (.cycle h body) [c] ∧ u ∈ flattenC (.cycle h body)
  | .vertex _, hc => by simp [headContainsC] at hc
  | .cycle h' body, hc => by
    simp only [headContainsC, Bool.or_eq_true, Bool.and_eq_true, beq_iff_eq] at hc
    rcases hc with ⟨rfl, hu⟩ | hc
    · exact ⟨body, Sub.here (by simp), by simpa [flattenC] using hu⟩
    · obtain ⟨b, hs, hu⟩ := headContainsL_sound h u body hc
      exact ⟨b, Sub.inside (List.mem_singleton.2 rfl) hs, hu⟩
theorem headContainsL_sound (h u : Nat) : ∀ (l : List WtoC), headContainsL h u l = true →
    ∃ body, Sub (.cycle h body) l ∧ u ∈ flattenC (.cycle h body)
  | [], hc => by simp [headContainsL] at hc
  | c :: cs, hc => by
    simp only [headContainsL, Bool.or_eq_true] at hc
    rcases hc with hc | hc
    · obtain ⟨b, hs, hu⟩ := headContainsC_sound h u c hc
      refine ⟨b, ?_, hu⟩
      cases hs with
      | here hm => exact Sub.here (List.mem_cons.2 (Or.inl (List.mem_singleton.1 hm)))
      | inside hm hs => exact Sub.inside (List.mem_cons.2 (Or.inl (List.mem_singleton.1 hm))) hs
    · obtain ⟨b, hs, hu⟩ := headContainsL_sound h u cs hc
      exact ⟨b, sub_of_sub_tail hs, hu⟩
end

theorem headContainsL_of_mem {h u : Nat} {c : WtoC} : ∀ {l : List WtoC}, c ∈ l →
    headContainsC h u c = true → headContainsL h u l = true
  | [], hm, _ => by cases hm
  | d :: ds, hm, hc => by
    simp only [headContainsL, Bool.or_eq_true]
    rcases List.mem_cons.1 hm with rfl | hm
    · exact Or.inl hc
    · exact Or.inr (headContainsL_of_mem hm hc)

theorem headContainsL_complete {h u : Nat} {c : WtoC} {l : List WtoC} (hs : Sub c l) :
    ∀ body, c = .cycle h body → u ∈ flattenC (.cycle h body) → headContainsL h u l = true := by
  induction hs with
  | here hm =>
    intro body hc hu
    subst hc
    apply headContainsL_of_mem hm
    simp only [headContainsC, Bool.or_eq_true, Bool.and_eq_true]
    exact Or.inl ⟨by simp, by simpa [flattenC] using hu⟩
  | inside hm _ ih =>
    intro body hc hu
    apply headContainsL_of_mem hm
    simp only [headContainsC, Bool.or_eq_true]
    exact Or.inr (ih body hc hu)

/-! ### positions -/

theorem before_of_idxOf_lt {u v : Nat} : ∀ {l : List Nat}, l.idxOf u < l.idxOf v → v ∈ l → Before u v l
  | [], _, hv => by cases hv
  | a :: t, hlt, hv => by
    simp only [List.idxOf_cons] at hlt
    by_cases hau : a = u
    · subst hau
      by_cases hav : a = v
      · subst hav; simp at hlt
      · have hvt : v ∈ t := by
          rcases List.mem_cons.1 hv with h | h
          · exact absurd h.symm hav
          · exact h
        obtain ⟨l2, l3, rfl⟩ := List.append_of_mem hvt
        exact ⟨[], l2, l3, rfl⟩
    · by_cases hav : a = v
      · subst hav; simp at hlt
      · have hvt : v ∈ t := by
          rcases List.mem_cons.1 hv with h | h
          · exact absurd h.symm hav
          · exact h
        have h1 : (a == u) = false := by simpa using hau
        have h2 : (a == v) = false := by simpa using hav
        simp only [h1, h2, cond_false] at hlt
        obtain ⟨l1, l2, l3, rfl⟩ := before_of_idxOf_lt (u := u) (v := v) (l := t) (by omega) hvt
        exact ⟨a :: l1, l2, l3, rfl⟩

theorem idxOf_lt_of_before {u v : Nat} {l : List Nat} (hn : l.Nodup) (hb : Before u v l) :
    l.idxOf u < l.idxOf v := by
  obtain ⟨l1, l2, l3, rfl⟩ := hb
  induction l1 with
  | nil =>
    have huv : u ≠ v := by
      intro h; subst h
      simp [List.nodup_cons] at hn
    simp only [List.nil_append, List.idxOf_cons]
    have : (u == v) = false := by simpa using huv
    simp [this]
  | cons a l1 ih =>
    have hn' := hn
    simp only [List.cons_append, List.nodup_cons] at hn'
    have hau : a ≠ u := by
      intro h; subst h
      exact hn'.1 (by simp)
    have hav : a ≠ v := by
      intro h; subst h
      exact hn'.1 (by simp)
    have h1 : (a == u) = false := by simpa using hau
    have h2 : (a == v) = false := by simpa using hav
    simp only [List.cons_append, List.idxOf_cons, h1, h2, cond_false]
    have := ih hn'.2
    omega

end Wto
end Crab
