import CrabProofs.Lemmas.Congruence

/-! The widening of `Crab.Cong` (`congruence::operator||`, "equivalent to join, domain is flat"):
    every strict step lowers (rank, |modulus|) lexicographically, where the rank separates
    bottom, the constants (modulus 0) and the proper congruences. -/
namespace Crab
namespace Cong

/-- rank of a congruence value: bottom above the constants above the proper congruences -/
def wrank (c : Cong) : Nat := if c.isBot then 2 else if c.a = 0 then 1 else 0

/-- (rank, |modulus|): decreases lexicographically on strict widening steps -/
def wmeas (c : Cong) : Nat × Nat := (wrank c, c.a.natAbs)

theorem tmod_eq_zero_of_dvd {a b : Int} (h : a ∣ b) : Int.tmod b a = 0 := by
  obtain ⟨k, rfl⟩ := h
  exact Int.mul_tmod_right a k

theorem mk'_a_natAbs (a b : Int) : (mk' a b).a.natAbs = a.natAbs := by
  unfold mk'
  simp only
  split <;> simp

theorem mk'_isBot (a b : Int) : (mk' a b).isBot = false := rfl

theorem mk'_a_eq_zero_iff (a b : Int) : (mk' a b).a = 0 ↔ a = 0 := by
  unfold mk'
  simp only
  split <;> omega

theorem wmeas_of_proper {c : Cong} (hb : c.isBot = false) (ha : c.a ≠ 0) : wmeas c = (0, c.a.natAbs) := by
  simp [wmeas, wrank, hb, ha]

theorem wrank_of_const {c : Cong} (hb : c.isBot = false) (ha : c.a = 0) : wrank c = 1 := by
  simp [wrank, hb, ha]

theorem wrank_of_proper {c : Cong} (hb : c.isBot = false) (ha : c.a ≠ 0) : wrank c = 0 := by
  simp [wrank, hb, ha]

theorem wrank_of_bot {c : Cong} (hb : c.isBot = true) : wrank c = 2 := by
  simp [wrank, hb]

theorem wrank_le_one {c : Cong} (hb : c.isBot = false) : wrank c ≤ 1 := by
  unfold wrank; simp [hb]; split <;> omega

/-- the joined modulus is not zero unless both arguments are the same constant -/
theorem gcd3_ne_zero_of {xa oa d : Int} (h : ¬ (xa = 0 ∧ oa = 0 ∧ d = 0)) : gcd3 xa oa (iabs d) ≠ 0 := by
  intro h0
  apply h
  have h1 := gcd3_dvd_1 xa oa (iabs d)
  have h2 := gcd3_dvd_2 xa oa (iabs d)
  have h3 := dvd_iabs.mp (gcd3_dvd_3 xa oa (iabs d))
  rw [h0] at h1 h2 h3
  exact ⟨Int.zero_dvd.mp h1, Int.zero_dvd.mp h2, Int.zero_dvd.mp h3⟩

/-- a strict widening step strictly lowers (rank, |modulus|) -/
theorem widen_wmeas_lt {x o : Cong} (h : leq o x = false) :
    Prod.Lex (· < ·) (· < ·) (wmeas (widen x o)) (wmeas x) := by
  have hob : o.isBot = false := by
    cases hb : o.isBot
    · rfl
    · simp [leq, hb] at h
  cases hxb : x.isBot
  · -- x is not bottom
    by_cases hxa : x.a = 0
    · -- a constant: the result is a proper congruence (or top)
      apply Prod.Lex.left
      have hx1 : x.isTop = false := by simp [isTop, hxa]
      show wrank (widen x o) < wrank x
      rw [wrank_of_const hxb hxa]
      cases hot : o.isTop
      · have hne : gcd3 x.a o.a (iabs (x.b - o.b)) ≠ 0 := by
          apply gcd3_ne_zero_of
          rintro ⟨_, h2, h3⟩
          have : o.b = x.b := by omega
          simp [leq, hob, hxb, hxa, h2, this] at h
        have e : widen x o = mk' (gcd3 x.a o.a (iabs (x.b - o.b))) (imin x.b o.b) := by
          simp [widen, join, hxb, hob, hx1, hot]
        rw [e, wrank_of_proper (mk'_isBot _ _) (by rw [Ne, mk'_a_eq_zero_iff]; exact hne)]
        exact Nat.zero_lt_one
      · have e : widen x o = top := by simp [widen, join, hxb, hob, hx1, hot]
        rw [e]
        decide
    · -- a proper congruence: the modulus is replaced by a proper divisor
      have hx1 : x.isTop = false := by
        cases ht : x.isTop
        · rfl
        · have ha : x.a = 1 := by simpa [isTop] using ht
          simp [leq, hob, hxb, ha, Int.tmod_one] at h
      have hnm1 : x.a ≠ -1 := by
        intro ha
        have e : ∀ z : Int, Int.tmod z (-1) = 0 := fun z => tmod_eq_zero_of_dvd ⟨-z, by omega⟩
        simp [leq, hob, hxb, ha, e] at h
      have hn1 : x.a ≠ 1 := by
        intro ha; simp [isTop, ha] at hx1
      rw [wmeas_of_proper hxb hxa]
      cases hot : o.isTop
      · have e : widen x o = mk' (gcd3 x.a o.a (iabs (x.b - o.b))) (imin x.b o.b) := by
          simp [widen, join, hxb, hob, hx1, hot]
        have hdvd1 := gcd3_dvd_1 x.a o.a (iabs (x.b - o.b))
        have hdvd2 := gcd3_dvd_2 x.a o.a (iabs (x.b - o.b))
        have hdvd3 := dvd_iabs.mp (gcd3_dvd_3 x.a o.a (iabs (x.b - o.b)))
        have hg0 : gcd3 x.a o.a (iabs (x.b - o.b)) ≠ 0 := by
          intro h0; rw [h0] at hdvd1; exact hxa (Int.zero_dvd.mp hdvd1)
        have hpos : 0 < x.a.natAbs := Int.natAbs_pos.mpr hxa
        have hle : (gcd3 x.a o.a (iabs (x.b - o.b))).natAbs ≤ x.a.natAbs :=
          Nat.le_of_dvd hpos (Int.natAbs_dvd_natAbs.mpr hdvd1)
        have hneq : (gcd3 x.a o.a (iabs (x.b - o.b))).natAbs ≠ x.a.natAbs := by
          intro heq
          -- then x.a divides the gcd, hence o.a and the difference of the offsets: o ⊑ x
          have hxg : x.a ∣ gcd3 x.a o.a (iabs (x.b - o.b)) :=
            Int.natAbs_dvd_natAbs.mp (by rw [heq]; exact Nat.dvd_refl _)
          have h1 : x.a ∣ o.a := Int.dvd_trans hxg hdvd2
          have h2 : x.a ∣ o.b - x.b := by
            have h3 := Int.dvd_trans hxg hdvd3
            have e : o.b - x.b = -(x.b - o.b) := by omega
            rw [e]; exact Int.dvd_neg.mpr h3
          simp [leq, hob, hxb, hxa, tmod_eq_zero_of_dvd h1, tmod_eq_zero_of_dvd h2] at h
        rw [e, wmeas_of_proper (mk'_isBot _ _) (by rw [Ne, mk'_a_eq_zero_iff]; exact hg0), mk'_a_natAbs]
        exact Prod.Lex.right 0 (by omega)
      · -- the right argument is top: the result is 1Z+0, and |x.a| ≥ 2
        have e : widen x o = top := by simp [widen, join, hxb, hob, hx1, hot]
        rw [e]
        have e1 : wmeas top = (0, 1) := by decide
        rw [e1]
        apply Prod.Lex.right
        omega
  · -- x is bottom: the result is the (non-bottom) right argument
    apply Prod.Lex.left
    show wrank (widen x o) < wrank x
    have e : widen x o = o := by simp [widen, join, hxb]
    rw [e, wrank_of_bot hxb]
    have := wrank_le_one hob
    omega

end Cong
end Crab
