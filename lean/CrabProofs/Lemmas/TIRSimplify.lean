import CrabProofs.Lemmas.TIRRemove
import CrabProofs.Lemmas.TIRMerge

/-!
  `merge_blocks()` (the DFS `merge_blocks_rec`) preserves well-formedness and ALL behaviours
  from the entry, on well-formed CFGs whose exit block has no successor.
-/
namespace Crab
namespace TIR

/-- executions end at the exit block: it is not supposed to have successors -/
def ExitNoSucc (P : Prog) : Prop := ∀ x, P.exit = some x → P.succsOf x = []

structure SInv (P : Prog) : Prop where
  wf : WFp P
  ens : ExitNoSucc P

/-- same entry, same exit, same behaviours, invariant kept -/
structure Good (P T : Prog) : Prop where
  inv : SInv T
  entry : T.entry = P.entry
  exit : T.exit = P.exit
  beh : ∀ σ t o, Beh P σ t o ↔ Beh T σ t o

theorem Good.refl {P : Prog} (h : SInv P) : Good P P := ⟨h, rfl, rfl, fun _ _ _ => Iff.rfl⟩

theorem Good.trans {P Q R : Prog} (h1 : Good P Q) (h2 : Good Q R) : Good P R :=
  ⟨h2.inv, h2.entry.trans h1.entry, h2.exit.trans h1.exit, fun σ t o => (h1.beh σ t o).trans (h2.beh σ t o)⟩

/-- well-formedness only depends on the lookups -/
theorem WFp.congr {P T : Prog} (h : WFp P) (hl : T.labels = P.labels) (he : T.entry = P.entry)
    (hx : T.exit = P.exit) (hs : ∀ l, T.succsOf l = P.succsOf l) (hp : ∀ l, T.predsOf l = P.predsOf l) :
    WFp T where
  nodup := hl ▸ h.nodup
  entry := by rw [hl, he]; exact h.entry
  exit := by intro x hx'; rw [hl]; exact h.exit x (hx ▸ hx')
  sym := by intro l l'; rw [hs, hp]; exact h.sym l l'
  succ_lab := by intro l l' hl'; rw [hs] at hl'; rw [hl]; exact h.succ_lab l l' hl'
  nd_succ := by intro l; rw [hs]; exact h.nd_succ l
  nd_pred := by intro l; rw [hp]; exact h.nd_pred l

theorem addEdge_wfp {P : Prog} (h : WFp P) {a b : Label} (ha : a ∈ P.labels) (hb : b ∈ P.labels) :
    WFp (P.addEdge a b) where
  nodup := by rw [labels_addEdge]; exact h.nodup
  entry := by rw [labels_addEdge]; exact h.entry
  exit := by intro x hx; rw [labels_addEdge]; exact h.exit x hx
  sym := by
    intro l l'
    rw [succsOf_addEdge P a b l ha, predsOf_addEdge P a b l' hb]
    have hs := h.sym l l'
    by_cases h1 : l = a
    · by_cases h2 : l' = b
      · simp only [h1, h2, if_true, mem_insertAdj, or_true]
      · simp only [h1, h2, if_true, if_false, mem_insertAdj]
        rw [h1] at hs
        constructor
        · rintro (x | x)
          · exact hs.mp x
          · exact absurd x (by simpa using h2)
        · intro x; exact Or.inl (hs.mpr x)
    · by_cases h2 : l' = b
      · simp only [h1, h2, if_true, if_false, mem_insertAdj]
        rw [h2] at hs
        constructor
        · intro x; exact Or.inl (hs.mp x)
        · rintro (x | x)
          · exact hs.mpr x
          · exact absurd x (by simpa using h1)
      · simp only [h1, h2, if_false]; exact hs
  succ_lab := by
    intro l l' hl
    rw [labels_addEdge]
    rw [succsOf_addEdge P a b l ha] at hl
    split at hl
    · rcases mem_insertAdj.mp hl with x | x
      · exact h.succ_lab l l' x
      · exact x ▸ hb
    · exact h.succ_lab l l' hl
  nd_succ := by
    intro l
    rw [succsOf_addEdge P a b l ha]
    split
    · exact nodup_insertAdj _ (h.nd_succ l)
    · exact h.nd_succ l
  nd_pred := by
    intro l
    rw [predsOf_addEdge P a b l hb]
    split
    · exact nodup_insertAdj _ (h.nd_pred l)
    · exact h.nd_pred l

theorem mem_filter_ne {xs : List Label} {x l : Label} (h : x ∈ xs) (hne : x ≠ l) :
    x ∈ xs.filter (fun y => y != l) := List.mem_filter.mpr ⟨h, by simpa using hne⟩

/-- the fold step of `merge_blocks_rec` -/
theorem foldStep_good {P P3 : Prog} {cur parent child : Label} {B PB : Block} (hinv : SInv P)
    (hB : P.block? cur = some B) (hsucc : B.succ = [child]) (hpred : B.pred = [parent])
    (hPB : P.block? parent = some PB) (hlen : PB.succ.length = 1)
    (hrem : (if (P.copyBack parent B.stmts).exit == some cur
              then { P.copyBack parent B.stmts with exit := some parent }
              else P.copyBack parent B.stmts).remove cur = some P3)
    (hpc : parent ≠ cur) : Good P (P3.addEdge parent child) := by
  have hwf := hinv.wf
  have hsc : P.succsOf cur = [child] := by simp [Prog.succsOf, hB, hsucc]
  have hpr : P.predsOf cur = [parent] := by simp [Prog.predsOf, hB, hpred]
  have hcurlab : cur ∈ P.labels := mem_labels_of_block hB
  have hparlab : parent ∈ P.labels := mem_labels_of_block hPB
  have hchild : child ∈ P.labels := hwf.succ_lab cur child (by rw [hsc]; simp)
  have hcc : child ≠ cur := by
    intro hc
    have : cur ∈ P.predsOf cur := (hwf.sym cur cur).mp (by rw [hsc, hc]; simp)
    rw [hpr] at this
    exact hpc (List.mem_singleton.mp this).symm
  have hsp : P.succsOf parent = [cur] := by
    have hmem : cur ∈ P.succsOf parent := (hwf.sym parent cur).mpr (by rw [hpr]; simp)
    have hl : (P.succsOf parent).length = 1 := by simp [Prog.succsOf, hPB, hlen]
    match hps : P.succsOf parent, hl with
    | [x], _ => rw [hps] at hmem; simp at hmem; rw [hmem]
  -- the exit is neither `cur` nor `parent`
  have hxc : P.exit ≠ some cur := by
    intro hc; have := hinv.ens cur hc; rw [hsc] at this; cases this
  have hxp : P.exit ≠ some parent := by
    intro hc; have := hinv.ens parent hc; rw [hsp] at this; cases this
  have hP1x : (P.copyBack parent B.stmts).exit = P.exit := rfl
  have hif : (if (P.copyBack parent B.stmts).exit == some cur
              then { P.copyBack parent B.stmts with exit := some parent }
              else P.copyBack parent B.stmts) = P.copyBack parent B.stmts := by
    rw [hP1x]
    have : (P.exit == some cur) = false := by simpa using hxc
    simp [this]
  rw [hif] at hrem
  -- P1 = copyBack
  have hwf1 : WFp (P.copyBack parent B.stmts) :=
    hwf.congr (labels_copyBack _ _ _) rfl rfl (succsOf_copyBack P parent B.stmts) (predsOf_copyBack P parent B.stmts)
  have hspec := remove_spec hwf1 hrem
  have hwf3 : WFp P3 := hspec.wfp hwf1
  have hl3 : P3.labels = P.labels.filter (fun x => x != cur) := by rw [hspec.labels, labels_copyBack]
  have hpar3 : parent ∈ P3.labels := by rw [hl3]; exact mem_filter_ne hparlab hpc
  have hch3 : child ∈ P3.labels := by rw [hl3]; exact mem_filter_ne hchild hcc
  have hwfT : WFp (P3.addEdge parent child) := addEdge_wfp hwf3 hpar3 hch3
  -- lookups of the result
  have hsT : ∀ l, (P3.addEdge parent child).succsOf l =
      if l = parent then [child] else if l = cur then [] else P.succsOf l := by
    intro l
    rw [succsOf_addEdge P3 parent child l hpar3, hspec.succ, succsOf_copyBack]
    by_cases h1 : l = parent
    · subst h1
      simp only [if_true, hpc, if_false, hsp]
      simp [removeAdj, insertAdj]
    · simp only [h1, if_false]
      by_cases h2 : l = cur
      · simp [h2]
      · simp only [h2, if_false]
        apply removeAdj_of_not_mem
        intro hc
        have := (hwf.sym l cur).mp hc
        rw [hpr] at this
        exact h1 (List.mem_singleton.mp this)
  have hstT : ∀ l, (P3.addEdge parent child).stmtsOf l =
      if l = cur then [] else if l = parent then P.stmtsOf parent ++ P.stmtsOf cur else P.stmtsOf l := by
    intro l
    rw [stmtsOf_addEdge, hspec.stmts, stmtsOf_copyBack P parent B.stmts l hparlab]
    have : P.stmtsOf cur = B.stmts := by simp [Prog.stmtsOf, hB]
    by_cases h2 : l = cur
    · simp [h2]
    · simp only [h2, if_false]
      by_cases h1 : l = parent
      · subst h1; simp [this]
      · simp [h1]
  have hexT : (P3.addEdge parent child).exit = P.exit := by
    show P3.exit = P.exit
    rw [hspec.exit, hP1x]
  have hisx : ∀ l, (P3.addEdge parent child).isExit l = P.isExit l := by
    intro l; simp [Prog.isExit, hexT]
  have hentT : (P3.addEdge parent child).entry = P.entry := by
    show P3.entry = P.entry
    rw [hspec.entry]; rfl
  have houtT : (P3.addEdge parent child).outputs = P.outputs := by
    show P3.outputs = P.outputs
    rw [hspec.outs]; rfl
  have hxcF : P.isExit cur = false := by simpa [Prog.isExit] using hxc
  have hxpF : P.isExit parent = false := by simpa [Prog.isExit] using hxp
  have hrel : MergeRel P (P3.addEdge parent child) parent cur := {
    hab := hpc
    outs := houtT
    stmts_a := by rw [hstT]; simp [hpc]
    stmts_o := by intro l h1 h2; rw [hstT]; simp [h1, h2]
    succ_a := by rw [hsT, hsc]; simp
    succ_o := by intro l h1 h2; rw [hsT]; simp [h1, h2]
    succP_a := hsp
    pred_b := by
      intro l hl
      have := (hwf.sym l cur).mp hl
      rw [hpr] at this
      exact List.mem_singleton.mp this
    exitP_a := hxpF
    exit_a := by rw [hisx, hxpF, hxcF]
    exit_o := by intro l _ _; exact hisx l }
  have hne : P.entry ≠ cur := by
    intro hc
    exact hspec.ne_entry (by show cur = P.entry; exact hc.symm)
  refine ⟨⟨hwfT, ?_⟩, hentT, hexT, fun σ t o => merge_beh P _ parent cur hrel hentT hne σ t o⟩
  intro x hx
  rw [hexT] at hx
  rw [hsT]
  have h1 : x ≠ parent := by intro hc; subst hc; exact hxp hx
  have h2 : x ≠ cur := by intro hc; subst hc; exact hxc hx
  simp only [h1, h2, if_false]
  exact hinv.ens x hx

/-- `merge_blocks_rec` and its loop over the children -/
theorem mergeRec_good (v : Variant) : ∀ (fuel : Nat),
    (∀ (P : Prog) (vis : List Label) (cur : Label) (P' : Prog) (vis' : List Label), SInv P →
      mergeRec v fuel P vis cur = some (P', vis') → Good P P') ∧
    (∀ (P : Prog) (vis : List Label) (kids : List Label) (P' : Prog) (vis' : List Label), SInv P →
      mergeKids v fuel P vis kids = some (P', vis') → Good P P') := by
  intro fuel
  induction fuel with
  | zero =>
    constructor
    · intro P vis cur P' vis' _ h; simp [mergeRec] at h
    · intro P vis kids P' vis' hinv h
      cases kids with
      | nil => simp only [mergeKids, Option.some.injEq, Prod.mk.injEq] at h; rw [← h.1]; exact Good.refl hinv
      | cons n r => simp [mergeKids] at h
  | succ fuel ih =>
    obtain ⟨ihR, ihK⟩ := ih
    constructor
    · intro P vis cur P' vis' hinv h
      simp only [mergeRec] at h
      split at h
      · simp only [Option.some.injEq, Prod.mk.injEq] at h; rw [← h.1]; exact Good.refl hinv
      · split at h
        · cases h
        · rename_i B hB
          split at h
          · rename_i child parent hsucc hpred
            split at h
            · exact ihK _ _ _ _ _ hinv h
            · split at h
              · cases h
              · rename_i PB hPB
                split at h
                · rename_i hlen
                  split at h
                  · cases h
                  · rename_i P3 hrem
                    by_cases hpc : parent = cur
                    · -- a block whose only predecessor and successor is itself: after its
                      -- removal the recursive call does not find it
                      exfalso
                      have hsc : P.succsOf cur = [child] := by simp [Prog.succsOf, hB, hsucc]
                      have hpr : P.predsOf cur = [parent] := by simp [Prog.predsOf, hB, hpred]
                      have hcc : child = cur := by
                        have : cur ∈ P.succsOf parent := (hinv.wf.sym parent cur).mpr (by rw [hpr]; simp)
                        rw [hpc, hsc] at this
                        exact (List.mem_singleton.mp this).symm
                      rw [hcc] at h
                      cases fuel with
                      | zero => simp [mergeRec] at h
                      | succ f =>
                        simp only [mergeRec] at h
                        split at h
                        · rename_i hvis
                          simp at hvis
                        · have hwf1 : WFp (P.copyBack parent B.stmts) :=
                            hinv.wf.congr (labels_copyBack _ _ _) rfl rfl (succsOf_copyBack P parent B.stmts)
                              (predsOf_copyBack P parent B.stmts)
                          have hnone : (P3.addEdge parent cur).block? cur = none := by
                            apply block?_none_iff.mpr
                            rw [labels_addEdge]
                            by_cases hx : (P.copyBack parent B.stmts).exit == some cur
                            · rw [if_pos hx] at hrem
                              have hwf2 : WFp { P.copyBack parent B.stmts with exit := some parent } :=
                                { nodup := hwf1.nodup, entry := hwf1.entry,
                                  exit := by
                                    intro x hx'
                                    simp only [Option.some.injEq] at hx'
                                    subst hx'
                                    exact mem_labels_of_block hPB |> fun m => by
                                      show parent ∈ (P.copyBack parent B.stmts).labels
                                      rw [labels_copyBack]; exact m
                                  sym := hwf1.sym, succ_lab := hwf1.succ_lab, nd_succ := hwf1.nd_succ,
                                  nd_pred := hwf1.nd_pred }
                              rw [(remove_spec hwf2 hrem).labels]
                              simp
                            · rw [if_neg hx] at hrem
                              rw [(remove_spec hwf1 hrem).labels]
                              simp
                          rw [hnone] at h
                          cases h
                    · exact (foldStep_good hinv hB hsucc hpred hPB (by simpa using hlen) hrem hpc).trans
                        (ihR _ _ _ _ _ (foldStep_good hinv hB hsucc hpred hPB (by simpa using hlen) hrem hpc).inv h)
                · exact ihK _ _ _ _ _ hinv h
          · exact ihK _ _ _ _ _ hinv h
    · intro P vis kids P' vis' hinv h
      cases kids with
      | nil => simp only [mergeKids, Option.some.injEq, Prod.mk.injEq] at h; rw [← h.1]; exact Good.refl hinv
      | cons n r =>
        simp only [mergeKids] at h
        split at h
        · cases h
        · rename_i P1 vis1 h1
          have g1 := ihR _ _ _ _ _ hinv h1
          exact g1.trans (ihK _ _ _ _ _ g1.inv h)

theorem mergeBlocks_good (v : Variant) {P T : Prog} (hinv : SInv P) (h : mergeBlocks v P = some T) : Good P T := by
  unfold mergeBlocks at h
  cases hr : mergeRec v (mergeFuel P) P [] P.entry with
  | none => rw [hr] at h; cases h
  | some r =>
    rw [hr] at h
    simp only [Option.map_some, Option.some.injEq] at h
    subst h
    exact (mergeRec_good v (mergeFuel P)).1 P [] P.entry r.1 r.2 hinv hr

end TIR
end Crab
