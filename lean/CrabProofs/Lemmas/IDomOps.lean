import CrabProofs.Lemmas.IDomSolver
import CrabProofs.Lemmas.IDomLattice
import CrabProofs.Lemmas.LinCst

/-!
  Soundness of the transformers of the interval domain: `+=` (with the lowering of disequations),
  `entails`, `assign`, `weak_assign`, `apply`, `select`, `forget`, `project`, `expand`, `rename`,
  the integer casts and `to_linear_constraint_system`.
-/
namespace Crab
namespace IDom
open Lin

/-! ### canonical form of the constraints the domain builds itself -/

theorem canonical_neg {e : Expr} (h : e.Canonical) : e.neg.Canonical := ⟨Expr.sorted_neg h.1, Expr.noZero_neg e⟩
theorem canonical_scale {e : Expr} (h : e.Canonical) (n : Int) : (e.scale n).Canonical :=
  ⟨Expr.sorted_scale n h.1, Expr.noZero_scale e n⟩
theorem canonical_const (n : Int) : (Expr.const n).Canonical := ⟨Expr.sorted_const n, Expr.noZero_const n⟩

theorem canonical_negate {c : Cst} (h : c.expr.Canonical) : c.negate.expr.Canonical := by
  unfold Cst.negate Cst.negateWith
  split
  · exact canonical_const 0
  · split
    · exact canonical_const 0
    · cases hk : c.kind <;> simp only []
      · exact h
      · exact h
      · exact canonical_neg ⟨Expr.sorted_subNum 1 h.1, Expr.noZero_subNum 1 h.2⟩
      · exact canonical_neg h

namespace Env

/-! ### `+=` -/

theorem addRaw_sound {e : Env} {σ : State} (hg : γ e σ) {csts : Sys} (hc : ∀ c ∈ csts, c.expr.Canonical)
    (hsat : Sys.sat csts σ) : γ (e.addRaw csts) σ := by
  unfold addRaw
  simp only [hg.1, Bool.false_eq_true, if_false]
  exact solverRun_sound hc hsat _ hg

/-- the restriction of the state to the variables of a constraint built by `entails` -/
theorem γ_restrict {e : Env} {σ : State} (hg : γ e σ) (vs : List Var) :
    ∀ val : Env, γ val σ → γ (vs.foldl (fun val v => val.set v (e.get v)) val) σ := by
  induction vs with
  | nil => intro val h; exact h
  | cons v rest ih =>
    intro val h
    simp only [List.foldl_cons]
    exact ih _ (set_sound_same h (hg.2 v))

theorem entailFn_sound {val : Env} {σ : State} (hg : γ val σ) {c : Cst} (hc : c.expr.Canonical)
    (h : entailFn val c = true) : c.sat σ := by
  apply Classical.byContradiction
  intro hn
  have hs : Sys.sat [c.negate] σ := by
    intro c' hc'
    simp only [List.mem_cons, List.not_mem_nil, or_false] at hc'
    subst hc'
    exact (Cst.sat_negate c σ).2 hn
  have := addRaw_sound hg (csts := [c.negate])
    (by intro c' hc'; simp only [List.mem_cons, List.not_mem_nil, or_false] at hc'; subst hc'; exact canonical_negate hc) hs
  unfold entailFn at h
  exact not_γ_bottom h σ this

/-- `entails` is sound: a yes answer holds in every state of `γ` -/
theorem entails_sound {e : Env} {σ : State} (hg : γ e σ) {c : Cst} (hc : c.expr.Canonical)
    (h : e.entails c = true) : c.sat σ := by
  unfold entails at h
  simp only [hg.1, Bool.false_eq_true, if_false] at h
  split at h
  · rename_i ht; exact Cst.sat_of_isTautology ht σ
  · split at h
    · exact absurd h (by decide)
    · have hval := γ_restrict hg c.expr.variables top (γ_top σ)
      split at h
      · rename_i hk
        split at h
        · exact absurd h (by decide)
        · rename_i h1
          simp at h1
          have s1 := entailFn_sound hval (c := ⟨c.expr, .leq⟩) hc h1
          have s2 := entailFn_sound hval (c := ⟨c.expr.scale (-1), .leq⟩) (canonical_scale hc _) h
          simp only [Cst.sat, Expr.eval_scale] at s1 s2
          simp only [Cst.sat, hk]
          omega
      · exact entailFn_sound hval hc h

theorem binaryOperands_spec {c : Cst} {x y : Var} (h : binaryOperands c = some (x, y)) (σ : State) :
    c.kind = .neq ∧ ∃ n : Int, c.expr.eval σ = n * (σ x - σ y) := by
  unfold binaryOperands at h
  split at h
  · rename_i hk
    split at h
    · rename_i hsz
      split at h
      · rename_i vx nx vy ny hts
        split at h
        · rename_i hn
          simp only [Option.some.injEq, Prod.mk.injEq] at h
          obtain ⟨h1, h2⟩ := h
          subst h1; subst h2
          refine ⟨hk, ny * -1, ?_⟩
          have hc0 : c.expr.cst = 0 := by
            have := hsz.2; simp only [Cst.constant, Expr.constant] at this; omega
          simp only [Expr.eval, hts, Expr.evalTerms, hc0, hn]
          rw [Int.mul_sub]
          have : ny * -1 * σ vy = -(ny * σ vy) := by rw [Int.mul_neg, Int.mul_one, Int.neg_mul]
          omega
        · simp at h
      · simp at h
    · simp at h
  · simp at h

theorem canonical_var_sub_var (x y : Var) : ((Expr.var x).subVar y).Canonical :=
  ⟨Expr.sorted_subVar y (Expr.sorted_var x), Expr.noZero_subVar y (Expr.noZero_var x)⟩
theorem canonical_sub_var_var (x y : Var) : (Expr.sub (Expr.var x) (Expr.var y)).Canonical :=
  ⟨Expr.sorted_sub _ (Expr.sorted_var x), Expr.noZero_sub _ (Expr.noZero_var x)⟩

/-- the constraints added by `lower_disequality` hold in every state of `γ` that satisfies the
    disequation, and are canonical -/
theorem lowerDisequality_sound {e : Env} {σ : State} (hg : γ e σ) {c : Cst} (hsat : c.sat σ)
    {out : Sys} (ho : ∀ c' ∈ out, c'.sat σ ∧ c'.expr.Canonical) :
    ∀ c' ∈ e.lowerDisequality c out, c'.sat σ ∧ c'.expr.Canonical := by
  unfold lowerDisequality
  split
  · rename_i x y hb
    obtain ⟨hk, n, hn⟩ := binaryOperands_spec hb σ
    have hne : σ x ≠ σ y := by
      intro he
      have : c.expr.eval σ = 0 := by rw [hn, he]; simp
      simp [Cst.sat, hk] at hsat; exact hsat this
    simp only []
    split
    · rename_i h1
      have s1 := entails_sound hg (canonical_var_sub_var x y) h1
      have ex : ∀ v, (Expr.var v).eval σ = σ v := fun v => by simp [Expr.eval, Expr.var, Expr.evalTerms]
      simp only [Cst.sat, Expr.eval_subVar, ex] at s1
      intro c' hc'
      rcases Sys.mem_addCst.1 hc' with hc' | hc'
      · exact ho c' hc'
      · subst hc'
        refine ⟨?_, canonical_sub_var_var x y⟩
        simp only [Cst.sat, Expr.eval_sub, ex]
        omega
    · split
      · rename_i h1 h2
        have s1 := entails_sound hg (canonical_var_sub_var y x) h2
        have ex : ∀ v, (Expr.var v).eval σ = σ v := fun v => by simp [Expr.eval, Expr.var, Expr.evalTerms]
        simp only [Cst.sat, Expr.eval_subVar, ex] at s1
        intro c' hc'
        rcases Sys.mem_addCst.1 hc' with hc' | hc'
        · exact ho c' hc'
        · subst hc'
          refine ⟨?_, canonical_sub_var_var y x⟩
          simp only [Cst.sat, Expr.eval_sub, ex]
          omega
      · exact ho
  · exact ho

theorem preprocess_sound {e : Env} {σ : State} (hg : γ e σ) :
    ∀ (csts : List Cst) (pp : Sys), (∀ c ∈ csts, c.sat σ ∧ c.expr.Canonical) →
      (∀ c ∈ pp, c.sat σ ∧ c.expr.Canonical) →
      ∀ c ∈ e.preprocess csts pp, c.sat σ ∧ c.expr.Canonical := by
  intro csts
  induction csts with
  | nil => intro pp _ hp; exact hp
  | cons c rest ih =>
    intro pp hc hp
    unfold preprocess
    apply ih _ (fun q hq => hc q (List.mem_cons_of_mem _ hq))
    have hc0 := hc c List.mem_cons_self
    intro c' hc'
    rcases Sys.mem_addCst.1 hc' with hc' | hc'
    · split at hc'
      · exact lowerDisequality_sound hg hc0.1 hp c' hc'
      · exact hp c' hc'
    · subst hc'; exact hc0

/-- **soundness of `operator+=`** (lowering of disequations + solver) -/
theorem add_sound {e : Env} {σ : State} (hg : γ e σ) {csts : Sys} (hc : ∀ c ∈ csts, c.expr.Canonical)
    (hsat : Sys.sat csts σ) : γ (e.add csts) σ := by
  unfold add
  simp only [hg.1, Bool.false_eq_true, if_false]
  have hp := preprocess_sound hg csts [] (fun c h => ⟨hsat c h, hc c h⟩) (by simp)
  exact solverRun_sound (fun c h => (hp c h).2) (fun c h => (hp c h).1) _ hg

/-- on a single constraint that is not a disequation `+=` does no lowering: this is the form in
    which `entails` uses it -/
theorem add_single_eq_addRaw (e : Env) {c : Cst} (h : c.kind ≠ .neq) : e.add [c] = e.addRaw [c] := by
  unfold add addRaw preprocess preprocess
  simp [h, Sys.addCst]

/-! ### evaluation of expressions, assignments -/

theorem evalFold_sound {e : Env} {σ : State} (hg : γ e σ) :
    ∀ (ts : List (Var × Int)) (r : Itv) (a : Int), Itv.mem a r →
      Itv.mem (a + Expr.evalTerms σ ts)
        (ts.foldl (fun r p => addT r (Itv.mul (Itv.single p.2) (e.get p.1))) r) := by
  intro ts
  induction ts with
  | nil => intro r a h; simpa [Expr.evalTerms] using h
  | cons p rest ih =>
    obtain ⟨v, c⟩ := p
    intro r a h
    simp only [List.foldl_cons, Expr.evalTerms]
    have := ih _ _ (addT_sound h (Itv.mul_sound ((Itv.mem_single c c).2 rfl) (hg.2 v)))
    have e' : a + (c * σ v + Expr.evalTerms σ rest) = a + c * σ v + Expr.evalTerms σ rest := by omega
    rw [e']; exact this

theorem evalExpr_sound {e : Env} {σ : State} (hg : γ e σ) (ex : Expr) : Itv.mem (ex.eval σ) (e.evalExpr ex) := by
  unfold evalExpr Expr.eval
  have := evalFold_sound hg ex.terms (Itv.single ex.cst) ex.cst ((Itv.mem_single _ _).2 rfl)
  rw [Int.add_comm]; exact this

theorem getVariable_spec {ex : Expr} {v : Var} (h : getVariable ex = some v) (σ : State) : ex.eval σ = σ v := by
  unfold getVariable at h
  split at h
  · simp at h
  · split at h
    · rename_i hc
      split at h
      · rename_i v' c hts
        split at h
        · rename_i h1
          simp only [Option.some.injEq] at h
          subst h; subst h1
          simp [Expr.eval, hts, Expr.evalTerms, hc.1]
        · simp at h
      · simp at h
    · simp at h

/-- the value `assign` / `weak_assign` compute for the right-hand side contains its value -/
theorem rhs_sound {e : Env} {σ : State} (hg : γ e σ) (ex : Expr) :
    Itv.mem (ex.eval σ) (match getVariable ex with | some v => e.get v | none => e.evalExpr ex) := by
  cases h : getVariable ex with
  | some v => simp only []; rw [getVariable_spec h σ]; exact hg.2 v
  | none => exact evalExpr_sound hg ex

theorem assign_sound {e : Env} {σ : State} (hg : γ e σ) (x : Var) (ex : Expr) :
    γ (e.assign x ex) (upd σ x (ex.eval σ)) := by
  have := rhs_sound hg ex
  unfold assign
  cases h : getVariable ex with
  | some v => rw [h] at this; exact set_sound hg this x
  | none => rw [h] at this; exact set_sound hg this x

/-- `join(k, v)`: the variable keeps its value or takes any member of `v` -/
theorem joinKey_sound_old {e : Env} {σ : State} (hg : γ e σ) (k : Var) {v : Itv} (hv : v.isBottom = false) :
    γ (e.joinKey k v) σ := by
  unfold joinKey
  simp only [hg.1, hv, Bool.false_eq_true, if_false]
  have hf : γ (⟨false, e.m.remove k⟩ : Env) σ := by
    have := forget_sound_same hg k; simpa [forget, hg.1] using this
  split
  · exact hf
  · split
    · exact hf
    · rename_i old hold
      split
      · exact hf
      · have hm : Itv.mem (σ k) (Itv.join old v) :=
          Itv.join_upper_left ((γ_iff_of_not_bottom hg.1 σ).1 hg k old hold)
        rw [γ_iff_of_not_bottom rfl]
        intro x w hw
        simp only [Map.find_insert] at hw
        split at hw
        · rename_i hx; simp only [Option.some.injEq] at hw; subst hw; subst hx; exact hm
        · exact (γ_iff_of_not_bottom hg.1 σ).1 hg x w hw

theorem joinKey_sound_new {e : Env} {σ : State} (hg : γ e σ) (k : Var) {v : Itv} {n : Int} (hn : Itv.mem n v) :
    γ (e.joinKey k v) (upd σ k n) := by
  have hv := Itv.isBottom_false_of_mem hn
  unfold joinKey
  simp only [hg.1, hv, Bool.false_eq_true, if_false]
  have hf : γ (⟨false, e.m.remove k⟩ : Env) (upd σ k n) := by
    have := forget_sound hg k n; simpa [forget, hg.1] using this
  split
  · exact hf
  · split
    · exact hf
    · rename_i old hold
      split
      · exact hf
      · have hm : Itv.mem n (Itv.join old v) := Itv.join_upper_right hn
        rw [γ_iff_of_not_bottom rfl]
        intro x w hw
        simp only [Map.find_insert] at hw
        split at hw
        · rename_i hx; simp only [Option.some.injEq] at hw; subst hw; subst hx; simpa using hm
        · rename_i hx; rw [upd_other _ _ hx]; exact (γ_iff_of_not_bottom hg.1 σ).1 hg x w hw

/-- `weak_assign`: the variable keeps its value or receives the value of the expression -/
theorem weakAssign_sound {e : Env} {σ : State} (hg : γ e σ) (x : Var) (ex : Expr) :
    γ (e.weakAssign x ex) σ ∧ γ (e.weakAssign x ex) (upd σ x (ex.eval σ)) := by
  have := rhs_sound hg ex
  unfold weakAssign
  cases h : getVariable ex with
  | some v =>
    rw [h] at this
    exact ⟨joinKey_sound_old hg x (Itv.isBottom_false_of_mem this), joinKey_sound_new hg x this⟩
  | none =>
    rw [h] at this
    exact ⟨joinKey_sound_old hg x (Itv.isBottom_false_of_mem this), joinKey_sound_new hg x this⟩

/-! ### forget, project, expand, rename -/

end Env
end IDom
end Crab
