import CrabProofs.Lemmas.InterSim

/-!
  `Inv.step`: the decomposition invariant of `InterSim.lean` is preserved by every step of the
  call-stack machine; `Inv.runFrom`; the invariant holds in the start configurations.
-/
namespace Crab.Inter

variable {p : IProg} {S : SimSpec}

theorem Inv.same {c c' : Config} (hc : Inv p S c) (h1 : c'.stack = c.stack)
    (h2 : c'.tr.events = c.tr.events) (h3 : c'.tr.calls = c.tr.calls) : Inv p S c' :=
  ⟨by rw [h1]; exact hc.frames, by rw [h1]; exact hc.chain, by rw [h1]; exact hc.loc,
   by rw [h2]; exact hc.evs, by rw [h3]; exact hc.recs⟩

/-- a frame of the same activation with another environment that keeps the input parameters -/
theorem FrameOK.update {fr fr' : Frame} (h : FrameOK p fr) (hfn : fr'.fn = fr.fn)
    (hin : fr'.inVals = fr.inVals) (hsz : fr'.env.size = fr.env.size)
    (hkeep : ∀ v, v ∈ (p.fn fr.fn).ins → fr'.env.getD v 0 = fr.env.getD v 0) : FrameOK p fr' := by
  obtain ⟨h1, h2, h3, h4⟩ := h
  refine ⟨by rw [hfn]; exact h1, by rw [hsz]; exact h2, ?_, by rw [hfn, hin]; exact h4⟩
  rw [hfn, hin]
  exact MatchVals.of_getD_eq hkeep h3

/-- the top frame is replaced by a frame of the same activation; the trace keeps its events
    and call records -/
theorem Inv.topUpdate {c c' : Config} {fr fr' : Frame} {rest : List Frame}
    (hc : Inv p S c) (hst : c.stack = fr :: rest) (hst' : c'.stack = fr' :: rest)
    (hfn : fr'.fn = fr.fn) (hin : fr'.inVals = fr.inVals) (hok : FrameOK p fr')
    (hloc : S.Cov fr.fn → S.At p fr.fn fr'.blk fr'.pc fr'.env)
    (hev : ∀ e, e ∈ c'.tr.events → e ∈ c.tr.events ∨ EvOK p S e)
    (hcalls : ∀ r, r ∈ c'.tr.calls → r ∈ c.tr.calls ∨ RecOK p S r) : Inv p S c' := by
  refine ⟨?_, ?_, ?_, ?_, fun r hr => (hcalls r hr).elim (hc.recs r) id⟩
  · intro f hf
    rw [hst'] at hf
    rcases List.mem_cons.mp hf with rfl | hf
    · exact hok
    · exact hc.frames f (by rw [hst]; exact List.mem_cons_of_mem _ hf)
  · rw [hst']
    exact Chain.replaceTop (by rw [← hst]; exact hc.chain) hfn hin
  · intro f hf hcov
    rw [hst'] at hf
    rcases List.mem_cons.mp hf with rfl | hf
    · rw [hfn] at hcov ⊢; exact hloc hcov
    · exact hc.loc f (by rw [hst]; exact List.mem_cons_of_mem _ hf) hcov
  · intro e he
    rcases hev e he with h | h
    · exact hc.evs e h
    · exact h

theorem mkFrame_env_size (p : IProg) (ch : Choices) (ci g : Nat) (iv : List Int) :
    (mkFrame p ch ci g iv).env.size = p.nv := by
  simp [mkFrame, setMany_size]

theorem mkFrame_match (p : IProg) (ch : Choices) (ci g : Nat) (iv : List Int)
    (hnd : (p.fn g).ins.Nodup) (hlt : ∀ v, v ∈ (p.fn g).ins → v < p.nv) :
    MatchVals (p.fn g).ins iv (toSt (mkFrame p ch ci g iv).env) := by
  simp only [mkFrame]
  apply setMany_match _ _ _ hnd
  intro x hx
  simpa using hlt x hx

theorem mkFrame_ok (hP : ProgOK p) (ch : Choices) (ci g : Nat) (iv : List Int) (hg : g < p.funs.size)
    (hlen : iv.length = (p.fn g).ins.length ∨ g = p.main) : FrameOK p (mkFrame p ch ci g iv) :=
  ⟨hg, mkFrame_env_size p ch ci g iv, mkFrame_match p ch ci g iv (hP g hg).ins_nodup (hP g hg).ins_lt, hlen⟩

/-- the top frame at the end of its block -/
theorem at_end {fr : Frame} (hloc : S.At p fr.fn fr.blk fr.pc fr.env)
    (hpc : ¬ fr.pc < ((p.fn fr.fn).blk fr.blk).stmts.size) :
    S.At p fr.fn fr.blk ((p.fn fr.fn).blk fr.blk).stmts.size fr.env := by
  obtain ⟨s0, h1, h2⟩ := hloc
  have : fr.pc = ((p.fn fr.fn).blk fr.blk).stmts.size := Nat.le_antisymm h2.le_size (Nat.le_of_not_lt hpc)
  rw [this] at h2
  exact ⟨s0, h1, h2⟩

theorem evOK_end {fr : Frame} (hok : FrameOK p fr) (hloc : S.Cov fr.fn → S.At p fr.fn fr.blk fr.pc fr.env)
    (hpc : ¬ fr.pc < ((p.fn fr.fn).blk fr.blk).stmts.size) :
    EvOK p S ⟨fr.fn, fr.blk, true, fr.env⟩ := by
  refine ⟨hok.1, ?_⟩
  intro hcov
  simpa using at_end (hloc hcov) hpc

/-- one statement of the top frame that writes one variable -/
theorem Inv.write {c c' : Config} {fr : Frame} {rest : List Frame} (hP : ProgOK p) (hc : Inv p S c)
    (hst : c.stack = fr :: rest) (hpc : fr.pc < ((p.fn fr.fn).blk fr.blk).stmts.size) (x : Var) (v : Int)
    (hdef : x ∈ (((p.fn fr.fn).blk fr.blk).stmts.getD fr.pc default).defs)
    (hstep : ∀ CR, LStep CR (((p.fn fr.fn).blk fr.blk).stmts.getD fr.pc default) fr.env (fr.env.setIfInBounds x v))
    (hst' : c'.stack = { fr with env := fr.env.setIfInBounds x v, pc := fr.pc + 1 } :: rest)
    (hev : c'.tr.events = c.tr.events) (hcalls : c'.tr.calls = c.tr.calls) : Inv p S c' := by
  have hfrm : fr ∈ c.stack := by rw [hst]; exact List.mem_cons_self ..
  have hok := hc.frames fr hfrm
  have hx : x ∉ (p.fn fr.fn).ins := ((hP fr.fn hok.1).stmts fr.blk fr.pc hpc).1 x hdef
  refine Inv.topUpdate hc hst hst' rfl rfl ?_ ?_ (fun e he => Or.inl (hev ▸ he)) (fun r hr => Or.inl (hcalls ▸ hr))
  · refine FrameOK.update hok rfl rfl (Array.size_setIfInBounds ..) ?_
    intro y hy
    exact getD_set_other _ _ _ _ (fun e => hx (e ▸ hy))
  · intro hcov
    exact LocalAt.next (hc.loc fr hfrm hcov) hpc (hstep _)

/-- one statement of the top frame that only tests the frame -/
theorem Inv.test {c c' : Config} {fr : Frame} {rest : List Frame} (hc : Inv p S c)
    (hst : c.stack = fr :: rest) (hpc : fr.pc < ((p.fn fr.fn).blk fr.blk).stmts.size)
    (hstep : ∀ CR, LStep CR (((p.fn fr.fn).blk fr.blk).stmts.getD fr.pc default) fr.env fr.env)
    (hst' : c'.stack = { fr with pc := fr.pc + 1 } :: rest)
    (hev : c'.tr.events = c.tr.events) (hcalls : c'.tr.calls = c.tr.calls) : Inv p S c' := by
  have hfrm : fr ∈ c.stack := by rw [hst]; exact List.mem_cons_self ..
  refine Inv.topUpdate hc hst hst' rfl rfl ?_ ?_ (fun e he => Or.inl (hev ▸ he)) (fun r hr => Or.inl (hcalls ▸ hr))
  · exact FrameOK.update (hc.frames fr hfrm) rfl rfl rfl (fun _ _ => rfl)
  · intro hcov
    exact LocalAt.next (hc.loc fr hfrm hcov) hpc (hstep _)

/-- a call from the top frame -/
theorem Inv.call {c : Config} {fr : Frame} {rest : List Frame} {h : Nat} {lhs args : List Var}
    (hP : ProgOK p) (hentry : EntryOK p S) (ch : Choices) (hc : Inv p S c)
    (hst : c.stack = fr :: rest) (hpc : fr.pc < ((p.fn fr.fn).blk fr.blk).stmts.size)
    (hs : ((p.fn fr.fn).blk fr.blk).stmts.getD fr.pc default = .call h lhs args) (hh : h < p.funs.size) :
    Inv p S { c with stack := mkFrame p ch c.ci h (args.map (fun a => fr.env.getD a 0)) :: fr :: rest,
                     ci := c.ci + p.nv,
                     tr := c.tr.event (mkFrame p ch c.ci h (args.map (fun a => fr.env.getD a 0))) false } := by
  have hfrm : fr ∈ c.stack := by rw [hst]; exact List.mem_cons_self ..
  have hok := hc.frames fr hfrm
  have hS := (hP fr.fn hok.1).stmts fr.blk fr.pc hpc
  rw [hs] at hS
  have hlen : args.length = (p.fn h).ins.length := hS.2.2.2.2.2
  have hnf : FrameOK p (mkFrame p ch c.ci h (args.map (fun a => fr.env.getD a 0))) :=
    mkFrame_ok hP ch c.ci h _ hh (Or.inl (by simpa using hlen))
  have hnloc : S.Cov h → S.At p h 0 0 (mkFrame p ch c.ci h (args.map (fun a => fr.env.getD a 0))).env := by
    intro hcovh
    exact LocalAt.entry (hentry fr.fn h fr.blk fr.pc fr.env lhs args _ hok.1 hcovh (hc.loc fr hfrm) hpc hs
        hok.2.1 hnf.2.1 hnf.2.2.1)
  refine ⟨?_, ?_, ?_, ?_, hc.recs⟩
  · intro f hf
    rcases List.mem_cons.mp hf with rfl | hf
    · exact hnf
    · exact hc.frames f (by rw [hst]; exact hf)
  · refine ⟨⟨lhs, args, hs, hpc, rfl⟩, ?_⟩
    rw [← hst]; exact hc.chain
  · intro f hf hcov
    rcases List.mem_cons.mp hf with rfl | hf
    · exact hnloc hcov
    · exact hc.loc f (by rw [hst]; exact hf) hcov
  · intro e he
    rcases Array.mem_push.mp he with he | rfl
    · exact hc.evs e he
    · exact ⟨hh, fun hcov => hnloc hcov⟩

/-- the top frame returns to its caller -/
theorem Inv.ret {c : Config} {fr caller : Frame} {rest : List Frame} {h : Nat} {lhs args : List Var}
    (hP : ProgOK p) (hc : Inv p S c) (hret : RetOK p S c)
    (hst : c.stack = fr :: caller :: rest) (hpc : ¬ fr.pc < ((p.fn fr.fn).blk fr.blk).stmts.size)
    (hex : fr.blk = (p.fn fr.fn).exit)
    (hs : ((p.fn caller.fn).blk caller.blk).stmts.getD caller.pc default = .call h lhs args)
    (hcpc : caller.pc < ((p.fn caller.fn).blk caller.blk).stmts.size)
    (hh : h = fr.fn) (hin : fr.inVals = args.map (fun a => caller.env.getD a 0)) :
    Inv p S { c with stack := { caller with env := setMany caller.env lhs ((p.fn fr.fn).outs.map (fun o => fr.env.getD o 0)),
                                            pc := caller.pc + 1 } :: rest,
                     tr := retTrace p c fr } := by
  subst hh
  have hfrm : fr ∈ c.stack := by rw [hst]; exact List.mem_cons_self ..
  have hcm : caller ∈ c.stack := by rw [hst]; exact List.mem_cons_of_mem _ (List.mem_cons_self ..)
  have hok := hc.frames fr hfrm
  have hcok := hc.frames caller hcm
  have hS := (hP caller.fn hcok.1).stmts caller.blk caller.pc hcpc
  rw [hs] at hS
  have hc' : Inv p S { c with stack := caller :: rest } :=
    ⟨fun f hf => hc.frames f (by rw [hst]; exact List.mem_cons_of_mem _ hf),
     (by have := hc.chain; rw [hst] at this; exact this.2),
     fun f hf => hc.loc f (by rw [hst]; exact List.mem_cons_of_mem _ hf), hc.evs, hc.recs⟩
  have hat : S.Cov fr.fn → S.At p fr.fn (p.fn fr.fn).exit ((p.fn fr.fn).blk (p.fn fr.fn).exit).stmts.size fr.env := by
    intro hcov
    have := at_end (hc.loc fr hfrm hcov) hpc
    rwa [hex] at this
  refine Inv.topUpdate hc' rfl rfl rfl rfl ?_ ?_ ?_ ?_
  · refine FrameOK.update hcok rfl rfl (setMany_size ..) ?_
    intro y hy
    apply setMany_other
    intro hyl
    exact hS.1 y hyl hy
  · intro hcov
    refine LocalAt.next (hc.loc caller hcm hcov) hcpc ?_
    rw [hs]
    refine ⟨_, ?_, rfl⟩
    have := hret fr caller rest hst hpc hex hcov
    rw [hin] at this
    exact this
  · intro e he
    rcases Array.mem_push.mp he with he | rfl
    · exact Or.inl he
    · exact Or.inr (evOK_end (hc.frames fr hfrm) (hc.loc fr hfrm) hpc)
  · intro r hr
    rcases Array.mem_push.mp hr with hr | rfl
    · exact Or.inl hr
    · refine Or.inr ⟨hok.1, hok.2.2.2, ?_⟩
      intro hcov
      exact ⟨fr.env, hat hcov, rfl, hok.2.2.1, hok.2.1⟩

/-- the last frame returns -/
theorem Inv.retLast {c : Config} {fr : Frame} (hc : Inv p S c)
    (hst : c.stack = [fr]) (hpc : ¬ fr.pc < ((p.fn fr.fn).blk fr.blk).stmts.size)
    (hex : fr.blk = (p.fn fr.fn).exit) :
    Inv p S { c with stack := [], tr := retTrace p c fr, status := .done } := by
  have hfrm : fr ∈ c.stack := by rw [hst]; exact List.mem_cons_self ..
  have hok := hc.frames fr hfrm
  refine ⟨(fun f hf => nomatch hf), trivial, (fun f hf => nomatch hf), ?_, ?_⟩
  · intro e he
    rcases Array.mem_push.mp he with he | rfl
    · exact hc.evs e he
    · exact evOK_end (hc.frames fr hfrm) (hc.loc fr hfrm) hpc
  · intro r hr
    rcases Array.mem_push.mp hr with hr | rfl
    · exact hc.recs r hr
    · refine ⟨hok.1, hok.2.2.2, ?_⟩
      intro hcov
      have := at_end (hc.loc fr hfrm hcov) hpc
      rw [hex] at this
      exact ⟨fr.env, this, rfl, hok.2.2.1, hok.2.1⟩

theorem Inv.step (hP : ProgOK p) (hentry : EntryOK p S) (ch : Choices) {c : Config}
    (hc : Inv p S c) (hret : RetOK p S c) : Inv p S (step p ch c) := by
  cases hst : c.stack with
  | nil => rw [step_nil hst]; exact Inv.same hc rfl rfl rfl
  | cons fr rest =>
    have hfrm : fr ∈ c.stack := by rw [hst]; exact List.mem_cons_self ..
    by_cases hpc : fr.pc < ((p.fn fr.fn).blk fr.blk).stmts.size
    · cases hs : ((p.fn fr.fn).blk fr.blk).stmts.getD fr.pc default with
      | assign x e =>
        rw [step_assign hst hpc hs]
        exact Inv.write hP hc hst hpc x _ (by rw [hs]; simp [IStmt.defs]) (fun CR => by rw [hs]; exact rfl) rfl rfl rfl
      | bin op x y z =>
        rw [step_bin hst hpc hs]
        exact Inv.write hP hc hst hpc x _ (by rw [hs]; simp [IStmt.defs]) (fun CR => by rw [hs]; exact rfl) rfl rfl rfl
      | havoc x =>
        rw [step_havoc hst hpc hs]
        exact Inv.write hP hc hst hpc x _ (by rw [hs]; simp [IStmt.defs]) (fun CR => by rw [hs]; exact ⟨_, rfl⟩) rfl rfl rfl
      | assume cst =>
        rw [step_assume hst hpc hs]
        by_cases hsat : cst.sat fr.env = true
        · simp only [hsat, if_true]
          exact Inv.test hc hst hpc (fun CR => by rw [hs]; exact ⟨hsat, rfl⟩) rfl rfl rfl
        · simp only [hsat]
          exact Inv.same hc rfl rfl rfl
      | assert id cst =>
        rw [step_assert hst hpc hs]
        by_cases hsat : cst.sat fr.env = true
        · simp only [hsat, if_true]
          exact Inv.test hc hst hpc (fun CR => by rw [hs]; exact ⟨hsat, rfl⟩) rfl rfl rfl
        · simp only [hsat]
          exact Inv.same hc rfl rfl rfl
      | call h lhs args =>
        by_cases hh : h < p.funs.size
        · rw [step_call hst hpc hs hh]
          exact Inv.call hP hentry ch hc hst hpc hs hh
        · rw [step_call_stuck hst hpc hs hh]
          exact Inv.same hc rfl rfl rfl
    · by_cases hex : fr.blk = (p.fn fr.fn).exit
      · cases rest with
        | nil => rw [step_ret_last hst hpc hex]; exact Inv.retLast hc hst hpc hex
        | cons caller rest' =>
          have hch := hc.chain
          rw [hst] at hch
          obtain ⟨lhs, args, hs, hcpc, hin⟩ := hch.1
          rw [step_ret hst hpc hex hs]
          exact Inv.ret hP hc hret hst hpc hex hs hcpc rfl hin
      · by_cases hsz : ((p.fn fr.fn).blk fr.blk).succs.size = 0
        · rw [step_dead hst hpc hex hsz]
          refine ⟨hc.frames, hc.chain, hc.loc, ?_, hc.recs⟩
          intro e he
          rcases Array.mem_push.mp he with he | rfl
          · exact hc.evs e he
          · exact evOK_end (hc.frames fr hfrm) (hc.loc fr hfrm) hpc
        · rw [step_goto hst hpc hex hsz]
          have hmem : (gotoFrame p ch c fr).blk ∈ ((p.fn fr.fn).blk fr.blk).succs.toList := by
            simp only [gotoFrame]
            have hlt : (ch c.ci).natAbs % ((p.fn fr.fn).blk fr.blk).succs.size < ((p.fn fr.fn).blk fr.blk).succs.size :=
              Nat.mod_lt _ (Nat.pos_of_ne_zero hsz)
            rw [Array.mem_toList_iff, Array.getD_eq_getD_getElem?, Array.getElem?_eq_getElem hlt]
            simp
          have hnew : S.Cov fr.fn → S.At p fr.fn (gotoFrame p ch c fr).blk 0 fr.env := fun hcov =>
            LocalAt.goto (at_end (hc.loc fr hfrm hcov) hpc) hmem
          refine Inv.topUpdate hc hst rfl rfl rfl ?_ hnew ?_ (fun r hr => Or.inl hr)
          · exact FrameOK.update (hc.frames fr hfrm) rfl rfl rfl (fun _ _ => rfl)
          · intro e he
            rcases Array.mem_push.mp he with he | rfl
            · rcases Array.mem_push.mp he with he | rfl
              · exact Or.inl he
              · exact Or.inr (evOK_end (hc.frames fr hfrm) (hc.loc fr hfrm) hpc)
            · refine Or.inr ⟨(hc.frames fr hfrm).1, fun hcov => ?_⟩
              have h := hnew hcov
              simp only [Bool.false_eq_true, if_false]
              exact h

theorem Inv.runFrom (hP : ProgOK p) (hentry : EntryOK p S) (ch : Choices)
    (hret : ∀ c, Inv p S c → RetOK p S c) :
    ∀ (fuel : Nat) (c : Config), Inv p S c → Inv p S (runFrom p ch fuel c)
  | 0, c, hc => hc
  | fuel + 1, c, hc => by
    unfold Crab.Inter.runFrom
    split
    · exact Inv.runFrom hP hentry ch hret fuel _ (Inv.step hP hentry ch hc (hret c hc))
    · exact hc

theorem initConfig_eq (p : IProg) (ch : Choices) : initConfig p ch = callConfig p ch p.main [] := rfl

/-- the invariant holds when a function is started in isolation (and at `initConfig`) -/
theorem Inv.start (hP : ProgOK p) (ch : Choices) (g : Nat) (iv : List Int) (hg : g < p.funs.size)
    (hlen : iv.length = (p.fn g).ins.length ∨ g = p.main)
    (hE : S.Cov g → S.E g (mkFrame p ch 0 g iv).env) : Inv p S (callConfig p ch g iv) := by
  have hloc : S.Cov g → S.At p g 0 0 (mkFrame p ch 0 g iv).env := fun hcov => LocalAt.entry (hE hcov)
  refine ⟨?_, trivial, ?_, ?_, ?_⟩
  · intro f hf
    rcases List.mem_cons.mp hf with rfl | hf
    · exact mkFrame_ok hP ch 0 g iv hg hlen
    · nomatch hf
  · intro f hf hcov
    rcases List.mem_cons.mp hf with rfl | hf
    · exact hloc hcov
    · nomatch hf
  · intro e he
    rcases Array.mem_push.mp he with he | rfl
    · simp at he
    · exact ⟨hg, fun hcov => hloc hcov⟩
  · intro r hr
    simp [callConfig, Trace.event] at hr

end Crab.Inter
