import CrabProofs.Lemmas.IntervalLattice

/-! Arithmetic of `Crab.Itv` versus concretisation: soundness, definedness (no CRAB_ERROR on
    well-formed operands) and exactness of `+`, `-`, unary `-`. -/
namespace Crab
namespace Itv
open Bound

theorem add_sound {x y r : Itv} {a b : Int} (ha : mem a x) (hb : mem b y)
    (h : add x y = some r) : mem (a + b) r := by
  unfold add at h
  simp [isBottom_false_of_mem ha, isBottom_false_of_mem hb] at h
  obtain ⟨ha1, ha2⟩ := ha
  obtain ⟨hb1, hb2⟩ := hb
  split at h <;> simp at h
  rename_i l u hl hu
  subst h
  rw [mem_mk']
  constructor
  · cases hxl : x.lb <;> cases hyl : y.lb <;> simp_all [Bound.add] <;> (try subst hl) <;> simp <;> omega
  · cases hxu : x.ub <;> cases hyu : y.ub <;> simp_all [Bound.add] <;> (try subst hu) <;> simp <;> omega

theorem add_defined {x y : Itv} (hx : x.WF) (hy : y.WF) : (add x y).isSome = true := by
  unfold add
  split
  · rfl
  · obtain ⟨hx1, hx2⟩ := hx
    obtain ⟨hy1, hy2⟩ := hy
    cases hxl : x.lb <;> cases hyl : y.lb <;> cases hxu : x.ub <;> cases hyu : y.ub <;>
      simp_all [Bound.add]

theorem neg_sound {x : Itv} {a : Int} (ha : mem a x) : mem (-a) (neg x) := by
  unfold neg
  simp [isBottom_false_of_mem ha]
  rw [mem_mk']
  obtain ⟨h1, h2⟩ := ha
  constructor
  · cases hu : x.ub <;> simp_all [Bound.neg] <;> omega
  · cases hl : x.lb <;> simp_all [Bound.neg] <;> omega

/-- unary minus is exact -/
theorem neg_exact {x : Itv} {k : Int} (h : mem k (neg x)) : mem (-k) x := by
  unfold neg at h
  split at h
  · exact absurd h (not_mem_bot k)
  · rw [mem_mk'] at h
    obtain ⟨h1, h2⟩ := h
    constructor
    · cases hl : x.lb <;> simp_all [Bound.neg] <;> omega
    · cases hu : x.ub <;> simp_all [Bound.neg] <;> omega

theorem sub_sound {x y r : Itv} {a b : Int} (ha : mem a x) (hb : mem b y)
    (h : sub x y = some r) : mem (a - b) r := by
  unfold sub at h
  simp [isBottom_false_of_mem ha, isBottom_false_of_mem hb] at h
  obtain ⟨ha1, ha2⟩ := ha
  obtain ⟨hb1, hb2⟩ := hb
  split at h <;> simp at h
  rename_i l u hl hu
  subst h
  rw [mem_mk']
  constructor
  · cases hxl : x.lb <;> cases hyu : y.ub <;> simp_all [Bound.sub, Bound.add, Bound.neg] <;>
      (try subst hl) <;> simp <;> omega
  · cases hxu : x.ub <;> cases hyl : y.lb <;> simp_all [Bound.sub, Bound.add, Bound.neg] <;>
      (try subst hu) <;> simp <;> omega

theorem sub_defined {x y : Itv} (hx : x.WF) (hy : y.WF) : (sub x y).isSome = true := by
  unfold sub
  split
  · rfl
  · obtain ⟨hx1, hx2⟩ := hx
    obtain ⟨hy1, hy2⟩ := hy
    cases hxl : x.lb <;> cases hyl : y.lb <;> cases hxu : x.ub <;> cases hyu : y.ub <;>
      simp_all [Bound.sub, Bound.add, Bound.neg]

end Itv
end Crab
