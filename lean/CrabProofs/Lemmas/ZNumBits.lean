import CrabModel.Num.ZNum

/-! Facts about the two's-complement operations of `Crab.ZNum` (`land`, `lor`, `lxor`, `shr`,
    `shl`) used by the scalar abstractions: neutral and absorbing elements, and the shifts
    as multiplication / floor division by a power of two. -/
namespace Crab
namespace ZNum

theorem two_pow_pos (n : Nat) : (0 : Int) < 2 ^ n := Int.pow_pos (by decide)

/-- a number fits (signed) in `width` bits -/
theorem width_bounds (x : Int) : -(2 ^ (width x - 1) : Int) ≤ x ∧ x < 2 ^ (width x - 1) := by
  unfold width
  have hp := two_pow_pos
  have e : ∀ n : Nat, n + 2 - 1 = n + 1 := by omega
  split
  · rename_i h
    have := @Nat.lt_log2_self (-x - 1).toNat
    have h2 : ((-x - 1).toNat : Int) < 2 ^ ((-x - 1).toNat.log2 + 1) := by exact_mod_cast this
    simp only [e]
    have h3 : ((-x - 1).toNat : Int) = -x - 1 := Int.toNat_of_nonneg (by omega)
    constructor <;> omega
  · rename_i h
    have := @Nat.lt_log2_self x.toNat
    have h2 : (x.toNat : Int) < 2 ^ (x.toNat.log2 + 1) := by exact_mod_cast this
    simp only [e]
    have h3 : (x.toNat : Int) = x := Int.toNat_of_nonneg (by omega)
    have := hp (x.toNat.log2 + 1)
    constructor <;> omega

theorem width_pos (x : Int) : 1 ≤ width x := by unfold width; omega

/-- in any width at least `width x` the bit-vector of `x` reads back as `x` -/
theorem toInt_ofInt_of_width {w : Nat} {x : Int} (h : width x ≤ w) :
    (BitVec.ofInt w x).toInt = x := by
  rw [BitVec.toInt_ofInt]
  obtain ⟨h1, h2⟩ := width_bounds x
  have hw := width_pos x
  have hle : (2 : Int) ^ (width x - 1) ≤ 2 ^ (w - 1) := by
    have : (2 : Nat) ^ (width x - 1) ≤ 2 ^ (w - 1) := Nat.pow_le_pow_right (by decide) (by omega)
    exact_mod_cast this
  have h2w : (2 : Int) ^ w = 2 ^ (w - 1) * 2 := by
    have : w = (w - 1) + 1 := by omega
    conv => lhs; rw [this, Int.pow_succ]
  apply Int.bmod_eq_of_le_mul_two
  · have : ((2 ^ w : Nat) : Int) = 2 ^ w := by simp
    rw [this, h2w]; omega
  · have : ((2 ^ w : Nat) : Int) = 2 ^ w := by simp
    rw [this, h2w]; omega

private theorem wl (a b : Int) : width a ≤ Nat.max (width a) (width b) := Nat.le_max_left _ _
private theorem wr (a b : Int) : width b ≤ Nat.max (width a) (width b) := Nat.le_max_right _ _

theorem ofInt_neg_one (w : Nat) : BitVec.ofInt w (-1) = BitVec.allOnes w := by
  apply BitVec.eq_of_toInt_eq
  rw [BitVec.toInt_ofInt, BitVec.toInt_allOnes]
  cases w with
  | zero => simp [Int.bmod]
  | succ n =>
    simp only [Nat.zero_lt_succ, if_true]
    apply Int.bmod_eq_of_le_mul_two
    · have := two_pow_pos (n + 1); have h : ((2 ^ (n + 1) : Nat) : Int) = 2 ^ (n + 1) := by simp
      omega
    · have := two_pow_pos (n + 1); have h : ((2 ^ (n + 1) : Nat) : Int) = 2 ^ (n + 1) := by simp
      omega

theorem ofInt_zero' (w : Nat) : BitVec.ofInt w 0 = 0#w := by
  apply BitVec.eq_of_toInt_eq; simp

theorem toInt_allOnes_max (a b : Int) : (BitVec.allOnes (Nat.max (width a) (width b))).toInt = -1 := by
  rw [BitVec.toInt_allOnes]
  have := width_pos a
  have : 0 < Nat.max (width a) (width b) := Nat.lt_of_lt_of_le (by omega) (wl a b)
  simp [this]

theorem land_zero_left (x : Int) : land 0 x = 0 := by
  simp [land, bitop]
theorem land_zero_right (x : Int) : land x 0 = 0 := by
  simp [land, bitop]
theorem land_neg_one_left (x : Int) : land (-1) x = x := by
  simp only [land, bitop, ofInt_neg_one, BitVec.allOnes_and]
  exact toInt_ofInt_of_width (wr _ _)
theorem land_neg_one_right (x : Int) : land x (-1) = x := by
  simp only [land, bitop, ofInt_neg_one, BitVec.and_allOnes]
  exact toInt_ofInt_of_width (wl _ _)

theorem lor_zero_left (x : Int) : lor 0 x = x := by
  simp only [lor, bitop, ofInt_zero', BitVec.zero_or]
  exact toInt_ofInt_of_width (wr _ _)
theorem lor_zero_right (x : Int) : lor x 0 = x := by
  simp only [lor, bitop, ofInt_zero', BitVec.or_zero]
  exact toInt_ofInt_of_width (wl _ _)
theorem lor_neg_one_left (x : Int) : lor (-1) x = -1 := by
  simp only [lor, bitop, ofInt_neg_one, BitVec.allOnes_or]
  exact toInt_allOnes_max _ _
theorem lor_neg_one_right (x : Int) : lor x (-1) = -1 := by
  simp only [lor, bitop, ofInt_neg_one, BitVec.or_allOnes]
  exact toInt_allOnes_max _ _

theorem lxor_zero_left (x : Int) : lxor 0 x = x := by
  simp only [lxor, bitop, ofInt_zero', BitVec.zero_xor]
  exact toInt_ofInt_of_width (wr _ _)
theorem lxor_zero_right (x : Int) : lxor x 0 = x := by
  simp only [lxor, bitop, ofInt_zero', BitVec.xor_zero]
  exact toInt_ofInt_of_width (wl _ _)

/-! ### shifts -/

theorem getUi_of_nonneg {k : Int} (h0 : 0 ≤ k) (h1 : k < 2 ^ 64) : getUi k = k.toNat := by
  unfold getUi
  have : k.natAbs = k.toNat := by omega
  rw [this]
  apply Nat.mod_eq_of_lt
  have : (k.toNat : Int) < 2 ^ 64 := by rw [Int.toNat_of_nonneg h0]; exact h1
  exact_mod_cast this

/-- `z_number::operator<<` by a shift amount that fits a machine word multiplies by `2^k` -/
theorem shl_eq {a k : Int} (h0 : 0 ≤ k) (h1 : k < 2 ^ 64) : shl a k = a * 2 ^ k.toNat := by
  simp [shl, getUi_of_nonneg h0 h1]

/-- `z_number::operator>>` by a shift amount that fits a machine word is the floor
    division by `2^k` (the shortcut beyond the bit length gives the same number) -/
theorem shr_eq {a k : Int} (h0 : 0 ≤ k) (h1 : k < 2 ^ 64) : shr a k = a / 2 ^ k.toNat := by
  unfold shr
  simp only [getUi_of_nonneg h0 h1]
  split
  · rename_i hs
    -- |a| < 2^(log2|a|+1) ≤ 2^s
    have hl := @Nat.lt_log2_self a.natAbs
    have hle : (2 : Nat) ^ (a.natAbs.log2 + 1) ≤ 2 ^ k.toNat :=
      Nat.pow_le_pow_right (by decide) (by omega)
    have hlt : (a.natAbs : Int) < 2 ^ k.toNat := by
      have : a.natAbs < 2 ^ k.toNat := Nat.lt_of_lt_of_le hl hle
      exact_mod_cast this
    split
    · rename_i hneg
      have hpos := two_pow_pos k.toNat
      have := (Int.ediv_emod_unique (a := a) (b := 2 ^ k.toNat) (r := a + 2 ^ k.toNat) (q := -1) hpos).mpr
        ⟨by omega, by omega, by omega⟩
      exact this.1.symm
    · rename_i hnn
      exact (Int.ediv_eq_zero_of_lt (by omega) (by omega)).symm
  · rfl

end ZNum
end Crab
