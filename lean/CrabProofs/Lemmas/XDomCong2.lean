import CrabProofs.Lemmas.XDomCong
import CrabProofs.Lemmas.CongruenceOps

/-!
  `congruence_domain` (model `Crab.GDom`): `congruence<z_number>` with the representation
  invariant `Cong.WF` satisfies the laws `XDom.Laws` the environment needs.
-/
namespace Crab
namespace GDom
open XDom Lin Cong

local notation "GL" => congLattice

theorem stored_iff (v : Cong) : Stored GL v ↔ (v.isBot = false ∧ v.a ≠ 1 ∧ WF v) := by
  simp [Stored, congLattice, Cong.isBottom, Cong.isTop, GoodVal.good]

/-- a value in standard form is what the normalising constructor rebuilds from its fields -/
theorem mk'_of_wf {x : Cong} (hw : WF x) (hb : x.isBot = false) : mk' x.a x.b = x := by
  obtain ⟨h0, h1, _⟩ := hw
  unfold mk'
  have ha : (if x.a < 0 then -x.a else x.a) = x.a := by split <;> omega
  simp only [ha]
  by_cases hz : x.a = 0
  · simp only [hz, ne_eq, not_true_eq_false, if_false]
    cases x; simp_all
  · simp only [ne_eq, hz, not_false_eq_true, if_true]
    obtain ⟨h2, h3⟩ := h1 hz
    have : Int.tmod x.b x.a = x.b := Int.tmod_eq_of_lt h2 h3
    rw [this]
    have : ¬ x.b < 0 := by omega
    simp only [this, if_false]
    cases x; simp_all

theorem gcd_self_zero {a : Int} (h : 0 ≤ a) : gcd3 a a (iabs 0) = a := by
  unfold gcd3
  rw [gcd_eq, gcd_eq]
  have h1 : iabs 0 = 0 := by decide
  rw [h1]
  simp only [Int.gcd, Int.natAbs_zero, Nat.gcd_zero_right, Int.natAbs_natCast, Nat.gcd_self]
  omega

theorem join_idem {x : Cong} (h : Stored GL x) : Cong.join x x = x := by
  obtain ⟨hb, ha, hw⟩ := (stored_iff x).mp h
  unfold Cong.join
  have ht : x.isTop = false := by simp [Cong.isTop, ha]
  simp only [hb, ht, Bool.false_eq_true, if_false, Bool.or_self, Int.sub_self]
  have hi : imin x.b x.b = x.b := by unfold imin; split <;> rfl
  rw [gcd_self_zero hw.1, hi]
  exact mk'_of_wf hw hb

theorem meet_idem {x : Cong} (h : Stored GL x) : Cong.meet x x = x := by
  obtain ⟨hb, ha, hw⟩ := (stored_iff x).mp h
  unfold Cong.meet
  simp only [hb, Bool.or_self, Bool.false_eq_true, if_false, and_self, if_true, Int.sub_self]
  by_cases hz : x.a = 0
  · simp [hz]
  · simp only [hz, if_false]
    have h0 : ∀ g : Int, Int.tmod 0 g = 0 := fun g => by simp
    simp only [h0, if_true]
    have h1 : ∀ g : Int, Int.tdiv 0 g = 0 := fun g => by simp
    simp only [h1, Int.mul_zero, Int.add_zero]
    have hl : lcm x.a x.a = x.a := by
      rw [lcm_eq]
      simp only [Int.lcm_self]
      have := hw.1; omega
    rw [hl]
    exact mk'_of_wf hw hb

theorem join_nonbot {x y : Cong} (hx : x.isBot = false) (hy : y.isBot = false) :
    (Cong.join x y).isBot = false := by
  unfold Cong.join
  simp only [hx, hy, Bool.false_eq_true, if_false]
  split
  · rfl
  · rfl

theorem mk'_a_ne_one {l c : Int} (h : l ≠ 1 ∧ l ≠ -1) : (mk' l c).a ≠ 1 := by
  unfold mk'
  simp only
  split <;> omega

theorem meet_nontop {x y : Cong} (hx : Stored GL x) (hy : Stored GL y)
    (hnb : (Cong.meet x y).isBot = false) : (Cong.meet x y).isTop = false := by
  obtain ⟨hb, ha, hw⟩ := (stored_iff x).mp hx
  obtain ⟨hb', ha', hw'⟩ := (stored_iff y).mp hy
  have key : (Cong.meet x y).isBot = true ∨ (Cong.meet x y).a ≠ 1 := by
    unfold Cong.meet
    simp only [hb, hb', Bool.or_self, Bool.false_eq_true, if_false]
    split
    · split
      · exact Or.inr ha
      · exact Or.inl rfl
    · split
      · split
        · exact Or.inr ha
        · exact Or.inl rfl
      · split
        · split
          · exact Or.inr ha'
          · exact Or.inl rfl
        · split
          · right
            apply mk'_a_ne_one
            have hd := dvd_lcm_left x.a y.a
            constructor
            · intro h; rw [h] at hd
              exact ha (Int.eq_one_of_dvd_one hw.1 hd)
            · intro h; rw [h] at hd
              exact ha (Int.eq_one_of_dvd_one hw.1 ((Int.dvd_neg).mp hd))
          · exact Or.inl rfl
  rcases key with h | h
  · rw [h] at hnb; cases hnb
  · simp [Cong.isTop, h]

/-- `congruence<z_number>` (values in standard form) satisfies the laws the environment needs -/
theorem congLaws : Laws GL Cong.mem where
  isTop_top := rfl
  isBottom_top := rfl
  isBottom_bottom := rfl
  good_top := wf_top
  good_bottom := wf_bot
  mem_top := Cong.mem_top
  not_mem_bottom := fun v k h hm => by
    have : v.isBot = true := h
    rw [hm.1] at this; cases this
  beq_sound := fun x y h => by
    simp only [congLattice, Cong.beq, Bool.and_eq_true, beq_iff_eq] at h
    cases x; cases y; simp_all
  leq_refl := fun x _ => Cong.leq_refl x
  leq_sound := fun x y k h hk => Cong.leq_sound h hk
  nonbot_mem := fun v h => ⟨v.b, by
    have : v.isBot = false := h
    exact ⟨this, by simp⟩⟩
  nontop_out := fun v h => by
    obtain ⟨hb, ha, hw⟩ := (stored_iff v).mp h
    refine ⟨v.b + 1, fun hm => ?_⟩
    have hd : v.a ∣ 1 := by
      have := hm.2
      have e : v.b + 1 - v.b = 1 := by omega
      rwa [e] at this
    exact ha (Int.eq_one_of_dvd_one hw.1 hd)
  join :=
    { upper := fun x y k h => h.elim Cong.join_upper_left Cong.join_upper_right
      idem := fun x h => join_idem h
      nonbot := fun x y hx hy => join_nonbot ((stored_iff x).mp hx).1 ((stored_iff y).mp hy).1
      good := fun x y hx hy => wf_join ((stored_iff x).mp hx).2.2 ((stored_iff y).mp hy).2.2 }
  widen :=
    { upper := fun x y k h => h.elim Cong.join_upper_left Cong.join_upper_right
      idem := fun x h => join_idem h
      nonbot := fun x y hx hy => join_nonbot ((stored_iff x).mp hx).1 ((stored_iff y).mp hy).1
      good := fun x y hx hy => wf_join ((stored_iff x).mp hx).2.2 ((stored_iff y).mp hy).2.2 }
  meet :=
    { sound := fun x y k h1 h2 => Cong.meet_sound h1 h2
      idem := fun x h => meet_idem h
      nontop := fun x y hx hy hnb => meet_nontop hx hy hnb
      good := fun x y hx hy => wf_meet ((stored_iff x).mp hx).2.2 ((stored_iff y).mp hy).2.2 }
  narrow :=
    { sound := fun x y k h1 h2 => Cong.narrow_sound h1 h2
      idem := fun x _ => by simp [congLattice, Cong.narrow]
      nontop := fun x y hx _ _ => by
        have : x.isTop = false := hx.2.1
        simp only [congLattice, Cong.narrow, this, Bool.false_eq_true, if_false]
      good := fun x y hx hy => wf_narrow ((stored_iff x).mp hx).2.2 ((stored_iff y).mp hy).2.2 }

end GDom
end Crab
