import CrabProofs.Lemmas.WtoMeasure2

/-! Measures at a root pop. -/
namespace Crab
namespace Wto

section
variable {g : Graph} {K : Nat → Prop} {st0 : St} {part0 : List WtoC} {v : Nat}
  {p : GF} {gs : List GF} {ln : List Nat} {part : List WtoC} {st : St} {W : List WtoC}

open Classical in
/-- the region handed to `component` has strictly fewer free nodes -/
theorem Inv.lvl_root_lt (h : Inv g K st0 part0 v (p :: gs) ln part st W) (hK : ClosedK g K st0)
    (stack2 : List Nat) : lvl (fun x => x ∈ p.above) (rootState st p stack2) < lvl K st0 := by
  unfold lvl freeList
  have hsize : (rootState st p stack2).dfn.size = st0.dfn.size := by
    simp [rootState, h.size_eq]
  rw [hsize]
  apply length_filter_lt _ _ _ p.f.node
  · intro x _ hx
    simp only [decide_eq_true_eq] at hx ⊢
    exact h.stk_K x (mem_stk_of_mem (by simp) (above_sub_seg hx.1))
  · apply List.mem_range.2
    rw [← h.size_eq]; exact h.node_lt_size hK
  · simp only [decide_eq_true_eq]
    exact h.stk_K _ h.node_mem_stk
  · simp only [decide_eq_false_iff_not, not_and]
    intro hx
    exact absurd hx h.node_not_above

/-- a root pop does not change the free nodes of the region -/
theorem Inv.freeList_pop {part' : List WtoC} {st' : St} {W' : List WtoC}
    (h : Inv g K st0 part0 v (p :: gs) ln part st W) (h' : Inv g K st0 part0 v gs ln part' st' W')
    (hK : ClosedK g K st0)
    (hmem : ∀ x, x ∈ flattenL W' ↔ (x ∈ p.seg ∨ x ∈ flattenL W)) :
    freeList K st' = freeList K st := by
  apply freeList_congr (by rw [h'.size_eq, h.size_eq])
  intro x hx
  rw [h.free_iff hK hx, h'.free_iff hK hx, hmem x, stk_cons, List.mem_append]
  constructor
  · rintro ⟨h0, h1, h2⟩
    exact ⟨h0, fun hw => h1 (Or.inr hw), fun hs => hs.elim (fun a => h1 (Or.inl a)) h2⟩
  · rintro ⟨h0, h1, h2⟩
    exact ⟨h0, fun hw => hw.elim (fun a => h2 (Or.inl a)) h1, fun hs => h2 (Or.inr hs)⟩

theorem Inv.vertex_flatten_mem (h : Inv g K st0 part0 v (p :: gs) ln part st W) (hs : p.f.succs = [])
    (hroot : p.f.min = dn st.dfn p.f.node) (hln : p.f.node ∉ ln) :
    ∀ x, x ∈ flattenL (WtoC.vertex p.f.node :: W) ↔ (x ∈ p.seg ∨ x ∈ flattenL W) := by
  intro x
  have := (h.root_not_loop hs hroot hln).1
  simp [flattenL, flattenC, GF.seg, this]

theorem Inv.cycle_flatten_mem (h : Inv g K st0 part0 v (p :: gs) ln part st W) (hK : ClosedK g K st0)
    {stack2 : List Nat} {body : List WtoC} {st3 : St}
    (hP : Placed g (fun x => x ∈ p.above) (rootState st p stack2) body st3)
    (hsucc : ∀ s ∈ g.succ p.f.node, getDfn (rootState st p stack2).dfn s = .fin 0 → s ∈ flattenL body) :
    ∀ x, x ∈ flattenL (WtoC.cycle p.f.node body :: W) ↔ (x ∈ p.seg ∨ x ∈ flattenL W) := by
  have hab := h.above_sub_body hK hP hsucc
  have hba : ∀ x ∈ flattenL body, x ∈ p.above := fun x hx => (hP.W_K x hx).1
  intro x
  simp only [flattenL, flattenC, List.cons_append, List.mem_cons, List.mem_append, GF.seg,
    List.not_mem_nil, or_false]
  constructor
  · rintro (h1 | h1 | h1)
    · exact Or.inl (Or.inr h1)
    · exact Or.inl (Or.inl (hba x h1))
    · exact Or.inr h1
  · rintro ((h1 | h1) | h1)
    · exact Or.inr (Or.inl (hab x h1))
    · exact Or.inl h1
    · exact Or.inr (Or.inr h1)
end

end Wto
end Crab
