import CrabProofs.Lemmas.InterSolve
import CrabProofs.Lemmas.WtoFixBridge

/-!
  The orderings of `crabWto` (`CrabModel/Inter/BottomUp.lean`) are the translation `toCompL` of
  the orderings of the WTO model; the CFG of a well-formed function is a well-formed graph.
-/
namespace Crab.Inter

mutual
theorem wtoComp_eq : ∀ c : Wto.WtoC, wtoComp c = Wto.toComp c
  | .vertex v => by simp [wtoComp, Wto.toComp]
  | .cycle h body => by simp [wtoComp, Wto.toComp, wtoCompL_eq body]
theorem wtoCompL_eq : ∀ l : List Wto.WtoC, wtoCompL l = Wto.toCompL l
  | [] => by simp [wtoCompL, Wto.toCompL]
  | c :: cs => by simp [wtoCompL, Wto.toCompL, wtoComp_eq c, wtoCompL_eq cs]
end

theorem wf_graph {p : IProg} (hwf : p.wf = true) {g : Nat} (hg : g < p.funs.size) :
    (p.fn g).graph.WF ∧ 0 < (p.fn g).graph.n := by
  have hmem : p.fn g ∈ p.funs := getD_mem_of_lt _ _ _ hg
  simp only [IProg.wf, Bool.and_eq_true, Array.all_eq_true_iff_forall_mem] at hwf
  have hf := hwf.2 _ hmem
  simp only [IFun.wf, Bool.and_eq_true, decide_eq_true_eq, Array.all_eq_true_iff_forall_mem] at hf
  obtain ⟨⟨⟨⟨h0, _⟩, _⟩, _⟩, h4⟩ := hf
  refine ⟨?_, h0⟩
  intro u v hv
  have hv' : v ∈ ((p.fn g).blk u).succs.toList := hv
  have hu : u < (p.fn g).blocks.size := succ_blk_lt hv'
  exact (h4 _ (getD_mem_of_lt _ _ default hu)).1 v (Array.mem_toList_iff.mp hv')

end Crab.Inter
