import CrabProofs.Lemmas.XDomLattice

/-!
  `Crab.XDom.Env.rename`: soundness for distinct sources and distinct, fresh targets.
-/
set_option linter.unusedSectionVars false

namespace Crab
namespace XDom
open Patricia Patricia.Tree Lin SepDom

variable {V : Type} [GoodVal V] {L : Lattice V} {mem : Int → V → Prop}

/-- a binding function (binding or default top) describes a state -/
def SatMap (L : Lattice V) (mem : Int → V → Prop) (m : Nat → Option V) (σ : State) : Prop :=
  ∀ x, mem (σ x) ((m x).getD L.top)

/-- the loop of `rename` at the level of binding functions: sources are distinct, targets are
    distinct, no target is a source, targets are unbound; the new state gives every target the
    value of its source and is unchanged outside sources and targets -/
theorem satMap_rename (hL : Laws L mem) : ∀ (ps : List (Nat × Nat)) (m : Nat → Option V) (σ σ' : State),
    SatMap L mem m σ → (ps.map Prod.fst).Nodup → (ps.map Prod.snd).Nodup →
    (∀ y ∈ ps.map Prod.snd, y ∉ ps.map Prod.fst) → (∀ y ∈ ps.map Prod.snd, m y = none) →
    (∀ p ∈ ps, σ' p.2 = σ p.1) → (∀ y, y ∉ ps.map Prod.fst → y ∉ ps.map Prod.snd → σ' y = σ y) →
    SatMap L mem (ps.foldl (fun m p => rename1Spec m p.1 p.2) m) σ' := by
  intro ps
  induction ps with
  | nil =>
    intro m σ σ' hs _ _ _ _ _ hout
    have : σ' = σ := funext (fun y => hout y (by simp) (by simp))
    rw [this]; exact hs
  | cons p rest ih =>
    intro m σ σ' hs hnf hnt hdis hfresh hrel hout
    obtain ⟨k, nk⟩ := p
    simp only [List.foldl_cons]
    simp only [List.map_cons, List.nodup_cons] at hnf hnt
    have hkn : k ≠ nk := by
      intro h; exact hdis nk (by simp) (by simp [h])
    have hnkfresh : m nk = none := hfresh nk (by simp)
    -- the intermediate state
    let σ1 : State := fun x => if x = k then σ' k else if x = nk then σ k else σ x
    have hs1 : SatMap L mem (rename1Spec m k nk) σ1 := by
      intro x
      unfold rename1Spec
      simp only [hkn, if_false]
      cases hmk : m k with
      | none =>
        simp only
        by_cases e1 : x = k
        · subst e1; rw [hmk]; exact hL.mem_top _
        · by_cases e2 : x = nk
          · subst e2; rw [hnkfresh]; exact hL.mem_top _
          · have : σ1 x = σ x := by simp [σ1, e1, e2]
            rw [this]; exact hs x
      | some v =>
        simp only
        by_cases e1 : x = k
        · simp only [e1, if_true]; exact hL.mem_top _
        · by_cases e2 : x = nk
          · subst e2
            simp only [e1, if_false, if_true, Option.getD_some]
            have : σ1 x = σ k := by simp [σ1, e1]
            rw [this]
            have := hs k; rw [hmk] at this; exact this
          · simp only [e1, e2, if_false]
            have : σ1 x = σ x := by simp [σ1, e1, e2]
            rw [this]; exact hs x
    apply ih (rename1Spec m k nk) σ1 σ' hs1 hnf.2 hnt.2
    · intro y hy hy2
      exact hdis y (by simp [hy]) (by simp [hy2])
    · intro y hy
      have hyk : y ≠ k := by
        intro h; exact hdis y (by simp [hy]) (by simp [h])
      have hynk : y ≠ nk := by
        intro h; rw [h] at hy; exact hnt.1 hy
      unfold rename1Spec
      simp only [hkn, if_false]
      cases hmk : m k with
      | none => exact hfresh y (by simp [hy])
      | some v => simp only [hyk, hynk, if_false]; exact hfresh y (by simp [hy])
    · intro q hq
      have h1 : q.1 ≠ k := by
        intro h; exact hnf.1 (by rw [← h]; exact List.mem_map_of_mem hq)
      have h2 : q.1 ≠ nk := by
        intro h
        exact hdis nk (by simp) (by simp only [List.map_cons, List.mem_cons]; right; rw [← h]; exact List.mem_map_of_mem hq)
      have : σ1 q.1 = σ q.1 := by simp [σ1, h1, h2]
      rw [this]; exact hrel q (by simp [hq])
    · intro y hy1 hy2
      by_cases e1 : y = k
      · subst e1; simp [σ1]
      · by_cases e2 : y = nk
        · subst e2
          have : σ1 y = σ k := by simp [σ1, e1]
          rw [this]; exact hrel (k, y) (by simp)
        · have : σ1 y = σ y := by simp [σ1, e1, e2]
          rw [this]
          exact hout y (by simp [e1, hy1]) (by simp [e2, hy2])

namespace Env

theorem rename_inv (hL : Laws L mem) {e e' : Env V} (he : Inv L e) {frm to : List Var}
    (hr : rename L e frm to = some e') (hf : ∀ v ∈ frm, v < 2 ^ 64) (ht : ∀ v ∈ to, v < 2 ^ 64) : Inv L e' := by
  unfold rename at hr
  split at hr
  · cases hr; exact he
  · unfold SepDom.rename at hr
    split at hr
    · cases hr; exact he
    · split at hr
      · cases hr
      · cases hr
        have hb : ∀ p ∈ frm.zip to, p.1 < 2 ^ 64 ∧ p.2 < 2 ^ 64 := by
          intro p hp
          exact ⟨hf _ (List.of_mem_zip hp).1, ht _ (List.of_mem_zip hp).2⟩
        exact ⟨(rename_fold_spec (L := L) (ctx_sound hL) (fun x hx => hx.2.1) (frm.zip to) he.1 hb).1,
          fun h => by cases h⟩

/-- `rename(from, to)` with distinct sources and distinct, fresh targets: `to[i]` receives the value
    of `from[i]`, the variables outside `from` and `to` keep theirs -/
theorem rename_sound (hL : Laws L mem) {e e' : Env V} (he : Inv L e) {σ σ' : State} (hg : γ L mem e σ)
    {frm to : List Var} (hr : rename L e frm to = some e')
    (hf : ∀ v ∈ frm, v < 2 ^ 64) (ht : ∀ v ∈ to, v < 2 ^ 64)
    (hnf : frm.Nodup) (hnt : to.Nodup) (hdis : ∀ y ∈ to, y ∉ frm)
    (hfresh : ∀ y ∈ to, e.tree.lookup y = none)
    (hrel : ∀ p ∈ frm.zip to, σ' p.2 = σ p.1) (hout : ∀ y, y ∉ frm → y ∉ to → σ' y = σ y) :
    γ L mem e' σ' := by
  have ne := hg.1
  unfold rename at hr
  simp only [ne, Bool.false_eq_true, if_false] at hr
  unfold SepDom.rename at hr
  split at hr
  · -- nothing is bound: every state is described
    rename_i hc
    cases hr
    have hT : e.isTop = true := by have h2 : SepDom.isTop e = true := by simpa [ne] using hc
                                   exact h2
    exact γ_of_isTop hL he hT σ'
  · split at hr
    · cases hr
    · rename_i hlen
      cases hr
      have hlen' : frm.length = to.length := by simpa using hlen
      have hb : ∀ p ∈ frm.zip to, p.1 < 2 ^ 64 ∧ p.2 < 2 ^ 64 := by
        intro p hp
        exact ⟨hf _ (List.of_mem_zip hp).1, ht _ (List.of_mem_zip hp).2⟩
      obtain ⟨_, hl⟩ := rename_fold_spec (L := L) (ctx_sound hL) (fun x hx => hx.2.1) (frm.zip to) he.1 hb
      have h1 : (frm.zip to).map Prod.fst = frm := by
        rw [List.map_fst_zip]; omega
      have h2 : (frm.zip to).map Prod.snd = to := by
        rw [List.map_snd_zip]; omega
      have hs : SatMap L mem e.tree.lookup σ := by
        intro x
        have := hg.2 x
        rwa [get_eq, ne] at this
      have := satMap_rename hL (frm.zip to) e.tree.lookup σ σ' hs (by rw [h1]; exact hnf) (by rw [h2]; exact hnt)
        (by rw [h1, h2]; exact hdis) (by rw [h2]; exact hfresh) hrel (by rw [h1, h2]; exact hout)
      refine ⟨rfl, fun x => ?_⟩
      rw [get_eq]
      simp only [Bool.false_eq_true, if_false, hl]
      exact this x

end Env
end XDom
end Crab
