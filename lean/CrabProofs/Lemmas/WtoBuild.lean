import CrabProofs.Lemmas.WtoTotal2
import CrabProofs.Lemmas.WtoCheckSound

/-! `build g e` terminates without CRAB_ERROR within `fuel g` and returns a well-formed ordering. -/
namespace Crab
namespace Wto

theorem specs (g : Graph) : ∀ L, VisitSpec g L ∧ CompSpec g L := by
  intro L
  induction L using Nat.strongRecOn with
  | _ L ih =>
    have hv : VisitSpec g L := visit_of_comp g L (fun L' hL' => (ih L' hL').2)
    exact ⟨hv, comp_of_visit g L hv⟩

theorem getDfn_init (g : Graph) (x : Nat) : getDfn (St.init g).dfn x = .fin 0 := by
  simp only [St.init, getDfn, Array.getD_eq_getD_getElem?]
  by_cases hx : x < g.n
  · simp [hx]
  · simp [hx]

/-- the region of the top-level call: the reachable nodes -/
def topK (g : Graph) (e : Nat) : Nat → Prop := fun x => x < g.n ∧ Reach g e x

theorem closed_top (g : Graph) (hg : g.WF) (e : Nat) : ClosedK g (topK g e) (St.init g) := by
  intro x hx
  refine ⟨by simpa [St.init] using hx.1, Or.inl (getDfn_init g x), ?_⟩
  intro y hy
  exact Or.inl ⟨hg x y hy, Reach.step hx.2 hy⟩

theorem fuel_enough (g : Graph) (a L : Nat) (ha : a + 1 ≤ totalWt g) (hL : L ≤ g.n) :
    a + 1 + L * levelCost g ≤ fuel g := by
  have h1 : L * levelCost g ≤ g.n * levelCost g := Nat.mul_le_mul_right _ hL
  have h2 : fuel g = (2 * g.n + 2) * (totalWt g + 1) := rfl
  have h3 : g.n * levelCost g = 2 * (g.n * (totalWt g + 1)) := by
    simp only [levelCost, Nat.mul_add, Nat.mul_one]
    rw [Nat.mul_left_comm]; omega
  have h4 : (2 * g.n + 2) * (totalWt g + 1) = 2 * (g.n * (totalWt g + 1)) + 2 * (totalWt g + 1) := by
    rw [Nat.add_mul, Nat.mul_assoc]
  omega

theorem build_total (g : Graph) (hg : g.WF) (e : Nat) (he : e < g.n) :
    ∃ w st, visit g (fuel g) e [] (St.init g) = .done (w, st) ∧
      Placed g (topK g e) (St.init g) w st ∧ e ∈ flattenL w := by
  have hK := closed_top g hg e
  have hKe : topK g e e := ⟨he, Reach.refl⟩
  have hsz : (St.init g).dfn.size = g.n := by simp [St.init]
  have hinv := Inv.init (g := g) [] hK hKe (getDfn_init g e)
  have hphi := phi_init_le g hKe (getDfn_init g e) (by rw [hsz]; exact he) hsz
  have hL : lvl (topK g e) (St.init g) ≤ g.n := by
    have := lvl_le_size (topK g e) (St.init g); rwa [hsz] at this
  obtain ⟨st', W', hrun, hP, hv⟩ := (specs g _).1 (fuel g) (topK g e) (St.init g) [] e _ _ _ _ _
    hK hsz (Nat.le_refl _) hinv (fuel_enough g _ _ hphi hL)
  refine ⟨W', st', ?_, hP, hv⟩
  simp only [visit]
  have hnum : (discover (St.init g) e).num = (St.init g).num + 1 := rfl
  rw [hnum]
  simpa [GF.fresh] using hrun

theorem placed_top_wf (g : Graph) (e : Nat) {w : List WtoC} {st : St}
    (hP : Placed g (topK g e) (St.init g) w st) (he : e ∈ flattenL w) :
    WtoWF g e w (nesting w) := by
  have hmem : ∀ v, Reach g e v → v ∈ flattenL w := by
    intro v hv
    induction hv with
    | refl => exact he
    | step _ hs ih =>
      rcases hP.W_edges _ ih _ hs with hd | hd
      · rw [getDfn_init] at hd; cases hd
      · exact hd.mem_right
  refine ⟨fun v => ⟨fun hv => (hP.W_K v hv).1.2, hmem v⟩, hP.W_nodup, ?_, ?_, ?_⟩
  · intro u v hu huv
    rcases hP.W_edges u (hmem u hu) v huv with hd | hd
    · rw [getDfn_init] at hd; cases hd
    · exact hd
  · intro v hs henc
    rw [nesting_eq_nestFind, nestFindL_of_encl henc [] hP.W_nodup]; simp
  · intro v hv
    rw [nesting_eq_nestFind]; exact (nestFindL_none [] v w).2 hv

end Wto
end Crab
