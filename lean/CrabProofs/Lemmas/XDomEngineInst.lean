import CrabProofs.Lemmas.XDomEngine
import CrabProofs.Lemmas.XDomWiden
import CrabProofs.Lemmas.XDomCstInst
import CrabProofs.Lemmas.XDomSgnInst
import CrabProofs.Lemmas.XDomCongInst
import CrabProofs.Lemmas.CongruenceWiden

/-!
  The constant, sign and congruence domains as `XDom.EngDom` instances (what the fixpoint engine
  needs), and the scalar measures that make their widenings satisfy the chain condition
  (`XDom.WidenMeasure`).
-/
namespace Crab
open XDom

/-! ### constants -/
namespace CDom

def SEnv.ops : Fix.Ops SEnv := ⟨SEnv.bot, SEnv.top, SEnv.leq, SEnv.join, SEnv.meet, SEnv.widen, SEnv.narrow⟩

/-- the constant domain as the engine sees it -/
def eng : EngDom where
  A := SEnv
  γ := SEnv.γ
  ops := SEnv.ops
  Adm := Stmt.Ok
  exec := execS
  exec_sound := fun st h a _ _ hg hr => exec_sound st h a.2 hg hr
  join_left := fun a b _ h => XDom.Env.upper_sound cstLaws cstLaws.join a.2 b.2 (Or.inl h)
  join_right := fun a b _ h => XDom.Env.upper_sound cstLaws cstLaws.join a.2 b.2 (Or.inr h)
  widen_left := fun a b _ h => XDom.Env.upper_sound cstLaws cstLaws.widen a.2 b.2 (Or.inl h)
  widen_right := fun a b _ h => XDom.Env.upper_sound cstLaws cstLaws.widen a.2 b.2 (Or.inr h)
  meet_sound := fun a b _ h1 h2 => XDom.Env.lower_sound cstLaws cstLaws.meet a.2 b.2 h1 h2
  narrow_sound := fun a b _ h1 h2 => XDom.Env.lower_sound cstLaws cstLaws.narrow a.2 b.2 h1 h2
  leq_sound := fun a b _ h hg => XDom.Env.leq_sound cstLaws a.2 b.2 h hg

/-- height of a constant value: bottom 2, a number 1, top 0 -/
def cstMu : Crab.Cst → Nat × Nat
  | .bot => (2, 0)
  | .val _ => (1, 0)
  | .top => (0, 0)

theorem cstWidenMeasure : WidenMeasure cstLattice Crab.Cst.widen cstMu where
  le := fun a b ha hb => by
    obtain ⟨n, rfl⟩ := (stored_iff a).mp ha
    obtain ⟨m, rfl⟩ := (stored_iff b).mp hb
    by_cases h : n = m <;>
      simp [Crab.Cst.widen, Crab.Cst.join, Crab.Cst.isBottom, Crab.Cst.isTop, h, cstMu, LexLe]
  lt := fun a b ha hb hle => by
    obtain ⟨n, rfl⟩ := (stored_iff a).mp ha
    obtain ⟨m, rfl⟩ := (stored_iff b).mp hb
    left
    have hne : ¬ n = m := by
      intro e; subst e
      simp [cstLattice, Crab.Cst.leq, Crab.Cst.isBottom, Crab.Cst.isTop] at hle
    simp [cstLattice, Crab.Cst.widen, Crab.Cst.join, Crab.Cst.isBottom, Crab.Cst.isTop, hne]

end CDom

/-! ### signs -/
namespace SDom

def SEnv.ops : Fix.Ops SEnv := ⟨SEnv.bot, SEnv.top, SEnv.leq, SEnv.join, SEnv.meet, SEnv.widen, SEnv.narrow⟩

/-- the sign domain as the engine sees it (widening = join, narrowing = meet) -/
def eng : EngDom where
  A := SEnv
  γ := SEnv.γ
  ops := SEnv.ops
  Adm := Stmt.Ok
  exec := execS
  exec_sound := fun st h a _ _ hg hr => exec_sound st h a.2 hg hr
  join_left := fun a b _ h => XDom.Env.upper_sound signLaws signLaws.join a.2 b.2 (Or.inl h)
  join_right := fun a b _ h => XDom.Env.upper_sound signLaws signLaws.join a.2 b.2 (Or.inr h)
  widen_left := fun a b _ h => XDom.Env.upper_sound signLaws signLaws.join a.2 b.2 (Or.inl h)
  widen_right := fun a b _ h => XDom.Env.upper_sound signLaws signLaws.join a.2 b.2 (Or.inr h)
  meet_sound := fun a b _ h1 h2 => XDom.Env.lower_sound signLaws signLaws.meet a.2 b.2 h1 h2
  narrow_sound := fun a b _ h1 h2 => XDom.Env.lower_sound signLaws signLaws.meet a.2 b.2 h1 h2
  leq_sound := fun a b _ h hg => XDom.Env.leq_sound signLaws a.2 b.2 h hg

/-- number of classes (negative, zero, positive) a sign value excludes -/
def smeas (s : Sign) : Nat := (Cls.all.filter (fun c => !s.has c)).length

def signMu (s : Sign) : Nat × Nat := (smeas s, 0)

/-- the join table never lowers the set of classes, and adds one when the right argument is not
    below the left one (all 64 pairs of the extracted table) -/
def widenCheck : Bool :=
  Sign.all.all (fun a => Sign.all.all (fun b =>
    decide (smeas (sop .join a b) ≤ smeas a) &&
    (signLattice.leq b a || decide (smeas (sop .join a b) < smeas a))))

theorem widenCheck_ok : widenCheck = true := by decide +kernel

theorem signWidenMeasure : WidenMeasure signLattice (sop .join) signMu where
  le := fun a b _ _ => by
    have h1 := List.all_eq_true.mp widenCheck_ok a (Sign.mem_all a)
    have h2 := List.all_eq_true.mp h1 b (Sign.mem_all b)
    simp only [Bool.and_eq_true, decide_eq_true_eq] at h2
    simp only [signMu, LexLe]; omega
  lt := fun a b _ _ hle => by
    have h1 := List.all_eq_true.mp widenCheck_ok a (Sign.mem_all a)
    have h2 := List.all_eq_true.mp h1 b (Sign.mem_all b)
    simp only [Bool.and_eq_true, Bool.or_eq_true, decide_eq_true_eq] at h2
    right
    rcases h2.2 with h | h
    · rw [hle] at h; cases h
    · simp only [signMu, LexLt]; omega

end SDom

/-! ### congruences -/
namespace GDom
open Cong

def SEnv.ops : Fix.Ops SEnv := ⟨SEnv.bot, SEnv.top, SEnv.leq, SEnv.join, SEnv.meet, SEnv.widen, SEnv.narrow⟩

/-- the congruence domain as the engine sees it -/
def eng : EngDom where
  A := SEnv
  γ := SEnv.γ
  ops := SEnv.ops
  Adm := Ok'
  exec := fun st h => execS st h.1
  exec_sound := fun st h a _ _ hg hr => exec_sound st h a.2 hg hr
  join_left := fun a b _ h => XDom.Env.upper_sound congLaws congLaws.join a.2 b.2 (Or.inl h)
  join_right := fun a b _ h => XDom.Env.upper_sound congLaws congLaws.join a.2 b.2 (Or.inr h)
  widen_left := fun a b _ h => XDom.Env.upper_sound congLaws congLaws.widen a.2 b.2 (Or.inl h)
  widen_right := fun a b _ h => XDom.Env.upper_sound congLaws congLaws.widen a.2 b.2 (Or.inr h)
  meet_sound := fun a b _ h1 h2 => XDom.Env.lower_sound congLaws congLaws.meet a.2 b.2 h1 h2
  narrow_sound := fun a b _ h1 h2 => XDom.Env.lower_sound congLaws congLaws.narrow a.2 b.2 h1 h2
  leq_sound := fun a b _ h hg => XDom.Env.leq_sound congLaws a.2 b.2 h hg

/-- (rank, |modulus|) never increases under the widening (= join) of two stored values -/
theorem wmeas_widen_le {a b : Cong} (ha : Stored congLattice a) (hb : Stored congLattice b) :
    LexLe (Cong.wmeas (Cong.widen a b)) (Cong.wmeas a) := by
  obtain ⟨ab, a1, _⟩ := (stored_iff a).mp ha
  obtain ⟨bb, b1, _⟩ := (stored_iff b).mp hb
  have e : Cong.widen a b = mk' (gcd3 a.a b.a (iabs (a.b - b.b))) (imin a.b b.b) := by
    unfold Cong.widen Cong.join
    simp [ab, bb, Cong.isTop, a1, b1]
  rw [e]
  have hd := gcd3_dvd_1 a.a b.a (iabs (a.b - b.b))
  generalize gcd3 a.a b.a (iabs (a.b - b.b)) = g at hd
  unfold Cong.wmeas Cong.wrank LexLe
  simp only [mk'_isBot, mk'_a_natAbs, Bool.false_eq_true, if_false, ab, mk'_a_eq_zero_iff]
  by_cases ha0 : a.a = 0
  · simp only [ha0, if_true, Int.natAbs_zero]
    by_cases hg : g = 0
    · simp [hg]
    · simp [hg]
  · have hg : g ≠ 0 := by
      intro h0; rw [h0] at hd; exact ha0 (Int.zero_dvd.mp hd)
    simp only [ha0, hg, if_false]
    right
    refine ⟨trivial, ?_⟩
    have hn : g.natAbs ∣ a.a.natAbs := Int.natAbs_dvd_natAbs.mpr hd
    exact Nat.le_of_dvd (by omega) hn

theorem congWidenMeasure : WidenMeasure congLattice Cong.widen Cong.wmeas where
  le := fun _ _ ha hb => wmeas_widen_le ha hb
  lt := fun _ _ _ _ hle => Or.inr (LexLt.ofLex (Cong.widen_wmeas_lt hle))

end GDom
end Crab
