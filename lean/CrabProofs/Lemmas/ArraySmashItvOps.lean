import CrabProofs.Lemmas.ArraySmashItv

/-!
  `absS`: an exact state of `array_smashing<interval_domain>` seen as a state of the generic
  functor model over `itvBase`; the invariant `Inv` (size environment not bottom, one binding per
  variable in the base environment) and the commutation of every exact operation with `absS`.
-/
namespace Crab
namespace Dom
namespace SmashItv
open Crab.Dom.Arr Crab.IDom

/-- the size environment as the generic model sees it (`none` = no constant size known) -/
def absSz (z : SzEnv) : Nat → Option Nat := fun a => z.constSize a

/-- invariant of the values the operations other than meet produce -/
def Inv (st : St) : Prop := st.sizes.bottom = false ∧ st.base.Sorted

def absS (st : St) (h : st.base.Sorted) : Smash.St itvBase := ⟨absSz st.sizes, ⟨st.base, h⟩⟩

theorem inv_top : Inv St.top := ⟨rfl, Env.sorted_top⟩

/-! ### size environment -/

theorem absSz_of_not_bottom {z : SzEnv} (hz : z.bottom = false) (a : Nat) : absSz z a = z.m.find a := by
  simp [absSz, SzEnv.constSize, hz]

theorem set_not_bottom {z : SzEnv} (hz : z.bottom = false) (a k : Nat) : (z.set a k).bottom = false := by
  simp [SzEnv.set, hz]

theorem remove_not_bottom {z : SzEnv} (hz : z.bottom = false) (a : Nat) : (z.remove a).bottom = false := by
  simp [SzEnv.remove, hz]

theorem join_not_bottom {a b : SzEnv} (ha : a.bottom = false) (hb : b.bottom = false) :
    (SzEnv.join a b).bottom = false := by
  simp [SzEnv.join, ha, hb]

theorem absSz_set {z : SzEnv} (hz : z.bottom = false) (a k : Nat) :
    absSz (z.set a k) = Smash.setSize (absSz z) a (some k) := by
  funext b
  rw [absSz_of_not_bottom (set_not_bottom hz a k)]
  simp only [SzEnv.set, hz, Bool.false_eq_true, if_false, SzMap.find, Smash.setSize]
  by_cases h : b = a
  · simp [h]
  · simp only [h, if_false]
    rw [find_remove_ne _ h, absSz_of_not_bottom hz]

theorem absSz_remove {z : SzEnv} (hz : z.bottom = false) (a : Nat) :
    absSz (z.remove a) = Smash.setSize (absSz z) a none := by
  funext b
  rw [absSz_of_not_bottom (remove_not_bottom hz a)]
  simp only [SzEnv.remove, hz, Bool.false_eq_true, if_false, Smash.setSize]
  by_cases h : b = a
  · subst h; simp [find_remove_same]
  · simp only [h, if_false]
    rw [find_remove_ne _ h, absSz_of_not_bottom hz]

theorem equalSize_iff {z : SzEnv} (hz : z.bottom = false) (a k : Nat) :
    z.equalSize a k = true ↔ absSz z a = some k := by
  rw [absSz_of_not_bottom hz]
  unfold SzEnv.equalSize
  cases z.m.find a with
  | none => simp
  | some v => simp

theorem absSz_join {a b : SzEnv} (ha : a.bottom = false) (hb : b.bottom = false) :
    absSz (SzEnv.join a b) = Smash.envJoin (absSz a) (absSz b) := by
  funext x
  rw [absSz_of_not_bottom (join_not_bottom ha hb)]
  simp only [SzEnv.join, ha, hb, Bool.false_eq_true, if_false, Smash.envJoin]
  rw [find_build, absSz_of_not_bottom ha, absSz_of_not_bottom hb]
  cases h1 : a.m.find x with
  | none =>
    have : ¬ x ∈ SzMap.keys a.m := by rw [mem_keys_iff, h1]; simp
    simp only [this, if_false]
    cases h2 : b.m.find x <;> simp
  | some v1 =>
    have : x ∈ SzMap.keys a.m := by rw [mem_keys_iff, h1]; rfl
    simp only [this, if_true]
    cases h2 : b.m.find x with
    | none => simp
    | some v2 =>
      by_cases hv : v1 = v2
      · simp [hv]
      · simp [hv]

/-! ### the operations preserve the invariant -/

theorem inv_assign {st : St} (h : Inv st) (x : Nat) (e : SLin) : Inv (st.assign x e) :=
  ⟨h.1, Env.assign_inv Env.sortedInv _ _ _ h.2⟩

theorem inv_assume {st : St} (h : Inv st) (cs : List XCst) : Inv (st.assume cs) :=
  ⟨h.1, Env.add_inv Env.sortedInv _ _ h.2⟩

theorem inv_forget {st : St} (h : Inv st) (x : Nat) : Inv (st.forget x) :=
  ⟨h.1, Env.forget_sorted _ _ h.2⟩

theorem inv_arrayInit {st : St} (h : Inv st) (k a : Nat) (val : SLin) : Inv (st.arrayInit k a val) :=
  ⟨set_not_bottom h.1 _ _, Env.assign_inv Env.sortedInv _ _ _ h.2⟩

theorem inv_arrayLoad {st : St} (h : Inv st) (k x a : Nat) : Inv (st.arrayLoad k x a) := by
  unfold St.arrayLoad
  split
  · exact ⟨h.1, Env.forget_sorted _ _ (Env.assign_inv Env.sortedInv _ _ _ (Env.expand_inv Env.sortedInv _ _ _ h.2))⟩
  · exact ⟨h.1, Env.forget_sorted _ _ h.2⟩

theorem inv_arrayStore {st : St} (h : Inv st) (k a : Nat) (val : SLin) (strong : Bool) :
    Inv (st.arrayStore k a val strong) := by
  unfold St.arrayStore
  cases strong with
  | true =>
    simp only [if_true]
    split
    · exact ⟨set_not_bottom h.1 _ _, Env.assign_inv Env.sortedInv _ _ _ h.2⟩
    · exact ⟨set_not_bottom h.1 _ _, h.2⟩
  | false =>
    simp only [Bool.false_eq_true, if_false]
    split
    · exact ⟨h.1, Env.weakAssign_sorted _ _ _ h.2⟩
    · exact h

theorem inv_arrayStoreRange {st : St} (h : Inv st) (k a : Nat) (val : SLin) : Inv (st.arrayStoreRange k a val) := by
  unfold St.arrayStoreRange
  split
  · exact ⟨h.1, Env.weakAssign_sorted _ _ _ h.2⟩
  · exact h

theorem inv_arrayAssign {st : St} (h : Inv st) (lhs rhs : Nat) : Inv (st.arrayAssign lhs rhs) := by
  unfold St.arrayAssign
  split
  · exact h
  · split
    · exact ⟨set_not_bottom h.1 _ _, Env.expand_inv Env.sortedInv _ _ _ (Env.forget_sorted _ _ h.2)⟩
    · split
      · exact ⟨remove_not_bottom h.1 _, Env.forget_sorted _ _ h.2⟩
      · exact h

theorem inv_join {a b : St} (ha : Inv a) (hb : Inv b) : Inv (St.join a b) := by
  unfold St.join
  split
  · exact hb
  · split
    · exact ha
    · exact ⟨join_not_bottom ha.1 hb.1, Env.upperWith_sorted _ ha.2 hb.2⟩

theorem inv_widen {a b : St} (ha : Inv a) (hb : Inv b) : Inv (St.widen a b) := by
  unfold St.widen
  split
  · exact hb
  · split
    · exact ha
    · exact ⟨join_not_bottom ha.1 hb.1, Env.upperWith_sorted _ ha.2 hb.2⟩

/-- join / widening with an operand whose base is bottom: the other operand -/
theorem join_bottom_l {a b : St} (h : a.isBottom = true) : St.join a b = b := by simp [St.join, h]
theorem join_bottom_r {a b : St} (h : a.isBottom = false) (h' : b.isBottom = true) : St.join a b = a := by
  simp [St.join, h, h']
theorem widen_bottom_l {a b : St} (h : a.isBottom = true) : St.widen a b = b := by simp [St.widen, h]
theorem widen_bottom_r {a b : St} (h : a.isBottom = false) (h' : b.isBottom = true) : St.widen a b = a := by
  simp [St.widen, h, h']

theorem absS_congr {st st' : St} (e : st = st') (h : st.base.Sorted) (h' : st'.base.Sorted) :
    absS st h = absS st' h' := by subst e; rfl

/-! ### commutation with the generic model -/

theorem abs_assign {st : St} (h : Inv st) (x : Nat) (e : SLin) :
    absS (st.assign x e) (inv_assign h x e).2 = Smash.nAssign (absS st h.2) x e := rfl

theorem abs_forget {st : St} (h : Inv st) (x : Nat) :
    absS (st.forget x) (inv_forget h x).2 = Smash.nForget (absS st h.2) x := rfl

theorem abs_arrayInit (esz : Nat → Nat) {st : St} (h : Inv st) (a : Nat) (val : SLin) :
    absS (st.arrayInit (esz a) a val) (inv_arrayInit h _ a val).2 = Smash.aInit esz (absS st h.2) a val := by
  simp only [absS, St.arrayInit, Smash.aInit, absSz_set h.1]
  rfl

theorem abs_arrayLoad (esz : Nat → Nat) {st : St} (h : Inv st) (x a : Nat) :
    absS (st.arrayLoad (esz a) x a) (inv_arrayLoad h _ x a).2 = Smash.aLoad esz (absS st h.2) x a := by
  by_cases ht : st.sizes.equalSize a (esz a) = true
  · have ht' : absSz st.sizes a = some (esz a) := (equalSize_iff h.1 a _).1 ht
    simp only [absS, St.arrayLoad, Smash.aLoad, ht, ht', if_true]
    rfl
  · have ht' : ¬ absSz st.sizes a = some (esz a) := fun e => ht ((equalSize_iff h.1 a _).2 e)
    simp only [absS, St.arrayLoad, Smash.aLoad, ht, ht', if_false]
    rfl

theorem abs_arrayStoreRange (esz : Nat → Nat) {st : St} (h : Inv st) (a : Nat) (val : SLin) :
    absS (st.arrayStoreRange (esz a) a val) (inv_arrayStoreRange h _ a val).2
      = Smash.aStoreRange esz (absS st h.2) a val := by
  by_cases ht : st.sizes.equalSize a (esz a) = true
  · have ht' : absSz st.sizes a = some (esz a) := (equalSize_iff h.1 a _).1 ht
    simp only [absS, St.arrayStoreRange, Smash.aStoreRange, ht, ht', if_true]
    rfl
  · have ht' : ¬ absSz st.sizes a = some (esz a) := fun e => ht ((equalSize_iff h.1 a _).2 e)
    simp only [absS, St.arrayStoreRange, Smash.aStoreRange, ht, ht', Bool.false_eq_true, if_false]

theorem abs_arrayStore (esz : Nat → Nat) {st : St} (h : Inv st) (a : Nat) (val : SLin) (strong : Bool) :
    absS (st.arrayStore (esz a) a val strong) (inv_arrayStore h _ a val strong).2
      = Smash.aStore esz (absS st h.2) a val strong := by
  cases strong with
  | true =>
    have e1 : (st.sizes.set a (esz a)).equalSize a (esz a) = true := by
      rw [equalSize_iff (set_not_bottom h.1 _ _), absSz_set h.1]; simp [Smash.setSize]
    simp only [absS, St.arrayStore, Smash.aStore, if_true, e1, absSz_set h.1, Smash.setSize]
    rfl
  | false =>
    by_cases ht : st.sizes.equalSize a (esz a) = true
    · have ht' : absSz st.sizes a = some (esz a) := (equalSize_iff h.1 a _).1 ht
      simp only [absS, St.arrayStore, Smash.aStore, Bool.false_eq_true, if_false, ht, ht', if_true]
      rfl
    · have ht' : ¬ absSz st.sizes a = some (esz a) := fun e => ht ((equalSize_iff h.1 a _).2 e)
      simp only [absS, St.arrayStore, Smash.aStore, Bool.false_eq_true, if_false, ht, ht']

theorem abs_join {a b : St} (ha : Inv a) (hb : Inv b) (na : a.isBottom = false) (nb : b.isBottom = false) :
    absS (St.join a b) (inv_join ha hb).2 = Smash.sJoin (absS a ha.2) (absS b hb.2) := by
  have e : St.join a b = ⟨SzEnv.join a.sizes b.sizes, IDom.Env.join a.base b.base⟩ := by
    simp [St.join, na, nb]
  rw [absS_congr e _ (Env.upperWith_sorted _ ha.2 hb.2)]
  simp only [absS, Smash.sJoin, absSz_join ha.1 hb.1]
  rfl

theorem abs_widen {a b : St} (ha : Inv a) (hb : Inv b) (na : a.isBottom = false) (nb : b.isBottom = false) :
    absS (St.widen a b) (inv_widen ha hb).2 = Smash.sWiden (absS a ha.2) (absS b hb.2) := by
  have e : St.widen a b = ⟨SzEnv.join a.sizes b.sizes, IDom.Env.widen a.base b.base⟩ := by
    simp [St.widen, na, nb]
  rw [absS_congr e _ (Env.upperWith_sorted _ ha.2 hb.2)]
  simp only [absS, Smash.sWiden, absSz_join ha.1 hb.1]
  rfl

/-- `array_assign` when the size of the right-hand side, or at least the size of the left-hand
    side, is known: the generic model -/
theorem abs_arrayAssign {st : St} (h : Inv st) (lhs rhs : Nat)
    (hk : lhs = rhs ∨ (st.sizes.constSize rhs).isSome = true ∨ (st.sizes.constSize lhs).isSome = true) :
    absS (st.arrayAssign lhs rhs) (inv_arrayAssign h lhs rhs).2 = Smash.aAssign (absS st h.2) lhs rhs := by
  by_cases hlr : lhs = rhs
  · simp only [absS, St.arrayAssign, Smash.aAssign, hlr, if_true]
  · have hr : absSz st.sizes rhs = st.sizes.constSize rhs := rfl
    cases hc : st.sizes.constSize rhs with
    | some k =>
      simp only [absS, St.arrayAssign, Smash.aAssign, hlr, if_false, hr, hc, absSz_set h.1]
      rfl
    | none =>
      rcases hk with hk | hk | hk
      · exact absurd hk hlr
      · rw [hc] at hk; exact absurd hk (by simp)
      · cases hl : st.sizes.constSize lhs with
        | none => rw [hl] at hk; exact absurd hk (by simp)
        | some k =>
          simp only [absS, St.arrayAssign, Smash.aAssign, hlr, if_false, hr, hc, hl, absSz_remove h.1]
          rfl

end SmashItv
end Dom
end Crab
