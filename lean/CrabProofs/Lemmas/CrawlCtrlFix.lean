import CrabProofs.Lemmas.CrawlCtrlReach

/-!
  The fixpoint computed by the model of the REPAIRED crawler (`crawl CrawlVariant.fixed`, any
  control-dependence graph, any block order that covers the blocks) satisfies the control
  inequations `isCtrlSol`.
-/
namespace Crab
namespace TIR

/-! ### entries -/

theorem Facts.has_set (F : Facts) (a b : AId) (d : VarSet) : (F.set b d).has a = (F.has a || a == b) := by
  by_cases hab : a = b
  · subst hab
    simp [Facts.has, Facts.lookup_set_self]
  · have hb : (a == b) = false := by simpa using hab
    simp [Facts.has, Facts.lookup_set_ne _ _ hab, hb]

theorem Facts.has_join_left (a b : Facts) (k : AId) (h : a.has k = true) : (a.join b).has k = true := by
  simp only [Facts.has, Facts.lookup_join] at h ⊢
  cases hl : a.lookup k with
  | some d => simp
  | none => rw [hl] at h; cases h

theorem Facts.has_join_right (a b : Facts) (k : AId) (h : b.has k = true) : (a.join b).has k = true := by
  simp only [Facts.has, Facts.lookup_join] at h ⊢
  cases hl : a.lookup k with
  | some d => simp
  | none => exact h

theorem foldl_join_has_mem (m : InMap) (b : AId) :
    ∀ (ls : List Label) (acc : Facts), (acc.has b = true ∨ ∃ l', l' ∈ ls ∧ (m.get l').has b = true) →
      (ls.foldl (fun acc p => acc.join (m.get p)) acc).has b = true := by
  intro ls
  induction ls with
  | nil =>
    intro acc h
    rcases h with h | ⟨l', hl', _⟩
    · exact h
    · cases hl'
  | cons p r ih =>
    intro acc h
    simp only [List.foldl_cons]
    apply ih
    rcases h with h | ⟨l', hl', hh⟩
    · exact Or.inl (Facts.has_join_left _ _ b h)
    · rcases List.mem_cons.mp hl' with rfl | hl'
      · exact Or.inl (Facts.has_join_right _ _ b hh)
      · exact Or.inr ⟨l', hl', hh⟩

theorem outFacts_has (P : Prog) (m : InMap) (n l' : Label) (hl : l' ∈ P.succsOf n) (a : AId)
    (h : (m.get l').has a = true) : (outFacts P m n).has a = true :=
  foldl_join_has_mem m a (P.succsOf n) [] (Or.inr ⟨l', hl, h⟩)

/-! ### one block -/

theorem xferStmt_has (v : CrawlVariant) (g : Cdg) (preds : List Label) (l : Label) (k : Nat) (s : Stmt)
    (X : XState) (hs : s.isUnreachable = false) (a : AId) (h : X.facts.has a = true) :
    (xferStmt v g preds l k s X).facts.has a = true := by
  cases s with
  | assert c =>
    simp only [xferStmt]
    split
    · split
      · simp [Facts.has_set, h]
      · exact h
    · simp [Facts.has_set, h]
  | unreachable => simp [Stmt.isUnreachable] at hs
  | assume c => simp only [xferStmt, Facts.has_mapVals]; exact h
  | assign x e => simp only [xferStmt, Facts.has_mapVals]; exact h
  | bin op x p q => simp only [xferStmt, Facts.has_mapVals]; exact h
  | havoc x => simp only [xferStmt, Facts.has_mapVals]; exact h
  | select x c e1 e2 => simp only [xferStmt, Facts.has_mapVals]; exact h

theorem noUnreach_cons (s : Stmt) (r : List Stmt) :
    noUnreach (s :: r) = true ↔ s.isUnreachable = false ∧ noUnreach r = true := by
  simp [noUnreach]

theorem xferFrom_has (v : CrawlVariant) (g : Cdg) (preds : List Label) (l : Label) (a : AId) :
    ∀ (ss : List Stmt) (k : Nat) (X : XState), noUnreach ss = true → X.facts.has a = true →
      (xferFrom v g preds l k ss X).facts.has a = true := by
  intro ss
  induction ss with
  | nil => intro k X _ h; simpa [xferFrom] using h
  | cons s r ih =>
    intro k X hn h
    obtain ⟨h1, h2⟩ := (noUnreach_cons s r).mp hn
    simp only [xferFrom]
    exact xferStmt_has v g preds l k s _ h1 a (ih (k + 1) X h2 h)

/-- the repaired `process_assertion` always (re)generates the entry of the assertion -/
theorem xferFrom_gen_has (v : CrawlVariant) (hv : v.stmtFromOut = true) (g : Cdg) (preds : List Label) (l : Label) :
    ∀ (ss : List Stmt) (k : Nat) (X : XState) (j : Nat) (c : Cst), ss[j]? = some (.assert c) →
      noUnreach (ss.take j) = true → (xferFrom v g preds l k ss X).facts.has (l, k + j) = true := by
  intro ss
  induction ss with
  | nil => intro k X j c h; simp at h
  | cons s r ih =>
    intro k X j c hj hn
    simp only [xferFrom]
    cases j with
    | zero =>
      simp only [List.getElem?_cons_zero, Option.some.injEq] at hj
      subst hj
      simp only [xferStmt, hv, if_true, Nat.add_zero]
      split <;> simp [Facts.has_set]
    | succ j' =>
      simp only [List.getElem?_cons_succ] at hj
      simp only [List.take_succ_cons] at hn
      obtain ⟨h1, h2⟩ := (noUnreach_cons s _).mp hn
      have := ih (k + 1) X j' c hj h2
      have he : k + 1 + j' = k + (j' + 1) := by omega
      rw [he] at this
      exact xferStmt_has v g preds l k s _ h1 _ this

/-- the variables of the leading `assume`s of a statement list -/
def guardVarsOf (ss : List Stmt) : VarSet :=
  (ss.takeWhile (fun s => s.assumeCst.isSome)).flatMap (fun s =>
    match s.assumeCst with
    | some c => c.vars
    | none => [])

theorem guardVars_eq (P : Prog) (l : Label) : guardVars P l = guardVarsOf (P.stmtsOf l) := rfl

theorem foldl_ctrl_add (g : Cdg) (test : List Label → Bool) (us : VarSet) (p0 : Label) (K : List Label)
    (hK : g.lookup p0 = some K) (ht : test K = true) :
    ∀ (preds : List Label), p0 ∈ preds → ∀ (d : VarSet) (y : Var), y ∈ us →
      y ∈ preds.foldl (fun d p =>
        match g.lookup p with
        | some children => if test children then d ++ us else d
        | none => d) d := by
  intro preds
  induction preds with
  | nil => intro h; cases h
  | cons p r ih =>
    intro hp d y hy
    simp only [List.foldl_cons]
    by_cases hpp : p = p0
    · subst hpp
      apply foldl_ctrl_sup
      simp only [hK, ht, if_true]
      exact List.mem_append.mpr (Or.inr hy)
    · exact ih ((List.mem_cons.mp hp).resolve_left (fun e => hpp e.symm)) _ y hy

theorem assumeStep_ctrl (v : CrawlVariant) (hv : v.ownBlock = true) (g : Cdg) (preds : List Label) (l d : Label)
    (c : Cst) (a : AId) (D : VarSet) (hd : d ∈ preds) (hc : ctrlCond g d l a = true) :
    ∀ y, y ∈ c.vars → y ∈ assumeStep v g preds l c a D := by
  intro y hy
  unfold ctrlCond at hc
  cases hK : g.lookup d with
  | none => rw [hK] at hc; cases hc
  | some K =>
    rw [hK] at hc
    simp only at hc
    have hne : g.isEmpty = false := by
      cases g with
      | nil => simp [List.lookup] at hK
      | cons _ _ => rfl
    unfold assumeStep
    simp only [hne, Bool.false_eq_true, if_false]
    exact foldl_ctrl_add g (fun children => (v.ownBlock && children.contains l) || g.reaches children a.1)
      c.vars d K hK (by simpa [hv] using hc) preds hd _ y hy

/-- `analyze` of the repaired code: an assertion that has an entry at the entry of the block
    lists the variables of the leading `assume`s when `add_control_deps` fires -/
theorem xferFrom_ctrl (v : CrawlVariant) (hv : v.ownBlock = true) (g : Cdg) (preds : List Label) (l d : Label)
    (a : AId) (hd : d ∈ preds) (hc : ctrlCond g d l a = true) :
    ∀ (ss : List Stmt) (k : Nat) (X : XState), (xferFrom v g preds l k ss X).facts.has a = true →
      ∀ y, y ∈ guardVarsOf ss → y ∈ (xferFrom v g preds l k ss X).facts.get a := by
  intro ss
  induction ss with
  | nil => intro k X _ y hy; simp [guardVarsOf] at hy
  | cons s r ih =>
    intro k X hh y hy
    cases s with
    | assume c =>
      simp only [xferFrom, xferStmt, Facts.has_mapVals] at hh ⊢
      rw [Facts.get_mapVals, hh]
      simp only [if_true]
      have hg : guardVarsOf (Stmt.assume c :: r) = c.vars ++ guardVarsOf r := by
        simp [guardVarsOf, Stmt.assumeCst, List.takeWhile_cons]
      rw [hg] at hy
      rcases List.mem_append.mp hy with hy | hy
      · exact assumeStep_ctrl v hv g preds l d c a _ hd hc y hy
      · apply assumeStep_sup
        rw [addDataDeps_nil_defs]
        split
        · exact List.mem_append.mpr (Or.inl (ih (k + 1) X hh y hy))
        · exact ih (k + 1) X hh y hy
    | assert c => simp [guardVarsOf, Stmt.assumeCst, List.takeWhile_cons] at hy
    | assign x e => simp [guardVarsOf, Stmt.assumeCst, List.takeWhile_cons] at hy
    | bin op x p q => simp [guardVarsOf, Stmt.assumeCst, List.takeWhile_cons] at hy
    | havoc x => simp [guardVarsOf, Stmt.assumeCst, List.takeWhile_cons] at hy
    | select x c e1 e2 => simp [guardVarsOf, Stmt.assumeCst, List.takeWhile_cons] at hy
    | unreachable => simp [guardVarsOf, Stmt.assumeCst, List.takeWhile_cons] at hy

/-! ### the iteration -/

/-- a property of the in-map that every block step preserves holds for the result of a round -/
theorem crawlRound_invariant (v : CrawlVariant) (P : Prog) (g : Cdg) (I : InMap → Prop)
    (hstep : ∀ m reg n, I m →
      I (stepMap m n (xferFrom v g (P.predsOf n) n 0 (P.stmtsOf n) ⟨outFacts P m n, reg⟩).facts)) :
    ∀ (ns : List Label) (m : InMap) (reg : List AId) (ch : Bool), I m → I (crawlRound v P g ns m reg ch).1 := by
  intro ns
  induction ns with
  | nil => intro m reg ch h; simpa [crawlRound] using h
  | cons n rest ih =>
    intro m reg ch h
    rw [crawlRound_eq]
    exact ih _ _ _ (hstep m reg n h)

theorem crawlIter_invariant (v : CrawlVariant) (P : Prog) (g : Cdg) (order : List Label) (I : InMap → Prop)
    (hstep : ∀ m reg n, I m →
      I (stepMap m n (xferFrom v g (P.predsOf n) n 0 (P.stmtsOf n) ⟨outFacts P m n, reg⟩).facts)) :
    ∀ (fuel : Nat) (m : InMap) (reg : List AId) (M : InMap), I m → crawlIter v P g order fuel m reg = some M → I M := by
  intro fuel
  induction fuel with
  | zero => intro m reg M _ h; simp [crawlIter] at h
  | succ f ih =>
    intro m reg M hI h
    simp only [crawlIter] at h
    have h1 := crawlRound_invariant v P g I hstep order m reg false hI
    cases hr : crawlRound v P g order m reg false with
    | mk m' rest =>
      obtain ⟨reg', ch⟩ := rest
      rw [hr] at h h1
      simp only at h h1
      cases ch with
      | true => simp only [if_true] at h; exact ih m' reg' M h1 h
      | false =>
        simp only [Bool.false_eq_true, if_false, Option.some.injEq] at h
        subst h
        exact h1

/-- a round without change: the in-map is the same and every block of the round is stable -/
theorem crawlRound_stable (v : CrawlVariant) (P : Prog) (g : Cdg) :
    ∀ (ns : List Label) (m : InMap) (reg : List AId) (ch : Bool), (crawlRound v P g ns m reg ch).2.2 = false →
      (crawlRound v P g ns m reg ch).1 = m ∧ ∀ n, n ∈ ns → ∃ reg',
        (xferFrom v g (P.predsOf n) n 0 (P.stmtsOf n) ⟨outFacts P m n, reg'⟩).facts.leq (m.get n) = true := by
  intro ns
  induction ns with
  | nil => intro m reg ch _; exact ⟨rfl, fun n h => by cases h⟩
  | cons n rest ih =>
    intro m reg ch hch
    rw [crawlRound_eq] at hch ⊢
    have hleq : (xferFrom v g (P.predsOf n) n 0 (P.stmtsOf n) ⟨outFacts P m n, reg⟩).facts.leq (m.get n) = true := by
      cases hl : (xferFrom v g (P.predsOf n) n 0 (P.stmtsOf n) ⟨outFacts P m n, reg⟩).facts.leq (m.get n) with
      | true => rfl
      | false =>
        rw [hl] at hch
        simp only [Bool.not_false, Bool.or_true] at hch
        rw [crawlRound_ch_true] at hch
        cases hch
    have hstep : stepMap m n (xferFrom v g (P.predsOf n) n 0 (P.stmtsOf n) ⟨outFacts P m n, reg⟩).facts = m := by
      simp [stepMap, hleq]
    rw [hstep] at hch ⊢
    obtain ⟨h1, h2⟩ := ih _ _ _ hch
    refine ⟨h1, ?_⟩
    intro n' hn'
    rcases List.mem_cons.mp hn' with rfl | hn'
    · exact ⟨reg, hleq⟩
    · exact h2 n' hn'

theorem crawlIter_stable (v : CrawlVariant) (P : Prog) (g : Cdg) (order : List Label) :
    ∀ (fuel : Nat) (m : InMap) (reg : List AId) (M : InMap), crawlIter v P g order fuel m reg = some M →
      ∀ n, n ∈ order → ∃ reg',
        (xferFrom v g (P.predsOf n) n 0 (P.stmtsOf n) ⟨outFacts P M n, reg'⟩).facts.leq (M.get n) = true := by
  intro fuel
  induction fuel with
  | zero => intro m reg M h; simp [crawlIter] at h
  | succ f ih =>
    intro m reg M h
    simp only [crawlIter] at h
    have h1 := crawlRound_stable v P g order m reg false
    cases hr : crawlRound v P g order m reg false with
    | mk m' rest =>
      obtain ⟨reg', ch⟩ := rest
      rw [hr] at h h1
      simp only at h h1
      cases ch with
      | true => simp only [if_true] at h; exact ih m' reg' M h
      | false =>
        simp only [Bool.false_eq_true, if_false, Option.some.injEq] at h
        subst h
        obtain ⟨hm, hst⟩ := h1 rfl
        subst hm
        exact hst

/-! ### the fixpoint of the repaired crawler solves the control inequations -/

theorem crawl_isCtrlSol (P : Prog) (g : Cdg) (order : List Label) (M : InMap) (hnd : P.labels.Nodup)
    (hord : ∀ l, l ∈ P.labels → l ∈ order) (h : crawl CrawlVariant.fixed P g order = some M) :
    isCtrlSol P g M.get = true := by
  have hstab := crawlIter_stable CrawlVariant.fixed P g order (crawlFuel P) [] [] M h
  -- the invariant of the control part
  have hinv : ∀ l a d, d ∈ P.predsOf l → (M.get l).has a = true → ctrlCond g d l a = true →
      ∀ y, y ∈ guardVars P l → y ∈ (M.get l).get a := by
    refine crawlIter_invariant CrawlVariant.fixed P g order
      (fun m => ∀ l a d, d ∈ P.predsOf l → (m.get l).has a = true → ctrlCond g d l a = true →
        ∀ y, y ∈ guardVars P l → y ∈ (m.get l).get a) ?_ (crawlFuel P) [] [] M ?_ h
    · intro m reg n hI l a d hd hh hc y hy
      cases hleq : (xferFrom CrawlVariant.fixed g (P.predsOf n) n 0 (P.stmtsOf n) ⟨outFacts P m n, reg⟩).facts.leq (m.get n) with
      | true =>
        simp only [stepMap, hleq, if_true] at hh ⊢
        exact hI l a d hd hh hc y hy
      | false =>
        simp only [stepMap, hleq, Bool.false_eq_true, if_false] at hh ⊢
        by_cases hl : l = n
        · subst hl
          rw [InMap.get_set_self] at hh ⊢
          rcases Facts.has_join _ _ a hh with h1 | h1
          · apply Facts.get_join_left
            rw [guardVars_eq] at hy
            exact xferFrom_ctrl CrawlVariant.fixed rfl g (P.predsOf l) l d a hd hc (P.stmtsOf l) 0 _ h1 y hy
          · apply Facts.get_join_right
            exact hI l a d hd h1 hc y hy
        · rw [InMap.get_set_ne _ _ hl] at hh ⊢
          exact hI l a d hd hh hc y hy
    · intro l a d _ hh
      simp [InMap.get, Facts.has, List.lookup] at hh
  simp only [isCtrlSol, Bool.and_eq_true, List.all_eq_true, Bool.or_eq_true, Bool.not_eq_eq_eq_not, Bool.not_true]
  refine ⟨⟨?_, ?_⟩, ?_⟩
  · intro ac hac
    by_cases hn : noUnreach ((P.stmtsOf ac.1.1).take ac.1.2) = true
    · right
      obtain ⟨reg', hleq⟩ := hstab ac.1.1 (hord _ (asserts_label hac))
      have hs := asserts_stmt hnd hac
      have := xferFrom_gen_has CrawlVariant.fixed rfl g (P.predsOf ac.1.1) ac.1.1 (P.stmtsOf ac.1.1) 0
        ⟨outFacts P M ac.1.1, reg'⟩ ac.1.2 ac.2 hs hn
      simp only [Nat.zero_add] at this
      exact Facts.leq_has hleq ac.1 this
    · left; simpa using hn
  · intro l hl
    by_cases hn : noUnreach (P.stmtsOf l) = true
    · right
      intro l' hl' ac _
      by_cases hh : (M.get l').has ac.1 = true
      · right
        obtain ⟨reg', hleq⟩ := hstab l (hord l hl)
        exact Facts.leq_has hleq ac.1
          (xferFrom_has CrawlVariant.fixed g (P.predsOf l) l ac.1 (P.stmtsOf l) 0 _ hn (outFacts_has P M l l' hl' ac.1 hh))
      · left; simpa using hh
    · left; simpa using hn
  · intro l _ d hd ac _
    by_cases hh : ((M.get l).has ac.1 && ctrlCond g d l ac.1) = true
    · right
      simp only [Bool.and_eq_true] at hh
      exact VarSet.subset_iff.mpr (hinv l ac.1 d hd hh.1 hh.2)
    · left; simpa using hh

end TIR
end Crab
