import CrabModel.Lin.Expr

/-! Lemmas on the model of `ikos::linear_expression`: evaluation is a homomorphism for every
    operator, the sorted-map invariant and the absence of zero coefficients are preserved. -/
namespace Crab.Lin.Expr

/-! ### `add(x, n)` -/

theorem evalTerms_addTerm (σ : Var → Int) (ts : List (Var × Int)) (x : Var) (n : Int) :
    evalTerms σ (addTerm ts x n) = evalTerms σ ts + n * σ x := by
  induction ts with
  | nil =>
    simp only [addTerm]
    split
    · next h => subst h; simp [evalTerms]
    · simp [evalTerms]
  | cons p rest ih =>
    obtain ⟨y, c⟩ := p
    simp only [addTerm]
    split
    · next h =>
      subst h
      split
      · next h0 =>
        have : (c + n) * σ x = 0 := by rw [h0]; simp
        rw [Int.add_mul] at this
        simp only [evalTerms]; omega
      · simp only [evalTerms, Int.add_mul]; omega
    · split
      · split
        · next h0 => subst h0; simp [evalTerms]
        · simp only [evalTerms]; omega
      · simp only [evalTerms, ih]; omega

/-- membership in the result of `add(x, n)` -/
theorem mem_addTerm {ts : List (Var × Int)} {x : Var} {n : Int} {p : Var × Int}
    (h : p ∈ addTerm ts x n) : p ∈ ts ∨ (p.1 = x ∧ p.2 ≠ 0) := by
  induction ts with
  | nil =>
    simp only [addTerm] at h
    split at h
    · simp at h
    · next hn => simp at h; subst h; exact Or.inr ⟨rfl, hn⟩
  | cons q rest ih =>
    obtain ⟨y, c⟩ := q
    simp only [addTerm] at h
    split at h
    · next hxy =>
      subst hxy
      split at h
      · exact Or.inl (List.mem_cons_of_mem _ h)
      · next h0 =>
        rcases List.mem_cons.1 h with h | h
        · subst h; exact Or.inr ⟨rfl, h0⟩
        · exact Or.inl (List.mem_cons_of_mem _ h)
    · split at h
      · split at h
        · exact Or.inl h
        · next hn =>
          rcases List.mem_cons.1 h with h | h
          · subst h; exact Or.inr ⟨rfl, hn⟩
          · exact Or.inl h
      · rcases List.mem_cons.1 h with h | h
        · subst h; exact Or.inl (List.mem_cons_self ..)
        · rcases ih h with h | h
          · exact Or.inl (List.mem_cons_of_mem _ h)
          · exact Or.inr h

theorem sortedKeys_addTerm {ts : List (Var × Int)} (x : Var) (n : Int) (h : SortedKeys ts) :
    SortedKeys (addTerm ts x n) := by
  unfold SortedKeys at *
  induction ts with
  | nil =>
    simp only [addTerm]
    split <;> simp
  | cons q rest ih =>
    obtain ⟨y, c⟩ := q
    have hc := List.pairwise_cons.1 h
    simp only [addTerm]
    split
    · next hxy =>
      subst hxy
      split
      · exact hc.2
      · exact List.pairwise_cons.2 ⟨hc.1, hc.2⟩
    · next hne =>
      split
      · next hlt =>
        split
        · exact h
        · refine List.pairwise_cons.2 ⟨?_, h⟩
          intro a ha
          rcases List.mem_cons.1 ha with ha | ha
          · subst ha; exact hlt
          · exact Nat.lt_trans hlt (hc.1 a ha)
      · next hnlt =>
        refine List.pairwise_cons.2 ⟨?_, ih hc.2⟩
        intro a ha
        rcases mem_addTerm ha with ha | ha
        · exact hc.1 a ha
        · have h1 : a.1 = x := ha.1
          show y < a.1
          rw [h1]
          exact Nat.lt_of_le_of_ne (Nat.le_of_not_lt hnlt) (fun h => hne h.symm)

theorem noZero_addTerm {ts : List (Var × Int)} (x : Var) (n : Int) (h : ∀ p ∈ ts, p.2 ≠ 0) :
    ∀ p ∈ addTerm ts x n, p.2 ≠ 0 := by
  intro p hp
  rcases mem_addTerm hp with hp | hp
  · exact h p hp
  · exact hp.2

/-! ### folds of `add` (operator+ / operator-) -/

theorem evalTerms_foldl_add (σ : Var → Int) (l acc : List (Var × Int)) :
    evalTerms σ (l.foldl (fun acc p => addTerm acc p.1 p.2) acc) = evalTerms σ acc + evalTerms σ l := by
  induction l generalizing acc with
  | nil => simp [evalTerms]
  | cons p rest ih =>
    obtain ⟨y, c⟩ := p
    simp only [List.foldl_cons, ih, evalTerms_addTerm, evalTerms]; omega

theorem evalTerms_foldl_sub (σ : Var → Int) (l acc : List (Var × Int)) :
    evalTerms σ (l.foldl (fun acc p => addTerm acc p.1 (-p.2)) acc) = evalTerms σ acc - evalTerms σ l := by
  induction l generalizing acc with
  | nil => simp [evalTerms]
  | cons p rest ih =>
    obtain ⟨y, c⟩ := p
    simp only [List.foldl_cons, ih, evalTerms_addTerm, evalTerms, Int.neg_mul]; omega

theorem sortedKeys_foldl (g : Int → Int) (l acc : List (Var × Int)) (h : SortedKeys acc) :
    SortedKeys (l.foldl (fun acc p => addTerm acc p.1 (g p.2)) acc) := by
  induction l generalizing acc with
  | nil => exact h
  | cons p rest ih => exact ih _ (sortedKeys_addTerm _ _ h)

theorem noZero_foldl (g : Int → Int) (l acc : List (Var × Int)) (h : ∀ p ∈ acc, p.2 ≠ 0) :
    ∀ p ∈ l.foldl (fun acc p => addTerm acc p.1 (g p.2)) acc, p.2 ≠ 0 := by
  induction l generalizing acc with
  | nil => exact h
  | cons p rest ih => exact ih _ (noZero_addTerm _ _ h)

/-! ### evaluation of the operators -/

@[simp] theorem eval_zero (σ : Var → Int) : eval zero σ = 0 := by simp [eval, zero, evalTerms]
@[simp] theorem eval_const (n : Int) (σ : Var → Int) : eval (const n) σ = n := by
  simp [eval, const, evalTerms]
@[simp] theorem eval_var (x : Var) (σ : Var → Int) : eval (var x) σ = σ x := by
  simp [eval, var, evalTerms]
@[simp] theorem eval_term (n : Int) (x : Var) (σ : Var → Int) : eval (term n x) σ = n * σ x := by
  unfold term
  split
  · next h => subst h; simp [eval, evalTerms]
  · simp [eval, evalTerms]

theorem eval_addNum (e : Expr) (n : Int) (σ : Var → Int) : eval (addNum e n) σ = eval e σ + n := by
  simp only [eval, addNum]; omega
theorem eval_subNum (e : Expr) (n : Int) (σ : Var → Int) : eval (subNum e n) σ = eval e σ - n := by
  simp only [subNum, eval_addNum]; omega
theorem eval_addVar (e : Expr) (x : Var) (σ : Var → Int) : eval (addVar e x) σ = eval e σ + σ x := by
  simp only [eval, addVar, evalTerms_addTerm]; omega
theorem eval_subVar (e : Expr) (x : Var) (σ : Var → Int) : eval (subVar e x) σ = eval e σ - σ x := by
  simp only [eval, subVar, evalTerms_addTerm]; omega

theorem eval_add (a b : Expr) (σ : Var → Int) : eval (add a b) σ = eval a σ + eval b σ := by
  simp only [eval, add, evalTerms_foldl_add]; omega
theorem eval_sub (a b : Expr) (σ : Var → Int) : eval (sub a b) σ = eval a σ - eval b σ := by
  simp only [eval, sub, evalTerms_foldl_sub]; omega

theorem evalTerms_scaleTerms (σ : Var → Int) (n : Int) (ts : List (Var × Int)) :
    evalTerms σ (scaleTerms n ts) = n * evalTerms σ ts := by
  induction ts with
  | nil => simp [scaleTerms, evalTerms]
  | cons p rest ih =>
    obtain ⟨x, c⟩ := p
    simp only [scaleTerms]
    split
    · simp only [evalTerms, ih, Int.mul_add, Int.mul_assoc]
    · next h =>
      have h0 : n * c = 0 := Decidable.not_not.1 h
      have : n * (c * σ x) = 0 := by rw [← Int.mul_assoc, h0]; simp
      simp only [evalTerms, ih, Int.mul_add, this]; omega

theorem eval_scale (e : Expr) (n : Int) (σ : Var → Int) : eval (scale e n) σ = n * eval e σ := by
  unfold scale
  split
  · next h => subst h; simp
  · simp only [eval, evalTerms_scaleTerms, Int.mul_add]

theorem eval_neg (e : Expr) (σ : Var → Int) : eval (neg e) σ = -eval e σ := by
  simp only [neg, eval_scale]; omega

/-! ### invariants of the operators -/

theorem scaleTerms_sublist_keys (n : Int) (ts : List (Var × Int)) :
    ∀ p ∈ scaleTerms n ts, p.2 ≠ 0 ∧ ∃ c, (p.1, c) ∈ ts := by
  induction ts with
  | nil => simp [scaleTerms]
  | cons q rest ih =>
    obtain ⟨x, c⟩ := q
    intro p hp
    simp only [scaleTerms] at hp
    split at hp
    · next h =>
      rcases List.mem_cons.1 hp with hp | hp
      · subst hp; exact ⟨h, c, List.mem_cons_self ..⟩
      · obtain ⟨h1, c', h2⟩ := ih p hp
        exact ⟨h1, c', List.mem_cons_of_mem _ h2⟩
    · obtain ⟨h1, c', h2⟩ := ih p hp
      exact ⟨h1, c', List.mem_cons_of_mem _ h2⟩

theorem sortedKeys_scaleTerms (n : Int) {ts : List (Var × Int)} (h : SortedKeys ts) :
    SortedKeys (scaleTerms n ts) := by
  unfold SortedKeys at *
  induction ts with
  | nil => simp [scaleTerms]
  | cons q rest ih =>
    obtain ⟨x, c⟩ := q
    have hc := List.pairwise_cons.1 h
    simp only [scaleTerms]
    split
    · refine List.pairwise_cons.2 ⟨?_, ih hc.2⟩
      intro a ha
      obtain ⟨_, c', h2⟩ := scaleTerms_sublist_keys n rest a ha
      have := hc.1 _ h2
      exact this
    · exact ih hc.2

theorem sorted_const (n : Int) : (const n).Sorted := by simp [Sorted, SortedKeys, const]
theorem sorted_zero : zero.Sorted := by simp [Sorted, SortedKeys, zero]
theorem sorted_var (x : Var) : (var x).Sorted := by simp [Sorted, SortedKeys, var]
theorem sorted_term (n : Int) (x : Var) : (term n x).Sorted := by
  unfold term; split <;> simp [Sorted, SortedKeys]

theorem sorted_addNum {e : Expr} (n : Int) (h : e.Sorted) : (addNum e n).Sorted := h
theorem sorted_subNum {e : Expr} (n : Int) (h : e.Sorted) : (subNum e n).Sorted := h
theorem sorted_addVar {e : Expr} (x : Var) (h : e.Sorted) : (addVar e x).Sorted :=
  sortedKeys_addTerm _ _ h
theorem sorted_subVar {e : Expr} (x : Var) (h : e.Sorted) : (subVar e x).Sorted :=
  sortedKeys_addTerm _ _ h
theorem sorted_add {a : Expr} (b : Expr) (h : a.Sorted) : (add a b).Sorted :=
  sortedKeys_foldl (fun c => c) _ _ h
theorem sorted_sub {a : Expr} (b : Expr) (h : a.Sorted) : (sub a b).Sorted :=
  sortedKeys_foldl (fun c => -c) _ _ h
theorem sorted_scale {e : Expr} (n : Int) (h : e.Sorted) : (scale e n).Sorted := by
  unfold scale
  split
  · exact sorted_zero
  · exact sortedKeys_scaleTerms n h
theorem sorted_neg {e : Expr} (h : e.Sorted) : (neg e).Sorted := sorted_scale _ h

theorem noZero_const (n : Int) : (const n).NoZero := by simp [NoZero, const]
theorem noZero_zero : zero.NoZero := by simp [NoZero, zero]
theorem noZero_var (x : Var) : (var x).NoZero := by simp [NoZero, var]
/-- the single-term constructor never stores a zero coefficient -/
theorem noZero_term (n : Int) (x : Var) : (term n x).NoZero := by
  unfold term
  split
  · simp [NoZero]
  · next h => simp [NoZero, h]
theorem noZero_addNum {e : Expr} (n : Int) (h : e.NoZero) : (addNum e n).NoZero := h
theorem noZero_subNum {e : Expr} (n : Int) (h : e.NoZero) : (subNum e n).NoZero := h
theorem noZero_addVar {e : Expr} (x : Var) (h : e.NoZero) : (addVar e x).NoZero :=
  noZero_addTerm _ _ h
theorem noZero_subVar {e : Expr} (x : Var) (h : e.NoZero) : (subVar e x).NoZero :=
  noZero_addTerm _ _ h
theorem noZero_add {a : Expr} (b : Expr) (h : a.NoZero) : (add a b).NoZero :=
  noZero_foldl (fun c => c) _ _ h
theorem noZero_sub {a : Expr} (b : Expr) (h : a.NoZero) : (sub a b).NoZero :=
  noZero_foldl (fun c => -c) _ _ h
/-- scaling drops zero products: the result has no zero coefficient whatever the operand -/
theorem noZero_scale (e : Expr) (n : Int) : (scale e n).NoZero := by
  unfold scale
  split
  · exact noZero_zero
  · intro p hp; exact (scaleTerms_sublist_keys n e.terms p hp).1
theorem noZero_neg (e : Expr) : (neg e).NoZero := noZero_scale e _

/-! ### rename -/

theorem findCoeff_of_sorted {ts : List (Var × Int)} (h : SortedKeys ts) :
    ∀ p ∈ ts, findCoeff ts p.1 = some p.2 := by
  unfold SortedKeys at h
  induction ts with
  | nil => simp
  | cons q rest ih =>
    obtain ⟨y, c⟩ := q
    have hc := List.pairwise_cons.1 h
    intro p hp
    rcases List.mem_cons.1 hp with hp | hp
    · subst hp; simp [findCoeff]
    · have hlt := hc.1 p hp
      have : p.1 ≠ y := by
        have h1 : y < p.1 := hlt
        exact fun h2 => Nat.lt_irrefl y (h2 ▸ h1)
      simp only [findCoeff, this, if_false]
      exact ih hc.2 p hp

/-- the fold of `rename`, over any list of variables -/
theorem eval_rename_fold (e : Expr) (m : List (Var × Var)) (σ : Var → Int) (vs : List Var) (acc : Expr) :
    eval (vs.foldl (fun acc v => add acc (term (e.coeff v) (renVar m v))) acc) σ
      = eval acc σ + (vs.map (fun v => e.coeff v * σ (renVar m v))).sum := by
  induction vs generalizing acc with
  | nil => simp
  | cons v rest ih =>
    simp only [List.foldl_cons, ih, eval_add, eval_term, List.map_cons, List.sum_cons]
    exact Int.add_assoc _ _ _

theorem sum_coeff_eq_evalTerms (e : Expr) (τ : Var → Int) (ts : List (Var × Int))
    (h : ∀ p ∈ ts, e.coeff p.1 = p.2) :
    ((ts.map (·.1)).map (fun v => e.coeff v * τ v)).sum = evalTerms τ ts := by
  induction ts with
  | nil => simp [evalTerms]
  | cons q rest ih =>
    obtain ⟨y, c⟩ := q
    have h1 := h (y, c) (List.mem_cons_self ..)
    simp only at h1
    simp only [List.map_cons, List.sum_cons, evalTerms, h1]
    rw [ih (fun p hp => h p (List.mem_cons_of_mem _ hp))]

theorem eval_rename {e : Expr} (h : e.Sorted) (m : List (Var × Var)) (σ : Var → Int) :
    eval (rename e m) σ = eval e (fun v => σ (renVar m v)) := by
  unfold rename variables
  rw [eval_rename_fold, eval_const]
  have hc : ∀ p ∈ e.terms, e.coeff p.1 = p.2 := by
    intro p hp
    simp [coeff, findCoeff_of_sorted h p hp]
  have := sum_coeff_eq_evalTerms e (fun v => σ (renVar m v)) e.terms hc
  simp only [eval]
  rw [← this]
  exact Int.add_comm _ _

theorem sorted_rename_fold (e : Expr) (m : List (Var × Var)) (vs : List Var) (acc : Expr)
    (h : acc.Sorted) :
    (vs.foldl (fun acc v => add acc (term (e.coeff v) (renVar m v))) acc).Sorted := by
  induction vs generalizing acc with
  | nil => exact h
  | cons v rest ih => exact ih _ (sorted_add _ h)

theorem noZero_rename_fold (e : Expr) (m : List (Var × Var)) (vs : List Var) (acc : Expr)
    (h : acc.NoZero) :
    (vs.foldl (fun acc v => add acc (term (e.coeff v) (renVar m v))) acc).NoZero := by
  induction vs generalizing acc with
  | nil => exact h
  | cons v rest ih => exact ih _ (noZero_add _ h)

/-- `rename` always returns a canonical expression (it is rebuilt from the constant) -/
theorem sorted_rename (e : Expr) (m : List (Var × Var)) : (rename e m).Sorted :=
  sorted_rename_fold e m _ _ (sorted_const _)
theorem noZero_rename (e : Expr) (m : List (Var × Var)) : (rename e m).NoZero :=
  noZero_rename_fold e m _ _ (noZero_const _)

/-! ### a canonical expression that denotes a constant function has an empty map -/

theorem evalTerms_zero (ts : List (Var × Int)) : evalTerms (fun _ => 0) ts = 0 := by
  induction ts with
  | nil => rfl
  | cons p rest ih => obtain ⟨y, c⟩ := p; simp [evalTerms, ih]

theorem evalTerms_unit_of_gt (x : Var) (ts : List (Var × Int)) (h : ∀ p ∈ ts, x < p.1) :
    evalTerms (fun v => if v = x then 1 else 0) ts = 0 := by
  induction ts with
  | nil => rfl
  | cons p rest ih =>
    obtain ⟨y, c⟩ := p
    have hy : x < y := h (y, c) (List.mem_cons_self ..)
    have hne : ¬ y = x := fun e => Nat.lt_irrefl x (e ▸ hy)
    simp only [evalTerms, hne, if_false, Int.mul_zero, Int.zero_add]
    exact ih (fun p hp => h p (List.mem_cons_of_mem _ hp))

theorem isConstant_of_constant_fun {e : Expr} (hc : e.Canonical) (k : Int)
    (h : ∀ σ, e.eval σ = k) : e.isConstant = true := by
  obtain ⟨ts, c0⟩ := e
  cases ts with
  | nil => rfl
  | cons p rest =>
    exfalso
    obtain ⟨x, c⟩ := p
    have h0 := h (fun _ => 0)
    have h1 := h (fun v => if v = x then 1 else 0)
    have hs : List.Pairwise (fun a b : Var × Int => a.1 < b.1) ((x, c) :: rest) := hc.1
    have hgt := (List.pairwise_cons.1 hs).1
    simp only [eval, evalTerms_zero] at h0
    simp only [eval, evalTerms, if_true, Int.mul_one,
      evalTerms_unit_of_gt x rest (fun p hp => hgt p hp)] at h1
    have hcne : c ≠ 0 := hc.2 (x, c) (List.mem_cons_self ..)
    omega

/-! ### syntactic equality -/

theorem pairsEq_eq {l1 l2 : List (Var × Int)} (hl : l1.length = l2.length)
    (h : pairsEq l1 l2 = true) : l1 = l2 := by
  induction l1 generalizing l2 with
  | nil => cases l2 with
    | nil => rfl
    | cons _ _ => simp at hl
  | cons p r1 ih =>
    cases l2 with
    | nil => simp at hl
    | cons q r2 =>
      obtain ⟨x, c⟩ := p
      obtain ⟨y, d⟩ := q
      simp only [pairsEq] at h
      split at h
      · simp at h
      · next hne =>
        have hcd : c = d := by
          by_cases hcd : c = d
          · exact hcd
          · exact absurd (Or.inl hcd) hne
        have hxy : x = y := by
          by_cases hxy : x = y
          · exact hxy
          · exact absurd (Or.inr hxy) hne
        have := ih (by simpa using hl) h
        subst hcd hxy this
        rfl

theorem pairsEq_refl (l : List (Var × Int)) : pairsEq l l = true := by
  induction l with
  | nil => rfl
  | cons p r ih => obtain ⟨x, c⟩ := p; simp [pairsEq, ih]

/-- `equal` is structural equality of the stored map and constant -/
theorem equal_iff (e o : Expr) : e.equal o = true ↔ e = o := by
  constructor
  · intro h
    unfold equal at h
    by_cases he : e.isConstant = true
    · rw [if_pos he] at h
      by_cases ho : (!o.isConstant) = true
      · rw [if_pos ho] at h; simp at h
      · rw [if_neg ho] at h
        cases e with | mk t1 c1 =>
        cases o with | mk t2 c2 =>
        have h1 : t1 = [] := by simpa [isConstant] using he
        have h2 : t2 = [] := by simpa [isConstant] using ho
        have h3 : c1 = c2 := by simpa [constant] using h
        subst h1 h2 h3; rfl
    · rw [if_neg he] at h
      by_cases hc : e.constant ≠ o.constant
      · rw [if_pos hc] at h; simp at h
      · rw [if_neg hc] at h
        by_cases hs : e.size ≠ o.size
        · rw [if_pos hs] at h; simp at h
        · rw [if_neg hs] at h
          cases e with | mk t1 c1 =>
          cases o with | mk t2 c2 =>
          have h3 : c1 = c2 := Decidable.not_not.1 hc
          have h4 : t1.length = t2.length := Decidable.not_not.1 hs
          have := pairsEq_eq h4 h
          subst h3 this; rfl
  · intro h
    subst h
    unfold equal
    by_cases he : e.isConstant = true
    · rw [if_pos he]; simp [he]
    · rw [if_neg he]; simp [pairsEq_refl]

end Crab.Lin.Expr
