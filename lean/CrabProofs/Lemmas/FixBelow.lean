/-
  C06, upper half: with an exact value type everything the iterator stores is below the
  collecting semantics (`ReachPre` / `ReachPost`).
-/
import CrabProofs.Lemmas.FixTermination

namespace Crab
namespace Fix

variable {A S : Type}

/-- every state of the post table is a reachable exit state -/
def PostOk (c : Ctx A) (sem : Sem c S) (st : St A) : Prop :=
  ∀ n s, sem.γ (st.post n) s → ReachPost c sem n s

/-- `a` only describes states with which block `n` is reached -/
def Good (c : Ctx A) (sem : Sem c S) (n : Nat) (a : A) : Prop :=
  ∀ s, sem.γ a s → ReachPre c sem n s

mutual
theorem Comp.member_of_mem : ∀ (x : Comp) (e : Nat), e ∈ x.nodes → x.member e = true
  | .vertex v, e, h => by
    simp only [Comp.nodes, List.mem_singleton] at h
    simp [Comp.member, h]
  | .cycle hd body, e, h => by
    simp only [Comp.nodes, List.mem_cons] at h
    simp only [Comp.member, Bool.or_eq_true, beq_iff_eq]
    rcases h with h | h
    · exact Or.inl h.symm
    · exact Or.inr (memberList_of_mem body e h)
theorem memberList_of_mem : ∀ (xs : List Comp) (e : Nat), e ∈ nodesList xs → memberList e xs = true
  | [], e, h => by simp [nodesList] at h
  | x :: xs, e, h => by
    simp only [nodesList, List.mem_append] at h
    simp only [memberList, Bool.or_eq_true]
    rcases h with h | h
    · exact Or.inl (Comp.member_of_mem x e h)
    · exact Or.inr (memberList_of_mem xs e h)
end

section
variable {c : Ctx A} {sem : Sem c S}

theorem strengthen_below (ex : Exact c sem) (n : Nat) (inv : A) (s : S)
    (h : sem.γ (strengthen c n inv) s) : sem.γ inv s ∧ asmOk c sem n s := by
  unfold strengthen at h
  unfold asmOk
  cases hA : hasAssumptions c
  · simp [hA] at h ⊢; exact h
  · simp only [hA, if_true] at h ⊢
    cases hm : c.assumptions with
    | none => simp [hm] at h ⊢; exact h
    | some m =>
      simp only [hm] at h ⊢
      cases hl : m.lookup n with
      | none => simp [hl] at h ⊢; exact h
      | some a =>
        simp only [hl] at h ⊢
        exact ex.meet_exact _ _ _ h

theorem joinPosts_below (ex : Exact c sem) (post : Nat → A) (s : S) :
    ∀ (ps : List Nat) (acc : A), sem.γ (joinPosts c post acc ps) s →
      sem.γ acc s ∨ ∃ p, p ∈ ps ∧ sem.γ (post p) s := by
  intro ps
  induction ps with
  | nil => intro acc h; exact Or.inl h
  | cons p ps ih =>
    intro acc h
    have h' : sem.γ (joinPosts c post (c.ops.join acc (post p)) ps) s := h
    rcases ih _ h' with h1 | ⟨q, hq, hs⟩
    · rcases ex.join_exact _ _ _ h1 with h2 | h2
      · exact Or.inl h2
      · exact Or.inr ⟨p, List.mem_cons_self, h2⟩
    · exact Or.inr ⟨q, List.mem_cons_of_mem _ hq, hs⟩

theorem cycleFold_below (ex : Exact c sem) (post : Nat → A) (cn : List Nat) (s : S) :
    ∀ (ps : List Nat) (acc : A),
      sem.γ (ps.foldl (fun a p => match c.nesting p with
          | none => a
          | some np => if !(nestingGt np cn) then c.ops.join a (post p) else a) acc) s →
      sem.γ acc s ∨ ∃ p, p ∈ ps ∧ sem.γ (post p) s := by
  intro ps
  induction ps with
  | nil => intro acc h; exact Or.inl h
  | cons p ps ih =>
    intro acc h
    rw [List.foldl_cons] at h
    rcases ih _ h with h1 | ⟨q, hq, hs⟩
    · cases hn : c.nesting p with
      | none => simp only [hn] at h1; exact Or.inl h1
      | some np =>
        simp only [hn] at h1
        split at h1
        · rcases ex.join_exact _ _ _ h1 with h2 | h2
          · exact Or.inl h2
          · exact Or.inr ⟨p, List.mem_cons_self, h2⟩
        · exact Or.inl h1
    · exact Or.inr ⟨q, List.mem_cons_of_mem _ hq, hs⟩

/-- a value made of predecessors' posts (and `init` at the start block), once strengthened, is
    below the collecting semantics -/
theorem good_strengthen (ex : Exact c sem) {st : St A} (hp : PostOk c sem st) (n : Nat) (a : A)
    (h : ∀ s, sem.γ a s → (n = c.entry ∧ sem.γ c.init s) ∨ ∃ p, p ∈ c.preds n ∧ sem.γ (st.post p) s) :
    Good c sem n (strengthen c n a) := by
  intro s hs
  obtain ⟨h1, h2⟩ := strengthen_below ex n a s hs
  rcases h s h1 with ⟨rfl, hi⟩ | ⟨p, hpm, hps⟩
  · exact ReachPre.init s hi h2
  · exact ReachPre.flow p n s hpm (hp p s hps) h2

theorem newPre_good (ex : Exact c sem) {st : St A} (hp : PostOk c sem st) (head : Nat) :
    Good c sem head (newPre c st head) := by
  unfold newPre
  refine good_strengthen ex hp head _ (fun s hs => ?_)
  by_cases he : (head == c.entry) = true
  · simp only [he, if_true] at hs
    rcases ex.join_exact _ _ _ hs with h1 | h1
    · rcases joinPosts_below ex _ s _ _ h1 with h2 | h2
      · exact absurd h2 (ex.bot_empty s)
      · exact Or.inr h2
    · exact Or.inl ⟨by simpa using he, h1⟩
  · simp only [he] at hs
    rcases joinPosts_below ex _ s _ _ hs with h2 | h2
    · exact absurd h2 (ex.bot_empty s)
    · exact Or.inr h2

theorem cyclePre_good (ex : Exact c sem) {st : St A} (hp : PostOk c sem st) (head : Nat) :
    Good c sem head (cyclePre c st head) := by
  unfold cyclePre
  refine good_strengthen ex hp head _ (fun s hs => ?_)
  by_cases he : (head == c.entry) = true
  · simp only [he, if_true] at hs
    rcases ex.join_exact _ _ _ hs with h1 | h1
    · rcases cycleFold_below ex _ _ s _ _ h1 with h2 | h2
      · exact absurd h2 (ex.bot_empty s)
      · exact Or.inr h2
    · exact Or.inl ⟨by simpa using he, h1⟩
  · simp only [he] at hs
    rcases cycleFold_below ex _ _ s _ _ hs with h2 | h2
    · exact absurd h2 (ex.bot_empty s)
    · exact Or.inr h2

theorem vertexPre_good (ex : Exact c sem) {st : St A} (hp : PostOk c sem st) (node : Nat) :
    Good c sem node (strengthen c node
      (if node == c.entry then joinPosts c st.post c.init (c.preds node)
       else joinPosts c st.post c.ops.bot (c.preds node))) := by
  refine good_strengthen ex hp node _ (fun s hs => ?_)
  by_cases he : (node == c.entry) = true
  · simp only [he, if_true] at hs
    rcases joinPosts_below ex _ s _ _ hs with h2 | h2
    · exact Or.inl ⟨by simpa using he, h2⟩
    · exact Or.inr h2
  · simp only [he] at hs
    rcases joinPosts_below ex _ s _ _ hs with h2 | h2
    · exact absurd h2 (ex.bot_empty s)
    · exact Or.inr h2

theorem computePost_ok (ex : Exact c sem) {st : St A} (hp : PostOk c sem st) (node : Nat) (inv : A)
    (hg : Good c sem node inv) : PostOk c sem (computePost c st node inv) := by
  intro n s hs
  simp only [computePost, upd] at hs
  split at hs
  · subst n
    obtain ⟨s0, h0, hstep⟩ := ex.analyze_exact _ _ _ hs
    exact ReachPost.step _ s0 s (hg s0 h0) hstep
  · exact hp n s hs

theorem extrapolate_good (ex : Exact c sem) (n it : Nat) (a b : A)
    (ha : Good c sem n a) (hb : Good c sem n b) : Good c sem n (extrapolate c it a b) := by
  intro s hs
  unfold extrapolate at hs
  rw [ex.widen_is_join] at hs
  simp only [ite_self] at hs
  rcases ex.join_exact _ _ _ hs with h | h
  · exact ha s h
  · exact hb s h

theorem refine_good (ex : Exact c sem) (n it : Nat) (a b : A)
    (ha : Good c sem n a) : Good c sem n (refine c it a b) := by
  intro s hs
  unfold refine at hs
  rw [ex.narrow_is_meet] at hs
  simp only [ite_self] at hs
  exact ha s (ex.meet_exact _ _ _ hs).1

theorem good_upd (n k : Nat) (f : Nat → A) (v : A)
    (hv : Good c sem k v) (hf : Good c sem n (f n)) : Good c sem n (upd f k v n) := by
  unfold upd
  split
  · subst n; exact hv
  · exact hf

/-- `visit(wto_vertex_t&)` keeps the tables below the collecting semantics, and the invariant
    of the start block is recomputed when the vertex is the start block -/
theorem visitVertex_below (ex : Exact c sem) (st : St A) (v : Nat) (hp : PostOk c sem st) :
    PostOk c sem (visitVertex c st v) ∧
    (∀ n, Good c sem n (st.pre n) → Good c sem n ((visitVertex c st v).pre n)) ∧
    (v = c.entry → Good c sem c.entry ((visitVertex c st v).pre c.entry)) := by
  have key : ∀ st' : St A, st'.skip = false → PostOk c sem st' →
      PostOk c sem (visitVertex c st' v) ∧
      (∀ n, Good c sem n (st'.pre n) → Good c sem n ((visitVertex c st' v).pre n)) ∧
      Good c sem v ((visitVertex c st' v).pre v) := by
    intro st' hs hp'
    have hg := vertexPre_good ex hp' v
    have e : visitVertex c st' v =
        computePost c { st' with pre := upd st'.pre v (strengthen c v
          (if v == c.entry then joinPosts c st'.post c.init (c.preds v)
           else joinPosts c st'.post c.ops.bot (c.preds v))) } v (strengthen c v
          (if v == c.entry then joinPosts c st'.post c.init (c.preds v)
           else joinPosts c st'.post c.ops.bot (c.preds v))) := by
      simp [visitVertex, hs]
    rw [e]
    refine ⟨computePost_ok ex (st := { st' with pre := _ }) hp' v _ hg, ?_, ?_⟩
    · intro n hn
      exact good_upd n v _ _ hg hn
    · show Good c sem v (upd _ v _ v)
      simp only [upd, if_true]
      exact hg
  cases hs : st.skip with
  | false =>
    obtain ⟨h1, h2, h3⟩ := key st hs hp
    exact ⟨h1, h2, fun hv => by subst hv; exact h3⟩
  | true =>
    by_cases hv : v = c.entry
    · have e : visitVertex c st v = visitVertex c { st with skip := false } v := by
        simp [visitVertex, hs, hv]
      rw [e]
      obtain ⟨h1, h2, h3⟩ := key { st with skip := false } rfl hp
      exact ⟨h1, h2, fun hv => by subst hv; exact h3⟩
    · have e : visitVertex c st v = st := by
        simp [visitVertex, hs, hv]
      rw [e]
      exact ⟨hp, fun n hn => hn, fun h => absurd h hv⟩

theorem below_aux (ex : Exact c sem) : ∀ f,
    (∀ st x r, PostOk c sem st → visitComp c f st x = some r →
      PostOk c sem r ∧ (∀ n, Good c sem n (st.pre n) → Good c sem n (r.pre n)) ∧
      (c.entry ∈ x.nodes → Good c sem c.entry (r.pre c.entry))) ∧
    (∀ st xs r, PostOk c sem st → visitList c f st xs = some r →
      PostOk c sem r ∧ (∀ n, Good c sem n (st.pre n) → Good c sem n (r.pre n)) ∧
      (c.entry ∈ nodesList xs → Good c sem c.entry (r.pre c.entry))) ∧
    (∀ st head body it pre r p, PostOk c sem st → Good c sem head pre →
      ascend c f st head body it pre = some (r, p) →
      PostOk c sem r ∧ Good c sem head p ∧
      (∀ n, Good c sem n (st.pre n) → Good c sem n (r.pre n)) ∧
      (c.entry ∈ head :: nodesList body → Good c sem c.entry (r.pre c.entry))) ∧
    (∀ st head body it pre r, PostOk c sem st → Good c sem head pre →
      descend c f st head body it pre = some r →
      PostOk c sem r ∧ (∀ n, Good c sem n (st.pre n) → Good c sem n (r.pre n))) := by
  intro f
  induction f with
  | zero =>
    refine ⟨?_, ?_, ?_, ?_⟩
    · intro st x r _ h; simp [visitComp_zero] at h
    · intro st xs r _ h; simp [visitList_zero] at h
    · intro st h b i p r q _ _ h; simp [ascend_zero] at h
    · intro st h b i p r _ _ h; simp [descend_zero] at h
  | succ f ih =>
    obtain ⟨ihC, ihL, ihA, ihD⟩ := ih
    refine ⟨?_, ?_, ?_, ?_⟩
    · -- visitComp
      intro st x r hp h
      cases x with
      | vertex v =>
        rw [visitComp_vertex] at h
        cases h
        obtain ⟨h1, h2, h3⟩ := visitVertex_below ex st v hp
        refine ⟨h1, h2, fun hm => h3 ?_⟩
        simp only [Comp.nodes, List.mem_singleton] at hm
        exact hm.symm
      | cycle head body =>
        rw [visitComp_cycle] at h
        by_cases hs : (st.skip && !(st.skip && (Comp.cycle head body).member c.entry)) = true
        · rw [if_pos hs] at h
          cases h
          refine ⟨hp, fun n hn => hn, fun hm => ?_⟩
          have := Comp.member_of_mem _ _ hm
          simp [this] at hs
        · rw [if_neg hs] at h
          cases hA : ascend c f { st with skip := false } head body 1 (cyclePre c st head) with
          | none => simp [hA] at h
          | some q =>
            obtain ⟨st1, p1⟩ := q
            rw [hA] at h
            simp only at h
            obtain ⟨a1, a2, a3, a4⟩ := ihA _ _ _ _ _ _ (st := { st with skip := false }) hp
              (cyclePre_good ex hp head) hA
            by_cases hd : c.descending = 0
            · rw [if_pos hd] at h
              cases h
              exact ⟨a1, a3, a4⟩
            · rw [if_neg hd] at h
              obtain ⟨d1, d2⟩ := ihD _ _ _ _ _ _ a1 a2 h
              exact ⟨d1, fun n hn => d2 n (a3 n hn), fun hm => d2 _ (a4 hm)⟩
    · -- visitList
      intro st xs r hp h
      cases xs with
      | nil =>
        rw [visitList_nil] at h
        cases h
        exact ⟨hp, fun n hn => hn, fun hm => by simp [nodesList] at hm⟩
      | cons x xs =>
        rw [visitList_cons] at h
        cases hC : visitComp c f st x with
        | none => simp [hC] at h
        | some st1 =>
          rw [hC] at h
          simp only at h
          obtain ⟨c1, c2, c3⟩ := ihC _ _ _ hp hC
          obtain ⟨l1, l2, l3⟩ := ihL _ _ _ c1 h
          refine ⟨l1, fun n hn => l2 n (c2 n hn), fun hm => ?_⟩
          simp only [nodesList, List.mem_append] at hm
          rcases hm with hm | hm
          · exact l2 _ (c3 hm)
          · exact l3 hm
    · -- ascend
      intro st head body it pre r p hp hg h
      rw [ascend_succ] at h
      have hp0 : PostOk c sem (computePost c { st with pre := upd st.pre head pre } head pre) :=
        computePost_ok ex (st := { st with pre := _ }) hp head pre hg
      cases hL : visitList c f (computePost c { st with pre := upd st.pre head pre } head pre) body with
      | none => simp [hL] at h
      | some st1 =>
        rw [hL] at h
        simp only at h
        obtain ⟨l1, l2, l3⟩ := ihL _ _ _ hp0 hL
        have hnp := newPre_good ex l1 head
        have hst1 : ∀ n, Good c sem n (st.pre n) → Good c sem n (st1.pre n) := fun n hn =>
          l2 n (good_upd n head _ _ hg hn)
        have hhead : Good c sem head (st1.pre head) := by
          refine l2 head ?_
          show Good c sem head (upd st.pre head pre head)
          simp only [upd, if_true]; exact hg
        have hentry : c.entry ∈ head :: nodesList body → Good c sem c.entry (st1.pre c.entry) := by
          intro hm
          rcases List.mem_cons.1 hm with hm | hm
          · rw [hm]; exact hhead
          · exact l3 hm
        by_cases hl : c.ops.leq (newPre c st1 head) pre = true
        · rw [if_pos hl] at h
          cases h
          refine ⟨l1, hnp, fun n hn => good_upd n head _ _ hnp (hst1 n hn), fun hm => ?_⟩
          exact good_upd _ head _ _ hnp (hentry hm)
        · rw [if_neg hl] at h
          obtain ⟨a1, a2, a3, a4⟩ := ihA _ _ _ _ _ _ _ l1
            (extrapolate_good ex head it _ _ hg hnp) h
          exact ⟨a1, a2, fun n hn => a3 n (hst1 n hn), a4⟩
    · -- descend
      intro st head body it pre r hp hg h
      rw [descend_succ] at h
      have hp0 : PostOk c sem (computePost c st head pre) := computePost_ok ex hp head pre hg
      cases hL : visitList c f (computePost c st head pre) body with
      | none => simp [hL] at h
      | some st1 =>
        rw [hL] at h
        simp only at h
        obtain ⟨l1, l2, _⟩ := ihL _ _ _ hp0 hL
        have hst1 : ∀ n, Good c sem n (st.pre n) → Good c sem n (st1.pre n) := fun n hn => l2 n hn
        by_cases hl : c.ops.leq pre (newPre c st1 head) = true
        · rw [if_pos hl] at h
          cases h
          exact ⟨l1, hst1⟩
        · rw [if_neg hl] at h
          by_cases hi : it > c.descending
          · rw [if_pos hi] at h
            cases h
            exact ⟨l1, hst1⟩
          · rw [if_neg hi] at h
            have hr := refine_good ex head it pre (newPre c st1 head) hg
            obtain ⟨d1, d2⟩ := ihD _ _ _ _ _
              (st := { st1 with pre := upd st1.pre head (refine c it pre (newPre c st1 head)) })
              l1 hr h
            exact ⟨d1, fun n hn => d2 n (good_upd n head _ _ hr (hst1 n hn))⟩

/-- C06, upper half -/
theorem run_below (ex : Exact c sem) (w : List Comp) (hw : c.entry ∈ nodesList w)
    (fuel : Nat) (st : St A) (h : run c fuel w = some st) :
    (∀ n s, sem.γ (st.pre n) s → ReachPre c sem n s) ∧
    (∀ n s, sem.γ (st.post n) s → ReachPost c sem n s) := by
  have hp0 : PostOk c sem
      { pre := upd (fun _ => c.ops.bot) c.entry c.init, post := fun _ => c.ops.bot, skip := true } :=
    fun n s hs => absurd hs (ex.bot_empty s)
  obtain ⟨l1, l2, l3⟩ := (below_aux ex fuel).2.1 _ _ _ hp0 h
  refine ⟨fun n s hs => ?_, l1⟩
  by_cases hn : n = c.entry
  · subst hn; exact l3 hw s hs
  · refine l2 n ?_ s hs
    intro s' hs'
    simp only [upd, if_neg hn] at hs'
    exact absurd hs' (ex.bot_empty s')

end
end Fix
end Crab
