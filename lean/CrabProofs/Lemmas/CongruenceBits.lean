import CrabProofs.Lemmas.CongruenceOps

/-! Soundness lemmas for the bitwise operations and the shifts of `Crab.Cong`. -/
namespace Crab
namespace Cong

theorem eq_zero_of_isZero {x : Cong} {a : Int} (hz : x.isZero = true) (ha : mem a x) : a = 0 := by
  simp [isZero] at hz
  have := eq_of_mem_cst ha hz.1.2
  omega

theorem eq_neg_one_of_allOnes {x : Cong} {a : Int} (hz : x.allOnes = true) (ha : mem a x) : a = -1 := by
  simp [allOnes] at hz
  have := eq_of_mem_cst ha hz.1.2
  omega

theorem and_sound {x o : Cong} {a b : Int} (ha : mem a x) (hb : mem b o) :
    mem (ZNum.land a b) (and x o) := by
  unfold and
  simp only [ha.1, hb.1, Bool.or_self, Bool.false_eq_true, if_false]
  split
  · exact mem_top _
  · split
    · rename_i hz
      rw [mem_ofInt]
      rcases Bool.or_eq_true _ _ |>.mp hz with h | h
      · rw [eq_zero_of_isZero h ha]; exact ZNum.land_zero_left _
      · rw [eq_zero_of_isZero h hb]; exact ZNum.land_zero_right _
    · split
      · rename_i h; rw [eq_neg_one_of_allOnes h ha, ZNum.land_neg_one_left]; exact hb
      · split
        · rename_i h; rw [eq_neg_one_of_allOnes h hb, ZNum.land_neg_one_right]; exact ha
        · split
          · rename_i h
            rw [mem_ofInt, eq_of_mem_cst ha h.1, eq_of_mem_cst hb h.2]
          · exact mem_top _

theorem or_sound {x o : Cong} {a b : Int} (ha : mem a x) (hb : mem b o) :
    mem (ZNum.lor a b) (or x o) := by
  unfold or
  simp only [ha.1, hb.1, Bool.or_self, Bool.false_eq_true, if_false]
  split
  · exact mem_top _
  · split
    · rename_i hz
      rw [mem_ofInt]
      rcases Bool.or_eq_true _ _ |>.mp hz with h | h
      · rw [eq_neg_one_of_allOnes h ha]; exact ZNum.lor_neg_one_left _
      · rw [eq_neg_one_of_allOnes h hb]; exact ZNum.lor_neg_one_right _
    · split
      · rename_i h; rw [eq_zero_of_isZero h ha, ZNum.lor_zero_left]; exact hb
      · split
        · rename_i h; rw [eq_zero_of_isZero h hb, ZNum.lor_zero_right]; exact ha
        · split
          · rename_i h
            rw [mem_ofInt, eq_of_mem_cst ha h.1, eq_of_mem_cst hb h.2]
          · exact mem_top _

theorem xor_sound {x o : Cong} {a b : Int} (ha : mem a x) (hb : mem b o) :
    mem (ZNum.lxor a b) (xor x o) := by
  unfold xor
  simp only [ha.1, hb.1, Bool.or_self, Bool.false_eq_true, if_false]
  split
  · exact mem_top _
  · split
    · rename_i h; rw [eq_zero_of_isZero h ha, ZNum.lxor_zero_left]; exact hb
    · split
      · rename_i h; rw [eq_zero_of_isZero h hb, ZNum.lxor_zero_right]; exact ha
      · split
        · rename_i h
          rw [mem_ofInt, eq_of_mem_cst ha h.1, eq_of_mem_cst hb h.2]
        · exact mem_top _

/-! ### right shifts (constants only; through the interval operations) -/

theorem itv_single_singleton (n : Int) : (Itv.mk' (.fin n) (.fin n)).singleton? = some n := by
  simp [Itv.mk', Itv.singleton?, Itv.isBottom, Bound.gt, Bound.le, Bound.number?]

theorem itv_top_singleton : Itv.top.singleton? = none := by
  simp [Itv.top, Itv.singleton?]

theorem ashr_sound {x o : Cong} {a k : Int} (ha : mem a x) (hk : mem k o) (hk0 : 0 ≤ k) :
    mem (a / 2 ^ k.toNat) (ashr x o) := by
  unfold ashr
  simp only [ha.1, hk.1, Bool.or_self, Bool.false_eq_true, if_false]
  split
  · exact mem_top _
  · split
    · rename_i h
      have := eq_of_mem_cst hk h.1
      omega
    · split
      · rename_i h
        have ea := eq_of_mem_cst ha h.1
        have ek := eq_of_mem_cst hk h.2
        rw [← ea, ← ek]
        have hs : (Itv.single k).singleton? = some k := by
          simp [Itv.single, Itv.singleton?, Itv.isBottom, Bound.gt, Bound.le, Bound.number?]
        have hb1 : (Itv.single a).isBottom = false := by simp [Itv.single, Itv.isBottom, Bound.gt, Bound.le]
        have hb2 : (Itv.single k).isBottom = false := by simp [Itv.single, Itv.isBottom, Bound.gt, Bound.le]
        unfold Itv.ashr
        simp only [hb1, hb2, Bool.or_self, Bool.false_eq_true, if_false, hs]
        have hnl : ¬ k < 0 := by omega
        simp only [hnl, if_false]
        by_cases hle : k ≤ 128
        · simp only [hle, if_true, Itv.single, Itv.shrBound, itv_single_singleton]
          rw [mem_ofInt]
          exact (ZNum.shr_eq hk0 (by omega)).symm
        · simp only [hle, if_false, itv_top_singleton]; exact mem_top _
      · exact mem_top _

theorem lshr_sound {x o : Cong} {a k : Int} (ha : mem a x) (hk : mem k o) (hk0 : 0 ≤ k)
    (hk1 : k < 2 ^ 64) : mem (a / 2 ^ k.toNat) (lshr x o) := by
  unfold lshr
  simp only [ha.1, hk.1, Bool.or_self, Bool.false_eq_true, if_false]
  split
  · exact mem_top _
  · split
    · rename_i h
      have := eq_of_mem_cst hk h.1
      omega
    · split
      · rename_i h
        have ea := eq_of_mem_cst ha h.1
        have ek := eq_of_mem_cst hk h.2
        rw [← ea, ← ek]
        have hs : (Itv.single k).singleton? = some k := by
          simp [Itv.single, Itv.singleton?, Itv.isBottom, Bound.gt, Bound.le, Bound.number?]
        have hb1 : (Itv.single a).isBottom = false := by simp [Itv.single, Itv.isBottom, Bound.gt, Bound.le]
        have hb2 : (Itv.single k).isBottom = false := by simp [Itv.single, Itv.isBottom, Bound.gt, Bound.le]
        unfold Itv.lshr
        simp only [hb1, hb2, Bool.or_self, Bool.false_eq_true, if_false, hs]
        have hnl : ¬ k < 0 := by omega
        simp only [hnl, if_false]
        simp only [Itv.single]
        by_cases hge : (Bound.ge (Bound.fin a) (Bound.fin 0) && (Bound.fin a).isFinite) = true
        · simp only [hge, if_true, itv_single_singleton]
          rw [mem_ofInt]
          exact (ZNum.shr_eq hk0 hk1).symm
        · simp only [hge, Bool.false_eq_true, if_false, itv_top_singleton]; exact mem_top _
      · exact mem_top _

/-! ### left shift -/

theorem getUi_of_natAbs_lt {k : Int} (h : k.natAbs < 2 ^ 64) : ZNum.getUi k = k.natAbs := by
  unfold ZNum.getUi; exact Nat.mod_eq_of_lt h

theorem sub_one_dvd_pow_sub_one (y : Int) (n : Nat) : y - 1 ∣ y ^ n - 1 := by
  induction n with
  | zero => simp
  | succ n ih =>
    have : y ^ (n + 1) - 1 = (y ^ n - 1) * y + (y - 1) := by
      rw [Int.pow_succ, Int.sub_mul]; omega
    rw [this]
    exact Int.dvd_add (Int.dvd_trans ih (Int.dvd_mul_right _ _)) (Int.dvd_refl _)

/-- the part of the domain of `Shl` on which its answer is right: a constant amount that fits
    a machine word, or a class whose residue is its least non-negative member (the code
    takes `2^|b'|` for a negative residue) and whose modulus fits a machine word -/
def shlSafe (o : Cong) : Prop :=
  (o.a = 0 ∧ o.b < 2 ^ 64) ∨ (o.a ≠ 0 ∧ 0 ≤ o.b ∧ o.b.natAbs < o.a.natAbs ∧ o.a.natAbs < 2 ^ 64)
instance (o : Cong) : Decidable (shlSafe o) := by unfold shlSafe; exact inferInstance

theorem shl_sound_of_safe {x o : Cong} {a k : Int} (ha : mem a x) (hk : mem k o) (hk0 : 0 ≤ k)
    (hs : shlSafe o) : mem (a * 2 ^ k.toNat) (shl x o) := by
  unfold shl
  simp only [ha.1, hk.1, Bool.or_self, Bool.false_eq_true, if_false]
  split
  · exact mem_top _
  · split
    · rename_i hoa
      have ek := eq_of_mem_cst hk hoa
      rcases hs with ⟨_, hlt⟩ | ⟨hne, _⟩
      · rw [← ek]
        have hnl : ¬ k < 0 := by omega
        simp only [hnl, if_false]
        rw [mem_mk', ZNum.shl_eq hk0 (by omega)]
        simp only [Int.one_mul]
        rw [← Int.sub_mul]
        exact Int.mul_dvd_mul_right _ ha.2
      · exact absurd hoa hne
    · rename_i hoa
      rcases hs with ⟨h0, _⟩ | ⟨_, hb0, hblt, halt⟩
      · exact absurd h0 hoa
      · rw [mem_mk']
        have hblt' : o.b.natAbs < 2 ^ 64 := by omega
        simp only [ZNum.shl, getUi_of_natAbs_lt hblt', getUi_of_natAbs_lt halt, Int.one_mul]
        -- k = o.b + |o.a| * j with j a natural number
        obtain ⟨j, hj⟩ := hk.2
        have hkge : o.b ≤ k := by
          -- k ≥ 0, k ≡ o.b (mod o.a), 0 ≤ o.b < |o.a|
          apply Classical.byContradiction
          intro hc
          have hc : k < o.b := by omega
          have hjne : j ≠ 0 := by
            intro h0; rw [h0] at hj; simp at hj; omega
          have hmul : (o.a * j).natAbs ≥ o.a.natAbs := by
            rw [Int.natAbs_mul]
            have : 1 ≤ j.natAbs := by omega
            exact Nat.le_mul_of_pos_right _ (by omega)
          omega
        have hdv : (o.a.natAbs : Int) ∣ k - o.b := Int.natAbs_dvd.mpr hk.2
        obtain ⟨m, hm⟩ := hdv
        have hm0 : 0 ≤ m := by
          apply Classical.byContradiction
          intro hc
          have hpos : (0 : Int) < o.a.natAbs := by omega
          have : (o.a.natAbs : Int) * m < 0 := Int.mul_neg_of_pos_of_neg hpos (by omega)
          omega
        have hkn : k.toNat = o.b.natAbs + o.a.natAbs * m.toNat := by
          have h1 : (k.toNat : Int) = k := Int.toNat_of_nonneg hk0
          have h2 : (m.toNat : Int) = m := Int.toNat_of_nonneg hm0
          have h3 : (o.b.natAbs : Int) = o.b := by omega
          have : (k.toNat : Int) = ((o.b.natAbs + o.a.natAbs * m.toNat : Nat) : Int) := by
            rw [h1]; push_cast; rw [h2, h3]; omega
          exact_mod_cast this
        rw [hkn, Int.pow_add, Int.pow_mul]
        generalize hp : (2 : Int) ^ o.b.natAbs = p
        generalize hy : (2 : Int) ^ o.a.natAbs = y
        generalize hg : gcd x.a (x.b * (y - 1)) = g
        have hg1 : g ∣ x.a := by rw [← hg]; exact gcd_dvd_left _ _
        have hg2 : g ∣ x.b * (y - 1) := by rw [← hg]; exact gcd_dvd_right _ _
        have e : a * (p * y ^ m.toNat) - x.b * p
            = ((a - x.b) * y ^ m.toNat + x.b * (y ^ m.toNat - 1)) * p := by
          grind
        rw [e]
        apply Int.mul_dvd_mul_right
        apply Int.dvd_add
        · exact Int.dvd_trans (Int.dvd_trans hg1 ha.2) (Int.dvd_mul_right _ _)
        · obtain ⟨t, ht⟩ := sub_one_dvd_pow_sub_one y m.toNat
          rw [ht, ← Int.mul_assoc]
          exact Int.dvd_trans hg2 (Int.dvd_mul_right _ _)

end Cong
end Crab
