import CrabProofs.Lemmas.DbmIncrDelta2
import CrabProofs.Lemmas.DbmIncrRepair3

/-!
  `add_linear_leq` (`addLb`, `addUb`, `addDiffEdge`, `closeBoundsEnd`, `addCst`) with
  `zones.close_bounds_inline = false` (the default): every step either answers bottom, and then
  the constraints have no common solution, or yields a graph with exactly the solutions of the
  old graph that satisfy the new constraint, with a valid potential.
-/
namespace Crab
namespace DbmIncr
open Dbm Zones

variable {n : Nat}

/-- inside `add_linear_leq`: edges among variables closed, potential valid -/
def Mid (s : SG n) : Prop := VarNF s.g ∧ s.g.sat s.pot

/-- between operations: split normal form, potential valid -/
def Good (s : SG n) : Prop := SplitNF s.g ∧ s.g.sat s.pot

/-- specification of one step adding the constraint `P` -/
def StepOK (P : (Fin (n + 1) → Int) → Prop) (s : SG n) (r : Option (SG n)) : Prop :=
  match r with
  | none => ∀ v, s.g.sat v → ¬ P v
  | some s' => Mid s' ∧ ∀ v, s'.g.sat v ↔ (s.g.sat v ∧ P v)

theorem not_bottom_of_sat {g : Zone n} {v : Fin (n + 1) → Int} (h : g.sat v) : isBottom g = false := by
  cases hb : isBottom g with
  | false => rfl
  | true => exact absurd ((Mat.fw_sat g v).2 h) (Mat.not_sat_of_hasNegDiag hb v)

theorem relax_sat (g : Zone n) (a b : Fin (n + 1)) (k : Int) (v : Fin (n + 1) → Int) :
    (relax g a k b).sat v ↔ (g.sat v ∧ v b - v a ≤ k) := Mat.addEdge_sat g b a k v

/-- a change of a bound edge does not change the variable subgraph -/
theorem varNF_of_bound_change {g g1 : Zone n} (hv : VarNF g)
    (h : ∀ a b, a ≠ 0 → b ≠ 0 → edge g1 a b = edge g a b) (h0 : edge g1 0 0 = none) : VarNF g1 := by
  have hl : NoSelfLoop g1 := by
    intro a
    by_cases ha : a = 0
    · subst ha; exact h0
    · show edge g1 a a = none
      rw [h a a ha ha]; exact hv.noLoop a
  refine ⟨hl, ?_⟩
  have : varPart g1 = varPart g := by
    apply Mat.ext_get
    intro i j
    simp only [varPart_get]
    by_cases hij : i = j
    · simp [hij]
    · simp only [hij, if_false]
      by_cases h0' : i = 0 ∨ j = 0
      · simp [h0']
      · simp only [h0', if_false]
        exact h j i (fun e => h0' (Or.inr e)) (fun e => h0' (Or.inl e))
  rw [this]; exact hv.vars

/-- common part of `addLb` / `addUb` without `close_bounds_inline`: `set_edge` of a strictly
    better bound edge `a → b`, then `repair_potential` -/
theorem setBound_spec (vs : List (Fin (n + 1))) (hvs : ∀ v, v ∈ vs) (s : SG n) (hm : Mid s)
    (a b : Fin (n + 1)) (hab : a ≠ b) (h0 : a = 0 ∨ b = 0) (k : Int)
    (hk : ∀ w, edge s.g a b = some w → k ≤ w) :
    StepOK (fun x => x b - x a ≤ k) s
      (match repairPotential vs (setEdge s.g a k b) s.pot a b with
       | none => none
       | some p1 => some ⟨setEdge s.g a k b, p1⟩) := by
  have hrel : setEdge s.g a k b = relax s.g a k b := setEdge_eq_relax hk
  have hsat : ∀ v, (setEdge s.g a k b).sat v ↔ (s.g.sat v ∧ v b - v a ≤ k) := by
    intro v; rw [hrel]; exact relax_sat _ _ _ _ _
  have hpv : PotValidExcept (setEdge s.g a k b) s.pot a b := by
    intro s' d' kk hkk hne
    rw [edge_setEdge] at hkk
    simp only [hne, if_false] at hkk
    exact (sat_iff_pot _ _).1 hm.2 s' d' kk hkk
  have hw : edge (setEdge s.g a k b) a b = some k := by rw [edge_setEdge]; simp
  obtain ⟨r1, r2⟩ := repairPotential_spec vs hvs _ s.pot a b k hw hpv
  rcases hrp : repairPotential vs (setEdge s.g a k b) s.pot a b with _ | p1
  · simp only [StepOK]
    intro v hv hP
    exact r2 hrp v ((hsat v).2 ⟨hv, hP⟩)
  · simp only [StepOK]
    refine ⟨⟨?_, r1 p1 hrp⟩, hsat⟩
    apply varNF_of_bound_change hm.1
    · intro x y hx hy
      rw [edge_setEdge]
      have : ¬ (x = a ∧ y = b) := by
        rintro ⟨rfl, rfl⟩
        rcases h0 with h0 | h0
        · exact hx h0
        · exact hy h0
      simp [this]
    · rw [edge_setEdge]
      have : ¬ ((0 : Fin (n + 1)) = a ∧ (0 : Fin (n + 1)) = b) := fun h => hab (h.1.symm.trans h.2)
      simp only [this, if_false]
      exact hm.1.noLoop 0

theorem addLb_spec (vs : List (Fin (n + 1))) (hvs : ∀ v, v ∈ vs) (s : SG n) (hm : Mid s)
    (v : Fin (n + 1)) (hv : v ≠ 0) (k : Int) :
    StepOK (fun x => x 0 - x v ≤ k) s (addLb false vs s v k) := by
  unfold addLb
  by_cases hg : W.le (edge s.g v 0) (some k) = true
  · rw [if_pos hg]
    simp only [StepOK]
    refine ⟨hm, fun x => ⟨fun h => ⟨h, ?_⟩, fun h => h.1⟩⟩
    rcases hw : edge s.g v 0 with _ | w
    · rw [hw] at hg; simp [W.le] at hg
    · rw [hw] at hg; simp only [W.le, decide_eq_true_eq] at hg
      have := sat_edge h hw; omega
  · rw [if_neg hg]
    simp only [Bool.false_eq_true, if_false]
    apply setBound_spec vs hvs s hm v 0 hv (Or.inr rfl) k
    intro w hw
    rw [hw] at hg; simp only [W.le, decide_eq_true_eq] at hg; omega

theorem addUb_spec (vs : List (Fin (n + 1))) (hvs : ∀ v, v ∈ vs) (s : SG n) (hm : Mid s)
    (v : Fin (n + 1)) (hv : v ≠ 0) (k : Int) :
    StepOK (fun x => x v - x 0 ≤ k) s (addUb false vs s v k) := by
  unfold addUb
  by_cases hg : W.le (edge s.g 0 v) (some k) = true
  · rw [if_pos hg]
    simp only [StepOK]
    refine ⟨hm, fun x => ⟨fun h => ⟨h, ?_⟩, fun h => h.1⟩⟩
    rcases hw : edge s.g 0 v with _ | w
    · rw [hw] at hg; simp [W.le] at hg
    · rw [hw] at hg; simp only [W.le, decide_eq_true_eq] at hg
      have := sat_edge h hw; omega
  · rw [if_neg hg]
    simp only [Bool.false_eq_true, if_false]
    apply setBound_spec vs hvs s hm 0 v (fun e => hv e.symm) (Or.inl rfl) k
    intro w hw
    rw [hw] at hg; simp only [W.le, decide_eq_true_eq] at hg; omega

theorem addDiffEdge_spec (vs : List (Fin (n + 1))) (hvs : ∀ v, v ∈ vs) (hnd : vs.Nodup) (s : SG n)
    (hm : Mid s) (src dest : Fin (n + 1)) (hs : src ≠ 0) (hd : dest ≠ 0) (hsd : src ≠ dest) (k : Int) :
    StepOK (fun x => x dest - x src ≤ k) s (addDiffEdge false vs s src dest k) := by
  unfold addDiffEdge
  by_cases hg : W.le (W.add (edge s.g src 0) (edge s.g 0 dest)) (some k) = true
  · rw [if_pos hg]
    simp only [StepOK]
    refine ⟨hm, fun x => ⟨fun h => ⟨h, ?_⟩, fun h => h.1⟩⟩
    rcases hw1 : edge s.g src 0 with _ | w1
    · rw [hw1] at hg; simp [W.le] at hg
    rcases hw2 : edge s.g 0 dest with _ | w2
    · rw [hw1, hw2] at hg; simp [W.le] at hg
    rw [hw1, hw2] at hg; simp only [W.add_some_some, W.le, decide_eq_true_eq] at hg
    have := sat_edge h hw1
    have := sat_edge h hw2
    omega
  · rw [if_neg hg]
    simp only [Bool.false_eq_true, if_false]
    have hsat : ∀ v, (updEdge s.g src k dest).sat v ↔ (s.g.sat v ∧ v dest - v src ≤ k) := by
      intro v; rw [updEdge_eq_relax]; exact relax_sat _ _ _ _ _
    have hpv : PotValidExcept (updEdge s.g src k dest) s.pot src dest := by
      intro s' d' kk hkk hne
      rw [edge_upd_old _ _ _ _ hne] at hkk
      exact (sat_iff_pot _ _).1 hm.2 s' d' kk hkk
    obtain ⟨c, hc, _, _⟩ := edge_upd_new s.g src dest k
    obtain ⟨r1, r2⟩ := repairPotential_spec vs hvs _ s.pot src dest c hc hpv
    rcases hrp : repairPotential vs (updEdge s.g src k dest) s.pot src dest with _ | p1
    · simp only [StepOK]
      intro v hv hP
      exact r2 hrp v ((hsat v).2 ⟨hv, hP⟩)
    · simp only [StepOK]
      have hp1 := r1 p1 hrp
      have hb := not_bottom_of_sat hp1
      rw [closeOverEdge_eq_I false vs hnd _ hs hd hsd]
      obtain ⟨hvr, _, hdec, habove, _, _⟩ := closeOverEdgeI_var false vs hvs hm.1 hs hd hsd hb
      have hequiv : ∀ v, (closeOverEdgeI false vs (updEdge s.g src k dest) src dest).sat v ↔
          (updEdge s.g src k dest).sat v := by
        intro v
        constructor
        · exact Mat.sat_of_LE (fun a b => hdec b a)
        · intro h
          exact Mat.sat_of_LE (fun a b => habove b a) ((Mat.fw_sat _ v).2 h)
      refine ⟨⟨hvr, (hequiv p1).2 hp1⟩, fun v => ?_⟩
      rw [hequiv, hsat]

theorem closeBoundsEnd_spec (vs : List (Fin (n + 1))) (hvs : ∀ v, v ∈ vs) (s : SG n) (hm : Mid s) :
    Good (closeBoundsEnd false vs s) ∧ ∀ v, (closeBoundsEnd false vs s).g.sat v ↔ s.g.sat v := by
  unfold closeBoundsEnd
  simp only [Bool.false_eq_true, if_false]
  obtain ⟨h1, h2, _⟩ := closeAfterAssign_exact vs vs vs hvs hvs hvs hm.1 (not_bottom_of_sat hm.2)
  exact ⟨⟨h1, (h2 s.pot).2 hm.2⟩, h2⟩

end DbmIncr
end Crab
