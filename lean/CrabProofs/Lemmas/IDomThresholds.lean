import CrabProofs.Lemmas.IDomLattice

/-!
  Widening with thresholds: `get_prev(v) <= v <= get_next(v)` for a threshold vector that starts
  with `-oo` and ends with `+oo` (what the constructor builds and `add` preserves), hence
  `interval::widening_thresholds` and the environment-level operation are upper bounds.
-/
namespace Crab
namespace IDom
open Lin

namespace Thresholds

/-- what the constructor establishes and `add` preserves -/
def WF (ts : Thresholds) : Prop := ts.head? = some .ninf ∧ ts.getLast? = some .pinf

theorem init_wf : init.WF := by simp [WF, init]

theorem getD_takeWhile_true (p : Bound → Bool) (d : Bound) : ∀ (l : List Bound) (i : Nat),
    i < (l.takeWhile p).length → p (l.getD i d) = true := by
  intro l
  induction l with
  | nil => intro i h; simp at h
  | cons a rest ih =>
    intro i h
    simp only [List.takeWhile] at h
    cases hp : p a with
    | false => simp [hp] at h
    | true =>
      simp only [hp, List.length_cons] at h
      cases i with
      | zero => simpa using hp
      | succ j => simpa using ih j (by omega)

theorem getD_takeWhile_false (p : Bound → Bool) (d : Bound) : ∀ (l : List Bound),
    (l.takeWhile p).length < l.length → p (l.getD (l.takeWhile p).length d) = false := by
  intro l
  induction l with
  | nil => intro h; simp at h
  | cons a rest ih =>
    intro h
    simp only [List.takeWhile] at h ⊢
    cases hp : p a with
    | false => simpa using hp
    | true =>
      simp only [hp, List.length_cons] at h ⊢
      simpa using ih (by omega)

theorem takeWhile_length_le (p : Bound → Bool) (l : List Bound) : (l.takeWhile p).length ≤ l.length := by
  induction l with
  | nil => simp
  | cons a rest ih => simp only [List.takeWhile]; split <;> simp <;> omega

theorem getD_last {l : List Bound} {x : Bound} (h : l.getLast? = some x) (d : Bound) :
    l.getD (l.length - 1) d = x := by
  induction l with
  | nil => simp at h
  | cons a rest ih =>
    cases rest with
    | nil => simp at h; simp [h]
    | cons b rs =>
      have : (b :: rs).getLast? = some x := by simpa [List.getLast?_cons_cons] using h
      have := ih this
      simpa using this

theorem getPrev_le {ts : Thresholds} (hw : ts.WF) (v : Bound) : Bound.le (ts.getPrev v) v = true := by
  unfold getPrev
  split
  · exact Bound.le_refl v
  · simp only []
    split
    · rename_i h
      have := getD_takeWhile_true (fun t => Bound.lt t v) .ninf ts (lowerBound ts v - 1)
        (by unfold lowerBound at h ⊢; omega)
      simp only [Bound.lt_iff] at this
      exact Bound.not_le this
    · obtain ⟨hh, _⟩ := hw
      cases ts with
      | nil => simp
      | cons a rest => simp at hh; subst hh; simp

theorem le_getNext {ts : Thresholds} (hw : ts.WF) (v : Bound) : Bound.le v (ts.getNext v) = true := by
  unfold getNext
  split
  · exact Bound.le_refl v
  · simp only []
    split
    · rename_i h
      have := getD_takeWhile_false (fun t => !(Bound.lt v t)) .pinf ts (by unfold upperBound at h; exact h)
      simp only [Bool.not_eq_false', Bound.lt_iff] at this
      exact Bound.not_le this
    · rw [getD_last hw.2]; simp

/-! ### `add` keeps the vector between `-oo` and `+oo` -/

theorem head?_set {l : List Bound} {i : Nat} (hi : i ≠ 0) (x : Bound) : (l.set i x).head? = l.head? := by
  cases l with
  | nil => rfl
  | cons a rest => cases i with
    | zero => exact absurd rfl hi
    | succ j => rfl

theorem getLast?_set {l : List Bound} {i : Nat} (hi : i + 1 < l.length) (x : Bound) :
    (l.set i x).getLast? = l.getLast? := by
  induction l generalizing i with
  | nil => rfl
  | cons a rest ih =>
    cases i with
    | zero =>
      cases rest with
      | nil => simp at hi
      | cons b rs => simp [List.getLast?_cons_cons]
    | succ j =>
      cases rest with
      | nil => simp at hi
      | cons b rs =>
        have := ih (i := j) (by simp at hi ⊢; omega)
        simp only [List.set_cons_succ]
        cases j with
        | zero => simp [List.getLast?_cons_cons] at this ⊢; exact this
        | succ k => simp [List.getLast?_cons_cons] at this ⊢; exact this

/-- with a finite `v`, `upper_bound` is neither the first nor past the last position -/
theorem upperBound_pos {ts : Thresholds} (hw : ts.WF) (v : Int) : 0 < upperBound ts (.fin v) := by
  obtain ⟨hh, _⟩ := hw
  cases ts with
  | nil => simp at hh
  | cons a rest =>
    simp at hh; subst hh
    simp [upperBound, List.takeWhile, Bound.lt, Bound.ge]

theorem takeWhile_lt_of_last (v : Int) : ∀ (ts : List Bound), ts.getLast? = some .pinf →
    (ts.takeWhile (fun t => !(Bound.lt (.fin v) t))).length < ts.length := by
  intro ts
  induction ts with
  | nil => intro hl; simp at hl
  | cons a rest ih =>
    intro hl
    cases rest with
    | nil =>
      simp at hl; subst hl
      simp [List.takeWhile, Bound.lt, Bound.ge]
    | cons b rs =>
      have := ih (by simpa [List.getLast?_cons_cons] using hl)
      rw [List.takeWhile_cons]
      split
      · simp only [List.length_cons] at this ⊢; omega
      · simp

theorem upperBound_lt {ts : Thresholds} (hw : ts.WF) (v : Int) : upperBound ts (.fin v) < ts.length :=
  takeWhile_lt_of_last v ts hw.2

theorem insert_wf {ts : Thresholds} (hw : ts.WF) (v : Int) :
    WF ((ts.take (upperBound ts (.fin v))) ++ [.fin v] ++ (ts.drop (upperBound ts (.fin v)))) := by
  have h1 := upperBound_pos hw v
  have h2 := upperBound_lt hw v
  obtain ⟨hh, hl⟩ := hw
  generalize upperBound ts (.fin v) = ub at h1 h2
  constructor
  · cases ts with
    | nil => simp at hh
    | cons a rest =>
      cases ub with
      | zero => omega
      | succ n => simpa using hh
  · rw [List.getLast?_append, List.getLast?_drop]
    have : ¬ ts.length ≤ ub := by omega
    simp [this, hl]

theorem add_wf {ts : Thresholds} (hw : ts.WF) (cap : Nat) (v : Int) : (ts.add cap v).WF := by
  unfold add
  split
  · split
    · exact hw
    · simp only []
      have h1 := upperBound_pos hw v
      have h2 := upperBound_lt hw v
      split
      · split
        · rename_i hc
          obtain ⟨hp, hv⟩ := hc
          refine ⟨by rw [head?_set hp]; exact hw.1, ?_⟩
          rw [getLast?_set]; exact hw.2
          -- the replaced position holds a finite bound, the last one holds `+oo`
          apply Classical.byContradiction
          intro hn
          have hlast : upperBound ts (.fin v) - 1 = ts.length - 1 := by omega
          rw [hlast, getD_last hw.2] at hv
          simp at hv
        · exact insert_wf hw v
      · split
        · split
          · rename_i hv
            refine ⟨by rw [head?_set (by omega)]; exact hw.1, ?_⟩
            rw [getLast?_set]; exact hw.2
            apply Classical.byContradiction
            intro hn
            have hlast : upperBound ts (.fin v) = ts.length - 1 := by omega
            rw [hlast, getD_last hw.2] at hv
            simp at hv
          · exact insert_wf hw v
        · exact insert_wf hw v
  · exact hw

end Thresholds

theorem widenTh_upper_left {ts : Thresholds} (hw : ts.WF) {a b : Itv} {k : Int} (hk : Itv.mem k a) :
    Itv.mem k (widenTh ts a b) := by
  unfold widenTh
  simp only [Itv.isBottom_false_of_mem hk, Bool.false_eq_true, if_false]
  split
  · exact hk
  · rw [Itv.mem_mk']
    constructor
    · split
      · rename_i hlt
        rw [Bound.lt_iff] at hlt
        exact Bound.le_trans (Bound.le_trans (Thresholds.getPrev_le hw _) (Bound.not_le hlt)) hk.1
      · exact hk.1
    · split
      · rename_i hlt
        rw [Bound.lt_iff] at hlt
        exact Bound.le_trans hk.2 (Bound.le_trans (Bound.not_le hlt) (Thresholds.le_getNext hw _))
      · exact hk.2

theorem widenTh_upper_right {ts : Thresholds} (hw : ts.WF) {a b : Itv} {k : Int} (hk : Itv.mem k b) :
    Itv.mem k (widenTh ts a b) := by
  unfold widenTh
  split
  · exact hk
  · simp only [Itv.isBottom_false_of_mem hk, Bool.false_eq_true, if_false]
    rw [Itv.mem_mk']
    constructor
    · split
      · exact Bound.le_trans (Thresholds.getPrev_le hw _) hk.1
      · rename_i hlt
        have : Bound.le a.lb b.lb = true := by simpa [Bound.lt, Bound.ge] using hlt
        exact Bound.le_trans this hk.1
    · split
      · exact Bound.le_trans hk.2 (Thresholds.le_getNext hw _)
      · rename_i hlt
        have : Bound.le b.ub a.ub = true := by simpa [Bound.lt, Bound.ge] using hlt
        exact Bound.le_trans hk.2 this

namespace Env
theorem widenTh_upper_left {ts : Thresholds} (hw : ts.WF) {a : Env} (hs : a.m.Sorted) (b : Env) {σ : State}
    (hg : γ a σ) : γ (Env.widenTh ts a b) σ :=
  upperWith_left (fun _ _ _ h => IDom.widenTh_upper_left hw h) hs b hg
theorem widenTh_upper_right {ts : Thresholds} (hw : ts.WF) {a : Env} (hs : a.m.Sorted) {b : Env} {σ : State}
    (hg : γ b σ) : γ (Env.widenTh ts a b) σ :=
  upperWith_right (fun _ _ _ h => IDom.widenTh_upper_right hw h) hs hg
end Env

end IDom
end Crab
