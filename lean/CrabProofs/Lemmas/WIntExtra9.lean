import CrabProofs.Lemmas.WIntExtra8

/-!
  More lemmas about `Crab.WInt` (part 9): `trim_zero` on a piece, the loops of `SDiv`, soundness of
  the signed division.
-/
namespace Crab
namespace WInt
open WrapInt

/-- `trim_zero` of a piece `[c, d]`, `c ≤ d`: a non-zero member stays in a piece `[c', d']` with
    `1 ≤ c'` inside `[c, d]` -/
theorem trim_cover2 {w : Nat} (h1w : 1 ≤ w) (hw : w ≤ 64) {c d b : Nat} (hcd : c ≤ d) (hd : d < 2 ^ w)
    {ds : List WInt} (h : trimZero? (W w c d false) = some ds) (hb1 : 1 ≤ b) (hb : c ≤ b ∧ b ≤ d) :
    ∃ c' d', W w c' d' false ∈ ds ∧ 1 ≤ c' ∧ c ≤ c' ∧ c' ≤ b ∧ b ≤ d' ∧ d' ≤ d := by
  have hbM : b < 2 ^ w := by omega
  have hmem : mem w b (W w c d false) := (mem_ord_iff hw hcd hd hbM).mpr hb
  unfold trimZero? at h
  simp only at h
  split at h
  · cases h
  · next w' hw' =>
    obtain ⟨rfl, _⟩ := getBitwidth_W hw'
    have hz : (single (ofNatT 0 w')) = W w' 0 0 false := by
      rw [ofNatT_zero]; rfl
    split at h
    · simp only [ofNatT_zero_n, beq_iff_eq] at h
      split at h
      · next hc0 =>
        injection h with h; subst h
        have hc0' : c = 0 := hc0
        refine ⟨1, d, ?_, Nat.le_refl 1, by omega, hb1, hb.2, Nat.le_refl d⟩
        simp only [List.mem_singleton]
        show W w' 1 d false = mk2 (ofNatT 1 w') ⟨w', d⟩
        rw [ofNatT_one h1w]; rfl
      · next hc0 =>
        split at h
        · next hd0 =>
          have hd0' : d = 0 := hd0
          omega
        · split at h
          · next hat =>
            exfalso
            have hc0' : c ≠ 0 := hc0
            rw [ofNatT_zero] at hat
            have := (at_W_iff hw (by omega : c < 2 ^ w') hd (Nat.pow_pos (by decide) : 0 < 2 ^ w')).mp hat
            unfold A at this
            have s1 := D_spec (2 ^ w') c d; have s2 := D_spec (2 ^ w') c 0
            generalize 2 ^ w' = M at *
            omega
          · injection h with h; subst h
            have hc0' : c ≠ 0 := hc0
            exact ⟨c, d, List.mem_singleton.mpr rfl, by omega, Nat.le_refl c, hb.1, hb.2, Nat.le_refl d⟩
    · next heq =>
      exfalso
      simp only [Bool.not_eq_true', Bool.not_eq_false] at heq
      rw [hz] at heq
      unfold WInt.eq at heq
      have hl : (W w' c d false).leq (W w' 0 0 false) = true := by
        rcases Bool.and_eq_true_iff.mp heq with ⟨a, _⟩; exact a
      have h0 : (0:Nat) < 2 ^ w' := Nat.pow_pos (by decide)
      have := leq_W_sound hw (by omega : c < 2 ^ w') hd h0 h0 hbM hl hmem
      rw [mem_ord_iff hw (Nat.le_refl 0) h0 hbM] at this
      omega

/-! ### the loops of `SDiv` -/

def sdivInner (ci d res : WInt) : Option (ForInStep WInt) :=
  (ci.signedDiv? d).bind fun q => pure (ForInStep.yield (res.join q))
def sdivMid (ci cj res : WInt) : Option (ForInStep WInt) :=
  (cj.trimZero?).bind fun ds => (forIn ds res (sdivInner ci)).bind fun r => pure (ForInStep.yield r)
def sdivOuter (ycuts : List WInt) (ci res : WInt) : Option (ForInStep WInt) :=
  (forIn ycuts res (sdivMid ci)).bind fun r => pure (ForInStep.yield r)

theorem sdiv_unfold {x y : WInt} (hb : (x.isBottom || y.isBottom) = false)
    (ht : (x.isTop || y.isTop) = false) :
    x.sdiv y = (x.cut?).bind fun cuts => (y.cut?).bind fun ycuts =>
      forIn cuts bottom (sdivOuter ycuts) := by
  unfold sdiv
  simp only [hb, ht, Bool.false_eq_true, if_false]
  cases x.cut? with
  | none => rfl
  | some cuts =>
    cases y.cut? with
    | none => rfl
    | some ycuts =>
      simp only [Option.bind_eq_bind, Option.bind_some, bind_pure]
      rfl

theorem sdivInner_spec {w : Nat} (hw : w ≤ 64) {a b : Nat} (ds : List WInt) (hds : AllPieces w ds)
    {r0 r : WInt} (hg : Good w r0) (h : forIn ds r0 (sdivInner (W w a b false)) = some r) :
    Good w r ∧ LeW w r0 r ∧
      ∀ d ∈ ds, ∀ q, (W w a b false).signedDiv? d = some q → LeW w q r := by
  refine forIn_join_spec (w := w) (sdivInner (W w a b false))
    (fun d r => ∀ q, (W w a b false).signedDiv? d = some q → LeW w q r)
    (fun d r r' h1 h2 q hq => LeW_trans (h1 q hq) h2) ds r0 r ?_ hg h
  intro d hd r1 s hg1 hs
  obtain ⟨c, e, rfl⟩ := hds d hd
  unfold sdivInner at hs
  cases hq : (W w a b false).signedDiv? (W w c e false) with
  | none => rw [hq] at hs; cases hs
  | some q =>
    rw [hq] at hs
    simp only [Option.bind_some] at hs
    injection hs with hs
    obtain ⟨g, l1, l2⟩ := join_good2 hw hg1 (signedDiv_good hw hq)
    refine ⟨_, hs.symm, g, l1, ?_⟩
    intro q' hq'
    injection hq' with hq'
    subst hq'
    exact l2

theorem sdivMid_spec {w : Nat} (hw : w ≤ 64) {a b : Nat} (ycuts : List WInt) (hy : AllPieces w ycuts)
    {r0 r : WInt} (hg : Good w r0) (h : forIn ycuts r0 (sdivMid (W w a b false)) = some r) :
    Good w r ∧ LeW w r0 r ∧
      ∀ cj ∈ ycuts, ∀ ds, cj.trimZero? = some ds → ∀ d ∈ ds, ∀ q,
        (W w a b false).signedDiv? d = some q → LeW w q r := by
  refine forIn_join_spec (w := w) (sdivMid (W w a b false))
    (fun cj r => ∀ ds, cj.trimZero? = some ds → ∀ d ∈ ds, ∀ q,
        (W w a b false).signedDiv? d = some q → LeW w q r)
    (fun cj r r' h1 h2 ds hds d hd q hq => LeW_trans (h1 ds hds d hd q hq) h2) ycuts r0 r ?_ hg h
  intro cj hcj r1 s hg1 hs
  obtain ⟨c, e, rfl⟩ := hy cj hcj
  unfold sdivMid at hs
  cases hds : (W w c e false).trimZero? with
  | none => rw [hds] at hs; cases hs
  | some ds =>
    rw [hds] at hs
    simp only [Option.bind_some] at hs
    cases hin : forIn ds r1 (sdivInner (W w a b false)) with
    | none => rw [hin] at hs; cases hs
    | some r2 =>
      rw [hin] at hs
      simp only [Option.bind_some] at hs
      injection hs with hs
      have hall : AllPieces w ds := trim_allW hds
      obtain ⟨g, l1, l2⟩ := sdivInner_spec hw ds hall hg1 hin
      refine ⟨r2, hs.symm, g, l1, ?_⟩
      intro ds' hds'
      injection hds' with hds'
      subst hds'
      exact l2

theorem sdivOuter_spec {w : Nat} (hw : w ≤ 64) (cuts ycuts : List WInt) (hx : AllPieces w cuts)
    (hy : AllPieces w ycuts) {r0 r : WInt} (hg : Good w r0)
    (h : forIn cuts r0 (sdivOuter ycuts) = some r) :
    Good w r ∧ LeW w r0 r ∧
      ∀ ci ∈ cuts, ∀ cj ∈ ycuts, ∀ ds, cj.trimZero? = some ds → ∀ d ∈ ds, ∀ q,
        ci.signedDiv? d = some q → LeW w q r := by
  refine forIn_join_spec (w := w) (sdivOuter ycuts)
    (fun ci r => ∀ cj ∈ ycuts, ∀ ds, cj.trimZero? = some ds → ∀ d ∈ ds, ∀ q,
        ci.signedDiv? d = some q → LeW w q r)
    (fun ci r r' h1 h2 cj hcj ds hds d hd q hq => LeW_trans (h1 cj hcj ds hds d hd q hq) h2)
    cuts r0 r ?_ hg h
  intro ci hci r1 s hg1 hs
  obtain ⟨a, b, rfl⟩ := hx ci hci
  unfold sdivOuter at hs
  cases hin : forIn ycuts r1 (sdivMid (W w a b false)) with
  | none => rw [hin] at hs; cases hs
  | some r2 =>
    rw [hin] at hs
    simp only [Option.bind_some] at hs
    injection hs with hs
    obtain ⟨g, l1, l2⟩ := sdivMid_spec hw ycuts hy hg1 hin
    exact ⟨r2, hs.symm, g, l1, l2⟩

/-- a successful outer loop ran `trim_zero` on every divisor piece (when there is a dividend piece) -/
theorem sdivOuter_trim {ycuts : List WInt} {ci : WInt} {rest : List WInt} {r0 r : WInt}
    (h : forIn (ci :: rest) r0 (sdivOuter ycuts) = some r) :
    ∀ cj ∈ ycuts, ∃ ds, cj.trimZero? = some ds := by
  rw [List.forIn_cons] at h
  cases h1 : sdivOuter ycuts ci r0 with
  | none => rw [h1] at h; cases h
  | some s =>
    unfold sdivOuter at h1
    cases h2 : forIn ycuts r0 (sdivMid ci) with
    | none => rw [h2] at h1; cases h1
    | some r1 =>
      clear h h1
      induction ycuts generalizing r0 with
      | nil => intro cj hcj; cases hcj
      | cons c1 ys ih =>
        rw [List.forIn_cons] at h2
        cases h3 : sdivMid ci c1 r0 with
        | none => rw [h3] at h2; cases h2
        | some s3 =>
          rw [h3] at h2
          have htr : ∃ ds, c1.trimZero? = some ds := by
            unfold sdivMid at h3
            cases h4 : c1.trimZero? with
            | none => rw [h4] at h3; cases h3
            | some ds => exact ⟨ds, rfl⟩
          cases s3 with
          | done r3 =>
            -- the body never answers `done`
            exfalso
            unfold sdivMid at h3
            cases h4 : c1.trimZero? with
            | none => rw [h4] at h3; cases h3
            | some ds =>
              rw [h4] at h3
              simp only [Option.bind_some] at h3
              cases h5 : forIn ds r0 (sdivInner ci) with
              | none => rw [h5] at h3; cases h3
              | some r5 => rw [h5] at h3; simp at h3
          | yield r3 =>
            intro cj hcj
            rcases List.mem_cons.mp hcj with rfl | hcj
            · exact htr
            · exact ih h2 cj hcj

/-- `SDiv` contains the signed quotient of every member by every non-zero member -/
theorem sdiv_sound {w : Nat} (h1w : 1 ≤ w) (hw : w ≤ 64) {x y r : WInt} (hx : Shape w x) (hy : Shape w y)
    (h : x.sdiv y = some r) {u v : Nat} (hu : u < 2 ^ w) (hv : v < 2 ^ w) (hv1 : 1 ≤ v) (hmu : mem w u x)
    (hmv : mem w v y) : mem w (sdivN w u v) r := by
  obtain ⟨s1, e1, h1, h2, rfl⟩ := shape_cases hx hmu.1
  obtain ⟨s2, e2, h3, h4, rfl⟩ := shape_cases hy hmv.1
  by_cases ht : ((W w s1 e1 false).isTop || (W w s2 e2 false).isTop) = true
  · have : (W w s1 e1 false).sdiv (W w s2 e2 false) = some top := by simp [sdiv, ht]
    rw [this] at h; injection h with h; subst h; exact mem_top _ _
  · have ht' : ((W w s1 e1 false).isTop || (W w s2 e2 false).isTop) = false := by simpa using ht
    rw [sdiv_unfold rfl ht'] at h
    cases hc1 : (W w s1 e1 false).cut? with
    | none => rw [hc1] at h; cases h
    | some cuts =>
      cases hc2 : (W w s2 e2 false).cut? with
      | none => rw [hc1, hc2] at h; cases h
      | some ycuts =>
        rw [hc1, hc2] at h
        simp only [Option.bind_some] at h
        obtain ⟨p1, cov1⟩ := cut_spec h1w hw h1 h2 hc1
        obtain ⟨p2, cov2⟩ := cut_spec h1w hw h3 h4 hc2
        have ax : AllPieces w cuts := fun p hp => by
          obtain ⟨a, b, e, _⟩ := p1 p hp; exact ⟨a, b, e⟩
        have ay : AllPieces w ycuts := fun p hp => by
          obtain ⟨a, b, e, _⟩ := p2 p hp; exact ⟨a, b, e⟩
        obtain ⟨_, _, each⟩ := sdivOuter_spec hw cuts ycuts ax ay (good_bottom w) h
        obtain ⟨a, b, hci, hau, hub⟩ := cov1 u hu hmu
        obtain ⟨c, d, hcj, hcv, hvd⟩ := cov2 v hv hmv
        obtain ⟨a', b', e1', hemi1⟩ := p1 _ hci
        obtain ⟨rfl, rfl⟩ := W_inj e1'
        obtain ⟨c', d', e2', hemi2⟩ := p2 _ hcj
        obtain ⟨rfl, rfl⟩ := W_inj e2'
        obtain ⟨ci0, rest, rfl⟩ : ∃ ci0 rest, cuts = ci0 :: rest := by
          cases cuts with
          | nil => cases hci
          | cons ci0 rest => exact ⟨ci0, rest, rfl⟩
        obtain ⟨ds, hds⟩ := sdivOuter_trim h _ hcj
        obtain ⟨c', d', hdmem, hc1', hcc', hc'v, hvd', hd'd⟩ :=
          trim_cover2 h1w hw hemi2.1 hemi2.2.1 hds hv1 ⟨hcv, hvd⟩
        have hemi2' : Hemi w c' d' := by
          obtain ⟨q1, q2, q3⟩ := hemi2
          refine ⟨by omega, by omega, ?_⟩
          rcases q3 with q3 | q3
          · left; omega
          · right; omega
        obtain ⟨q, hq, hmq⟩ := signedDiv_sound h1w hw hemi1 hemi2' hc1' hau hub hc'v hvd'
        exact each _ hci _ hcj ds hds _ hdmem q hq _ (sdivN_lt _ _ _) hmq

end WInt
end Crab
