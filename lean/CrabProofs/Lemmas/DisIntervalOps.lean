import CrabProofs.Lemmas.DisIntervalMisc
import CrabProofs.Lemmas.DisIntervalChain3

/-! The interval operations used by the arithmetic of `dis_interval`, as instances of `OpSound`
    (over-approximation of a concrete relation + `lb ≠ +oo`, `ub ≠ -oo` preserved), and
    `check_well_formed` on values that satisfy the invariant. -/
namespace Crab
namespace Dis
open Bound

/-- instance for a total interval operation -/
theorem opSound_total {f : Itv → Itv → Itv} {R : Int → Int → Int → Prop}
    (hw : ∀ a b, a.WF → b.WF → (f a b).WF)
    (hs : ∀ a b i j c, Itv.mem i a → Itv.mem j b → R i j c → Itv.mem c (f a b)) :
    OpSound (fun a b => some (f a b)) R := by
  intro a b r ha hb h
  simp at h; subst h
  exact ⟨hw a b ha hb, fun i j c hi hj hR => hs a b i j c hi hj hR⟩

theorem opSound_add : OpSound Itv.add (fun i j c => c = i + j) :=
  fun _ _ _ ha hb h => ⟨Itv.add_wf ha hb h, fun _ _ _ hi hj hc => hc ▸ Itv.add_sound hi hj h⟩

theorem opSound_sub : OpSound Itv.sub (fun i j c => c = i - j) :=
  fun _ _ _ ha hb h => ⟨Itv.sub_wf ha hb h, fun _ _ _ hi hj hc => hc ▸ Itv.sub_sound hi hj h⟩

theorem opSound_mul : OpSound (fun a b => some (Itv.mul a b)) (fun i j c => c = i * j) :=
  opSound_total (fun _ _ => Itv.wf_mul) (fun _ _ _ _ _ hi hj hc => hc ▸ Itv.mul_sound hi hj)

theorem opSound_div : OpSound Itv.div (fun i j c => j ≠ 0 ∧ c = Int.tdiv i j) :=
  fun _ _ _ ha hb h => ⟨Itv.wf_div ha hb h, fun _ _ _ hi hj hc => hc.2 ▸ Itv.div_sound hi hj hc.1 h⟩

/-- `UDiv` (coded with the signed division) on non-negative dividends and positive divisors -/
theorem opSound_udiv : OpSound Itv.div (fun i j c => 0 ≤ i ∧ 0 < j ∧ c = i / j) := by
  intro a b r ha hb h
  refine ⟨Itv.wf_div ha hb h, ?_⟩
  intro i j c hi hj ⟨h0, h1, hc⟩
  rw [hc, ← Int.tdiv_eq_ediv_of_nonneg h0]
  exact Itv.div_sound hi hj (by omega) h

theorem opSound_srem : OpSound (fun a b => some (Itv.srem a b)) (fun i j c => j ≠ 0 ∧ c = Int.tmod i j) :=
  opSound_total (fun a b _ _ => Itv.wf_srem a b) (fun _ _ _ _ _ hi hj hc => hc.2 ▸ Itv.srem_sound hi hj hc.1)

theorem opSound_urem : OpSound (fun a b => some (Itv.urem a b)) (fun i j c => 0 ≤ i ∧ 0 < j ∧ c = i % j) :=
  opSound_total (fun a b _ _ => Itv.wf_urem a b)
    (fun _ _ _ _ _ hi hj hc => hc.2.2 ▸ Itv.urem_sound hi hj hc.1 hc.2.1)

theorem opSound_and : OpSound (fun a b => some (Itv.and a b)) (fun i j c => c = ZNum.land i j) :=
  opSound_total (fun _ _ => Itv.wf_and) (fun _ _ _ _ _ hi hj hc => hc ▸ Itv.and_sound hi hj)

theorem opSound_or : OpSound (fun a b => some (Itv.or a b)) (fun i j c => c = ZNum.lor i j) :=
  opSound_total (fun a b _ _ => Itv.wf_or a b) (fun _ _ _ _ _ hi hj hc => hc ▸ Itv.or_sound hi hj)

theorem opSound_xor : OpSound (fun a b => some (Itv.xor a b)) (fun i j c => c = ZNum.lxor i j) :=
  opSound_total (fun a b _ _ => Itv.wf_xor a b) (fun _ _ _ _ _ hi hj hc => hc ▸ Itv.xor_sound hi hj)

theorem opSound_shl : OpSound (fun a b => some (Itv.shl a b)) (fun i j c => 0 ≤ j ∧ c = i * 2 ^ j.toNat) :=
  opSound_total (fun _ b ha _ => Itv.wf_shl ha b) (fun _ _ _ _ _ hi hj hc => hc.2 ▸ Itv.shl_sound hi hj hc.1)

theorem opSound_ashr : OpSound (fun a b => some (Itv.ashr a b)) (fun i j c => 0 ≤ j ∧ c = i / 2 ^ j.toNat) :=
  opSound_total (fun _ b ha _ => Itv.wf_ashr ha b) (fun _ _ _ _ _ hi hj hc => hc.2 ▸ Itv.ashr_sound hi hj hc.1)

/-- `LShr` for shift amounts below `2^64` (the interval operation is wrong beyond: see
    `C08.itv_lshr_sound_counterexample`) -/
theorem opSound_lshr : OpSound (fun a b => some (Itv.lshr a b))
    (fun i j c => 0 ≤ j ∧ j < 2 ^ 64 ∧ 0 ≤ i ∧ c = i / 2 ^ j.toNat) :=
  opSound_total (fun a b _ _ => Itv.wf_lshr a b)
    (fun _ _ _ _ _ hi hj hc => hc.2.2.2 ▸ Itv.lshr_sound hi hj hc.1 hc.2.1)

theorem lowerHalfLine_sound {a : Itv} {i c : Int} (hi : Itv.mem i a) (hc : c ≤ i) :
    Itv.mem c a.lowerHalfLine := by
  simp only [Itv.lowerHalfLine, Itv.mem_mk']
  exact ⟨by simp, Bound.le_trans (by simpa using hc) hi.2⟩

theorem upperHalfLine_sound {a : Itv} {i c : Int} (hi : Itv.mem i a) (hc : i ≤ c) :
    Itv.mem c a.upperHalfLine := by
  simp only [Itv.upperHalfLine, Itv.mem_mk']
  exact ⟨Bound.le_trans hi.1 (by simpa using hc), by simp⟩

/-! ### `check_well_formed` -/

theorem isOnTheLeft_of_gapOk {a b : Itv} (h : gapOk a b = true) : isOnTheLeft a b = true := by
  obtain ⟨al, au⟩ := a
  obtain ⟨bl, bu⟩ := b
  cases au <;> cases bl <;> simp_all [gapOk, isOnTheLeft]
  omega

theorem checkGo_of_wf : ∀ (l : List Itv) (p : Itv), WFList (p :: l) →
    checkWellFormed.go p l = some true := by
  intro l
  induction l with
  | nil => intro p _; rfl
  | cons c cs ih =>
    intro p h
    unfold checkWellFormed.go
    rw [if_pos (isOnTheLeft_of_gapOk ((List.pairwise_cons.mp h.2).1 c (by simp)))]
    exact ih c h.tail

/-- the sanity check of the class accepts every value that satisfies `Dis.WF` -/
theorem checkWellFormed_of_wf {x : Dis} (hx : WF x) : checkWellFormed x = some true := by
  obtain ⟨s, l⟩ := x
  cases s <;> try (simp [checkWellFormed, isTop, isBottom]; done)
  have e1 : (DisState.fin == DisState.bot) = false := rfl
  have e2 : (DisState.fin == DisState.top) = false := rfl
  have e3 : (DisState.fin == DisState.fin) = true := rfl
  simp only [checkWellFormed, isTop, isBottom, isFinite, e1, e2, e3, Bool.or_self, Bool.false_eq_true,
    if_false, Bool.not_true]
  match l, hx with
  | [], hx => exact absurd rfl hx.1
  | [a], hx =>
    have := (proper_iff a).mp (hx.2.2.1 a (by simp))
    simp [this.1, this.2.1]
  | a :: b :: more, hx => exact checkGo_of_wf (b :: more) a hx.2.2

end Dis
end Crab
