import CrabProofs.Lemmas.BwdInst
import CrabProofs.Lemmas.IDomInst

/-!
  `ikos::interval_domain` (exact model `IDom.Env`, values with the map invariant `IDom.SEnv`) as a
  domain of the backward analysis:
  * `ItvB.fwd`: the forward API the transformer calls, each field ONE call of the model
    (`operator+=(linear_constraint)` = `Env.add` of the singleton system, `operator-=` =
    `Env.forget`, `assign`, `apply` = `Env.applyVar / applyCst`, `select`, the lattice operations,
    `is_bottom`);
  * `ItvB.rename y x` = `rename({y}, {x})` (`separate_domain::rename` on one pair);
  * `ItvB.dom = withGenBwd fwd rename bound`: `interval_domain::backward_assign / backward_apply`
    are `BackwardAssignOps<interval_domain_t>::assign / apply(*this, ..., inv)`
    (include/crab/domains/intervals.hpp);
  * `ItvB.dom_sound`: the whole contract `BDomSound`.
-/
namespace Crab
namespace Bwd
open IDom

/-- `arith_operation_t` of a `bin_op` statement -/
def itvOp : BinOp → IDom.ArithOp
  | .add => .add
  | .sub => .sub
  | .mul => .mul
  | .sdiv => .sdiv

theorem itvOp_conc {op : BinOp} {a b v : Int} (h : binSem op a b = some v) :
    (itvOp op).conc a b = some v := by
  cases op <;> simpa [binSem, itvOp, IDom.ArithOp.conc] using h

namespace ItvB

/-- `separate_domain::rename({y}, {x})` (the vectors have the same length: no CRAB_ERROR) -/
def rename1 (e : Env) (y x : Var) : Env :=
  if e.isTop || e.bottom then e else ⟨false, Env.renameLoop [y] [x] e.m⟩

theorem rename1_eq (e : Env) (y x : Var) : e.rename [y] [x] = some (rename1 e y x) := by
  unfold Env.rename rename1
  split
  · rfl
  · simp

def assume (c : Cst) (a : SEnv) : SEnv := ⟨a.1.add [c.toLin], Env.add_inv Env.sortedInv _ _ a.2⟩
def forget (x : Var) (a : SEnv) : SEnv := ⟨a.1.forget x, Env.forget_sorted _ _ a.2⟩
def assign (x : Var) (e : Lin) (a : SEnv) : SEnv :=
  ⟨a.1.assign x e.toExpr, Env.assign_inv Env.sortedInv _ _ _ a.2⟩
def apply (op : BinOp) (x y : Var) (z : Operand) (a : SEnv) : SEnv :=
  match z with
  | .var w => ⟨a.1.applyVar (itvOp op) x y w, Env.applyVar_inv Env.sortedInv _ _ _ _ _ a.2⟩
  | .const k => ⟨a.1.applyCst (itvOp op) x y k, Env.applyCst_inv Env.sortedInv _ _ _ _ _ a.2⟩
def select (x : Var) (c : Cst) (e1 e2 : Lin) (a : SEnv) : SEnv :=
  ⟨a.1.select x c.toLin e1.toExpr e2.toExpr, Env.select_inv Env.sortedInv _ _ _ _ _ a.2⟩
def rename (y x : Var) (a : SEnv) : SEnv :=
  ⟨rename1 a.1 y x, Env.rename_sorted (rename1_eq a.1 y x) a.2⟩

/-- an index above every bound variable -/
def bound (a : SEnv) : Nat := freshFor 0 a.1.m.keys

/-- the forward operations (the backward fields are placeholders, replaced in `dom`) -/
def fwd : BDom SEnv where
  top := SEnv.top
  bot := SEnv.bot
  isBottom := fun a => a.1.isBottom
  leq := SEnv.leq
  join := SEnv.join
  meet := SEnv.meet
  widen := SEnv.widen
  narrow := SEnv.narrow
  assume := assume
  forget := forget
  assign := assign
  apply := apply
  select := select
  bwdAssign := fun _ _ _ inv => inv
  bwdApply := fun _ _ _ _ _ inv => inv

/-- `interval_domain` with its backward operations -/
def dom : BDom SEnv := withGenBwd fwd rename bound

theorem select_cond (c : Cst) (σ : State) (u v : Int) :
    (if c.toLin.sat σ then u else v) = (if c.sat σ then u else v) := by
  by_cases h : c.holds σ
  · rw [if_pos ((Cst.toLin_sat c σ).2 h), if_pos ((Cst.sat_iff c σ).2 h)]
  · rw [if_neg (fun h' => h ((Cst.toLin_sat c σ).1 h')), if_neg (fun h' => h ((Cst.sat_iff c σ).1 h'))]

theorem fwd_sound : BDomSound fwd SEnv.γ where
  top_sound := fun σ => Env.γ_top σ
  isBottom_sound := fun _ σ h => Env.not_γ_bottom h σ
  join_left := fun a b _ h => Env.join_upper_left a.2 b.1 h
  join_right := fun a _ _ h => Env.join_upper_right a.2 h
  widen_left := fun a b _ h => Env.widen_upper_left a.2 b.1 h
  widen_right := fun a _ _ h => Env.widen_upper_right a.2 h
  meet_sound := fun a _ _ h1 h2 => Env.meet_sound a.2 h1 h2
  narrow_sound := fun a _ _ h1 h2 => Env.narrow_sound a.2 h1 h2
  leq_sound := fun _ _ _ h hg => Env.leq_sound h hg
  assume_sound := by
    intro c a σ hg hc
    refine Env.add_sound hg ?_ ?_
    · intro c' hc'; rw [List.mem_singleton.1 hc']; exact Cst.toLin_canonical c
    · intro c' hc'; rw [List.mem_singleton.1 hc']; exact (Cst.toLin_sat c σ).2 hc
  forget_sound := fun x _ _ v hg => Env.forget_sound hg x v
  assign_sound := by
    intro x e a σ hg
    have := Env.assign_sound hg x e.toExpr
    rw [Lin.toExpr_eval] at this
    exact this
  apply_sound := by
    intro op x y z a σ v hg hv
    cases z with
    | var w => exact Env.set_sound hg ((itvOp op).eval_sound (hg.2 y) (hg.2 w) (itvOp_conc hv)) x
    | const k =>
      exact Env.set_sound hg ((itvOp op).eval_sound (hg.2 y) ((Itv.mem_single k k).2 rfl) (itvOp_conc hv)) x
  select_sound := by
    intro x c e1 e2 a σ hg
    have := Env.select_sound hg x (Cst.toLin_canonical c) e1.toExpr e2.toExpr
    rw [Lin.toExpr_eval, Lin.toExpr_eval, select_cond] at this
    exact this
  bwdAssign_sound := fun _ _ _ _ _ h _ => h
  bwdApply_sound := fun _ _ _ _ _ _ _ _ h _ _ => h

/-- `rename({y}, {x})` right after `-= x` gives `x` the value of `y` -/
theorem rename_after_forget : RenameAfterForget fwd SEnv.γ rename := by
  intro y x a τ w hyx hg
  have hg1 : Env.γ (a.1.forget x) τ := Env.forget_sound_same hg x
  refine Env.rename_sound hg1 (rename1_eq _ y x) (by simp) (by simp) ?_ ?_ ?_ ?_
  · intro z hz hz'
    rw [List.mem_singleton] at hz hz'
    exact hyx (hz'.symm.trans hz)
  · intro z hz
    rw [List.mem_singleton.1 hz]
    unfold Env.forget
    simp only [hg.1, Bool.false_eq_true, if_false, Map.find_remove, if_true]
  · refine ⟨?_, trivial⟩
    show upd (upd τ x (τ y)) y w x = τ y
    rw [upd_other _ y x w (fun h => hyx h.symm), upd_same]
  · intro z hz1 hz2
    rw [List.mem_singleton] at hz1 hz2
    show upd (upd τ x (τ y)) y w z = τ z
    rw [upd_other _ y z w hz1, upd_other _ x z _ hz2]

theorem freshFor_gt (b : Nat) (vs : List Var) {v : Var} (h : v ∈ vs) : v < freshFor b vs :=
  (freshFor_ge_aux vs b).2 v h

theorem bound_ok : BoundOk SEnv.γ bound := by
  intro a f τ v hf hg
  refine ⟨hg.1, fun x => ?_⟩
  by_cases hx : x = f
  · subst hx
    have hnone : Map.find a.1.m x = none := by
      apply Map.find_none_of_not_key
      intro p hp he
      have : p.1 < bound a := freshFor_gt 0 _ (List.mem_map.2 ⟨p, hp, rfl⟩)
      rw [he] at this
      exact Nat.lt_irrefl _ (Nat.lt_of_lt_of_le this hf)
    rw [Env.get_of_not_bottom hg.1, hnone]
    exact Itv.mem_top _
  · have := hg.2 x
    show Itv.mem (upd τ f v x) _
    rw [upd_other τ f x v hx]
    exact this

/-- the interval domain satisfies the contract of the backward analysis -/
theorem dom_sound : BDomSound dom SEnv.γ :=
  withGenBwd_sound fwd_sound rename rename_after_forget bound bound_ok

end ItvB
end Bwd
end Crab
