import CrabModel.Dom.Dbm

/-!
  Basic facts about weights `W = Int ∪ {+∞}`, stored matrices and the Floyd–Warshall closure:
  `fw` keeps the set of solutions (`fw_sat`), only lowers entries (`fw_LE`), and when the result
  has no negative diagonal entry it is *closed* (`fw_closed`): zero diagonal and triangle inequality.
-/
namespace Crab
namespace Dbm

namespace W

/-- the order of `Int ∪ {+∞}` as a proposition -/
def LE (a b : W) : Prop := ∀ y, b = some y → ∃ x, a = some x ∧ x ≤ y

theorem le_iff (a b : W) : le a b = true ↔ LE a b := by
  cases a <;> cases b <;> simp [le, LE]

theorem LE_refl (a : W) : LE a a := fun y h => ⟨y, h, Int.le_refl y⟩

theorem LE_trans {a b c : W} (h1 : LE a b) (h2 : LE b c) : LE a c := by
  intro z hz
  obtain ⟨y, hy, hyz⟩ := h2 z hz
  obtain ⟨x, hx, hxy⟩ := h1 y hy
  exact ⟨x, hx, Int.le_trans hxy hyz⟩

theorem LE_none (a : W) : LE a none := fun y h => by cases h

theorem LE_some_some {x y : Int} : LE (some x) (some y) ↔ x ≤ y := by
  simp [LE]

theorem LE_some {a : W} {y : Int} : LE a (some y) ↔ ∃ x, a = some x ∧ x ≤ y := by
  simp [LE]

theorem min_LE_left (a b : W) : LE (min a b) a := by
  cases a <;> cases b <;> simp [min, LE] <;> (try split) <;> omega

theorem min_LE_right (a b : W) : LE (min a b) b := by
  cases a <;> cases b <;> simp [min, LE] <;> (try split) <;> omega

theorem LE_min {a b c : W} (h1 : LE c a) (h2 : LE c b) : LE c (min a b) := by
  cases a <;> cases b <;> cases c <;> simp_all [min, LE] <;> split <;> omega

theorem min_eq_or (a b : W) : min a b = a ∨ min a b = b := by
  cases a <;> cases b <;> simp [min] <;> omega

theorem add_mono {a b c d : W} (h1 : LE a c) (h2 : LE b d) : LE (add a b) (add c d) := by
  cases a <;> cases b <;> cases c <;> cases d <;> simp_all [add, LE] <;> omega

theorem add_some_iff {a b : W} {k : Int} : add a b = some k ↔ ∃ x y, a = some x ∧ b = some y ∧ k = x + y := by
  cases a <;> cases b <;> simp [add] <;> omega

theorem add_comm (a b : W) : add a b = add b a := by
  cases a <;> cases b <;> simp [add]; omega

theorem add_assoc (a b c : W) : add (add a b) c = add a (add b c) := by
  cases a <;> cases b <;> cases c <;> simp [add]; omega

theorem add_zero (a : W) : add a (some 0) = a := by cases a <;> simp [add]
theorem zero_add (a : W) : add (some 0) a = a := by cases a <;> simp [add]

theorem isNeg_iff (a : W) : isNeg a = true ↔ ∃ x, a = some x ∧ x < 0 := by
  cases a <;> simp [isNeg]

theorem max_LE_iff {a b : W} {k : Int} : LE (max a b) (some k) ↔ LE a (some k) ∧ LE b (some k) := by
  cases a <;> cases b <;> simp [max, LE] <;> (try split) <;> omega

theorem LE_max_left (a b : W) : LE a (max a b) := by
  cases a <;> cases b <;> simp [max, LE] <;> (try split) <;> omega

theorem LE_max_right (a b : W) : LE b (max a b) := by
  cases a <;> cases b <;> simp [max, LE] <;> (try split) <;> omega

end W

namespace Mat
variable {N : Nat}

@[simp] theorem get_ofFn (f : Fin N → Fin N → W) (i j : Fin N) : (ofFn f).get i j = f i j := by
  simp [get, ofFn, Vector.getElem_ofFn]

/-- entrywise order -/
def LE (a b : Mat N) : Prop := ∀ i j, W.LE (a.get i j) (b.get i j)

theorem LE_refl (a : Mat N) : LE a a := fun _ _ => W.LE_refl _
theorem LE_trans {a b c : Mat N} (h1 : LE a b) (h2 : LE b c) : LE a c :=
  fun i j => W.LE_trans (h1 i j) (h2 i j)

theorem sat_of_LE {a b : Mat N} (h : LE a b) {v : Fin N → Int} (hs : a.sat v) : b.sat v := by
  intro i j k hk
  obtain ⟨x, hx, hxk⟩ := h i j k hk
  have := hs i j x hx
  omega

/-- `a.sat v` says exactly that the entries are above the differences of `v` -/
theorem sat_iff (a : Mat N) (v : Fin N → Int) : a.sat v ↔ ∀ i j, W.LE (some (v i - v j)) (a.get i j) := by
  constructor
  · intro h i j y hy; exact ⟨_, rfl, h i j y hy⟩
  · intro h i j k hk
    obtain ⟨x, hx, hxk⟩ := h i j k hk
    cases hx; exact hxk

theorem top_sat (v : Fin N → Int) : (top : Mat N).sat v := by
  intro i j k h; simp [top] at h

theorem addEdge_sat (m : Mat N) (i j : Fin N) (k : Int) (v : Fin N → Int) :
    (m.addEdge i j k).sat v ↔ m.sat v ∧ v i - v j ≤ k := by
  constructor
  · intro h
    refine ⟨?_, ?_⟩
    · refine sat_of_LE (a := m.addEdge i j k) ?_ h
      intro a b
      simp only [addEdge, get_ofFn]
      split
      · exact W.min_LE_left _ _
      · exact W.LE_refl _
    · have h2 := (sat_iff _ _).1 h i j
      simp only [addEdge, get_ofFn, and_self, if_true] at h2
      have := W.LE_trans h2 (W.min_LE_right _ _)
      exact W.LE_some_some.1 this
  · rintro ⟨h1, h2⟩
    rw [sat_iff]
    intro a b
    simp only [addEdge, get_ofFn]
    split
    · rename_i hab
      obtain ⟨rfl, rfl⟩ := hab
      exact W.LE_min ((sat_iff _ _).1 h1 a b) (W.LE_some_some.2 h2)
    · exact (sat_iff _ _).1 h1 a b

theorem diag0_LE (m : Mat N) : LE (diag0 m) m := by
  intro i j
  simp only [diag0, get_ofFn]
  split
  · exact W.min_LE_left _ _
  · exact W.LE_refl _

theorem diag0_sat (m : Mat N) (v : Fin N → Int) : (diag0 m).sat v ↔ m.sat v := by
  constructor
  · exact sat_of_LE (diag0_LE m)
  · intro h
    rw [sat_iff]
    intro i j
    simp only [diag0, get_ofFn]
    split
    · rename_i hij
      subst hij
      refine W.LE_min ((sat_iff _ _).1 h i i) ?_
      simp [W.LE]
    · exact (sat_iff _ _).1 h i j

theorem diag0_diag (m : Mat N) (i : Fin N) : W.LE ((diag0 m).get i i) (some 0) := by
  simp only [diag0, get_ofFn, if_true]
  exact W.min_LE_right _ _

theorem fwStep_LE (m : Mat N) (k : Fin N) : LE (fwStep m k) m := by
  intro i j
  simp only [fwStep, get_ofFn]
  exact W.min_LE_left _ _

theorem fwStep_sat (m : Mat N) (k : Fin N) (v : Fin N → Int) : (fwStep m k).sat v ↔ m.sat v := by
  constructor
  · exact sat_of_LE (fwStep_LE m k)
  · intro h
    rw [sat_iff]
    intro i j
    simp only [fwStep, get_ofFn]
    refine W.LE_min ((sat_iff _ _).1 h i j) ?_
    have h1 := (sat_iff _ _).1 h i k
    have h2 := (sat_iff _ _).1 h k j
    have := W.add_mono h1 h2
    simp only [W.add] at this
    have e : v i - v k + (v k - v j) = v i - v j := by omega
    rwa [e] at this

theorem foldl_fwStep_LE (ks : List (Fin N)) (m : Mat N) : LE (ks.foldl fwStep m) m := by
  induction ks generalizing m with
  | nil => exact LE_refl m
  | cons k ks ih => exact LE_trans (ih (fwStep m k)) (fwStep_LE m k)

theorem foldl_fwStep_sat (ks : List (Fin N)) (m : Mat N) (v : Fin N → Int) :
    (ks.foldl fwStep m).sat v ↔ m.sat v := by
  induction ks generalizing m with
  | nil => exact Iff.rfl
  | cons k ks ih => rw [List.foldl_cons, ih, fwStep_sat]

/-- Floyd–Warshall only lowers entries -/
theorem fw_LE (m : Mat N) : LE (fw m) m :=
  LE_trans (foldl_fwStep_LE _ _) (diag0_LE m)

/-- Floyd–Warshall keeps the solutions -/
theorem fw_sat (m : Mat N) (v : Fin N → Int) : (fw m).sat v ↔ m.sat v := by
  unfold fw
  rw [foldl_fwStep_sat, diag0_sat]

theorem hasNegDiag_iff (m : Mat N) : hasNegDiag m = true ↔ ∃ i x, m.get i i = some x ∧ x < 0 := by
  simp [hasNegDiag, W.isNeg_iff, List.mem_finRange]

theorem not_sat_of_hasNegDiag {m : Mat N} (h : hasNegDiag m = true) (v : Fin N → Int) : ¬ m.sat v := by
  obtain ⟨i, x, hx, hneg⟩ := (hasNegDiag_iff m).1 h
  intro hs
  have := hs i i x hx
  omega

/-- no negative diagonal entry -/
def DiagNonneg (m : Mat N) : Prop := ∀ i x, m.get i i = some x → 0 ≤ x

theorem diagNonneg_iff (m : Mat N) : DiagNonneg m ↔ hasNegDiag m = false := by
  rw [← Bool.not_eq_true, hasNegDiag_iff]
  constructor
  · rintro h ⟨i, x, hx, hneg⟩
    have := h i x hx; omega
  · intro h i x hx
    apply Decidable.byContradiction
    intro hn
    exact h ⟨i, x, hx, by omega⟩

theorem DiagNonneg_of_LE {a b : Mat N} (h : LE a b) (ha : DiagNonneg a) : DiagNonneg b := by
  intro i y hy
  obtain ⟨x, hx, hxy⟩ := h i i y hy
  have := ha i x hx
  omega

/-- triangle inequality through the intermediate indices in `P` -/
def TriOn (P : Fin N → Prop) (m : Mat N) : Prop :=
  ∀ i j k, P k → W.LE (m.get i j) (W.add (m.get i k) (m.get k j))

/-- one Floyd–Warshall round extends the set of intermediate indices (needs `m k k ≥ 0`) -/
theorem fwStep_TriOn {P : Fin N → Prop} {m : Mat N} (k : Fin N) (h : TriOn P m)
    (hk : ∀ x, m.get k k = some x → 0 ≤ x) :
    TriOn (fun a => P a ∨ a = k) (fwStep m k) := by
  intro i j k' hk'
  simp only [fwStep, get_ofFn]
  -- abbreviations
  intro y hy
  -- the right-hand side is finite: all four candidate sums
  obtain ⟨p, q, hp, hq, rfl⟩ := W.add_some_iff.1 hy
  -- p comes from m i k' or m i k + m k k'; q from m k' j or m k' k + m k j
  have key : ∀ a b : W, ∀ z, W.min a b = some z → (a = some z ∧ W.LE (some z) b) ∨ (b = some z ∧ W.LE (some z) a) := by
    intro a b z hz
    cases a <;> cases b <;> simp_all [W.min, W.LE]
    rename_i a b
    split at hz <;> omega
  -- final target: ∃ x, min (m i j) (m i k + m k j) = some x ∧ x ≤ p + q
  suffices hs : W.LE (m.get i j) (some (p + q)) ∨ W.LE (W.add (m.get i k) (m.get k j)) (some (p + q)) by
    rcases hs with hs | hs
    · exact W.LE_trans (W.min_LE_left _ _) hs _ rfl
    · exact W.LE_trans (W.min_LE_right _ _) hs _ rfl
  rcases hk' with hP | rfl
  · -- k' ∈ P
    rcases key _ _ _ hp with ⟨hp1, _⟩ | ⟨hp1, _⟩ <;> rcases key _ _ _ hq with ⟨hq1, _⟩ | ⟨hq1, _⟩
    · left
      have := h i j k' hP
      rw [hp1, hq1] at this
      exact this
    · right
      obtain ⟨a, b, ha, hb, rfl⟩ := W.add_some_iff.1 hq1
      -- m i k ≤ m i k' + m k' k
      have t := h i k k' hP
      rw [hp1, ha] at t
      obtain ⟨x, hx, hxl⟩ := t _ rfl
      rw [hx, hb]
      simp only [W.add, W.LE_some_some]
      omega
    · right
      obtain ⟨a, b, ha, hb, rfl⟩ := W.add_some_iff.1 hp1
      have t := h k j k' hP
      rw [hb, hq1] at t
      obtain ⟨x, hx, hxl⟩ := t _ rfl
      rw [ha, hx]
      simp only [W.add, W.LE_some_some]
      omega
    · right
      obtain ⟨a, b, ha, hb, rfl⟩ := W.add_some_iff.1 hp1
      obtain ⟨c, d, hc, hd, rfl⟩ := W.add_some_iff.1 hq1
      have t := h k k k' hP
      rw [hb, hc] at t
      obtain ⟨x, hx, hxl⟩ := t _ rfl
      have := hk x hx
      rw [ha, hd]
      simp only [W.add, W.LE_some_some]
      omega
  · -- k' = k
    right
    rcases key _ _ _ hp with ⟨hp1, _⟩ | ⟨hp1, _⟩ <;> rcases key _ _ _ hq with ⟨hq1, _⟩ | ⟨hq1, _⟩
    · rw [hp1, hq1]; simp [W.add, W.LE_some_some]
    · obtain ⟨c, d, hc, hd, rfl⟩ := W.add_some_iff.1 hq1
      have := hk c hc
      rw [hp1, hd]
      simp only [W.add, W.LE_some_some]
      omega
    · obtain ⟨a, b, ha, hb, rfl⟩ := W.add_some_iff.1 hp1
      have := hk b hb
      rw [ha, hq1]
      simp only [W.add, W.LE_some_some]
      omega
    · obtain ⟨a, b, ha, hb, rfl⟩ := W.add_some_iff.1 hp1
      obtain ⟨c, d, hc, hd, rfl⟩ := W.add_some_iff.1 hq1
      have := hk b hb
      have := hk c hc
      rw [ha, hd]
      simp only [W.add, W.LE_some_some]
      omega

theorem foldl_fwStep_TriOn (ks : List (Fin N)) {P : Fin N → Prop} {m : Mat N} (h : TriOn P m)
    (hd : DiagNonneg (ks.foldl fwStep m)) :
    TriOn (fun a => P a ∨ a ∈ ks) (ks.foldl fwStep m) := by
  induction ks generalizing m P with
  | nil =>
    intro i j k hk
    rcases hk with hk | hk
    · exact h i j k hk
    · cases hk
  | cons k ks ih =>
    rw [List.foldl_cons] at hd ⊢
    have hd1 : DiagNonneg (fwStep m k) := DiagNonneg_of_LE (foldl_fwStep_LE ks _) hd
    have hd0 : DiagNonneg m := DiagNonneg_of_LE (fwStep_LE m k) hd1
    have := ih (fwStep_TriOn k h (hd0 k)) hd
    intro i j k' hk'
    apply this i j k'
    rcases hk' with hk' | hk'
    · exact Or.inl (Or.inl hk')
    · rcases List.mem_cons.1 hk' with rfl | hk'
      · exact Or.inl (Or.inr rfl)
      · exact Or.inr hk'

/-- closed: zero diagonal and the triangle inequality -/
structure Closed (m : Mat N) : Prop where
  diag : ∀ i, m.get i i = some 0
  tri : ∀ i j k, W.LE (m.get i j) (W.add (m.get i k) (m.get k j))

/-- a consistent Floyd–Warshall result is closed -/
theorem fw_closed {m : Mat N} (h : hasNegDiag (fw m) = false) : Closed (fw m) := by
  have hd : DiagNonneg (fw m) := (diagNonneg_iff _).2 h
  constructor
  · intro i
    have h1 : W.LE ((fw m).get i i) (some 0) :=
      W.LE_trans (foldl_fwStep_LE _ _ i i) (diag0_diag m i)
    obtain ⟨x, hx, hx0⟩ := h1 0 rfl
    have := hd i x hx
    rw [hx]; congr; omega
  · have ht : TriOn (fun _ => False) (diag0 m) := fun _ _ _ hf => hf.elim
    have := foldl_fwStep_TriOn (List.finRange N) ht hd
    intro i j k
    exact this i j k (Or.inr (List.mem_finRange k))

end Mat
end Dbm
end Crab
