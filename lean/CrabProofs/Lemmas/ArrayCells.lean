import CrabModel.Dom.ArrayCells

/-! Lemmas on the cell algebra of `array_adaptive` (`Crab.Dom.Cells`). -/
namespace Crab
namespace Dom
namespace Cells

theorem mem_live {om : OMap} {c : Cell} : c ∈ live om ↔ c ∈ om ∧ c.removed = false := by
  simp [live]

/-- a cell with the key (o, sz) that is not marked as removed is the cell `⟨o, sz, false⟩` -/
theorem eq_of_hasKey {c : Cell} {o : Int} {sz : Nat} (hk : c.hasKey o sz = true) (hr : c.removed = false) :
    c = ⟨o, sz, false⟩ := by
  cases c with
  | mk off size removed =>
    simp only [Cell.hasKey, Bool.and_eq_true, beq_iff_eq] at hk
    simp only at hr
    obtain ⟨h1, h2⟩ := hk
    subst h1; subst h2; subst hr
    rfl

/-- what survives `kill` un-removed was there, un-removed, and was not to be killed -/
theorem mem_kill_live {sm : Bool} {om : OMap} {o : Int} {sz : Nat} {c : Cell}
    (h : c ∈ kill sm om o sz) (hr : c.removed = false) : c ∈ om ∧ shouldKill o sz c = false := by
  unfold kill at h
  cases sm with
  | true =>
    simp only [if_true, List.mem_map] at h
    obtain ⟨c', hc', heq⟩ := h
    by_cases hk : shouldKill o sz c' = true
    · simp only [hk, if_true] at heq
      rw [← heq] at hr
      simp at hr
    · simp only [hk] at heq
      have : c' = c := by simpa using heq
      subst this
      exact ⟨hc', by simpa using hk⟩
  | false =>
    simp only [Bool.false_eq_true, if_false, List.mem_filter] at h
    exact ⟨h.1, by simpa using h.2⟩

/-- `kill` never touches the cell with the key of the store -/
theorem mem_kill_key {sm : Bool} {om : OMap} {o : Int} {sz : Nat} {c : Cell}
    (h : c ∈ kill sm om o sz) (hk : c.hasKey o sz = true) : c ∈ om := by
  unfold kill at h
  cases sm with
  | true =>
    simp only [if_true, List.mem_map] at h
    obtain ⟨c', hc', heq⟩ := h
    by_cases hs : shouldKill o sz c' = true
    · simp only [hs, if_true] at heq
      have hk' : c'.hasKey o sz = true := by
        rw [← heq] at hk
        simpa [Cell.hasKey] using hk
      simp [shouldKill, hk'] at hs
    · simp only [hs] at heq
      have : c' = c := by simpa using heq
      subst this
      exact hc'
  | false =>
    simp only [Bool.false_eq_true, if_false, List.mem_filter] at h
    exact h.1

theorem getCell_some {om : OMap} {o : Int} {sz : Nat} {c : Cell} (h : getCell om o sz = some c) :
    c ∈ om ∧ c.hasKey o sz = true := by
  unfold getCell at h
  exact ⟨List.mem_of_find?_eq_some h, by simpa using List.find?_some h⟩

theorem getCell_none {om : OMap} {o : Int} {sz : Nat} (h : getCell om o sz = none) :
    ∀ c ∈ om, c.hasKey o sz = false := by
  unfold getCell at h
  intro c hc
  have := List.find?_eq_none.1 h c hc
  simpa using this

/-- every live cell after a store is the written cell or a live cell that the store does not meet -/
theorem live_storeConst {sm : Bool} {om : OMap} {o : Int} {sz : Nat} {c : Cell}
    (h : c ∈ live (storeConst sm om o sz)) :
    c = ⟨o, sz, false⟩ ∨ (c ∈ live om ∧ rangesMeet c.off c.size o sz = false) := by
  have hr := (mem_live.1 h).2
  have hmem := (mem_live.1 h).1
  -- c is the new cell or a cell of the killed map
  have hcases : c = ⟨o, sz, false⟩ ∨ c ∈ kill sm om o sz := by
    unfold storeConst mkCell at hmem
    split at hmem
    · rcases List.mem_cons.1 hmem with h1 | h1
      · exact Or.inl h1
      · exact Or.inr h1
    · split at hmem
      · rcases List.mem_cons.1 hmem with h1 | h1
        · exact Or.inl h1
        · exact Or.inr (List.mem_filter.1 h1).1
      · exact Or.inr hmem
  rcases hcases with h1 | h1
  · exact Or.inl h1
  · obtain ⟨hom, hsk⟩ := mem_kill_live h1 hr
    by_cases hk : c.hasKey o sz = true
    · exact Or.inl (eq_of_hasKey hk hr)
    · right
      refine ⟨mem_live.2 ⟨hom, hr⟩, ?_⟩
      simp only [shouldKill, Cell.overlap, hr, Bool.not_false, Bool.true_and] at hsk
      have hk' : c.hasKey o sz = false := by simpa using hk
      simpa [hk'] using hsk

/-- the written cell is live after the store -/
theorem written_live {sm : Bool} {om : OMap} {o : Int} {sz : Nat} :
    (⟨o, sz, false⟩ : Cell) ∈ live (storeConst sm om o sz) := by
  apply mem_live.2
  refine ⟨?_, rfl⟩
  unfold storeConst mkCell
  split
  · exact List.mem_cons_self
  · rename_i c0 hc0
    obtain ⟨hmem, hkey⟩ := getCell_some hc0
    split
    · exact List.mem_cons_self
    · rename_i hcond
      have hrem : c0.removed = false := by simpa using hcond
      have := eq_of_hasKey hkey hrem
      rw [← this]; exact hmem

end Cells
end Dom
end Crab
