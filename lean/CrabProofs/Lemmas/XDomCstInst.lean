import CrabProofs.Lemmas.XDomCstOps2
import CrabProofs.Lemmas.XDomStmt

/-!
  The constant domain as an instance of the generic history contract: environments with the
  invariant of `separate_domain`, the lattice operations on them, and the abstract execution of
  the statements of `XDom.Stmt` (each a sound transformer).
-/
namespace Crab
namespace CDom
open XDom Lin

local notation "CL" => cstLattice

/-- the values of the domain: environments that satisfy the invariant of `separate_domain` -/
def SEnv := { e : Env // e.Inv }

namespace SEnv

def γ (a : SEnv) (σ : State) : Prop := Env.γ a.1 σ
def bot : SEnv := ⟨Env.bot, Env.inv_bot⟩
def top : SEnv := ⟨Env.top, Env.inv_top⟩
def leq (a b : SEnv) : Bool := XDom.Env.leq CL a.1 b.1
def join (a b : SEnv) : SEnv := ⟨XDom.Env.join CL a.1 b.1, XDom.Env.upper_inv cstLaws cstLaws.join a.2 b.2⟩
def widen (a b : SEnv) : SEnv := ⟨XDom.Env.widen CL a.1 b.1, XDom.Env.upper_inv cstLaws cstLaws.widen a.2 b.2⟩
def meet (a b : SEnv) : SEnv := ⟨XDom.Env.meet CL a.1 b.1, XDom.Env.lower_inv cstLaws cstLaws.meet a.2 b.2⟩
def narrow (a b : SEnv) : SEnv := ⟨XDom.Env.narrow CL a.1 b.1, XDom.Env.lower_inv cstLaws cstLaws.narrow a.2 b.2⟩

end SEnv

/-- abstract execution of a statement: one call of the domain -/
def exec : Stmt → Env → Env
  | .assign x e, a => a.assign x e
  | .weakAssign x e, a => a.weakAssign x e
  | .arithVar op x y z, a => a.applyVar op x y z
  | .arithCst op x y k, a => a.applyCst op x y k
  | .bitVar op x y z, a => a.applyBitVar op x y z
  | .bitCst op x y k, a => a.applyBitCst op x y k
  | .assume csts, a => a.add csts
  | .select lhs c e1 e2, a => a.select lhs c e1 e2
  | .forget x, a => XDom.Env.forget CL a x
  | .havoc vs, a => XDom.Env.forgetAll CL a vs
  | .project vs, a => XDom.Env.project CL a vs
  | .expand x nx, a => XDom.Env.expand CL a x nx
  | .cast z bw d s, a => a.intCast z bw d s

theorem exec_inv (st : Stmt) (hok : st.Ok) {a : Env} (h : a.Inv) : (exec st a).Inv := by
  cases st <;> simp only [exec]
  · exact Env.assign_inv h hok _
  · exact Env.weakAssign_inv h hok _
  · exact Env.apply_inv h hok _
  · exact Env.apply_inv h hok _
  · exact Env.apply_inv h hok _
  · exact Env.apply_inv h hok _
  · exact Env.add_inv h hok
  · exact Env.select_inv h hok.1 _ _ _
  · exact XDom.Env.forget_inv cstLaws h hok
  · exact XDom.Env.forgetAll_inv cstLaws h hok
  · exact XDom.Env.project_inv cstLaws h hok
  · exact XDom.Env.expand_inv cstLaws h hok
  · exact Env.intCast_inv h _ _ hok _

/-- **every statement is sound**: the abstract execution describes every concrete successor -/
theorem exec_sound (st : Stmt) (hok : st.Ok) {a : Env} (ha : a.Inv) {s s' : State} (hg : a.γ s)
    (hr : st.rel s s') : (exec st a).γ s' := by
  cases st with
  | assign x e => simp only [Stmt.rel] at hr; subst hr; exact Env.assign_sound ha hg hok e
  | weakAssign x e =>
    rcases hr with hr | hr <;> subst hr
    · exact (Env.weakAssign_sound ha hg hok e).1
    · exact (Env.weakAssign_sound ha hg hok e).2
  | arithVar op x y z => obtain ⟨c, hc, hs⟩ := hr; subst hs; exact Env.applyVar_sound ha hg op hok y z hc
  | arithCst op x y k => obtain ⟨c, hc, hs⟩ := hr; subst hs; exact Env.applyCst_sound ha hg op hok y k hc
  | bitVar op x y z => obtain ⟨c, hc, hs⟩ := hr; subst hs; exact Env.applyBitVar_sound ha hg op hok y z hc
  | bitCst op x y k => obtain ⟨c, hc, hs⟩ := hr; subst hs; exact Env.applyBitCst_sound ha hg op hok y k hc
  | assume csts => obtain ⟨hsat, hs⟩ := hr; subst hs; exact Env.add_sound ha hg hok hsat
  | select lhs c e1 e2 => simp only [Stmt.rel] at hr; subst hr; exact Env.select_sound ha hg hok.1 hok.2 e1 e2
  | forget x => obtain ⟨n, hs⟩ := hr; subst hs; exact XDom.Env.forget_sound cstLaws ha hg hok n
  | havoc vs => exact XDom.Env.forgetAll_sound cstLaws ha hg hok hr
  | project vs => exact XDom.Env.project_sound cstLaws ha hg hok hr
  | expand x nx => simp only [Stmt.rel] at hr; subst hr; exact XDom.Env.expand_sound cstLaws ha hg hok (hg.2 x)
  | cast z bw d src => obtain ⟨hz, hs⟩ := hr; subst hs; exact Env.intCast_sound ha hg z bw hok src hz

/-- lifted to the environments with the invariant -/
def execS (st : Stmt) (hok : st.Ok) (a : SEnv) : SEnv := ⟨exec st a.1, exec_inv st hok a.2⟩

end CDom
end Crab
