import CrabProofs.Lemmas.XDomLin
import CrabProofs.Lemmas.IDomSolver
import CrabProofs.Lemmas.LinCst
import CrabProofs.Props.C08Cst
import CrabModel.Dom.ConstantDomain

/-!
  `constant_domain` (model `Crab.CDom`): the value lattice satisfies `XDom.Laws`, and every
  operation of the class is sound for `γ` (integer valuations).
-/
namespace Crab
namespace CDom
open XDom Lin

local notation "CL" => cstLattice

/-- `constant<z_number>` has no representation invariant -/
instance : GoodVal Crab.Cst := ⟨fun _ => True⟩

theorem stored_iff (v : Crab.Cst) : Stored CL v ↔ ∃ n, v = .val n := by
  cases v <;> simp [Stored, cstLattice, Crab.Cst.isBottom, Crab.Cst.isTop, GoodVal.good]

/-- `constant<z_number>` satisfies the laws the environment needs -/
theorem cstLaws : Laws CL Crab.Cst.mem where
  isTop_top := rfl
  isBottom_top := rfl
  isBottom_bottom := rfl
  good_top := trivial
  good_bottom := trivial
  mem_top := fun _ => trivial
  not_mem_bottom := fun v k h => by cases v <;> simp_all [cstLattice, Crab.Cst.isBottom, Crab.Cst.mem]
  beq_sound := fun x y h => by simpa [cstLattice, Crab.Cst.beq] using h
  leq_refl := fun x _ => C08.cst_leq_refl x
  leq_sound := fun x y k h hk => C08.cst_leq_sound x y h k hk
  nonbot_mem := fun v h => by
    cases v with
    | bot => simp [cstLattice, Crab.Cst.isBottom] at h
    | top => exact ⟨0, trivial⟩
    | val n => exact ⟨n, rfl⟩
  nontop_out := fun v h => by
    obtain ⟨n, rfl⟩ := (stored_iff v).mp h
    exact ⟨n + 1, by simp only [Crab.Cst.mem]; omega⟩
  join :=
    { upper := fun x y k h => C08.cst_join_upper x y k h
      idem := fun x h => by
        obtain ⟨n, rfl⟩ := (stored_iff x).mp h
        simp [cstLattice, Crab.Cst.join, Crab.Cst.isBottom, Crab.Cst.isTop]
      good := fun _ _ _ _ => trivial
      nonbot := fun x y hx hy => by
        obtain ⟨n, rfl⟩ := (stored_iff x).mp hx
        obtain ⟨m, rfl⟩ := (stored_iff y).mp hy
        by_cases hnm : n = m <;> simp [cstLattice, Crab.Cst.join, Crab.Cst.isBottom, Crab.Cst.isTop, hnm] }
  widen :=
    { upper := fun x y k h => C08.cst_join_upper x y k h
      idem := fun x h => by
        obtain ⟨n, rfl⟩ := (stored_iff x).mp h
        simp [cstLattice, Crab.Cst.widen, Crab.Cst.join, Crab.Cst.isBottom, Crab.Cst.isTop]
      good := fun _ _ _ _ => trivial
      nonbot := fun x y hx hy => by
        obtain ⟨n, rfl⟩ := (stored_iff x).mp hx
        obtain ⟨m, rfl⟩ := (stored_iff y).mp hy
        by_cases hnm : n = m <;> simp [cstLattice, Crab.Cst.widen, Crab.Cst.join, Crab.Cst.isBottom, Crab.Cst.isTop, hnm] }
  meet :=
    { sound := fun x y k h1 h2 => (C08.cst_meet_exact x y k).mpr ⟨h1, h2⟩
      idem := fun x h => by
        obtain ⟨n, rfl⟩ := (stored_iff x).mp h
        simp [cstLattice, Crab.Cst.meet, Crab.Cst.isBottom, Crab.Cst.isTop]
      good := fun _ _ _ _ => trivial
      nontop := fun x y hx hy _ => by
        obtain ⟨n, rfl⟩ := (stored_iff x).mp hx
        obtain ⟨m, rfl⟩ := (stored_iff y).mp hy
        by_cases hnm : n = m <;> simp [cstLattice, Crab.Cst.meet, Crab.Cst.isBottom, Crab.Cst.isTop, hnm] }
  narrow :=
    { sound := fun x y k h1 h2 => (C08.cst_meet_exact x y k).mpr ⟨h1, h2⟩
      idem := fun x h => by
        obtain ⟨n, rfl⟩ := (stored_iff x).mp h
        simp [cstLattice, Crab.Cst.narrow, Crab.Cst.meet, Crab.Cst.isBottom, Crab.Cst.isTop]
      good := fun _ _ _ _ => trivial
      nontop := fun x y hx hy _ => by
        obtain ⟨n, rfl⟩ := (stored_iff x).mp hx
        obtain ⟨m, rfl⟩ := (stored_iff y).mp hy
        by_cases hnm : n = m <;> simp [cstLattice, Crab.Cst.narrow, Crab.Cst.meet, Crab.Cst.isBottom, Crab.Cst.isTop, hnm] }

namespace Env

/-- invariant and concretisation of the constant domain -/
def Inv (e : Env) : Prop := XDom.Env.Inv CL e
def γ (e : Env) (σ : State) : Prop := XDom.Env.γ CL Crab.Cst.mem e σ

theorem get_mem {e : Env} {σ : State} (hg : e.γ σ) (x : Var) : Crab.Cst.mem (σ x) (e.get x) := hg.2 x

theorem set_inv {e : Env} (he : e.Inv) {x : Var} (hx : x < 2 ^ 64) (v : Crab.Cst) : (e.set x v).Inv :=
  XDom.Env.set_inv cstLaws he hx (v := v) trivial

theorem set_sound {e : Env} (he : e.Inv) {σ : State} (hg : e.γ σ) {x : Var} (hx : x < 2 ^ 64)
    {v : Crab.Cst} {n : Int} (hn : Crab.Cst.mem n v) : (e.set x v).γ (upd σ x n) :=
  XDom.Env.set_sound cstLaws he hg hx trivial hn

theorem set_sound_same {e : Env} (he : e.Inv) {σ : State} (hg : e.γ σ) {x : Var} (hx : x < 2 ^ 64)
    {v : Crab.Cst} (hn : Crab.Cst.mem (σ x) v) : (e.set x v).γ σ :=
  XDom.Env.set_sound_same cstLaws he hg hx trivial hn

theorem isTop_mem {c : Crab.Cst} (h : c.isTop = true) (k : Int) : Crab.Cst.mem k c := by
  cases c <;> simp_all [Crab.Cst.isTop, Crab.Cst.mem]

/-! ### `eval`, `compute_residual` -/

theorem evalLoop_sound {e : Env} {σ : State} (hg : e.γ σ) : ∀ (ts : List (Var × Int)) (r : Crab.Cst) (acc : Int),
    Crab.Cst.mem acc r → Crab.Cst.mem (acc + Expr.evalTerms σ ts) (evalLoop e ts r) := by
  intro ts
  induction ts with
  | nil => intro r acc h; simpa [evalLoop, Expr.evalTerms] using h
  | cons p rest ih =>
    intro r acc h
    obtain ⟨v, c⟩ := p
    simp only [evalLoop]
    have h1 : Crab.Cst.mem (acc + c * σ v) (Crab.Cst.add r (Crab.Cst.mul (.val c) (e.get v))) :=
      C08.cst_add_sound _ _ _ _ h (C08.cst_mul_sound _ _ _ _ rfl (get_mem hg v))
    split
    · rename_i ht; exact isTop_mem ht _
    · have := ih _ _ h1
      simp only [Expr.evalTerms]
      have e1 : acc + (c * σ v + Expr.evalTerms σ rest) = acc + c * σ v + Expr.evalTerms σ rest := by omega
      rw [e1]; exact this

/-- `eval(expr)` contains the value of the expression -/
theorem eval_sound {e : Env} {σ : State} (hg : e.γ σ) (ex : Expr) : Crab.Cst.mem (ex.eval σ) (e.eval ex) := by
  have := evalLoop_sound hg ex.terms (.val ex.cst) ex.cst rfl
  unfold Expr.eval eval
  have e1 : Expr.evalTerms σ ex.terms + ex.cst = ex.cst + Expr.evalTerms σ ex.terms := by omega
  rw [e1]; exact this

theorem residualLoop_sound {e : Env} {σ : State} (hg : e.γ σ) (pivot : Var) :
    ∀ (ts : List (Var × Int)) (r : Crab.Cst) (acc : Int), Crab.Cst.mem acc r →
      Crab.Cst.mem (acc - IDom.restSum σ pivot ts) (residualLoop e pivot ts r) := by
  intro ts
  induction ts with
  | nil => intro r acc h; simpa [residualLoop, IDom.restSum] using h
  | cons p rest ih =>
    intro r acc h
    obtain ⟨v, c⟩ := p
    simp only [residualLoop, IDom.restSum]
    by_cases hv : v = pivot
    · simp only [hv, if_true]; exact ih r acc h
    · simp only [hv, if_false]
      have h1 : Crab.Cst.mem (acc - c * σ v) (Crab.Cst.sub r (Crab.Cst.mul (.val c) (e.get v))) :=
        C08.cst_sub_sound _ _ _ _ h (C08.cst_mul_sound _ _ _ _ rfl (get_mem hg v))
      split
      · rename_i ht; exact isTop_mem ht _
      · have := ih _ _ h1
        have e1 : acc - (c * σ v + IDom.restSum σ pivot rest) = acc - c * σ v - IDom.restSum σ pivot rest := by omega
        rw [e1]; exact this

/-- in a state that satisfies the equality, the pivot is the residual divided by its coefficient -/
theorem pivot_value {c : Lin.Cst} {σ : State} (hk : c.kind = .eq) (hsat : c.sat σ) (hs : c.expr.Sorted)
    {pivot : Var} {coef : Int} (hm : (pivot, coef) ∈ c.expr.terms) :
    c.constant - IDom.restSum σ pivot c.expr.terms = coef * σ pivot := by
  have h0 : c.expr.eval σ = 0 := by simpa [Lin.Cst.sat, hk] using hsat
  unfold Expr.eval at h0
  rw [IDom.evalTerms_split σ hs hm] at h0
  simp only [Lin.Cst.constant, Expr.constant]
  omega

end Env
end CDom
end Crab
