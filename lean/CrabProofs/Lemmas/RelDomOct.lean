import CrabModel.Dom.OctagonOps
import CrabProofs.Lemmas.RelDomMat
import CrabProofs.Lemmas.OctExact

/-!
  The operations of `CrabModel/Dom/OctagonOps.lean` on the canonical integer-octagon model, part 1:
  soundness of every statement, of the inclusion test and of the widening for ALL matrices
  (coherent or not).  Exactness under coherence is in `RelDomOct2.lean`.
-/
namespace Crab
namespace Octagon
open Dbm

variable {n : Nat}

/-! ### states -/

theorem updS_eq_of_agree {σ σ' : State n} {x : Fin n} (h : ∀ y, y ≠ x → σ' y = σ y) :
    updS σ x (σ' x) = σ' := by
  funext y; unfold updS; split
  · rename_i e; rw [e]
  · rename_i e; exact (h y e).symm

theorem pos_ne_neg (x : Fin n) : pos x ≠ neg x := by
  intro h; have := congrArg Fin.val h; simp [pos, neg] at this

theorem varOf_ne_of_ne {x : Fin n} {i : Fin (2 * n)} (h1 : i ≠ pos x) (h2 : i ≠ neg x) : varOf i ≠ x := by
  intro e
  have e' : varOf i = varOf (pos x) := by rw [varOf_pos]; exact e
  rcases lit_cases e' with h | h
  · exact h1 h
  · rw [bar_pos] at h; exact h2 h

/-! ### forget of several variables, project -/

theorem forget_sound' (o : Oct n) (x : Fin n) (σ σ' : State n) (h : γ o σ)
    (hσ : ∀ y, y ≠ x → σ' y = σ y) : γ (forget o x) σ' := by
  have := forget_sound o x σ (σ' x) h
  rwa [updS_eq_of_agree hσ] at this

theorem forgetAll_cons (o : Oct n) (x : Fin n) (xs : List (Fin n)) :
    forgetAll o (x :: xs) = forgetAll (forget o x) xs := rfl

theorem forgetAll_sound (xs : List (Fin n)) (o : Oct n) (σ σ' : State n) (h : γ o σ)
    (hσ : ∀ y, y ∉ xs → σ' y = σ y) : γ (forgetAll o xs) σ' := by
  induction xs generalizing o σ with
  | nil =>
    have : σ' = σ := funext fun y => hσ y (by simp)
    rw [this]; exact h
  | cons x xs ih =>
    rw [forgetAll_cons]
    apply ih (forget o x) (updS σ x (σ' x)) (forget_sound o x σ (σ' x) h)
    intro y hy
    unfold updS; split
    · rename_i e; rw [e]
    · rename_i e; exact hσ y (by simp [e, hy])

theorem not_mem_projList (keep : List (Fin n)) (y : Fin n) :
    y ∉ ((List.finRange n).filter fun x => !keep.contains x) ↔ y ∈ keep := by
  simp [List.mem_filter, List.mem_finRange]

theorem project_sound (keep : List (Fin n)) (o : Oct n) (σ σ' : State n) (h : γ o σ)
    (hσ : ∀ y, y ∈ keep → σ' y = σ y) : γ (project o keep) σ' :=
  forgetAll_sound _ o σ σ' h (fun y hy => hσ y ((not_mem_projList keep y).1 hy))

/-! ### translation and negation -/

theorem ext_shiftVec (σ' : State n) (x : Fin n) (k : Int) :
    (fun i => ext σ' i - shiftVec x k i) = ext (updS σ' x (σ' x - k)) := by
  funext i
  by_cases h1 : i = pos x
  · subst h1; simp [shiftVec, ext_pos, updS]
  · by_cases h2 : i = neg x
    · subst h2
      have := pos_ne_neg x
      simp [shiftVec, ext_neg, updS, this.symm]; omega
    · rw [ext_updS_of_ne _ _ _ _ (varOf_ne_of_ne h1 h2)]
      simp [shiftVec, h1, h2]

theorem swapLit_swapLit (x : Fin n) (i : Fin (2 * n)) : swapLit x (swapLit x i) = i := by
  unfold swapLit
  by_cases h : varOf i = x
  · simp [h, varOf_bar, bar_bar]
  · simp [h]

theorem swapLit_bar (x : Fin n) (i : Fin (2 * n)) : swapLit x (bar i) = bar (swapLit x i) := by
  unfold swapLit
  rw [varOf_bar]
  split <;> rfl

theorem ext_swapLit (σ' : State n) (x : Fin n) :
    (fun i => ext σ' (swapLit x i)) = ext (updS σ' x (-σ' x)) := by
  funext i
  unfold swapLit
  by_cases h : varOf i = x
  · simp only [h, if_true]
    rw [ext_bar]
    have e' : varOf i = varOf (pos x) := by rw [varOf_pos]; exact h
    rcases lit_cases e' with rfl | rfl
    · simp [ext_pos, updS]
    · rw [bar_pos]; simp [ext_neg, updS]
  · simp only [h, if_false]
    rw [ext_updS_of_ne _ _ _ _ h]

/-- `x := x + k` on the matrix: the states are translated -/
theorem shift_γ (o : Oct n) (x : Fin n) (k : Int) (σ' : State n) :
    γ (o.shiftBy (shiftVec x k)) σ' ↔ γ o (updS σ' x (σ' x - k)) := by
  unfold γ
  rw [Mat.shiftBy_sat, ext_shiftVec]

/-- `x := -x` on the matrix -/
theorem negate_γ (o : Oct n) (x : Fin n) (σ' : State n) :
    γ (negate o x) σ' ↔ γ o (updS σ' x (-σ' x)) := by
  unfold γ negate
  rw [Mat.permute_sat _ _ (swapLit_swapLit x), ext_swapLit]

/-! ### assignments (soundness) -/

theorem assignCst_sound (o : Oct n) (x : Fin n) (k : Int) (σ : State n) (h : γ o σ) :
    γ (assignCst o x k) (updS σ x k) := by
  unfold assignCst
  rw [assumeAll_exact]
  refine ⟨forget_sound o x σ k h, ?_⟩
  intro c hc
  simp only [List.mem_cons, List.not_mem_nil, or_false] at hc
  rcases hc with rfl | rfl <;> simp [Cst.sat, updS]

theorem assignVar_sound (o : Oct n) (x y : Fin n) (k : Int) (σ : State n) (h : γ o σ) :
    γ (assignVar o x y k) (updS σ x (σ y + k)) := by
  unfold assignVar
  split
  · rename_i e; subst e
    rw [shift_γ, updS_updS]
    have : updS σ x (updS σ x (σ x + k) x - k) = σ := by
      funext v; unfold updS; split
      · rename_i e; rw [e]; simp
      · rfl
    rw [this]; exact h
  · rename_i hne
    have hyx : y ≠ x := fun e => hne e.symm
    rw [assumeAll_exact]
    refine ⟨forget_sound o x σ _ h, ?_⟩
    intro c hc
    simp only [List.mem_cons, List.not_mem_nil, or_false] at hc
    rcases hc with rfl | rfl <;> simp [Cst.sat, updS, hyx] <;> omega

theorem assignNeg_sound (o : Oct n) (x y : Fin n) (k : Int) (σ : State n) (h : γ o σ) :
    γ (assignNeg o x y k) (updS σ x (-σ y + k)) := by
  unfold assignNeg
  split
  · rename_i e; subst e
    rw [shift_γ, negate_γ, updS_updS, updS_updS]
    have : updS σ x (-(updS σ x (-σ x + k) x - k)) = σ := by
      funext v; unfold updS; split
      · rename_i e; rw [e]; simp
      · rfl
    simp only [updS, if_true] at this ⊢
    rw [this]; exact h
  · rename_i hne
    have hyx : y ≠ x := fun e => hne e.symm
    rw [assumeAll_exact]
    refine ⟨forget_sound o x σ _ h, ?_⟩
    intro c hc
    simp only [List.mem_cons, List.not_mem_nil, or_false] at hc
    rcases hc with rfl | rfl <;> simp [Cst.sat, updS, hyx] <;> omega

/-- **every statement is sound** (no hypothesis on the matrix) -/
theorem Stmt.exec_sound (st : Stmt n) (o : Oct n) (σ σ' : State n) (h : γ o σ) (hr : st.rel σ σ') :
    γ (st.exec o) σ' := by
  cases st with
  | assume cs =>
    obtain ⟨rfl, hc⟩ := hr
    exact (assumeAll_exact o cs _).2 ⟨h, hc⟩
  | assignCst x k => simp only [Stmt.rel] at hr; subst hr; exact assignCst_sound o x k σ h
  | assignVar x y k => simp only [Stmt.rel] at hr; subst hr; exact assignVar_sound o x y k σ h
  | assignNeg x y k => simp only [Stmt.rel] at hr; subst hr; exact assignNeg_sound o x y k σ h
  | havoc x => exact forget_sound' o x σ σ' h hr
  | forget xs => exact forgetAll_sound xs o σ σ' h hr
  | project keep => exact project_sound keep o σ σ' h hr

/-! ### inclusion test, widening (soundness) -/

theorem leq_sound (a b : Oct n) (h : leq a b = true) (σ : State n) (hσ : γ a σ) : γ b σ := by
  unfold leq at h
  rw [Bool.or_eq_true] at h
  rcases h with h | h
  · exact absurd ⟨σ, hσ⟩ (bottom_sound a h)
  · intro i j k hk
    simp only [List.all_eq_true] at h
    have := h i (List.mem_finRange i) j (List.mem_finRange j)
    rw [W.le_iff, hk] at this
    exact entry_implied a i j k this σ hσ

theorem isTop_sound (o : Oct n) (h : isTop o = true) (σ : State n) : γ o σ :=
  leq_sound top o h σ (top_γ σ)

namespace OVal

theorem exec_sound (st : Stmt n) (v : OVal n) (σ σ' : State n) (h : γv v σ) (hr : st.rel σ σ') :
    γv (exec st v) σ' := by
  cases v with
  | none => exact h.elim
  | some o => exact Stmt.exec_sound st o σ σ' h hr

theorem isBottom_sound (v : OVal n) (h : isBottom v = true) (σ : State n) : ¬ γv v σ := by
  cases v with
  | none => exact fun h => h
  | some o => exact fun hσ => bottom_sound o h ⟨σ, hσ⟩

theorem isTop_sound (v : OVal n) (h : isTop v = true) (σ : State n) : γv v σ := by
  cases v with
  | none => cases h
  | some o => exact Octagon.isTop_sound o h σ

theorem leq_sound (a b : OVal n) (h : leq a b = true) (σ : State n) (hσ : γv a σ) : γv b σ := by
  cases a with
  | none => exact hσ.elim
  | some x =>
    cases b with
    | none => exact absurd ⟨σ, hσ⟩ (bottom_sound x h)
    | some y => exact Octagon.leq_sound x y h σ hσ

theorem join_upper (a b : OVal n) (σ : State n) (h : γv a σ ∨ γv b σ) : γv (join a b) σ := by
  cases a with
  | none =>
    rcases h with h | h
    · exact h.elim
    · simpa [join] using h
  | some x =>
    cases b with
    | none =>
      rcases h with h | h
      · exact h
      · exact h.elim
    | some y => exact Octagon.join_upper x y σ h

theorem meet_exact (a b : OVal n) (σ : State n) : γv (meet a b) σ ↔ (γv a σ ∧ γv b σ) := by
  cases a with
  | none => simp [meet, γv]
  | some x =>
    cases b with
    | none => simp [meet, γv]
    | some y => exact Octagon.meet_exact x y σ

/-- the widening contains both operands -/
theorem widen_upper (a b : OVal n) (σ : State n) (h : γv a σ ∨ γv b σ) : γv (widen a b) σ := by
  cases a with
  | none =>
    rcases h with h | h
    · exact h.elim
    · simpa [widen] using h
  | some l =>
    cases b with
    | none =>
      rcases h with h | h
      · exact h
      · exact h.elim
    | some r =>
      simp only [widen]
      split
      · rename_i hb
        rcases h with h | h
        · exact h
        · exact absurd ⟨σ, h⟩ (bottom_sound r hb)
      · rcases h with h | h
        · exact Mat.widenStd_sat_left _ _ _ h
        · exact Mat.widenStd_sat_right _ _ _ ((close_preserves_γ r σ).2 h)

end OVal

end Octagon
end Crab
