import CrabModel.Analysis.Checker
import CrabProofs.Lemmas.IRTrace

/-!
  Soundness of the model of the assertion checker (`CrabModel/Analysis/Checker.lean`) w.r.t. the
  executable semantics: decision rules, then the statement loop of a block.
-/
namespace Crab
namespace Analysis
open Crab.IR

variable {A : Type}

theorem checkAssert_safe (D : CheckDom A) (inv : A) (c : Cst) (σ : State)
    (h : checkAssert D inv c = .safe) (hγ : D.γ inv σ) : c.holds σ = true := by
  unfold checkAssert at h
  split at h
  · split at h
    · rename_i hb; exact absurd hγ (D.isBottom_sound inv σ hb)
    · cases h
  · split at h
    · cases h
    · split at h
      · rename_i he; exact D.entails_sound inv c σ he hγ
      · cases h

theorem checkAssert_unreachable (D : CheckDom A) (inv : A) (c : Cst) (σ : State)
    (h : checkAssert D inv c = .unreachable) : ¬ D.γ inv σ := by
  unfold checkAssert at h
  split at h
  · split at h <;> cases h
  · split at h
    · rename_i hb; exact D.isBottom_sound inv σ hb
    · split at h <;> cases h

theorem checkBoolAssert_safe (D : CheckDom A) (inv : A) (b : Nat) (σ : State)
    (h : checkBoolAssert D inv b = .safe) (hγ : D.γ inv σ) : σ.getb b = true := by
  unfold checkBoolAssert at h
  split at h
  · cases h
  · split at h
    · rename_i hb
      cases hv : σ.getb b with
      | true => rfl
      | false =>
        exact absurd (D.assumeBool_sound inv b true σ hγ (by simp [hv])) (D.isBottom_sound _ σ hb)
    · cases h

theorem checkBoolAssert_unreachable (D : CheckDom A) (inv : A) (b : Nat) (σ : State)
    (h : checkBoolAssert D inv b = .unreachable) : ¬ D.γ inv σ := by
  unfold checkBoolAssert at h
  split at h
  · rename_i hb; exact D.isBottom_sound inv σ hb
  · split at h <;> cases h

/-- verdict attached to the statement at the head of the loop -/
def headVerdict (D : CheckDom A) (s : Stmt) (a : A) (i : Nat) : List (Nat × CheckKind) :=
  match s with
  | .assert c => [(i, checkAssert D a c)]
  | .bassert b => [(i, checkBoolAssert D a b)]
  | _ => []

/-- invariant the loop continues with -/
def nextInv (D : CheckDom A) (tr : Stmt → A → A) (s : Stmt) (a : A) : A :=
  match s with
  | .assert c => if checkAssert D a c == .unreachable then a else tr s a
  | .bassert b => if checkBoolAssert D a b == .unreachable then a else tr s a
  | _ => tr s a

theorem checkStmts_cons (D : CheckDom A) (tr : Stmt → A → A) (i : Nat) (s : Stmt) (ss : List Stmt) (a : A) :
    checkStmts D tr i (s :: ss) a = headVerdict D s a i ++ checkStmts D tr (i + 1) ss (nextInv D tr s a) := by
  cases s <;> rfl

theorem checkStmts_index_ge (D : CheckDom A) (tr : Stmt → A → A) :
    ∀ (ss : List Stmt) (i : Nat) (a : A) (j : Nat) (v : CheckKind),
      (j, v) ∈ checkStmts D tr i ss a → i ≤ j := by
  intro ss
  induction ss with
  | nil => intro i a j v h; simp [checkStmts] at h
  | cons s ss ih =>
    intro i a j v h
    rw [checkStmts_cons] at h
    simp only [List.mem_append] at h
    rcases h with h | h
    · cases s <;> simp [headVerdict] at h <;> omega
    · have := ih _ _ _ _ h; omega

theorem headVerdict_sound (D : CheckDom A) (s : Stmt) (a : A) (i j : Nat) (v : CheckKind)
    (σ : State) (ch : Int) (hγ : D.γ a σ) (h : (j, v) ∈ headVerdict D s a i) :
    j = i ∧ v ≠ .unreachable ∧ (v = .safe → stepStmt s σ ch ≠ .fail) := by
  cases s <;> simp [headVerdict] at h
  case assert c =>
    obtain ⟨hj, hv⟩ := h
    refine ⟨hj, ?_, ?_⟩
    · intro hu; exact checkAssert_unreachable D a c σ (hv ▸ hu) hγ
    · intro hs
      have := checkAssert_safe D a c σ (hv ▸ hs) hγ
      simp [stepStmt, this]
  case bassert b =>
    obtain ⟨hj, hv⟩ := h
    refine ⟨hj, ?_, ?_⟩
    · intro hu; exact checkBoolAssert_unreachable D a b σ (hv ▸ hu) hγ
    · intro hs
      have := checkBoolAssert_safe D a b σ (hv ▸ hs) hγ
      simp [stepStmt, this]

theorem nextInv_sound (D : CheckDom A) (tr : Stmt → A → A) (htr : TrSound D tr) (s : Stmt) (a : A)
    (σ σ1 : State) (ch : Int) (hγ : D.γ a σ) (hs : stepStmt s σ ch = .next σ1) :
    D.γ (nextInv D tr s a) σ1 := by
  have ht := htr s a σ ch σ1 hγ hs
  cases s <;> try exact ht
  case assert c =>
    simp only [nextInv]
    split
    · rename_i hu
      exact absurd hγ (checkAssert_unreachable D a c σ (by simpa using hu))
    · exact ht
  case bassert b =>
    simp only [nextInv]
    split
    · rename_i hu
      exact absurd hγ (checkBoolAssert_unreachable D a b σ (by simpa using hu))
    · exact ht

/-- decomposition of the events of a non-empty statement list -/
theorem runStmts_cons_mem (b i : Nat) (s : Stmt) (ss : List Stmt) (σ : State) (ch : List Int) (e : Event)
    (h : e ∈ (runStmts b i (s :: ss) σ ch).events) :
    (e = Event.check b i σ
        (match stepStmt s σ (if s.usesChoice then popChoice ch else (0, ch)).1 with
         | .fail => false | _ => true)) ∨
    (∃ σ1, stepStmt s σ (if s.usesChoice then popChoice ch else (0, ch)).1 = .next σ1 ∧
        e ∈ (runStmts b (i + 1) ss σ1 (if s.usesChoice then popChoice ch else (0, ch)).2).events) := by
  unfold runStmts at h
  simp only at h
  split at h
  · rename_i σ1 hs
    simp only [List.mem_append] at h
    rcases h with h | h
    · split at h
      · simp only [List.mem_singleton] at h; exact Or.inl h
      · simp at h
    · exact Or.inr ⟨σ1, hs, h⟩
  · split at h
    · simp only [List.mem_singleton] at h; exact Or.inl h
    · simp at h

/-- the statement loop: every assert event of an execution of the block from a state of
    `γ a` is consistent with its verdict -/
theorem checkStmts_sound (D : CheckDom A) (tr : Stmt → A → A) (htr : TrSound D tr) (b : Nat) :
    ∀ (ss : List Stmt) (i : Nat) (a : A) (σ : State) (ch : List Int), D.γ a σ →
      ∀ (j : Nat) (σ' : State) (ok : Bool) (v : CheckKind),
        Event.check b j σ' ok ∈ (runStmts b i ss σ ch).events →
        (j, v) ∈ checkStmts D tr i ss a →
        v ≠ .unreachable ∧ (v = .safe → ok = true) := by
  intro ss
  induction ss with
  | nil => intro i a σ ch _ j σ' ok v h; simp [runStmts] at h
  | cons s ss ih =>
    intro i a σ ch hγ j σ' ok v hev hv
    rw [checkStmts_cons] at hv
    simp only [List.mem_append] at hv
    rcases runStmts_cons_mem b i s ss σ ch _ hev with he | ⟨σ1, hs, htail⟩
    · -- the event is the one of the head statement
      injection he with _ hj _ hok
      rcases hv with hv | hv
      · obtain ⟨_, hnu, hsafe⟩ := headVerdict_sound D s a i j v σ
          (if s.usesChoice then popChoice ch else (0, ch)).1 hγ hv
        refine ⟨hnu, fun hvs => ?_⟩
        have := hsafe hvs
        rw [hok]
        split
        · rename_i hf; exact absurd hf this
        · rfl
      · have := checkStmts_index_ge D tr _ _ _ _ _ hv; omega
    · rcases hv with hv | hv
      · obtain ⟨hj, _, _⟩ := headVerdict_sound D s a i j v σ 0 hγ hv
        obtain ⟨_, _, _, he, hle⟩ := runStmts_events_check b ss (i + 1) σ1 _ _ htail
        injection he with _ hj' _ _
        omega
      · exact ih (i + 1) _ σ1 _ (nextInv_sound D tr htr s a σ σ1 _ hγ hs) j σ' ok v htail hv

end Analysis
end Crab
