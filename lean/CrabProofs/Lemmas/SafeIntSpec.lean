import CrabModel.Num.SafeInt
import CrabProofs.Lemmas.ZSpecOps

/-! `safe_i64`: the 128-bit intermediate holds the exact result, the stored low 64 bits are the
    exact result whenever the flag is clear: an operation never wraps silently. -/
namespace Crab.SafeInt

theorem inRange_iff (x : Int) : inRange x = true ↔ (-(2 ^ 63) ≤ x ∧ x ≤ 2 ^ 63 - 1) := by
  unfold inRange min max
  rw [Bool.and_eq_true]
  exact ⟨fun h => ⟨of_decide_eq_true h.1, of_decide_eq_true h.2⟩,
    fun h => ⟨decide_eq_true h.1, decide_eq_true h.2⟩⟩

theorem wide_eq {x : Int} (h1 : -(2 ^ 127) ≤ x) (h2 : x < 2 ^ 127) : wide x = x := by
  unfold wide
  apply Int.bmod_eq_of_le <;> omega

theorem narrow_eq {x : Int} (h1 : -(2 ^ 63) ≤ x) (h2 : x ≤ 2 ^ 63 - 1) : narrow x = x := by
  unfold narrow
  apply Int.bmod_eq_of_le <;> omega

theorem flag_eq (x : Int) : flag x = !(inRange x) := by
  have h : flag x = true ↔ ¬ (inRange x = true) := by
    rw [inRange_iff]
    unfold flag max min
    rw [Bool.or_eq_true]
    constructor
    · rintro (h | h)
      · have := of_decide_eq_true h; omega
      · have := of_decide_eq_true h; omega
    · intro h
      by_cases h1 : x > 2 ^ 63 - 1
      · exact Or.inl (decide_eq_true h1)
      · exact Or.inr (decide_eq_true (by omega))
  cases hf : flag x <;> cases hi : inRange x <;> simp_all

/-- the shape shared by the four operators, for an exact result that fits 128 bits -/
theorem checked_spec (v r : Int) (h1 : -(2 ^ 127) ≤ v) (h2 : v < 2 ^ 127) :
    ((if flag (wide v) = true then none else some (narrow (wide v))) = some r) ↔
      (r = v ∧ inRange r = true) := by
  rw [wide_eq h1 h2, flag_eq]
  by_cases hr : inRange v = true
  · have hr' := (inRange_iff v).1 hr
    simp only [hr, Bool.not_true, Bool.false_eq_true, if_false, Option.some.injEq,
      narrow_eq hr'.1 hr'.2]
    constructor
    · intro h; subst h; exact ⟨rfl, hr⟩
    · intro h; exact h.1.symm
  · have hf : inRange v = false := by simpa using hr
    simp only [hf, Bool.not_false, if_true]
    constructor
    · intro h; cases h
    · rintro ⟨h, h'⟩; subst h; rw [hf] at h'; cases h'

theorem checked_none (v : Int) (h1 : -(2 ^ 127) ≤ v) (h2 : v < 2 ^ 127) :
    ((if flag (wide v) = true then none else some (narrow (wide v))) = none) ↔ inRange v = false := by
  rw [wide_eq h1 h2, flag_eq]
  cases inRange v <;> simp

theorem mul_bound {a b : Int} (ha : inRange a = true) (hb : inRange b = true) :
    -(2 ^ 127) ≤ a * b ∧ a * b < 2 ^ 127 := by
  have ha' := (inRange_iff a).1 ha
  have hb' := (inRange_iff b).1 hb
  have h1 : a.natAbs ≤ 2 ^ 63 := by omega
  have h2 : b.natAbs ≤ 2 ^ 63 := by omega
  have h3 : (a * b).natAbs ≤ 2 ^ 63 * 2 ^ 63 := by
    rw [Int.natAbs_mul]; exact Nat.mul_le_mul h1 h2
  have h4 : (2 : Nat) ^ 63 * 2 ^ 63 = 2 ^ 126 := by decide
  omega

theorem tdiv_bound {a : Int} (b : Int) (ha : inRange a = true) :
    -(2 ^ 127) ≤ a.tdiv b ∧ a.tdiv b < 2 ^ 127 := by
  have ha' := (inRange_iff a).1 ha
  have := Int.natAbs_tdiv_le_natAbs a b
  omega

theorem add_spec (a b r : Int) (ha : inRange a = true) (hb : inRange b = true) :
    add a b = some r ↔ (r = a + b ∧ inRange r = true) := by
  have ha' := (inRange_iff a).1 ha
  have hb' := (inRange_iff b).1 hb
  exact checked_spec (a + b) r (by omega) (by omega)

theorem sub_spec (a b r : Int) (ha : inRange a = true) (hb : inRange b = true) :
    sub a b = some r ↔ (r = a - b ∧ inRange r = true) := by
  have ha' := (inRange_iff a).1 ha
  have hb' := (inRange_iff b).1 hb
  exact checked_spec (a - b) r (by omega) (by omega)

theorem mul_spec (a b r : Int) (ha : inRange a = true) (hb : inRange b = true) :
    mul a b = some r ↔ (r = a * b ∧ inRange r = true) := by
  have := mul_bound ha hb
  exact checked_spec (a * b) r this.1 this.2

theorem div_spec (a b r : Int) (ha : inRange a = true) (hb0 : b ≠ 0) :
    div a b = .ok r ↔ (r = a.tdiv b ∧ inRange r = true) := by
  have := tdiv_bound b ha
  have key := checked_spec (a.tdiv b) r this.1 this.2
  unfold div
  rw [if_neg hb0]
  simp only [checkedDiv]
  rw [← key]
  by_cases hf : flag (wide (a.tdiv b)) = true
  · simp [hf]
  · simp [hf]

theorem neg_spec (a r : Int) (ha : inRange a = true) :
    neg a = some r ↔ (r = -a ∧ inRange r = true) := by
  have := sub_spec 0 a r (by decide) ha
  simpa [neg] using this

theorem add_none (a b : Int) (ha : inRange a = true) (hb : inRange b = true) :
    add a b = none ↔ inRange (a + b) = false := by
  have ha' := (inRange_iff a).1 ha
  have hb' := (inRange_iff b).1 hb
  exact checked_none (a + b) (by omega) (by omega)

theorem sub_none (a b : Int) (ha : inRange a = true) (hb : inRange b = true) :
    sub a b = none ↔ inRange (a - b) = false := by
  have ha' := (inRange_iff a).1 ha
  have hb' := (inRange_iff b).1 hb
  exact checked_none (a - b) (by omega) (by omega)

theorem mul_none (a b : Int) (ha : inRange a = true) (hb : inRange b = true) :
    mul a b = none ↔ inRange (a * b) = false := by
  have := mul_bound ha hb
  exact checked_none (a * b) this.1 this.2

theorem div_err (a b : Int) (ha : inRange a = true) (hb0 : b ≠ 0) :
    div a b = .err ↔ inRange (a.tdiv b) = false := by
  have := tdiv_bound b ha
  have key := checked_none (a.tdiv b) this.1 this.2
  unfold div
  rw [if_neg hb0]
  simp only [checkedDiv]
  rw [← key]
  by_cases hf : flag (wide (a.tdiv b)) = true
  · simp [hf]
  · simp [hf]

/-- construction from a big number: the value itself exactly when it fits -/
theorem ofZ_spec (n r : Int) : ofZ n = some r ↔ (r = n ∧ inRange r = true) := by
  unfold ofZ
  rw [ZNum.Spec.toInt64?_eq]
  by_cases h : ZNum.fitsInt64 n = true
  · have h' := (ZNum.Spec.fitsInt64_iff n).1 h
    rw [if_pos h]
    constructor
    · intro e; cases e; exact ⟨rfl, (inRange_iff n).2 h'⟩
    · rintro ⟨e, _⟩; rw [e]
  · rw [if_neg h]
    constructor
    · intro e; cases e
    · rintro ⟨e, hr⟩
      subst e
      exact absurd ((ZNum.Spec.fitsInt64_iff r).2 ((inRange_iff r).1 hr)) h

end Crab.SafeInt
