import CrabProofs.Lemmas.AbsTransformerBlock
import CrabProofs.Lemmas.IDomInst
import CrabProofs.Lemmas.LinExpr

/-!
  `ikos::interval_domain<z_number, VariableName>` (exact model `Crab.IDom`, values with the map
  invariant `IDom.SEnv`) as an `NDom` over the states of CrabIR programs.

  * variables: the integer variable `x` of the IR is the domain variable `2x`, the boolean
    variable `b` is `2b+1` (any injection would do: the domain only sees `variable_t::index()`);
    a state is read as the valuation `view σ` (booleans as `0` / `1`);
  * every method is ONE call of the model (`IDom.Stmt.execS` of the corresponding statement,
    `Env.forget` for `operator-=`); the boolean methods are the ones of the macro
    `BOOL_OPERATIONS_NOT_IMPLEMENTED` (include/crab/domains/abstract_domain_macros.def):
    `operator-=(lhs)` for the four assignments, nothing for `assume_bool`;
  * `ItvN.laws` : all the method laws `NDom.Laws`, from the theorems behind Props/C03Itv.lean;
    `ItvN.latLaws` : the laws of the lattice operations.
-/
namespace Crab
namespace Analysis
namespace ItvN
open Crab.IDom

/-- `variable_t::index()` -/
def enc : AVar → Lin.Var
  | .int x => 2 * x
  | .bool b => 2 * b + 1

/-- the valuation of the domain variables a program state stands for -/
def view (σ : IR.State) : IDom.State :=
  fun v => if v % 2 = 0 then σ.geti (v / 2) else (if σ.getb (v / 2) then 1 else 0)

/-- the `linear_expression_t` of an IR expression, built as the harness builds it:
    `e = c; e = e + k * v` for every term in order -/
def linExpr (e : IR.Lin) : Lin.Expr :=
  e.ts.foldl (fun acc t => Lin.Expr.add acc (Lin.Expr.term t.1 (2 * t.2))) (Lin.Expr.const e.c)

def cstKind : IR.CKind → Lin.Kind
  | .le => .leq | .lt => .lt | .eq => .eq | .ne => .neq

def cstLin (c : IR.Cst) : Lin.Cst := ⟨linExpr c.e, cstKind c.k⟩

def arithOp : ArithOp → IDom.ArithOp
  | .add => .add | .sub => .sub | .mul => .mul | .sdiv => .sdiv
  | .udiv => .udiv | .srem => .srem | .urem => .urem

def bitOp : BitwiseOp → IDom.BitOp
  | .and => .and | .or => .or | .xor => .xor | .shl => .shl | .lshr => .lshr | .ashr => .ashr

/-- `operator-=(v)` -/
def forget (a : SEnv) (v : Lin.Var) : SEnv := ⟨a.1.forget v, Env.forget_sorted _ _ a.2⟩

/-- the interval domain -/
def dom : NDom SEnv where
  γ := fun a σ => a.γ (view σ)
  isBottom := fun a => a.1.isBottom
  isTop := fun a => a.1.isTop
  setToBottom := fun _ => SEnv.bot
  applyArithVar := fun a op x y z => (IDom.Stmt.arithVar (arithOp op) (2 * x) (2 * y) (2 * z)).execS a
  applyArithCst := fun a op x y k => (IDom.Stmt.arithCst (arithOp op) (2 * x) (2 * y) k).execS a
  applyBitVar := fun a op x y z => (IDom.Stmt.bitVar (bitOp op) (2 * x) (2 * y) (2 * z)).execS a
  applyBitCst := fun a op x y k => (IDom.Stmt.bitCst (bitOp op) (2 * x) (2 * y) k).execS a
  assign := fun a x e => (IDom.Stmt.assign (2 * x) (linExpr e)).execS a
  addCst := fun a c => (IDom.Stmt.assume [cstLin c]).execS a
  select := fun a x c e1 e2 => (IDom.Stmt.select (2 * x) (cstLin c) (linExpr e1) (linExpr e2)).execS a
  forget := fun a v => forget a (enc v)
  forgetAll := fun a vs => (IDom.Stmt.havoc (vs.map enc)).execS a
  intCast := fun a op dst src bw =>
    (IDom.Stmt.cast (decide (op = .zext)) bw (2 * dst) (2 * src)).execS a
  assignBoolCst := fun a b _ => forget a (enc (.bool b))
  assignBoolVar := fun a b _ _ => forget a (enc (.bool b))
  applyBinaryBool := fun a _ b _ _ => forget a (enc (.bool b))
  assumeBool := fun a _ _ => a
  selectBool := fun a b _ _ _ => forget a (enc (.bool b))

/-! ### states -/

theorem geti_seti (σ : IR.State) (x y : Nat) (v : Int) (hx : x < σ.iv.size) :
    (σ.seti x v).geti y = if y = x then v else σ.geti y := by
  simp only [IR.State.geti, IR.State.seti, Array.getD_eq_getD_getElem?, Array.getElem?_setIfInBounds]
  by_cases h : y = x
  · subst h; simp [hx]
  · have : ¬ x = y := fun e => h e.symm
    simp [h, this]

theorem getb_setb (σ : IR.State) (b c : Nat) (v : Bool) (hb : b < σ.bv.size) :
    (σ.setb b v).getb c = if c = b then v else σ.getb c := by
  simp only [IR.State.getb, IR.State.setb, Array.getD_eq_getD_getElem?, Array.getElem?_setIfInBounds]
  by_cases h : c = b
  · subst h; simp [hb]
  · have : ¬ b = c := fun e => h e.symm
    simp [h, this]

theorem view_int (σ : IR.State) (x : Nat) : view σ (2 * x) = σ.geti x := by
  have h1 : 2 * x % 2 = 0 := by omega
  have h2 : 2 * x / 2 = x := by omega
  simp [view, h2]

theorem view_bool (σ : IR.State) (b : Nat) : view σ (2 * b + 1) = if σ.getb b then 1 else 0 := by
  have h2 : (2 * b + 1) / 2 = b := by omega
  simp [view, h2]

theorem view_seti (σ : IR.State) (x : Nat) (v : Int) (hx : x < σ.iv.size) :
    view (σ.seti x v) = upd (view σ) (2 * x) v := by
  have key : ∀ w : Nat, view (σ.seti x v) w = upd (view σ) (2 * x) v w := by
    intro w
    unfold view upd
    by_cases hw : w % 2 = 0
    · simp only [hw, if_true]
      rw [geti_seti σ x (w / 2) v hx]
      by_cases h : w / 2 = x
      · have : w = 2 * x := by omega
        simp [this]
      · have : ¬ w = 2 * x := by omega
        simp [h, this]
    · have : ¬ w = 2 * x := by omega
      simp only [hw, if_false, this]
      rfl
  exact funext key

theorem view_setb (σ : IR.State) (b : Nat) (v : Bool) (hb : b < σ.bv.size) :
    view (σ.setb b v) = upd (view σ) (2 * b + 1) (if v then 1 else 0) := by
  have key : ∀ w : Nat, view (σ.setb b v) w = upd (view σ) (2 * b + 1) (if v then 1 else 0) w := by
    intro w
    unfold view upd
    by_cases hw : w % 2 = 0
    · have : ¬ w = 2 * b + 1 := by omega
      simp only [hw, if_true, this, if_false]
      rfl
    · simp only [hw, if_false]
      rw [getb_setb σ b (w / 2) v hb]
      by_cases h : w / 2 = b
      · have h2 : w = 2 * b + 1 := by omega
        have h3 : (2 * b + 1) / 2 = b := by omega
        simp [h2, h3]
      · have : ¬ w = 2 * b + 1 := by omega
        simp [h, this]
  exact funext key

/-! ### expressions and constraints -/

theorem eval_term (k : Int) (x : Lin.Var) (τ : IDom.State) : (Lin.Expr.term k x).eval τ = k * τ x := by
  unfold Lin.Expr.term
  split
  · rename_i h; simp [Lin.Expr.eval, Lin.Expr.evalTerms, h]
  · simp [Lin.Expr.eval, Lin.Expr.evalTerms]

theorem linExpr_fold_eval (σ : IR.State) (ts : List (Int × Nat)) (acc : Lin.Expr) (n : Int)
    (h : acc.eval (view σ) = n) :
    (ts.foldl (fun acc t => Lin.Expr.add acc (Lin.Expr.term t.1 (2 * t.2))) acc).eval (view σ) =
      ts.foldl (fun a t => a + t.1 * σ.geti t.2) n := by
  induction ts generalizing acc n with
  | nil => exact h
  | cons t ts ih =>
    simp only [List.foldl_cons]
    apply ih
    rw [Lin.Expr.eval_add, eval_term, view_int, h]

theorem linExpr_eval (e : IR.Lin) (σ : IR.State) : (linExpr e).eval (view σ) = e.eval σ := by
  unfold linExpr IR.Lin.eval
  apply linExpr_fold_eval
  simp [Lin.Expr.eval, Lin.Expr.const, Lin.Expr.evalTerms]

theorem linExpr_canonical (e : IR.Lin) : (linExpr e).Canonical := by
  unfold linExpr
  have : ∀ (ts : List (Int × Nat)) (acc : Lin.Expr), acc.Canonical →
      (ts.foldl (fun acc t => Lin.Expr.add acc (Lin.Expr.term t.1 (2 * t.2))) acc).Canonical := by
    intro ts
    induction ts with
    | nil => intro acc h; exact h
    | cons t ts ih =>
      intro acc h
      exact ih _ ⟨Lin.Expr.sorted_add _ h.1, Lin.Expr.noZero_add _ h.2⟩
  exact this _ _ ⟨Lin.Expr.sorted_const _, Lin.Expr.noZero_const _⟩

theorem cstLin_sat (c : IR.Cst) (σ : IR.State) : (cstLin c).sat (view σ) ↔ c.holds σ = true := by
  unfold cstLin Lin.Cst.sat IR.Cst.holds
  cases hk : c.k <;> simp [cstKind, linExpr_eval]

theorem cstLin_canonical (c : IR.Cst) : (cstLin c).expr.Canonical := linExpr_canonical c.e

/-! ### operations -/

theorem arith_conc {op : ArithOp} {a b v : Int} (h : IR.evalBin op.toBin a b = .val v) :
    (arithOp op).conc a b = some v := by
  cases op <;> simp only [ArithOp.toBin, IR.evalBin] at h <;> simp only [arithOp, IDom.ArithOp.conc]
  · cases h; rfl
  · cases h; rfl
  · cases h; rfl
  · split at h
    · cases h
    · rename_i hb; cases h; rw [if_neg hb]
  · split at h
    · cases h
    · rename_i hn
      split at h
      · cases h
      · rename_i hb; cases h; rw [if_pos (by omega)]
  · split at h
    · cases h
    · rename_i hb; cases h; rw [if_neg hb]
  · split at h
    · cases h
    · rename_i hn
      split at h
      · cases h
      · rename_i hb; cases h; rw [if_pos (by omega)]

theorem bit_conc {op : BitwiseOp} {a b v : Int} (h : IR.evalBin op.toBin a b = .val v) :
    (bitOp op).conc64 a b = some v := by
  have h64 : (64 : Int) < 2 ^ 64 := by decide
  have hsm : IR.shiftMax = 64 := rfl
  cases op <;> simp only [BitwiseOp.toBin, IR.evalBin] at h
  · cases h; simp [bitOp, IDom.BitOp.conc64, IDom.BitOp.conc]
  · cases h; simp [bitOp, IDom.BitOp.conc64, IDom.BitOp.conc]
  · cases h; simp [bitOp, IDom.BitOp.conc64, IDom.BitOp.conc]
  · by_cases hc : b < 0 ∨ b > IR.shiftMax
    · rw [if_pos hc] at h; cases h
    · rw [if_neg hc] at h; cases h; rw [hsm] at hc
      have hb0 : 0 ≤ b := by omega
      simp [bitOp, IDom.BitOp.conc64, IDom.BitOp.conc, hb0]
  · by_cases hc : a < 0 ∨ b < 0 ∨ b > IR.shiftMax
    · rw [if_pos hc] at h; cases h
    · rw [if_neg hc] at h; cases h; rw [hsm] at hc
      have hb0 : 0 ≤ b := by omega
      simp [bitOp, IDom.BitOp.conc64, IDom.BitOp.conc, hb0]
      omega
  · by_cases hc : b < 0 ∨ b > IR.shiftMax
    · rw [if_pos hc] at h; cases h
    · rw [if_neg hc] at h; cases h; rw [hsm] at hc
      have hb0 : 0 ≤ b := by omega
      simp [bitOp, IDom.BitOp.conc64, IDom.BitOp.conc, hb0]

end ItvN
end Analysis
end Crab
