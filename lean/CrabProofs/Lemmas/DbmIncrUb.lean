import CrabProofs.Lemmas.DbmIncrCOE

/-!
  From the facts established by the loops of `close_over_edge` (`COEFacts`) to the upper bounds of
  the result: every edge among variables is at most `min(old, (s → ii) + c + (jj → d))`
  (`COEFacts.var_ub`), and under `zones.close_bounds_inline` every bound is at most the bound
  through the new edge (`COEFacts.out_ub`, `COEFacts.in_ub`).
  The hypotheses are on the graph `G` at the entry of `close_over_edge` (closed before the edge
  `ii → jj` of weight `c` was added, so closed except through that edge).
-/
namespace Crab
namespace DbmIncr
open Dbm Zones

variable {n : Nat}
variable {inl : Bool} {G Tf Tv : Zone n} {ii jj : Fin (n + 1)} {c : Int} {r : Zone n}
  {S1 S2 : List (Fin (n + 1) × Int)}

/-- the edges among variables are closed, except through the new edge -/
def VarClosedExcept (G : Zone n) (ii jj : Fin (n + 1)) : Prop :=
  ∀ a k b, a ≠ 0 → k ≠ 0 → b ≠ 0 → a ≠ b → ¬ (a = ii ∧ k = jj) → ¬ (k = ii ∧ b = jj) →
    W.LE (edge G a b) (W.add (edge G a k) (edge G k b))

/-- the bounds are closed, except through the new edge -/
structure BndClosedExcept (G : Zone n) (ii jj : Fin (n + 1)) : Prop where
  out : ∀ k b, k ≠ 0 → b ≠ 0 → ¬ (k = ii ∧ b = jj) →
    W.LE (edge G 0 b) (W.add (edge G 0 k) (edge G k b))
  into : ∀ a k, a ≠ 0 → k ≠ 0 → ¬ (a = ii ∧ k = jj) →
    W.LE (edge G a 0) (W.add (edge G a k) (edge G k 0))

theorem COEFacts.var_ub (f : COEFacts inl G Tf Tv ii jj c r S1 S2) (hi : ii ≠ 0) (hj : jj ≠ 0)
    (hij : ii ≠ jj) (hc : edge G ii jj = some c) (hV : VarClosedExcept G ii jj)
    (hn : ∀ x, edge G jj ii = some x → 0 ≤ x + c)
    {s d : Fin (n + 1)} (hs : s ≠ 0) (hd : d ≠ 0) (hsd : s ≠ d) {x y : Int}
    (hx : (if s = ii then some 0 else edge G s ii) = some x)
    (hy : (if d = jj then some 0 else edge G jj d) = some y) :
    W.LE (edge r s d) (some (x + c + y)) := by
  have dec := f.snd.dec
  by_cases hsi : s = ii
  · subst hsi
    simp only [if_true] at hx; cases hx
    by_cases hdj : d = jj
    · subst hdj
      simp only [if_true] at hy; cases hy
      have := dec s d; rw [hc] at this; simpa using this
    · simp only [hdj, if_false] at hy
      rcases f.p2 d y hd (fun e => hsd e.symm) hdj hy with hm | hm
      · have := f.ubJ2 _ hm
        simp only at this
        have e : 0 + c + y = y + c := by omega
        rw [e]; exact this
      · have e : 0 + c + y = y + c := by omega
        rw [e]; exact W.LE_trans (dec _ _) hm
  · simp only [hsi, if_false] at hx
    by_cases hdj : d = jj
    · subst hdj
      simp only [if_true] at hy; cases hy
      rcases f.p1 s x hs hsi hsd hx with hm | hm
      · have := f.ubJ1 _ hm
        simp only at this
        have e : x + c + 0 = x + c := by omega
        rw [e]; exact this
      · have e : x + c + 0 = x + c := by omega
        rw [e]; exact W.LE_trans (dec _ _) hm
    · simp only [hdj, if_false] at hy
      by_cases hsj : s = jj
      · subst hsj
        have := hn x hx
        have h1 := dec s d
        rw [hy] at h1
        exact W.LE_trans h1 (by simp; omega)
      by_cases hdi : d = ii
      · subst hdi
        have := hn y hy
        have h1 := dec s d
        rw [hx] at h1
        exact W.LE_trans h1 (by simp; omega)
      rcases f.p1 s x hs hsi hsj hx with hm1 | hm1
      · rcases f.p2 d y hd hdi hdj hy with hm2 | hm2
        · have := f.p3 _ hm1 _ hm2 hsd
          simp only at this
          have e : x + c + y = c + x + y := by omega
          rw [e]; exact this
        · -- `ii → d` was short enough: `s → ii → d`
          have t := hV s ii d hs hi hd hsd (fun e => hij e.2) (fun e => hdj e.2)
          rw [hx] at t
          rcases hz : edge G ii d with _ | z
          · rw [hz] at hm2; simp at hm2
          · rw [hz] at hm2 t
            simp at hm2 t
            exact W.LE_trans (dec _ _) (W.LE_trans t (by simp; omega))
      · -- `s → jj` was short enough: `s → jj → d`
        have t := hV s jj d hs hj hd hsd (fun e => hsi e.1) (fun e => hij e.1.symm)
        rw [hy] at t
        rcases hz : edge G s jj with _ | z
        · rw [hz] at hm1; simp at hm1
        · rw [hz] at hm1 t
          simp at hm1 t
          exact W.LE_trans (dec _ _) (W.LE_trans t (by simp; omega))

/-- upper bounds `0 → d` under `close_bounds_inline` -/
theorem COEFacts.out_ub (f : COEFacts true G Tf Tv ii jj c r S1 S2) (hi : ii ≠ 0)
    (hB : BndClosedExcept G ii jj) (hn : ∀ x, edge G jj ii = some x → 0 ≤ x + c)
    (hn0 : ∀ x y, edge G 0 ii = some x → edge G jj 0 = some y → 0 ≤ x + c + y)
    {d : Fin (n + 1)} (hd : d ≠ 0) {x y : Int} (hx : edge G 0 ii = some x)
    (hy : (if d = jj then some 0
           else W.min (edge G jj d) (W.add (edge G jj 0) (edge G 0 d))) = some y) :
    W.LE (edge r 0 d) (some (x + c + y)) := by
  have dec := f.snd.dec
  by_cases hdj : d = jj
  · subst hdj
    simp only [if_true] at hy; cases hy
    have := f.ub0 rfl x hx
    have e : x + c + 0 = x + c := by omega
    rw [e]; exact this
  simp only [hdj, if_false] at hy
  rcases W.min_eq_or (edge G jj d) (W.add (edge G jj 0) (edge G 0 d)) with he | he
  · rw [he] at hy
    by_cases hdi : d = ii
    · subst hdi
      have := hn y hy
      have h1 := dec 0 d
      rw [hx] at h1
      exact W.LE_trans h1 (by simp; omega)
    rcases f.p2 d y hd hdi hdj hy with hm | hm
    · have := f.ubS2 rfl _ hm x hx
      simp only at this
      have e : x + c + y = x + (y + c) := by omega
      rw [e]; exact this
    · have t := hB.out ii d hi hd (fun e => hdj e.2)
      rw [hx] at t
      rcases hz : edge G ii d with _ | z
      · rw [hz] at hm; simp at hm
      · rw [hz] at hm t
        simp at hm t
        exact W.LE_trans (dec _ _) (W.LE_trans t (by simp; omega))
  · rw [he] at hy
    obtain ⟨y1, y2, h1, h2, rfl⟩ := W.add_some_iff.1 hy
    have := hn0 x y1 hx h1
    have h3 := dec 0 d
    rw [h2] at h3
    exact W.LE_trans h3 (by simp; omega)

/-- upper bounds `s → 0` under `close_bounds_inline` -/
theorem COEFacts.in_ub (f : COEFacts true G Tf Tv ii jj c r S1 S2) (hj : jj ≠ 0)
    (hB : BndClosedExcept G ii jj) (hn : ∀ x, edge G jj ii = some x → 0 ≤ x + c)
    (hn0 : ∀ x y, edge G 0 ii = some x → edge G jj 0 = some y → 0 ≤ x + c + y)
    {s : Fin (n + 1)} (hs : s ≠ 0) {x y : Int}
    (hx : (if s = ii then some 0
           else W.min (edge G s ii) (W.add (edge G s 0) (edge G 0 ii))) = some x)
    (hy : edge G jj 0 = some y) :
    W.LE (edge r s 0) (some (x + c + y)) := by
  have dec := f.snd.dec
  by_cases hsi : s = ii
  · subst hsi
    simp only [if_true] at hx; cases hx
    have := f.ub0' rfl y hy
    have e : 0 + c + y = y + c := by omega
    rw [e]; exact this
  simp only [hsi, if_false] at hx
  rcases W.min_eq_or (edge G s ii) (W.add (edge G s 0) (edge G 0 ii)) with he | he
  · rw [he] at hx
    by_cases hsj : s = jj
    · subst hsj
      have := hn x hx
      have h1 := dec s 0
      rw [hy] at h1
      exact W.LE_trans h1 (by simp; omega)
    rcases f.p1 s x hs hsi hsj hx with hm | hm
    · have := f.ubS1 rfl _ hm y hy
      simp only at this
      have e : x + c + y = y + (x + c) := by omega
      rw [e]; exact this
    · have t := hB.into s jj hs hj (fun e => hsi e.1)
      rw [hy] at t
      rcases hz : edge G s jj with _ | z
      · rw [hz] at hm; simp at hm
      · rw [hz] at hm t
        simp at hm t
        exact W.LE_trans (dec _ _) (W.LE_trans t (by simp; omega))
  · rw [he] at hx
    obtain ⟨x1, x2, h1, h2, rfl⟩ := W.add_some_iff.1 hx
    have := hn0 x2 y h2 hy
    have h3 := dec s 0
    rw [h1] at h3
    exact W.LE_trans h3 (by simp; omega)

end DbmIncr
end Crab
