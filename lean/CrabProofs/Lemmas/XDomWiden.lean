import CrabProofs.Lemmas.XDomLattice

/-!
  Chain condition of the widening of a `separate_domain`-based domain (`Crab.XDom.Env`): a
  widening step `x ∇ y` with `y` not below `x` strictly decreases the measure
  (bottom flag, Σ over the bindings of `1 + rank`, Σ over the bindings of the second component
  of the scalar measure), lexicographically.  The widening only keeps keys of its left argument
  (keys bound on one side only are dropped, a top result is not stored), and a Patricia tree has
  finitely many bindings, so no bound on the set of variables is needed.
-/
set_option linter.unusedSectionVars false

namespace Crab
namespace XDom
open Patricia Patricia.Tree Lin SepDom

/-- lexicographic order on pairs of natural numbers, in the form `omega` handles -/
def LexLe (p q : Nat × Nat) : Prop := p.1 < q.1 ∨ (p.1 = q.1 ∧ p.2 ≤ q.2)
def LexLt (p q : Nat × Nat) : Prop := p.1 < q.1 ∨ (p.1 = q.1 ∧ p.2 < q.2)

theorem LexLt.toLex {p q : Nat × Nat} (h : LexLt p q) : Prod.Lex (· < ·) (· < ·) p q := by
  obtain ⟨p1, p2⟩ := p; obtain ⟨q1, q2⟩ := q
  rcases h with h | ⟨h1, h2⟩
  · exact Prod.Lex.left _ _ h
  · simp only at h1 h2; subst h1; exact Prod.Lex.right _ h2

theorem LexLt.ofLex {p q : Nat × Nat} (h : Prod.Lex (· < ·) (· < ·) p q) : LexLt p q := by
  cases h with
  | left _ _ h => exact Or.inl h
  | right _ h => exact Or.inr ⟨rfl, h⟩

/-- componentwise sum of a pair-valued function over a list -/
def psum {α : Type} (f : α → Nat × Nat) (l : List α) : Nat × Nat :=
  ((l.map (fun p => (f p).1)).sum, (l.map (fun p => (f p).2)).sum)

theorem psum_le {α : Type} (f g : α → Nat × Nat) : ∀ (l : List α), (∀ p ∈ l, LexLe (g p) (f p)) →
    LexLe (psum g l) (psum f l) := by
  intro l
  induction l with
  | nil => intro _; right; exact ⟨rfl, Nat.le_refl _⟩
  | cons q rest ih =>
    intro h
    have hq := h q List.mem_cons_self
    have hr := ih (fun p hp => h p (List.mem_cons_of_mem _ hp))
    unfold psum LexLe at *
    simp only [List.map_cons, List.sum_cons] at *
    omega

theorem psum_lt {α : Type} (f g : α → Nat × Nat) : ∀ (l : List α), (∀ p ∈ l, LexLe (g p) (f p)) →
    (∃ p ∈ l, LexLt (g p) (f p)) → LexLt (psum g l) (psum f l) := by
  intro l
  induction l with
  | nil => intro _ ⟨p, hp, _⟩; simp at hp
  | cons q rest ih =>
    intro h ⟨p, hp, hlt⟩
    have hq := h q List.mem_cons_self
    have hrest := fun p hp => h p (List.mem_cons_of_mem _ hp)
    have hr := psum_le f g rest hrest
    rcases List.mem_cons.1 hp with e | e
    · subst e
      unfold psum LexLe LexLt at *
      simp only [List.map_cons, List.sum_cons] at *
      omega
    · have hs := ih hrest ⟨p, e, hlt⟩
      unfold psum LexLe LexLt at *
      simp only [List.map_cons, List.sum_cons] at *
      omega

theorem sum_filterMap {α β : Type} (φ : α → Option β) (h : β → Nat) : ∀ l : List α,
    ((l.filterMap φ).map h).sum = (l.map (fun p => match φ p with | some q => h q | none => 0)).sum := by
  intro l
  induction l with
  | nil => rfl
  | cons p rest ih =>
    simp only [List.filterMap_cons, List.map_cons, List.sum_cons]
    cases hp : φ p with
    | none => simp only [ih]; omega
    | some q => simp only [List.map_cons, List.sum_cons, ih]

variable {V : Type} [GoodVal V] {L : Lattice V} {mem : Int → V → Prop}

/-- what the chain condition needs of the scalar widening `w` and a scalar measure `μ`: on stored
    values the measure never increases, and it decreases (or the result is top, which is not
    stored) when the right argument is not below the left one -/
structure WidenMeasure (L : Lattice V) (w : V → V → V) (μ : V → Nat × Nat) : Prop where
  le : ∀ a b, Stored L a → Stored L b → LexLe (μ (w a b)) (μ a)
  lt : ∀ a b, Stored L a → Stored L b → L.leq b a = false →
    L.isTop (w a b) = true ∨ LexLt (μ (w a b)) (μ a)

namespace Env

/-- contribution of a binding -/
def contrib (μ : V → Nat × Nat) (p : Nat × V) : Nat × Nat := (1 + (μ p.2).1, (μ p.2).2)

/-- the measure of an environment: bottom first, then the sums over the bindings -/
def wmeas (μ : V → Nat × Nat) (e : Env V) : Nat × (Nat × Nat) :=
  (if e.isBot then 1 else 0, psum (contrib μ) e.tree.toList)

theorem toList_pairwise {P : V → Prop} {t : Tree V} (h : WF P t) :
    t.toList.Pairwise (fun a b => a.1 < b.1) := by
  have := h.keys_sorted
  unfold Tree.keys at this
  exact List.pairwise_map.mp this

theorem nodup_of_pairwise_key {l : List (Nat × V)} (h : l.Pairwise (fun a b => a.1 < b.1)) : l.Nodup := by
  unfold List.Nodup
  exact h.imp (fun {a b} hab e => by rw [e] at hab; exact Nat.lt_irrefl _ hab)

/-- the image of a binding of the left argument in the result of an upper-bound operation -/
def upperImg (L : Lattice V) (w : V → V → V) (y : Env V) (p : Nat × V) : Option (Nat × V) :=
  match y.tree.lookup p.1 with
  | some b => if L.isTop (w p.2 b) then none else some (p.1, w p.2 b)
  | none => none

/-- the bindings of `x ∇ y` are the images of the bindings of `x`, up to a permutation -/
theorem upper_toList_perm (hL : Laws L mem) {w : V → V → V} (hf : UpperLaws L mem w) {x y : Env V}
    (hx : Inv L x) (hy : Inv L y) (nx : x.isBot = false) (ny : y.isBot = false) :
    (SepDom.upper (ctxOf L) L w x y).tree.toList.Perm (x.tree.toList.filterMap (upperImg L w y)) := by
  obtain ⟨hR, _, hl⟩ := upper_spec (L := L) (f := w) (ctx_sound hL)
    (fun a b ha hb ht => ⟨hf.nonbot a b ha hb, ht, hf.good a b ha hb⟩) hf.idem (fun a ha => ha.2.1) hx hy nx ny
  rw [List.perm_ext_iff_of_nodup (nodup_of_pairwise_key (toList_pairwise hR.1))]
  · intro q
    obtain ⟨k, v⟩ := q
    rw [mem_toList_iff_lookup hR.1, hl k, List.mem_filterMap]
    constructor
    · intro h
      cases l1 : x.tree.lookup k with
      | none => rw [l1] at h; simp at h
      | some a =>
        cases l2 : y.tree.lookup k with
        | none => rw [l1, l2] at h; simp at h
        | some b =>
          rw [l1, l2] at h
          simp only at h
          refine ⟨(k, a), (mem_toList_iff_lookup hx.1).mpr l1, ?_⟩
          unfold upperImg
          simp only [l2]
          split at h
          · cases h
          · rename_i ht
            simp only [Option.some.injEq] at h
            subst h
            simp [ht]
    · rintro ⟨⟨k', a⟩, hp, himg⟩
      have l1 := (mem_toList_iff_lookup hx.1).mp hp
      unfold upperImg at himg
      simp only at himg
      cases l2 : y.tree.lookup k' with
      | none => rw [l2] at himg; cases himg
      | some b =>
        rw [l2] at himg
        simp only at himg
        split at himg
        · cases himg
        · rename_i ht
          simp only [Option.some.injEq, Prod.mk.injEq] at himg
          obtain ⟨e1, e2⟩ := himg
          subst e1
          subst e2
          rw [l1, l2]
          simp [ht]
  · apply nodup_of_pairwise_key
    apply List.Pairwise.filterMap _ _ (toList_pairwise hx.1)
    intro a a' hlt b hb b' hb'
    unfold upperImg at hb hb'
    have e1 : b.1 = a.1 := by
      cases h : y.tree.lookup a.1 with
      | none => rw [h] at hb; cases hb
      | some c =>
        rw [h] at hb; simp only at hb
        split at hb
        · cases hb
        · simp only [Option.some.injEq] at hb; rw [← hb]
    have e2 : b'.1 = a'.1 := by
      cases h : y.tree.lookup a'.1 with
      | none => rw [h] at hb'; cases hb'
      | some c =>
        rw [h] at hb'; simp only at hb'
        split at hb'
        · cases hb'
        · simp only [Option.some.injEq] at hb'; rw [← hb']
    rw [e1, e2]; exact hlt

/-- **a strict widening step decreases the measure lexicographically** -/
theorem upper_wmeas_lt (hL : Laws L mem) {w : V → V → V} (hf : UpperLaws L mem w) {μ : V → Nat × Nat}
    (hm : WidenMeasure L w μ) {x y : Env V} (hx : Inv L x) (hy : Inv L y) (h : leq L y x = false) :
    Prod.Lex (· < ·) (Prod.Lex (· < ·) (· < ·)) (wmeas μ (SepDom.upper (ctxOf L) L w x y)) (wmeas μ x) := by
  cases ny : y.isBot with
  | true => rw [leq_of_bot ny] at h; cases h
  | false =>
    cases nx : x.isBot with
    | true =>
      have e0 : SepDom.upper (ctxOf L) L w x y = y := by unfold SepDom.upper; simp [nx]
      rw [e0]
      unfold wmeas
      rw [nx, ny]
      exact Prod.Lex.left _ _ (by decide)
    | false =>
      obtain ⟨_, hRb, _⟩ := upper_spec (L := L) (f := w) (ctx_sound hL)
        (fun a b ha hb ht => ⟨hf.nonbot a b ha hb, ht, hf.good a b ha hb⟩) hf.idem (fun a ha => ha.2.1) hx hy nx ny
      have hperm := upper_toList_perm hL hf hx hy nx ny
      -- the sums over the result, as sums over the bindings of `x`
      let g : Nat × V → Nat × Nat := fun p => match upperImg L w y p with
        | some q => contrib μ q
        | none => (0, 0)
      have hsum : psum (contrib μ) (SepDom.upper (ctxOf L) L w x y).tree.toList = psum g x.tree.toList := by
        unfold psum
        rw [(hperm.map _).sum_nat, (hperm.map _).sum_nat, sum_filterMap, sum_filterMap]
        congr 1
        · congr 1; apply List.map_congr_left; intro p _; simp only [g]; cases upperImg L w y p <;> rfl
        · congr 1; apply List.map_congr_left; intro p _; simp only [g]; cases upperImg L w y p <;> rfl
      unfold wmeas
      rw [hRb, nx, hsum]
      apply Prod.Lex.right
      apply LexLt.toLex
      -- pointwise comparison
      have hle : ∀ p ∈ x.tree.toList, LexLe (g p) (contrib μ p) := by
        intro p hp
        obtain ⟨k, a⟩ := p
        have l1 := (mem_toList_iff_lookup hx.1).mp hp
        have sa := hx.1.val_of_lookup l1
        simp only [g, upperImg]
        cases l2 : y.tree.lookup k with
        | none => simp only [contrib, LexLe]; omega
        | some b =>
          simp only
          by_cases ht : L.isTop (w a b) = true
          · simp only [ht, if_true, contrib, LexLe]; omega
          · have := hm.le a b sa (hy.1.val_of_lookup l2)
            simp only [ht, Bool.false_eq_true, if_false, contrib, LexLe] at this ⊢; omega
      apply psum_lt _ _ _ hle
      -- a key where `y` is not below `x`
      have hnp : ¬ PwLe (domainPO L) true y.tree x.tree := by
        intro hp
        have := (leq_spec (ctx_sound hL) (fun v hv => hL.leq_refl v hv) hy hx ny nx).mpr hp
        rw [leq_eq] at h; rw [this] at h; cases h
      unfold PwLe at hnp
      obtain ⟨k, hk⟩ := Classical.not_forall.mp hnp
      cases l1 : x.tree.lookup k with
      | none =>
        exfalso; apply hk
        rw [l1]; cases y.tree.lookup k <;> simp [rel, leO, domainPO]
      | some a =>
        have sa := hx.1.val_of_lookup l1
        refine ⟨(k, a), (mem_toList_iff_lookup hx.1).mpr l1, ?_⟩
        simp only [g, upperImg]
        cases l2 : y.tree.lookup k with
        | none => simp only [contrib, LexLt]; omega
        | some b =>
          simp only
          have hba : L.leq b a = false := by
            rw [l1, l2] at hk
            simpa [rel, leO, domainPO] using hk
          rcases hm.lt a b sa (hy.1.val_of_lookup l2) hba with ht | hlt
          · simp only [ht, if_true, contrib, LexLt]; omega
          · by_cases ht : L.isTop (w a b) = true
            · simp only [ht, if_true, contrib, LexLt]; omega
            · simp only [ht, Bool.false_eq_true, if_false, contrib, LexLt] at hlt ⊢; omega

end Env
end XDom
end Crab
