import CrabProofs.Lemmas.WtoGlue

/-! Termination measures for `visitLoop` / `component` (fuel sufficiency). -/
namespace Crab
namespace Wto

/-- weight of a list of nodes: out degree + 2 each -/
def wt (g : Graph) (l : List Nat) : Nat := (l.map (fun x => (g.succ x).length + 2)).sum

/-- weight of the frames: remaining successors + 1 each -/
def framesWt (vs : List Frame) : Nat := (vs.map (fun f => f.succs.length + 1)).sum

open Classical in
/-- the free nodes of the region -/
noncomputable def freeList (K : Nat → Prop) (st : St) : List Nat :=
  (List.range st.dfn.size).filter (fun x => decide (K x ∧ getDfn st.dfn x = .fin 0))

/-- chain measure of a state of `visitLoop` -/
noncomputable def phi (g : Graph) (K : Nat → Prop) (vs : List Frame) (st : St) : Nat :=
  framesWt vs + wt g (freeList K st)

/-- nesting measure of a region -/
noncomputable def lvl (K : Nat → Prop) (st : St) : Nat := (freeList K st).length

/-- the total weight `edges + 2 n` -/
def totalWt (g : Graph) : Nat := g.edges + 2 * g.n

theorem wt_filter_add_le (g : Graph) (P Q : Nat → Bool) : ∀ (l : List Nat) (c : Nat),
    (∀ x ∈ l, Q x = true → P x = true) → c ∈ l → P c = true → Q c = false →
    wt g (l.filter Q) + ((g.succ c).length + 2) ≤ wt g (l.filter P)
  | [], c, _, hc, _, _ => by cases hc
  | a :: l, c, himp, hc, hP, hQ => by
    have himp' : ∀ x ∈ l, Q x = true → P x = true := fun x hx => himp x (List.mem_cons_of_mem _ hx)
    have hmono : wt g (l.filter Q) ≤ wt g (l.filter P) := by
      clear hc
      induction l with
      | nil => simp [wt]
      | cons b l ih =>
        have ih' := ih (fun x hx => himp x (by simp at hx ⊢; rcases hx with h | h; exact Or.inl h; exact Or.inr (Or.inr h)))
          (fun x hx => himp' x (List.mem_cons_of_mem _ hx))
        simp only [List.filter_cons]
        cases hQb : Q b
        · cases hPb : P b
          · simpa using ih'
          · simp only [wt] at ih' ⊢; simp; omega
        · have hPb : P b = true := himp' b (by simp) hQb
          simp only [hPb, if_true, wt, List.map_cons, List.sum_cons] at ih' ⊢; simp; omega
    rcases List.mem_cons.1 hc with rfl | hc
    · simp only [List.filter_cons, hP, hQ, if_true, wt, List.map_cons, List.sum_cons] at hmono ⊢
      simp; omega
    · have ih := wt_filter_add_le g P Q l c himp' hc hP hQ
      simp only [List.filter_cons]
      cases hQa : Q a
      · cases hPa : P a
        · simpa using ih
        · simp only [wt] at ih ⊢; simp; omega
      · have hPa : P a = true := himp a (by simp) hQa
        simp only [hPa, if_true, wt, List.map_cons, List.sum_cons] at ih ⊢; simp; omega

theorem length_filter_lt (P Q : Nat → Bool) : ∀ (l : List Nat) (c : Nat),
    (∀ x ∈ l, Q x = true → P x = true) → c ∈ l → P c = true → Q c = false →
    (l.filter Q).length < (l.filter P).length := by
  intro l c himp hc hP hQ
  have := wt_filter_add_le { n := 0, succ := fun _ => [] } P Q l c himp hc hP hQ
  have hw : ∀ l : List Nat, wt { n := 0, succ := fun _ => [] } l = 2 * l.length := by
    intro l; induction l with
    | nil => simp [wt]
    | cons a l ih => simp only [wt, List.map_cons, List.sum_cons, List.length_cons] at ih ⊢; simp at ih ⊢; omega
  rw [hw, hw] at this
  simp at this
  omega

theorem wt_range (g : Graph) : wt g (List.range g.n) = totalWt g := by
  have : ∀ l : List Nat, wt g l = (l.map (fun u => (g.succ u).length)).sum + 2 * l.length := by
    intro l; induction l with
    | nil => simp [wt]
    | cons a l ih => simp only [wt, List.map_cons, List.sum_cons, List.length_cons] at ih ⊢; omega
  rw [this, totalWt, Graph.edges]; simp

theorem wt_filter_le (g : Graph) (Q : Nat → Bool) (l : List Nat) : wt g (l.filter Q) ≤ wt g l := by
  induction l with
  | nil => simp [wt]
  | cons a l ih =>
    simp only [List.filter_cons]
    split
    · simp only [wt, List.map_cons, List.sum_cons] at ih ⊢; omega
    · simp only [wt, List.map_cons, List.sum_cons] at ih ⊢; omega

theorem le_wt_of_mem (g : Graph) {l : List Nat} {c : Nat} (hc : c ∈ l) : (g.succ c).length + 2 ≤ wt g l := by
  have := wt_filter_add_le g (fun _ => true) (fun _ => false) l c (fun _ _ h => by cases h) hc rfl rfl
  have h1 : l.filter (fun _ => true) = l := by simp
  rw [h1] at this
  omega

end Wto
end Crab
