import CrabProofs.Lemmas.ArraySmashItvSound

/-!
  The exact operations as refinements of the operations of the generic functor model, at the level
  of pools (`refines_*`), and their step obligations relative to the invariant `Inv`.
-/
namespace Crab
namespace Dom
namespace SmashItv
open Crab.Dom.Arr Crab.IDom

def XOp.isMeet : XOp → Bool
  | .meet _ _ _ => true
  | _ => false

/-- the operation of the generic model an exact operation refines; `none`: the generic language
    has no such operation (`set_to_top`, meet, `+=` of a syntactic constraint system) -/
def XOp.toOp : XOp → Option Smash.Op
  | .top _ => none
  | .meet _ _ _ => none
  | .assume _ _ => none
  | .copy d s => some (.copy d s)
  | .join d p q => some (.join d p q)
  | .widen d p q => some (.widen d p q)
  | .assign d x e => some (.assign d x e)
  | .forget d x => some (.forget d x)
  | .aInit d a lb ub val => some (.aInit d a lb ub val)
  | .aStore d a i val strong => some (.aStore d a i val strong)
  | .aStoreRange d a lb ub val => some (.aStoreRange d a lb ub val)
  | .aLoad d x a i => some (.aLoad d x a i)
  | .aAssign d lhs rhs => some (.aAssign d lhs rhs)

/-- the one branch where the code does less than the generic model: `array_assign(lhs, rhs)` with
    `lhs ≠ rhs` when neither size is known (`operator-=(lhs)` returns without touching the base
    domain; the generic model forgets the summary of lhs) -/
def XOp.AssignNoSize (p : Pool St) : XOp → Prop
  | .aAssign d lhs rhs => lhs ≠ rhs ∧ (p d).sizes.constSize rhs = none ∧ (p d).sizes.constSize lhs = none
  | _ => False

/-- the other branch where the code is not the generic model: a join / widening with an operand
    whose base is bottom returns the other operand unchanged (the generic model joins the size
    environments, which is sound but loses the sizes of the other operand) -/
def XOp.JoinBottom (p : Pool St) : XOp → Prop
  | .join _ a b => (p a).isBottom = true ∨ (p b).isBottom = true
  | .widen _ a b => (p a).isBottom = true ∨ (p b).isBottom = true
  | _ => False

/-- the pool of the generic model that corresponds to a pool of exact values -/
def absPool (p : Pool St) (hI : ∀ i, Inv (p i)) : Pool (Smash.St itvBase) := fun j => absS (p j) (hI j).2

theorem refines_set (p : Pool St) (hI : ∀ i, Inv (p i)) (d : Nat) (v : St) (gv : Smash.St itvBase)
    (hv : Inv v) (hc : absS v hv.2 = gv) :
    ∃ hs : ∀ i, Inv (p.set d v i), ∀ i, absS (p.set d v i) (hs i).2 = (absPool p hI).set d gv i := by
  have hs : ∀ i, Inv (p.set d v i) := by
    intro i; simp only [Pool.set]; split
    · exact hv
    · exact hI i
  refine ⟨hs, fun i => ?_⟩
  by_cases hi : i = d
  · have e : p.set d v i = v := by simp [Pool.set, hi]
    rw [absS_congr e _ hv.2, hc]; simp [Pool.set, hi]
  · have e : p.set d v i = p i := by simp [Pool.set, hi]
    rw [absS_congr e _ (hI i).2]; simp [Pool.set, hi, absPool]

/-- **refinement**: an exact operation with a generic counterpart, run on a pool of values that
    satisfy the invariant, gives (through `absS`) exactly the pool the generic operation gives —
    except `array_assign` in the branch `AssignNoSize` -/
theorem refines (esz : Nat → Nat) (o : XOp) (g : Smash.Op) (hg : o.toOp = some g) (p : Pool St)
    (hI : ∀ i, Inv (p i)) (hk : ¬ o.AssignNoSize p) (hj : ¬ o.JoinBottom p) :
    ∃ hs : ∀ i, Inv ((o.toStep esz).run p i),
      ∀ i, absS ((o.toStep esz).run p i) (hs i).2 = (g.toStep (Bs := itvBase) esz).run (absPool p hI) i := by
  cases o with
  | top d => simp [XOp.toOp] at hg
  | meet d a b => simp [XOp.toOp] at hg
  | assume d cs => simp [XOp.toOp] at hg
  | copy d s =>
    simp only [XOp.toOp, Option.some.injEq] at hg; subst hg
    exact refines_set p hI d (p s) _ (hI s) rfl
  | join d a b =>
    simp only [XOp.toOp, Option.some.injEq] at hg; subst hg
    have na : (p a).isBottom = false := by
      cases h : (p a).isBottom with
      | false => rfl
      | true => exact absurd (Or.inl h) hj
    have nb : (p b).isBottom = false := by
      cases h : (p b).isBottom with
      | false => rfl
      | true => exact absurd (Or.inr h) hj
    exact refines_set p hI d _ _ (inv_join (hI a) (hI b)) (abs_join (hI a) (hI b) na nb)
  | widen d a b =>
    simp only [XOp.toOp, Option.some.injEq] at hg; subst hg
    have na : (p a).isBottom = false := by
      cases h : (p a).isBottom with
      | false => rfl
      | true => exact absurd (Or.inl h) hj
    have nb : (p b).isBottom = false := by
      cases h : (p b).isBottom with
      | false => rfl
      | true => exact absurd (Or.inr h) hj
    exact refines_set p hI d _ _ (inv_widen (hI a) (hI b)) (abs_widen (hI a) (hI b) na nb)
  | assign d x e =>
    simp only [XOp.toOp, Option.some.injEq] at hg; subst hg
    exact refines_set p hI d _ _ (inv_assign (hI d) x e) (abs_assign (hI d) x e)
  | forget d x =>
    simp only [XOp.toOp, Option.some.injEq] at hg; subst hg
    exact refines_set p hI d _ _ (inv_forget (hI d) x) (abs_forget (hI d) x)
  | aInit d a lb ub val =>
    simp only [XOp.toOp, Option.some.injEq] at hg; subst hg
    exact refines_set p hI d _ _ (inv_arrayInit (hI d) _ a val) (abs_arrayInit esz (hI d) a val)
  | aStore d a i val strong =>
    simp only [XOp.toOp, Option.some.injEq] at hg; subst hg
    exact refines_set p hI d _ _ (inv_arrayStore (hI d) _ a val strong) (abs_arrayStore esz (hI d) a val strong)
  | aStoreRange d a lb ub val =>
    simp only [XOp.toOp, Option.some.injEq] at hg; subst hg
    exact refines_set p hI d _ _ (inv_arrayStoreRange (hI d) _ a val) (abs_arrayStoreRange esz (hI d) a val)
  | aLoad d x a i =>
    simp only [XOp.toOp, Option.some.injEq] at hg; subst hg
    exact refines_set p hI d _ _ (inv_arrayLoad (hI d) _ x a) (abs_arrayLoad esz (hI d) x a)
  | aAssign d lhs rhs =>
    simp only [XOp.toOp, Option.some.injEq] at hg; subst hg
    have hk' : lhs = rhs ∨ ((p d).sizes.constSize rhs).isSome = true ∨ ((p d).sizes.constSize lhs).isSome = true := by
      by_cases h1 : lhs = rhs
      · exact Or.inl h1
      · cases hr : (p d).sizes.constSize rhs with
        | some k => exact Or.inr (Or.inl rfl)
        | none =>
          cases hl : (p d).sizes.constSize lhs with
          | some k => exact Or.inr (Or.inr rfl)
          | none => exact absurd ⟨h1, hr, hl⟩ hk
    exact refines_set p hI d _ _ (inv_arrayAssign (hI d) lhs rhs) (abs_arrayAssign (hI d) lhs rhs hk')

/-- every operation other than meet satisfies its obligations relative to `Inv` -/
theorem step_soundInv (esz : Nat → Nat) (o : XOp) (hm : o.isMeet = false) :
    (o.toStep esz).SoundInv Inv (γx esz) := by
  cases o with
  | meet d a b => simp [XOp.isMeet] at hm
  | top d => exact fun a _ => ⟨inv_top, fun _ s' _ _ => γx_top s'⟩
  | copy d s => trivial
  | join d a b =>
    intro x y hx hy
    refine ⟨inv_join hx hy, fun s h => ?_⟩
    cases na : x.isBottom with
    | true =>
      rw [join_bottom_l na]
      exact h.elim (fun h1 => absurd (γx_at h1).1 (by simp [na])) id
    | false =>
      cases nb : y.isBottom with
      | true =>
        rw [join_bottom_r na nb]
        exact h.elim id (fun h1 => absurd (γx_at h1).1 (by simp [nb]))
      | false =>
        refine ⟨(inv_join hx hy).2, ?_⟩
        rw [abs_join hx hy na nb]
        exact Smash.sJoin_sound (h.elim (fun ⟨_, h1⟩ => Or.inl h1) (fun ⟨_, h1⟩ => Or.inr h1))
  | widen d a b =>
    intro x y hx hy
    refine ⟨inv_widen hx hy, fun s h => ?_⟩
    cases na : x.isBottom with
    | true =>
      rw [widen_bottom_l na]
      exact h.elim (fun h1 => absurd (γx_at h1).1 (by simp [na])) id
    | false =>
      cases nb : y.isBottom with
      | true =>
        rw [widen_bottom_r na nb]
        exact h.elim id (fun h1 => absurd (γx_at h1).1 (by simp [nb]))
      | false =>
        refine ⟨(inv_widen hx hy).2, ?_⟩
        rw [abs_widen hx hy na nb]
        exact Smash.sWiden_sound (h.elim (fun ⟨_, h1⟩ => Or.inl h1) (fun ⟨_, h1⟩ => Or.inr h1))
  | assign d x e =>
    intro st hI
    refine ⟨inv_assign hI x e, fun s s' ⟨_, hg⟩ hr => ⟨(inv_assign hI x e).2, ?_⟩⟩
    simp only at hr; subst hr
    rw [abs_assign hI x e]; exact Smash.nAssign_sound x e hg
  | assume d cs =>
    intro st hI
    refine ⟨inv_assume hI cs, fun s s' hg hr => ?_⟩
    obtain ⟨hc, rfl⟩ := hr
    exact assume_sound hI cs hg hc
  | forget d x =>
    intro st hI
    refine ⟨inv_forget hI x, fun s s' ⟨_, hg⟩ hr => ⟨(inv_forget hI x).2, ?_⟩⟩
    obtain ⟨v, rfl⟩ := hr
    rw [abs_forget hI x]; exact Smash.nForget_sound x v hg
  | aInit d a lb ub val =>
    intro st hI
    refine ⟨inv_arrayInit hI _ a val, fun s s' ⟨_, hg⟩ hr => ⟨(inv_arrayInit hI _ a val).2, ?_⟩⟩
    rw [abs_arrayInit esz hI a val]; exact Smash.aInit_sound a lb ub val hg hr
  | aStore d a i val strong =>
    intro st hI
    refine ⟨inv_arrayStore hI _ a val strong, fun s s' ⟨_, hg⟩ hr => ⟨(inv_arrayStore hI _ a val strong).2, ?_⟩⟩
    rw [abs_arrayStore esz hI a val strong]; exact Smash.aStore_sound a i val strong hg hr.1 hr.2
  | aStoreRange d a lb ub val =>
    intro st hI
    refine ⟨inv_arrayStoreRange hI _ a val, fun s s' ⟨_, hg⟩ hr => ⟨(inv_arrayStoreRange hI _ a val).2, ?_⟩⟩
    rw [abs_arrayStoreRange esz hI a val]; exact Smash.aStoreRange_sound a lb ub val hg hr
  | aLoad d x a i =>
    intro st hI
    refine ⟨inv_arrayLoad hI _ x a, fun s s' ⟨_, hg⟩ hr => ⟨(inv_arrayLoad hI _ x a).2, ?_⟩⟩
    rw [abs_arrayLoad esz hI x a]; exact Smash.aLoad_sound x a i hg hr
  | aAssign d lhs rhs =>
    intro st hI
    exact ⟨inv_arrayAssign hI lhs rhs, fun s s' hg hr => arrayAssign_sound hI lhs rhs hg hr.1 hr.2⟩

end SmashItv
end Dom
end Crab
