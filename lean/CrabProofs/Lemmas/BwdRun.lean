import CrabProofs.Lemmas.BwdFail
import CrabProofs.Props.C01Engine

/-!
  The necessary-precondition fixpoint as an instance of the engine theorem `C01.run_sound`.

  The iterator runs on the reversed graph from the exit block.  Its concrete state space is
  `Option State`: `some σ` is a program state, `none` is a *token* that belongs to every abstract
  value (also to bottom).  The token starts at the exit block and flows against the edges, so
  it arrives exactly at the blocks from which the exit block is reachable.  In error mode the
  token entering a block produces
  * the states that fail an assertion of the block (the transformer of `assert` joins `¬c` into
    the precondition even when the postcondition is bottom), and
  * when a successor of the block is in `m_fail_without_exit` (`mayFailB`), every state that
    runs through the block (`analyze` then starts from top).
  `ReachPost` of this system contains `CoReach` at every block that reaches the exit.
-/
namespace Crab
namespace Bwd

open Fix

structure Setup (A : Type) where
  D : BDom A
  γ : A → State → Prop
  sound : BDomSound D γ
  p : Prog
  /-- `m_good_states` -/
  good : Bool
  /-- `m_invariants` (top where absent) -/
  invAbs : Nat → A
  /-- the value given to `run_backward` -/
  fin : A
  nesting : Nat → Option (List Nat)
  delay : Nat
  descending : Nat

variable {A : Type}

variable {A : Type}

def Setup.ctx (S : Setup A) : Ctx A :=
  bwdCtx S.D S.p S.good S.invAbs S.fin S.nesting S.delay S.descending

/-- the supplied forward invariants, concretely -/
def Setup.inv (S : Setup A) : Nat → State → Prop := fun n σ => S.γ (S.invAbs n) σ

def Setup.γo (S : Setup A) : A → Option State → Prop
  | _, none => True
  | a, some σ => S.γ a σ

/-- from a block that cannot reach the exit only a failure is possible -/
theorem coReach_no_exit (p : Prog) (inv : Nat → State → Prop) (err : Bool) (fin : State → Prop)
    (n : Nat) (σ : State) (h : CoReach p inv err fin n σ) (hn : ¬ ReachesExit p n) :
    err = true ∧ CanFail p n := by
  induction h with
  | exit σ σ' _ _ _ => exact absurd ReachesExit.here hn
  | flow n m σ σ' _ hm _ _ ih =>
    have hm' : ¬ ReachesExit p m := fun h => hn (ReachesExit.edge n m hm h)
    exact ⟨(ih hm').1, CanFail.edge n m hm (ih hm').2⟩
  | fail n σ herr _ hfail => exact ⟨herr, CanFail.here n (stmtsFail_has_assert hfail)⟩

/-- the block transformer of the reversed system as a relation: `stepo n s s'` — `s` is a state
    at the END of block `n` (or the token), `s'` a state at its entry -/
def Setup.stepo (S : Setup A) : Nat → Option State → Option State → Prop
  | _, none, none => True
  | n, none, some σ' =>
    S.good = false ∧ S.inv n σ' ∧
      (StmtsFail (S.p.block n).stmts σ' ∨
       ((S.p.block n).succs.any (mayFailB S.p) = true ∧ ∃ σ, StmtsStep (S.p.block n).stmts σ' σ))
  | n, some σ, some σ' => S.inv n σ' ∧ StmtsStep (S.p.block n).stmts σ' σ
  | _, some _, none => False

def Setup.sem (S : Setup A) : Sem S.ctx (Option State) where
  γ := S.γo
  step := S.stepo
  analyze_sound := by
    intro n a s s' hγ hstep
    cases s' with
    | none => trivial
    | some σ' =>
      show S.γ (bwdStmts S.D S.good (S.p.block n).stmts
        (if !S.good && (S.p.block n).succs.any (mayFailB S.p) then S.D.top else a) (S.invAbs n)) σ'
      cases s with
      | none =>
        obtain ⟨hg, hinv, hfail | ⟨hany, σ, hrun⟩⟩ := hstep
        · rw [hg]; exact bwdStmts_fail_sound S.sound _ _ _ σ' hinv hfail
        · rw [hg, hany]
          simp only [Bool.not_false, Bool.and_self, if_true]
          exact bwdStmts_step_sound S.sound false _ _ _ σ' σ hinv hrun (S.sound.top_sound σ)
      | some σ =>
        obtain ⟨hinv, hrun⟩ := hstep
        refine bwdStmts_step_sound S.sound S.good _ _ _ σ' σ hinv hrun ?_
        split
        · exact S.sound.top_sound σ
        · exact hγ
  join_left := by
    intro a b s h; cases s with
    | none => trivial
    | some σ => exact S.sound.join_left a b σ h
  join_right := by
    intro a b s h; cases s with
    | none => trivial
    | some σ => exact S.sound.join_right a b σ h
  widen_left := by
    intro a b s h; cases s with
    | none => trivial
    | some σ => exact S.sound.widen_left a b σ h
  widen_right := by
    intro a b s h; cases s with
    | none => trivial
    | some σ => exact S.sound.widen_right a b σ h
  meet_sound := by
    intro a b s h1 h2; cases s with
    | none => trivial
    | some σ => exact S.sound.meet_sound a b σ h1 h2
  narrow_sound := by
    intro a b s h1 h2; cases s with
    | none => trivial
    | some σ => exact S.sound.narrow_sound a b σ h1 h2
  leq_sound := by
    intro a b s h1 h2; cases s with
    | none => trivial
    | some σ => exact S.sound.leq_sound a b σ h1 h2

theorem Setup.asmOk_true (S : Setup A) (n : Nat) (s : Option State) : asmOk S.ctx S.sem n s := by
  simp [asmOk, hasAssumptions, Setup.ctx, bwdCtx]

theorem Setup.token_pre (S : Setup A) (n : Nat) (h : ReachesExit S.p n) :
    ReachPre S.ctx S.sem n none := by
  induction h with
  | here => exact ReachPre.init none trivial (S.asmOk_true _ _)
  | edge n m hm _ ih =>
    have hpost : ReachPost S.ctx S.sem m none := ReachPost.step m none none ih trivial
    exact ReachPre.flow m n none hm hpost (S.asmOk_true _ _)

/-- every co-reachable state at a block that reaches the exit is in the
    collecting semantics of the reversed system -/
theorem Setup.reachPost_of_coReach (S : Setup A) (n : Nat) (σ : State) (h : CoReach S.p S.inv (!S.good) (S.γ S.fin) n σ) :
    ReachesExit S.p n → ReachPost S.ctx S.sem n (some σ) := by
  induction h with
  | exit σ σ' hinv hrun hfin =>
    intro _
    have hpre : ReachPre S.ctx S.sem S.p.exit (some σ') :=
      ReachPre.init (some σ') hfin (S.asmOk_true _ _)
    exact ReachPost.step S.p.exit (some σ') (some σ) hpre ⟨hinv, hrun⟩
  | flow n m σ σ' hinv hm hrun hco ih =>
    intro hn
    by_cases hmx : ReachesExit S.p m
    · have hpre : ReachPre S.ctx S.sem n (some σ') :=
        ReachPre.flow m n (some σ') hm (ih hmx) (S.asmOk_true _ _)
      exact ReachPost.step n (some σ') (some σ) hpre ⟨hinv, hrun⟩
    · obtain ⟨herr, hcf⟩ := coReach_no_exit S.p S.inv _ _ m σ' hco hmx
      have hg : S.good = false := by cases hgd : S.good <;> simp [hgd] at herr ⊢
      have hany : (S.p.block n).succs.any (mayFailB S.p) = true :=
        List.any_eq_true.2 ⟨m, hm, (mayFailB_iff S.p m).2 ⟨hmx, hcf⟩⟩
      exact ReachPost.step n none (some σ) (S.token_pre n hn)
        ⟨hg, hinv, Or.inr ⟨hany, σ', hrun⟩⟩
  | fail n σ herr hinv hfail =>
    intro hn
    have hg : S.good = false := by cases hgd : S.good <;> simp [hgd] at herr ⊢
    exact ReachPost.step n none (some σ) (S.token_pre n hn) ⟨hg, hinv, Or.inl hfail⟩

end Bwd
end Crab
