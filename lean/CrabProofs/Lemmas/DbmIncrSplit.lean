import CrabModel.Dom.DbmIncr
import CrabProofs.Lemmas.DbmIncrClosure

/-!
  The split normal form of `split_dbm_domain` (`SplitNF`), its variable-only part (`VarNF`), and
  the reading `fullOf` of a graph in split normal form:

  * `SplitNF.closed_fullOf`: the reading of a graph in split normal form is a closed matrix;
  * `SplitNF.fullOf_eq_close`: a graph in split normal form with the solutions of `m` reads as the
    Floyd–Warshall closure of `m`.
-/
namespace Crab
namespace DbmIncr
open Dbm Zones

variable {n : Nat}

/-- invariant of `close_over_edge` alone (`zones.close_bounds_inline = false`: the loop of
    `add_linear_leq` over the difference constraints runs while the bounds are not yet
    re-closed): no self loop, and the edges among the VARIABLES are closed (zero vertex excluded)
    and close no negative cycle -/
structure VarNF (g : Zone n) : Prop where
  noLoop : NoSelfLoop g
  vars : Mat.Closed (varPart g)

/-- THE SPLIT NORMAL FORM that every operation of `split_dbm_domain` restores (`// Always
    maintained in normal form, except for widening`): no self loop, and the stored graph (with the
    trivial zero diagonal) satisfies the triangle inequality THROUGH EVERY VARIABLE vertex `k ≠ 0`:

    * `i, j` variables: the edges among the variables are closed, no negative cycle among them;
    * `j = 0` / `i = 0`: the bounds are closed (`x ≤ u` and `y - x ≤ k` stored ⇒ `y ≤ u + k` stored
      at least as tight; same for lower bounds);
    * `i = j = 0`: `lb(x) ≤ ub(x)`.

    The triangle inequality through the zero vertex is NOT required: the difference constraint
    `x - y ≤ ub(x) - lb(y)` implied by two bounds need not be stored (and is not), it is re-derived
    by every reader (`fullOf`). -/
structure SplitNF (g : Zone n) : Prop where
  noLoop : NoSelfLoop g
  tri : Mat.TriOn (fun k => k ≠ 0) (zdiag g)

@[simp] theorem zdiag_get (g : Zone n) (i j : Fin (n + 1)) :
    (zdiag g).get i j = if i = j then some 0 else g.get i j := by simp [zdiag]

@[simp] theorem varPart_get (g : Zone n) (i j : Fin (n + 1)) :
    (varPart g).get i j = if i = j then some 0 else if i = 0 ∨ j = 0 then none else g.get i j := by
  simp [varPart]

@[simp] theorem fullOf_get (g : Zone n) (i j : Fin (n + 1)) :
    (fullOf g).get i j = if i = j then some 0 else splitW g i j := by simp [fullOf]

/-- in split normal form the reading is one Floyd–Warshall round through the zero vertex -/
theorem SplitNF.fullOf_eq_fwStep {g : Zone n} (h : SplitNF g) (i j : Fin (n + 1)) :
    (fullOf g).get i j = (Mat.fwStep (zdiag g) 0).get i j := by
  simp only [fullOf_get, Mat.fwStep, Mat.get_ofFn, zdiag_get, splitW]
  by_cases hij : i = j
  · subst hij
    simp only [if_true]
    by_cases hi : i = 0
    · subst hi; simp
    · have t := h.tri 0 0 i hi
      simp only [zdiag_get, if_true] at t
      have e1 : (0 : Fin (n + 1)) ≠ i := fun e => hi e.symm
      simp only [e1, hi, if_false] at t ⊢
      rcases hx : g.get i 0 with _ | x <;> rcases hy : g.get 0 i with _ | y <;> simp
      rw [hx, hy] at t; simp at t; omega
  · simp only [hij, if_false]
    by_cases hi : i = 0
    · subst hi
      have : (0 : Fin (n + 1)) ≠ j := hij
      simp [this]
      rcases g.get 0 j with _ | y <;> simp
    · by_cases hj : j = 0
      · subst hj
        simp [hi]
        rcases g.get i 0 with _ | y <;> simp
      · have e1 : (0 : Fin (n + 1)) ≠ j := fun e => hj e.symm
        simp [hi, hj, e1]

/-- the reading of a graph in split normal form is closed -/
theorem SplitNF.closed_fullOf {g : Zone n} (h : SplitNF g) : Mat.Closed (fullOf g) := by
  have hk : ∀ x, (zdiag g).get 0 0 = some x → 0 ≤ x := by
    intro x hx; simp at hx; omega
  have t := Mat.fwStep_TriOn (P := fun k => k ≠ 0) (m := zdiag g) 0 h.tri hk
  constructor
  · intro i; simp
  · intro i j k
    rw [h.fullOf_eq_fwStep, h.fullOf_eq_fwStep, h.fullOf_eq_fwStep]
    apply t i j k
    by_cases hk0 : k = 0
    · exact Or.inr hk0
    · exact Or.inl hk0

theorem fullOf_LE (g : Zone n) (hl : NoSelfLoop g) : Mat.LE (fullOf g) g := by
  intro i j
  simp only [fullOf_get]
  by_cases hij : i = j
  · subst hij; rw [hl i]; exact W.LE_none _
  · simp only [hij, if_false, splitW]
    split
    · exact W.LE_refl _
    · exact W.min_LE_left _ _

theorem fullOf_sat {g : Zone n} (hl : NoSelfLoop g) (v : Fin (n + 1) → Int) :
    (fullOf g).sat v ↔ g.sat v := by
  constructor
  · exact Mat.sat_of_LE (fullOf_LE g hl)
  · intro h i j k hk
    simp only [fullOf_get] at hk
    by_cases hij : i = j
    · subst hij; simp at hk; omega
    · simp only [hij, if_false] at hk
      exact splitW_sound h hk

/-- a graph in split normal form that has the solutions of `m` reads as the closure of `m` -/
theorem SplitNF.fullOf_eq_close {g m : Zone n} (h : SplitNF g) (hs : ∀ v, g.sat v ↔ m.sat v) :
    isBottom m = false ∧ ∀ i j, (close m).get i j = (fullOf g).get i j :=
  Mat.fw_eq_of_closed h.closed_fullOf (fun v => by rw [fullOf_sat h.noLoop, hs])

theorem SplitNF.varNF {g : Zone n} (h : SplitNF g) : VarNF g := by
  refine ⟨h.noLoop, ⟨fun i => by simp, ?_⟩⟩
  intro i j k
  simp only [varPart_get]
  by_cases hk : k = 0
  · subst hk
    by_cases hi : i = 0
    · subst hi
      simp only [if_true, true_or]
      rw [W.zero_add]
      exact W.LE_refl _
    · have e : (if i = 0 then some (0 : Int) else if i = 0 ∨ (0 : Fin (n + 1)) = 0 then none else g.get i 0) = none := by
        simp [hi]
      rw [e, W.add_none_left]
      exact W.LE_none _
  · have t := h.tri i j k hk
    simp only [zdiag_get] at t
    by_cases hi : i = 0
    · subst hi
      have e1 : (0 : Fin (n + 1)) ≠ k := fun e => hk e.symm
      by_cases hj : j = 0
      · subst hj; simp [e1, hk]
      · have e2 : (0 : Fin (n + 1)) ≠ j := fun e => hj e.symm
        simp [e1, e2]
    · by_cases hj : j = 0
      · subst hj
        simp [hi, hk]
      · simp only [hi, hj, hk, false_or, if_false]
        exact t

end DbmIncr
end Crab
