import CrabModel.Inter.TopDown

/-!
  Lemmas about the sequential parameter wiring loops of the inter-procedural transformers
  (`unifySeq`, `assignSeq`, `seqAssign`, `wireInputs`).
-/
namespace Crab.Inter

theorem St.upd_same (σ : St) (x : Var) (v : Int) : (σ.upd x v) x = v := by
  simp [St.upd]

theorem St.upd_other (σ : St) {x y : Var} (v : Int) (h : y ≠ x) : (σ.upd x v) y = σ y := by
  simp [St.upd, h]

theorem St.upd_self (σ : St) (x : Var) : σ.upd x (σ x) = σ := by
  funext y
  by_cases h : y = x
  · subst h; simp [St.upd]
  · simp [St.upd, h]

theorem AllPairs.imp_mem {P Q : Var → Var → Prop} :
    ∀ {xs ys : List Var}, AllPairs P xs ys → (∀ x y, x ∈ xs → y ∈ ys → P x y → Q x y) → AllPairs Q xs ys
  | [], _, _, _ => by cases ‹List Var› <;> trivial
  | _ :: _, [], _, _ => trivial
  | x :: xs, y :: ys, h, himp => by
    refine ⟨himp x y (List.mem_cons_self ..) (List.mem_cons_self ..) h.1, ?_⟩
    exact AllPairs.imp_mem h.2 (fun x' y' hx hy hp => himp x' y' (List.mem_cons_of_mem _ hx) (List.mem_cons_of_mem _ hy) hp)

/-- every element of the first list has a positional partner -/
theorem AllPairs.exists_of_mem {P : Var → Var → Prop} :
    ∀ {xs ys : List Var}, AllPairs P xs ys → xs.length ≤ ys.length → ∀ x, x ∈ xs → ∃ y, y ∈ ys ∧ P x y
  | [], _, _, _, x, hx => by cases hx
  | _ :: _, [], _, hl, _, _ => by simp at hl
  | x0 :: xs, y0 :: ys, h, hl, x, hx => by
    rcases List.mem_cons.mp hx with rfl | hx'
    · exact ⟨y0, List.mem_cons_self .., h.1⟩
    · have hl' : xs.length ≤ ys.length := by simpa using hl
      obtain ⟨y, hy, hp⟩ := AllPairs.exists_of_mem h.2 hl' x hx'
      exact ⟨y, List.mem_cons_of_mem _ hy, hp⟩

/-- every element of the second list has a positional partner -/
theorem AllPairs.exists_of_mem_right {P : Var → Var → Prop} :
    ∀ {xs ys : List Var}, AllPairs P xs ys → ys.length ≤ xs.length → ∀ y, y ∈ ys → ∃ x, x ∈ xs ∧ P x y
  | _, [], _, _, y, hy => by cases hy
  | [], _ :: _, _, hl, _, _ => by simp at hl
  | x0 :: xs, y0 :: ys, h, hl, y, hy => by
    rcases List.mem_cons.mp hy with rfl | hy'
    · exact ⟨x0, List.mem_cons_self .., h.1⟩
    · have hl' : ys.length ≤ xs.length := by simpa using hl
      obtain ⟨x, hx, hp⟩ := AllPairs.exists_of_mem_right h.2 hl' y hy'
      exact ⟨x, List.mem_cons_of_mem _ hx, hp⟩

theorem unifySeq_sound (D : AbsDom) :
    ∀ (xs ys : List Var) (d : D.A) (σ : St), D.γ d σ → D.γ (unifySeq D d xs ys) (seqAssign σ xs ys)
  | [], _, d, σ, h => by cases ‹List Var› <;> simpa [unifySeq, seqAssign] using h
  | _ :: _, [], d, σ, h => by simpa [unifySeq, seqAssign] using h
  | x :: xs, y :: ys, d, σ, h => by
    simp only [unifySeq, seqAssign]
    apply unifySeq_sound D xs ys
    by_cases hxy : x = y
    · subst hxy; simpa [St.upd_self] using h
    · simpa [hxy] using D.assign_sound x y h

theorem assignSeq_sound (D : AbsDom) :
    ∀ (xs ys : List Var) (d : D.A) (σ : St), D.γ d σ → D.γ (assignSeq D d xs ys) (seqAssign σ xs ys)
  | [], _, d, σ, h => by cases ‹List Var› <;> simpa [assignSeq, seqAssign] using h
  | _ :: _, [], d, σ, h => by simpa [assignSeq, seqAssign] using h
  | x :: xs, y :: ys, d, σ, h => by
    simp only [assignSeq, seqAssign]
    exact assignSeq_sound D xs ys _ _ (D.assign_sound x y h)

theorem seqAssign_other : ∀ (xs ys : List Var) (σ : St) (v : Var), v ∉ xs → seqAssign σ xs ys v = σ v
  | [], _, σ, v, _ => by cases ‹List Var› <;> rfl
  | _ :: _, [], σ, v, _ => rfl
  | x :: xs, y :: ys, σ, v, h => by
    simp only [seqAssign]
    have hv : v ≠ x := fun e => h (e ▸ List.mem_cons_self ..)
    have hv' : v ∉ xs := fun e => h (List.mem_cons_of_mem _ e)
    rw [seqAssign_other xs ys _ v hv', St.upd_other _ _ hv]

/-- sequential = parallel under `SeqOK` and distinct targets -/
theorem seqAssign_pairs :
    ∀ (xs ys : List Var) (σ : St), xs.Nodup → SeqOK xs ys →
      AllPairs (fun x y => seqAssign σ xs ys x = σ y) xs ys
  | [], _, σ, _, _ => by cases ‹List Var› <;> trivial
  | _ :: _, [], σ, _, _ => trivial
  | x :: xs, y :: ys, σ, hnd, hok => by
    have hx : x ∉ xs := (List.nodup_cons.mp hnd).1
    have hnd' : xs.Nodup := (List.nodup_cons.mp hnd).2
    refine ⟨?_, ?_⟩
    · simp only [seqAssign]
      rw [seqAssign_other xs ys _ x hx, St.upd_same]
    · simp only [seqAssign]
      have ih := seqAssign_pairs xs ys (σ.upd x (σ y)) hnd' hok.2
      refine AllPairs.imp_mem ih ?_
      intro x' y' _ hy' hp
      rw [hp]
      rcases hok.1 with rfl | hnot
      · rw [St.upd_self]
      · exact St.upd_other _ _ (fun e => hnot (e ▸ hy'))

/-- `(f, a)` occur at the same position of the two lists -/
def Paired (f a : Var) : List Var → List Var → Prop
  | x :: xs, y :: ys => (x = f ∧ y = a) ∨ Paired f a xs ys
  | _, _ => False

theorem AllPairs.of_paired {P : Var → Var → Prop} {f a : Var} :
    ∀ {fs as : List Var}, AllPairs P fs as → Paired f a fs as → P f a
  | [], _, _, h => by cases ‹List Var› <;> exact h.elim
  | _ :: _, [], _, h => h.elim
  | x :: xs, y :: ys, hall, h => by
    rcases h with ⟨rfl, rfl⟩ | h
    · exact hall.1
    · exact AllPairs.of_paired hall.2 h

theorem Paired.mem_left {f a : Var} : ∀ {fs as : List Var}, Paired f a fs as → f ∈ fs
  | [], _, h => by cases ‹List Var› <;> exact h.elim
  | _ :: _, [], h => h.elim
  | x :: xs, y :: ys, h => by
    rcases h with ⟨rfl, _⟩ | h
    · exact List.mem_cons_self ..
    · exact List.mem_cons_of_mem _ (Paired.mem_left h)

/-- targets of `wireInputsSt` are arguments that are not lhs; sources are formals that are not
    arguments, so no write is read by a later step -/
theorem wireInputsSt_spec (allArgs lhs : List Var) :
    ∀ (fs as : List Var) (ρ : St), (∀ a, a ∈ as → a ∈ allArgs) →
      ∀ v, wireInputsSt allArgs lhs ρ fs as v = ρ v ∨
           ∃ f a, Paired f a fs as ∧ v = a ∧ f ∉ allArgs ∧ a ∉ lhs ∧
                  wireInputsSt allArgs lhs ρ fs as v = ρ f
  | [], _, ρ, _, v => by cases ‹List Var› <;> exact Or.inl rfl
  | _ :: _, [], ρ, _, v => Or.inl rfl
  | f0 :: fs, a0 :: as, ρ, hsub, v => by
    have hsub' : ∀ a, a ∈ as → a ∈ allArgs := fun a ha => hsub a (List.mem_cons_of_mem _ ha)
    simp only [wireInputsSt]
    by_cases hf : f0 ∈ allArgs
    · simp only [hf, if_true]
      rcases wireInputsSt_spec allArgs lhs fs as ρ hsub' v with h | ⟨f, a, hp, hv, h1, h2, h3⟩
      · exact Or.inl h
      · exact Or.inr ⟨f, a, Or.inr hp, hv, h1, h2, h3⟩
    · simp only [hf, if_false]
      by_cases ha : a0 ∈ lhs
      · simp only [ha, if_true]
        rcases wireInputsSt_spec allArgs lhs fs as ρ hsub' v with h | ⟨f, a, hp, hv, h1, h2, h3⟩
        · exact Or.inl h
        · exact Or.inr ⟨f, a, Or.inr hp, hv, h1, h2, h3⟩
      · simp only [ha, if_false]
        have ha0 : a0 ∈ allArgs := hsub a0 (List.mem_cons_self ..)
        rcases wireInputsSt_spec allArgs lhs fs as (ρ.upd a0 (ρ f0)) hsub' v with h | ⟨f, a, hp, hv, h1, h2, h3⟩
        · by_cases hva : v = a0
          · refine Or.inr ⟨f0, a0, Or.inl ⟨rfl, rfl⟩, hva, hf, ha, ?_⟩
            rw [h, hva, St.upd_same]
          · exact Or.inl (by rw [h, St.upd_other _ _ hva])
        · refine Or.inr ⟨f, a, Or.inr hp, hv, h1, h2, ?_⟩
          rw [h3]
          exact St.upd_other _ _ (fun e => h1 (e ▸ ha0))

theorem wireInputs_sound (D : AbsDom) (allArgs lhs : List Var) :
    ∀ (fs as : List Var) (s : D.A) (ρ : St), D.γ s ρ →
      D.γ (wireInputs D allArgs lhs s fs as) (wireInputsSt allArgs lhs ρ fs as)
  | [], _, s, ρ, h => by cases ‹List Var› <;> simpa [wireInputs, wireInputsSt] using h
  | _ :: _, [], s, ρ, h => by simpa [wireInputs, wireInputsSt] using h
  | f :: fs, a :: as, s, ρ, h => by
    simp only [wireInputs, wireInputsSt]
    apply wireInputs_sound D allArgs lhs fs as
    by_cases hf : f ∈ allArgs
    · simpa [hf] using h
    · by_cases ha : a ∈ lhs
      · simpa [hf, ha] using h
      · simpa [hf, ha] using D.assign_sound a f h

end Crab.Inter

namespace Crab.Inter

theorem AllPairs.and {P Q : Var → Var → Prop} :
    ∀ {xs ys : List Var}, AllPairs P xs ys → AllPairs Q xs ys → AllPairs (fun x y => P x y ∧ Q x y) xs ys
  | [], _, _, _ => by cases ‹List Var› <;> trivial
  | _ :: _, [], _, _ => trivial
  | _ :: _, _ :: _, h1, h2 => ⟨⟨h1.1, h2.1⟩, AllPairs.and h1.2 h2.2⟩

end Crab.Inter
