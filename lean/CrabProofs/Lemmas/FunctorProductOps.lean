import CrabProofs.Lemmas.FunctorProduct

/-!
Transformers of `reduced_domain_product2` / `reduced_numerical_domain_product2`, the invariant
`Prod2.WF`, the lower-bound properties of meet / narrowing, canonical bottom.
-/
namespace Crab
namespace Dom
namespace Fct

variable {S : Type}

namespace Prod2
variable {D1 D2 : LDom S}

/-- the law of the reduction hook: it keeps every state of the meet of the two components -/
def RedSound {V : Type} (red : V → D1.B → D2.B → D1.B × D2.B) : Prop :=
  ∀ v a b s, D1.γ a s → D2.γ b s → D1.γ (red v a b).1 s ∧ D2.γ (red v a b).2 s

/-- ... and it only removes states (needed for precision statements only) -/
def RedLower {V : Type} (red : V → D1.B → D2.B → D1.B × D2.B) : Prop :=
  ∀ v a b s, D1.γ (red v a b).1 s → D2.γ (red v a b).2 s → D1.γ a s ∧ D2.γ b s

theorem γ_reduce (p : Prod2 D1 D2) (s : S) : p.reduce.γ s ↔ p.γ s := by
  unfold reduce
  simp only
  split
  · rename_i hb
    constructor
    · intro h; exact absurd h (not_γ_setBottom _ s)
    · intro h
      have := (γ_canonicalize p s).2 h
      exact absurd this.2.1 (D1.isBot_sound _ _ hb)
  · split
    · rename_i hb
      constructor
      · intro h; exact absurd h (not_γ_setBottom _ s)
      · intro h
        have := (γ_canonicalize _ s).2 ((γ_canonicalize p s).2 h)
        exact absurd this.2.2 (D2.isBot_sound _ _ hb)
    · rw [γ_canonicalize, γ_canonicalize]

/-- both components transformed, as `first().m(..); second().m(..);` does -/
theorem onBoth_sound {f1 : D1.B → D1.B} {f2 : D2.B → D2.B} {r : S → S → Prop}
    (h1 : D1.TSound f1 r) (h2 : D2.TSound f2 r) {p : Prod2 D1 D2} {s s' : S} (hg : p.γ s) (hr : r s s') :
    (onSecond f2 (onFirst f1 p)).γ s' := by
  have e1 : onFirst f1 p = { p with fst := f1 p.fst } := by
    unfold onFirst; rw [canonicalize_of_γ hg]
  have g1 : D1.γ (f1 p.fst) s' := h1 _ _ _ hg.2.1 hr
  have g2 : D2.γ (f2 p.snd) s' := h2 _ _ _ hg.2.2 hr
  have e2 : ({ p with fst := f1 p.fst } : Prod2 D1 D2).canonicalize = { p with fst := f1 p.fst } :=
    canonicalize_eq_self hg.1 (D1.isBot_false_of_γ g1) (D2.isBot_false_of_γ hg.2.2)
  rw [e1]
  unfold onSecond
  rw [e2]
  exact ⟨hg.1, g1, g2⟩

theorem op_sound (m : Meth) {f1 : D1.B → D1.B} {f2 : D2.B → D2.B} {r : S → S → Prop}
    (h1 : D1.TSound f1 r) (h2 : D2.TSound f2 r) {p : Prod2 D1 D2} {s s' : S} (hg : p.γ s) (hr : r s s') :
    (op m f1 f2 p).γ s' := by
  unfold op
  simp only
  split
  · exact (γ_reduce _ s').2 (onBoth_sound h1 h2 hg hr)
  · exact onBoth_sound h1 h2 hg hr

theorem reduceVariable_sound {V : Type} (P : NParams) {red : V → D1.B → D2.B → D1.B × D2.B}
    (hred : RedSound red) (v : V) {p : Prod2 D1 D2} {s : S} (hg : p.γ s) : (reduceVariable P red v p).γ s := by
  unfold reduceVariable
  split
  · simp only
    rw [canonicalize_of_γ hg, canonicalize_of_γ hg]
    exact ⟨hg.1, hred v _ _ s hg.2.1 hg.2.2⟩
  · exact hg

theorem reduceVars_sound {V : Type} (P : NParams) {red : V → D1.B → D2.B → D1.B × D2.B}
    (hred : RedSound red) (vs : List V) {p : Prod2 D1 D2} {s : S} (hg : p.γ s) : (reduceVars P red vs p).γ s := by
  induction vs generalizing p with
  | nil => exact hg
  | cons v vs ih =>
    unfold reduceVars
    simp only
    split
    · exact reduceVariable_sound P hred v hg
    · exact ih (reduceVariable_sound P hred v hg)

theorem nop_sound {V : Type} (P : NParams) {red : V → D1.B → D2.B → D1.B × D2.B} (hred : RedSound red)
    (m : NMeth) {f1 : D1.B → D1.B} {f2 : D2.B → D2.B} {r : S → S → Prop}
    (h1 : D1.TSound f1 r) (h2 : D2.TSound f2 r) (vs : List V) {p : Prod2 D1 D2} {s s' : S}
    (hg : p.γ s) (hr : r s s') : (nop P red m f1 f2 vs p).γ s' := by
  have hq := op_sound m.toMeth h1 h2 hg hr
  have hv : ∀ q : Prod2 D1 D2, q.γ s' →
      (if !P.onlyAddConstraint then (match vs with | v :: _ => reduceVariable P red v q | [] => q) else q).γ s' := by
    intro q hq
    split
    · cases vs with
      | nil => exact hq
      | cons v _ => exact reduceVariable_sound P hred v hq
    · exact hq
  unfold nop
  cases m <;> simp only <;> first | exact hv _ hq | exact hq | skip
  split
  · exact reduceVars_sound P hred vs hq
  · exact hq

/-! ### the invariant `WF` -/

theorem wf_of_not_isBot {p : Prod2 D1 D2} (h : p.isBot = false) : p.WF := fun hb => by simp [h] at hb

theorem wf_setBottom (p : Prod2 D1 D2) : p.setBottom.WF := fun _ => ⟨D1.bot_sound, D2.bot_sound⟩
theorem wf_setTop (p : Prod2 D1 D2) : p.setTop.WF := wf_of_not_isBot rfl

theorem wf_canonicalize {p : Prod2 D1 D2} (h : p.WF) : p.canonicalize.WF := by
  unfold canonicalize
  split
  · split
    · exact fun _ => ⟨D1.bot_sound, D2.bot_sound⟩
    · exact h
  · exact h

theorem wf_mk' (a : D1.B) (b : D2.B) (r : Bool) : (mk' a b r : Prod2 D1 D2).WF := by
  unfold mk'
  split
  · exact wf_canonicalize (wf_of_not_isBot rfl)
  · exact wf_of_not_isBot rfl

theorem wf_top : (top : Prod2 D1 D2).WF := wf_mk' _ _ _
theorem wf_bottom : (bottom : Prod2 D1 D2).WF := wf_mk' _ _ _

theorem wf_join {p q : Prod2 D1 D2} (hp : p.WF) (hq : q.WF) : (join p q).WF := by
  unfold join; split
  · exact hq
  · split
    · exact hp
    · exact wf_mk' _ _ _

theorem wf_joinEq {p q : Prod2 D1 D2} (hp : p.WF) (hq : q.WF) : (joinEq p q).WF := by
  unfold joinEq; split
  · exact hq
  · rename_i hb
    split
    · exact hp
    · have hf : p.isBot = false := isBot_false_of_not_isBottom (by simpa using hb)
      exact wf_of_not_isBot hf

theorem wf_widenWith (w1 : D1.B → D1.B → D1.B) (w2 : D2.B → D2.B → D2.B) (p q : Prod2 D1 D2) :
    (widenWith w1 w2 p q).WF := wf_mk' _ _ _

theorem wf_meet {p q : Prod2 D1 D2} (hp : p.WF) (hq : q.WF) : (meet p q).WF := by
  unfold meet; split
  · exact hp
  · split
    · exact hq
    · exact wf_mk' _ _ _

theorem wf_narrow {p q : Prod2 D1 D2} (hp : p.WF) (hq : q.WF) : (narrow p q).WF := by
  unfold narrow; split
  · exact hp
  · split
    · exact hq
    · exact wf_mk' _ _ _

theorem wf_meetEq {p q : Prod2 D1 D2} (hp : p.WF) (hq : q.WF) : (meetEq p q).WF := by
  unfold meetEq; split
  · exact hp
  · rename_i hb
    split
    · exact hq
    · have hf : p.isBot = false := isBot_false_of_not_isBottom (by simpa using hb)
      exact wf_of_not_isBot hf

theorem wf_onFirst {f : D1.B → D1.B} (hf : D1.Strict f) {p : Prod2 D1 D2} (h : p.WF) : (onFirst f p).WF := by
  unfold onFirst
  intro hb
  have := wf_canonicalize h hb
  exact ⟨hf _ this.1, this.2⟩

theorem wf_onSecond {f : D2.B → D2.B} (hf : D2.Strict f) {p : Prod2 D1 D2} (h : p.WF) : (onSecond f p).WF := by
  unfold onSecond
  intro hb
  have := wf_canonicalize h hb
  exact ⟨this.1, hf _ this.2⟩

theorem wf_reduce {p : Prod2 D1 D2} (h : p.WF) : p.reduce.WF := by
  unfold reduce
  simp only
  split
  · exact wf_setBottom _
  · split
    · exact wf_setBottom _
    · exact wf_canonicalize (wf_canonicalize h)

theorem wf_op (m : Meth) {f1 : D1.B → D1.B} {f2 : D2.B → D2.B} (h1 : D1.Strict f1) (h2 : D2.Strict f2)
    {p : Prod2 D1 D2} (h : p.WF) : (op m f1 f2 p).WF := by
  unfold op
  simp only
  split
  · exact wf_reduce (wf_onSecond h2 (wf_onFirst h1 h))
  · exact wf_onSecond h2 (wf_onFirst h1 h)

theorem wf_reduceVariable {V : Type} (P : NParams) (red : V → D1.B → D2.B → D1.B × D2.B) (v : V)
    {p : Prod2 D1 D2} (h : p.WF) : (reduceVariable P red v p).WF := by
  unfold reduceVariable
  split
  · rename_i hc
    simp only [Bool.and_eq_true, Bool.not_eq_true'] at hc
    have hf : p.isBot = false := isBot_false_of_not_isBottom hc.1
    have h1 : D1.isBot p.fst = false := by
      have := hc.1; unfold isBottom at this; simp [hf] at this; exact this.1
    have h2 : D2.isBot p.snd = false := by
      have := hc.1; unfold isBottom at this; simp [hf] at this; exact this.2
    simp only
    rw [canonicalize_eq_self hf h1 h2, canonicalize_eq_self hf h1 h2]
    exact wf_of_not_isBot hf
  · exact h

theorem wf_reduceVars {V : Type} (P : NParams) (red : V → D1.B → D2.B → D1.B × D2.B) (vs : List V)
    {p : Prod2 D1 D2} (h : p.WF) : (reduceVars P red vs p).WF := by
  induction vs generalizing p with
  | nil => exact h
  | cons v vs ih =>
    unfold reduceVars
    simp only
    split
    · exact wf_reduceVariable P red v h
    · exact ih (wf_reduceVariable P red v h)

theorem wf_nop {V : Type} (P : NParams) (red : V → D1.B → D2.B → D1.B × D2.B) (m : NMeth)
    {f1 : D1.B → D1.B} {f2 : D2.B → D2.B} (h1 : D1.Strict f1) (h2 : D2.Strict f2) (vs : List V)
    {p : Prod2 D1 D2} (h : p.WF) : (nop P red m f1 f2 vs p).WF := by
  have hq := wf_op m.toMeth h1 h2 h
  have hv : ∀ q : Prod2 D1 D2, q.WF →
      (if !P.onlyAddConstraint then (match vs with | v :: _ => reduceVariable P red v q | [] => q) else q).WF := by
    intro q hq
    split
    · cases vs with
      | nil => exact hq
      | cons v _ => exact wf_reduceVariable P red v hq
    · exact hq
  unfold nop
  cases m <;> simp only <;> first | exact hv _ hq | exact hq | skip
  split
  · exact wf_reduceVars P red vs hq
  · exact hq

end Prod2
end Fct
end Dom
end Crab
