import CrabModel.Num.ZNumExtra

/-! Bits of integers in infinite two's complement and the bitwise operations of `z_number`
    (`mpz_and`, `mpz_ior`, `mpz_xor`, modelled through `BitVec` at a sufficient width). -/
namespace Crab.ZNum.Spec
open Crab.ZNum.X

theorem two_pow_le {k w : Nat} (h : k ≤ w) : (2 : Int) ^ k ≤ 2 ^ w := by
  have := Nat.pow_le_pow_right (show 0 < 2 by decide) h
  have h2 : ((2 ^ k : Nat) : Int) ≤ ((2 ^ w : Nat) : Int) := by exact_mod_cast this
  simpa [Int.natCast_pow] using h2

/-- `bit` is the parity of the floor quotient by `2^i` -/
theorem bit_eq_div_mod (x : Int) (i : Nat) : bit x i = decide ((x / 2 ^ i) % 2 = 1) := by
  cases x with
  | ofNat m =>
    simp only [bit, Nat.testBit_eq_decide_div_mod_eq]
    have : ((Int.ofNat m) / 2 ^ i) % 2 = ((m / 2 ^ i % 2 : Nat) : Int) := by
      simp [Int.natCast_pow]
    rw [this]
    congr 1
    apply propext
    omega
  | negSucc m =>
    simp only [bit, Nat.testBit_eq_decide_div_mod_eq]
    have hpos : (0 : Int) < 2 ^ i := Int.pow_pos (by decide)
    rw [Int.negSucc_ediv m hpos]
    have h1 : Int.ediv (m : Int) (2 ^ i) = ((m / 2 ^ i : Nat) : Int) := by
      show (m : Int) / 2 ^ i = _
      simp [Int.natCast_pow]
    rw [h1]
    generalize m / 2 ^ i = q
    have : (-((q : Int) + 1)) % 2 = 1 ↔ ¬ (q % 2 = 1) := by omega
    simp only [this]
    by_cases hq : q % 2 = 1 <;> simp [hq]

theorem bit_ofNat (m i : Nat) : bit (m : Int) i = m.testBit i := rfl
theorem bit_negSucc (m i : Nat) : bit (Int.negSucc m) i = !(m.testBit i) := rfl

/-- beyond the range of a number every bit is the sign -/
theorem bit_of_range {x : Int} {k i : Nat} (h1 : -(2 ^ k : Int) ≤ x) (h2 : x < 2 ^ k) (hi : k ≤ i) :
    bit x i = decide (x < 0) := by
  have hpow : (2 : Int) ^ k ≤ 2 ^ i := two_pow_le hi
  cases x with
  | ofNat m =>
    have hm : m < 2 ^ i := by
      have : (m : Int) < 2 ^ i := by
        have : (Int.ofNat m) < 2 ^ k := h2
        exact Int.lt_of_lt_of_le this hpow
      exact_mod_cast this
    simp only [bit, Nat.testBit_lt_two_pow hm]
    simp
  | negSucc m =>
    have hm : m < 2 ^ i := by
      have h3 : -(2 ^ k : Int) ≤ Int.negSucc m := h1
      have : (m : Int) < 2 ^ i := by
        rw [Int.negSucc_eq] at h3
        omega
      exact_mod_cast this
    simp only [bit, Nat.testBit_lt_two_pow hm]
    have : Int.negSucc m < 0 := Int.negSucc_lt_zero m
    simp [this]

/-- bits of `BitVec.ofInt w x` below the width are the bits of `x` -/
theorem getLsbD_ofInt_eq_bit (w : Nat) (x : Int) (i : Nat) (hi : i < w) :
    (BitVec.ofInt w x).getLsbD i = bit x i := by
  cases x with
  | ofNat m =>
    show (BitVec.ofInt w (m : Int)).getLsbD i = _
    rw [BitVec.ofInt_natCast, BitVec.getLsbD_ofNat]
    simp [hi, bit]
  | negSucc m =>
    rw [BitVec.ofInt_negSucc_eq_not_ofNat, BitVec.getLsbD_not, BitVec.getLsbD_ofNat]
    simp [hi, bit]

theorem bit_toInt (w : Nat) (v : BitVec w) (i : Nat) (hi : i < w) :
    bit v.toInt i = v.getLsbD i := by
  rw [← getLsbD_ofInt_eq_bit w v.toInt i hi, BitVec.ofInt_toInt]

/-- the range of a number fits the width chosen by `bitop` -/
theorem range_of_width (a : Int) : -(2 ^ (width a - 1) : Int) ≤ a ∧ a < 2 ^ (width a - 1) := by
  unfold width
  cases a with
  | ofNat m =>
    have h : ¬ (Int.ofNat m < 0) := Int.not_lt.2 (Int.natCast_nonneg m)
    simp only [h, if_false]
    have h1 : m < 2 ^ (m.log2 + 1) := Nat.lt_log2_self
    have h2 : ((m : Nat) : Int) < ((2 ^ (m.log2 + 1) : Nat) : Int) := by exact_mod_cast h1
    have h3 : (Int.ofNat m).toNat = m := rfl
    rw [h3, show m.log2 + 2 - 1 = m.log2 + 1 by omega]
    constructor
    · have : (0 : Int) < 2 ^ (m.log2 + 1) := Int.pow_pos (by decide)
      have h5 : (0 : Int) ≤ Int.ofNat m := Int.natCast_nonneg m
      omega
    · simpa [Int.natCast_pow] using h2
  | negSucc m =>
    have h : Int.negSucc m < 0 := Int.negSucc_lt_zero m
    simp only [h, if_true]
    have h3 : (-(Int.negSucc m) - 1).toNat = m := by
      rw [Int.negSucc_eq]; omega
    rw [h3, show m.log2 + 2 - 1 = m.log2 + 1 by omega]
    have h1 : m < 2 ^ (m.log2 + 1) := Nat.lt_log2_self
    have h2 : ((m : Nat) : Int) < ((2 ^ (m.log2 + 1) : Nat) : Int) := by exact_mod_cast h1
    rw [Int.natCast_pow] at h2
    rw [Int.negSucc_eq]
    constructor
    · simp at h2 ⊢; omega
    · have : (0 : Int) < 2 ^ (m.log2 + 1) := Int.pow_pos (by decide)
      omega

theorem width_pos (a : Int) : 0 < width a := by unfold width; omega

theorem range_mono {a : Int} {k w : Nat} (h : -(2 ^ k : Int) ≤ a ∧ a < 2 ^ k) (hk : k ≤ w) :
    -(2 ^ w : Int) ≤ a ∧ a < 2 ^ w := by
  have : (2 : Int) ^ k ≤ 2 ^ w := two_pow_le hk
  omega

/-- bit `i` of the result of a bitwise operation is the operation on the bits of the operands,
    for every position `i` (sign extension included) -/
theorem bit_bitop (f : (w : Nat) → BitVec w → BitVec w → BitVec w) (g : Bool → Bool → Bool)
    (hf : ∀ (w : Nat) (x y : BitVec w) (i : Nat), i < w →
        (f w x y).getLsbD i = g (x.getLsbD i) (y.getLsbD i))
    (a b : Int) (i : Nat) : bit (bitop f a b) i = g (bit a i) (bit b i) := by
  unfold bitop
  generalize hw : Nat.max (width a) (width b) = w
  have hwa : width a ≤ w := by rw [← hw]; exact Nat.le_max_left ..
  have hwb : width b ≤ w := by rw [← hw]; exact Nat.le_max_right ..
  have hwpos : 0 < w := Nat.lt_of_lt_of_le (width_pos a) hwa
  have ra := range_mono (range_of_width a) (show width a - 1 ≤ w - 1 by omega)
  have rb := range_mono (range_of_width b) (show width b - 1 ≤ w - 1 by omega)
  -- below the width
  have low : ∀ j, j < w →
      bit (f w (BitVec.ofInt w a) (BitVec.ofInt w b)).toInt j = g (bit a j) (bit b j) := by
    intro j hj
    rw [bit_toInt w _ j hj, hf w _ _ j hj, getLsbD_ofInt_eq_bit w a j hj, getLsbD_ofInt_eq_bit w b j hj]
  by_cases hi : i < w
  · exact low i hi
  · -- at and above the width every number involved shows its sign bit
    have hiw : w - 1 ≤ i := by omega
    have rr : -(2 ^ (w - 1) : Int) ≤ (f w (BitVec.ofInt w a) (BitVec.ofInt w b)).toInt ∧
        (f w (BitVec.ofInt w a) (BitVec.ofInt w b)).toInt < 2 ^ (w - 1) :=
      ⟨BitVec.le_toInt _, BitVec.toInt_lt⟩
    rw [bit_of_range rr.1 rr.2 hiw, ← bit_of_range rr.1 rr.2 (Nat.le_refl _),
      low (w - 1) (by omega),
      bit_of_range ra.1 ra.2 (Nat.le_refl _), bit_of_range rb.1 rb.2 (Nat.le_refl _),
      bit_of_range ra.1 ra.2 hiw, bit_of_range rb.1 rb.2 hiw]

theorem bit_land (a b : Int) (i : Nat) : bit (land a b) i = (bit a i && bit b i) :=
  bit_bitop _ _ (fun _ _ _ _ _ => BitVec.getLsbD_and) a b i

theorem bit_lor (a b : Int) (i : Nat) : bit (lor a b) i = (bit a i || bit b i) :=
  bit_bitop _ _ (fun _ _ _ _ _ => BitVec.getLsbD_or) a b i

theorem bit_lxor (a b : Int) (i : Nat) : bit (lxor a b) i = (bit a i ^^ bit b i) :=
  bit_bitop _ _ (fun _ _ _ _ _ => BitVec.getLsbD_xor) a b i

/-- an integer is determined by its bits -/
theorem bit_ext {x y : Int} (h : ∀ i, bit x i = bit y i) : x = y := by
  cases x with
  | ofNat m =>
    cases y with
    | ofNat n =>
      have : m = n := Nat.eq_of_testBit_eq (fun i => by simpa [bit] using h i)
      subst this; rfl
    | negSucc n =>
      exfalso
      have hm : m < 2 ^ (m + n) := Nat.lt_of_lt_of_le Nat.lt_two_pow_self
        (Nat.pow_le_pow_right (by decide) (Nat.le_add_right ..))
      have hn : n < 2 ^ (m + n) := Nat.lt_of_lt_of_le Nat.lt_two_pow_self
        (Nat.pow_le_pow_right (by decide) (Nat.le_add_left ..))
      have := h (m + n)
      simp [bit, Nat.testBit_lt_two_pow hm, Nat.testBit_lt_two_pow hn] at this
  | negSucc m =>
    cases y with
    | ofNat n =>
      exfalso
      have hm : m < 2 ^ (m + n) := Nat.lt_of_lt_of_le Nat.lt_two_pow_self
        (Nat.pow_le_pow_right (by decide) (Nat.le_add_right ..))
      have hn : n < 2 ^ (m + n) := Nat.lt_of_lt_of_le Nat.lt_two_pow_self
        (Nat.pow_le_pow_right (by decide) (Nat.le_add_left ..))
      have := h (m + n)
      simp [bit, Nat.testBit_lt_two_pow hm, Nat.testBit_lt_two_pow hn] at this
    | negSucc n =>
      have : m = n := Nat.eq_of_testBit_eq (fun i => by simpa [bit] using h i)
      subst this; rfl

/-- on non-negative operands the operations are the bitwise operations of the naturals -/
theorem land_natCast (m n : Nat) : land (m : Int) (n : Int) = ((m &&& n : Nat) : Int) :=
  bit_ext (fun i => by rw [bit_land]; simp [bit_ofNat])
theorem lor_natCast (m n : Nat) : lor (m : Int) (n : Int) = ((m ||| n : Nat) : Int) :=
  bit_ext (fun i => by rw [bit_lor]; simp [bit_ofNat])
theorem lxor_natCast (m n : Nat) : lxor (m : Int) (n : Int) = ((m ^^^ n : Nat) : Int) :=
  bit_ext (fun i => by rw [bit_lxor]; simp [bit_ofNat])

end Crab.ZNum.Spec
