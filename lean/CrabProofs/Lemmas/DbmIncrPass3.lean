import CrabProofs.Lemmas.DbmIncrPass2

/-!
  The pairwise loop of `close_over_edge` (`src_dec × dest_dec`): every recorded pair `(se, de)`
  gets the path `se → ii → jj → de`.
-/
namespace Crab
namespace DbmIncr
open Dbm Zones

variable {n : Nat}

/-- `foldl_post` with a side condition `Q` on the elements -/
theorem foldl_postQ {σ α : Type} (step : σ → α → σ) (I : σ → Prop) (le : σ → σ → Prop)
    (P : α → σ → Prop) (Q : α → Prop) (le_refl : ∀ s, le s s)
    (le_trans : ∀ a b c, le a b → le b c → le a c)
    (hstep : ∀ s a, Q a → I s → I (step s a) ∧ le (step s a) s ∧ P a (step s a))
    (hstab : ∀ a s s', P a s → le s' s → P a s') :
    ∀ (l : List α) (s : σ), (∀ a ∈ l, Q a) → I s →
      I (l.foldl step s) ∧ le (l.foldl step s) s ∧ ∀ a ∈ l, P a (l.foldl step s) := by
  intro l
  induction l with
  | nil => intro s _ hs; exact ⟨hs, le_refl s, fun a ha => by cases ha⟩
  | cons x l ih =>
    intro s hq hs
    obtain ⟨h1, h2, h3⟩ := hstep s x (hq x (List.mem_cons_self ..)) hs
    obtain ⟨k1, k2, k3⟩ := ih (step s x) (fun a ha => hq a (List.mem_cons_of_mem _ ha)) h1
    refine ⟨k1, le_trans _ _ _ k2 h2, ?_⟩
    intro a ha
    rcases List.mem_cons.1 ha with rfl | ha
    · exact hstab _ _ _ h3 k2
    · exact k3 a ha

/-- the coded body in relaxation form -/
theorem pass3Step_eq (inl : Bool) (c : Int) (sp dp : Fin (n + 1) × Int) (g : Zone n) :
    pass3Step inl c sp g dp =
      if sp.1 = dp.1 then g else
      if W.le (edge g sp.1 dp.1) (some (c + sp.2 + dp.2)) = true then g else
      if inl then closeBounds (relax g sp.1 (c + sp.2 + dp.2) dp.1) sp.1 dp.1 (c + sp.2 + dp.2)
      else relax g sp.1 (c + sp.2 + dp.2) dp.1 := by
  unfold pass3Step
  by_cases h : sp.1 = dp.1
  · simp [h]
  · simp only [h, if_false]
    rcases hw : edge g sp.1 dp.1 with _ | w
    · have : W.le (none : W) (some (c + sp.2 + dp.2)) = false := rfl
      simp only [this, Bool.false_eq_true, if_false]
      rw [setEdge_eq_relax (fun k hk => by rw [hw] at hk; cases hk)]
    · simp only [W.le, decide_eq_true_eq]
      by_cases hle : w ≤ c + sp.2 + dp.2
      · simp [hle]
      · simp only [hle, if_false]
        rw [setEdge_eq_relax (fun k hk => by rw [hw] at hk; cases hk; omega)]

theorem Snd.leG {G Tf Tv g : Zone n} (h : Snd G Tf Tv g) (a b : Fin (n + 1)) :
    W.LE (edge Tf a b) (edge G a b) := W.LE_trans (h.abF a b) (h.dec a b)

theorem Snd.leGV {G Tf Tv g : Zone n} (h : Snd G Tf Tv g) (a b : Fin (n + 1)) (ha : a ≠ 0) (hb : b ≠ 0) :
    W.LE (edge Tv a b) (edge G a b) := W.LE_trans (h.abV a b ha hb) (h.dec a b)

section
variable (inl : Bool) (G Tf Tv : Zone n) (ii jj : Fin (n + 1)) (c : Int)

/-- invariant of the pairwise loop -/
structure I3 (g : Zone n) : Prop where
  snd : Snd G Tf Tv g
  bnd : inl = false → ∀ x, edge g 0 x = edge G 0 x ∧ edge g x 0 = edge G x 0

/-- a member of `src_dec` -/
def Q1 (p : Fin (n + 1) × Int) : Prop := p.1 ≠ 0 ∧ p.1 ≠ ii ∧ p.1 ≠ jj ∧ edge G p.1 ii = some p.2
/-- a member of `dest_dec` -/
def Q2 (p : Fin (n + 1) × Int) : Prop := p.1 ≠ 0 ∧ p.1 ≠ ii ∧ p.1 ≠ jj ∧ edge G jj p.1 = some p.2

/-- postcondition of a pair -/
def P3 (sp dp : Fin (n + 1) × Int) (g : Zone n) : Prop :=
  sp.1 ≠ dp.1 → W.LE (edge g sp.1 dp.1) (some (c + sp.2 + dp.2))

end

variable {inl : Bool} {G Tf Tv : Zone n} {ii jj : Fin (n + 1)} {c : Int}

theorem pass3_step (hr : Ref Tf Tv) (hi : ii ≠ 0) (hj : jj ≠ 0) (hc : edge G ii jj = some c)
    (sp dp : Fin (n + 1) × Int) (h1 : Q1 G ii jj sp) (h2 : Q2 G ii jj dp) (g : Zone n)
    (h : I3 inl G Tf Tv g) :
    I3 inl G Tf Tv (pass3Step inl c sp g dp) ∧ Dec (pass3Step inl c sp g dp) g ∧
      P3 c sp dp (pass3Step inl c sp g dp) := by
  rw [pass3Step_eq]
  by_cases hsd : sp.1 = dp.1
  · simp only [hsd, if_true]
    exact ⟨h, Dec.refl _, fun hne => absurd hsd hne⟩
  simp only [hsd, if_false]
  by_cases hg : W.le (edge g sp.1 dp.1) (some (c + sp.2 + dp.2)) = true
  · simp only [hg, if_true]
    exact ⟨h, Dec.refl _, fun _ => (W.le_iff _ _).1 hg⟩
  simp only [hg]
  obtain ⟨a0, _, _, a3⟩ := h1
  obtain ⟨b0, _, _, b3⟩ := h2
  -- soundness of the three-hop path
  have e1 : W.LE (edge Tf sp.1 ii) (some sp.2) := by have := h.snd.leG sp.1 ii; rwa [a3] at this
  have e2 : W.LE (edge Tf ii jj) (some c) := by have := h.snd.leG ii jj; rwa [hc] at this
  have e3 : W.LE (edge Tf jj dp.1) (some dp.2) := by have := h.snd.leG jj dp.1; rwa [b3] at this
  have v1 : W.LE (edge Tv sp.1 ii) (some sp.2) := by have := h.snd.leGV sp.1 ii a0 hi; rwa [a3] at this
  have v2 : W.LE (edge Tv ii jj) (some c) := by have := h.snd.leGV ii jj hi hj; rwa [hc] at this
  have v3 : W.LE (edge Tv jj dp.1) (some dp.2) := by have := h.snd.leGV jj dp.1 hj b0; rwa [b3] at this
  have hF : W.LE (edge Tf sp.1 dp.1) (some (c + sp.2 + dp.2)) := by
    have t1 := W.LE_trans (hr.triF sp.1 ii jj) (W.add_mono e1 e2)
    have t2 := W.LE_trans (hr.triF sp.1 jj dp.1) (W.add_mono t1 e3)
    simp only [W.add_some_some] at t2
    have e : sp.2 + c + dp.2 = c + sp.2 + dp.2 := by omega
    rwa [e] at t2
  have hV : W.LE (edge Tv sp.1 dp.1) (some (c + sp.2 + dp.2)) := by
    have t1 := W.LE_trans (hr.triV sp.1 ii jj a0 hi hj) (W.add_mono v1 v2)
    have t2 := W.LE_trans (hr.triV sp.1 jj dp.1 a0 hj b0) (W.add_mono t1 v3)
    simp only [W.add_some_some] at t2
    have e : sp.2 + c + dp.2 = c + sp.2 + dp.2 := by omega
    rwa [e] at t2
  have s1 : Snd G Tf Tv (relax g sp.1 (c + sp.2 + dp.2) dp.1) := h.snd.relax hsd hF (fun _ _ => hV)
  cases inl with
  | false =>
    simp only [Bool.false_eq_true, if_false]
    refine ⟨⟨s1, ?_⟩, relax_dec _ _ _ _, fun _ => relax_le_val _ _ _ _⟩
    intro hf x
    rw [edge_relax_ne _ _ (fun e => a0 e.1.symm), edge_relax_ne _ _ (fun e => b0 e.2.symm)]
    exact h.bnd hf x
  | true =>
    simp only [if_true]
    refine ⟨⟨s1.closeBounds hr a0 b0 hF, fun e => by cases e⟩,
      Dec.trans (closeBounds_dec _ _ _ _) (relax_dec _ _ _ _),
      fun _ => W.LE_trans (closeBounds_dec _ _ _ _ _ _) (relax_le_val _ _ _ _)⟩

theorem P3_stable (sp dp : Fin (n + 1) × Int) (g g' : Zone n) (h : P3 c sp dp g) (hle : Dec g' g) :
    P3 c sp dp g' := fun hne => W.LE_trans (hle _ _) (h hne)

/-- the pairwise loop: invariant, descent, every recorded pair has its path -/
theorem pass3_fold (hr : Ref Tf Tv) (hi : ii ≠ 0) (hj : jj ≠ 0) (hc : edge G ii jj = some c)
    (S1 S2 : List (Fin (n + 1) × Int)) (h1 : ∀ p ∈ S1, Q1 G ii jj p) (h2 : ∀ p ∈ S2, Q2 G ii jj p)
    (g : Zone n) (h : I3 inl G Tf Tv g) :
    let r := S1.foldl (fun g sp => S2.foldl (pass3Step inl c sp) g) g
    I3 inl G Tf Tv r ∧ Dec r g ∧ ∀ sp ∈ S1, ∀ dp ∈ S2, P3 c sp dp r := by
  have inner : ∀ sp, Q1 G ii jj sp → ∀ g : Zone n, I3 inl G Tf Tv g →
      I3 inl G Tf Tv (S2.foldl (pass3Step inl c sp) g) ∧ Dec (S2.foldl (pass3Step inl c sp) g) g ∧
        ∀ dp ∈ S2, P3 c sp dp (S2.foldl (pass3Step inl c sp) g) := by
    intro sp hsp g hg
    exact foldl_postQ (pass3Step inl c sp) (I3 inl G Tf Tv) Dec (P3 c sp) (Q2 G ii jj) Dec.refl
      (fun _ _ _ => Dec.trans) (fun s a ha hs => pass3_step hr hi hj hc sp a hsp ha s hs)
      (P3_stable sp) S2 g h2 hg
  exact foldl_postQ (fun g sp => S2.foldl (pass3Step inl c sp) g) (I3 inl G Tf Tv) Dec
    (fun sp g => ∀ dp ∈ S2, P3 c sp dp g) (Q1 G ii jj) Dec.refl (fun _ _ _ => Dec.trans)
    (fun s a ha hs => inner a ha s hs)
    (fun sp s s' hp hle dp hdp => P3_stable sp dp s s' (hp dp hdp) hle) S1 g h1 h

end DbmIncr
end Crab
