import CrabProofs.Lemmas.XDomCst

/-!
  `constant_domain` (model `Crab.CDom`): soundness and invariant preservation of `+=`
  (`propagate`, `solve_constraints`), `assign`, `weak_assign`, `apply`, `select`, the casts,
  `entails`, `at` and `to_linear_constraint_system`.
-/
namespace Crab
namespace CDom
open XDom Lin

local notation "CL" => cstLattice

namespace Env

theorem inv_bot : (bot : Env).Inv := XDom.Env.inv_bot
theorem inv_top : (top : Env).Inv := XDom.Env.inv_top
theorem not_γ_of_bot {e : Env} (h : e.isBot = true) (σ : State) : ¬ e.γ σ := XDom.Env.not_γ_of_bot h σ

/-! ### `propagate`, `solve_constraints`, `+=` -/

theorem propagateEqLoop_spec {c : Lin.Cst} (hk : c.kind = .eq) (hc : CstOk c) :
    ∀ (ts : List (Var × Int)), (∀ p ∈ ts, p ∈ c.expr.terms) → ∀ e : Env, e.Inv →
      (propagateEqLoop c ts e).Inv ∧
      ∀ σ : State, c.sat σ → e.γ σ → (propagateEqLoop c ts e).γ σ := by
  intro ts
  induction ts with
  | nil => intro _ e he; exact ⟨he, fun _ _ hg => hg⟩
  | cons p rest ih =>
    intro hsub e he
    obtain ⟨pivot, coef⟩ := p
    simp only [propagateEqLoop]
    have hm : (pivot, coef) ∈ c.expr.terms := hsub _ List.mem_cons_self
    have hlt : pivot < 2 ^ 64 := hc.2 _ hm
    have hne : coef ≠ 0 := hc.1.2 _ hm
    have hrest : ∀ q ∈ rest, q ∈ c.expr.terms := fun q hq => hsub q (List.mem_cons_of_mem _ hq)
    have hinv : (if (!(Crab.Cst.sdiv (e.computeResidual c pivot) (.val coef)).isTop) = true then
        e.set pivot (Crab.Cst.meet (e.get pivot) (Crab.Cst.sdiv (e.computeResidual c pivot) (.val coef))) else e).Inv := by
      split
      · exact set_inv he hlt _
      · exact he
    obtain ⟨i2, s2⟩ := ih hrest _ hinv
    refine ⟨i2, fun σ hsat hg => s2 σ hsat ?_⟩
    split
    · apply set_sound_same he hg hlt
      have hr := residualLoop_sound hg pivot c.expr.terms (.val c.constant) c.constant rfl
      rw [pivot_value hk hsat hc.1.1 hm] at hr
      have hd := C08.cst_sdiv_sound _ (.val coef) _ coef hr rfl hne
      rw [IDom.tdiv_mul_cancel hne] at hd
      exact (C08.cst_meet_exact _ _ _).mpr ⟨get_mem hg pivot, hd⟩
    · exact hg

theorem propagate_inv {e : Env} (he : e.Inv) {c : Lin.Cst} (hc : CstOk c) : (e.propagate c).Inv := by
  unfold propagate
  split
  · exact he
  · split
    · rename_i hk
      exact (propagateEqLoop_spec hk hc c.expr.terms (fun _ h => h) e he).1
    · split
      · split
        · exact he
        · exact inv_bot
      · exact he

/-- `propagate(cst)` keeps every state that satisfies the constraint -/
theorem propagate_sound {e : Env} (he : e.Inv) {σ : State} (hg : e.γ σ) {c : Lin.Cst} (hc : CstOk c)
    (hsat : c.sat σ) : (e.propagate c).γ σ := by
  unfold propagate
  simp only [hg.1, Bool.false_eq_true, if_false]
  split
  · rename_i hk
    exact (propagateEqLoop_spec hk hc c.expr.terms (fun _ h => h) e he).2 σ hsat hg
  · rename_i hk
    split
    · rename_i n hn
      have hm := eval_sound hg c.expr
      rw [hn] at hm
      simp only [Crab.Cst.mem] at hm
      split
      · exact hg
      · rename_i hck
        exfalso
        apply hck
        unfold checkCst
        unfold Lin.Cst.sat at hsat
        cases hkk : c.kind <;> rw [hkk] at hsat <;> simp only at hsat ⊢
        · rw [← hm]; simpa using hsat
        · rw [← hm]; simpa using hsat
        · rw [← hm]; simpa using hsat
    · exact hg

theorem solve_spec : ∀ (csts : List Lin.Cst), (∀ c ∈ csts, CstOk c) → ∀ e : Env, e.Inv →
    (solve csts e).Inv ∧ ∀ σ : State, Sys.sat csts σ → e.γ σ → (solve csts e).γ σ := by
  intro csts
  induction csts with
  | nil => intro _ e he; exact ⟨he, fun _ _ hg => hg⟩
  | cons c rest ih =>
    intro hok e he
    have hc := hok c List.mem_cons_self
    have hrest : ∀ c' ∈ rest, CstOk c' := fun c' h => hok c' (List.mem_cons_of_mem _ h)
    simp only [solve]
    split
    · exact ⟨he, fun _ _ hg => hg⟩
    · split
      · obtain ⟨i, s⟩ := ih hrest e he
        exact ⟨i, fun σ hs hg => s σ (fun c' h => hs c' (List.mem_cons_of_mem _ h)) hg⟩
      · split
        · rename_i hcon
          refine ⟨inv_bot, fun σ hs _ => ?_⟩
          exact absurd (hs c List.mem_cons_self) (Lin.Cst.not_sat_of_isContradiction hcon σ)
        · obtain ⟨i, s⟩ := ih hrest _ (propagate_inv he hc)
          exact ⟨i, fun σ hs hg => s σ (fun c' h => hs c' (List.mem_cons_of_mem _ h))
            (propagate_sound he hg hc (hs c List.mem_cons_self))⟩

theorem add_inv {e : Env} (he : e.Inv) {csts : Sys} (hok : ∀ c ∈ csts, CstOk c) : (e.add csts).Inv :=
  (solve_spec csts hok e he).1

/-- `operator+=(csts)`: every state of `γ` that satisfies the system is kept -/
theorem add_sound {e : Env} (he : e.Inv) {σ : State} (hg : e.γ σ) {csts : Sys} (hok : ∀ c ∈ csts, CstOk c)
    (hsat : Sys.sat csts σ) : (e.add csts).γ σ := (solve_spec csts hok e he).2 σ hsat hg

theorem single_ok {c : Lin.Cst} (h : CstOk c) : ∀ c' ∈ [c], CstOk c' := by
  intro c' hc'
  simp only [List.mem_cons, List.not_mem_nil, or_false] at hc'
  subst hc'; exact h

/-! ### `assign`, `weak_assign` -/

theorem assign_inv {e : Env} (he : e.Inv) {x : Var} (hx : x < 2 ^ 64) (ex : Expr) : (e.assign x ex).Inv := by
  unfold assign
  split
  · exact he
  · split <;> exact set_inv he hx _

/-- `assign(x, e)`, including the single-variable shortcut -/
theorem assign_sound {e : Env} (he : e.Inv) {σ : State} (hg : e.γ σ) {x : Var} (hx : x < 2 ^ 64) (ex : Expr) :
    (e.assign x ex).γ (upd σ x (ex.eval σ)) := by
  unfold assign
  simp only [hg.1, Bool.false_eq_true, if_false]
  split
  · rename_i v hv
    rw [getVariable_spec hv σ]
    exact set_sound he hg hx (get_mem hg v)
  · exact set_sound he hg hx (eval_sound hg ex)

theorem weakAssign_inv {e : Env} (he : e.Inv) {x : Var} (hx : x < 2 ^ 64) (ex : Expr) : (e.weakAssign x ex).Inv := by
  unfold weakAssign
  split
  · exact he
  · split <;> exact XDom.Env.joinKey_inv cstLaws he hx trivial

/-- `weak_assign(x, e)`: both the old state and the updated state are described -/
theorem weakAssign_sound {e : Env} (he : e.Inv) {σ : State} (hg : e.γ σ) {x : Var} (hx : x < 2 ^ 64) (ex : Expr) :
    (e.weakAssign x ex).γ σ ∧ (e.weakAssign x ex).γ (upd σ x (ex.eval σ)) := by
  unfold weakAssign
  simp only [hg.1, Bool.false_eq_true, if_false]
  split
  · rename_i v hv
    rw [getVariable_spec hv σ]
    exact XDom.Env.joinKey_sound cstLaws he hg hx trivial (get_mem hg v)
  · exact XDom.Env.joinKey_sound cstLaws he hg hx trivial (eval_sound hg ex)

end Env
end CDom
end Crab
