import CrabModel.Dom.ArraySmashItv
import CrabProofs.Lemmas.ArraySmash
import CrabProofs.Lemmas.IDomInst
import CrabProofs.Lemmas.LinSys

/-!
  The exact model of `array_smashing<interval_domain>` (`Crab.Dom.SmashItv`) as an instance of the
  generic functor model (`Crab.Dom.Smash`):

   * `itvBase`: the interval domain (`IDom.SEnv`, the environments with one binding per variable)
     satisfies every law of `Smash.Base`, through the encoding `enc` of the variables;
   * `absP`: an exact state seen as a state of the generic model;
   * every exact operation that has a counterpart in the generic model commutes with `absP`.
-/
namespace Crab
namespace Dom
namespace SmashItv
open Crab.Dom.Arr Crab.IDom

/-! ### the encoding of the variables is a bijection -/

def decVar (n : Nat) : Smash.Var :=
  if n % 3 = 0 then .prog (n / 3) else if n % 3 = 1 then .smashed (n / 3) else .copy (n / 3)

theorem dec_enc (v : Smash.Var) : decVar (enc v) = v := by
  cases v with
  | prog n =>
    have h1 : (3 * n) % 3 = 0 := by omega
    have h2 : (3 * n) / 3 = n := by omega
    simp [enc, decVar, h1, h2]
  | smashed a =>
    have h1 : (3 * a + 1) % 3 = 1 := by omega
    have h2 : (3 * a + 1) / 3 = a := by omega
    simp [enc, decVar, h1, h2]
  | copy a =>
    have h1 : (3 * a + 2) % 3 = 2 := by omega
    have h2 : (3 * a + 2) / 3 = a := by omega
    simp [enc, decVar, h1, h2]

theorem enc_dec (n : Nat) : enc (decVar n) = n := by
  unfold decVar
  by_cases h0 : n % 3 = 0
  · simp only [h0, if_true, enc]
    show (3 * (n / 3) : Nat) = n
    omega
  · by_cases h1 : n % 3 = 1
    · simp only [h1, if_true, enc]
      show (3 * (n / 3) + 1 : Nat) = n
      omega
    · simp only [h0, h1, if_false, enc]
      show (3 * (n / 3) + 2 : Nat) = n
      omega

theorem enc_inj {v w : Smash.Var} (h : enc v = enc w) : v = w := by
  rw [← dec_enc v, ← dec_enc w, h]

/-- the valuation of the base environment's variables given by a generic environment -/
def dec (ρ : Smash.Env) : State := fun n => ρ (decVar n)

theorem dec_at (ρ : Smash.Env) (v : Smash.Var) : dec ρ (enc v) = ρ v := by simp [dec, dec_enc]

theorem dec_set (ρ : Smash.Env) (x : Smash.Var) (v : Int) : dec (ρ.set x v) = upd (dec ρ) (enc x) v := by
  funext n
  simp only [dec, Smash.Env.set, upd]
  by_cases h : n = enc x
  · subst h; simp [dec_enc]
  · have : ¬ decVar n = x := fun h' => h (by rw [← h', enc_dec])
    simp [h, this]

/-! ### expressions -/

theorem eval_mkExpr_fold (σ : State) (τ : Nat → Int) (hτ : ∀ k, σ (enc (.prog k)) = τ k)
    (ts : List (Int × Nat)) (acc : Crab.Lin.Expr) :
    (ts.foldl (fun acc t => Crab.Lin.Expr.add acc (Crab.Lin.Expr.term t.1 (enc (.prog t.2)))) acc).eval σ
      = ts.foldl (fun a t => a + t.1 * τ t.2) (acc.eval σ) := by
  induction ts generalizing acc with
  | nil => rfl
  | cons t rest ih =>
    simp only [List.foldl_cons]
    rw [ih, Crab.Lin.Expr.eval_add, Crab.Lin.Expr.eval_term, hτ]

theorem eval_mkExpr (l : SLin) (ρ : Smash.Env) : (mkExpr l).eval (dec ρ) = l.eval (Smash.progOf ρ) := by
  unfold mkExpr Smash.Lin.eval
  rw [eval_mkExpr_fold (dec ρ) (Smash.progOf ρ) (fun k => dec_at ρ (.prog k))]
  simp

theorem mkExpr_canonical (l : SLin) : (mkExpr l).Canonical := by
  unfold mkExpr
  have : ∀ (ts : List (Int × Nat)) (acc : Crab.Lin.Expr), acc.Canonical →
      (ts.foldl (fun acc t => Crab.Lin.Expr.add acc (Crab.Lin.Expr.term t.1 (enc (.prog t.2)))) acc).Canonical := by
    intro ts
    induction ts with
    | nil => intro acc h; exact h
    | cons t rest ih =>
      intro acc h
      exact ih _ ⟨Crab.Lin.Expr.sorted_add _ h.1, Crab.Lin.Expr.noZero_add _ h.2⟩
  exact this _ _ ⟨Crab.Lin.Expr.sorted_const _, Crab.Lin.Expr.noZero_const _⟩

/-- the right-hand sides the functor hands to the base domain -/
def encR : Smash.RExpr → Crab.Lin.Expr
  | .lin l => mkExpr l
  | .var v => Crab.Lin.Expr.var (enc v)

theorem eval_encR (e : Smash.RExpr) (ρ : Smash.Env) : (encR e).eval (dec ρ) = e.eval ρ := by
  cases e with
  | lin l => exact eval_mkExpr l ρ
  | var v => simp [encR, Smash.RExpr.eval, dec_at]

/-! ### the interval domain satisfies the laws of `Smash.Base` -/

def itvBase : Smash.Base where
  B := SEnv
  γ := fun b ρ => Env.γ b.1 (dec ρ)
  top := SEnv.top
  assign := fun b x e => ⟨b.1.assign (enc x) (encR e), Env.assign_inv Env.sortedInv _ _ _ b.2⟩
  weakAssign := fun b x e => ⟨b.1.weakAssign (enc x) (encR e), Env.weakAssign_sorted _ _ _ b.2⟩
  expand := fun b x y => ⟨b.1.expand (enc x) (enc y), Env.expand_inv Env.sortedInv _ _ _ b.2⟩
  forget := fun b x => ⟨b.1.forget (enc x), Env.forget_sorted _ _ b.2⟩
  assume := fun b _ => b
  join := SEnv.join
  widen := SEnv.widen
  isBot := fun b => b.1.bottom
  top_sound := fun ρ => Env.γ_top _
  assign_sound := by
    intro b x e ρ h
    have := Env.assign_sound h (enc x) (encR e)
    rw [eval_encR] at this
    show Env.γ _ (dec (ρ.set x (e.eval ρ)))
    rw [dec_set]; exact this
  weakAssign_sound := by
    intro b x e ρ h
    have := Env.weakAssign_sound h (enc x) (encR e)
    rw [eval_encR] at this
    refine ⟨this.1, ?_⟩
    show Env.γ _ (dec (ρ.set x (e.eval ρ)))
    rw [dec_set]; exact this.2
  expand_sound := by
    intro b x y ρ₁ ρ₂ h1 h2 _
    have hm : Itv.mem (ρ₂ x) (b.1.get (enc x)) := by
      have := h2.2 (enc x)
      rwa [dec_at] at this
    have := Env.expand_sound h1 (enc x) (enc y) hm
    show Env.γ _ (dec (ρ₁.set y (ρ₂ x)))
    rw [dec_set]; exact this
  forget_sound := by
    intro b x ρ v h
    show Env.γ _ (dec (ρ.set x v))
    rw [dec_set]; exact Env.forget_sound h (enc x) v
  assume_sound := fun _ _ _ h _ => h
  join_sound_l := fun a b _ h => Env.join_upper_left a.2 b.1 h
  join_sound_r := fun a _ _ h => Env.join_upper_right a.2 h
  widen_sound_l := fun a b _ h => Env.widen_upper_left a.2 b.1 h
  widen_sound_r := fun a _ _ h => Env.widen_upper_right a.2 h
  isBot_sound := fun _ _ h => Env.not_γ_bottom h _

/-! ### the size environment -/

theorem find_remove_same (m : SzMap) (a : Nat) : (m.remove a).find a = none := by
  induction m with
  | nil => rfl
  | cons p rest ih =>
    obtain ⟨k, v⟩ := p
    simp only [SzMap.remove] at ih ⊢
    rw [List.filter_cons]
    by_cases h : k = a
    · simp only [h, bne_self_eq_false, Bool.false_eq_true, if_false]; exact ih
    · have h' : ¬ a = k := fun e => h e.symm
      have hb : (k != a) = true := by simp [h]
      simp only [hb, if_true, SzMap.find, h', if_false]; exact ih

theorem find_remove_ne (m : SzMap) {a b : Nat} (h : b ≠ a) : (m.remove a).find b = m.find b := by
  induction m with
  | nil => rfl
  | cons p rest ih =>
    obtain ⟨k, v⟩ := p
    simp only [SzMap.remove] at ih ⊢
    rw [List.filter_cons]
    by_cases hk : k = a
    · have : ¬ b = k := fun e => h (e.trans hk)
      simp only [hk, bne_self_eq_false, Bool.false_eq_true, if_false, SzMap.find]
      rw [← hk]; simp only [this, if_false]; rw [hk]; exact ih
    · have hb : (k != a) = true := by simp [hk]
      simp only [hb, if_true, SzMap.find]
      by_cases hbk : b = k
      · simp [hbk]
      · simp only [hbk, if_false]; exact ih

theorem mem_keys_iff (m : SzMap) (a : Nat) : a ∈ SzMap.keys m ↔ (m.find a).isSome = true := by
  induction m with
  | nil => simp [SzMap.keys, SzMap.find]
  | cons p rest ih =>
    obtain ⟨k, v⟩ := p
    by_cases h : a = k
    · subst h; simp [SzMap.keys, SzMap.find]
    · have : SzMap.keys ((k, v) :: rest) = k :: SzMap.keys rest := rfl
      rw [this, List.mem_cons]
      simp only [h, false_or, SzMap.find, if_false]
      exact ih

theorem find_build (ks : List Nat) (f : Nat → Option Nat) (a : Nat) :
    (SzMap.build ks f).find a = if a ∈ ks then f a else none := by
  induction ks with
  | nil => rfl
  | cons k rest ih =>
    unfold SzMap.build at ih ⊢
    by_cases h : a = k
    · subst h
      simp only [List.filterMap_cons, List.mem_cons, true_or, if_true]
      cases hf : f a with
      | none =>
        simp only []
        rw [ih]
        split
        · exact hf
        · rfl
      | some v => simp [SzMap.find]
    · simp only [List.filterMap_cons, List.mem_cons, h, false_or]
      cases hf : f k with
      | none => simp only []; exact ih
      | some v => simp only [SzMap.find, h, if_false]; exact ih

end SmashItv
end Dom
end Crab
