import CrabProofs.Lemmas.XDomSgn

/-!
  `sign_domain` (model `Crab.SDom`): soundness of `eval_expr`, `compute_residual`,
  `extract_sign_constraints` and of the two lambdas of `solve_constraints`.

  The facts `pivot OP res` extracted from a constraint `e ⋈ 0` with pivot term `coef * pivot` are
  read as follows (`Fact`): for some integer `ρ` (the value of the residual),
  `coef * σ pivot = ρ + e(σ)`, and `res` contains the sign of the rational quotient `ρ / coef`
  (that is, of `ρ * coef`) and is not `!= 0`.  The second part is a check on the extracted
  division table (`divCheck`): with a truncating division the quotient of two non-zero numbers
  can be zero, so `x / s` for a non-zero sign `s` is never `!= 0`, `< 0` or `> 0`, and the branch
  "`v != rhs` with `rhs.not_equal_zero()`" of `solve_constraints` (which would be unsound: it
  concludes `v == 0`) is dead code.
-/
namespace Crab
namespace SDom
open XDom Lin

local notation "SL" => signLattice

/-- class of a product with a number of sign `s` (`s` is `< 0` or `> 0`) -/
def mulCls (c : Cls) (s : Sign) : Cls :=
  match s, c with
  | .ltz, .neg => .pos
  | .ltz, .pos => .neg
  | _, c => c

/-- the division table, divisor `< 0` or `> 0`: the result is never `!= 0` and contains the
    sign of the rational quotient for every class of the dividend -/
def divCheck : Bool :=
  [Sign.ltz, Sign.gtz].all (fun s => Sign.all.all (fun r =>
    sop .div r s != .nez && Cls.all.all (fun c => !r.has c || (sop .div r s).has (mulCls c s))))

theorem divCheck_ok : divCheck = true := by decide +kernel

theorem ofInt_cases {k : Int} (hk : k ≠ 0) : (k < 0 ∧ Sign.ofInt k = .ltz) ∨ (0 < k ∧ Sign.ofInt k = .gtz) := by
  unfold Sign.ofInt
  by_cases h : k < 0
  · left; simp [hk, h]
  · right; exact ⟨by omega, by simp [hk, h]⟩

theorem cls_mul {ρ coef : Int} (hk : coef ≠ 0) : Cls.of (ρ * coef) = mulCls (Cls.of ρ) (Sign.ofInt coef) := by
  have hm := mul_sign ρ coef
  rcases ofInt_cases hk with ⟨hc, e⟩ | ⟨hc, e⟩ <;> rw [e] <;>
    rcases Cls.of_cases ρ with ⟨hr, e2⟩ | ⟨hr, e2⟩ | ⟨hr, e2⟩ <;> rw [e2] <;> simp only [mulCls]
  · exact Cls.of_pos (hm.2.2.2.1 hr hc)
  · rw [hm.2.2.2.2.1 hr]; exact Cls.of_zero
  · exact Cls.of_neg (hm.2.1 hr hc)
  · exact Cls.of_neg (hm.2.2.1 hr hc)
  · rw [hm.2.2.2.2.1 hr]; exact Cls.of_zero
  · exact Cls.of_pos (hm.1 hr hc)

/-- a quotient by the sign of a non-zero number is never `!= 0` -/
theorem div_ne_nez (r : Sign) {coef : Int} (hk : coef ≠ 0) : sop .div r (Sign.ofInt coef) ≠ .nez := by
  have hs : Sign.ofInt coef ∈ [Sign.ltz, Sign.gtz] := by
    rcases ofInt_cases hk with ⟨_, e⟩ | ⟨_, e⟩ <;> rw [e] <;> simp
  have h1 := List.all_eq_true.mp divCheck_ok _ hs
  have h2 := List.all_eq_true.mp h1 r (Sign.mem_all r)
  simp only [Bool.and_eq_true, bne_iff_ne, ne_eq] at h2
  exact h2.1

/-- the division of a residual by the sign of a non-zero coefficient -/
theorem div_fact {r : Sign} {ρ coef : Int} (hρ : Sign.mem ρ r) (hk : coef ≠ 0) :
    sop .div r (Sign.ofInt coef) ≠ .nez ∧ Sign.mem (ρ * coef) (sop .div r (Sign.ofInt coef)) := by
  have hs : Sign.ofInt coef ∈ [Sign.ltz, Sign.gtz] := by
    rcases ofInt_cases hk with ⟨_, e⟩ | ⟨_, e⟩ <;> rw [e] <;> simp
  have h1 := List.all_eq_true.mp divCheck_ok _ hs
  have h2 := List.all_eq_true.mp h1 r (Sign.mem_all r)
  simp only [Bool.and_eq_true, bne_iff_ne, ne_eq, List.all_eq_true, Bool.or_eq_true,
    Bool.not_eq_true'] at h2
  refine ⟨h2.1, ?_⟩
  unfold Sign.mem
  rw [cls_mul hk]
  rcases h2.2 (Cls.of ρ) (Cls.mem_all _) with h | h
  · rw [hρ] at h; cases h
  · exact h

namespace Env

def Inv (e : Env) : Prop := XDom.Env.Inv SL e
def γ (e : Env) (σ : State) : Prop := XDom.Env.γ SL Sign.mem e σ

theorem inv_bot : (bot : Env).Inv := XDom.Env.inv_bot
theorem inv_top : (top : Env).Inv := XDom.Env.inv_top
theorem not_γ_of_bot {e : Env} (h : e.isBot = true) (σ : State) : ¬ e.γ σ := XDom.Env.not_γ_of_bot h σ
theorem get_mem {e : Env} {σ : State} (hg : e.γ σ) (x : Var) : Sign.mem (σ x) (e.get x) := hg.2 x

theorem set_inv {e : Env} (he : e.Inv) {x : Var} (hx : x < 2 ^ 64) (v : Sign) : (e.set x v).Inv :=
  XDom.Env.set_inv signLaws he hx (v := v) trivial
theorem set_sound {e : Env} (he : e.Inv) {σ : State} (hg : e.γ σ) {x : Var} (hx : x < 2 ^ 64)
    {v : Sign} {n : Int} (hn : Sign.mem n v) : (e.set x v).γ (upd σ x n) :=
  XDom.Env.set_sound signLaws he hg hx trivial hn
theorem set_sound_same {e : Env} (he : e.Inv) {σ : State} (hg : e.γ σ) {x : Var} (hx : x < 2 ^ 64)
    {v : Sign} (hn : Sign.mem (σ x) v) : (e.set x v).γ σ :=
  XDom.Env.set_sound_same signLaws he hg hx trivial hn

/-! ### `eval_expr`, `compute_residual` -/

theorem evalFold_sound {e : Env} {σ : State} (hg : e.γ σ) : ∀ (ts : List (Var × Int)) (r : Sign) (acc : Int),
    Sign.mem acc r → Sign.mem (acc + Expr.evalTerms σ ts)
      (ts.foldl (fun r p => sop .add r (sop .mul (Sign.ofInt p.2) (e.get p.1))) r) := by
  intro ts
  induction ts with
  | nil => intro r acc h; simpa [Expr.evalTerms] using h
  | cons p rest ih =>
    intro r acc h
    obtain ⟨v, c⟩ := p
    simp only [List.foldl_cons, Expr.evalTerms]
    have h1 : Sign.mem (acc + c * σ v) (sop .add r (sop .mul (Sign.ofInt c) (e.get v))) :=
      sop_sound .add h (sop_sound .mul (C08.sgn_ofInt_sound c) (get_mem hg v) rfl) rfl
    have := ih _ _ h1
    have e1 : acc + (c * σ v + Expr.evalTerms σ rest) = acc + c * σ v + Expr.evalTerms σ rest := by omega
    rw [e1]; exact this

/-- `eval_expr(expr)` contains the value of the expression -/
theorem eval_sound {e : Env} {σ : State} (hg : e.γ σ) (ex : Expr) : Sign.mem (ex.eval σ) (e.eval ex) := by
  unfold eval
  simp only [hg.1, Bool.false_eq_true, if_false]
  have := evalFold_sound hg ex.terms (Sign.ofInt ex.cst) ex.cst (C08.sgn_ofInt_sound _)
  unfold Expr.eval
  have e1 : Expr.evalTerms σ ex.terms + ex.cst = ex.cst + Expr.evalTerms σ ex.terms := by omega
  rw [e1]; exact this

theorem residualFold_sound {e : Env} {σ : State} (hg : e.γ σ) (pivot : Var) :
    ∀ (ts : List (Var × Int)) (r : Sign) (acc : Int), Sign.mem acc r →
      Sign.mem (acc - IDom.restSum σ pivot ts)
        (ts.foldl (fun r p => if p.1 ≠ pivot then sop .sub r (sop .mul (Sign.ofInt p.2) (e.get p.1)) else r) r) := by
  intro ts
  induction ts with
  | nil => intro r acc h; simpa [IDom.restSum] using h
  | cons p rest ih =>
    intro r acc h
    obtain ⟨v, c⟩ := p
    simp only [List.foldl_cons, IDom.restSum]
    by_cases hv : v = pivot
    · simp only [hv, ne_eq, not_true_eq_false, if_false, if_true]; exact ih r acc h
    · simp only [hv, ne_eq, not_false_eq_true, if_true, if_false]
      have h1 : Sign.mem (acc - c * σ v) (sop .sub r (sop .mul (Sign.ofInt c) (e.get v))) :=
        sop_sound .sub h (sop_sound .mul (C08.sgn_ofInt_sound c) (get_mem hg v) rfl) rfl
      have := ih _ _ h1
      have e1 : acc - (c * σ v + IDom.restSum σ pivot rest) = acc - c * σ v - IDom.restSum σ pivot rest := by omega
      rw [e1]; exact this

/-- `compute_residual(e, pivot)` contains minus the constant minus the other terms -/
theorem computeResidual_sound {e : Env} {σ : State} (hg : e.γ σ) (ex : Expr) (pivot : Var) :
    Sign.mem (-ex.cst - IDom.restSum σ pivot ex.terms) (e.computeResidual ex pivot) :=
  residualFold_sound hg pivot ex.terms _ _ (C08.sgn_ofInt_sound _)

/-! ### `extract_sign_constraints` -/

/-- meaning of an extracted fact `(pivot, coef, res)` for the constraint expression `ex` in the
    state `σ` -/
def Fact (σ : State) (ex : Expr) (t : Var × Int × Sign) : Prop :=
  t.2.1 ≠ 0 ∧ t.1 < 2 ^ 64 ∧ t.2.2 ≠ .nez ∧
    ∃ ρ : Int, Sign.mem (ρ * t.2.1) t.2.2 ∧ t.2.1 * σ t.1 = ρ + ex.eval σ

theorem extract_facts {e : Env} {σ : State} (hg : e.γ σ) {ex : Expr} (hc : ex.Canonical) (hv : VarsLt ex) :
    ∀ t ∈ e.extract ex, Fact σ ex t := by
  intro t ht
  unfold extract at ht
  rw [List.mem_filterMap] at ht
  obtain ⟨p, hp, hpt⟩ := ht
  obtain ⟨pivot, coef⟩ := p
  simp only at hpt
  split at hpt
  · cases hpt
  · split at hpt
    · simp only [Option.some.injEq] at hpt
      subst hpt
      have hne : coef ≠ 0 := hc.2 _ hp
      have hr := computeResidual_sound hg ex pivot
      obtain ⟨d1, d2⟩ := div_fact hr hne
      refine ⟨hne, hv _ hp, d1, _, d2, ?_⟩
      simp only
      unfold Expr.eval
      rw [IDom.evalTerms_split σ hc.1 hp]
      omega
    · cases hpt

end Env
end SDom
end Crab
