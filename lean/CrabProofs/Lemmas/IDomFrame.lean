import CrabProofs.Lemmas.IDomSorted
import CrabProofs.Lemmas.IDomSolver
import CrabProofs.Lemmas.LinSys

/-!
  Frame property of `operator+=` of the interval domain: the constraint solver updates (`set`)
  only variables that occur in the constraints.  Stated like `EnvInv` (IDomSorted.lean) for a
  predicate on environments preserved by `set` on the keys of a set `K` only; `Env.add_on` is the
  result for a system whose variables are all in `K`.  Instance: a key outside `K` that is unbound
  stays unbound (`add_unbound`).
-/
namespace Crab
namespace IDom
open Lin

/-- a predicate on environments preserved by `set` on the keys in `K` -/
structure EnvInvOn (K : Var → Prop) (P : Env → Prop) : Prop where
  bot : P Env.bot
  set : ∀ e k v, K k → P e → P (e.set k v)

/-- every variable of every constraint is in `K` -/
def CstsIn (K : Var → Prop) (tbl : List Cst) : Prop := ∀ c ∈ tbl, ∀ p ∈ c.expr.terms, K p.1

section generic
variable {K : Var → Prop} {P : Env → Prop} (hP : EnvInvOn K P)
include hP

theorem refine_on (st : SolverSt) (v : Var) (i : Itv) (hv : K v) (h : P st.env) : P (refine st v i).2.env := by
  unfold refine
  simp only []
  split
  · exact h
  · split
    · exact hP.set _ _ _ hv h
    · exact h

theorem propagateTerm_on (c : Cst) (st : SolverSt) (pivot : Var) (coef : Int) (hv : K pivot) (h : P st.env) :
    P (propagateTerm c st pivot coef).2.env := by
  unfold propagateTerm
  simp only []
  generalize computeResidual c pivot st.env st.ops = ro
  generalize (if (!ro.1.isTop) = true then divT ro.1 (Itv.single coef) else Itv.top) = rhs
  have h' : P (SolverSt.mk st.env st.refined ro.2).env := h
  cases c.kind with
  | eq => exact refine_on hP _ _ _ hv h'
  | leq =>
    simp only []
    by_cases hc : coef > 0
    · simp only [hc, if_true]; exact refine_on hP _ _ _ hv h'
    · simp only [hc, if_false]; exact refine_on hP _ _ _ hv h'
  | lt => exact h
  | neq =>
    simp only []
    by_cases h1 : (!Itv.beq (Itv.mul rhs (Itv.single coef)) ro.1) = true
    · simp only [h1, if_true]; exact h
    · simp only [h1]
      by_cases h2 : (Itv.trim (st.env.get pivot) rhs).isBottom = true
      · simp only [h2, if_true]; exact h
      · simp only [h2]
        by_cases h3 : (!Itv.beq (st.env.get pivot) (Itv.trim (st.env.get pivot) rhs)) = true
        · simp only [h3, if_true]; exact hP.set _ _ _ hv h
        · simp only [h3]; exact h

theorem propagateLoop_on (c : Cst) : ∀ (ts : List (Var × Int)) (st : SolverSt), (∀ p ∈ ts, K p.1) → P st.env →
    P (propagateLoop c ts st).2.env := by
  intro ts
  induction ts with
  | nil => intro st _ h; exact h
  | cons p rest ih =>
    obtain ⟨v, k⟩ := p
    intro st hk h
    have h1 := propagateTerm_on hP c st v k (hk (v, k) List.mem_cons_self) h
    unfold propagateLoop
    generalize propagateTerm c st v k = r at h1
    obtain ⟨b, st'⟩ := r
    cases b
    · exact ih st' (fun p hp => hk p (List.mem_cons_of_mem _ hp)) h1
    · exact h1

theorem propagateAll_on : ∀ (tbl : List Cst) (st : SolverSt), CstsIn K tbl → P st.env →
    P (propagateAll tbl st).2.env := by
  intro tbl
  induction tbl with
  | nil => intro st _ h; exact h
  | cons c rest ih =>
    intro st hk h
    have h1 := propagateLoop_on hP c c.expr.terms st (hk c List.mem_cons_self) h
    unfold propagateAll propagate
    generalize propagateLoop c c.expr.terms st = r at h1
    obtain ⟨b, st'⟩ := r
    cases b
    · exact ih st' (fun c' hc' => hk c' (List.mem_cons_of_mem _ hc')) h1
    · exact h1

theorem solveSmallLoop_on (tbl : List Cst) (hk : CstsIn K tbl) : ∀ (fuel : Nat) (st : SolverSt), P st.env →
    P (solveSmallLoop tbl fuel st).2.env := by
  intro fuel
  induction fuel with
  | zero =>
    intro st h
    have h1 := propagateAll_on hP tbl ⟨st.env, [], st.ops⟩ hk h
    unfold solveSmallLoop
    generalize propagateAll tbl ⟨st.env, [], st.ops⟩ = r at h1
    obtain ⟨b, st'⟩ := r
    cases b <;> exact h1
  | succ n ih =>
    intro st h
    have h1 := propagateAll_on hP tbl ⟨st.env, [], st.ops⟩ hk h
    unfold solveSmallLoop
    generalize propagateAll tbl ⟨st.env, [], st.ops⟩ = r at h1
    obtain ⟨b, st'⟩ := r
    cases b
    · simp only []; split
      · exact ih st' h1
      · exact h1
    · exact h1

omit hP in
theorem trigger_in (tbl : List Cst) (hk : CstsIn K tbl) (vars : List Var) :
    CstsIn K (vars.flatMap (trigger tbl)) :=
  fun c hc => hk c (trigger_subset tbl vars c hc)

theorem solveLargeLoop_on (tbl : List Cst) (hk : CstsIn K tbl) (maxOp : Nat) :
    ∀ (fuel : Nat) (st : SolverSt), P st.env → P (solveLargeLoop tbl maxOp fuel st).2.env := by
  intro fuel
  induction fuel with
  | zero =>
    intro st h
    have h1 := propagateAll_on hP (st.refined.flatMap (trigger tbl)) ⟨st.env, [], st.ops⟩
      (trigger_in (K := K) tbl hk _) h
    unfold solveLargeLoop
    simp only []
    generalize propagateAll (st.refined.flatMap (trigger tbl)) ⟨st.env, [], st.ops⟩ = r at h1
    obtain ⟨b, st'⟩ := r
    cases b <;> exact h1
  | succ n ih =>
    intro st h
    have h1 := propagateAll_on hP (st.refined.flatMap (trigger tbl)) ⟨st.env, [], st.ops⟩
      (trigger_in (K := K) tbl hk _) h
    unfold solveLargeLoop
    simp only []
    generalize propagateAll (st.refined.flatMap (trigger tbl)) ⟨st.env, [], st.ops⟩ = r at h1
    obtain ⟨b, st'⟩ := r
    cases b
    · simp only []; split
      · exact ih st' h1
      · exact h1
    · exact h1

theorem solveLarge_on (tbl : List Cst) (hk : CstsIn K tbl) (maxOp : Nat) (st : SolverSt) (h : P st.env) :
    P (solveLarge tbl maxOp st).2.env := by
  unfold solveLarge
  have h1 := propagateAll_on hP tbl ⟨st.env, [], 0⟩ hk h
  generalize propagateAll tbl ⟨st.env, [], 0⟩ = r at h1
  obtain ⟨b, st'⟩ := r
  cases b
  · exact solveLargeLoop_on hP _ hk _ _ st' h1
  · exact h1

omit hP in
theorem prepLoop_in : ∀ (csts tbl : List Cst) (opc : Nat), CstsIn K csts → CstsIn K tbl →
    CstsIn K (prepLoop csts tbl opc).tbl := by
  intro csts
  induction csts with
  | nil => intro tbl opc _ h; exact h
  | cons c rest ih =>
    intro tbl opc hc ht
    have hrest : CstsIn K rest := fun c' hc' => hc c' (List.mem_cons_of_mem _ hc')
    have hcc := hc c List.mem_cons_self
    unfold prepLoop
    split
    · exact ht
    · split
      · exact ih tbl opc hrest ht
      · split
        · apply ih _ _ hrest
          intro c' hc'
          rcases List.mem_append.1 hc' with h | h
          · exact ht c' h
          · simp only [List.mem_cons, List.not_mem_nil, or_false] at h
            rcases h with h | h <;> (subst h; exact hcc)
        · apply ih _ _ hrest
          intro c' hc'
          rcases List.mem_append.1 hc' with h | h
          · exact ht c' h
          · simp only [List.mem_singleton] at h; subst h; exact hcc

theorem solverRun_on (csts : Sys) (hk : CstsIn K csts) (maxCycles : Nat) (env : Env) (h : P env) :
    P (solverRun csts maxCycles env) := by
  unfold solverRun
  simp only []
  have hp := prepLoop_in (K := K) csts [] 0 hk (fun _ hc => absurd hc (by simp))
  generalize prepLoop csts [] 0 = p at hp
  by_cases hc : p.contradiction = true
  · simp only [hc, if_true]; exact hP.bot
  · simp only [hc]
    generalize hr : (if (decide (p.tbl.length > largeCstThreshold) || decide (p.opc > largeOpThreshold)) = true
        then solveLarge p.tbl (p.opc * maxCycles) ⟨env, [], 0⟩
        else solveSmall p.tbl maxCycles ⟨env, [], 0⟩) = r
    have hr' : P r.2.env := by
      rw [← hr]
      split
      · exact solveLarge_on hP _ hp _ _ h
      · exact solveSmallLoop_on hP _ hp _ ⟨env, [], 0⟩ h
    by_cases hb : r.1 = true
    · simp only [hb, if_true]; exact hP.bot
    · simp only [hb]; exact hr'

omit hP in
theorem addCst_in {s : Sys} {c : Cst} (hs : CstsIn K s) (hc : ∀ p ∈ c.expr.terms, K p.1) :
    CstsIn K (Sys.addCst s c) := by
  intro c' hc'
  rcases Sys.mem_addCst.1 hc' with h | h
  · exact hs c' h
  · subst h; exact hc

omit hP in
theorem binaryOperands_vars {c : Cst} {x y : Var} (h : Env.binaryOperands c = some (x, y)) :
    ∃ nx ny, c.expr.terms = [(x, nx), (y, ny)] := by
  unfold Env.binaryOperands at h
  split at h
  · split at h
    · split at h
      · rename_i vx nx vy ny hts
        split at h
        · simp only [Option.some.injEq, Prod.mk.injEq] at h
          obtain ⟨h1, h2⟩ := h
          subst h1; subst h2
          exact ⟨nx, ny, hts⟩
        · simp at h
      · simp at h
    · simp at h
  · simp at h

omit hP in
theorem sub_var_var_in {x y : Var} (hx : K x) (hy : K y) :
    ∀ p ∈ (Expr.sub (Expr.var x) (Expr.var y)).terms, K p.1 := by
  intro p hp
  simp only [Expr.sub, Expr.var, List.foldl_cons, List.foldl_nil] at hp
  rcases Expr.mem_addTerm hp with h | h
  · simp only [List.mem_singleton] at h; subst h; exact hx
  · rw [h.1]; exact hy

omit hP in
theorem var_subVar_in {x y : Var} (hx : K x) (hy : K y) :
    ∀ p ∈ ((Expr.var x).subVar y).terms, K p.1 := by
  intro p hp
  simp only [Expr.subVar, Expr.var] at hp
  rcases Expr.mem_addTerm hp with h | h
  · simp only [List.mem_singleton] at h; subst h; exact hx
  · rw [h.1]; exact hy

omit hP in
theorem lowerDisequality_in (e : Env) (c : Cst) (out : Sys) (hc : ∀ p ∈ c.expr.terms, K p.1)
    (ho : CstsIn K out) : CstsIn K (Env.lowerDisequality e c out) := by
  unfold Env.lowerDisequality
  split
  · rename_i x y hb
    obtain ⟨nx, ny, hts⟩ := binaryOperands_vars hb
    have hx : K x := hc (x, nx) (by rw [hts]; simp)
    have hy : K y := hc (y, ny) (by rw [hts]; simp)
    simp only []
    split
    · exact addCst_in ho (sub_var_var_in hx hy)
    · split
      · exact addCst_in ho (sub_var_var_in hy hx)
      · exact ho
  · exact ho

omit hP in
theorem preprocess_in (e : Env) : ∀ (cs : List Cst) (pp : Sys), CstsIn K cs → CstsIn K pp →
    CstsIn K (Env.preprocess e cs pp) := by
  intro cs
  induction cs with
  | nil => intro pp _ h; exact h
  | cons c rest ih =>
    intro pp hc hp
    have hcc := hc c List.mem_cons_self
    unfold Env.preprocess
    apply ih _ (fun c' hc' => hc c' (List.mem_cons_of_mem _ hc'))
    apply addCst_in _ hcc
    split
    · exact lowerDisequality_in e c pp hcc hp
    · exact hp

/-- `operator+=`: only variables of the system are updated -/
theorem Env.add_on (e : Env) (csts : Sys) (hk : CstsIn K csts) (h : P e) : P (e.add csts) := by
  unfold Env.add
  split
  · exact h
  · exact solverRun_on hP _ (preprocess_in e csts [] hk (fun _ hc => absurd hc (by simp))) _ _ h

end generic

/-- a key is not bound in the environment (vacuous for bottom) -/
def Env.Unbound (e : Env) (k : Var) : Prop := e.bottom = true ∨ e.m.find k = none

theorem Env.unbound_bot (k : Var) : Env.bot.Unbound k := Or.inl rfl
theorem Env.unbound_top (k : Var) : Env.top.Unbound k := Or.inr rfl

theorem Env.get_of_unbound {e : Env} {k : Var} (h : e.Unbound k) (hb : e.bottom = false) : e.get k = Itv.top := by
  rcases h with h | h
  · rw [hb] at h; exact absurd h (by simp)
  · simp [Env.get, hb, h]

theorem Env.unbound_set_ne {e : Env} {k k' : Var} (v : Itv) (hne : k ≠ k') (h : e.Unbound k) :
    (e.set k' v).Unbound k := by
  unfold Env.set
  split
  · exact h
  · rename_i hb
    have hf : e.m.find k = none := h.elim (fun h' => absurd h' hb) id
    split
    · exact Env.unbound_bot k
    · split
      · right; show Map.find (Map.remove e.m k') k = none
        rw [Map.find_remove]; simp only [hne, if_false]; exact hf
      · right; show Map.find (Map.insert e.m k' v) k = none
        rw [Map.find_insert]; simp only [hne, if_false]; exact hf

theorem unbound_invOn (K : Var → Prop) (k : Var) (hk : ¬ K k) : EnvInvOn K (fun e => e.Unbound k) where
  bot := Env.unbound_bot k
  set := fun _ _ v hk' h => Env.unbound_set_ne v (fun e' => hk (e' ▸ hk')) h

/-- an unbound key that does not occur in the system stays unbound -/
theorem Env.add_unbound (K : Var → Prop) (e : Env) (csts : Sys) (hin : CstsIn K csts) (k : Var) (hk : ¬ K k)
    (h : e.Unbound k) : (e.add csts).Unbound k :=
  Env.add_on (unbound_invOn K k hk) e csts hin h

theorem Env.unbound_forget_ne {e : Env} {k k' : Var} (hne : k ≠ k') (h : e.Unbound k) : (e.forget k').Unbound k := by
  unfold Env.forget
  split
  · exact h
  · rename_i hb
    have hf : e.m.find k = none := h.elim (fun h' => absurd h' hb) id
    right; show Map.find (Map.remove e.m k') k = none
    rw [Map.find_remove]; simp only [hne, if_false]; exact hf

theorem Env.unbound_forget_same (e : Env) (k : Var) : (e.forget k).Unbound k := by
  unfold Env.forget
  split
  · rename_i hb; exact Or.inl hb
  · right; show Map.find (Map.remove e.m k) k = none
    rw [Map.find_remove]; simp

theorem Env.unbound_joinKey_ne {e : Env} {k k' : Var} (v : Itv) (hne : k ≠ k') (h : e.Unbound k) :
    (e.joinKey k' v).Unbound k := by
  unfold Env.joinKey
  split
  · exact h
  · rename_i hb
    have hf : e.m.find k = none := h.elim (fun h' => absurd h' hb) id
    have hrem : Env.Unbound ⟨false, Map.remove e.m k'⟩ k := by
      right; show Map.find (Map.remove e.m k') k = none
      rw [Map.find_remove]; simp only [hne, if_false]; exact hf
    split
    · exact Env.unbound_bot k
    · split
      · exact hrem
      · split
        · exact hrem
        · simp only []
          split
          · exact hrem
          · right; show Map.find (Map.insert e.m k' _) k = none
            rw [Map.find_insert]; simp only [hne, if_false]; exact hf

theorem Env.unbound_assign_ne {e : Env} {k x : Var} (ex : Expr) (hne : k ≠ x) (h : e.Unbound k) :
    (e.assign x ex).Unbound k := by
  unfold Env.assign; split <;> exact Env.unbound_set_ne _ hne h

theorem Env.unbound_weakAssign_ne {e : Env} {k x : Var} (ex : Expr) (hne : k ≠ x) (h : e.Unbound k) :
    (e.weakAssign x ex).Unbound k := by
  unfold Env.weakAssign; split <;> exact Env.unbound_joinKey_ne _ hne h

theorem Env.unbound_expand_ne {e : Env} {k x nx : Var} (hne : k ≠ nx) (h : e.Unbound k) :
    (e.expand x nx).Unbound k := by
  unfold Env.expand; split
  · exact h
  · exact Env.unbound_set_ne _ hne h

/-- join / widening of two environments that are not bottom: a key unbound on one side is unbound -/
theorem Env.unbound_upperWith (op : Itv → Itv → Itv) {a b : Env} (hs : a.m.Sorted) (ha : a.bottom = false)
    (hb : b.bottom = false) {k : Var} (h : a.Unbound k ∨ b.Unbound k) : (Env.upperWith op a b).Unbound k := by
  right
  simp only [Env.upperWith, ha, hb, Bool.false_eq_true, if_false]
  rw [Map.find_mergeAbs op hs]
  rcases h with h | h
  · have hf : a.m.find k = none := h.elim (fun h' => absurd h' (by simp [ha])) id
    simp [hf]
  · have hf : b.m.find k = none := h.elim (fun h' => absurd h' (by simp [hb])) id
    cases a.m.find k <;> simp [hf]

/-- meet / narrowing: a key unbound on both sides is unbound -/
theorem Env.unbound_lowerWith (op : Itv → Itv → Itv) {a b : Env} {k : Var} (ha : a.Unbound k) (hb : b.Unbound k) :
    (Env.lowerWith op a b).Unbound k := by
  unfold Env.lowerWith
  split
  · exact Env.unbound_bot k
  · rename_i hbb
    simp only [Bool.or_eq_true, not_or, Bool.not_eq_true] at hbb
    split
    · exact Env.unbound_bot k
    · right
      show Map.find (Map.mergeKeep op a.m b.m) k = none
      have h1 : a.m.find k = none := ha.elim (fun h' => absurd h' (by simp [hbb.1])) id
      have h2 : b.m.find k = none := hb.elim (fun h' => absurd h' (by simp [hbb.2])) id
      rw [Map.find_mergeKeep, h1, h2]

end IDom
end Crab
