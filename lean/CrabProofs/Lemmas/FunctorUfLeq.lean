import CrabProofs.Lemmas.FunctorUfJoin

/-!
`uf_domain`: `map_leq` and `operator<=` (after repo commit 7d37137: the loop runs over the
variables of the RIGHT operand).  A successful run leaves a functional map `M` from the terms of
the right table to terms of the left table that commutes with constants and applications; a
valuation of the left table then induces one of the right table.
-/
namespace Crab
namespace Dom
namespace Fct
namespace Uf
set_option linter.unusedSectionVars false

variable {V F : Type} [DecidableEq V] [DecidableEq F] (I : F → List Int → Int)

abbrev TMap (F : Type) := List (Term F × Term F)

mutual
/-- `tx` is the image of `ty`, its arguments are mapped by `M` -/
def Rel (M : TMap F) : Term F → Term F → Prop
  | _, .var _ => True
  | tx, .const k => tx = .const k
  | tx, .app g ys => ∃ xs, tx = .app g xs ∧ RelL M xs ys
def RelL (M : TMap F) : List (Term F) → List (Term F) → Prop
  | xs, [] => xs = []
  | xs, y :: ys => ∃ x xs', xs = x :: xs' ∧ look M y = some x ∧ RelL M xs' ys
end

def MOK (M : TMap F) : Prop := ∀ ty tx, look M ty = some tx → Rel M tx ty
def Sub (M M' : TMap F) : Prop := ∀ k v, look M k = some v → look M' k = some v

theorem Sub.refl (M : TMap F) : Sub M M := fun _ _ h => h
theorem Sub.trans {M M' M'' : TMap F} (h1 : Sub M M') (h2 : Sub M' M'') : Sub M M'' :=
  fun k v h => h2 k v (h1 k v h)

theorem sub_cons {M : TMap F} {k v : Term F} (h : look M k = none) : Sub M ((k, v) :: M) := by
  intro k' v' h'
  by_cases he : k = k'
  · subst he; rw [h] at h'; cases h'
  · rw [look_cons_ne _ _ he]; exact h'

mutual
theorem rel_mono {M M' : TMap F} (h : Sub M M') : (tx ty : Term F) → Rel M tx ty → Rel M' tx ty
  | _, .var _, _ => by simp [Rel]
  | tx, .const k, hr => by simp only [Rel] at hr ⊢; exact hr
  | tx, .app g ys, hr => by
    simp only [Rel] at hr ⊢
    obtain ⟨xs, h1, h2⟩ := hr
    exact ⟨xs, h1, relL_mono h xs ys h2⟩
theorem relL_mono {M M' : TMap F} (h : Sub M M') : (xs ys : List (Term F)) → RelL M xs ys → RelL M' xs ys
  | xs, [], hr => by simp only [RelL] at hr ⊢; exact hr
  | xs, y :: ys, hr => by
    simp only [RelL] at hr ⊢
    obtain ⟨x, xs', h1, h2, h3⟩ := hr
    exact ⟨x, xs', h1, h _ _ h2, relL_mono h xs' ys h3⟩
end

theorem mok_cons {M : TMap F} {k v : Term F} (hm : MOK M) (hn : look M k = none)
    (hr : Rel ((k, v) :: M) v k) : MOK ((k, v) :: M) := by
  intro ty tx hl
  by_cases he : k = ty
  · subst he
    rw [look_cons_self] at hl; cases hl
    exact hr
  · rw [look_cons_ne _ _ he] at hl
    exact rel_mono (sub_cons hn) tx ty (hm ty tx hl)

/-! ### new keys are no larger than the term they come from -/

mutual
theorem mapLeq_keys : (tx ty : Term F) → (M M' : TMap F) → mapLeq tx ty M = some M' →
    ∀ k, look M' k ≠ none → look M k ≠ none ∨ k.size ≤ ty.size
  | tx, .var n, M, M', h, k, hk => by
    simp only [mapLeq] at h
    split at h
    · split at h
      · cases h; exact Or.inl hk
      · cases h
    · cases h
      by_cases he : Term.var n = k
      · subst he; exact Or.inr (Nat.le_refl _)
      · rw [look_cons_ne _ _ he] at hk; exact Or.inl hk
  | tx, .const c, M, M', h, k, hk => by
    simp only [mapLeq] at h
    split at h
    · split at h
      · cases h; exact Or.inl hk
      · cases h
    · split at h
      · cases h
        by_cases he : Term.const c = k
        · subst he; exact Or.inr (Nat.le_refl _)
        · rw [look_cons_ne _ _ he] at hk; exact Or.inl hk
      · cases h
  | tx, .app g ys, M, M', h, k, hk => by
    unfold mapLeq at h
    split at h
    · split at h
      · cases h; exact Or.inl hk
      · cases h
    · split at h
      · rename_i f xs
        split at h
        · split at h
          · rename_i M1 h1
            cases h
            by_cases he : Term.app g ys = k
            · subst he; exact Or.inr (Nat.le_refl _)
            · rw [look_cons_ne _ _ he] at hk
              rcases mapLeqL_keys xs ys M M1 h1 k hk with h2 | h2
              · exact Or.inl h2
              · exact Or.inr (by simp only [Term.size]; omega)
          · cases h
        · cases h
      · cases h
theorem mapLeqL_keys : (xs ys : List (Term F)) → (M M' : TMap F) → mapLeqL xs ys M = some M' →
    ∀ k, look M' k ≠ none → look M k ≠ none ∨ k.size ≤ Term.sizeL ys
  | [], ys, M, M', h, k, hk => by simp only [mapLeqL] at h; cases h; exact Or.inl hk
  | x :: xs, [], M, M', h, k, hk => by simp only [mapLeqL] at h; cases h; exact Or.inl hk
  | x :: xs, y :: ys, M, M', h, k, hk => by
    simp only [mapLeqL] at h
    split at h
    · rename_i M1 h1
      rcases mapLeqL_keys xs ys M1 M' h k hk with h2 | h2
      · rcases mapLeq_keys x y M M1 h1 k h2 with h3 | h3
        · exact Or.inl h3
        · exact Or.inr (by simp only [Term.sizeL]; omega)
      · exact Or.inr (by simp only [Term.sizeL]; omega)
    · cases h
end

/-! ### the specification of `map_leq` -/

mutual
theorem mapLeq_spec : (tx ty : Term F) → (M M' : TMap F) → MOK M → mapLeq tx ty M = some M' →
    MOK M' ∧ Sub M M' ∧ look M' ty = some tx
  | tx, .var n, M, M', hm, h => by
    simp only [mapLeq] at h
    split at h
    · rename_i r hl
      split at h
      · rename_i he; cases h; subst he; exact ⟨hm, Sub.refl _, hl⟩
      · cases h
    · rename_i hl
      cases h
      exact ⟨mok_cons hm hl (by simp [Rel]), sub_cons hl, look_cons_self _ _ _⟩
  | tx, .const c, M, M', hm, h => by
    simp only [mapLeq] at h
    split at h
    · rename_i r hl
      split at h
      · rename_i he; cases h; subst he; exact ⟨hm, Sub.refl _, hl⟩
      · cases h
    · rename_i hl
      split at h
      · rename_i he
        cases h
        exact ⟨mok_cons hm hl (by simp only [Rel]; exact he), sub_cons hl, look_cons_self _ _ _⟩
      · cases h
  | tx, .app g ys, M, M', hm, h => by
    unfold mapLeq at h
    split at h
    · rename_i r hl
      split at h
      · rename_i he; cases h; subst he; exact ⟨hm, Sub.refl _, hl⟩
      · cases h
    · rename_i hl
      split at h
      · rename_i f xs
        split at h
        · rename_i hc
          obtain ⟨rfl, hlen⟩ := hc
          split at h
          · rename_i M1 h1
            cases h
            obtain ⟨a1, a2, a3⟩ := mapLeqL_spec xs ys M M1 hm hlen h1
            have hn : look M1 (Term.app f ys) = none := by
              cases hx : look M1 (Term.app f ys) with
              | none => rfl
              | some w =>
                rcases mapLeqL_keys xs ys M M1 h1 (Term.app f ys) (by rw [hx]; simp) with h2 | h2
                · exact absurd hl h2
                · simp only [Term.size] at h2; omega
            refine ⟨mok_cons a1 hn ?_, Sub.trans a2 (sub_cons hn), look_cons_self _ _ _⟩
            simp only [Rel]
            exact ⟨xs, rfl, relL_mono (sub_cons hn) xs ys a3⟩
          · cases h
        · cases h
      · cases h
theorem mapLeqL_spec : (xs ys : List (Term F)) → (M M' : TMap F) → MOK M → xs.length = ys.length →
    mapLeqL xs ys M = some M' → MOK M' ∧ Sub M M' ∧ RelL M' xs ys
  | [], [], M, M', hm, _, h => by
    simp only [mapLeqL] at h; cases h; exact ⟨hm, Sub.refl _, by simp [RelL]⟩
  | [], _ :: _, _, _, _, hlen, _ => by simp at hlen
  | _ :: _, [], _, _, _, hlen, _ => by simp at hlen
  | x :: xs, y :: ys, M, M', hm, hlen, h => by
    simp only [mapLeqL] at h
    simp only [List.length_cons, Nat.add_right_cancel_iff] at hlen
    split at h
    · rename_i M1 h1
      obtain ⟨a1, a2, a3⟩ := mapLeq_spec x y M M1 hm h1
      obtain ⟨b1, b2, b3⟩ := mapLeqL_spec xs ys M1 M' a1 hlen h
      refine ⟨b1, Sub.trans a2 b2, ?_⟩
      simp only [RelL]
      exact ⟨x, xs, rfl, b2 _ _ a3, b3⟩
    · cases h
end

/-! ### from the map to a valuation of the right table -/

/-- the valuation of the right table induced by `M` and a valuation `ρ` of the left table -/
def pull (M : TMap F) (ρ : Nat → Int) : Nat → Int := fun n =>
  match look M (.var n) with
  | some tx => tx.eval I ρ
  | none => 0

mutual
theorem pull_eval {M : TMap F} (hm : MOK M) (ρ : Nat → Int) :
    (ty tx : Term F) → look M ty = some tx → ty.eval I (pull I M ρ) = tx.eval I ρ
  | .var n, tx, hl => by simp [Term.eval, pull, hl]
  | .const k, tx, hl => by
    have := hm _ _ hl
    simp only [Rel] at this
    rw [this]; simp [Term.eval]
  | .app g ys, tx, hl => by
    have := hm _ _ hl
    simp only [Rel] at this
    obtain ⟨xs, rfl, hr⟩ := this
    simp only [Term.eval]
    rw [pull_evalL hm ρ ys xs hr]
theorem pull_evalL {M : TMap F} (hm : MOK M) (ρ : Nat → Int) :
    (ys xs : List (Term F)) → RelL M xs ys → Term.evalL I (pull I M ρ) ys = Term.evalL I ρ xs
  | [], xs, hr => by simp only [RelL] at hr; subst hr; rfl
  | y :: ys, xs, hr => by
    simp only [RelL] at hr
    obtain ⟨x, xs', rfl, h2, h3⟩ := hr
    simp only [Term.evalL]
    rw [pull_eval hm ρ y x h2, pull_evalL hm ρ ys xs' h3]
end

/-! ### the loop of `operator<=` -/

theorem leqGo_spec (s : St V) : (rest : List (V × Term F)) → (left : UVal V F) → left.WF → (M : TMap F) →
    MOK M → (ρ : Nat → Int) → Mod I ρ left.map s → leqGo rest left M = true →
    ∃ ρ' M', Ext left.next ρ ρ' ∧ MOK M' ∧ Sub M M' ∧
      ∀ p ∈ rest, ∃ tx, look M' p.2 = some tx ∧ tx.eval I ρ' = s p.1
  | [], left, _, M, hm, ρ, _, _ => ⟨ρ, M, Ext.refl _ _, hm, Sub.refl _, fun p hp => by simp at hp⟩
  | (v, ty) :: rest, left, hw, M, hm, ρ, hmod, h => by
    simp only [leqGo] at h
    split at h
    · rename_i M1 h1
      obtain ⟨ρ1, a1, a2, a3⟩ := termOfVar_spec I v hw hmod
      have w1 := termOfVar_wf v hw
      obtain ⟨m1, m2, m3⟩ := mapLeq_spec _ ty M M1 hm h1
      obtain ⟨ρ2, M2, b1, b2, b3, b4⟩ := leqGo_spec s rest (left.termOfVar v).2 w1.1 M1 m1 ρ1 a2 h
      refine ⟨ρ2, M2, Ext.trans a1 b1 (termOfVar_next left v), b2, Sub.trans m2 b3, ?_⟩
      intro p hp
      rcases List.mem_cons.1 hp with rfl | hp
      · refine ⟨(left.termOfVar v).1, b3 _ _ m3, ?_⟩
        rw [Term.eval_ext I b1 _ w1.2, a3]
      · exact b4 p hp
    · cases h

theorem leq_sound {a b : UF V F} (ha : a.WF) (h : UF.leq a b = true) (s : St V) (hg : UF.γ I a s) :
    UF.γ I b s := by
  match a, b with
  | .bot, _ => exact absurd hg id
  | .val ua, .bot => simp [UF.leq] at h
  | .val ua, .val ub =>
    obtain ⟨ρ, hm⟩ := hg
    simp only [UF.leq] at h
    obtain ⟨ρ', M', _, h2, _, h4⟩ := leqGo_spec I s ub.map ua ha [] (fun _ _ hl => by simp [look] at hl) ρ hm h
    refine ⟨pull I M' ρ', ?_⟩
    intro p hp
    obtain ⟨tx, hl, he⟩ := h4 p hp
    rw [pull_eval I h2 ρ' p.2 tx hl, he]

end Uf
end Fct
end Dom
end Crab
